#!/venv/bin/python
"""C20 - Fourier transform, state initialisation and phase estimation are exact.

S : TLC model-checks the oracle itself (spec/C20Qft.tla: Dft(L) unitary, inverse = adjoint, 1-qubit Dft = H,
    textbook construction = Dft for every ordered register; spec/C20Qpe.tla: the textbook phase-estimation machine
    returns bits(phi) with probability exactly 1 for every representable eigenphase).
V : gate lists recorded from the implementation (get_qft_circuit, StateVector.initializing_circuit /
    uncomputing_circuit, QPESolver / IterativeQPESolver circuits) are judged exactly by TLC (spec/C20Trace.tla).
G : the (Hamiltonian, time, register size, eigenstate) inputs of the phase-estimation part are enumerated by TLC
    (C20Qpe.tla prints every explored instance with its exact phase); the driver builds the solvers on them.
Python only drives the code, converts formats and compares floats with exact values TLC produced.
"""
import copy
import warnings
warnings.filterwarnings("ignore", category=SyntaxWarning)
import itertools
import math
import os
import random
import sys

sys.path.insert(0, os.path.join(os.path.dirname(os.path.abspath(__file__)), "..", "harness"))
import check  # noqa: E402
import tlc  # noqa: E402
from ring import angle_to_k, k_to_angle, to_complex  # noqa: E402
from enc import gates_to_json, OffGrid  # noqa: E402

MAXPAR = int(os.environ.get("VERIF_MAXPAR", "16"))
STRIP = ("case", "ctl", "value", "base")


def control_outcome(chk, part, ctl, base_ok, accepted):
    """Negative controls, robust for every seed.  A control is evaluated only when TLC accepted its base record.  Several
    candidate records are corrupted per corruption kind; a kind FAILS (binding failure, exit 2) only when it had evaluated
    candidates and NONE was rejected.  An accepted candidate next to rejected ones means that this corruption happened to be
    harmless for that record (e.g. reversing a palindromic bit string); it is counted, not raised."""
    kinds = {}
    for c in ctl:
        if not base_ok(c):
            continue
        k = kinds.setdefault(c["ctl"], [0, 0])
        k[0] += 1
        k[1] += 0 if accepted(c) else 1
    chk.part(part, corrupted=sum(k[0] for k in kinds.values()), rejected=sum(k[1] for k in kinds.values()),
             by_kind={n: {"evaluated": k[0], "rejected": k[1]} for n, k in sorted(kinds.items())})
    dead = sorted(n for n, k in kinds.items() if k[0] > 0 and k[1] == 0)
    if dead:
        raise tlc.TLCError("binding failure (%s): no corrupted record of kind %s was rejected" % (part, dead))


def submit_judge(pool, jobs, name, M, nchunks):
    """Split the records in chunks, one JVM each (spec/C20Trace.tla), all on the shared pool. Returns futures."""
    if not jobs:
        return []
    size = max(1, (len(jobs) + nchunks - 1) // nchunks)
    futs = []
    for ci in range(0, len(jobs), size):
        nm = "%s_%03d" % (name, ci // size)
        tlc.workdir(nm)
        path = tlc.write_json(nm, "jobs.json", [{k: v for k, v in j.items() if k not in STRIP} for j in jobs[ci:ci + size]])
        futs.append(pool.submit(tlc.run, module="C20Trace", cfg="CONSTANT M = %d\nINIT JInit\nNEXT JNext\n" % M,
                                name=nm + "/run", env={"VERIF_JOBS": path}, timeout=7200))
    return futs


def collect_judge(chk, futs, jobs):
    """{id: tuple of the verdict fields}; every record must have a verdict."""
    out = {}
    for f in futs:
        r = f.result()
        chk.add_tlc(r)
        for t in r.tuples("V"):
            out[t[0]] = tuple(t[1:])
    missing = [j["id"] for j in jobs if j["id"] not in out]
    if missing:
        raise tlc.TLCError("no verdict for records %s" % missing[:5])
    return out


# =====================================================================================================
# QFT
# =====================================================================================================
QFT_INVS = ["DftUnitary", "InvIsAdjoint", "OneQubitIsH", "BitRevInvol", "ModelExact", "FirstColumnUniform"]


def qft_s_cfg(M, N, W):
    return ("CONSTANTS M = %d\nN = %d\nW = %d\nINIT SInit\nNEXT SNext\n" % (M, N, W)
            + "".join("INVARIANT %s\n" % i for i in QFT_INVS))


def qft_s_runs(chk):
    runs = [(8, 1, 1), (8, 2, 1), (8, 2, 2), (8, 3, 2), (8, 3, 3), (8, 4, 3)]
    if not chk.quick:
        runs += [(8, 4, 1), (8, 4, 2), (16, 4, 4), (16, 3, 3)]
    return [dict(module="C20Qft", cfg=qft_s_cfg(M, N, W), name="c20/qft_s_M%d_N%d_W%d" % (M, N, W),
                 workers=(4 if N >= 4 else 1), timeout=7200) for M, N, W in runs], runs


def qft_call(case):
    """Run the real get_qft_circuit on a recorded case -> (n, gates json)."""
    from tangelo.toolboxes.ansatz_generator.ansatz_utils import get_qft_circuit
    arg = case["arg"]
    arg_in = copy.deepcopy(arg)
    circ = get_qft_circuit(arg, n_qubits=case["n_qubits"], inverse=case["inverse"], swap=case["swap"])
    if arg != arg_in:
        raise AssertionError("get_qft_circuit modified its qubit list argument: %r -> %r" % (arg_in, arg))
    n = max(circ.width, case["n_min"])
    if case["n_qubits"] is not None and circ.width != case["n_qubits"]:
        raise AssertionError("circuit width %d != requested n_qubits %d" % (circ.width, case["n_qubits"]))
    return n, gates_to_json(list(circ), case["M"])


def qft_cases(chk, rng):
    """(case dict) list: every ordered register of <= 3 qubits out of <= 4 (M = 8); thorough adds 4- and 5-qubit registers."""
    cases = []

    def add(M, L, n_qubits, inverse, swap, as_int=False):
        n_min = max(L) + 1 if L else 1
        cases.append({"M": M, "L": list(L), "arg": (len(L) if as_int else list(L)), "n_qubits": n_qubits,
                      "n_min": max(n_min, n_qubits or 0), "inverse": inverse, "swap": swap})

    flags = list(itertools.product((False, True), (False, True)))
    for n in (1, 2, 3, 4):
        for w in range(1, min(n, 3) + 1):
            for L in itertools.permutations(range(n), w):
                for inverse, swap in flags:
                    add(8, L, n, inverse, swap)
                    if max(L) + 1 < n and (n < 4 or not chk.quick):
                        add(8, L, None, inverse, swap)           # n_qubits left to the circuit
    for w in (1, 2, 3):
        for inverse, swap in flags:
            add(8, range(w), None, inverse, swap, as_int=True)   # integer argument = qubits 0..w-1
            add(8, range(w), 4, inverse, swap, as_int=True)
    if not chk.quick:
        perms4 = list(itertools.permutations(range(4), 4))
        for L in perms4:
            for inverse, swap in flags:
                add(16, L, 4, inverse, swap)
        for L in rng.sample(list(itertools.permutations(range(5), 4)), 6):
            for inverse, swap in flags:
                add(16, L, 5, inverse, swap)
        for L in [tuple(range(5)), tuple(reversed(range(5)))] + rng.sample(list(itertools.permutations(range(5), 5)), 2):
            for inverse, swap in flags:
                add(32, L, 5, inverse, swap)
        for inverse, swap in flags:
            add(16, range(4), None, inverse, swap, as_int=True)
    return cases


def qft_negative_controls(jobs):
    """Corrupt one recorded field: each corrupted record must be rejected by the trace spec."""
    ctl = []
    pick = [j for j in jobs if len(j["L"]) == 3 and j["n"] == 4][:4] + [j for j in jobs if len(j["L"]) == 2][:2]
    for j in pick:
        cp = [x for x, g in enumerate(j["gates"]) if g["name"] == "CPHASE"]
        c = copy.deepcopy(j); c["gates"][cp[0]]["k"] *= -1; c["ctl"] = "cphase-sign"; ctl.append(c)
        c = copy.deepcopy(j); c["gates"][cp[-1]]["k"] *= 2; c["ctl"] = "cphase-doubled"; ctl.append(c)
        c = copy.deepcopy(j); c["L"] = c["L"][::-1]; c["ctl"] = "register-reversed"; ctl.append(c)
        c = copy.deepcopy(j); c["inverse"] = not c["inverse"]; c["ctl"] = "inverse-flag"; ctl.append(c)
        c = copy.deepcopy(j); c["swap"] = not c["swap"]; c["ctl"] = "swap-flag"; ctl.append(c)
        c = copy.deepcopy(j); del c["gates"][0]; c["ctl"] = "gate-dropped"; ctl.append(c)
        c = copy.deepcopy(j); gg = c["gates"][cp[0]]
        other = [x for x in c["L"] if x not in gg["t"] + gg["c"]]
        if other:
            gg["c"] = other[:1]; c["ctl"] = "cphase-control-moved"; ctl.append(c)
    return ctl


def qft_record(chk, rng):
    """Phase A: run get_qft_circuit on every case -> {M: records (+ negative controls)}."""
    by_m = {}
    n_exc = 0
    for case in qft_cases(chk, rng):
        try:
            n, gj = qft_call(case)
        except OffGrid:
            chk.inconclusive += 1
            continue
        except Exception as e:
            n_exc += 1
            chk.violation("qft:exception:%s" % type(e).__name__, "%s: %s" % (type(e).__name__, e), {"kind": "qft", "case": case})
            continue
        jobs = by_m.setdefault(case["M"], [])
        jobs.append({"id": len(jobs) + 1, "kind": "qft", "n": n, "gates": gj, "L": case["L"], "inverse": case["inverse"],
                     "swap": case["swap"], "case": case})
    ctls = {}
    for M, jobs in by_m.items():
        ctls[M] = qft_negative_controls(jobs) if M == 8 else []
        for x, c in enumerate(ctls[M]):
            c["base"], c["id"] = c["id"], 10 ** 6 + x
    chk.part("V_qft", exceptions=n_exc, by_M={str(M): len(j) for M, j in by_m.items()})
    return by_m, ctls


def qft_account(chk, by_m, ctls, verdicts_by_m):
    total = 0
    for M, jobs in sorted(by_m.items()):
        verdicts, ctl = verdicts_by_m[M], ctls[M]
        for j in jobs:
            v = verdicts[j["id"]][0]
            chk.add_traces(1, "V_qft")
            total += 1
            if v != "ok":
                c = j["case"]
                key = "qft:%s:%s:w%d:%s" % ("inverse" if c["inverse"] else "forward", "swap" if c["swap"] else "noswap", len(c["L"]), v)
                chk.violation(key, "UnitaryOf(get_qft_circuit(%r, n_qubits=%r, inverse=%r, swap=%r)) != expected DFT operator: %s"
                              % (c["arg"], c["n_qubits"], c["inverse"], c["swap"], v), {"kind": "qft", "case": c})
        if ctl:
            control_outcome(chk, "negative_controls_qft", ctl, lambda c: verdicts[c["base"]][0] == "ok",
                            lambda c: verdicts[c["id"]][0] == "ok")
        if M == 8 and jobs:
            j = jobs[len(jobs) // 2]
            chk.sample({"kind": "qft", "L": j["L"], "n": j["n"], "inverse": j["inverse"], "swap": j["swap"], "gates": j["gates"],
                        "verdict": verdicts[j["id"]][0]})
    chk.part("V_qft", jobs=total)


def replay_qft(case):
    try:
        n, gj = qft_call(case)
    except Exception as e:
        print("get_qft_circuit raised %s: %s" % (type(e).__name__, e))
        return False
    job = {"id": 1, "kind": "qft", "n": n, "gates": gj, "L": case["L"], "inverse": case["inverse"], "swap": case["swap"]}
    verdicts, _ = tlc.judge("C20Trace", [job], "c20/replay", {"M": case["M"]})
    print("get_qft_circuit(%r, n_qubits=%r, inverse=%r, swap=%r) -> %d gates; TLC verdict: %s"
          % (case["arg"], case["n_qubits"], case["inverse"], case["swap"], len(gj), verdicts[1]))
    return verdicts[1] == "ok"


# =====================================================================================================
# State initialisation
# =====================================================================================================
class R:
    """Input generation only: exact elements of Z[zeta_M][1/2] as (coefficients, k) to WRITE amplitude vectors that
    are exactly representable; TLC re-checks that each vector has unit norm and does all the judging."""

    def __init__(self, M, c=None, k=0):
        self.M, self.c, self.k = M, list(c) if c else [0] * (M // 2), k
        while self.k > 0 and all(a % 2 == 0 for a in self.c):
            self.c = [a // 2 for a in self.c]
            self.k -= 1
        if not any(self.c):
            self.k = 0

    @staticmethod
    def zeta(M, j):
        c = [0] * (M // 2)
        j %= M
        if j < M // 2:
            c[j] = 1
        else:
            c[j - M // 2] = -1
        return R(M, c, 0)

    @staticmethod
    def zero(M):
        return R(M)

    def __mul__(self, o):
        h = self.M // 2
        c = [0] * h
        for a, x in enumerate(self.c):
            if x:
                for b, y in enumerate(o.c):
                    if y:
                        if a + b < h:
                            c[a + b] += x * y
                        else:
                            c[a + b - h] -= x * y
        return R(self.M, c, self.k + o.k)

    def __add__(self, o):
        K = max(self.k, o.k)
        return R(self.M, [a * 2 ** (K - self.k) + b * 2 ** (K - o.k) for a, b in zip(self.c, o.c)], K)

    def half(self):
        return R(self.M, self.c, self.k + 1)

    @staticmethod
    def invsqrt2(M):
        return (R.zeta(M, M // 8) + R.zeta(M, 3 * M // 8 + M // 2)).half()      # (zeta_8 - zeta_8^3) / 2

    @staticmethod
    def cos(M, j):
        return (R.zeta(M, j) + R.zeta(M, -j)).half()

    @staticmethod
    def sin(M, j):          # -i (z - 1/z) / 2
        return (R.zeta(M, -M // 4) * (R.zeta(M, j) + R.zeta(M, -j + M // 2))).half()

    def is_zero(self):
        return not any(self.c)

    def json(self):
        return {"c": list(self.c), "k": self.k}


def si_vectors(n, M, chk, rng):
    """Exactly representable unit vectors on n qubits (descriptor, [R])."""
    vecs = []
    dim = 2 ** n
    isq = R.invsqrt2(M)
    one = R.zeta(M, 0)

    def amp(s, p):
        a = R.zeta(M, p)
        for _ in range(s):
            a = a * isq
        return a

    # computational basis states (with a phase)
    for x in range(dim):
        for p in (0, M // 4, M // 2, 3 * M // 4):
            v = [R.zero(M)] * dim
            v[x] = amp(0, p)
            vecs.append(("basis", v))
    # equal magnitudes on an affine subspace of F_2^n, phases in {1, i, -1, -i}
    subspaces = set()
    for s in range(1, n + 1):
        for dirs in itertools.combinations(range(1, dim), s):
            span = {0}
            for d in dirs:
                span |= {y ^ d for y in span}
            if len(span) != 2 ** s:
                continue
            for base in range(dim):
                subspaces.add(tuple(sorted(y ^ base for y in span)))
    subspaces = sorted(subspaces)
    budget = {1: 10 ** 6, 2: (140 if chk.quick else 10 ** 6), 3: (60 if chk.quick else 400)}[n]
    allv = []
    for sup in subspaces:
        s = int(math.log2(len(sup)))
        if 4 ** len(sup) <= 256:
            phs = list(itertools.product(range(4), repeat=len(sup)))
        else:
            phs = [tuple(rng.randrange(4) for _ in sup) for _ in range(64)]
        for ph in phs:
            allv.append((sup, s, ph))
    if len(allv) > budget:
        allv = rng.sample(allv, budget)
    for sup, s, ph in allv:
        v = [R.zero(M)] * dim
        for x, p in zip(sup, ph):
            v[x] = amp(s, p * (M // 4))
        vecs.append(("equal-magnitude", v))
    # products of single-qubit grid states (cos a, e^{i f} sin a): magnitudes differ
    prods = []
    for _ in range(30 if n == 1 else (20 if chk.quick else 120)):
        v = [one]
        for q in range(n):
            a = rng.randrange(0, M // 2) if n == 1 else rng.choice([0, M // 8, M // 4, M // 16 or M // 8])
            f = rng.randrange(0, M // 4) * 4 if n > 1 else rng.randrange(M)
            g = rng.randrange(0, M // 4) * 4 if n > 1 else rng.randrange(M)
            q0, q1 = R.cos(M, a) * R.zeta(M, g), R.sin(M, a) * R.zeta(M, f + g)
            v = [x * y for x in v for y in (q0, q1)]
        prods.append(("product", v))
    return vecs + prods


def si_call(case):
    """Run the real StateVector on a recorded case -> list of (kind, gates json, phase index or None)."""
    import numpy as np
    from tangelo.linq.helpers.circuits.statevector import StateVector
    M, n = case["M"], case["n"]
    vec = np.array([to_complex(e, M) for e in case["v"]], dtype=complex)
    vec_in = vec.copy()
    sv = StateVector(vec, order=case["order"])
    out = []
    for kind, fn in (("init", sv.initializing_circuit), ("uncomp", sv.uncomputing_circuit)):
        circ, phase = fn(return_phase=True)
        if circ.width > n:
            raise AssertionError("%s circuit acts on %d qubits, vector has %d" % (kind, circ.width, n))
        ph = angle_to_k(float(phase), M, 1e-9)
        try:
            gj = gates_to_json(list(circ), M)
            if ph is None:
                raise OffGrid("phase %r" % phase)
            out.append((kind, gj, ph))
        except OffGrid:
            out.append((kind, None, None))
        plain = fn()
        if [(g.name, g.target, g.control, g.parameter) for g in plain] != [(g.name, g.target, g.control, g.parameter) for g in circ]:
            raise AssertionError("%s circuit differs between return_phase=True and False" % kind)
    if not np.array_equal(vec, vec_in):
        raise AssertionError("StateVector modified the caller's coefficient array")
    return out


def si_record(chk, rng):
    plan = [(1, 16), (2, 16), (3, 32)]
    by_m = {}
    n_vec = n_off = 0
    for n, M in plan:
        for fam, v in si_vectors(n, M, chk, rng):
            for order in ("msq_first", "lsq_first"):
                case = {"M": M, "n": n, "order": order, "family": fam, "v": [a.json() for a in v]}
                n_vec += 1
                try:
                    outs = si_call(case)
                except Exception as e:
                    chk.violation("stateinit:exception:%s" % type(e).__name__, "%s: %s" % (type(e).__name__, e),
                                  {"kind": "stateinit", "case": case})
                    continue
                for kind, gj, ph in outs:
                    if gj is None:
                        n_off += 1
                        chk.inconclusive += 1
                        continue
                    jobs = by_m.setdefault(M, [])
                    jobs.append({"id": len(jobs) + 1, "kind": kind, "n": n, "gates": gj, "ph": ph, "order": order,
                                 "v": case["v"], "case": case})
    ctls = {}
    for M, jobs in by_m.items():
        ctls[M] = si_negative_controls(jobs, M)
        for x, c in enumerate(ctls[M]):
            c["base"], c["id"] = c["id"], 10 ** 6 + x
    chk.part("V_stateinit", vectors_x_orders=n_vec, off_grid_circuits=n_off)
    return by_m, ctls


def si_account(chk, by_m, ctls, verdicts_by_m):
    total = 0
    for M, jobs in sorted(by_m.items()):
        verdicts, ctl = verdicts_by_m[M], ctls[M]
        for j in jobs:
            v = verdicts[j["id"]][0]
            total += 1
            chk.add_traces(1, "V_stateinit")
            if v == "ok":
                continue
            c = j["case"]
            if v == "ok-up-to-phase":
                if any("uncomputing_circuit(return_phase=True)" in d for d in chk.drift):
                    continue
                chk.spec_drift("uncomputing_circuit(return_phase=True): circuit maps the vector to |0..0> but the returned "
                               "phase does not cancel the residual phase (n=%d, %s, %s)" % (c["n"], c["order"], c["family"]))
                continue
            if v.startswith("malformed-vector"):
                raise tlc.TLCError("generated amplitude vector is not a unit vector of the ring: %s" % c)
            chk.violation("stateinit:%s:%s:n%d:%s" % (j["kind"], c["order"], c["n"], v),
                          "StateVector(%s, order=%s).%s: %s" % (c["family"], c["order"],
                                                                "initializing_circuit" if j["kind"] == "init" else "uncomputing_circuit", v),
                          {"kind": "stateinit", "case": c})
        control_outcome(chk, "negative_controls_stateinit_M%d" % M, ctl, lambda c: verdicts[c["base"]][0] == "ok",
                        lambda c: verdicts[c["id"]][0].startswith("ok"))
    if by_m.get(16):
        j = by_m[16][len(by_m[16]) // 2]
        chk.sample({"kind": j["kind"], "n": j["n"], "order": j["order"], "ph": j["ph"], "v": j["v"], "gates": j["gates"]})
    chk.part("V_stateinit", judged=total)


def si_negative_controls(jobs, M):
    """Up to 3 base records per (circuit kind, n, order); see control_outcome for the acceptance rule."""
    ctl = []
    seen = {}
    for j in jobs:
        rot = [x for x, g in enumerate(j["gates"]) if g["name"] == "RY" and g["k"] % (2 * M)]
        key = (j["kind"], j["n"], j["order"])
        if seen.get(key, 0) >= 3 or len(rot) < 1:
            continue
        seen[key] = seen.get(key, 0) + 1
        c = copy.deepcopy(j); c["gates"][rot[0]]["k"] += 2; c["ctl"] = "angle+1"; ctl.append(c)
        c = copy.deepcopy(j); c["order"] = "lsq_first" if j["order"] == "msq_first" else "msq_first"; c["ctl"] = "order"
        if j["n"] > 1 and c["v"] != [c["v"][int(format(i, "0%db" % j["n"])[::-1], 2)] for i in range(len(c["v"]))]:
            ctl.append(c)
        if j["kind"] == "init":
            c = copy.deepcopy(j); c["ph"] += 1; c["ctl"] = "phase+1"; ctl.append(c)
            c = copy.deepcopy(j); c["ph"] = -c["ph"]; c["ctl"] = "phase-sign"
            if (2 * j["ph"]) % M:
                ctl.append(c)
    return ctl


def replay_stateinit(case):
    try:
        outs = si_call(case)
    except Exception as e:
        print("StateVector raised %s: %s" % (type(e).__name__, e))
        return False
    jobs = [{"id": x + 1, "kind": kind, "n": case["n"], "gates": gj, "ph": ph, "order": case["order"], "v": case["v"]}
            for x, (kind, gj, ph) in enumerate(outs) if gj is not None]
    verdicts, _ = tlc.judge("C20Trace", jobs, "c20/replay", {"M": case["M"]})
    for j in jobs:
        print("%s circuit (%d gates, phase index %s): TLC verdict %s" % (j["kind"], len(j["gates"]), j["ph"], verdicts[j["id"]]))
    return all(v.startswith("ok") for v in verdicts.values())


# =====================================================================================================
# Phase estimation
# =====================================================================================================
QPE_INVS = ["EigenOK", "QpeNorm", "QpeCertain", "QpeFourierState", "IqpeCertain", "IqpeNorm"]
QPE_ACTIONS = ["QStart", "QCtrl", "QIqft", "IRound", "IMeasure"]


def qpe_s_run(chk):
    cfg = ("CONSTANTS M = 8\nMaxReg = 3\nMaxQubits = %d\nINIT Init\nNEXT Next\n" % (4 if chk.quick else 5)
           + "".join("INVARIANT %s\n" % i for i in QPE_INVS))
    return dict(module="C20Qpe", cfg=cfg, name="c20/qpe_s", workers=(6 if chk.quick else 8), coverage=True, timeout=7200)


def qpe_operator(inst):
    from tangelo.toolboxes.operators import QubitOperator
    op = QubitOperator()
    for t in inst["terms"]:
        word = tuple((q, "IXYZ"[l]) for q, l in enumerate(t["w"]) if l)
        op += QubitOperator(word, float(t["k"]))
    return op


def _g(name, t, c=(), k=0):
    return {"name": name, "t": list(t), "c": list(c), "k": k}


# user circuits for CircuitUnitary (M = 8 grid); only gates whose controlled version exists in the gate set
# (S, T and XX have none: CS / CT / CXX are refused by the backends - a documented limitation, not part of C20)
USER_CIRCUITS = [
    (1, [_g("PHASE", [0], k=1)]),
    (1, [_g("PHASE", [0], k=1), _g("PHASE", [0], k=2), _g("Z", [0])]),
    (1, [_g("RZ", [0], k=2), _g("PHASE", [0], k=-1)]),
    (1, [_g("X", [0])]),
    (1, [_g("Y", [0]), _g("Z", [0]), _g("RX", [0], k=4)]),
    (1, [_g("H", [0])]),
    (2, [_g("CPHASE", [1], [0], 3)]),
    (2, [_g("CNOT", [1], [0]), _g("RZ", [1], k=2), _g("CNOT", [1], [0]), _g("PHASE", [0], k=1)]),
    (2, [_g("SWAP", [0, 1]), _g("PHASE", [0], k=2), _g("PHASE", [1], k=2)]),
    (2, [_g("CRX", [1], [0], 4), _g("CZ", [1], [0])]),
    (2, [_g("CRZ", [0], [1], 4), _g("PHASE", [1], k=1)]),
    (2, [_g("CNOT", [0], [1]), _g("X", [1])]),
    (2, [_g("CY", [1], [0]), _g("RY", [0], k=8)]),
]


def prep_json(kind, x, ns):
    g = [{"name": "X", "t": [q], "c": [], "k": 0} for q in range(ns) if (x >> (ns - 1 - q)) & 1]
    if kind == "bell":
        g += [{"name": "H", "t": [0], "c": [], "k": 0}, {"name": "CNOT", "t": [1], "c": [0], "k": 0}]
    elif kind == "plus":
        g += [{"name": "H", "t": [q], "c": [], "k": 0} for q in range(ns)]
    return g


def qpe_build(case):
    """Build the real solver for a recorded case, run it -> dict(job fields, value returned by simulate())."""
    import numpy as np
    from tangelo.linq import Circuit
    from tangelo.algorithms.projective.qpe import QPESolver
    from tangelo.algorithms.projective.iqpe import IterativeQPESolver
    from tangelo.toolboxes.ansatz_generator.ansatz_utils import trotterize
    from enc import json_to_gates
    M, ns, m = case["M"], case["ns"], case["m"]
    ref = Circuit(json_to_gates(case["prep"], M), n_qubits=ns)
    opts = {"size_qpe_register": m, "ref_state": ref, "backend_options": {"target": "cirq"}}
    job = {"ns": ns, "m": m, "utype": case["utype"], "terms": case.get("terms", []), "tm": case.get("tm", 0), "ugates": []}
    var = case["variant"]
    if var["unitary"] == "trotter":
        opts["qubit_hamiltonian"] = qpe_operator(case)
        opts["unitary_options"] = {"time": k_to_angle(case["tm"], M), "n_trotter_steps": var.get("steps", 1),
                                   "trotter_order": var.get("order", 1), "n_steps_method": var["method"]}
    else:
        if case["utype"] == "terms":
            # a user circuit for exp(-iHt): the code's own (C06-validated) uncontrolled Trotter circuit, marked variational
            ucirc = trotterize(qpe_operator(case), k_to_angle(case["tm"], M), 1, 1, variational=(var["method"] == "variational"))
            ucirc = Circuit(list(ucirc))
            job["utype"] = "circuit"
        else:
            ucirc = Circuit(json_to_gates(case["ugates"], M))
        if var.get("fixed_width"):
            ucirc = Circuit(list(ucirc), n_qubits=ns)        # a user circuit that declares its own width
        if ucirc.width != ns:
            raise OffGrid("user circuit does not touch every state qubit: the solver would place the register elsewhere")
        job["ugates"] = gates_to_json(list(ucirc), M)
        opts["unitary"] = ucirc
        opts["unitary_options"] = {"control_method": var["method"]}
    np.random.seed(case.get("np_seed", 0))
    if var["solver"] == "qpe":
        solver = QPESolver(opts)
        solver.build()
        job.update(kind="qpe", n=solver.circuit.width, prep=gates_to_json(list(solver.reference_circuit), M),
                   gates=gates_to_json(list(solver.circuit), M))
        value = solver.simulate()
        value2 = solver.simulate()
        if value2 != value:
            raise AssertionError("second simulate() returned %r, first %r" % (value2, value))
        return [job], value
    # iterative: drive the classical-control object through every outcome string (on a second, identically built solver)
    opts.pop("backend_options")
    opts["backend_options"] = {"target": "cirq", "n_shots": 1}
    rec = IterativeQPESolver(dict(opts))
    rec.build()
    gates0 = list(rec.circuit)
    if [g.name for g in gates0 if g.name == "CMEASURE"] != ["CMEASURE"] or gates0[-1].name != "CMEASURE":
        raise AssertionError("unexpected initial iQPE circuit %s" % [g.name for g in gates0])
    seg0 = gates_to_json(gates0[:-1], M)
    prep = gates_to_json(list(rec.reference_circuit), M)
    branches = []
    for outs in itertools.product((0, 1), repeat=m):
        segs = [[]]          # the reference gates are the job's prep: segs[0] holds nothing more
        new = rec.cfunc.return_gates("0")          # the first, meaningless, measurement of the fresh ancilla
        for b in outs:
            if not new or new[-1].name != "CMEASURE":
                raise AssertionError("iQPE control returned no measurement before the register was complete")
            segs.append(gates_to_json(new[:-1], M))
            new = rec.cfunc.return_gates(str(b))
        if new:
            raise AssertionError("iQPE control keeps returning gates after %d bits" % m)
        rec.cfunc.finalize()
        branches.append({"outs": list(outs), "segs": segs})
    if seg0 != prep:
        raise AssertionError("initial iQPE circuit is not the reference circuit followed by one CMEASURE")
    job.update(kind="iqpe", n=ns + 1, prep=prep, branches=branches, realised=False)
    solver = IterativeQPESolver(dict(opts))
    solver.build()
    value = solver.simulate()
    # the realised run: applied gates with the measured outcomes
    segs, outs, cur = [], [], []
    for g in solver.circuit.applied_gates:
        if g.name == "CMEASURE":
            segs.append(gates_to_json(cur, M))
            outs.append(int(g.parameter))
            cur = []
        else:
            cur.append(g)
    if cur:
        raise AssertionError("gates applied after the last measurement of the iQPE run")
    if not outs or outs[0] != 0 or segs[0] != prep:
        raise AssertionError("realised iQPE run does not start with the reference circuit and a 0 outcome on the fresh ancilla")
    job2 = dict(job, branches=[{"outs": outs[1:], "segs": [[]] + segs[1:]}], realised=True)
    return [job, job2], value


QPE_VARIANTS_QUICK = [
    {"solver": "qpe", "unitary": "trotter", "method": "time"},
    {"solver": "qpe", "unitary": "trotter", "method": "repeat"},
    {"solver": "qpe", "unitary": "circuit", "method": "all"},
    {"solver": "qpe", "unitary": "circuit", "method": "variational"},
    {"solver": "iqpe", "unitary": "trotter", "method": "time"},
    {"solver": "iqpe", "unitary": "circuit", "method": "all"},
]
QPE_VARIANTS_MORE = [
    {"solver": "iqpe", "unitary": "trotter", "method": "repeat"},
    {"solver": "iqpe", "unitary": "circuit", "method": "variational"},
]
# second-order formula / two Trotter steps: still exact for commuting terms; the halved angles need the 2pi/16 grid
QPE_VARIANTS_M16 = [
    {"solver": "qpe", "unitary": "trotter", "method": "time", "steps": 2, "order": 1},
    {"solver": "iqpe", "unitary": "trotter", "method": "repeat", "steps": 1, "order": 2},
    {"solver": "qpe", "unitary": "trotter", "method": "repeat", "steps": 2, "order": 2},
]


def qpe_cases(chk, rng, insts):
    cases = []
    if chk.quick:
        # every Hamiltonian / preparation kind / register size at least once, then a seeded sample
        seen, keep = set(), []
        order = list(insts)
        rng.shuffle(order)
        for q in order:
            key = (q["h"], q["kind"], q["m"])
            if key not in seen:
                seen.add(key)
                keep.append(q)
        insts = keep[:45]
    for x, q in enumerate(insts):
        base = {"M": 8, "ns": q["ns"], "m": q["m"], "utype": "terms", "terms": q["terms"], "tm": q["tm"], "prep": q["prep"],
                "spec_j": q["j"], "inst": {k: q[k] for k in ("h", "kind", "x")}}
        variants = QPE_VARIANTS_QUICK if not chk.quick else [QPE_VARIANTS_QUICK[i] for i in ((x % 2), 2 + (x % 2), 4 + (x % 2))]
        for var in variants + ([] if chk.quick else QPE_VARIANTS_MORE):
            cases.append(dict(base, variant=var))
        if (not chk.quick and x % 4 == 0) or (chk.quick and x % 15 == 0):
            for var in (QPE_VARIANTS_M16 if not chk.quick else QPE_VARIANTS_M16[x // 15 % 3:][:1]):
                if q["ns"] + q["m"] <= 4:
                    cases.append(dict(base, M=16, tm=2 * q["tm"], variant=var))      # same time t = 2 pi (2 tm) / 16
    # user circuits (inputs chosen here; TLC decides whether the prepared state is an eigenstate and which phase it has)
    for ns, ug in USER_CIRCUITS:
        for kind in ("basis", "bell", "plus"):
            if kind == "bell" and ns != 2:
                continue
            for xx in range(2 ** ns):
                for m in ((3,) if chk.quick else (1, 2, 3)):
                    if chk.quick and (xx + len(ug) + m) % 2:
                        continue
                    for solver in ("qpe", "iqpe"):
                        cases.append({"M": 8, "ns": ns, "m": m, "utype": "circuit", "ugates": ug, "prep": prep_json(kind, xx, ns),
                                      "variant": {"solver": solver, "unitary": "circuit", "method": "all"},
                                      "inst": {"user_circuit": True, "kind": kind, "x": xx}})
    # a user circuit that declares its own width (Circuit(..., n_qubits=ns)): still a circuit unitary
    for solver in ("qpe", "iqpe"):
        cases.append({"M": 8, "ns": 1, "m": 3, "utype": "circuit", "ugates": USER_CIRCUITS[0][1], "prep": prep_json("basis", 1, 1),
                      "variant": {"solver": solver, "unitary": "circuit", "method": "all", "fixed_width": True},
                      "inst": {"user_circuit": True, "kind": "basis", "x": 1}})
    return cases


def qpe_record(chk, cases):
    jobs = []
    for case in cases:
        try:
            js, value = qpe_build(case)
        except OffGrid:
            chk.inconclusive += 1
            continue
        except Exception as e:
            key = ("qpe:circuit-unitary:fixed-width-circuit:exception" if case["variant"].get("fixed_width")
                   else "qpe:exception:%s:%s" % (case["variant"]["solver"], type(e).__name__))
            chk.violation(key, "%s: %s" % (type(e).__name__, e), {"kind": "qpe", "case": case})
            continue
        for j in js:
            j["id"] = len(jobs) + 1
            j["case"] = case
            j["value"] = value
            jobs.append(j)
    return jobs


def qpe_key(case, v):
    var = case["variant"]
    return "%s:%s:%s:m%d:%s" % (var["solver"], var["unitary"], var["method"], case["m"], v)


def _bits_lsb_first(J, m):
    return [(J >> i) & 1 for i in range(m)]


def qpe_negative_controls(jobs):
    """Corruptions of recorded phase-estimation records.  Base records are chosen by a property of the instance that makes
    the corruption a real one (J = the spec's phase numerator, known for the TLC-enumerated instances without identity
    term): the last stages / the feedback only matter when the least significant bit of J is set, a time reversal maps
    J to -J mod 2^m, a bit-order reversal needs a non-palindromic bit string.  Up to 3 base records per corruption kind and
    record type; control_outcome requires at least one rejection per kind."""
    ctl = []
    count = {}

    def want(kind, j):
        key = (kind, j["kind"], j["case"]["variant"]["unitary"], j.get("realised", False))
        if count.get(key, 0) >= 3:
            return False
        count[key] = count.get(key, 0) + 1
        return True

    for j in jobs:
        case = j["case"]
        if "spec_j" not in case or j["m"] < 2 or not all(any(t["w"]) for t in case["terms"]):
            continue
        J, m = case["spec_j"], j["m"]
        bits = _bits_lsb_first(J, m)
        odd, palindrome = J % 2 == 1, bits == bits[::-1]
        if j["kind"] == "qpe":
            cp = [x for x, g in enumerate(j["gates"]) if g["name"] == "CPHASE"]
            if odd and cp and want("iqft-cphase-sign", j):
                c = copy.deepcopy(j); c["gates"][cp[-1]]["k"] *= -1; c["ctl"] = "iqft-cphase-sign"; ctl.append(c)
            if want("last-gate-dropped", j):
                c = copy.deepcopy(j); del c["gates"][-1]; c["ctl"] = "last-gate-dropped"; ctl.append(c)
            if j["utype"] == "terms" and (2 * J) % (2 ** m) != 0 and want("time-sign", j):
                c = copy.deepcopy(j); c["tm"] = -c["tm"]; c["ctl"] = "time-sign"; ctl.append(c)
        else:
            if odd and want("feedback-sign", j):
                c = copy.deepcopy(j)
                for br in c["branches"]:
                    for seg in br["segs"][2:]:
                        fb = [g for g in seg[:3] if g["name"] == "PHASE"][:1]      # the feedback phase follows the first H
                        for g in fb:
                            g["k"] = -g["k"]
                c["ctl"] = "feedback-sign"; ctl.append(c)
            if not palindrome and want("bit-order", j):
                c = copy.deepcopy(j)
                for br in c["branches"]:
                    br["outs"] = br["outs"][::-1]
                c["ctl"] = "bit-order"; ctl.append(c)
    return ctl


def qpe_judge_account(chk, jobs, verdict_tuples, ctl):
    """verdict_tuples: {id: (verdict, J)}"""
    n_ok = n_skip = 0
    skipped = {}
    for j in jobs:
        v, J = verdict_tuples[j["id"]]
        case = j["case"]
        if v.startswith("skip-"):
            n_skip += 1
            skipped[v] = skipped.get(v, 0) + 1
            continue
        if v == "malformed-input":
            raise tlc.TLCError("malformed phase-estimation input record: %s" % case)
        chk.add_traces(1, "V_" + j["kind"])
        if "spec_j" in case and j["utype"] == "terms" and case["spec_j"] != J:
            raise tlc.TLCError("trace spec and C20Qpe disagree on the eigenphase of %s: %s vs %s" % (case, J, case["spec_j"]))
        if v != "ok":
            chk.violation(qpe_key(case, v), "%s circuit does not return the eigenphase %d/2^%d with certainty: %s"
                          % (case["variant"]["solver"], J, case["m"], v), {"kind": "qpe", "case": case})
            continue
        want = J / 2.0 ** case["m"]
        if not (isinstance(j["value"], (int, float)) and j["value"] == want):
            chk.violation(qpe_key(case, "returned-value"), "simulate() returned %r, the eigenphase is %d/2^%d = %r"
                          % (j["value"], J, case["m"], want), {"kind": "qpe", "case": case})
            continue
        n_ok += 1
    control_outcome(chk, "negative_controls_qpe", ctl, lambda c: verdict_tuples[c["base"]][0] == "ok",
                    lambda c: verdict_tuples[c["id"]][0] == "ok")
    chk.part("V_qpe_summary", judged_ok=n_ok, skipped_inputs=skipped)
    if n_ok == 0 and not chk.violations:
        raise tlc.TLCError("no phase-estimation record was judged")


def replay_qpe(case):
    try:
        js, value = qpe_build(case)
    except Exception as e:
        print("solver raised %s: %s" % (type(e).__name__, e))
        return False
    for x, j in enumerate(js):
        j["id"] = x + 1
    _, results = tlc.judge("C20Trace", [{k: v for k, v in j.items() if k not in STRIP} for j in js], "c20/replay", {"M": case["M"]})
    ok = True
    for r in results:
        for t in r.tuples("V"):
            print("job %d: TLC verdict %s, eigenphase J = %s (register of %d); simulate() returned %r"
                  % (t[0], t[1], t[2], case["m"], value))
            if t[1].startswith("skip-"):
                continue
            ok = ok and t[1] == "ok" and value == t[2] / 2.0 ** case["m"]
    return ok


# =====================================================================================================
def run(chk):
    import concurrent.futures as cf
    pool = cf.ThreadPoolExecutor(max_workers=MAXPAR)
    # ---- S runs in the background (they only need TLC) -----------------------------------------
    qft_runs, qft_params = qft_s_runs(chk)
    f_qpe_s = pool.submit(tlc.run, **qpe_s_run(chk))
    f_qft_s = [pool.submit(tlc.run, **r) for r in qft_runs]
    # ---- phase A (drive the code, record) / phase B (TLC judges, background) -----------------------
    qft_by_m, qft_ctl = qft_record(chk, random.Random(chk.seed))
    f_qft_v = {M: submit_judge(pool, jobs + qft_ctl[M], "c20/qft_v_M%d" % M, M, 4 if chk.quick else 8) for M, jobs in qft_by_m.items()}
    si_by_m, si_ctl = si_record(chk, random.Random(chk.seed + 1))
    f_si_v = {M: submit_judge(pool, jobs + si_ctl[M], "c20/si_v_M%d" % M, M, 3 if chk.quick else 6) for M, jobs in si_by_m.items()}
    # phase estimation needs the instances enumerated by TLC
    r = f_qpe_s.result()
    if not r.ok:
        raise tlc.TLCError("C20Qpe: the textbook phase-estimation machine violates %s\n%s" % (r.violated, r.out[-1500:]))
    chk.add_tlc(r, "S_qpe")
    cov = r.coverage_counts()
    chk.part("S_qpe", actions={a: cov.get(a, (0, 0))[1] for a in QPE_ACTIONS})
    if any(cov.get(a, (0, 0))[1] == 0 for a in QPE_ACTIONS):
        raise tlc.TLCError("C20Qpe: an action was never taken: %s" % cov)
    insts = sorted(r.prints("QI"), key=lambda q: (q["h"], q["kind"], q["x"], q["tm"], q["m"]))
    if not insts:
        raise tlc.TLCError("C20Qpe exported no instance")
    chk.part("G_qpe_instances", enumerated_by_tlc=len(insts))
    qpe_jobs = qpe_record(chk, qpe_cases(chk, random.Random(chk.seed + 2), insts))
    qpe_ctl = qpe_negative_controls(qpe_jobs)
    for x, c in enumerate(qpe_ctl):
        c["base"], c["id"] = c["id"], 10 ** 6 + x
    f_qpe_v = []
    for Mq in sorted({j["case"]["M"] for j in qpe_jobs}):
        part = [j for j in qpe_jobs + qpe_ctl if j["case"]["M"] == Mq]
        f_qpe_v += submit_judge(pool, part, "c20/qpe_v_M%d" % Mq, Mq, (6 if chk.quick else 16) if Mq == 8 else (2 if chk.quick else 6))
    # ---- phase C: collect and account ---------------------------------------------------------------
    for (M, N, W), f in zip(qft_params, f_qft_s):
        r = f.result()
        if not r.ok:
            raise tlc.TLCError("C20Qft: the oracle / algorithm model is inconsistent: %s\n%s" % (r.violated, r.out[-1500:]))
        chk.add_tlc(r, "S_qft_M%d_N%d_W%d" % (M, N, W))
    qft_account(chk, qft_by_m, qft_ctl, {M: collect_judge(chk, f_qft_v[M], qft_by_m[M] + qft_ctl[M]) for M in qft_by_m})
    si_account(chk, si_by_m, si_ctl, {M: collect_judge(chk, f_si_v[M], si_by_m[M] + si_ctl[M]) for M in si_by_m})
    qpe_judge_account(chk, qpe_jobs, collect_judge(chk, f_qpe_v, qpe_jobs + qpe_ctl), qpe_ctl)
    for j in qpe_jobs[:1] + [q for q in qpe_jobs if q["kind"] == "iqpe"][:1]:
        chk.sample({"kind": j["kind"], "variant": j["case"]["variant"], "m": j["m"], "terms": j["terms"], "tm": j["tm"],
                    "prep": j["prep"], "returned": j["value"]})
    pool.shutdown()
    chk.cov["rule"] = ("QFT: every ordered register of <=3 qubits out of <=4 x inverse x swap x n_qubits given/implicit "
                       "(thorough: 4- and 5-qubit registers at M=16/32), exact unitary equality judged by TLC. "
                       "State initialisation: basis states, equal-magnitude superpositions on affine subspaces with phases +-1,+-i, "
                       "products of single-qubit grid states, n<=3, both orders, exact. Phase estimation: instances enumerated by TLC "
                       "(commuting Hamiltonians x time x register x eigenstate with representable phase) x solver variants, "
                       "exact ancilla distribution / every outcome branch.")
    chk.assumptions += ["QFT angles pi/2^j are on the 2pi/M grid for registers up to log2(M) qubits: exact, no interpolation needed",
                        "state initialisation: only vectors whose disentangling angles stay on the 2pi/M grid are decided; "
                        "the others are counted as inconclusive (generic complex vectors are NOT decided)",
                        "phase estimation: Hamiltonians of pairwise commuting Pauli words with integer coefficients, t = 2 pi tm / 8; "
                        "cirq backend; simulate() value compared with TLC's exact dyadic phase"]


def replay(chk, rec):
    case = rec["case"]
    if case.get("kind") == "qft":
        return replay_qft(case["case"])
    if case.get("kind") == "qpe":
        return replay_qpe(case["case"])
    if case.get("kind") == "stateinit":
        return replay_stateinit(case["case"])
    print(rec)
    return False


if __name__ == "__main__":
    check.main("C20", run, replay)
