#!/venv/bin/python
"""Runs spec/LibCheck.tla: the self-checks of the specification library (ring axioms, gate unitarity,
Pauli products against matrices, CAR on the Fock model, spec JW against the Fock model)."""
import os, sys
sys.path.insert(0, os.path.join(os.path.dirname(os.path.abspath(__file__)), "..", "harness"))
import tlc


def run_libcheck(Ms=(8, 16)):
    out = {}
    rs = tlc.run_many([dict(module="LibCheck", cfg="CONSTANT M = %d\nINIT Init\nNEXT Next\n" % M, name="libcheck/M%d" % M)
                       for M in Ms])
    for M, r in zip(Ms, rs):
        for name, ok in r.tuples("LC"):
            out[(M, name)] = ok
    rs = tlc.run_many([dict(module="CliffordCheck", cfg="CONSTANT M = %d\nINIT Init\nNEXT Next\n" % M, name="libcheck/cliff_M%d" % M)
                       for M in Ms])
    for M, r in zip(Ms, rs):
        for name, ok in r.tuples("LC"):
            out[(M, name)] = ok
    return out


if __name__ == "__main__":
    res = run_libcheck()
    bad = [k for k, v in res.items() if v is not True]
    for k, v in sorted(res.items()):
        print(k, v)
    print("libcheck: %d checks, %d failed" % (len(res), len(bad)))
    sys.exit(2 if bad or not res else 0)
