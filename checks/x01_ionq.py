#!/venv/bin/python
"""Extension X01 (not one of the listed properties): IonQ REST job life-cycle.

S: TLC model-checks spec/X01IonqJob.tla (server x client interleavings; ReturnOnlyCompleted, NoEarlyExit,
   SleepAccounting, DecodeOK, PollEnabled, ObsGrows).
G: every complete behaviour TLC finds (sequence of answers the client observes) is replayed against the real
   IonQConnection with a scripted fake `requests` module and a counting `time.sleep`; outcome (returned / raised /
   cancelled), number of status requests, number of sleeps and the decoded histogram must equal the spec's.
"""
import json
import os
import sys

sys.path.insert(0, os.path.join(os.path.dirname(os.path.abspath(__file__)), "..", "harness"))
import check  # noqa: E402
import tlc  # noqa: E402

CFG = """CONSTANTS MaxPolls = %d
NQ = 3
HistKeys = {1, 6}
INIT Init
NEXT Next
INVARIANT TypeOK
INVARIANT ReturnOnlyCompleted
INVARIANT NoEarlyExit
INVARIANT SleepAccounting
INVARIANT DecodeOK
INVARIANT PollEnabled
INVARIANT ExportDone
PROPERTY ObsGrows
"""


class Resp:
    def __init__(self, d):
        self.text = json.dumps(d)


class FakeRQ:
    """Scripted REST service: answers follow the observation sequence of one spec behaviour."""

    def __init__(self, obs, with_data):
        self.obs = list(obs)
        self.with_data = with_data
        self.log = []

    def _next(self):
        return self.obs.pop(0) if self.obs else "exhausted"

    def get(self, url, headers=None):
        if url.endswith("/jobs"):                       # login / history: not part of the schedule
            return Resp({"jobs": []})
        a = self._next()
        self.log.append(("GET", a))
        if a == "error":
            return Resp({"error": "scripted failure"})
        if a == "completed+data":
            return Resp({"id": "j1", "status": "completed", "qubits": 3, "data": {"histogram": {"1": 0.25, "6": 0.75}}})
        return Resp({"id": "j1", "status": a, "qubits": 3})

    def post(self, url, headers=None, data=None):
        a = self._next()
        self.log.append(("POST", a))
        if a == "error":
            return Resp({"error": "scripted failure"})
        return Resp({"id": "j1", "status": "submitted"})

    def delete(self, url, headers=None):
        a = self._next()
        self.log.append(("DELETE", a))
        if a == "error":
            return Resp({"error": "scripted failure"})
        return Resp({"id": "j1", "status": "canceled"})


class FakeTime:
    def __init__(self):
        self.sleeps = 0

    def sleep(self, t):
        self.sleeps += 1


def replay_behaviour(bh):
    os.environ["IONQ_APIKEY"] = "dummy"
    import tangelo.linq.qpu_connection.ionq_connection as ic
    from tangelo.linq import Circuit, Gate
    fake, ft = FakeRQ(bh["obs"], bh["withData"]), FakeTime()
    old_rq, old_time = ic.rq, ic.time
    ic.rq, ic.time = fake, ft
    outcome, result = None, None
    try:
        conn = ic.IonQConnection()
        try:
            jid = conn.job_submit("simulator", Circuit([Gate("H", 0), Gate("CNOT", 1, 0), Gate("X", 2)]), 100, "t")
        except RuntimeError:
            return "raised", None, 0, 0, fake
        rest = bh["obs"][1:]
        if rest and rest[0] in ("canceled",) or (bh["client"] == "cancelled") or (bh["client"] == "raised" and bh["polls"] == 0 and rest):
            try:
                conn.job_cancel(jid)
                outcome = "cancelled"
            except RuntimeError:
                outcome = "raised"
        else:
            try:
                result = conn.job_results(jid, wait_time=0)
                outcome = "returned"
            except RuntimeError:
                outcome = "raised"
    finally:
        ic.rq, ic.time = old_rq, old_time
    n_get = sum(1 for m, _ in fake.log if m == "GET")
    return outcome, result, n_get, ft.sleeps, fake


def run(chk):
    mp = 4 if chk.quick else 6
    r = tlc.run("X01IonqJob", CFG % mp, "x01/bfs", workers=4, coverage=True, timeout=3600)
    if not r.ok:
        raise tlc.TLCError("X01 spec violated: %s\n%s" % (r.violated, r.out[-1500:]))
    chk.add_tlc(r, "bfs")
    cov = r.coverage_counts()
    chk.part("coverage", **{k: v[1] for k, v in cov.items() if k in ("Submit", "StartResults", "Poll", "Cancel", "ServerAdvance", "ServerError")})
    seen = set()
    for bh in r.prints("BH"):
        key = json.dumps(bh, sort_keys=True)
        if key in seen:
            continue
        seen.add(key)
        outcome, result, n_get, sleeps, fake = replay_behaviour(bh)
        chk.add_traces(1, "behaviours")
        exp_res = None
        if bh["client"] == "returned":
            exp_res = {"".join(str(b) for b in bits) for bits in bh["result"]}
        bad = None
        if outcome != bh["client"]:
            bad = "outcome %s, spec %s" % (outcome, bh["client"])
        elif n_get != bh["polls"]:
            bad = "status requests %d, spec %d" % (n_get, bh["polls"])
        elif sleeps != bh["sleeps"]:
            bad = "sleeps %d, spec %d" % (sleeps, bh["sleeps"])
        elif exp_res is not None and set(result.keys()) != exp_res:
            bad = "histogram keys %s, spec %s" % (sorted(result), sorted(exp_res))
        elif fake.obs:
            bad = "client stopped early: unconsumed answers %s" % fake.obs
        if bad:
            chk.violation("ionq-job:%s" % bh["client"], bad, {"bh": bh})
    chk.sample({"behaviour": json.loads(sorted(seen)[len(seen) // 2])})
    chk.cov["rule"] = "all complete client/server interleavings with <= %d status requests, each replayed on IonQConnection with a scripted REST fake" % mp


def replay(chk, rec):
    o = replay_behaviour(rec["case"]["bh"])
    print(o[:4], "spec:", rec["case"]["bh"])
    return False


if __name__ == "__main__":
    check.main("X01", run, replay)
