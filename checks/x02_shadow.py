#!/venv/bin/python
"""Extension X02 (not one of the listed properties): classical shadows are exact inverses of the measurement channel.

S: TLC model-checks spec/X02Shadow.tla: for every reachable stabiliser-type state and every Pauli word the snapshot
   estimator averaged over a complete shadow equals <psi|P|psi> (Unbiased), and the matching-basis parity average does too.
G: every reachable state is exported with the exact outcome counts of all 3^n bases; the harness builds REAL shadow objects
   (RandomizedClassicalShadow, DerandomizedClassicalShadow, AdaptiveClassicalShadow) holding exactly those snapshots and
   requires get_observable / get_term_observable / estimate_state to return the exact values (1e-9), and checks that
   get_basis_circuits rotates into the bases the spec prescribes (simulated exactly on cirq: frequencies = exact counts).
"""
import itertools
import os
import random
import sys

sys.path.insert(0, os.path.join(os.path.dirname(os.path.abspath(__file__)), "..", "harness"))
import check  # noqa: E402
import tlc  # noqa: E402
from ring import to_complex  # noqa: E402
from enc import json_to_gate  # noqa: E402
import numpy as np  # noqa: E402

M = 8
LET = " XYZ"

CFG = """CONSTANTS M = 8
N = %d
MaxDepth = %d
Export = TRUE
INIT Init
NEXT Next
INVARIANT AllDyadic
INVARIANT Unbiased
INVARIANT Matching
INVARIANT ExportState
VIEW View
"""


def bitstr(i, n):
    return format(i, "0%db" % n)


def complete_shadow(st):
    """One complete shadow: every basis, every outcome with multiplicity p * 2^n."""
    n = st["n"]
    bits, units = [], []
    for rec in sorted(st["bases"], key=lambda r: r["b"]):
        u = "".join(LET[x] for x in rec["b"])
        for i, c in enumerate(rec["counts"]):
            bits += [bitstr(i, n)] * c
            units += [u] * c
    return bits, units


def term_of(w):
    return tuple((q, LET[l]) for q, l in enumerate(w) if l)


def exact_rho(st):
    """rho = 2^-n sum_w <w> w (from TLC's exact expectations)."""
    n = st["n"]
    P = {0: np.eye(2), 1: np.array([[0, 1], [1, 0]]), 2: np.array([[0, -1j], [1j, 0]]), 3: np.array([[1, 0], [0, -1]])}
    rho = np.zeros((2 ** n, 2 ** n), dtype=complex)
    for rec in st["exp"]:
        m = np.ones((1, 1))
        for l in rec["w"]:
            m = np.kron(m, P[l])
        rho += to_complex(rec["e"], M) * m
    return rho / 2 ** n


def run(chk):
    from tangelo.linq import Circuit, get_backend
    from tangelo.toolboxes.operators import QubitOperator
    from tangelo.toolboxes.measurements import RandomizedClassicalShadow, DerandomizedClassicalShadow, AdaptiveClassicalShadow
    rng = random.Random(chk.seed)
    plan = [(1, 4), (2, 3)] if chk.quick else [(1, 4), (2, 5), (3, 2)]
    res = tlc.run_many([dict(module="X02Shadow", cfg=CFG % (n, d), name="x02/n%d" % n, workers=4, timeout=7200) for n, d in plan])
    states = []
    for (n, d), r in zip(plan, res):
        if not r.ok:
            raise tlc.TLCError("X02 spec violated: %s\n%s" % (r.violated, r.out[-1500:]))
        chk.add_tlc(r, "S_n%d" % n)
        seen = set()
        for st in r.prints("ST"):
            key = str(sorted((tuple(b["b"]), tuple(b["counts"])) for b in st["bases"]))
            if key not in seen:
                seen.add(key)
                states.append(st)
    sim = get_backend("cirq")
    reps = 4
    for st in states:
        n = st["n"]
        bits, units = complete_shadow(st)
        exact = {tuple(r["w"]): to_complex(r["e"], M).real for r in st["exp"]}
        circ = Circuit([json_to_gate(g, M) for g in st["gates"]], n_qubits=n)
        case = {"gates": st["gates"], "n": n}
        # randomized: median of means over identical complete chunks must be exact
        rs = RandomizedClassicalShadow(circuit=circ, bitstrings=bits * reps, unitaries=units * reps, shuffle=False)
        ds = DerandomizedClassicalShadow(circuit=circ, bitstrings=list(bits), unitaries=list(units))
        ad = AdaptiveClassicalShadow(circuit=circ, bitstrings=list(bits), unitaries=list(units))
        for w, e in exact.items():
            t = term_of(w)
            if not t:
                continue
            got = rs.get_term_observable(t, 1., k=reps)
            if abs(got - e) > 1e-9:
                chk.violation("randomized:get_term_observable", "complete shadow gives %r for %s, exact %r" % (got, t, e), dict(case, word=list(w)))
            for nm, sh in (("derandomized", ds), ("adaptive", ad)):
                got = sh.get_term_observable(t, 1.)
                if abs(got - e) > 1e-9:
                    chk.violation("%s:get_term_observable" % nm, "complete shadow gives %r for %s, exact %r" % (got, t, e), dict(case, word=list(w)))
            chk.add_traces(3, "term_observables")
        # linear combination through get_observable
        ws = [w for w in exact if any(w)]
        pick = rng.sample(ws, min(3, len(ws)))
        op = QubitOperator()
        val = 0.
        for j, w in enumerate(pick):
            c = [0.5, -1.25, 2.0][j]
            op += QubitOperator(term_of(w), c)
            val += c * exact[w]
        got = ds.get_observable(op)
        if abs(got - val) > 1e-9:
            chk.violation("derandomized:get_observable", "%r != exact %r" % (got, val), dict(case, words=[list(w) for w in pick]))
        # state estimate from one complete shadow is the exact density matrix
        rho = RandomizedClassicalShadow(circuit=circ, bitstrings=list(bits), unitaries=list(units), shuffle=False).estimate_state()
        if np.max(np.abs(rho - exact_rho(st))) > 1e-9:
            chk.violation("randomized:estimate_state", "complete shadow does not reproduce the exact state (max err %.3g)" % np.max(np.abs(rho - exact_rho(st))), case)
        chk.add_traces(2, "state_and_linear")
        # basis circuits: simulating circuit + basis circuit gives exactly the spec's counts for that basis
        uniq = RandomizedClassicalShadow(circuit=circ)
        uniq.unitaries = sorted(set(units))
        for bc, word, _ in uniq.get_basis_circuits(only_unique=True):
            freqs, _ = sim.simulate(circ + bc if bc.size else circ)
            rec = [r for r in st["bases"] if "".join(LET[x] for x in r["b"]) == word][0]
            want = {bitstr(i, n): c / 2 ** n for i, c in enumerate(rec["counts"]) if c}
            if set(want) != {k for k, v in freqs.items() if v > 1e-9} or any(abs(freqs[k] - v) > 1e-9 for k, v in want.items()):
                chk.violation("get_basis_circuits", "basis %s: simulated %s, spec %s" % (word, freqs, want), dict(case, basis=word))
            chk.add_traces(1, "basis_circuits")
    chk.sample({"state": {"n": states[-1]["n"], "gates": states[-1]["gates"], "bases": states[-1]["bases"][:2]}})
    chk.part("states", distinct=len(states))
    chk.cov["rule"] = "every reachable state (depth bound) x every Pauli word; complete shadows built from TLC's exact counts"


if __name__ == "__main__":
    check.main("X02", run)
