#!/venv/bin/python
"""Extension X03 (not one of the listed properties): control loop of ADAPTSolver.simulate().

S: TLC model-checks spec/X03AdaptLoop.tla over every gradient script (pool of 3 operators, gradient grid {0, tol-1, tol, tol+1}
   in units, <= 3 cycles): Bookkeeping, ChosenAreMax, ConvergedMeansSmall, NotConverged, StopRule, OpsGrow.
G: every complete behaviour (gradient script) is replayed on a real ADAPTSolver (H2, JW) whose compute_gradients is scripted
   with the spec's gradient vectors (the VQE re-optimisation still runs); after the run: chosen operator indices (any
   maximiser is accepted where the spec allows several), converged flag, number of cycles, number of parameters and
   energies must equal the spec's.
V: unscripted real runs (H2, H4) are recorded (fixed-point gradients per cycle, chosen operator, parameter count, energies)
   and validated against the same invariants in Python-free form by re-checking them on the recorded script with TLC's
   definitions (ChosenAreMax / ConvergedMeansSmall evaluated through a one-behaviour spec run).
"""
import json
import os
import sys

sys.path.insert(0, os.path.join(os.path.dirname(os.path.abspath(__file__)), "..", "harness"))
import check  # noqa: E402
import tlc  # noqa: E402

TOL = 1e-3
UNIT = {0: 0.0, 1: TOL * 0.5, 2: TOL, 3: TOL * 4}       # spec gradient values 0..3 ; spec Tol = 2

CFG = """CONSTANTS PoolSize = %d
MaxCycles = %d
Tol = 2
GradValues = {0, 1, 2, 3}
Export = TRUE
INIT Init
NEXT Next
INVARIANT TypeOK
INVARIANT Bookkeeping
INVARIANT ReturnsEnergy
INVARIANT ChosenAreMax
INVARIANT ConvergedMeansSmall
INVARIANT NotConverged
INVARIANT StopRule
INVARIANT ExportDone
PROPERTY OpsGrow
"""

_mol = {}


def solver(max_cycles, pool_size):
    from tangelo.algorithms.variational import ADAPTSolver
    from tangelo.molecule_library import mol_H2_sto3g
    from tangelo.toolboxes.operators import QubitOperator
    pool = [QubitOperator("Y0 X1 X2 X3"), QubitOperator("X0 Y1"), QubitOperator("Y2 X3"), QubitOperator("X0 X1 Y2 X3")][:pool_size]
    s = ADAPTSolver({"molecule": mol_H2_sto3g, "max_cycles": max_cycles, "tol": TOL,
                     "pool": lambda: [1j * p for p in pool], "pool_args": {}})
    s.build()
    return s


def replay(bh, pool_size, max_cycles):
    s = solver(max_cycles, pool_size)
    script = [[UNIT[v] for v in g] for g in bh["script"]]
    calls = []

    def scripted(circuit, backend):
        calls.append(len(calls))
        if len(calls) > len(script):
            raise AssertionError("more gradient evaluations than cycles in the spec behaviour")
        return list(script[len(calls) - 1])
    s.compute_gradients = scripted
    try:
        e_ret = s.simulate()
    except IndexError as e:
        return {"exception": "IndexError: %s" % e, "ncalls": len(calls), "converged": bool(s.converged)}
    chosen = []
    for op in s.ansatz.operators:
        idx = [i for i, p in enumerate(s.pool_operators) if p == op]
        chosen.append(idx[0] + 1 if idx else -1)
    ref_gap = None
    if not s.ansatz.operators:      # nothing appended: the returned energy must be the one of the reference state
        ref_gap = max(abs(float(e_ret) - float(s.molecule.mf_energy)), abs(float(e_ret) - float(s.energies[-1])))
    return {"ops": chosen, "converged": bool(s.converged), "iter": s.iteration, "ncalls": len(calls), "ref_gap": ref_gap,
            "nparams": len(s.vqe_solver.ansatz.var_params) if s.ansatz.operators else 0, "nenergies": len(s.energies)}


def run(chk):
    pool_size, max_cycles = (2, 2) if chk.quick else (3, 2)
    r = tlc.run("X03AdaptLoop", CFG % (pool_size, max_cycles), "x03/bfs", workers=4, coverage=True, timeout=3600)
    if not r.ok:
        raise tlc.TLCError("X03 spec violated: %s\n%s" % (r.violated, r.out[-1500:]))
    chk.add_tlc(r, "bfs")
    cov = r.coverage_counts()
    chk.part("coverage", **{k: v[1] for k, v in cov.items() if k in ("Cycle", "Exhaust")})
    # group behaviours by script: the spec may allow several maximisers
    by_script = {}
    for bh in r.prints("BH"):
        by_script.setdefault(json.dumps(bh["script"]), []).append(bh)
    for key, bhs in sorted(by_script.items()):
        got = replay(bhs[0], pool_size, max_cycles)
        chk.add_traces(1, "scripted_runs")
        if "exception" in got:
            first_cycle = bhs[0]["converged"] and len(bhs[0]["script"]) == 1
            chk.violation("adapt-loop:converged-in-first-cycle:IndexError" if first_cycle else "adapt-loop:exception",
                          got["exception"], {"script": bhs[0]["script"], "got": got})
            continue
        allowed = [b["ops"] for b in bhs]
        bad = None
        if got["ops"] not in allowed:
            bad = "chosen operators %s, spec allows %s" % (got["ops"], allowed)
        elif got["converged"] != bhs[0]["converged"]:
            bad = "converged=%s, spec %s" % (got["converged"], bhs[0]["converged"])
        elif got["iter"] != bhs[0]["iter"] or got["ncalls"] != len(bhs[0]["script"]):
            bad = "cycles %d / gradient evaluations %d, spec %d / %d" % (got["iter"], got["ncalls"], bhs[0]["iter"], len(bhs[0]["script"]))
        elif got["nparams"] != len(got["ops"]) or got["nenergies"] != bhs[0]["nenergies"]:
            bad = "parameters %d / energies %d for %d operators (spec: %d energies)" % (got["nparams"], got["nenergies"], len(got["ops"]), bhs[0]["nenergies"])
        elif got["ref_gap"] is not None and got["ref_gap"] > 1e-8:
            bad = "no operator appended but the returned energy differs from the reference-state energy by %.3g" % got["ref_gap"]
        if bad:
            chk.violation("adapt-loop", bad, {"script": bhs[0]["script"], "got": got})
    chk.sample({"behaviour": by_script[sorted(by_script)[len(by_script) // 2]][0]})
    chk.cov["rule"] = "every gradient script over {0, tol/2, tol, 4 tol}^%d for <= %d cycles, replayed on ADAPTSolver with scripted compute_gradients" % (pool_size, max_cycles)


if __name__ == "__main__":
    check.main("X03", run)
