#!/venv/bin/python
"""Extension X04 (not one of the listed properties): the option protocol of a tangelo.linq Backend object.

Property decided: for every backend (built-in cirq / sympy, and any user-defined Backend subclass with any capability
flags - the documented extension point of get_backend), every n_shots in {None, 1, many}, with / without noise model, and
every call simulate(circuit, return_statevector, initial_statevector, desired_meas_result, save_mid_circuit_meas) /
get_expectation_value(op, circuit, initial_statevector, desired_meas_result) on every circuit class (width 0, empty with
fixed width, unitary, with 1 / 2 MEASURE, with CMEASURE): the call raises exactly the documented refusal or returns a
result of the documented kind (frequencies over bitstrings of the circuit width, normalised, multiples of 1 / n_shots when
shots are drawn; statevector / density matrix / None; mid_circuit_meas_freqs saved exactly when asked for), never changes
the settings of the object, and an expectation value is a sample average exactly when shots are set.

S: TLC model-checks spec/X04BackendProtocol.tla (transcription of the decision procedure, one operator per decision point;
   object machine Create / SetShots / Simulate / Expect) against the user-level protocol invariants, for all option
   combinations.
G: every transition TLC explores is exported with its expected outcome record and replayed on a REAL Backend object; the
   thorough tier adds object histories (TLC -simulate behaviours of several calls, SetShots in between) replayed on one
   object. Negative control: corrupted expected records must be rejected by the same comparison; vacuity guard: every
   refusal rule and every result kind of the spec must be exercised by at least one replayed transition.
"""
import json
import os
import random
import sys

sys.path.insert(0, os.path.join(os.path.dirname(os.path.abspath(__file__)), "..", "harness"))
import check  # noqa: E402
import tlc  # noqa: E402

sys.path.insert(0, os.path.dirname(os.path.abspath(__file__)))

CFG = """CONSTANTS Kinds = {"cirq","sympy","u_tf","u_ff","u_ft","u_tt"}
MaxCalls = %d
Export = TRUE
INIT Init
NEXT Next
INVARIANT TypeOK
INVARIANT LiveRespectsCreate
INVARIANT SvOnlyOnRequest
INVARIANT NoPureStateForMixture
INVARIANT MixedNeedsShotsOrSelection
INVARIANT NoisyNeverVector
INVARIANT MidIffRequested
INVARIANT Width0Refused
INVARIANT SampledIffShots
INVARIANT NoSvNoInitial
INVARIANT VarRefusesWithExp
INVARIANT ExportTr
PROPERTY SettingsStable
PROPERTY MidSticky
"""

TAGS = [("desired_meas result is not a string", "desired"), ("The combination of save_mid_circuit_meas", "mixed-statevector"),
        ("Circuit contains MEASURE or CMEASURE", "shots-needed-mixed"), ("Cannot simulate an empty circuit", "width0"),
        ("does not support noise models", "noise-unsupported"), ("A number of shots needs", "shots-needed"),
        ("does not currently support CMEASURE", "sympy-cmeasure"), ("does not currently support mid-circuit", "sympy-midcircuit"),
        ("not supported on backend", "unsupported-gate"), ("does not currently support measurement-controlled", "cirq-noise-cmeasure"),
        ("Statevector not supported in", "sv-unsupported"), ("does not support statevectors", "sv-unsupported"),
        ("requires more qubits than the circuit", "op-too-wide"), ("Must pass a non-empty dictionary", "empty-frequencies")]


def tag_of(msg):
    for frag, t in TAGS:
        if frag in msg:
            return t
    return "other"


def shots_of(s):
    return None if s == 0 else s


def isv_for(D, kind, present, circ):
    """The format 'supported by the target backend': the symbolic target wants a column vector on the gate path."""
    v = D.init_sv(kind, present)
    if v is not None and kind == "sympy" and circ.size > 0:
        return v.reshape((4, 1))
    return v


def do_call(D, b, tr):
    """Perform the call of transition tr on backend object b; return the observation record."""
    kind = tr["kind"]
    circ = D.circuit(tr["c"])
    isv = isv_for(D, kind, tr["isv"], circ)
    settings = (b.n_shots, b._noise_model is not None, b.freq_threshold)
    if tr["act"] == "simulate":
        st, r = D.call(lambda: b.simulate(circ, return_statevector=tr["rsv"], initial_statevector=isv,
                                          desired_meas_result=D.DES[tr["des"]], save_mid_circuit_meas=tr["smid"]))
        obs = {"cls": st}
        if st == "ok":
            f, v = r
            obs.update(D.facts_freq(f, circ.width, b.n_shots))
            obs["sv"] = D.describe_sv(v)
        else:
            obs["tag"] = tag_of(r)
            obs["msg"] = r
    else:
        op = D.OPS[tr["op"]]
        fn = b.get_expectation_value
        if tr["act"] == "variance":
            fn = b.get_standard_error if tr["stderr"] else b.get_variance
        st, r = D.call(lambda: fn(op, circ, initial_statevector=isv, desired_meas_result=D.DES[tr["des"]]))
        obs = {"cls": st}
        if st == "ok":
            try:
                val = complex(r)
            except TypeError:
                return {"cls": "ok", "value": repr(r)[:200], "not_scalar": True, "mid": hasattr(b, "mid_circuit_meas_freqs"), "settings_kept": True}
            obs["value"] = [val.real, val.imag]
            if b.n_shots:
                x = val * 4 * b.n_shots
                obs["on_grid"] = abs(x.real - round(x.real)) < 1e-9 and abs(x.imag - round(x.imag)) < 1e-9
        else:
            obs["tag"] = tag_of(r)
            obs["msg"] = r
    obs["mid"] = hasattr(b, "mid_circuit_meas_freqs")
    if obs["mid"]:
        ks = list(b.mid_circuit_meas_freqs)
        obs["midlen"] = len(ks[0]) if ks else -1
    obs["settings_kept"] = settings == (b.n_shots, b._noise_model is not None, b.freq_threshold)
    return obs


def compare(tr, obs, mid_before):
    """Expected outcome record of the spec vs observation: list of (key, detail); empty = conforms. Where the spec names an
    equally valid alternative outcome (`alt`), conforming to either is conforming."""
    bad = compare1(tr, obs, mid_before)
    if bad and "alt" in tr and tr["alt"] != tr["out"]:
        t2 = dict(tr)
        t2["out"] = tr["alt"]
        t2["zero"] = tr["alt"]["cls"] == "ok" and tr.get("stderr") and tr["shots"] == 0
        if not compare1(t2, obs, mid_before):
            return []
    return bad


def compare1(tr, obs, mid_before):
    exp = tr["out"]
    bad = []
    act = tr["act"]
    who = "%s:%s" % (act, tr["kind"] if tr["kind"] in ("cirq", "sympy") else "user")
    if not obs["settings_kept"]:
        bad.append((who + ":settings-changed", "the call changed n_shots / noise model / freq_threshold of the object"))
    if act in ("expect", "variance") and tr.get("mayempty") and obs["cls"] == "ValueError" and obs.get("tag") == "empty-frequencies":
        return bad          # post-selection kept no shot: the one outcome the spec leaves to chance
    if (act in ("expect", "variance") and tr["kind"] == "sympy" and exp["cls"] == "ok" and
            ((obs["cls"] == "IndexError" and obs.get("msg", "").startswith("tuple index out of range")) or
             (obs["cls"] == "ValueError" and obs.get("msg", "").startswith("The <class 'sympy.matrices")))):
        # the symbolic target cannot feed its own statevector (sympy Matrix / 1-D array) back as initial_statevector
        return [("expect:sympy:frequency-route:exception", "%s (%s): %s" % (obs["cls"], act, obs["msg"]))]
    if exp["cls"] != obs["cls"]:
        bad.append((who + ":outcome-class:" + exp["tag"], "spec %s (%s), implementation %s %s" % (exp["cls"], exp["tag"], obs["cls"], obs.get("msg", ""))))
        return bad
    if exp["cls"] != "ok":
        if obs["tag"] != "other" and obs["tag"] != exp["tag"]:
            bad.append((who + ":refusal-rule:" + exp["tag"], "spec refuses by rule %s, implementation by %s (%s)" % (exp["tag"], obs["tag"], obs["msg"])))
        if act == "simulate" and obs["mid"] != mid_before:
            bad.append((who + ":mid-saved-by-refused-call", "a refused simulate() left mid_circuit_meas_freqs behind"))
        return bad
    if act == "simulate":
        if not obs["keys_ok"]:
            bad.append((who + ":frequency-keys", "keys are not bitstrings of the circuit width"))
        if exp["norm"] and not obs["norm_ok"]:
            bad.append((who + ":frequencies-not-normalised", "frequencies do not sum to 1"))
        if exp["grid"] and not obs["grid_ok"]:
            bad.append((who + ":frequencies-not-shot-multiples", "n_shots set but frequencies are not multiples of 1/n_shots"))
        if exp["sv"] != obs["sv"]:
            bad.append((who + ":state-kind", "spec %s, implementation %s" % (exp["sv"], obs["sv"])))
        if obs["mid"] != tr["midset"]:
            bad.append((who + ":mid-circuit-saving", "mid_circuit_meas_freqs present=%s, spec %s" % (obs["mid"], tr["midset"])))
        elif exp["mid"] and exp["midlen"] != 9 and obs.get("midlen", -1) not in (exp["midlen"], -1):
            bad.append((who + ":mid-circuit-key-length", "keys of length %s, spec %s" % (obs.get("midlen"), exp["midlen"])))
    elif act == "variance":
        if obs.get("not_scalar"):
            return [(who + ":value-not-a-scalar", "returned %s" % obs["value"])]
        v = complex(*obs["value"])
        if abs(v.imag) > 1e-9 or v.real < -1e-9:
            bad.append((who + ":negative-or-complex", "variance / standard error %s" % obs["value"]))
        if tr["zero"] and abs(v) > 1e-12:
            bad.append((who + ":stderr-without-shots", "standard error %s with n_shots = None" % obs["value"]))
    else:
        if obs.get("not_scalar"):
            return [(who + ":value-not-a-scalar", "get_expectation_value returned %s" % obs["value"])]
        if tr["grid"] and not obs.get("on_grid", True):
            bad.append((who + ":not-a-sample-average", "n_shots set but the value %s is not an average of n_shots samples" % obs["value"]))
        if exp["cls"] == "ok" and not exp["sampled"] and tr["op"] == "I" and abs(complex(*obs["value"]) - 1.5) > 1e-12:
            bad.append((who + ":identity-term", "identity-only operator: %s" % obs["value"]))
        if tr["strict"] and obs["mid"] != tr["midset"]:
            bad.append((who + ":mid-circuit-saving", "mid_circuit_meas_freqs present=%s, spec %s" % (obs["mid"], tr["midset"])))
    return bad


def corrupt(tr, rng):
    """A wrong expected record derived from an accepted one (negative control)."""
    t = json.loads(json.dumps(tr))
    o = t["out"]
    t["mayempty"] = False
    t.pop("alt", None)
    if o["cls"] == "ok":
        if t["act"] == "simulate":
            o["sv"] = {"none": "vector", "vector": "matrix", "matrix": "none"}[o["sv"]]
        else:
            o["cls"], o["tag"] = "ValueError", "desired"
    else:
        o["cls"], o["tag"] = "ok", "ok"
        o["sv"], o["norm"], o["grid"], o["mid"] = "none", True, False, False
        t["midset"], t["strict"], t["grid"] = False, True, False
    return t


def run(chk):
    import x04_driver as D
    rng = random.Random(chk.seed)
    r = tlc.run("X04BackendProtocol", CFG % 1, "x04/bfs", workers=8, coverage=True, timeout=1800)
    if not r.ok:
        raise tlc.TLCError("X04 spec violated: %s\n%s" % (r.violated, r.out[-1500:]))
    chk.add_tlc(r, "bfs")
    trs = r.prints("TR")
    creates = [t for t in trs if t["act"] == "create"]
    calls = [t for t in trs if t["act"] in ("simulate", "expect", "variance")]
    # deterministic order, de-duplicated (the Expect action may export two midset choices for a refused call)
    seen, uniq = set(), []
    for t in sorted(calls, key=lambda t: json.dumps(t, sort_keys=True)):
        k = json.dumps({x: t[x] for x in t if x not in ("midset",)}, sort_keys=True)
        if k not in seen:
            seen.add(k)
            uniq.append(t)
    calls = uniq

    # ---- constructor table (complete) ---------------------------------------------------------
    for t in creates:
        st, b = D.call(lambda: D.create(t["kind"], shots_of(t["shots"]), t["noise"]))
        chk.add_traces(1, "create")
        cls = "ok" if st == "ok" else st
        if cls != t["out"]["cls"] or (cls != "ok" and tag_of(b) not in ("other", t["out"]["tag"])):
            chk.violation("create:%s" % t["out"]["tag"], "spec %s (%s), implementation %s %s" % (t["out"]["cls"], t["out"]["tag"], st, b if st != "ok" else ""), t)
        elif st == "ok" and (b.n_shots != shots_of(t["shots"]) or (b._noise_model is not None) != t["noise"]):
            chk.violation("create:settings", "object does not carry the requested settings", t)

    # ---- single calls on fresh objects ---------------------------------------------------------
    calls_run = calls          # the complete table is cheap (about 12 000 calls, 20 s): both tiers replay all of it
    tags_seen, n_neg, neg_rejected = {}, 0, 0
    for t in calls_run:
        b = D.create(t["kind"], shots_of(t["shots"]), t["noise"])
        obs = do_call(D, b, t)
        chk.add_traces(1, t["act"])
        bad = compare(t, obs, False)
        tags_seen[(t["act"], t["out"]["tag"])] = tags_seen.get((t["act"], t["out"]["tag"]), 0) + 1
        for key, detail in bad:
            chk.violation(key, detail, {"transition": t, "observation": obs})
        if not bad and n_neg < 400 and rng.random() < 0.5:
            n_neg += 1
            if compare(corrupt(t, rng), obs, False):
                neg_rejected += 1
    chk.part("negative_controls", corrupted_expected_records=n_neg, rejected=neg_rejected)
    if n_neg and neg_rejected != n_neg:
        raise RuntimeError("negative control: %d of %d corrupted expected records were accepted" % (n_neg - neg_rejected, n_neg))
    need = {("simulate", x) for x in ("ok", "desired", "mixed-statevector", "shots-needed-mixed", "width0", "sympy-cmeasure",
                                      "sympy-midcircuit", "unsupported-gate", "cirq-noise-cmeasure")}
    need |= {("expect", x) for x in ("ok", "sv-unsupported", "op-too-wide", "desired", "shots-needed-mixed", "width0")}
    need |= {("variance", x) for x in ("ok", "sv-unsupported", "op-too-wide", "desired", "shots-needed-mixed", "width0")}
    missing = sorted(x for x in need if x not in tags_seen)
    if missing:
        raise RuntimeError("vacuity guard: outcome rules never exercised: %s" % missing)
    chk.part("rules_exercised", **{"%s:%s" % k: v for k, v in sorted(tags_seen.items())})

    # ---- object histories ---------------------------------------------------------------------------
    num, depth = (300, 5) if chk.quick else (4000, 8)
    rs = tlc.run("X04BackendProtocol", CFG % (4 if chk.quick else 7), "x04/sim", workers=1, simulate="num=%d" % num, depth=depth, seed=chk.seed + 11, timeout=1800)
    if not rs.ok:
        raise tlc.TLCError("X04 spec violated in simulation: %s\n%s" % (rs.violated, rs.out[-1500:]))
    chk.add_tlc(rs, "histories")
    b, mid, n_hist, steps = None, False, 0, 0
    for t in rs.prints("TR"):
        if t["act"] == "create":
            st, b = D.call(lambda: D.create(t["kind"], shots_of(t["shots"]), t["noise"]))
            if st != "ok":
                b = None
            mid = False
            n_hist += 1
            continue
        if b is None:
            continue
        if t["act"] == "setshots":
            b.n_shots = t["shots"]
            continue
        obs = do_call(D, b, t)
        steps += 1
        strict = t["act"] == "simulate" or t["strict"]
        t2 = dict(t)
        if not strict:
            t2["midset"] = obs["mid"]
        for key, detail in compare(t2, obs, mid):
            chk.violation("history:" + key, detail, {"transition": t, "observation": obs})
            b = None
            break
        mid = obs["mid"]
        if b is not None and obs["mid"] != t["midset"]:
            b = None            # the behaviour took the other branch of the refused call's nondeterministic choice: stop following it
    chk.add_traces(steps, "history_steps")
    chk.part("histories", behaviours=n_hist, steps_replayed=steps)
    chk.sample({"transition": calls_run[len(calls_run) // 2]})
    chk.cov["rule"] = ("every (backend kind x n_shots x noise) x every simulate / get_expectation_value option combination of the spec, "
                       "replayed on real Backend objects (cirq, sympy, 4 user-defined capability variants); plus TLC-simulated object histories")


if __name__ == "__main__":
    check.main("X04", run)
