"""Driver side of extension X04: real Backend objects, circuit classes and call replays (no oracle in here)."""
import os
import sys
import warnings

import numpy as np

warnings.filterwarnings("ignore")
REPO = os.environ.get("VERIF_REPO", "/repo")
if REPO not in sys.path:
    sys.path.insert(0, REPO)

from tangelo.linq import Circuit, Gate, get_backend  # noqa: E402
from tangelo.linq.target.backend import Backend  # noqa: E402
from tangelo.linq.noisy_simulation import NoiseModel  # noqa: E402
from tangelo.toolboxes.operators import QubitOperator  # noqa: E402

CAPS = {"cirq": (True, True), "sympy": (True, False), "u_tf": (True, False), "u_ff": (False, False),
        "u_ft": (False, True), "u_tt": (True, True)}


def _user_backend(sv, noisy):
    class UserBackend(Backend):
        """A user-defined backend (documented extension point of get_backend): a device-like wrapper around cirq."""

        def __init__(self, n_shots=None, noise_model=None):
            super().__init__(n_shots=n_shots, noise_model=noise_model)

        def simulate_circuit(self, source_circuit, return_statevector=False, initial_statevector=None,
                             desired_meas_result=None, save_mid_circuit_meas=False):
            inner = get_backend("cirq", n_shots=self.n_shots, noise_model=self._noise_model)
            f, v = inner.simulate_circuit(source_circuit, return_statevector=return_statevector and sv,
                                          initial_statevector=initial_statevector, desired_meas_result=desired_meas_result,
                                          save_mid_circuit_meas=save_mid_circuit_meas)
            if hasattr(inner, "all_frequencies"):
                self.all_frequencies = inner.all_frequencies
            return f, (v if sv else None)

        @staticmethod
        def backend_info():
            return {"statevector_available": sv, "statevector_order": "lsq_first" if sv else None, "noisy_simulation": noisy}
    return UserBackend


USER = {k: _user_backend(*CAPS[k]) for k in CAPS if k.startswith("u_")}


def noise_model():
    nm = NoiseModel()
    nm.add_quantum_error("X", "pauli", [0.1, 0.0, 0.0])
    return nm


def circuit(cls):
    if cls == "W0":
        return Circuit()
    if cls == "E2":
        return Circuit(n_qubits=2)
    if cls == "U2":
        # generic angles: no exact expectation value of the operators below is a multiple of 1 / (4 n_shots)
        return Circuit([Gate("RY", 0, parameter=1.0), Gate("RX", 1, parameter=0.7), Gate("CNOT", 1, 0)])
    if cls == "M1":
        return Circuit([Gate("H", 0), Gate("MEASURE", 0), Gate("X", 1), Gate("H", 1)])
    if cls == "M2":
        return Circuit([Gate("H", 0), Gate("MEASURE", 0), Gate("H", 1), Gate("MEASURE", 1), Gate("X", 0)])
    if cls == "CM":
        return Circuit([Gate("H", 0), Gate("CMEASURE", 0, parameter={"0": [Gate("X", 1)], "1": [Gate("H", 1)]})], n_qubits=2)
    raise KeyError(cls)


DES = {"none": None, "len0": "", "len1": "0", "len2": "01", "nonstr": 0}
OPS = {"Z0": QubitOperator("Z0", 1.), "XZ": QubitOperator("X0 Z1", 0.5) + QubitOperator("Z0", 0.25), "I": QubitOperator((), 1.5),
       "wide3": QubitOperator("Z0 Z1 Z2"), "beyond": QubitOperator("Z5"), "cplx": QubitOperator("Z0", 1j) + QubitOperator("X1", 0.5)}


def init_sv(kind, present):
    if not present:
        return None
    v = np.array([1, 1, 1, -1], dtype=complex) / 2.      # a product state |+>|-> : symmetric under bit order up to a sign pattern
    return v


def create(kind, shots, noise):
    nm = noise_model() if noise else None
    if kind in USER:
        return get_backend(USER[kind], n_shots=shots, noise_model=nm)
    return get_backend(kind, n_shots=shots, noise_model=nm)


def describe_sv(v):
    if v is None:
        return "none"
    try:
        a = np.array(v, dtype=complex)
    except Exception:
        return "other"
    if a.ndim == 2 and a.shape[0] == a.shape[1] and a.shape[0] > 1:
        return "matrix"
    return "vector"


def _num(x):
    a = np.asarray(x, dtype=complex).reshape(-1)     # sympy numbers, numpy scalars, 1-element arrays (column-vector input)
    if a.size != 1:
        raise TypeError("frequency is not a number: %r" % (x,))
    return float(a[0].real)


def facts_freq(f, width, shots):
    keys_ok = all(isinstance(k, str) and len(k) == width and set(k) <= {"0", "1"} for k in f)
    tot = float(sum(_num(x) for x in f.values()))
    grid = True
    if shots:
        grid = all(abs(_num(x) * shots - round(_num(x) * shots)) < 1e-9 for x in f.values())
    return {"keys_ok": keys_ok, "norm_ok": abs(tot - 1.) < 1e-6, "grid_ok": grid}


def call(fn):
    try:
        return ("ok", fn())
    except Exception as e:      # noqa: the class of the exception IS the observation
        return (type(e).__name__, str(e)[:160])
