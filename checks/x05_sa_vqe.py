#!/venv/bin/python
"""Extension X05 (not one of the listed properties): state-averaged variational solvers SA_VQESolver / SA_OO_Solver.

Property decided (see docs/X05.md): for every Hamiltonian, reference ensemble, weights, ansatz and parameter vector the
state-averaged energy is SUM_i w_i <psi_i|H|psi_i> / SUM_i w_i (+ the documented deflation penalty) for the states
psi_i = U(theta) R_i |0>, state_energies are the individual terms, the ensemble obeys the variational bounds, the object
stays consistent under every call history, and the orbital-optimisation step of SA_OO_Solver keeps those identities.

A  (S + G, everything exact): spec/X05SaSolver.tla is the solver object as a state machine over an exact carrier (qubit
   Hamiltonians H = V D V^dagger with dyadic spectrum, grid-angle circuits, integer weights).  TLC checks the invariants
   (orthonormality, spectral bounds, ensemble variational principle, cache consistency) on every reachable state and
   exports the Hamiltonian and every call history with the exact observations; the driver replays each history on a real
   SA_VQESolver and compares return values and the abstract state after every call.
V  (code -> spec): molecular solvers (H2 / LiH, every encoding, both orderings, built-in ansaetze, occupation-list and
   circuit references, penalties, deflation): the reference circuits and the ansatz circuit recorded from the solver at grid
   parameters are judged by spec/X05Trace.tla (exact <psi_i|P_j|psi_i>, Gram matrix, deflation overlaps); the harness
   contracts with the float coefficients of the Hamiltonian it assembles itself (spec-structured contraction).
OO (SA_OO_Solver.iterate with a scripted optimiser on grid parameters): per cycle the recorded energies are judged by the
   same trace spec against the Hamiltonian of the molecule before / after the orbital rotation; unitarity of the MO
   rotation and the eigenvalue bounds are a labelled numeric tail.
"""
import copy
import json
import math
import os
import random
import sys

import numpy as np

sys.path.insert(0, os.path.join(os.path.dirname(os.path.abspath(__file__)), "..", "harness"))
import check  # noqa: E402
import tlc  # noqa: E402
from enc import gates_to_json, json_to_gate, word_to_json, OffGrid  # noqa: E402
from ring import to_complex, k_to_angle  # noqa: E402

M = 16
TOL = 1e-8
PAR = int(os.environ.get("VERIF_PAR", "8"))
WD = "x05%s" % os.environ.get("VERIF_WTAG", "")
LETTER_INV = "IXYZ"


def rdy(num, k=0):
    """dyadic rational num / 2^k as a ring element of R_16 (normal form)."""
    c = [0] * (M // 2)
    c[0] = int(num)
    while k > 0 and c[0] % 2 == 0:
        c[0] //= 2
        k -= 1
    if c[0] == 0:
        k = 0
    return {"c": c, "k": k}


def rc(x):
    return to_complex(x, M)


# ------------------------------------------------------------------------------------------------------
# A: exact carrier - configurations (inputs only; TLC re-checks well-formedness)
# ------------------------------------------------------------------------------------------------------
def gj(name, t, c=(), k=0, v=0):
    return {"name": name, "t": list(t), "c": list(c), "k": int(k), "v": int(v)}


def rand_clifford(rng, n, count):
    gs = []
    for _ in range(count):
        kind = rng.choice(["H", "S", "X", "CNOT", "CZ", "RX", "RY"])
        q = rng.randrange(n)
        if kind in ("CNOT", "CZ"):
            c = rng.choice([x for x in range(n) if x != q])
            gs.append(gj(kind, [q], [c]))
        elif kind in ("RX", "RY"):
            gs.append(gj(kind, [q], k=rng.choice([4, -4, 8, 12])))
        else:
            gs.append(gj(kind, [q]))
    return gs


def rand_template(rng, n, nvar, touch_top=True):
    """ansatz template: nvar variational gates + some fixed entanglers; touch_top: some gate acts on qubit n-1."""
    for _ in range(200):
        gs, v = [], 0
        order = ["var"] * nvar + ["fix"] * rng.randrange(1, 4)
        rng.shuffle(order)
        for o in order:
            q = rng.randrange(n)
            if o == "var":
                v += 1
                kind = rng.choice(["RX", "RY", "RZ", "XX", "PHASE"])
                if kind == "XX":
                    q2 = rng.choice([x for x in range(n) if x != q])
                    gs.append(gj("XX", [q, q2], v=v))
                else:
                    gs.append(gj(kind, [q], v=v))
            else:
                kind = rng.choice(["CNOT", "H", "CZ", "CRY"])
                if kind == "H":
                    gs.append(gj("H", [q]))
                elif kind == "CRY":       # controlled rotations depend on theta/2: fixed gates at multiples of pi/2 keep Q(sqrt2)
                    c = rng.choice([x for x in range(n) if x != q])
                    gs.append(gj("CRY", [q], [c], k=rng.choice([4, 8, 12, -4])))
                else:
                    c = rng.choice([x for x in range(n) if x != q])
                    gs.append(gj(kind, [q], [c]))
        top = max(max(g["t"] + g["c"]) for g in gs)
        if (top == n - 1) == touch_top:
            return gs
    raise RuntimeError("no template")


def make_cfg(rng, name, n, K, refs="occ", narrow=False, defl=0, equal_weights=False, nvar=3):
    bits = rng.sample(range(2 ** n), K)
    occ = [[(b >> (n - 1 - q)) & 1 for q in range(n)] for b in bits]
    ref_gates = [[gj("X", [q]) for q in range(n) if o[q]] for o in occ]
    if refs == "rot":           # orthonormal, not computational-basis states
        pre = rand_clifford(rng, n, 3) + [gj("RY", [0], k=2)]
        ref_gates = [r + pre for r in ref_gates]
    elif refs == "nonorth":     # deliberately NOT orthogonal: only the single-state bounds apply
        ref_gates = [ref_gates[0], ref_gates[0] + [gj("H", [0])]] + ref_gates[2:]
    ws = [rng.randrange(1, 5) for _ in range(K)]
    if equal_weights:
        ws = [ws[0]] * K
    elif len(set(ws)) == 1:
        ws[0] += 1
    tpl = rand_template(rng, n, nvar, touch_top=not narrow)
    thetas = [[rng.choice(range(-16, 32, 2)) for _ in range(nvar)] for _ in range(4)]
    if rng.random() < 0.5:
        thetas[0] = [0] * nvar
    scripts = [[2, 3], [rng.randrange(1, 5) for _ in range(3)], [4, 1, 2]]
    # make sure at least one script's minimiser is not its last probe is left to chance; checked as vacuity guard over all cfgs
    words = set()
    dterms = []
    while len(dterms) < 4:
        w = tuple(rng.choice([0, 3]) for _ in range(n))
        if w in words:
            continue
        words.add(w)
        dterms.append({"w": list(w), "c": rdy(rng.choice([-5, -3, -2, -1, 1, 2, 3, 6]), rng.randrange(0, 3))})
    cfg = {"name": name, "n": n, "refs": ref_gates, "occ": occ if refs == "occ" else None, "weights": ws, "anz": tpl,
           "thetas": thetas, "scripts": scripts, "dterms": dterms, "vgates": rand_clifford(rng, n, 4),
           "defl": [[{k: g[k] for k in ("name", "t", "c", "k")} for g in rand_clifford(rng, n, 3) + [gj("RY", [rng.randrange(n)], k=2)]]
                    for _ in range(defl)],
           "deflc": rdy(rng.choice([3, 5, 6]), 2), "narrow": narrow}
    return cfg


def carrier_configs(chk, rng):
    cf = []
    plan = [("occ2", 2, 2, {}), ("occ3", 3, 2, {}), ("occ3k3", 3, 3, {}), ("rot3", 3, 2, {"refs": "rot"}),
            ("nonorth2", 2, 2, {"refs": "nonorth"}), ("defl3", 3, 2, {"defl": 2}), ("defl2rot", 2, 2, {"defl": 1, "refs": "rot"}),
            ("narrowdefl3", 3, 2, {"defl": 1, "narrow": True}), ("eqw3", 3, 3, {"equal_weights": True})]
    if not chk.quick:
        plan += [("occ3b", 3, 4, {"nvar": 4}), ("rot3b", 3, 3, {"refs": "rot", "nvar": 4}), ("defl3b", 3, 3, {"defl": 2, "refs": "rot"}),
                 ("occ2b", 2, 3, {}), ("occ2c", 2, 4, {"nvar": 4}), ("narrow3b", 3, 2, {"narrow": True}), ("rot2b", 2, 2, {"refs": "rot"})]
    for name, n, K, kw in plan:
        cf.append(make_cfg(rng, name, n, K, **kw))
    return cf


CFG_A = """CONSTANTS M = 16
Depth = %d
Export = TRUE
INIT Init
NEXT Next
INVARIANT CarrierOK
INVARIANT HamLemma
INVARIANT Normalised
INVARIANT Orthonormal
INVARIANT StateBounds
INVARIANT EnsembleOK
INVARIANT PenaltyRange
INVARIANT SeOfCur
INVARIANT OptIsMin
INVARIANT OptConsistent
INVARIANT Reported
INVARIANT ExportHist
INVARIANT ExportCfg
"""


def qubit_op_from_terms(terms):
    from tangelo.toolboxes.operators import QubitOperator
    op = QubitOperator()
    for t in terms:
        word = tuple((q, LETTER_INV[l]) for q, l in enumerate(t["w"]) if l)
        z = rc(t["c"])
        op += QubitOperator(word, z.real if abs(z.imag) < 1e-15 else z)
    return op


def circuit_of(gates, n, theta=None, variational=True, fixed=True):
    """JSON gate list -> Circuit of fixed width n (template gates with v > 0 take their angle from theta)."""
    from tangelo.linq import Circuit, Gate
    from enc import PARAM_GATES
    gs = []
    for g in gates:
        ctrl = list(g["c"]) if g.get("c") else None
        if g["name"] in PARAM_GATES:
            v = g.get("v", 0)
            k = theta[v - 1] if (v and theta is not None) else g["k"]
            gs.append(Gate(g["name"], list(g["t"]), ctrl, parameter=k_to_angle(k, M), is_variational=bool(v) and variational))
        else:
            gs.append(Gate(g["name"], list(g["t"]), ctrl))
    return Circuit(gs, n_qubits=n) if fixed else Circuit(gs)


def ang(th):
    return [k_to_angle(k, M) for k in th]


class Script:
    """scripted optimiser: probes the given parameter vectors in order, returns the first probe of minimal energy."""

    def __init__(self):
        self.probes = []

    def __call__(self, func, x0):
        best = None
        for th in self.probes:
            e = func(np.array(th, dtype=float))
            if best is None or e < best[0] - 1e-9:
                best = (e, np.array(th, dtype=float))
        return best


def make_carrier_solver(cfg, ham, script, as_occ=True):
    from tangelo.algorithms.variational import SA_VQESolver
    n = cfg["n"]
    if cfg["occ"] is not None and as_occ:
        refs = [list(o) for o in cfg["occ"]]          # occupation lists (JW image = X gates)
    else:
        refs = [circuit_of(r, n) for r in cfg["refs"]]
    opts = {"qubit_hamiltonian": ham, "ansatz": circuit_of(cfg["anz"], n, theta=cfg["thetas"][0], fixed=not cfg["narrow"]), "ref_states": refs,
            "weights": list(cfg["weights"]), "initial_var_params": ang(cfg["thetas"][0]), "optimizer": script}
    if cfg["defl"]:
        opts["deflation_circuits"] = [circuit_of(d, n) for d in cfg["defl"]]
        opts["deflation_coeff"] = rc(cfg["deflc"]).real
    return SA_VQESolver(opts)


def close(a, b, tol=TOL):
    a, b = np.asarray(a, dtype=complex).ravel(), np.asarray(b, dtype=complex).ravel()
    return a.shape == b.shape and (a.size == 0 or float(np.max(np.abs(a - b))) <= tol)


def var_angles(circ):
    return [float(g.parameter) for g in circ._variational_gates]


def same_mod_4pi(a, b):
    a, b = np.asarray(a, dtype=float), np.asarray(b, dtype=float)
    if a.shape != b.shape:
        return False
    d = (a - b) / (4 * math.pi)
    return bool(np.all(np.abs(d - np.round(d)) < 1e-9))


def replay_history(chk, cfg, hamrec, ham, hist, stats, as_occ=True):
    """Replay one exported history on a real SA_VQESolver; compare after every call. Returns list of (key, detail)."""
    bad = []
    n, W, K = cfg["n"], hamrec["W"], len(cfg["refs"])
    script = Script()
    s = make_carrier_solver(cfg, ham, script, as_occ)
    exp_opt = None          # (theta index, ew) of the last simulate in the spec behaviour
    se_override = None      # after a known state_energies mismatch: what the code holds until the next rewrite
    opt_tainted = False
    refs0 = None
    narrow_defl = bool(cfg["defl"]) and cfg["narrow"]
    for x, st in enumerate(hist):
        where = "%s step %d (%s)" % (cfg["name"], x + 1, st["a"])
        ret = None
        try:
            if st["a"] == "build":
                s.build()
                refs0 = [gates_to_json(list(c), M) for c in s.reference_circuits]
            elif st["a"] == "energy":
                ret = float(np.real(s.energy_estimation(np.array(ang(cfg["thetas"][st["t"] - 1])))))
                se_override = None
            else:
                script.probes = [ang(cfg["thetas"][t - 1]) for t in cfg["scripts"][st["s"] - 1]]
                ret = float(np.real(s.simulate()))
                exp_opt = (st["optt"], st["ew"])
                se_override = None
                opt_tainted = False
        except Exception as e:
            bad.append(("history:exception:%s:%s" % (st["a"], type(e).__name__), "%s raised %s: %s" % (where, type(e).__name__, e)))
            return bad
        stats[st["a"]] = stats.get(st["a"], 0) + 1
        # ---- return value
        if ret is not None:
            want = rc(st["ew"]).real / W
            if abs(ret - want) > TOL:
                plain = sum(w * rc(e).real for w, e in zip(cfg["weights"], st["plain"])) / W if "plain" in st else None
                if narrow_defl and st["a"] == "energy" and plain is not None and abs(ret - plain) <= TOL:
                    bad.append(("energy_estimation:deflation-narrow-ansatz-circuit",
                                "%s: returned %.10f = energy WITHOUT the deflation penalty, exact %.10f (ansatz circuit narrower than the register)" % (where, ret, want)))
                elif narrow_defl:
                    bad.append(("energy_estimation:deflation-narrow-ansatz-circuit:simulate", "%s: returned %.10f, exact %.10f" % (where, ret, want)))
                else:
                    bad.append(("%s:value" % ("energy_estimation" if st["a"] == "energy" else "simulate"),
                                "%s: returned %.10f, exact %.10f" % (where, ret, want)))
                if narrow_defl:
                    return bad          # everything downstream inherits the missing penalty
        # ---- abstract state: parameters the ansatz circuit carries
        th = ang(cfg["thetas"][st["cur"] - 1])
        if not (close(s.ansatz.var_params, th, 1e-12) and close(var_angles(s.ansatz.circuit), th, 1e-12)):
            bad.append(("history:ansatz-parameters:%s" % st["a"], "%s: ansatz carries %s / circuit %s, spec %s" % (
                where, list(np.round(s.ansatz.var_params, 6)), list(np.round(var_angles(s.ansatz.circuit), 6)), list(np.round(th, 6)))))
        # ---- state_energies
        got_se = list(getattr(s, "state_energies", []) or [])
        want_se = [rc(e).real for e in st["se"]]
        if se_override is not None:
            want_se = se_override
        if not close(got_se, want_se):
            if st["a"] == "simulate" and close(got_se, [rc(e).real for e in st["selast"]]):
                bad.append(("simulate:state_energies-of-last-probe",
                            "%s: after simulate() state_energies %s are those of the optimiser's last probe, the optimal parameters give %s "
                            "(weighted sum %.10f != optimal_energy %.10f)" % (where, list(np.round(got_se, 8)), list(np.round(want_se, 8)),
                                                                             float(np.dot(s.weights, got_se)), ret)))
                se_override = got_se
            else:
                bad.append(("history:state_energies:%s" % st["a"], "%s: state_energies %s, spec %s" % (where, got_se, want_se)))
                se_override = got_se
        # ---- optimal_* bookkeeping
        if exp_opt is not None:
            tho = ang(cfg["thetas"][exp_opt[0] - 1])
            if not close(s.optimal_var_params, tho, 1e-12) or abs(float(np.real(s.optimal_energy)) - rc(exp_opt[1]).real / W) > TOL:
                bad.append(("history:optimal-bookkeeping:%s" % st["a"], "%s: optimal_var_params %s / optimal_energy %r, spec %s / %.10f" % (
                    where, list(s.optimal_var_params), s.optimal_energy, tho, rc(exp_opt[1]).real / W)))
            if not opt_tainted and not close(var_angles(s.optimal_circuit), tho, 1e-12):
                key = "history:optimal_circuit-aliases-ansatz-circuit" if s.optimal_circuit is s.ansatz.circuit else "history:optimal_circuit:%s" % st["a"]
                bad.append((key, "%s: optimal_circuit carries the angles %s, the optimal parameters are %s%s" % (
                    where, list(np.round(var_angles(s.optimal_circuit), 6)), list(np.round(tho, 6)),
                    " (optimal_circuit IS the ansatz circuit object, rewritten by the later evaluation)" if s.optimal_circuit is s.ansatz.circuit else "")))
                opt_tainted = True
        # ---- frame: references, weights, Hamiltonian untouched
        if refs0 is not None:
            if [gates_to_json(list(c), M) for c in s.reference_circuits] != refs0 or len(s.reference_circuits) != K:
                bad.append(("history:reference-circuits-changed:%s" % st["a"], "%s: reference circuits changed" % where))
            if not close(s.weights, np.array(cfg["weights"]) / W, 1e-12):
                bad.append(("history:weights:%s" % st["a"], "%s: weights %s, documented normalisation %s" % (where, list(s.weights), list(np.array(cfg["weights"]) / W))))
            if dict(s.qubit_hamiltonian.terms) != dict(ham.terms):
                bad.append(("history:hamiltonian-changed:%s" % st["a"], "%s: qubit_hamiltonian changed" % where))
    return bad


def reference_binding(chk, cfg):
    """The reference circuits the solver builds from occupation lists prepare the states the model was given (same gate lists
    up to order: X gates commute)."""
    from tangelo.toolboxes.operators import QubitOperator
    if cfg["occ"] is None:
        return
    s = make_carrier_solver(cfg, QubitOperator("Z0") + QubitOperator(((cfg["n"] - 1, "Z"),)), Script())
    s.build()
    for i, c in enumerate(s.reference_circuits):
        got = sorted((g.name, tuple(g.target)) for g in c)
        want = sorted((g["name"], tuple(g["t"])) for g in cfg["refs"][i])
        if got != want or c.width != cfg["n"]:
            chk.violation("build:reference-circuit", "%s: occupation %s gives %s (width %d), expected %s" % (cfg["name"], cfg["occ"][i], got, c.width, want),
                          {"part": "A", "cfg": cfg, "hist": [{"a": "build", "cur": 1, "se": [], "optt": 0}]})


def part_a(chk, rng):
    cfgs = carrier_configs(chk, rng)
    depth = 3 if chk.quick else 4
    jobs = []
    for c in cfgs:
        p = tlc.write_json("%s/a_%s" % (WD, c["name"]), "cfg.json", {k: v for k, v in c.items() if k not in ("occ", "narrow", "name")})
        jobs.append(dict(module="X05SaSolver", cfg=CFG_A % depth, name="%s/a_%s/run" % (WD, c["name"]), env={"VERIF_X05CFG": p},
                         workers=2, timeout=3000, must_succeed=False))
    res = tlc.run_many(jobs, max_parallel=PAR)
    stats, guards = {}, {"noneigen": 0, "unequal_weights": 0, "k>=2": 0, "best_not_last": 0, "defl_nonzero": 0, "orth": 0, "nonorth": 0}
    nh = 0
    for c, r in zip(cfgs, res):
        if not r.ok:
            raise tlc.TLCError("X05SaSolver: specification-level failure on configuration %s: %s\n%s" % (c["name"], r.violated, (r.error or r.out)[-2500:]))
        chk.add_tlc(r, "A_" + c["name"])
        hamrec = r.prints("HAM")[0]
        ham = qubit_op_from_terms(hamrec["terms"])
        hists = r.prints("BH")
        if not hists:
            raise tlc.TLCError("no histories exported for %s" % c["name"])
        guards["unequal_weights"] += len(set(c["weights"])) > 1
        guards["k>=2"] += len(c["refs"]) >= 2
        guards["orth" if hamrec["orth"] else "nonorth"] += 1
        reference_binding(chk, c)
        for h in hists:
            nh += 1
            for st in h:
                if st["a"] == "energy":
                    guards["noneigen"] += bool(st["noneigen"])
                    guards["defl_nonzero"] += any(abs(rc(p)) > 1e-12 for p in st["pen"])
                if st["a"] == "simulate" and st["last"] != st["optt"] and st["se"] != st["selast"]:
                    guards["best_not_last"] += 1
            # circuit-valued references for every second history of occupation configurations
            as_occ = (nh % 2 == 0)
            for key, detail in replay_history(chk, c, hamrec, ham, h, stats, as_occ):
                chk.violation(key, detail, {"part": "A", "cfg": c, "ham": hamrec, "hist": h, "as_occ": as_occ})
            chk.add_traces(1, "A_histories")
        chk.add_eval(len(hists))
    for g, v in guards.items():
        if v == 0:
            raise tlc.TLCError("vacuity guard: no sample with %s" % g)
    for a in ("build", "energy", "simulate"):
        if not stats.get(a):
            raise tlc.TLCError("vacuity guard: action %s never replayed" % a)
    chk.part("A_exact_carrier", configurations=len(cfgs), histories=nh, depth=depth, calls_by_action=stats, guards=guards)
    chk.sample({"A_config": {k: cfgs[0][k] for k in ("name", "n", "refs", "weights", "thetas", "scripts")}})
    return cfgs


# ------------------------------------------------------------------------------------------------------
# V: molecular solvers, recorded circuits judged by spec/X05Trace.tla
# ------------------------------------------------------------------------------------------------------
_MOLDEF = {
    "H2": dict(xyz=[("H", (0., 0., 0.)), ("H", (0., 0., 0.7414))], q=0, spin=0, frozen=None),
    "LiH_fz": dict(xyz=[("Li", (0., 0., 0.)), ("H", (0., 0., 1.5949))], q=0, spin=0, frozen=[0, 3, 4, 5]),     # core 0, active 1,2, virtual 3,4,5
    "H4_fz": dict(xyz=[("H", (0., 0., 0.)), ("H", (0., 0., 0.9)), ("H", (0., 0., 1.9)), ("H", (0., 0., 2.8))], q=0, spin=0, frozen=[0, 3]),
}


def molecule(key):
    from tangelo import SecondQuantizedMolecule
    d = _MOLDEF[key]
    return SecondQuantizedMolecule(d["xyz"], d["q"], d["spin"], basis="sto-3g", frozen_orbitals=d["frozen"])


OCC = {"g": [1, 1, 0, 0], "s": [1, 0, 0, 1], "d": [0, 0, 1, 1], "s2": [0, 1, 1, 0]}


def VC(name, mol, ansatz, mapping, utd=False, refs=("g", "s"), weights=(2, 1), **kw):
    d = dict(name=name, mol=mol, ansatz=ansatz, mapping=mapping, utd=utd, refs=list(refs), weights=list(weights), circ_refs=False,
             penalty=None, defl=False, proj=False, nthetas=2)
    d.update(kw)
    return d


def v_configs(quick):
    cf = []
    for mp in ("jw", "bk", "scbk", "jkmn"):
        for utd in (False, True):
            if quick and utd and mp in ("jkmn",):
                continue
            cf.append(VC("H2-UCCGD-%s%s" % (mp, "-utd" if utd else ""), "H2", "UCCGD", mp, utd, weights=(3, 1) if utd else (2, 1)))
    cf += [VC("H2-UCCSD-jw-k3", "H2", "UCCSD", "jw", refs=("g", "s", "d"), weights=(1.2, 0.9, 0.4)),
           VC("H2-UpCCGSD-bk-utd", "H2", "UpCCGSD", "bk", True, refs=("s", "g"), weights=(1, 3)),
           VC("H2-HEA-jw", "H2", "HEA", "jw", weights=(1, 2)),
           VC("H2-UCCGD-jw-circrefs", "H2", "UCCGD", "jw", circ_refs=True, weights=(5, 2)),
           VC("H2-UCCGD-jw-penalty", "H2", "UCCGD", "jw", penalty={"N": [2, 2], "Sz": [0, 1.5], "S^2": [0, 0.5]}, refs=("g", "s", "s2"), weights=(3, 2, 1)),
           VC("H2-UCCGD-jw-defl", "H2", "UCCGD", "jw", defl=True),
           VC("H2-UCCSD-bk-proj", "H2", "UCCSD", "bk", proj=True),
           VC("LiH-UCCGD-jw", "LiH_fz", "UCCGD", "jw", weights=(1, 1)),
           VC("LiH-UCCSD-scbk-utd", "LiH_fz", "UCCSD", "scbk", True, weights=(4, 1))]
    if not quick:
        cf += [VC("H2-UCCSD-%s%s" % (mp, "-utd" if utd else ""), "H2", "UCCSD", mp, utd, nthetas=4) for mp in ("jw", "bk", "scbk", "jkmn") for utd in (False, True)]
        cf += [VC("H2-HEA-%s" % mp, "H2", "HEA", mp, nthetas=3) for mp in ("bk", "scbk")]
        cf += [VC("H4fz-UCCGD-jw", "H4_fz", "UCCGD", "jw", refs=("g", "s", "d"), weights=(3, 2, 2), nthetas=4),
               VC("H2-UpCCGSD-jkmn", "H2", "UpCCGSD", "jkmn", nthetas=4)]
        for c in cf:
            c["nthetas"] = max(c["nthetas"], 3)
    return cf


DEFL_COEFF = 0.75


def defl_circuits(n):
    from tangelo.linq import Circuit, Gate
    return [Circuit([Gate("X", 0), Gate("X", 1)], n_qubits=n),
            Circuit([Gate("X", 0), Gate("H", 1), Gate("CNOT", 2, 1), Gate("X", 3), Gate("RY", 2, parameter=math.pi / 4)], n_qubits=n)]


def proj_circuit(n):
    from tangelo.linq import Circuit, Gate
    return Circuit([Gate("CNOT", 1, 0), Gate("RZ", 0, parameter=math.pi / 4), Gate("H", n - 1), Gate("S", n - 1), Gate("H", n - 1)], n_qubits=n)


def jw_reference(occ, utd):
    """spin-orbital p (alternating up/down) -> qubit under Jordan-Wigner with the requested ordering."""
    n = len(occ)
    pos = (lambda p: p) if not utd else (lambda p: p // 2 if p % 2 == 0 else n // 2 + p // 2)
    return sorted(pos(p) for p in range(n) if occ[p])


def expected_refs(cfg, n):
    """Reference circuits of the requested occupations: independent index map for JW, C05-validated helpers otherwise."""
    from tangelo.linq import Circuit, Gate
    from tangelo.toolboxes.qubit_mappings.statevector_mapping import get_mapped_vector, vector_to_circuit
    out = []
    for r in cfg["refs"]:
        if cfg["mapping"] == "jw":
            out.append(Circuit([Gate("X", q) for q in jw_reference(OCC[r], cfg["utd"])], n_qubits=n))
        else:
            out.append(vector_to_circuit(get_mapped_vector(OCC[r], cfg["mapping"], cfg["utd"])))
    return out


def expected_hamiltonian(cfg, mol, mo_coeff=None):
    from tangelo.toolboxes.qubit_mappings.mapping_transform import fermion_to_qubit_mapping
    kw = dict(mapping=cfg["mapping"], n_spinorbitals=mol.n_active_sos, n_electrons=mol.n_active_electrons,
              up_then_down=cfg["utd"], spin=mol.active_spin)
    fh = mol.fermionic_hamiltonian if mo_coeff is None else mol._get_fermionic_hamiltonian(mo_coeff)
    H = fermion_to_qubit_mapping(fermion_operator=fh, **kw)
    if cfg.get("penalty"):
        from tangelo.toolboxes.ansatz_generator.penalty_terms import combined_penalty
        H = H + fermion_to_qubit_mapping(fermion_operator=combined_penalty(mol.n_active_mos, copy.deepcopy(cfg["penalty"])), **kw)
    return H


def make_mol_solver(cfg, mol, cls=None, script=None, **extra):
    from tangelo.algorithms.variational import SA_VQESolver, BuiltInAnsatze
    cls = cls or SA_VQESolver
    n_guess = 2 if cfg["mapping"] == "scbk" else 4
    opts = {"molecule": mol, "qubit_mapping": cfg["mapping"], "up_then_down": cfg["utd"], "ansatz": getattr(BuiltInAnsatze, cfg["ansatz"]),
            "weights": list(cfg["weights"])}
    if cfg["circ_refs"]:
        opts["ref_states"] = expected_refs(cfg, n_guess)
    else:
        opts["ref_states"] = [list(OCC[r]) for r in cfg["refs"]]
    if cfg.get("penalty"):
        opts["penalty_terms"] = copy.deepcopy(cfg["penalty"])
    if cfg.get("defl"):
        opts["deflation_circuits"] = defl_circuits(n_guess)
        opts["deflation_coeff"] = DEFL_COEFF
    if cfg.get("proj"):
        opts["projective_circuit"] = proj_circuit(n_guess)
    if script is not None:
        opts["optimizer"] = script
    opts.update(extra)
    return cls(opts)


STEPS = [math.pi / 8, math.pi / 4, math.pi / 2, math.pi, 2 * math.pi]


def on_grid(circ):
    try:
        gates_to_json(list(circ), M)
        return True
    except OffGrid:
        return False


def param_steps(s):
    """per parameter the smallest step that keeps the ansatz circuit on the 2 pi / 16 grid (probed on the code: inputs only)."""
    npar = len(s.ansatz.var_params)
    out = []
    for p in range(npar):
        st = None
        for c in STEPS:
            th = np.zeros(npar)
            th[p] = c
            s.ansatz.update_var_params(th)
            if on_grid(s.ansatz.circuit):
                st = c
                break
        out.append(st)
    s.ansatz.update_var_params(np.zeros(npar))
    return out


def grid_thetas(steps, rng, count, budget=3):
    npar = len(steps)
    vecs = [np.zeros(npar)]
    for _ in range(count):
        th = np.zeros(npar)
        idx = [p for p in range(npar) if steps[p] is not None]
        rng.shuffle(idx)
        for j, p in enumerate(idx):
            th[p] = steps[p] * rng.randrange(1, 8) if j < budget else 2 * steps[p] * rng.randrange(0, 4)
        vecs.append(th)
    return vecs


def dense(op, n):
    P = {"I": np.eye(2), "X": np.array([[0, 1], [1, 0]]), "Y": np.array([[0, -1j], [1j, 0]]), "Z": np.array([[1, 0], [0, -1]])}
    Hm = np.zeros((2 ** n, 2 ** n), dtype=complex)
    for term, c in op.terms.items():
        d = dict(term)
        m = np.ones((1, 1))
        for q in range(n):
            m = np.kron(m, P[d.get(q, "I")])
        Hm += c * m
    return Hm


def record_job(s, cfg, n, words, extra_tail=None, theta=None):
    """Gate lists the solver simulates for every reference state at its CURRENT ansatz parameters."""
    anz = list(s.ansatz.circuit) + (list(s.projective_circuit) if s.projective_circuit else [])
    return {"n": n, "engine": "ring", "refs": [gates_to_json(list(c), M) for c in s.reference_circuits], "anz": gates_to_json(anz, M),
            "words": words, "defl": [gates_to_json(list(c), M) for c in (s.deflation_circuits or [])]}


def contract(terms, evals):
    return sum(c * rc(e) for (t, c), e in zip(terms, evals))


class VSample:
    pass


def cfg_rng(chk, cfg):
    return random.Random("%d:%s" % (chk.seed, cfg["name"]))


def drive_v(chk, cfg, rng):
    """build the solver, evaluate at grid vectors, record jobs."""
    from tangelo.toolboxes.operators import count_qubits
    mol = molecule(cfg["mol"])
    Hexp = expected_hamiltonian(cfg, mol)
    n = count_qubits(Hexp)
    s = make_mol_solver(cfg, mol)
    case0 = {"part": "V", "cfg": cfg}
    try:
        s.build()
    except Exception as e:
        chk.violation("build:exception:%s:%s" % (cfg["ansatz"], cfg["mapping"]), "%s: build raised %s: %s" % (cfg["name"], type(e).__name__, e), case0)
        return []
    # binding of the reference list: requested occupations -> circuits
    want = [sorted((g.name, tuple(g.target)) for g in c) for c in expected_refs(cfg, n)]
    got = [sorted((g.name, tuple(g.target)) for g in c) for c in s.reference_circuits]
    if want != got:
        chk.violation("build:reference-circuits:%s:%s" % (cfg["mapping"], "utd" if cfg["utd"] else "alt"),
                      "%s: reference circuits %s, requested occupations give %s" % (cfg["name"], got, want), case0)
    wn = np.array(cfg["weights"], dtype=float) / sum(cfg["weights"])
    if not close(s.weights, wn, 1e-12):
        chk.violation("build:weights", "%s: weights %s, documented normalisation %s" % (cfg["name"], list(s.weights), list(wn)), case0)
    hterms = list(Hexp.terms.items())
    words = [word_to_json(t, n) for t, _ in hterms]
    steps = param_steps(s)
    out = []
    lam = np.linalg.eigvalsh(dense(Hexp, n))
    for theta in grid_thetas(steps, rng, cfg["nthetas"]):
        v = VSample()
        v.cfg, v.theta, v.n, v.hterms, v.lam = cfg, [float(x) for x in theta], n, hterms, lam
        v.case = {"part": "V", "cfg": cfg, "theta": v.theta}
        try:
            v.E = float(np.real(s.energy_estimation(np.array(theta))))
            v.se = [float(np.real(x)) for x in s.state_energies]
        except Exception as e:
            chk.violation("energy_estimation:exception:%s:%s:%s" % (cfg["ansatz"], cfg["mapping"], type(e).__name__),
                          "%s theta=%s: %s" % (cfg["name"], v.theta, e), v.case)
            continue
        v.narrow = s.ansatz.circuit.width < n
        try:
            v.job = record_job(s, cfg, n, words)
        except OffGrid:
            chk.inconclusive += 1
            continue
        out.append(v)
    return out


def judge_v(chk, v, verdict, rec):
    """compare what the solver returned with the exact values; returns True when everything matched."""
    cfg = v.cfg
    if verdict in ("not-normalised", "complex-expectation", "orthonormality-lost"):
        raise tlc.TLCError("specification-level failure on %s: %s" % (cfg["name"], verdict))
    if verdict != "ok" or rec is None:
        chk.inconclusive += 1
        return True
    ok = True
    wn = np.array(cfg["weights"], dtype=float) / sum(cfg["weights"])
    plain = [contract(v.hterms, rec["e"][i]).real for i in range(len(cfg["refs"]))]
    pen = [DEFL_COEFF * sum(rc(o).real for o in rec["ov"][i]) for i in range(len(cfg["refs"]))]
    exp_se = [a + b for a, b in zip(plain, pen)]
    v.plain, v.exp_se, v.orth = plain, exp_se, rec["orth"]
    if not close(v.se, exp_se):
        ok = False
        if cfg.get("defl") and v.narrow and close(v.se, plain):
            chk.violation("energy_estimation:deflation-narrow-ansatz-circuit", "%s theta=%s: state_energies %s lack the deflation penalty %s "
                          "(ansatz circuit narrower than the simulated register)" % (cfg["name"], v.theta, v.se, pen), v.case)
        else:
            chk.violation("energy_estimation:state_energies:%s:%s" % (cfg["ansatz"], cfg["mapping"]),
                          "%s theta=%s: state_energies %s, exact %s" % (cfg["name"], v.theta, v.se, exp_se), v.case)
    Eexp = float(np.dot(wn, exp_se))
    if ok and abs(v.E - Eexp) > TOL:
        ok = False
        chk.violation("energy_estimation:weighted-sum:%s" % cfg["ansatz"], "%s theta=%s: returned %.10f, SUM w_i E_i = %.10f (weights %s)" % (
            cfg["name"], v.theta, v.E, Eexp, list(wn)), v.case)
    return ok


def numeric_tail(chk, v, tail):
    """E_i >= lambda_min and the ensemble bound with numpy eigenvalues: NOT model checked (real-number spectrum)."""
    cfg = v.cfg
    if hasattr(v, "plain"):
        wn = np.array(cfg["weights"], dtype=float) / sum(cfg["weights"])
        tail["states"] += len(v.plain)
        if min(v.plain) < v.lam[0] - 1e-9 or max(v.plain) > v.lam[-1] + 1e-9:
            chk.violation("numeric-tail:state-energy-outside-spectrum", "%s theta=%s: %s, spectrum [%.8f, %.8f]" % (cfg["name"], v.theta, v.plain, v.lam[0], v.lam[-1]), v.case)
        if v.orth:
            floor = float(np.dot(sorted(wn, reverse=True), v.lam[:len(wn)]))
            tail["ensembles"] += 1
            if float(np.dot(wn, v.plain)) < floor - 1e-9:
                chk.violation("numeric-tail:ensemble-bound", "%s theta=%s: SUM w_i E_i = %.10f below SUM w_i lambda_i = %.10f" % (
                    cfg["name"], v.theta, float(np.dot(wn, v.plain)), floor), v.case)


def v_controls(samples):
    """corrupted copies of recorded jobs: the exact values must change / the premise must reject."""
    ctl = []
    base = [v for v in samples if any(g["name"] in ("RX", "RY", "RZ") for g in v.job["anz"])]
    if not base:
        return ctl
    v = base[len(base) // 2]
    j = copy.deepcopy(v.job)
    x = [i for i, g in enumerate(j["anz"]) if g["name"] in ("RX", "RY", "RZ")][0]
    j["anz"][x]["k"] += 2
    ctl.append(("angle+1step", v, j, "differs"))
    v2 = [v for v in samples if len(v.job["refs"][1]) > 0][0]
    j = copy.deepcopy(v2.job)
    j["refs"][1] = j["refs"][1][1:]
    ctl.append(("dropped-reference-gate", v2, j, "differs"))
    j = copy.deepcopy(v.job)
    j["refs"][0], j["refs"][1] = j["refs"][1], j["refs"][0]
    ctl.append(("swapped-references", v, j, "differs"))
    j = copy.deepcopy(v.job)
    j["engine"] = "cliff"
    j["anz"] = j["anz"] + [{"name": "RZ", "t": [0], "c": [], "k": 2}]
    ctl.append(("non-clifford-to-stabiliser-engine", v, j, "not-clifford"))
    j = copy.deepcopy(v.job)
    j["anz"] = j["anz"] + [{"name": "RZ", "t": [v.n], "c": [], "k": 2}]
    ctl.append(("gate-outside-register", v, j, "malformed-gate"))
    return ctl


def run_judge(chk, jobs, name):
    for x, j in enumerate(jobs):
        j["id"] = x
    verd, results = tlc.judge("X05Trace", jobs, "%s/%s" % (WD, name), {"M": M}, max_parallel=PAR, timeout=3000)
    recs = {}
    for r in results:
        chk.add_tlc(r)
        for rec in r.prints("R"):
            recs[rec["id"]] = rec
    return verd, recs


def narrow_reference_probe(chk):
    """Reference circuits given as Circuit objects without a fixed width (X gates on the occupied qubits only): the prepared states
    are the same as for the occupation lists, so the energies must be the same at every parameter vector - also at zero parameters,
    where UCC-type ansatz circuits are empty and the simulated circuit is narrower than the Hamiltonian's register."""
    from tangelo.linq import Circuit, Gate
    from tangelo.algorithms.variational import SA_VQESolver, BuiltInAnsatze
    mol = molecule("H2")
    base = {"molecule": mol, "ansatz": BuiltInAnsatze.UCCGD, "weights": [2, 1]}
    a = SA_VQESolver(dict(base, ref_states=[[1, 1, 0, 0], [1, 0, 0, 1]]))
    b = SA_VQESolver(dict(base, ref_states=[Circuit([Gate("X", 0), Gate("X", 1)]), Circuit([Gate("X", 0), Gate("X", 3)])]))
    a.build()
    b.build()
    for th in ([0.0, 0.0, 0.0], [math.pi / 4, 0.0, math.pi / 2]):
        ea = float(np.real(a.energy_estimation(np.array(th))))
        case = {"part": "V-narrow-ref", "theta": th}
        try:
            eb = float(np.real(b.energy_estimation(np.array(th))))
        except Exception as e:
            chk.violation("energy_estimation:exception-narrow-reference-circuit", "H2/UCCGD/jw, ref_states given as circuits [X0 X1], [X0 X3], theta=%s: "
                          "energy_estimation raised %s: %s (occupation lists [1,1,0,0], [1,0,0,1] give %.10f)" % (th, type(e).__name__, e, ea), case)
            continue
        if abs(ea - eb) > TOL or not close(a.state_energies, b.state_energies):
            chk.violation("energy_estimation:narrow-reference-circuit:value", "theta=%s: %.10f with circuit references, %.10f with occupation lists" % (th, eb, ea), case)
        chk.add_traces(1, "V_narrow_reference")


def part_v(chk, rng, only=None):
    cfgs = v_configs(chk.quick) if only is None else only
    samples = []
    for cfg in cfgs:
        samples += drive_v(chk, cfg, cfg_rng(chk, cfg))
    ctl = v_controls(samples) if only is None else []
    jobs = [v.job for v in samples] + [j for _, _, j, _ in ctl]
    verd, recs = run_judge(chk, jobs, "v")
    tail = {"states": 0, "ensembles": 0}
    nok = 0
    for x, v in enumerate(samples):
        nok += judge_v(chk, v, verd[x], recs.get(x))
        numeric_tail(chk, v, tail)
        chk.add_traces(1, "V_samples")
    # negative controls
    cres = {}
    for y, (nm, v, j, want) in enumerate(ctl):
        x = len(samples) + y
        if want == "differs":
            rec = recs.get(x)
            wn = np.array(v.cfg["weights"], dtype=float) / sum(v.cfg["weights"])
            se = [contract(v.hterms, rec["e"][i]).real + DEFL_COEFF * sum(rc(o).real for o in rec["ov"][i]) for i in range(len(wn))] if rec else None
            cres[nm] = rec is not None and (not close(se, v.se) or (nm == "swapped-references" and not close(se, v.se)))
        else:
            cres[nm] = verd[x] == want
    if only is not None:
        return
    if not ctl or not all(cres.values()):
        raise tlc.TLCError("negative control not rejected: %s" % cres)
    guards = {"k>=2": sum(len(c["refs"]) >= 2 for c in cfgs), "unequal_weights": sum(len(set(c["weights"])) > 1 for c in cfgs),
              "nonzero_theta": sum(any(v.theta) for v in samples), "orthonormal_ensembles": sum(bool(getattr(v, "orth", False)) for v in samples)}
    for g, val in guards.items():
        if not val:
            raise tlc.TLCError("vacuity guard (V): no sample with %s" % g)
    chk.part("V_molecular", configurations=len(cfgs), samples=len(samples), matched=nok, negative_controls=cres, guards=guards)
    chk.part("numeric_tail_spectral_bounds_NOT_model_checked", **tail)
    narrow_reference_probe(chk)
    chk.sample({"V_sample": {"cfg": samples[0].cfg["name"], "theta": samples[0].theta, "E": samples[0].E, "state_energies": samples[0].se}})


# ------------------------------------------------------------------------------------------------------
# OO: SA_OO_Solver.iterate() with a scripted optimiser (grid parameters), recorded per cycle
# ------------------------------------------------------------------------------------------------------
def oo_configs(quick):
    cf = [dict(VC("OO-LiH-UCCGD-jw", "LiH_fz", "UCCGD", "jw", weights=(2, 1)), cycles=2, n_oo=1),
          dict(VC("OO-H4fz-UCCGD-bk", "H4_fz", "UCCGD", "bk", weights=(1, 3), refs=("g", "s")), cycles=2, n_oo=2)]
    if not quick:
        cf += [dict(VC("OO-LiH-UCCSD-scbk-utd", "LiH_fz", "UCCSD", "scbk", True, weights=(1, 1)), cycles=3, n_oo=1),
               dict(VC("OO-H4fz-UCCGD-jw-k3", "H4_fz", "UCCGD", "jw", refs=("g", "s", "d"), weights=(3, 2, 1)), cycles=3, n_oo=1),
               dict(VC("OO-LiH-UpCCGSD-jkmn", "LiH_fz", "UpCCGSD", "jkmn", weights=(1, 2)), cycles=2, n_oo=3)]
    return cf


def drive_oo(chk, cfg, rng):
    """Run iterate() on a fresh molecule; returns the recorded run (events + final state) or None."""
    from tangelo.algorithms.variational import SA_OO_Solver
    from tangelo.toolboxes.operators import count_qubits
    mol = molecule(cfg["mol"])
    S = np.array(mol.mean_field.get_ovlp())
    script = Script()
    s = make_mol_solver(cfg, mol, cls=SA_OO_Solver, script=script, max_cycles=cfg["cycles"], tol=1e-13, n_oo_per_iter=cfg["n_oo"])
    s.build()
    n = count_qubits(s.qubit_hamiltonian)
    steps = param_steps(s)
    probes = grid_thetas(steps, rng, 2)
    probes = [probes[1], probes[0], probes[2]]
    script.probes = [list(map(float, p)) for p in probes]
    init = np.array(s.initial_var_params, dtype=float).copy()
    ev = []
    o_efr, o_gen, o_build = s.energy_from_rdms, s.generate_oo_unitary, s.build

    def efr():
        e = o_efr()
        try:
            job = record_job(s, cfg, n, [])
        except OffGrid:
            job = None
        ev.append({"ev": "efr", "value": float(np.real(e)), "C": np.array(mol.mo_coeff).copy(), "theta": [float(x) for x in s.optimal_var_params],
                   "vqe": float(np.real(s.vqe_energies[-1])), "job": job})
        return e

    def gen():
        from scipy.linalg import logm, expm
        u = o_gen()
        C = np.array(mol.mo_coeff).copy()
        # numeric tail: state-averaged energy along the rotation path C u^t (same RDMs): slope at t = 0 and full step
        L = np.real(logm(np.array(u)))
        mol.mo_coeff = C @ expm(1e-3 * L)
        e1 = float(np.real(o_efr()))
        mol.mo_coeff = C @ expm(-1e-3 * L)
        e0 = float(np.real(o_efr()))
        mol.mo_coeff = C
        ev.append({"ev": "u", "u": np.array(u).copy(), "C": C, "slope": (e1 - e0) / 2e-3, "step": float(np.max(np.abs(L)))})
        return u

    def build():
        o_build()
        ev.append({"ev": "build", "C": np.array(mol.mo_coeff).copy()})
    s.energy_from_rdms, s.generate_oo_unitary, s.build = efr, gen, build
    case = {"part": "OO", "cfg": cfg}
    try:
        s.iterate()
    except Exception as e:
        chk.violation("iterate:exception:%s" % type(e).__name__, "%s: iterate raised %s: %s" % (cfg["name"], type(e).__name__, e), case)
        return None
    s.energy_from_rdms, s.generate_oo_unitary, s.build = o_efr, o_gen, o_build
    run_ = {"cfg": cfg, "mol": mol, "S": S, "ev": ev, "n": n, "s": s, "init": init, "case": case, "probes": script.probes}
    # one more evaluation on the object iterate() leaves behind
    th = script.probes[2]
    try:
        run_["final_E"] = float(np.real(s.energy_estimation(np.array(th))))
        run_["final_se"] = [float(np.real(x)) for x in s.state_energies]
        run_["final_job"] = record_job(s, cfg, n, [])
    except OffGrid:
        run_["final_job"] = None
    return run_


def oo_jobs(run_):
    """one TLC job per recorded RDM-energy evaluation (words of the Hamiltonian at the molecule's orbitals at that moment) + final."""
    cfg, mol, n = run_["cfg"], run_["mol"], run_["n"]
    cfg0 = dict(cfg, penalty=None)
    jobs = []
    for e in run_["ev"]:
        if e["ev"] == "efr" and e["job"] is not None:
            H = expected_hamiltonian(cfg0, mol, mo_coeff=e["C"])
            e["hterms"] = list(H.terms.items())
            jobs.append((e, dict(e["job"], words=[word_to_json(t, n) for t, _ in e["hterms"]])))
    if run_.get("final_job"):
        H = expected_hamiltonian(cfg0, mol, mo_coeff=np.array(mol.mo_coeff))
        fe = {"ev": "final", "hterms": list(H.terms.items()), "H": H}
        run_["final"] = fe
        jobs.append((fe, dict(run_["final_job"], words=[word_to_json(t, n) for t, _ in fe["hterms"]])))
    return jobs


def judge_oo(chk, run_, tail):
    cfg, s, ev, case = run_["cfg"], run_["s"], run_["ev"], run_["case"]
    name = cfg["name"]
    wn = np.array(cfg["weights"], dtype=float) / sum(cfg["weights"])
    K = len(wn)

    def exact(e):
        return float(sum(wn[i] * contract(e["hterms"], e["rec"]["e"][i]).real for i in range(K)))
    # ---- walk the cycles
    cyc, cur = [], None
    for e in ev:
        if e["ev"] == "efr":
            if cur is None or cur["efr2"] is not None:
                cur = {"efr1": e, "us": [], "efr2": None, "built": False}
                cyc.append(cur)
            else:
                cur["efr2"] = e
        elif e["ev"] == "u":
            cur["us"].append(e)
        elif e["ev"] == "build" and cur is not None:
            cur["built"] = True
    if len(s.energies) != len(cyc) or len(s.vqe_energies) != len(cyc):
        chk.violation("iterate:bookkeeping:lengths", "%s: %d cycles recorded, %d energies, %d vqe_energies" % (name, len(cyc), len(s.energies), len(s.vqe_energies)), case)
        return
    for c, cy in enumerate(cyc):
        e1, e2 = cy["efr1"], cy["efr2"]
        where = "%s cycle %d" % (name, c)
        if "rec" in e1:
            x1 = exact(e1)
            # (a) the SA-VQE energy of the cycle is the weighted energy of the optimal ensemble in the orbitals of that cycle
            if abs(e1["vqe"] - x1) > TOL:
                chk.violation("iterate:vqe-energy", "%s: SA-VQE energy %.10f, exact SUM w_i <psi_i|H|psi_i> = %.10f at the optimal parameters %s" % (where, e1["vqe"], x1, e1["theta"]), case)
            # (b) the energy computed from the state-averaged RDMs equals it
            if abs(e1["value"] - x1) > TOL:
                chk.violation("iterate:energy_from_rdms:before-rotation", "%s: energy from the RDMs %.10f, exact %.10f" % (where, e1["value"], x1), case)
        if e2 is not None:
            # (c) after the orbital rotation: RDMs of the same states, integrals in the rotated orbitals
            #     = expectation value of the Hamiltonian assembled in the rotated orbitals
            if "rec" in e2:
                x2 = exact(e2)
                if abs(e2["value"] - x2) > TOL:
                    chk.violation("iterate:energy_from_rdms:after-rotation", "%s: energy from the RDMs with rotated integrals %.10f, exact energy of the same "
                                  "states under the Hamiltonian of the rotated orbitals %.10f" % (where, e2["value"], x2), case)
            if e2["theta"] != e1["theta"]:
                chk.violation("iterate:states-changed-during-rotation", "%s: optimal parameters changed between the two RDM energies" % where, case)
            if abs(float(np.real(s.energies[c])) - e2["value"]) > 1e-12:
                chk.violation("iterate:bookkeeping:energies", "%s: energies[%d] = %.10f, rotated-orbital energy %.10f" % (where, c, s.energies[c], e2["value"]), case)
            if len(cy["us"]) != cfg["n_oo"]:
                chk.violation("iterate:n_oo_per_iter", "%s: %d orbital steps, n_oo_per_iter = %d" % (where, len(cy["us"]), cfg["n_oo"]), case)
            # numeric tail: the rotation is orthogonal, the orbitals stay orthonormal, mo_coeff is the product of the steps
            C = e1["C"].copy()
            for u in cy["us"]:
                tail["rotations"] += 1
                if np.max(np.abs(u["u"].T @ u["u"] - np.eye(len(u["u"])))) > 1e-9:
                    chk.violation("numeric-tail:oo-unitary-not-orthogonal", "%s: u^T u - 1 = %.3g" % (where, np.max(np.abs(u["u"].T @ u["u"] - np.eye(len(u["u"]))))), case)
                # the documented purpose of the step ("reduces the state averaged energy"): -H^-1 g with a positive definite H is a
                # descent direction, so the energy must not increase along the first piece of the rotation path
                tail["descent_checks"] += 1
                if u["slope"] > 1e-6:
                    chk.violation("numeric-tail:oo-step-not-a-descent-direction", "%s: d/dt E(C u^t) at t=0 is %+.3e (the orbital step increases the "
                                  "state-averaged energy)" % (where, u["slope"]), case)
                if np.max(np.abs(u["C"] - C)) > 1e-10:
                    chk.violation("numeric-tail:mo_coeff-history", "%s: orbital step computed at other orbitals than the molecule holds" % where, case)
                C = C @ u["u"]
            if np.max(np.abs(e2["C"] - C)) > 1e-10:
                chk.violation("numeric-tail:mo_coeff-update", "%s: mo_coeff after the step is not mo_coeff @ u" % where, case)
            tail["orthonormality_checks"] += 1
            dev = float(np.max(np.abs(e2["C"].T @ run_["S"] @ e2["C"] - np.eye(C.shape[0]))))
            if dev > 1e-8:
                chk.violation("numeric-tail:orbitals-not-orthonormal", "%s: max |C^T S C - 1| = %.3g" % (where, dev), case)
            if not cy["built"]:
                chk.violation("iterate:stale-hamiltonian:no-rebuild", "%s: orbitals rotated but the solver was not rebuilt" % where, case)
        else:
            if abs(float(np.real(s.energies[c])) - e1["value"]) > 1e-12:
                chk.violation("iterate:bookkeeping:energies", "%s: converged cycle, energies[%d] = %.10f, energy %.10f" % (where, c, s.energies[c], e1["value"]), case)
    # ---- the object iterate() leaves behind: Hamiltonian of the molecule's CURRENT orbitals, references unchanged
    fe = run_.get("final")
    if fe is not None:
        Hs = dict(s.qubit_hamiltonian.terms)
        keys = set(Hs) | set(fe["H"].terms)
        dmax = max(abs(Hs.get(k, 0) - fe["H"].terms.get(k, 0)) for k in keys)
        if dmax > 1e-9:
            chk.violation("iterate:stale-hamiltonian", "%s: after iterate() the solver's qubit_hamiltonian differs from the Hamiltonian of the molecule's "
                          "current orbitals by %.3g" % (name, dmax), case)
        if "rec" in fe:
            se = [contract(fe["hterms"], fe["rec"]["e"][i]).real for i in range(K)]
            if not close(run_["final_se"], se) or abs(run_["final_E"] - float(np.dot(wn, se))) > TOL:
                chk.violation("iterate:energy-after-iterate", "%s: energy_estimation after iterate(): %.10f %s, exact under the rotated Hamiltonian %.10f %s" % (
                    name, run_["final_E"], run_["final_se"], float(np.dot(wn, se)), se), case)
    want = [sorted((g.name, tuple(g.target)) for g in c) for c in expected_refs(cfg, run_["n"])]
    got = [sorted((g.name, tuple(g.target)) for g in c) for c in s.reference_circuits]
    if want != got:
        chk.violation("iterate:reference-circuits", "%s: reference circuits after iterate() %s, requested %s" % (name, got, want), case)
    if not close(s.initial_var_params, run_["init"], 1e-12):
        chk.violation("iterate:initial_var_params-changed", "%s: initial_var_params %s -> %s" % (name, list(run_["init"]), list(s.initial_var_params)), case)
    # state_energies after iterate describe the optimal ensemble of the last SA-VQE (the repo's tests read them)
    last = cyc[-1]["efr1"]
    if "rec" in last:
        se = [contract(last["hterms"], last["rec"]["e"][i]).real for i in range(K)]
        run_["last_se"] = se


def full_space_probe(chk):
    """An active space that spans all orbitals has no orbital rotation left: the orbital step must be the identity."""
    from tangelo.algorithms.variational import SA_OO_Solver
    cfg = dict(VC("OO-H2-full-space", "H2", "UCCGD", "jw"), cycles=2, n_oo=1)
    mol = molecule("H2")
    script = Script()
    s = make_mol_solver(cfg, mol, cls=SA_OO_Solver, script=script, max_cycles=2, tol=1e-13)
    s.build()
    script.probes = [[0.0] * len(s.initial_var_params), [math.pi / 4] * len(s.initial_var_params)]
    C0 = np.array(mol.mo_coeff).copy()
    case = {"part": "OO-full", "cfg": cfg}
    try:
        s.iterate()
    except Exception as e:
        chk.violation("iterate:exception:no-orbital-rotations", "SA_OO_Solver on H2/STO-3G (all orbitals active): iterate() raised %s: %s" % (type(e).__name__, e), case)
        return
    if np.max(np.abs(np.array(mol.mo_coeff) - C0)) > 1e-10 or abs(s.energies[0] - s.vqe_energies[0]) > TOL:
        chk.violation("iterate:no-orbital-rotations:changed", "full active space: orbitals or energy changed by the orbital step", case)
    chk.add_traces(1, "OO_full_space")


def part_oo(chk, rng, only=None):
    cfgs = oo_configs(chk.quick) if only is None else only
    runs = [r for r in (drive_oo(chk, c, cfg_rng(chk, c)) for c in cfgs) if r is not None]
    pairs = []
    for r in runs:
        pairs += oo_jobs(r)
    # negative control: the same recorded states judged against the integrals of the WRONG orbitals must give another energy
    verd, recs = run_judge(chk, [j for _, j in pairs], "oo")
    for x, (e, j) in enumerate(pairs):
        if verd[x] in ("not-normalised", "complex-expectation", "orthonormality-lost"):
            raise tlc.TLCError("specification-level failure in OO job: %s" % verd[x])
        if verd[x] == "ok" and x in recs:
            e["rec"] = recs[x]
        else:
            chk.inconclusive += 1
    tail = {"rotations": 0, "orthonormality_checks": 0, "descent_checks": 0}
    ctl = 0
    for r in runs:
        judge_oo(chk, r, tail)
        chk.add_traces(len([e for e in r["ev"] if e["ev"] == "efr"]) + 1, "OO_cycles")
        efrs = [e for e in r["ev"] if e["ev"] == "efr" and "rec" in e]
        if len(efrs) >= 2:
            wn = np.array(r["cfg"]["weights"], dtype=float) / sum(r["cfg"]["weights"])
            wrong = float(sum(wn[i] * contract(efrs[0]["hterms"], efrs[1]["rec"]["e"][i]).real for i in range(len(wn))))
            if abs(wrong - efrs[1]["value"]) > 1e-7:
                ctl += 1
    if only is not None:
        return
    if runs and not ctl:
        raise tlc.TLCError("negative control (OO): the unrotated Hamiltonian reproduces the rotated-orbital energies - the rotation is not observable")
    full_space_probe(chk)
    nrot = sum(1 for r in runs for e in r["ev"] if e["ev"] == "u")
    if runs and not nrot:
        raise tlc.TLCError("vacuity guard (OO): no orbital rotation performed")
    chk.part("OO_iterate", runs=len(runs), rdm_energy_evaluations=len(pairs), negative_control_unrotated_hamiltonian_differs=ctl)
    chk.part("numeric_tail_orbital_rotation_NOT_model_checked", **tail)


# ------------------------------------------------------------------------------------------------------
def run(chk):
    rng = random.Random(chk.seed)
    part_a(chk, rng)
    part_v(chk, rng)
    part_oo(chk, rng)
    chk.cov["rule"] = ("A: every call history of length <= depth over {build, energy x 4 grid vectors, simulate x 3 probe scripts} per exact "
                       "configuration, replayed on SA_VQESolver; V: molecular configurations x grid parameter vectors judged by X05Trace; "
                       "OO: iterate() with scripted optimiser, every RDM-energy evaluation judged by X05Trace")
    chk.assumptions += ["E(theta) is a trigonometric polynomial: agreement on grid vectors (multiples of pi/4, several per configuration, "
                        "negative and > 2 pi) stands for all theta"]


def replay(chk, rec):
    case = rec["case"]
    if case.get("part") == "A":
        cfg, hamrec = case["cfg"], case.get("ham")
        if hamrec is None:
            reference_binding(chk, cfg)
            return not chk.violations and not chk.known_hits
        bad = replay_history(chk, cfg, hamrec, qubit_op_from_terms(hamrec["terms"]), case["hist"], {}, case.get("as_occ", True))
        for k, d in bad:
            print("  %s: %s" % (k, d))
        return not bad
    part = case.get("part")
    if part == "V":
        part_v(chk, None, only=[case["cfg"]])
    elif part == "V-narrow-ref":
        narrow_reference_probe(chk)
    elif part == "OO":
        part_oo(chk, None, only=[case["cfg"]])
    elif part == "OO-full":
        full_space_probe(chk)
    else:
        print("unknown case")
        return True
    for k, d, _ in chk.violations:
        print("  %s: %s" % (k, str(d)[:400]))
    for k, (cnt, what) in chk.known_hits.items():
        print("  known finding reproduced: %s (%d)" % (k, cnt))
    return not chk.violations and not chk.known_hits


if __name__ == "__main__":
    check.main("X05", run, replay)
