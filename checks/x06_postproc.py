#!/venv/bin/python
"""Extension X06 (not one of the listed properties): numerical post-processing and the rotosolve optimiser are exact
where exact answers exist.

(i)   spec/X06Extrap.tla   S: TLC model-checks, with exact rational arithmetic, that the extrapolation weights of every order
      annihilate the monomials (so P(0) is returned for every polynomial of admissible degree), that the three weight
      formulas agree, that the order of the points is irrelevant.  G: every transition (data set x public call) is exported
      and replayed on richardson / richardson_analytical / extrapolation / diis / richardson(estimate_exp=True); energies
      and variances must equal TLC's rationals.
(ii)  spec/X06Rotosolve.tla S: each coordinate update is a grid minimiser, energies never increase, stop rule, returned
      energy = f(returned params).  G: complete behaviours are replayed on the real rotosolve / rotosolve_step with the
      same objective, as a Python closure and as a real circuit + qubit operator evaluated by get_expectation_value.
      V: unscripted runs on entangling circuits are recorded and judged by spec/X06Trace.tla (fixed-point energies).
(iii) spec/X06McWeeny.tla  S: idempotent inputs are fixed points, eigenvectors kept / eigenvalues through 3x^2-2x^3, traces.
      G: every run (input x conv) is replayed on mcweeny_purify_2rdm; the outputs must equal the exact rationals.
(iv)  spec/X06Trace.tla    V: resampled histograms recorded from get_resampled_frequencies are judged by TLC (keys within
      the support, widths, counts sum to the number of shots); determinism under a fixed seed; 6-sigma numeric tail.
Negative controls: corrupted implementations (wrappers around the real functions) must be flagged by the same comparators,
corrupted records must be rejected by the trace spec; vacuity guards on TLC's action coverage and on the exported classes.
"""
import copy
import json
import math
import os
import random
import sys
from fractions import Fraction

sys.path.insert(0, os.path.join(os.path.dirname(os.path.abspath(__file__)), "..", "harness"))
import check  # noqa: E402
import tlc  # noqa: E402
import numpy as np  # noqa: E402

SQRT2 = math.sqrt(2.0)
PID = "X06"


def qf(q):
    return q[0] / q[1]


class Sink:
    """Collects mismatches; the real run forwards them to chk.violation, the negative controls only count them."""

    def __init__(self, chk=None):
        self.chk = chk
        self.hits = []

    def violation(self, key, detail, case):
        self.hits.append(key)
        if self.chk is not None:
            self.chk.violation(key, detail, case)

    def drift(self, text):
        if self.chk is not None:
            self.chk.spec_drift(text)

    def inconclusive(self):
        if self.chk is not None:
            self.chk.inconclusive += 1


# ======================================================================================================================
# (i) extrapolation
# ======================================================================================================================
EXTRAP_CFG = """CONSTANTS Vals <- %s
MinN = %d
MaxN = %d
SortedFrom = %d
CoefVals <- %s
Export = TRUE
INIT Init
NEXT Next
INVARIANT TypeOK
INVARIANT WeightsExact
INVARIANT FormulasAgree
INVARIANT PolyExact
INVARIANT OrderIrrelevant
INVARIANT VarianceSane
INVARIANT ExportTR
"""


def extrap_api():
    import importlib
    m = importlib.import_module("tangelo.toolboxes.post_processing.extrapolation")   # the package re-exports a function of that name
    return {"richardson": m.richardson, "richardson_analytical": m.richardson_analytical, "extrapolation": m.extrapolation,
            "diis": m.diis, "richardson_with_exp_estimation": m.richardson_with_exp_estimation}


def _container(vals, variant):
    """Same numbers, different containers: 0 list of float, 1 list of int where integral, 2 tuple, 3 ndarray."""
    if variant == 1 and all(float(v).is_integer() for v in vals):
        return [int(v) for v in vals]
    if variant == 2:
        return tuple(float(v) for v in vals)
    if variant == 3:
        return np.array([float(v) for v in vals])
    return [float(v) for v in vals]


def extrap_calls(api, tr, variant):
    """The public calls that realise one spec transition: list of (label, thunk, returns_error)."""
    n, k, f = len(tr["c"]), tr["k"], tr["f"]
    c = _container([qf(x) for x in tr["c"]], variant)
    E = _container([qf(x) for x in tr["E"]], variant)
    s = _container([qf(x) for x in tr["s"]], 3 if variant == 3 else 0)
    keep = (copy.deepcopy(c), copy.deepcopy(E), copy.deepcopy(s))
    calls = []
    if f == "richardson":
        calls += [("richardson", lambda: api["richardson"](c, E, s), True), ("richardson:no-stderr", lambda: api["richardson"](c, E), False),
                  ("richardson_analytical", lambda: api["richardson_analytical"](c, E, s), True)]
    elif f == "extrapolation":
        calls += [("extrapolation:order=%d" % k if k < 4 else "extrapolation:high-order:n=%d" % n, lambda: api["extrapolation"](c, E, s, k), True)]
        if k == n - 1:
            calls += [("extrapolation:default-order" if k < 4 else "extrapolation:high-order:n=%d:default" % n, lambda: api["extrapolation"](c, E, s), True),
                      ("extrapolation:no-stderr" if k < 4 else "extrapolation:high-order:n=%d:no-stderr" % n, lambda: api["extrapolation"](c, E), False)]
    elif f == "diis":
        calls += [("diis", lambda: api["diis"](c, E, s), True), ("diis:no-stderr", lambda: api["diis"](c, E), False)]
    elif f == "richardson_exp":
        calls += [("richardson_exp", lambda: api["richardson"](c, E, s, estimate_exp=True), True),
                  ("richardson_exp:no-stderr", lambda: api["richardson_with_exp_estimation"](c, E), False)]
    return calls, (c, E, s), keep


def same_container(a, b):
    if isinstance(a, np.ndarray):
        return isinstance(b, np.ndarray) and a.shape == b.shape and bool(np.all(a == b))
    return type(a) is type(b) and list(a) == list(b)


def extrap_compare(api, tr, variant, sink):
    """Replay one transition; every deviation from TLC's exact result is reported to sink. Returns #calls."""
    e_exact, v_exact = qf(tr["e"]), qf(tr["v"])
    E = [qf(x) for x in tr["E"]]
    w = [qf(x) for x in tr["w"]] if tr["w"] else [1.0]
    scale = max(1.0, sum(abs(a) for a in E) * max(1.0, max(abs(x) for x in w)))
    expo = tr["f"] == "richardson_exp"
    # analytic weights: rounding only; lstsq on the normal equations: conditioning of B; exponent found by BFGS: its tolerance
    tol = 2e-4 if expo else (1e-7 if tr["f"] in ("extrapolation", "diis") else 1e-9)
    calls, args, keep = extrap_calls(api, tr, variant)
    case = {"part": "extrap", "tr": tr, "variant": variant}
    int_in = variant == 1 and any(isinstance(x, int) for x in args[1])
    for label, thunk, has_err in calls:
        if int_in and expo:          # one key for the integer-dtype input class, whatever the call form
            label = "richardson_exp:integer-input"
        try:
            got = thunk()
        except Exception as ex:  # valid input: must not raise
            sink.violation("%s:exception" % label, "%s: %r on c=%s E=%s" % (label, ex, args[0], args[1]), case)
            continue
        if has_err:
            if not (isinstance(got, tuple) and len(got) == 2):
                sink.violation(label + ":shape", "expected (energy, error), got %r" % (got,), case)
                continue
            e, err = float(got[0]), float(got[1])
        else:
            if isinstance(got, tuple):
                sink.violation(label + ":shape", "expected a scalar energy without stderr, got %r" % (got,), case)
                continue
            e, err = float(got), None
        if expo and label.startswith("richardson_exp") and abs(e - E[0]) <= 1e-2 * abs(e_exact - E[0]):
            # outcome class: the exponent search ran away (t^k -> 0), the first energy comes back unextrapolated
            label = "richardson_exp:exponent-search-diverged"
        if not abs(e - e_exact) <= tol * scale:
            sink.violation("%s:energy" % label, "%s(c=%s, E=%s) = %.12g, exact %s = %.12g" % (
                label, list(args[0]), list(args[1]), e, tr["e"], e_exact), case)
        if err is not None and not abs(err * err - v_exact) <= max(tol, 1e-9) * max(1.0, v_exact) * (10 if expo else 1):
            sink.violation("%s:error" % label, "%s error estimate %.12g, exact sqrt(%s) = %.12g" % (
                label, err, tr["v"], math.sqrt(v_exact)), case)
    for nm, a, b in zip(("coeffs", "energies", "stderr"), args, keep):
        if not same_container(a, b):
            sink.violation("%s:mutates-%s" % (tr["f"], nm), "argument %s changed from %s to %s" % (nm, b, a), case)
    return len(calls)


def corrupt_extrap(api):
    """Negative controls: realistic corruptions of the real functions; each must be flagged by extrap_compare."""
    def wrap(name, g):
        d = dict(api)
        d[name] = g
        return d

    def shift(fn, rel):
        def g(*a, **kw):
            r = fn(*a, **kw)
            return (r[0] * (1 + rel) + rel, r[1]) if isinstance(r, tuple) else r * (1 + rel) + rel
        return g

    def err_scale(fn):
        def g(*a, **kw):
            r = fn(*a, **kw)
            return (r[0], r[1] * 1.001) if isinstance(r, tuple) else r
        return g

    def sorted_coeffs(fn):      # sorts the factors but not the energies
        def g(c, E, *a, **kw):
            return fn(sorted(c), E, *a, **kw)
        return g

    def drop_last_power(c, E, stderr=None, taylor_order=None):      # off-by-one in the default order
        return api["extrapolation"](c, E, stderr, (len(c) - 2 if len(c) > 2 else None) if taylor_order is None else taylor_order)

    def inplace(fn):
        def g(c, E, *a, **kw):
            r = fn(c, E, *a, **kw)
            if isinstance(E, (list, np.ndarray)) and len(E):
                E[0] = E[0] + 1
            return r
        return g
    return {"richardson+1e-6": wrap("richardson", shift(api["richardson"], 1e-6)),
            "analytical error*1.001": wrap("richardson_analytical", err_scale(api["richardson_analytical"])),
            "extrapolation sorts coeffs only": wrap("extrapolation", sorted_coeffs(api["extrapolation"])),
            "extrapolation default order n-2": wrap("extrapolation", drop_last_power),
            "diis+1e-5": wrap("diis", shift(api["diis"], 1e-5)),
            "richardson_exp+1e-2": wrap("richardson_with_exp_estimation", shift(api["richardson_with_exp_estimation"], 1e-2)),
            "diis mutates energies": wrap("diis", inplace(api["diis"]))}


def part_extrap(chk):
    api = extrap_api()
    # all orders of the points for n <= 4; the repo's own usage (factors 1..n, n up to 7) in ascending order only
    cfgs = [EXTRAP_CFG % ("ValsQuick" if chk.quick else "ValsThorough", 1, 4, 9, "CoefQuick"),
            EXTRAP_CFG % ("ValsWide", 7 if chk.quick else 5, 7, 1, "CoefWide")]
    r, rw = tlc.run_many([dict(module="X06Extrap", cfg=cfgs[0], name="x06/extrap", workers=4 if chk.quick else 8, coverage=True, timeout=3600),
                          dict(module="X06Extrap", cfg=cfgs[1], name="x06/extrap_wide", workers=2, timeout=3600)], max_parallel=2)
    for x in (r, rw):
        if not x.ok:
            raise tlc.TLCError("X06Extrap spec violated: %s\n%s" % (x.violated, x.out[-1500:]))
    chk.add_tlc(rw, "extrap_S_wide")
    chk.add_tlc(r, "extrap_S")
    cov = r.coverage_counts()
    acts = {a: cov.get(a, (0, 0))[1] for a in ("SetData", "CallRichardson", "CallExtrap", "CallDiis", "CallExpEst")}
    if min(acts.values()) == 0:
        raise tlc.TLCError("X06Extrap: action never taken: %s" % acts)
    chk.part("extrap_coverage", **acts)
    trs = r.prints("TR") + rw.prints("TR")
    if len(trs) < 1000 or not any(len(t["c"]) == 7 for t in trs):
        raise tlc.TLCError("X06Extrap: only %d transitions exported" % len(trs))
    sink = Sink(chk)
    ncalls = 0
    nviol = len(chk.violations)
    for idx, tr in enumerate(trs):
        ncalls += extrap_compare(api, tr, idx % 4, sink)
    chk.add_traces(len(trs), "extrap_G")
    chk.part("extrap_G", calls=ncalls, per_function={f: sum(1 for t in trs if t["f"] == f) for f in ("richardson", "extrapolation", "diis", "richardson_exp")})
    chk.sample({"extrap_transition": trs[len(trs) // 2]})
    # negative controls on a slice of the same transitions (wrappers around the real functions: meaningful only
    # when the real functions themselves passed)
    if len(chk.violations) > nviol:
        return
    rng = random.Random(chk.seed)
    sub = rng.sample(trs, min(len(trs), 600 if chk.quick else 3000))
    ctl = {}
    for name, bad in corrupt_extrap(api).items():
        s = Sink()
        for idx, tr in enumerate(sub):
            extrap_compare(bad, tr, idx % 4, s)
        ctl[name] = len(s.hits)
        if not s.hits:
            raise tlc.TLCError("X06 negative control not detected: %s" % name)
    chk.part("extrap_negative_controls", **ctl)



# ======================================================================================================================
# (ii) rotosolve
# ======================================================================================================================
ROTO_CFG = """CONSTANTS N = %d
MaxIters = {%s}
Ftols = {%s}
Export = TRUE
INIT Init
NEXT Next
INVARIANT TypeOK
INVARIANT StepMinimises
INVARIANT StepMonotone
INVARIANT SweepMonotone
INVARIANT ReturnConsistent
INVARIANT StopRule
INVARIANT FixedPointStops
INVARIANT ExportBH
"""
FTOL = {1: None, 2: 0.0, 3: 0.5, 4: 1.0, 5: 3.0}          # index 1: the default of the code (argument omitted)
COS2 = [(2, 0), (0, 1), (0, 0), (0, -1), (-2, 0), (0, -1), (0, 0), (0, 1)]      # 2 cos(k pi/4) = a + b sqrt 2
QPI = math.pi / 4


def s2f(x, n):
    return (x[0] + x[1] * SQRT2) / 2 ** n


def gen_objectives(rng, n, count):
    """Input family: sums of products of {1, cos, sin}(theta_j - phi_j); cos-only ones keep every minimiser on the grid."""
    objs = [{"phi": [1] + [0] * (n - 1), "terms": [{"coef": 2, "f": [1] + [0] * (n - 1)}, {"coef": 1, "f": [1] * n},
                                                    {"coef": 1, "f": [0] * (n - 1) + [2]}]},
            {"phi": [0] * n, "terms": [{"coef": 1, "f": [1] + [0] * (n - 1)}, {"coef": 1, "f": [2] + [0] * (n - 1)},
                                       {"coef": 2, "f": [2] * n}, {"coef": -1, "f": [0] * (n - 1) + [1]}, {"coef": 3, "f": [0] * n}]},
            # flat directions: the cofactor of a coordinate vanishes when the other one sits at +-pi/2
            {"phi": [0] * n, "terms": [{"coef": 1, "f": [1] * n}]},
            {"phi": [2] + [0] * (n - 1), "terms": [{"coef": 2, "f": [1] * n}, {"coef": -1, "f": [0] * (n - 1) + [2]}]}]
    while len(objs) < count:
        sin_ok = rng.random() < 0.4
        phi = [rng.randrange(8) for _ in range(n)]
        terms, seen = [], set()
        for j in range(n):
            if rng.random() < 0.85:
                f = [0] * n
                f[j] = 2 if (sin_ok and rng.random() < 0.3) else 1
                terms.append({"coef": rng.choice([-2, -1, 1, 2, 3]), "f": f})
        for _ in range(rng.randrange(1, 3)):
            f = [rng.choice([0, 1, 1, 2] if sin_ok else [0, 1, 1]) for _ in range(n)]
            if sum(1 for x in f if x) >= 2 and tuple(f) not in seen:
                seen.add(tuple(f))
                terms.append({"coef": rng.choice([-2, -1, 1, 2]), "f": f})
        if terms:
            objs.append({"phi": phi, "terms": terms})
    return objs


def snap(x):
    k = round(x / QPI)
    return k % 8 if abs(x - k * QPI) < 1e-9 else None


def closure_objective(ob, n):
    """The objective as a plain function of the parameters (exact Z[sqrt 2] evaluation on the grid, floats elsewhere)."""
    phi = [k * QPI for k in ob["phi"]]

    def f(params):
        ks = [snap(float(params[j]) - phi[j]) for j in range(n)]
        if all(k is not None for k in ks):
            A = B = 0
            for t in ob["terms"]:
                a, b = t["coef"], 0
                for j in range(n):
                    g = t["f"][j]
                    c, d = (2, 0) if g == 0 else COS2[ks[j]] if g == 1 else COS2[(ks[j] + 6) % 8]
                    a, b = a * c + 2 * b * d, a * d + b * c
                A, B = A + a, B + b
            return (A + B * SQRT2) / 2 ** n
        tot = 0.0
        for t in ob["terms"]:
            v = float(t["coef"])
            for j in range(n):
                g = t["f"][j]
                x = float(params[j]) - phi[j]
                v *= 1.0 if g == 0 else math.cos(x) if g == 1 else math.sin(x)
            tot += v
        return tot
    return f


_SIM = {}


def circuit_objective(ob, n):
    """The same objective as a real circuit: qubit j carries RY(theta_j) RY(-phi_j)|0>, <Z_j> = cos, <X_j> = sin."""
    from tangelo.linq import Gate, Circuit, get_backend
    from tangelo.toolboxes.operators import QubitOperator
    from tangelo.toolboxes.ansatz_generator import VariationalCircuitAnsatz
    if "sim" not in _SIM:
        _SIM["sim"] = get_backend("cirq")
    gates = []
    for j in range(n):
        gates.append(Gate("RY", j, parameter=0.0, is_variational=True))
        gates.append(Gate("RY", j, parameter=-ob["phi"][j] * QPI))
    ansatz = VariationalCircuitAnsatz(Circuit(gates, n_qubits=n))
    ansatz.build_circuit()
    op = QubitOperator()
    for t in ob["terms"]:
        op += QubitOperator(tuple((j, "Z" if g == 1 else "X") for j, g in enumerate(t["f"]) if g), float(t["coef"]))

    def f(params):
        ansatz.update_var_params(list(params))
        return _SIM["sim"].get_expectation_value(op, ansatz.circuit)
    return f


def roto_module():
    import importlib
    return importlib.import_module("tangelo.toolboxes.optimizers.rotosolve")


def ang_eq(x, k, tol=1e-9):
    d = (float(x) - k * QPI) % (2 * math.pi)
    return min(d, 2 * math.pi - d) <= tol


def roto_run(rmod, func, p0, maxiter, ftol_idx):
    """Run the real rotosolve, recording objective evaluations and rotosolve_step calls."""
    evals, steps = [], []

    def wrapped(params, *a):
        v = func(params, *a)
        evals.append(([float(x) for x in params], float(v)))
        return v
    orig = rmod.rotosolve_step

    def step(fn, var_params, i, *a):
        out = orig(fn, var_params, i, *a)
        steps.append((i, float(out[i]), len(evals)))
        return out
    rmod.rotosolve_step = step
    try:
        kw = {"maxiter": maxiter}
        if FTOL[ftol_idx] is not None:
            kw["ftol"] = FTOL[ftol_idx]
        e, p = rmod.rotosolve(wrapped, [k * QPI for k in p0], **kw)
    finally:
        rmod.rotosolve_step = orig
    return float(e), [float(x) for x in p], evals, steps


def roto_compare(rmod, objs, n, group, sink, kind="closure", tol=1e-9):
    """group: all spec behaviours of one (objective, p0, maxiter, ftol); the real run must follow one of them."""
    b0 = group[0]
    ob = objs[b0["o"] - 1]
    func = closure_objective(ob, n) if kind == "closure" else circuit_objective(ob, n)
    case = {"part": "roto", "n": n, "obj": ob, "group": group, "kind": kind}
    where = "%s objective %s p0=%s maxiter=%d ftol=%s" % (kind, json.dumps(ob), b0["p0"], b0["maxiter"], FTOL[b0["ftol"]])
    try:
        e, p, evals, steps = roto_run(rmod, func, b0["p0"], b0["maxiter"], b0["ftol"])
    except Exception as ex:
        sink.violation("rotosolve:maxiter=0:exception" if b0["maxiter"] == 0 else "rotosolve:exception", "%r on %s" % (ex, where), case)
        return
    cands = list(group)
    if steps or b0["maxiter"] == 0 or len(evals) <= 1:
        for t, (i, th, _) in enumerate(steps):
            prev = cands
            cands = [b for b in prev if len(b["steps"]) > t and b["steps"][t]["i"] == i + 1 and ang_eq(th, b["steps"][t]["th"], tol)]
            if not cands:
                longer = [b for b in prev if len(b["steps"]) > t]
                if not longer:
                    if all(b["status"] == "done" for b in prev):
                        sink.violation("rotosolve:stop-rule", "the run goes on after %d coordinate updates, the documented rule stops there; %s" % (t, where), case)
                    else:
                        sink.inconclusive()     # the spec left the exact grid here
                elif all(b["steps"][t]["flat"] for b in longer):
                    sink.inconclusive()         # flat coordinate: any angle is a minimiser
                else:
                    sink.violation("rotosolve_step:theta", "update %d (coordinate %d): theta = %.12g, exact minimiser %s * pi/4; %s" % (
                        t, i, th, sorted({b["steps"][t]["th"] for b in longer}), where), case)
                return
        done = [b for b in cands if len(b["steps"]) == len(steps)]
        if not done:
            if any(b["status"] == "done" for b in cands):
                sink.violation("rotosolve:stop-rule", "the run stops after %d coordinate updates, the documented rule continues (%s); %s" % (
                    len(steps), sorted({len(b["steps"]) for b in cands}), where), case)
            else:
                sink.inconclusive()
            return
        b = done[0]
        if b["status"] != "done":
            sink.inconclusive()
            return
        # sweep energies: the evaluation that follows every n-th coordinate update
        sweep_e = [evals[pos][1] for k, (_, _, pos) in enumerate(steps) if (k + 1) % n == 0 and pos < len(evals)]
        want = [s2f(x, n) for x in b["sweeps"]]
        if len(sweep_e) != len(want) or any(abs(x - y) > tol * max(1, abs(y)) for x, y in zip(sweep_e, want)):
            sink.violation("rotosolve:sweep-energies", "energies after the sweeps %s, exact %s; %s" % (sweep_e, want, where), case)
        if len(evals) != 1 + b["nit"] * (3 * n + 1):
            sink.drift("rotosolve used %d objective evaluations, the model 1 + sweeps * (3n + 1) = %d" % (len(evals), 1 + b["nit"] * (3 * n + 1)))
    else:
        # the implementation no longer goes through rotosolve_step: only the result can be compared
        sink.drift("rotosolve does not call rotosolve_step any more: only results are compared")
        cands = [b for b in cands if b["status"] == "done" and all(ang_eq(x, k, tol) for x, k in zip(p, b["p"]))]
        if not cands:
            if any(s["flat"] for b in group for s in b["steps"]) or any(b["status"] != "done" for b in group):
                sink.inconclusive()
            else:
                sink.violation("rotosolve:result", "returned params %s match no behaviour of the spec; %s" % (p, where), case)
            return
        b = cands[0]
    if abs(e - s2f(b["e"], n)) > tol * max(1, abs(s2f(b["e"], n))):
        sink.violation("rotosolve:returned-energy", "returned energy %.12g, exact %.12g; %s" % (e, s2f(b["e"], n), where), case)
    if not all(ang_eq(x, k, tol) for x, k in zip(p, b["p"])):
        sink.violation("rotosolve:returned-params", "returned params %s, exact %s * pi/4; %s" % (p, b["p"], where), case)
    fe = float(func(list(p)))
    if abs(fe - e) > 1e-9 * max(1, abs(e)):
        sink.violation("rotosolve:energy-is-f(params)", "f(returned params) = %.12g but returned energy %.12g; %s" % (fe, e, where), case)


def roto_step_compare(rmod, objs, n, b, sink, kind="closure", tol=1e-9):
    """Every coordinate update of one behaviour, replayed in isolation on the public rotosolve_step."""
    ob = objs[b["o"] - 1]
    func = closure_objective(ob, n) if kind == "closure" else circuit_objective(ob, n)
    cur = list(b["p0"])
    cnt = 0
    for st in b["steps"]:
        i = st["i"] - 1
        before = [k * QPI for k in cur]
        arg = list(before)
        out = rmod.rotosolve_step(func, arg, i)
        cnt += 1
        case = {"part": "roto_step", "n": n, "obj": ob, "beh": b, "kind": kind}
        if not st["flat"] and not ang_eq(out[i], st["th"], tol):
            sink.violation("rotosolve_step:theta", "rotosolve_step(coordinate %d) from %s * pi/4 gives %.12g, exact minimiser %d * pi/4; objective %s" % (
                i, cur, float(out[i]), st["th"], json.dumps(ob)), case)
        if any(j != i and float(out[j]) != before[j] for j in range(n)):
            sink.violation("rotosolve_step:other-coordinates", "rotosolve_step(coordinate %d) changed another coordinate: %s -> %s" % (i, before, list(out)), case)
        cur[i] = st["th"]
    return cnt


def corrupt_roto(rmod):
    """Negative controls: corrupted optimisers (context managers patching the module) that the comparators must flag."""
    import contextlib
    orig_step, orig_solve = rmod.rotosolve_step, rmod.rotosolve

    @contextlib.contextmanager
    def patched(step=None, solve=None):
        rmod.rotosolve_step, rmod.rotosolve = step or orig_step, solve or orig_solve
        try:
            yield
        finally:
            rmod.rotosolve_step, rmod.rotosolve = orig_step, orig_solve

    def step_maximiser(func, var_params, i, *a):
        out = orig_step(func, var_params, i, *a)
        out[i] = out[i] + math.pi if out[i] <= 0 else out[i] - math.pi
        return out

    def step_shift(func, var_params, i, *a):
        out = orig_step(func, var_params, i, *a)
        out[i] += 1e-6
        return out

    def solve_extra_sweep(func, var_params, *a, ftol=1e-5, maxiter=100):
        return orig_solve(func, var_params, *a, ftol=ftol, maxiter=maxiter + 1)

    def solve_stale_energy(func, var_params, *a, ftol=1e-5, maxiter=100):
        e0 = func(var_params, *a)
        e, p = orig_solve(func, var_params, *a, ftol=ftol, maxiter=maxiter)
        return (e0 if maxiter > 0 else e), p

    def solve_strict(func, var_params, *a, ftol=1e-5, maxiter=100):        # "<" instead of "<="
        return orig_solve(func, var_params, *a, ftol=ftol * (1 - 1e-12) - 1e-300, maxiter=maxiter)
    return {"step returns the maximiser": lambda: patched(step=step_maximiser), "step off by 1e-6": lambda: patched(step=step_shift),
            "one sweep too many": lambda: patched(solve=solve_extra_sweep), "returns the initial energy": lambda: patched(solve=solve_stale_energy),
            "strict tolerance test": lambda: patched(solve=solve_strict)}


def part_roto(chk):
    rmod = roto_module()
    nviol = len(chk.violations)
    rng = random.Random(chk.seed + 11)
    plan = [(2, 10, "0, 1, 2, 3", "1, 2, 3, 4")] if chk.quick else [(2, 40, "0, 1, 2, 3, 4", "1, 2, 3, 4, 5"), (3, 8, "1, 3", "1, 4")]
    allgroups = []
    for n, count, iters, ftols in plan:
        objs = gen_objectives(rng, n, count)
        path = tlc.write_json("x06/roto_n%d_in" % n, "objs.json", objs)
        r = tlc.run("X06Rotosolve", ROTO_CFG % (n, iters, ftols), "x06/roto_n%d" % n, workers=4 if chk.quick else 8, coverage=True,
                    env={"X06_OBJS": path}, timeout=3600)
        if not r.ok:
            raise tlc.TLCError("X06Rotosolve spec violated: %s\n%s" % (r.violated, r.out[-1500:]))
        chk.add_tlc(r, "roto_S_n%d" % n)
        cov = r.coverage_counts()
        acts = {a: cov.get(a, (0, 0))[1] for a in ("Start", "StepCoord", "EndSweep")}
        if min(acts.values()) == 0:
            raise tlc.TLCError("X06Rotosolve: action never taken: %s" % acts)
        bhs = r.prints("BH")
        groups = {}
        for b in bhs:
            groups.setdefault((b["o"], tuple(b["p0"]), b["maxiter"], b["ftol"]), []).append(b)
        stat = {s: sum(1 for b in bhs if b["status"] == s) for s in ("done", "offgrid", "borderline")}
        flat = sum(1 for b in bhs if any(s["flat"] for s in b["steps"]))
        reasons = {"tolerance": sum(1 for b in bhs if b["status"] == "done" and 0 < b["nit"] < b["maxiter"]),
                   "maxiter": sum(1 for b in bhs if b["status"] == "done" and b["nit"] == b["maxiter"] > 0),
                   "multi_sweep": sum(1 for b in bhs if b["nit"] >= 2)}
        if stat["done"] < 200 or flat == 0 or min(reasons.values()) == 0:
            raise tlc.TLCError("X06Rotosolve vacuity guard: %s flat=%d %s" % (stat, flat, reasons))
        chk.part("roto_behaviours_n%d" % n, objectives=len(objs), groups=len(groups), with_flat_step=flat, **stat, **acts, **{"stop_" + k: v for k, v in reasons.items()})
        sink = Sink(chk)
        inc0 = chk.inconclusive
        keys = sorted(groups)
        for key in keys:
            roto_compare(rmod, objs, n, groups[key], sink, "closure")
        chk.add_traces(len(keys), "roto_G_closure")
        # isolated steps and the real-circuit objective on a seeded sample of behaviours without flat steps
        clean = [k for k in keys if all(b["status"] == "done" and not any(s["flat"] for s in b["steps"]) for b in groups[k]) and FTOL[k[3]] != 0.0]
        pick = rng.sample(clean, min(len(clean), 150 if chk.quick else 600))
        nst = 0
        for key in pick:
            roto_compare(rmod, objs, n, groups[key], sink, "circuit", tol=1e-7)
            nst += roto_step_compare(rmod, objs, n, groups[key][0], sink, "closure")
        for key in pick[:40 if chk.quick else 150]:
            nst += roto_step_compare(rmod, objs, n, groups[key][0], sink, "circuit", tol=1e-7)
        chk.add_traces(len(pick), "roto_G_circuit")
        chk.part("roto_G_n%d" % n, closure_runs=len(keys), circuit_runs=len(pick), isolated_steps=nst, inconclusive=chk.inconclusive - inc0)
        chk.sample({"roto_behaviour": groups[keys[len(keys) // 2]][0], "objective": objs[keys[len(keys) // 2][0] - 1]})
        allgroups.append((n, objs, groups, pick))
    # negative controls (patches on top of the real module: meaningful only when the real module passed)
    if len(chk.violations) > nviol:
        return
    n, objs, groups, pick = allgroups[0]
    ctl = {}
    sub = rng.sample(sorted(groups), min(len(groups), 400))
    for name, ctx in corrupt_roto(rmod).items():
        s = Sink()
        with ctx():
            for key in sub:
                roto_compare(rmod, objs, n, groups[key], s, "closure")
                if name.startswith("step"):
                    roto_step_compare(rmod, objs, n, groups[key][0], s, "closure")
        ctl[name] = len(s.hits)
        if not s.hits:
            raise tlc.TLCError("X06 negative control not detected: %s" % name)
    chk.part("roto_negative_controls", **ctl)

# ======================================================================================================================
# (iii) McWeeny purification
# ======================================================================================================================
MW_CFG = """CONSTANTS Export = TRUE
INIT Init
NEXT Next
INVARIANT TypeOK
INVARIANT IdempotentFixed
INVARIANT EigenMap
INVARIANT SymmetricKept
INVARIANT TotalsAgree
INVARIANT LimitBasins
INVARIANT ExportRun
"""
MW_BOUND = 2 ** 25
DEFAULT_CONV = [1, 10 ** 7]


def _matmul(A, B):
    d = len(A)
    return [[sum((A[r][k] * B[k][c] for k in range(d)), Fraction(0)) for c in range(d)] for r in range(d)]


def _size(A):
    return max(max(abs(x.numerator), x.denominator) for row in A for x in row)


def _horizon(D):
    """How many McWeeny iterations stay inside TLC's 32-bit integers (input screening, not an oracle)."""
    k = 0
    A = D
    while k < 2:
        A2 = _matmul(A, A)
        A3 = _matmul(A, A2)
        nxt = [[3 * A2[r][c] - 2 * A3[r][c] for c in range(len(A))] for r in range(len(A))]
        n2 = _matmul(nxt, nxt)
        if max(_size(A2), _size(A3), _size(nxt), _size(n2)) * len(A) > MW_BOUND:
            break
        A, k = nxt, k + 1
    return k


def _tensor_job(jid, n, D, evs, convs, src=None, maxsteps=None, tag=""):
    """D: d x d Fractions in physics pair notation -> chemistry tensor T[p,r,q,s] = D[(p,q),(r,s)]."""
    den = 1
    for row in D:
        for x in row:
            den = den * x.denominator // math.gcd(den, x.denominator)
    num = [0] * n ** 4
    for p_ in range(n):
        for q_ in range(n):
            for r_ in range(n):
                for s_ in range(n):
                    num[((p_ * n + r_) * n + q_) * n + s_] = int(D[p_ * n + q_][r_ * n + s_] * den)
    return {"id": jid, "n": n, "den": den, "num": num, "convs": convs, "tag": tag,
            "evs": [{"v": [int(x) for x in v], "lam": [lam.numerator, lam.denominator]} for v, lam in evs],
            "src": [[x.numerator, x.denominator] for x in (src or [])],
            "maxsteps": _horizon(D) if maxsteps is None else maxsteps}


def _orth_basis(rng, d):
    """Mutually orthogonal integer vectors spanning Q^d: unit vectors, (1,1)/(1,-1) pairs, one Hadamard quadruple."""
    idx = list(range(d))
    rng.shuffle(idx)
    vecs = []

    def unit(*pairs):
        v = [0] * d
        for i, x in pairs:
            v[i] = x
        return v
    if d >= 4 and rng.random() < 0.5:
        a, b, c, e = [idx.pop() for _ in range(4)]
        for sg in ((1, 1, 1, 1), (1, -1, 1, -1), (1, 1, -1, -1), (1, -1, -1, 1)):
            vecs.append(unit((a, sg[0]), (b, sg[1]), (c, sg[2]), (e, sg[3])))
    while len(idx) >= 2 and rng.random() < 0.6:
        a, b = idx.pop(), idx.pop()
        vecs += [unit((a, 1), (b, 1)), unit((a, 1), (b, -1))]
    vecs += [unit((i, 1)) for i in idx]
    return vecs


def _from_spectrum(vecs, lams):
    d = len(vecs[0])
    D = [[Fraction(0)] * d for _ in range(d)]
    for v, lam in zip(vecs, lams):
        nn = sum(x * x for x in v)
        for r in range(d):
            if v[r]:
                for c in range(d):
                    if v[c]:
                        D[r][c] += lam * v[r] * v[c] / nn
    return D


def mw_jobs(rng, quick):
    jobs = []
    F = Fraction
    noisy_vals = [F(3, 4), F(1, 4), F(5, 4), F(-1, 4), F(7, 8), F(1, 8), F(1), F(0), F(0), F(1)]
    convs_all = [[2, 1], [9, 10], [1, 2], [1, 8], [1, 100], DEFAULT_CONV]
    plan = [(2, 24 if quick else 80), (4, 8 if quick else 24)]
    for n, count in plan:
        d = n * n
        for it in range(count):
            kind = it % 4
            jid = len(jobs) + 1
            if kind == 0:       # symmetric idempotent (a proper "pure" input): fixed point for every conv
                vecs = _orth_basis(rng, d)
                lams = [F(rng.random() < 0.4) for _ in vecs]
                if not any(lams):
                    lams[0] = F(1)
                jobs.append(_tensor_job(jid, n, _from_spectrum(vecs, lams), list(zip(vecs, lams)), convs_all, tag="idempotent"))
            elif kind == 1:     # noisy symmetric input and its exact limit
                vecs = _orth_basis(rng, d)
                lams = [rng.choice(noisy_vals) if rng.random() < (0.8 if n == 2 else 0.3) else F(0) for _ in vecs]
                D = _from_spectrum(vecs, lams)
                jobs.append(_tensor_job(jid, n, D, list(zip(vecs, lams)), convs_all[:5], tag="noisy"))
                lim = [F(1) if x > F(1, 2) else F(0) for x in lams]
                jobs.append(_tensor_job(jid + 1, n, _from_spectrum(vecs, lim), list(zip(vecs, lim)), [DEFAULT_CONV], src=lams, tag="limit-of-%d" % jid))
            elif kind == 2:     # non-symmetric: S diag S^-1 with S a product of elementary matrices
                S = [[F(int(r == c)) for c in range(d)] for r in range(d)]
                Si = [[F(int(r == c)) for c in range(d)] for r in range(d)]
                for _ in range(2 if n == 2 else 3):
                    a, b = rng.sample(range(d), 2)
                    m = rng.choice([1, -1, 2])
                    El = [[F(int(r == c)) + (m if (r, c) == (a, b) else 0) for c in range(d)] for r in range(d)]
                    Eli = [[F(int(r == c)) - (m if (r, c) == (a, b) else 0) for c in range(d)] for r in range(d)]
                    S, Si = _matmul(S, El), _matmul(Eli, Si)
                lams = [rng.choice([F(1), F(0), F(0), F(3, 4), F(1, 4)]) if n == 2 else F(rng.random() < 0.3) for _ in range(d)]
                if n == 4:
                    lams[rng.randrange(d)] = F(3, 4)
                L = [[lams[r] if r == c else F(0) for c in range(d)] for r in range(d)]
                D = _matmul(_matmul(S, L), Si)
                evs = [([S[r][c] for r in range(d)], lams[c]) for c in range(d)]
                jobs.append(_tensor_job(jid, n, D, evs, convs_all[:5], tag="non-symmetric"))
            else:               # arbitrary integer tensor, zero iterations (conv >= 1): output construction only
                D = [[F(rng.choice([0, 0, 0, 1, -1, 2, 3])) for _ in range(d)] for _ in range(d)]
                jobs.append(_tensor_job(jid, n, D, [], [[2, 1], [1, 1]], maxsteps=0, tag="arbitrary"))
    for i, jb in enumerate(jobs):
        jb["id"] = i + 1
    # tags "limit-of-k" refer to the job just before
    for i, jb in enumerate(jobs):
        if jb["tag"].startswith("limit-of-"):
            jb["tag"] = "limit-of-%d" % i
    return jobs


class TimeLimit(Exception):
    pass


class time_limit:
    """The purification loop has no iteration bound: a run that does not come back is reported, not waited for."""

    def __init__(self, seconds):
        self.seconds = seconds

    def __enter__(self):
        import signal

        def handler(*a):
            raise TimeLimit()
        self.old = signal.signal(signal.SIGALRM, handler)
        signal.alarm(self.seconds)

    def __exit__(self, *a):
        import signal
        signal.alarm(0)
        signal.signal(signal.SIGALRM, self.old)
        return False


def mw_fn():
    from tangelo.toolboxes.post_processing import mcweeny_purify_2rdm
    return mcweeny_purify_2rdm


def _flat(x):
    """Nested sequences of [num, den] -> flat list of floats."""
    if len(x) == 2 and all(isinstance(v, int) for v in x):
        return [x[0] / x[1]]
    out = []
    for y in x:
        out += _flat(y)
    return out


def mw_compare(fn, job, run_, sink, noisy_job=None, tol=1e-9):
    """One exact run (input x conv) replayed on mcweeny_purify_2rdm; with noisy_job: the real function purifies the
    noisy input with its default conv and must land on this (limit) job's outputs."""
    src = noisy_job or job
    n = src["n"]
    arr = np.array(src["num"], dtype=float).reshape((n,) * 4) / src["den"]
    keep = arr.copy()
    conv = qf(run_["conv"])
    case = {"part": "mcweeny", "job": job, "run": run_, "noisy": noisy_job}
    if noisy_job is None and any(abs(abs(qf(dv)) - conv) < 1e-9 for dv in [[1, 1]] + run_["diffs"]):
        sink.inconclusive()
        return
    try:
        with time_limit(20):
            r1, r2 = fn(arr, conv=conv) if (run_["conv"] != DEFAULT_CONV and noisy_job is None) else fn(arr)
    except TimeLimit:
        sink.violation("mcweeny:no-termination", "no result within 20 s on input %s (%s), conv=%s" % (src["id"], src["tag"], run_["conv"]), case)
        return
    except Exception as ex:
        sink.violation("mcweeny:exception", "%r on input %s (%s)" % (ex, src["id"], src["tag"]), case)
        return
    w1, w2 = np.array(_flat(run_["rdm1"])), np.array(_flat(run_["rdm2"]))
    g1, g2 = np.asarray(r1, dtype=float).ravel(), np.asarray(r2, dtype=float).ravel()
    what = "limit of the noisy input" if noisy_job else "%d iteration(s), conv=%s" % (run_["steps"], run_["conv"])
    key = "mcweeny:limit" if noisy_job else ("mcweeny:fixed-point" if run_["idem"] and run_["steps"] <= 1 else "mcweeny:iterate")
    if g1.shape != w1.shape or g2.shape != w2.shape:
        sink.violation(key + ":shape", "shapes %s %s" % (np.shape(r1), np.shape(r2)), case)
        return
    for nm, g, w in (("rdm1", g1, w1), ("rdm2", g2, w2)):
        err = float(np.max(np.abs(g - w)))
        if not err <= tol * max(1.0, float(np.max(np.abs(w)))):
            sink.violation("%s:%s" % (key, nm), "%s of input %d (%s; %s) deviates from the exact value by %.3g" % (nm, src["id"], src["tag"], what, err), case)
    if not np.array_equal(arr, keep):
        sink.violation("mcweeny:mutates-input", "the input 2-RDM was modified", case)


def corrupt_mw(fn):
    def t1(a, **kw):
        r1, r2 = fn(a, **kw)
        return r1.T, r2

    def t2(a, **kw):
        r1, r2 = fn(a, **kw)
        return r1, r2.transpose(0, 2, 1, 3)

    def extra(a, conv=1e-7):
        return fn(a, conv=min(conv, 0.99) * 1e-3)

    def noise(a, **kw):
        r1, r2 = fn(a, **kw)
        return r1 + 1e-6, r2

    def chem_products(a, **kw):          # forgets the change to physics notation before multiplying
        return fn(np.asarray(a.transpose(0, 2, 1, 3), order="C"), **kw)
    return {"rdm1 transposed": t1, "rdm2 in physics notation": t2, "iterates beyond conv": extra, "rdm1 + 1e-6": noise,
            "input not transposed": chem_products}


def part_mcweeny(chk):
    fn = mw_fn()
    rng = random.Random(chk.seed + 23)
    jobs = mw_jobs(rng, chk.quick)
    small = [j for j in jobs if j["n"] == 2]
    big = [j for j in jobs if j["n"] == 4]
    runs = []
    chunks = [small] + [big[i::4] for i in range(4) if big[i::4]]
    specs = []
    for ci, ch in enumerate(chunks):
        path = tlc.write_json("x06/mw_in%d" % ci, "rdms.json", ch)
        specs.append(dict(module="X06McWeeny", cfg=MW_CFG, name="x06/mw%d" % ci, workers=2, coverage=(ci == 0), env={"X06_RDMS": path}, timeout=3600))
    results = tlc.run_many(specs, max_parallel=5)
    byid = {j["id"]: j for j in jobs}
    for ci, r in enumerate(results):
        if not r.ok:
            raise tlc.TLCError("X06McWeeny spec violated: %s\n%s" % (r.violated, r.out[-1500:]))
        chk.add_tlc(r, "mcweeny_S_%d" % ci)
        runs += r.prints("MW")
    cov = results[0].coverage_counts()
    acts = {a: cov.get(a, (0, 0))[1] for a in ("Iterate", "Finish", "Horizon")}
    done = [x for x in runs if x["status"] == "done"]
    classes = {"zero_iterations": sum(1 for x in done if x["steps"] == 0), "one": sum(1 for x in done if x["steps"] == 1),
               "two": sum(1 for x in done if x["steps"] == 2), "idempotent_inputs": sum(1 for x in done if x["idem"]),
               "noisy_iterated": sum(1 for x in done if not x["idem"] and x["steps"] >= 1), "horizon": len(runs) - len(done)}
    if min(acts.values()) == 0 or min(classes[k] for k in ("zero_iterations", "one", "idempotent_inputs", "noisy_iterated")) == 0:
        raise tlc.TLCError("X06McWeeny vacuity guard: %s %s" % (acts, classes))
    chk.part("mcweeny_runs", inputs=len(jobs), inputs_4_spin_orbitals=len(big), **acts, **classes)
    sink = Sink(chk)
    nlim = 0
    nviol = len(chk.violations)
    for x in done:
        jb = byid[x["id"]]
        mw_compare(fn, jb, x, sink)
        if jb["tag"].startswith("limit-of-"):
            mw_compare(fn, jb, x, sink, noisy_job=byid[int(jb["tag"][9:])], tol=1e-6)
            nlim += 1
    if nlim == 0:
        raise tlc.TLCError("X06McWeeny: no limit input")
    chk.add_traces(len(done) + nlim, "mcweeny_G")
    chk.part("mcweeny_G", exact_runs=len(done), limits=nlim)
    chk.sample({"mcweeny_run": {k: v for k, v in done[len(done) // 2].items() if k != "rdm2"}})
    if len(chk.violations) > nviol:
        return
    ctl = {}
    for name, bad in corrupt_mw(fn).items():
        s_ = Sink()
        for x in done:
            if x["steps"] == 0 or name != "input not transposed":      # (that corruption need not terminate when it iterates)
                mw_compare(bad, byid[x["id"]], x, s_)
        ctl[name] = len(s_.hits)
        if not s_.hits:
            raise tlc.TLCError("X06 negative control not detected: %s" % name)
    chk.part("mcweeny_negative_controls", **ctl)

# ======================================================================================================================
# (iv) bootstrapping and (ii-V) unscripted optimiser runs, judged by spec/X06Trace.tla
# ======================================================================================================================
FIX = 10 ** 6          # fixed-point unit of the recorded energies


def resample_fn():
    from tangelo.toolboxes.post_processing.bootstrapping import get_resampled_frequencies
    return get_resampled_frequencies


def record_resample(fn, jid, width, weights, ncount, seed, stat=False, explicit_zero=True):
    """weights: {key int: integer weight}; zero weights are passed as explicit 0.0 entries when explicit_zero."""
    wtot = sum(weights.values())
    freq = {format(k, "0%db" % width): w / wtot for k, w in weights.items() if w > 0 or explicit_zero}
    np.random.seed(seed)
    out = fn(dict(freq), ncount)
    np.random.seed(seed)
    again = fn(dict(freq), ncount)
    keys = []
    for k, v in out.items():
        ok = isinstance(k, str) and k != "" and set(k) <= {"0", "1"}
        c = v * ncount
        keys.append([int(k, 2) if ok else -1, len(k) if ok else -1, int(round(c)) if abs(c - round(c)) < 1e-6 else -1])
    sup = sorted(k for k, w in weights.items() if w > 0)
    return {"id": jid, "kind": "resample", "width": width, "support": sup, "weights": [weights[k] for k in sup], "wtot": wtot,
            "ncount": ncount, "keys": keys, "stat": stat, "seed": seed, "in": {format(k, "0%db" % width): w for k, w in weights.items()},
            "explicit_zero": explicit_zero}, out == again


def resample_inputs(rng, quick):
    cases = []
    for it in range(40 if quick else 200):
        width = rng.randrange(1, 5)
        keys = rng.sample(range(2 ** width), rng.randrange(1, min(2 ** width, 6) + 1))
        tot = rng.choice([2, 4, 8, 16])
        cuts = sorted(rng.randrange(tot + 1) for _ in range(len(keys) - 1))
        ws = [b - a for a, b in zip([0] + cuts, cuts + [tot])]
        if not any(ws):
            ws[0] = tot
        cases.append((width, dict(zip(keys, ws)), rng.choice([1, 7, 100, 1000]), False, it % 2 == 0))
    for it in range(6 if quick else 30):       # statistics: 2000 shots, every count within 6 sigma
        width = rng.randrange(1, 4)
        keys = rng.sample(range(2 ** width), rng.randrange(2, 2 ** width + 1))
        ws = [rng.choice([1, 1, 2, 3, 5]) for _ in keys]
        pad = 16 - sum(ws)
        if pad > 0:
            ws[0] += pad
        cases.append((width, dict(zip(keys, ws)), 2000, True, False))
    if not quick:                               # crosses the internal chunk size of 10^7 samples
        cases.append((2, {0: 1, 3: 1, 2: 0}, 10 ** 7 + 3, False, True))
    return cases


def tail_objective(rng, nq):
    """An entangling circuit with every parameter in exactly one rotation gate, and a random qubit operator."""
    from tangelo.linq import Gate, Circuit, get_backend
    from tangelo.toolboxes.operators import QubitOperator
    from tangelo.toolboxes.ansatz_generator import VariationalCircuitAnsatz
    if "sim" not in _SIM:
        _SIM["sim"] = get_backend("cirq")
    gates = []
    for layer in range(2):
        gates += [Gate(rng.choice(["RX", "RY", "RZ"]) if layer else rng.choice(["RX", "RY"]), q, parameter=0.0, is_variational=True) for q in range(nq)]
        gates += [Gate("CNOT", q + 1, q) for q in range(nq - 1)]
    ansatz = VariationalCircuitAnsatz(Circuit(gates, n_qubits=nq))
    ansatz.build_circuit()
    op = QubitOperator()
    for _ in range(4):
        term = tuple((q, rng.choice("XYZ")) for q in range(nq) if rng.random() < 0.6)
        op += QubitOperator(term, rng.choice([-1.0, 0.5, 0.75, 1.5]))

    def f(params):
        ansatz.update_var_params(list(params))
        return float(np.real(_SIM["sim"].get_expectation_value(op, ansatz.circuit)))
    return f, 2 * nq


def record_rotorun(rmod, jid, f, npar, p0, ftol, maxiter):
    evals, steps = [], []

    def wrapped(params, *a):
        val = f(params)
        evals.append(val)
        return val
    orig = rmod.rotosolve_step

    def step(fn, var_params, i, *a):
        out = orig(fn, var_params, i, *a)
        steps.append(len(evals))
        return out
    rmod.rotosolve_step = step
    try:
        e, p = rmod.rotosolve(wrapped, list(p0), ftol=ftol, maxiter=maxiter)
    finally:
        rmod.rotosolve_step = orig
    fx = lambda x: int(round(float(x) * FIX))
    sweeps = [fx(evals[pos]) for k, pos in enumerate(steps) if (k + 1) % npar == 0 and pos < len(evals)]
    return {"id": jid, "kind": "rotorun", "n": npar, "maxiter": maxiter, "ftol": fx(ftol), "e0": fx(evals[0]), "sweeps": sweeps,
            "ret": fx(e), "fret": fx(f(list(p))), "nsteps": len(steps), "slack": 2}


def part_trace(chk):
    fn = resample_fn()
    rmod = roto_module()
    rng = random.Random(chk.seed + 37)
    jobs, nondet = [], []
    for width, weights, ncount, stat, ez in resample_inputs(rng, chk.quick):
        jb, same = record_resample(fn, len(jobs) + 1, width, weights, ncount, chk.seed + len(jobs), stat, ez)
        jobs.append(jb)
        if not same:
            nondet.append(jb)
    nres = len(jobs)
    for it in range(6 if chk.quick else 30):
        nq = 2 + it % 2
        f, npar = tail_objective(rng, nq)
        p0 = [rng.uniform(-math.pi, math.pi) for _ in range(npar)]
        jobs.append(record_rotorun(rmod, len(jobs) + 1, f, npar, p0, rng.choice([1e-5, 1e-3, 1e-2]), rng.choice([1, 2, 4, 30])))
    # negative controls: one corrupted field per record type must be rejected with the expected verdict
    controls = []

    def ctl(src, expect, **changes):
        jb = copy.deepcopy(src)
        jb.update(changes)
        jb["id"] = len(jobs) + len(controls) + 1
        controls.append((jb, expect))
    # the base records are hand-written (independent of the code under test) and must be accepted as they are
    a = {"kind": "resample", "width": 3, "support": [1, 4, 6], "weights": [8, 4, 4], "wtot": 16, "ncount": 2000,
         "keys": [[1, 3, 1010], [4, 3, 480], [6, 3, 510]], "stat": True}
    ctl(a, "ok")
    ctl(a, "key-outside-support", keys=[[5, 3, 1010], [4, 3, 480], [6, 3, 510]])
    ctl(a, "count-sum", keys=[[1, 3, 1011], [4, 3, 480], [6, 3, 510]])
    ctl(a, "bad-width", keys=[[1, 4, 1010], [4, 3, 480], [6, 3, 510]])
    ctl(a, "duplicate-key", keys=[[1, 3, 1010], [4, 3, 480], [4, 3, 510]])
    ctl(a, "bad-count", keys=[[1, 3, 1010], [4, 3, 990], [6, 3, 0]])
    ctl(a, "bad-count", keys=[[1, 3, 1010], [4, 3, -1], [6, 3, 510]])
    ctl(a, "outside-6-sigma", keys=[[1, 3, 610], [4, 3, 880], [6, 3, 510]])
    ctl(a, "outside-6-sigma", keys=[[1, 3, 1500], [4, 3, 500]])          # an absent key counts as 0
    r0 = {"kind": "rotorun", "n": 3, "maxiter": 5, "ftol": 1000, "e0": 0, "sweeps": [-500000, -600000, -600500],
          "ret": -600500, "fret": -600501, "nsteps": 9, "slack": 2}
    ctl(r0, "ok")
    ctl(r0, "ok", maxiter=3, sweeps=[-500000, -600000, -700000], ret=-700000, fret=-700000)        # stopped by maxiter
    ctl(r0, "energy-increased", sweeps=[-500000, -499000, -499500], ret=-499500, fret=-499500)
    ctl(r0, "returned-energy", ret=-600000)
    ctl(r0, "energy-is-not-f(params)", fret=-600540)
    ctl(r0, "step-count", nsteps=8)
    ctl(r0, "stop-early", sweeps=[-500000, -600000], ret=-600000, fret=-600000, nsteps=6)
    ctl(r0, "stop-late", sweeps=[-500000, -600000, -600500, -600600], ret=-600600, fret=-600600, nsteps=12)
    ctl(r0, "sweep-count", sweeps=[], nsteps=0, ret=0, fret=0)
    ctl(r0, "sweep-count", maxiter=2)
    allj = jobs + [c for c, _ in controls]
    slim = [{k: v for k, v in j.items() if k not in ("in", "seed", "explicit_zero")} for j in allj]
    verdicts, results = tlc.judge("X06Trace", slim, "x06/trace", {}, max_parallel=2)
    for r in results:
        chk.add_tlc(r, "trace_V")
    for jb, expect in controls:
        if verdicts[jb["id"]] != expect:
            raise tlc.TLCError("X06Trace negative control: expected %s, got %s for %s" % (expect, verdicts[jb["id"]], {k: v for k, v in jb.items() if k != "in"}))
    for jb in jobs:
        v_ = verdicts[jb["id"]]
        if v_ != "ok":
            if jb["kind"] == "resample":
                chk.violation("bootstrapping:" + v_, "get_resampled_frequencies(%s, %d) under seed %d returned %s: %s" % (
                    jb["in"], jb["ncount"], jb["seed"], jb["keys"], v_), {"part": "resample", "job": jb})
            else:
                chk.violation("rotosolve:run:" + v_, "recorded run %s: %s" % ({k: jb[k] for k in ("e0", "sweeps", "ret", "fret", "nsteps", "ftol", "maxiter")}, v_), {"part": "rotorun", "job": jb})
    for jb in nondet:
        chk.violation("bootstrapping:not-deterministic", "two calls under np.random.seed(%d) differ for %s" % (jb["seed"], jb["in"]), {"part": "resample", "job": jb})
    chk.add_traces(len(jobs), "trace_V")
    chk.part("trace_V", resamples=nres, with_zero_weight_keys=sum(1 for j in jobs[:nres] if len(j["in"]) > len(j["support"]) and j["explicit_zero"]),
             statistical=sum(1 for j in jobs[:nres] if j["stat"]), optimiser_runs=len(jobs) - nres,
             runs_stopped_by_tolerance=sum(1 for j in jobs[nres:] if len(j["sweeps"]) < j["maxiter"]), negative_controls=sorted({e for _, e in controls}))
    chk.sample({"resample_record": {k: v for k, v in jobs[0].items()}})


# ======================================================================================================================
def run(chk):
    only = os.environ.get("X06_ONLY", "")
    if not only or "extrap" in only:
        part_extrap(chk)
    if not only or "roto" in only:
        part_roto(chk)
    if not only or "mcweeny" in only:
        part_mcweeny(chk)
    if not only or "trace" in only:
        part_trace(chk)
    chk.cov["rule"] = "TLC-exported transitions/behaviours of X06Extrap, X06Rotosolve, X06McWeeny replayed on the real functions; recorded resamples and optimiser runs judged by X06Trace"
    chk.assumptions += [
        "floats are compared with TLC's exact rationals / Z[sqrt 2] values: 1e-9 relative (analytic formulas), 1e-7 (lstsq on the DIIS equations), 2e-4 (exponent found by BFGS)",
    ]


def replay(chk, rec):
    case = rec["case"]
    sink = Sink()
    if case["part"] == "extrap":
        extrap_compare(extrap_api(), case["tr"], case["variant"], sink)
    elif case["part"] == "roto":
        roto_compare(roto_module(), [case["obj"]], case["n"], [dict(b, o=1) for b in case["group"]], sink, case["kind"],
                     tol=1e-9 if case["kind"] == "closure" else 1e-7)
    elif case["part"] == "mcweeny":
        mw_compare(mw_fn(), case["job"], case["run"], sink, noisy_job=case["noisy"], tol=1e-6 if case["noisy"] else 1e-9)
    elif case["part"] == "resample":
        jb = case["job"]
        w = {int(k, 2): v for k, v in jb["in"].items()}
        new, same = record_resample(resample_fn(), 1, jb["width"], w, jb["ncount"], jb["seed"], jb["stat"], jb["explicit_zero"])
        slim = {k: v for k, v in new.items() if k not in ("in", "seed", "explicit_zero")}
        verdicts, _ = tlc.judge("X06Trace", [slim], "x06/replay", {}, max_parallel=1)
        print("replay: verdict %s, deterministic %s" % (verdicts[1], same))
        return verdicts[1] == "ok" and same
    elif case["part"] == "rotorun":
        print("recorded run (random objective, not re-executed):", case["job"])
        return True
    elif case["part"] == "roto_step":
        roto_step_compare(roto_module(), [case["obj"]], case["n"], dict(case["beh"], o=1), sink, case["kind"],
                          tol=1e-9 if case["kind"] == "closure" else 1e-7)
    print("replay: keys flagged: %s" % sorted(set(sink.hits)))
    return rec["key"] not in sink.hits and not any(h == rec["key"] or h.startswith(rec["key"]) for h in sink.hits)


if __name__ == "__main__":
    check.main(PID, run, replay)
