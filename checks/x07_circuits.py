#!/venv/bin/python
"""Extension X07 (not one of the listed properties): the circuit generators of tangelo/toolboxes/circuits implement the
operator their docstring states (LCU select / prepare / OAA / truncated Taylor series, sign flips and reflections,
grid circuits x^2 and p^2, QFT adder and discrete clock, multi-product formulas, QSP sequence, Givens orbital rotations).

S: TLC model-checks spec/X07Models.tla (algorithm models of USelect, x^2 decomposition, QFT adder, multi-product
   coefficients against the DEFINITIONS in X07Defs) and spec/X07Clock.tla (the clock loop as a state machine).
V: gate lists recorded from the real generators are evaluated exactly by TLC (spec/X07Trace.tla, ring R_16) against the
   definitional operators; negative controls corrupt one recorded field per job kind.
Numeric tails (explicitly labelled *_NOT_model_checked): off-grid amplitudes / angles are evaluated with an independent dense
   numpy evaluator of the documented gate matrices and compared with the identity the spec structure prescribes, using the
   exact multi-product coefficients that TLC exported.
"""
import copy
import itertools
import math
import os
import random
import sys
from fractions import Fraction

sys.path.insert(0, os.path.join(os.path.dirname(os.path.abspath(__file__)), "..", "harness"))
import check  # noqa: E402
import tlc  # noqa: E402
from ring import angle_to_k, k_to_angle  # noqa: E402
from enc import gates_to_json, OffGrid, LETTER  # noqa: E402
import numpy as np  # noqa: E402

M = 16
PID = "X07"
TWO_PI = 2 * math.pi


# ------------------------------------------------------------------------------------------------------------------
# conversions
# ------------------------------------------------------------------------------------------------------------------
def ring_elem(num, kpow, p):
    """num / 2^kpow * zeta_M^p as a ring element dict (normal form is re-established by the spec: RingOfJson)."""
    c = [0] * (M // 2)
    p %= M
    if p < M // 2:
        c[p] = num
    else:
        c[p - M // 2] = -num
    while kpow > 0 and all(a % 2 == 0 for a in c):
        c = [a // 2 for a in c]
        kpow -= 1
    if all(a == 0 for a in c):
        kpow = 0
    return {"c": c, "k": kpow}


def coef_of(t):
    return t["n"] / (1 << t["k"]) * complex(math.cos(TWO_PI * t["p"] / M), math.sin(TWO_PI * t["p"] / M))


def clean(z):
    z = complex(z)
    return z.real if abs(z.imag) < 1e-15 else z


def build_op(op):
    from tangelo.toolboxes.operators import QubitOperator
    q = QubitOperator()
    for t in op:
        q += QubitOperator(tuple((int(a), b) for a, b in t["t"]), clean(coef_of(t)))
    return q


def word(t, n):
    w = [0] * n
    for q, l in t:
        w[int(q)] = LETTER[l]
    return w


def ctrl_list(c):
    return [] if c is None else ([int(c)] if isinstance(c, (int, np.integer)) else [int(x) for x in c])


def is_pow2(x):
    return x > 0 and abs(math.log2(x) - round(math.log2(x))) < 1e-12


# ------------------------------------------------------------------------------------------------------------------
# independent dense evaluator (documented gate matrices, qubit 0 = most significant bit of the amplitude index)
# ------------------------------------------------------------------------------------------------------------------
def _mat(name, th):
    c, s = math.cos(th / 2), math.sin(th / 2)
    return {"H": np.array([[1, 1], [1, -1]]) / math.sqrt(2), "X": np.array([[0, 1], [1, 0]]),
            "Y": np.array([[0, -1j], [1j, 0]]), "Z": np.diag([1, -1]), "S": np.diag([1, 1j]), "T": np.diag([1, np.exp(0.25j * np.pi)]),
            "RX": np.array([[c, -1j * s], [-1j * s, c]]), "RY": np.array([[c, -s], [s, c]]),
            "RZ": np.diag([np.exp(-0.5j * th), np.exp(0.5j * th)]), "PHASE": np.diag([1, np.exp(1j * th)])}[name]


BASE = {"CNOT": "X", "CX": "X", "CY": "Y", "CZ": "Z", "CH": "H", "CRX": "RX", "CRY": "RY", "CRZ": "RZ", "CPHASE": "PHASE",
        "CS": "S", "CT": "T", "CSWAP": "SWAP"}


def dense_run(gates, n, psi):
    """Apply a Tangelo gate list to a statevector (numpy, shape (2,)*n flattened)."""
    psi = np.asarray(psi, dtype=complex).reshape((2,) * n)
    for g in gates:
        base = BASE.get(g.name, g.name)
        ctrl = [int(c) for c in (g.control or [])]
        th = float(g.parameter) if g.parameter != "" else 0.0
        idx = [slice(None)] * n
        for c in ctrl:
            idx[c] = 1
        sub = psi[tuple(idx)]
        # axes of sub: the non-control qubits in increasing order
        rest = [q for q in range(n) if q not in ctrl]
        if base == "SWAP":
            a, b = (rest.index(int(t)) for t in g.target)
            sub = np.swapaxes(sub, a, b)
        else:
            ax = rest.index(int(g.target[0]))
            sub = np.moveaxis(np.tensordot(_mat(base, th), sub, axes=([1], [ax])), 0, ax)
        psi = psi.copy()
        psi[tuple(idx)] = sub
    return psi.reshape(-1)


def dense_block(gates, n, sys, anc_zero, ctrl_on):
    """Matrix B[y, x] = <y|_sys <0|_anc <c|_ctrl U |x>_sys |0>_anc |c>_ctrl (all other qubits must be in anc_zero or ctrl_on)."""
    d = 1 << sys
    B = np.zeros((d, d), dtype=complex)
    leak = 0.0
    for x in range(d):
        i = x << (n - sys)
        for c in ctrl_on:
            i |= 1 << (n - 1 - c)
        v = np.zeros(1 << n, dtype=complex)
        v[i] = 1
        out = dense_run(gates, n, v)
        for y in range(d):
            o = y << (n - sys)
            for c in ctrl_on:
                o |= 1 << (n - 1 - c)
            B[y, x] = out[o]
        leak = max(leak, abs(1 - float(np.sum(np.abs(B[:, x]) ** 2))))
    return B, leak


def mat_verdict(B, E):
    """(max abs error, class): 'numeric' or 'wrong-global-phase' when B = e^{i phi} E within 1e-9."""
    err = float(np.max(np.abs(B - E)))
    i = int(np.argmax(np.abs(E)))
    e0, b0 = E.reshape(-1)[i], B.reshape(-1)[i]
    if err > 1e-9 and abs(e0) > 1e-6 and abs(abs(b0) - abs(e0)) < 1e-9 and float(np.max(np.abs(B - (b0 / e0) * E))) < 1e-9:
        return err, "wrong-global-phase"
    return err, "numeric"


PAULI = {"I": np.eye(2), "X": np.array([[0, 1], [1, 0]]), "Y": np.array([[0, -1j], [1j, 0]]), "Z": np.diag([1.0, -1.0])}


def op_matrix(qu_op, n):
    H = np.zeros((1 << n, 1 << n), dtype=complex)
    for term, c in qu_op.terms.items():
        d = dict(term)
        m = np.ones((1, 1))
        for q in range(n):
            m = np.kron(m, PAULI[d.get(q, "I")])
        H = H + c * m
    return H


# ------------------------------------------------------------------------------------------------------------------
# case functions: spec (JSON-able) -> list of entries
#   {"label":..., "job": {...}}                         exact, judged by TLC
#   {"label":..., "numeric": err, "tol": tol, "what":..} numeric tail (dense evaluation)
#   {"label":..., "exception": text}                    the generator raised on a valid input
#   {"label":..., "offgrid": True}                      inconclusive for the exact carrier
#   {"label":..., "struct": bool, "what": ...}          exact structural comparison (integers / lists)
# ------------------------------------------------------------------------------------------------------------------
def select_terms(op, n):
    """Stage terms of USelect for the operator: term j applies -a_j/|a_j| P_j (the generator's sign convention:
    W = Uprep^+ USelect Uprep block-encodes -H/alpha, the oblivious amplitude amplification restores the sign)."""
    return [{"w": word(t["t"], n), "ph": (t["p"] + (0 if t["n"] < 0 else M // 2)) % M} for t in op]


def case_uprep_uselect(spec):
    from tangelo.toolboxes.circuits.lcu import get_uprep_uselect, get_lcu_qubit_op_info
    from tangelo.toolboxes.operators import count_qubits
    op, control = spec["op"], spec["control"]
    out = []
    qu_op = build_op(op)
    sysn = count_qubits(qu_op)
    nanc = max(0, math.ceil(math.log2(len(op))))
    cl = ctrl_list(control)
    n = max([sysn + nanc] + [c + 1 for c in cl])
    try:
        uprep, uselect, qs, ancs, alpha = get_uprep_uselect(qu_op, control=copy.deepcopy(control))
    except Exception as e:
        return [{"label": "exception", "exception": "%s: %s" % (type(e).__name__, e)}]
    a_abs = [abs(t["n"]) / (1 << t["k"]) for t in op]
    alpha_x = sum(a_abs)
    info_q, info_a, info_alpha = get_lcu_qubit_op_info(qu_op)
    out.append({"label": "registers", "struct": list(qs) == list(range(sysn)) and list(ancs) == list(range(sysn, sysn + nanc))
                and list(info_q) == list(qs) and list(info_a) == list(ancs), "what": "qubit lists %s %s / info %s %s" % (qs, ancs, info_q, info_a)})
    out.append({"label": "alpha", "numeric": max(abs(alpha - alpha_x), abs(info_alpha - alpha_x)), "tol": 1e-12,
                "what": "1-norm returned %r / %r, exact %r" % (alpha, info_alpha, alpha_x)})
    # USelect exactly
    try:
        gj = gates_to_json(list(uselect), M)
        out.append({"label": "uselect", "job": {"kind": "select", "n": n, "gates": gj, "stages": [
            {"terms": select_terms(op, n), "anc": list(range(sysn, sysn + nanc)), "ctrl": cl, "zctrl": []}]}})
    except OffGrid:
        out.append({"label": "uselect", "offgrid": True})
    # Uprep amplitudes (numeric): Uprep|0> = sum_j sqrt(|a_j|/alpha) |j>, j read most significant qubit first
    v = np.zeros(1 << n, dtype=complex)
    v[0] = 1
    o = dense_run(list(uprep), n, v)
    amp = np.array([o[j << (n - sysn - nanc)] for j in range(1 << nanc)])
    tgt = np.zeros(1 << nanc)
    tgt[:len(op)] = np.sqrt(np.array(a_abs) / alpha_x)
    out.append({"label": "uprep-amplitudes", "numeric": float(np.max(np.abs(amp - tgt))), "tol": 1e-9,
                "what": "Uprep|0> amplitudes %s, expected sqrt(|a_j|/alpha) %s" % (np.round(amp, 6).tolist(), np.round(tgt, 6).tolist())})
    # block encoding
    W = list(uprep) + list(uselect) + list(uprep.inverse())
    exact = False
    if is_pow2(alpha_x):
        try:
            gj = gates_to_json(W, M)
            sh = int(round(math.log2(alpha_x)))
            tgt_op = []
            for t in op:
                k = t["k"] + sh
                num = -t["n"]
                if k < 0:
                    num, k = num << (-k), 0
                tgt_op.append({"w": word(t["t"], n), "c": ring_elem(num, k, t["p"])})
            out.append({"label": "block", "job": {"kind": "block", "n": n, "gates": gj, "sys": sysn, "anc": list(range(sysn, sysn + nanc)),
                                                  "ctrl": cl, "op": tgt_op, "mode": "block", "oaa": False}})
            exact = True
        except OffGrid:
            pass
    if not exact:
        B, _ = dense_block(W, n, sysn, list(range(sysn, sysn + nanc)), cl)
        E = -op_matrix(qu_op, sysn) / alpha_x
        err, vd = mat_verdict(B, E)
        out.append({"label": "block-numeric", "numeric": err, "tol": 1e-9, "verdict": vd,
                    "what": "(<0| x 1) Uprep^+ USelect Uprep (|0> x 1) vs -H/alpha"})
        if cl:
            B0, _ = dense_block(W, n, sysn, list(range(sysn, sysn + nanc)), cl[1:])
            out.append({"label": "block-numeric-control-off", "numeric": float(np.max(np.abs(B0 - np.eye(1 << sysn)))), "tol": 1e-9,
                        "what": "control off: block must be the identity"})
    return out


def case_oaa(spec):
    """get_oaa_lcu_circuit(A): block = 3/2 A - 1/2 A A^+ A (= A for unitary A), identity when a control is off."""
    from tangelo.toolboxes.circuits.lcu import get_oaa_lcu_circuit
    from tangelo.toolboxes.operators import count_qubits
    op, control = spec["op"], spec["control"]
    qu_op = build_op(op)
    sysn = count_qubits(qu_op)
    nanc = math.ceil(math.log2(len(op) + 2))
    cl = ctrl_list(control)
    n = max([sysn + nanc] + [c + 1 for c in cl])
    try:
        circ = get_oaa_lcu_circuit(qu_op, control=copy.deepcopy(control))
    except Exception as e:
        return [{"label": "exception", "exception": "%s: %s" % (type(e).__name__, e)}]
    anc = list(range(sysn, sysn + nanc))
    try:
        gj = gates_to_json(list(circ), M)
        tgt_op = [{"w": word(t["t"], n), "c": ring_elem(t["n"], t["k"], t["p"])} for t in op]
        return [{"label": "oaa", "job": {"kind": "block", "n": n, "gates": gj, "sys": sysn, "anc": anc, "ctrl": cl, "op": tgt_op,
                                         "mode": "exact" if spec.get("unitary") else "block", "oaa": True}}]
    except OffGrid:
        pass
    A = op_matrix(qu_op, sysn)
    E = 1.5 * A - 0.5 * A @ A.conj().T @ A
    B, leak = dense_block(list(circ), n, sysn, anc, cl)
    err, vd = mat_verdict(B, E)
    out = [{"label": "oaa-numeric", "numeric": err, "tol": 1e-9, "verdict": vd,
            "what": "block of the OAA circuit vs 3/2 A - 1/2 A A^+ A"}]
    if spec.get("unitary"):
        out.append({"label": "oaa-numeric-leak", "numeric": leak, "tol": 1e-9, "what": "unitary A: no amplitude may leave ancilla = 0"})
    if cl:
        B0, _ = dense_block(list(circ), n, sysn, anc, cl[1:])
        out.append({"label": "oaa-numeric-control-off", "numeric": float(np.max(np.abs(B0 - np.eye(1 << sysn)))), "tol": 1e-9,
                    "what": "control off: identity"})
    return out


def case_sign_flip(spec):
    from tangelo.toolboxes.circuits.lcu import sign_flip
    ql, control = spec["qubits"], spec["control"]
    cl = ctrl_list(control)
    n = 1 + max(ql + cl)
    try:
        circ = sign_flip(list(ql), control=copy.deepcopy(control))
        gj = gates_to_json(list(circ), M)
    except Exception as e:
        return [{"label": "exception", "exception": "%s: %s" % (type(e).__name__, e)}]
    return [{"label": "sign_flip", "job": {"kind": "select", "n": n, "gates": gj, "stages": [
        {"terms": [{"w": [0] * n, "ph": M // 2}], "anc": [], "ctrl": cl, "zctrl": list(ql)}]}}]


def case_zero_cnot(spec):
    from tangelo.toolboxes.circuits.qsp import zero_controlled_cnot
    ql, target, control = spec["qubits"], spec["target"], spec["control"]
    cl = ctrl_list(control)
    n = 1 + max(ql + cl + [target])
    try:
        circ = zero_controlled_cnot(list(ql), target, copy.deepcopy(control))
        gj = gates_to_json(list(circ), M)
    except Exception as e:
        return [{"label": "exception", "exception": "%s: %s" % (type(e).__name__, e)}]
    return [{"label": "zero_controlled_cnot", "job": {"kind": "select", "n": n, "gates": gj, "stages": [
        {"terms": [{"w": word([[target, "X"]], n), "ph": 0}], "anc": [], "ctrl": cl, "zctrl": list(ql)}]}}]


def case_uselectkl(spec):
    """USelectkl: stage k (k = 1..kmax, in this order) is controlled by unary qubit k-1 and selects U_j by register k
    (first register qubit = least significant: the convention of Uprepkl's msq_first StateVector); then the -1 stage on
    unary = 0..0, last ancilla = 1."""
    from tangelo.toolboxes.circuits.lcu import USelectkl
    from tangelo.toolboxes.operators import QubitOperator
    us, sysn, kmax, control = spec["unitaries"], spec["sysn"], spec["kmax"], spec["control"]
    cl = ctrl_list(control)
    nu = math.ceil(math.log2(len(us)))
    nreg = sysn + kmax + kmax * nu + 1
    n = max([nreg] + [c + 1 for c in cl])
    unitaries = [QubitOperator(tuple((int(a), b) for a, b in u["t"]), clean(np.exp(1j * TWO_PI * u["p"] / M))) for u in us]
    try:
        circ = USelectkl(unitaries, sysn, kmax, copy.deepcopy(control))
        gj = gates_to_json(list(circ), M)
    except OffGrid:
        return [{"label": "USelectkl", "offgrid": True}]
    except Exception as e:
        return [{"label": "exception", "exception": "%s: %s" % (type(e).__name__, e)}]
    stages = []
    for k in range(1, kmax + 1):
        qs = sysn + kmax + (k - 1) * nu
        stages.append({"terms": [{"w": word(u["t"], n), "ph": u["p"] % M} for u in us],
                       "anc": list(reversed(range(qs, qs + nu))), "ctrl": [sysn + k - 1] + cl, "zctrl": []})
    stages.append({"terms": [{"w": [0] * n, "ph": M // 2}], "anc": [], "ctrl": [nreg - 1] + cl, "zctrl": list(range(sysn, sysn + kmax))})
    return [{"label": "USelectkl", "job": {"kind": "select", "n": n, "gates": gj, "stages": stages}}]



def taylor_ref(H, t, kmax):
    A = np.zeros_like(H)
    term = np.eye(H.shape[0], dtype=complex)
    for k in range(kmax + 1):
        if k:
            term = term @ (-1j * t * H) / k
        A = A + term
    return A


def case_taylor(spec):
    """get_truncated_taylor_series(H, kmax, t): one segment (rsteps = 1) has the block 3/2 A - 1/2 A A^+ A with
    A = sum_{k<=kmax} (-iHt)^k / k!  (oblivious amplitude amplification of A/2); r segments stay within the Taylor remainder."""
    from tangelo.toolboxes.circuits.lcu import get_truncated_taylor_series, get_truncated_taylor_series_qubits, Uprepkl
    from tangelo.toolboxes.operators import count_qubits
    from scipy.linalg import expm
    op, kmax, t, control = spec["op"], spec["kmax"], spec["t"], spec["control"]
    qu_op = build_op(op)
    sysn = count_qubits(qu_op)
    cl = ctrl_list(control)
    try:
        circ = get_truncated_taylor_series(qu_op, kmax, t, control=copy.deepcopy(control))
        qubits = get_truncated_taylor_series_qubits(qu_op, kmax)
        r = Uprepkl(qu_op, kmax, t)[2]
    except Exception as e:
        return [{"label": "exception", "exception": "%s: %s" % (type(e).__name__, e)}]
    nreg = len(qubits)
    n = max([nreg] + [c + 1 for c in cl])
    out = [{"label": "qubits", "struct": set(circ._qubit_indices) <= set(qubits) | set(cl) and set(qubits) == set(range(nreg)),
            "what": "qubit indices %s vs get_truncated_taylor_series_qubits %s" % (sorted(circ._qubit_indices), qubits)}]
    anc = [q for q in range(sysn, n) if q not in cl]
    H = op_matrix(qu_op, sysn)
    B, _ = dense_block(list(circ), n, sysn, anc, cl)
    if r == 1:
        A = taylor_ref(H, t, kmax)
        E = 1.5 * A - 0.5 * A @ A.conj().T @ A
        err, vd = mat_verdict(B, E)
        out.append({"label": "segment", "numeric": err, "tol": 1e-8, "verdict": vd,
                    "what": "block of one Taylor segment vs OAA(sum_k (-iHt)^k/k!), kmax=%d t=%g" % (kmax, t)})
    else:
        alpha = sum(abs(t_["n"]) / (1 << t_["k"]) for t_ in op)
        delta = (alpha * abs(t) / r) ** (kmax + 1) / math.factorial(kmax + 1)
        E = expm(-1j * t * H)
        err, vd = mat_verdict(B, E)
        # if B is a phase multiple of something close to E, report the phase class
        i = int(np.argmax(np.abs(E)))
        ph = B.reshape(-1)[i] / E.reshape(-1)[i]
        if abs(ph) > 0.5 and float(np.max(np.abs(B / (ph / abs(ph)) - E))) <= 8 * r * delta + 1e-8 < err:
            vd = "wrong-global-phase"
        out.append({"label": "evolution", "numeric": err, "tol": 8 * r * delta + 1e-8, "verdict": vd,
                    "what": "block of %d Taylor segments vs exp(-iHt) (remainder bound %.2g), kmax=%d t=%g" % (r, delta, kmax, t)})
    if cl:
        B0, _ = dense_block(list(circ), n, sysn, anc, cl[1:])
        out.append({"label": "control-off", "numeric": float(np.max(np.abs(B0 - np.eye(1 << sysn)))), "tol": 1e-9, "what": "control off: identity"})
    return out


DX, FAC, MASS = 0.37, 0.81, 1.3


def case_xsq(spec):
    """get_xsquared_circuit on the grid x = dx * value(register), first listed qubit least significant."""
    from tangelo.toolboxes.circuits.grid_circuits import get_xsquared_circuit
    ql, control, C, R, D = spec["qubits"], spec["control"], spec["C"], spec["R"], spec["D"]
    th = TWO_PI / M
    dt = C * th / (FAC * DX ** 2)
    x0 = R * DX / 2
    delta = D * th / dt
    cl = ctrl_list(control)
    n = 1 + max(ql + cl)
    try:
        circ = get_xsquared_circuit(dt, DX, FAC, x0, delta, list(ql), control=copy.deepcopy(control))
        gj = gates_to_json(list(circ), M, tol=1e-7)
    except OffGrid:
        return [{"label": "xsquared", "offgrid": True}]
    except Exception as e:
        return [{"label": "exception", "exception": "%s: %s" % (type(e).__name__, e)}]
    return [{"label": "xsquared", "job": {"kind": "quad", "n": n, "gates": gj, "L": list(ql), "ctrl": cl, "C": C, "R": R, "D": D}}]


def case_psq(spec):
    from tangelo.toolboxes.circuits.grid_circuits import get_psquared_circuit
    ql, control, C = spec["qubits"], spec["control"], spec["C"]
    N = 1 << len(ql)
    dp = TWO_PI / N / DX
    dt = C * (TWO_PI / M) * 2 * MASS / dp ** 2
    cl = ctrl_list(control)
    n = 1 + max(ql + cl)
    try:
        circ = get_psquared_circuit(dt, DX, MASS, list(ql), control=copy.deepcopy(control))
        gj = gates_to_json(list(circ), M, tol=1e-7)
    except OffGrid:
        return [{"label": "psquared", "offgrid": True}]
    except Exception as e:
        return [{"label": "exception", "exception": "%s: %s" % (type(e).__name__, e)}]
    return [{"label": "psquared", "job": {"kind": "psq", "n": n, "gates": gj, "L": list(ql), "ctrl": cl, "C": C}}]


def case_adder(spec):
    from tangelo.toolboxes.circuits.discrete_clock import get_adder_circuit
    ql, t = spec["qubits"], spec["t"]
    n = 1 + max(ql)
    try:
        circ = get_adder_circuit(list(ql), t)
        gj = gates_to_json(list(circ), M, tol=1e-7)
    except OffGrid:
        return [{"label": "adder", "offgrid": True}]
    except Exception as e:
        return [{"label": "exception", "exception": "%s: %s" % (type(e).__name__, e)}]
    return [{"label": "adder", "job": {"kind": "adder", "n": n, "gates": gj, "L": list(ql), "t": t}}]


def scripted_trotter(steps, dt, log=None):
    """trotter_func for the clock / multi-product generators: step i = round(t0/dt) applies the listed on-grid gates,
    controlled by `control`.  n_trotter_steps = m repeats the step with every angle divided by m (exact when divisible)."""
    from tangelo.linq import Gate, Circuit

    def f(t0, time, n_trotter_steps, control):
        i = int(round(t0 / dt)) if dt else 0
        if log is not None:
            log.append({"t0": t0, "time": time, "m": n_trotter_steps, "control": list(control)})
        gs = []
        for _ in range(n_trotter_steps):
            for name, tq, k in steps[i]:
                if name in ("RX", "RY", "RZ", "PHASE"):
                    gs.append(Gate("C" + name, tq, control=list(control), parameter=k_to_angle(k, M) / n_trotter_steps))
                else:
                    gs.append(Gate("C" + name, tq, control=list(control)))
        return Circuit(gs)
    return f


def case_clock(spec):
    """get_discrete_clock_circuit with multi-product order 1 (all angles on the grid): exact."""
    from tangelo.toolboxes.circuits.discrete_clock import get_discrete_clock_circuit
    sysn, T, steps, c0s = spec["sysn"], spec["T"], spec["steps"], spec["c0"]
    time = spec.get("time", 1.0)
    nb = math.ceil(math.log2(T)) if T > 1 else 0
    n = sysn + 2 + nb
    log = []
    try:
        circ = get_discrete_clock_circuit(scripted_trotter(steps, time / T, log), {}, sysn, time, T, 1)
        gj = gates_to_json(list(circ), M, tol=1e-7)
    except OffGrid:
        return [{"label": "clock", "offgrid": True}]
    except Exception as e:
        return [{"label": "exception", "exception": "%s: %s" % (type(e).__name__, e)}]
    out = [{"label": "trotter-calls", "struct": [round(c["t0"] / (time / T)) for c in log] == list(range(T))
            and all(abs(c["time"] - time / T) < 1e-12 and c["m"] == 1 for c in log),
            "what": "trotter_func called with (t0, time, n) = %s" % [(c["t0"], c["time"], c["m"]) for c in log]}]
    sj = [[{"name": nm, "t": [tq], "c": [], "k": (k if nm in ("RX", "RY", "RZ", "PHASE") else 0)} for nm, tq, k in st] for st in steps]
    for c0 in c0s:
        out.append({"label": "clock-c0=%s" % ("0" if c0 == 0 else "nonzero"),
                    "job": {"kind": "clock", "n": max(n, circ.width), "gates": gj, "sys": sysn, "clk": list(range(sysn + 2, sysn + 2 + nb)),
                            "T": T, "c0": c0, "steps": sj}})
    return out


def case_mp1(spec):
    """get_multi_product_circuit, order 1, scripted second-order step = controlled Pauli rotation by pi (= -i P): exact."""
    from tangelo.toolboxes.circuits.multiproduct import get_multi_product_circuit
    sysn, w, control = spec["sysn"], spec["word"], spec["control"]
    cl = ctrl_list(control)
    n = max([sysn + 2] + [c + 1 for c in cl])
    from tangelo.toolboxes.ansatz_generator.ansatz_utils import exp_pauliword_to_gates
    from tangelo.linq import Circuit

    def s2(control, n_trotter_steps, **kw):
        return Circuit(exp_pauliword_to_gates(tuple((int(a), b) for a, b in w), math.pi / 2, control=control))
    try:
        circ = get_multi_product_circuit(1.0, 1, sysn, control=copy.deepcopy(control), second_order_trotter=s2, trotter_kwargs={})
        gj = gates_to_json(list(circ), M)
    except OffGrid:
        return [{"label": "mp-order1", "offgrid": True}]
    except Exception as e:
        return [{"label": "exception", "exception": "%s: %s" % (type(e).__name__, e)}]
    return [{"label": "mp-order1", "job": {"kind": "block", "n": n, "gates": gj, "sys": sysn, "anc": [sysn, sysn + 1], "ctrl": cl,
                                           "op": [{"w": word(w, n), "c": ring_elem(1, 0, -M // 4)}], "mode": "exact", "oaa": False}}]


CASES = {"taylor": case_taylor, "xsq": case_xsq, "psq": case_psq, "adder": case_adder, "clock": case_clock, "mp1": case_mp1,
         "uprep_uselect": case_uprep_uselect, "oaa": case_oaa, "sign_flip": case_sign_flip, "zero_cnot": case_zero_cnot,
         "uselectkl": case_uselectkl}


# ------------------------------------------------------------------------------------------------------------------
# input generation
# ------------------------------------------------------------------------------------------------------------------
WORDS = {1: [[], [[0, "X"]], [[0, "Y"]], [[0, "Z"]]],
         2: [[], [[0, "X"]], [[1, "Z"]], [[0, "Y"], [1, "X"]], [[0, "Z"], [1, "Z"]], [[1, "Y"]], [[0, "X"], [1, "Y"]], [[0, "Z"]]],
         3: [[], [[2, "X"]], [[0, "Z"], [2, "Y"]], [[0, "X"], [1, "Y"], [2, "Z"]], [[1, "Z"], [2, "Z"]], [[0, "Y"]], [[1, "X"], [2, "X"]]]}


def gen_op(rng, sysn, nterms, identity, phases, weights):
    """nterms distinct words on sysn qubits (the highest qubit is touched), identity present or not."""
    pool = [w for w in WORDS[sysn] if w]
    top = [w for w in pool if any(q == sysn - 1 for q, _ in w)]
    first = rng.choice(top)
    rest = [w for w in pool if w != first]
    rng.shuffle(rest)
    ws = [first] + rest[:nterms - 1 - (1 if identity else 0)]
    if identity:
        ws.append([])
    rng.shuffle(ws)
    return [{"t": w, "n": rng.choice([1, -1]) * wt[0], "k": wt[1], "p": rng.choice(phases)} for w, wt in zip(ws, weights)]


# weight patterns (num, kpow) whose square-root amplitudes are on the grid, per number of terms
ONGRID_WEIGHTS = {2: [[(1, 1), (1, 1)], [(1, 2), (1, 2)], [(1, 0), (1, 0)]],
                  3: [[(1, 1), (1, 2), (1, 2)], [(1, 2), (1, 1), (1, 2)], [(1, 2), (1, 2), (1, 1)]],
                  4: [[(1, 2)] * 4, [(1, 1)] * 4, [(1, 3)] * 4]}


def lcu_cases(chk, rng):
    cases = []
    quick = chk.quick
    reps = 1 if quick else 3
    for sysn in (1, 2, 3):
        for nterms in (2, 3, 4, 5, 6):
            if nterms > len(WORDS[sysn]) - 1:
                continue
            for rep in range(reps):
                for identity in (False, True):
                    for ctl in (0, 1, 2):
                        if quick and ctl == 2 and (sysn + nterms) % 2:
                            continue
                        nanc = math.ceil(math.log2(nterms))
                        if sysn + nanc + ctl > (5 if quick else 6):
                            continue
                        base = sysn + nanc
                        control = None if ctl == 0 else (rng.choice([base, [base]]) if ctl == 1 else [base + 1, base])
                        # on-grid weights where they exist (exact block-encoding identity), generic dyadic ones otherwise
                        if nterms in ONGRID_WEIGHTS and rng.random() < 0.7:
                            wts = rng.choice(ONGRID_WEIGHTS[nterms])
                        else:
                            wts = [(rng.choice([1, 3, 5]), rng.choice([2, 3])) for _ in range(nterms)]
                        phases = [0] if rng.random() < 0.6 else [0, M // 4, M // 8, -M // 4, M // 2]
                        cases.append(("uprep_uselect", {"op": gen_op(rng, sysn, nterms, identity, phases, wts), "control": control}))
    # oblivious amplitude amplification: unitary single Paulis (exact), on-grid non-unitary pairs (exact), generic (numeric)
    for sysn in (1, 2):
        for w in [x for x in WORDS[sysn] if x and any(q == sysn - 1 for q, _ in x)][:3 if quick else 6]:
            for p in ((0, M // 4, M // 2) if quick else (0, M // 8, M // 4, M // 2, -M // 4)):
                for control in (None, sysn + 2, [sysn + 3, sysn + 2]):      # one term + 2 padding terms: 2 ancillas
                    if quick and isinstance(control, list) and p:
                        continue
                    cases.append(("oaa", {"op": [{"t": w, "n": 1, "k": 0, "p": p}], "control": control, "unitary": True}))
    for sysn in (1, 2):
        for rep in range(2 if quick else 6):
            for ctl in (False, True):
                op = gen_op(rng, sysn, 2, rep % 2 == 1, [0, M // 4, M // 2], [(1, 1), (1, 1)])
                cases.append(("oaa", {"op": op, "control": sysn + 2 if ctl else None, "unitary": False}))
                op = gen_op(rng, sysn, 3, rep % 2 == 0, [0, M // 2], [(rng.choice([1, 3]), 3) for _ in range(3)])
                cases.append(("oaa", {"op": op, "control": sysn + 3 if ctl else None, "unitary": False}))
    # sign flips / zero-controlled CNOT
    for ql in [[0], [1, 0], [0, 1], [2, 0, 1], [0, 1, 2, 3], [3, 1]]:
        top = max(ql) + 1
        for control in (None, top, [top], [top + 1, top]):
            if len(ql) == 1 and control is None:
                continue        # a reflection of one qubit without controls has no multi-controlled gate to build
            if len(ql) + len(ctrl_list(control)) > 5:
                continue
            cases.append(("sign_flip", {"qubits": ql, "control": control}))
    for ql, tgt in [([0], 1), ([0, 1], 2), ([2, 0], 1), ([1, 2, 3], 0)]:
        top = max(ql + [tgt]) + 1
        for control in ([], top, [top]):
            cases.append(("zero_cnot", {"qubits": ql, "target": tgt, "control": control}))
    # USelectkl
    for sysn, nun, kmax in [(1, 2, 1), (1, 3, 2), (2, 3, 1), (2, 4, 1), (1, 2, 2), (2, 5, 1)] + ([] if quick else [(2, 2, 2), (1, 4, 2), (3, 3, 1), (1, 2, 3)]):
        for control in (None, "top"):
            pool = [w for w in WORDS[sysn]]
            rng.shuffle(pool)
            us = [{"t": w, "p": rng.choice([M // 4, -M // 4])} for w in pool[:nun]]
            nreg = sysn + kmax + kmax * math.ceil(math.log2(nun)) + 1
            if nreg + (1 if control else 0) > 7:
                continue
            cases.append(("uselectkl", {"unitaries": us, "sysn": sysn, "kmax": kmax, "control": None if control is None else nreg}))
    return cases



def other_cases(chk, rng):
    quick = chk.quick
    cases = []
    # ---- truncated Taylor series (numeric tail) --------------------------------------------------------------
    roots = {1: 1., 2: 0.73205081, 3: 0.69888549}
    for sysn, nterms, kmax in [(1, 2, 1), (1, 2, 2), (2, 2, 2), (1, 3, 1), (2, 3, 2), (2, 4, 1)] + ([] if quick else [(1, 2, 3), (1, 3, 2), (3, 2, 1), (2, 4, 2), (3, 4, 1)]):
        for ctl in (False, True):
            for tsel in ((0.9, -0.5) if quick else (0.9, -0.5, 2.6, -1.7, 0.05)):
                nu = math.ceil(math.log2(nterms))
                nreg = sysn + kmax + kmax * nu + 1
                if nreg + ctl > (9 if quick else 10):
                    continue
                op = gen_op(rng, sysn, nterms, rng.random() < 0.4, [0], [(rng.choice([1, 3, 5]), rng.choice([1, 2, 3])) for _ in range(nterms)])
                alpha = sum(abs(t["n"]) / (1 << t["k"]) for t in op)
                cases.append(("taylor", {"op": op, "kmax": kmax, "t": tsel * roots[kmax] / alpha, "control": nreg if ctl else None}))
    # ---- grid circuits ------------------------------------------------------------------------------------------
    regs = [[0], [1, 0], [0, 1], [0, 1, 2], [2, 0, 1]] + ([] if quick else [[1, 3, 0], [3, 2, 1, 0]])
    for ql in regs:
        top = max(ql) + 1
        N = 1 << len(ql)
        for control in (None, top, [top + 1, top]):
            if len(ql) + len(ctrl_list(control)) > (4 if quick else 5):
                continue
            for rep in range(3 if quick else 8):
                R = rng.choice([0, 1, 2, 3, -1, N - 1, N, -2])
                C = rng.choice([4, -4, 8, 12]) if R % 2 else rng.choice([1, -1, 2, 3, 5, -3, 4])
                D = rng.choice([0, 1, -3, 5])
                cases.append(("xsq", {"qubits": ql, "control": control, "C": C, "R": R, "D": D}))
        for control in (None, top) + (() if quick else ([top + 1, top],)):
            if len(ql) + len(ctrl_list(control)) > 4:
                continue
            for C in ((1, -3) if quick else (1, -1, 2, 3, 5)):
                cases.append(("psq", {"qubits": ql, "control": control, "C": C}))
        for t in sorted(set([1, -1, -N, N + 1] + [rng.randrange(-2 * N, 2 * N) for _ in range(2 if quick else 5)])):
            cases.append(("adder", {"qubits": ql, "t": t}))
    # ---- discrete clock (multi-product order 1: every angle on the grid) ---------------------------------------------
    alphabet = [("RX", 2), ("RZ", 2), ("RX", -6), ("RZ", 6), ("H", 0), ("PHASE", 3), ("RY", 2), ("PHASE", -5), ("Y", 0), ("RY", -2)]
    for T in ((1, 2, 3, 4) if quick else (1, 2, 3, 4, 5, 6)):
        for rep in range(1 if quick or T > 4 else 2):
            steps = []
            for i in range(T):
                gs = rng.sample(alphabet, 2 if rng.random() < 0.5 else 1)
                steps.append([[nm, 0, k] for nm, k in gs])
            nb = math.ceil(math.log2(T)) if T > 1 else 0
            c0 = [0] + ([rng.randrange(1, 1 << nb)] if nb and (not quick or T == 3) else [])
            spec = {"sysn": 1, "T": T, "steps": steps, "c0": c0, "time": rng.choice([1.0, -0.75, 2.5])}
            if T == 1:
                spec["class"] = "n_time_steps=1"
            cases.append(("clock", spec))
    # ---- multi-product order 1 (exact) -------------------------------------------------------------------------------
    for sysn in (1, 2):
        for w in [x for x in WORDS[sysn] if x][:2 if quick else 5]:
            for control in (None, sysn + 2, [sysn + 3, sysn + 2]):
                cases.append(("mp1", {"sysn": sysn, "word": w, "control": control}))
    return cases


# ------------------------------------------------------------------------------------------------------------------
# evaluation of cases
# ------------------------------------------------------------------------------------------------------------------
def evaluate(chk, cases, name, record=True):
    """Run the case functions, judge their exact jobs with TLC.  Returns list of (fn, spec, label, status, detail)
    with status in ok / bad / exception / offgrid."""
    entries = []
    jobs = []
    for fn, spec in cases:
        try:
            es = CASES[fn](spec)
        except OffGrid:
            es = [{"label": fn, "offgrid": True}]
        for e in es:
            if "job" in e:
                e["job"]["id"] = len(jobs) + 1
                jobs.append(e["job"])
            entries.append((fn, spec, e))
    verdicts, results = ({}, [])
    if jobs:
        verdicts, results = tlc.judge("X07Trace", jobs, name, {"M": M}, max_parallel=int(os.environ.get("X07_JVMS", "8")), timeout=7200)
    out = []
    for fn, spec, e in entries:
        if "job" in e:
            v = verdicts[e["job"]["id"]]
            out.append((fn, spec, e["label"], "ok" if v == "ok" else "bad", v, e))
        elif "numeric" in e:
            good = e["numeric"] <= e["tol"]
            out.append((fn, spec, e["label"], "ok" if good else "bad", "NUMERIC TAIL: %s: error %.3g > %.1g" % (e["what"], e["numeric"], e["tol"]), e))
        elif "struct" in e:
            out.append((fn, spec, e["label"], "ok" if e["struct"] else "bad", e["what"], e))
        elif "exception" in e:
            out.append((fn, spec, e["label"], "exception", e["exception"], e))
        else:
            out.append((fn, spec, e["label"], "offgrid", "", e))
    return out, jobs, verdicts, results


def report(chk, rows):
    stats = {}
    # block-encoding verdicts per case: USelect's index convention is only fixed by its consistency with Uprep
    block_ok = {}
    for fn, spec, label, status, detail, e in rows:
        if fn == "uprep_uselect" and label.startswith("block"):
            block_ok[id(spec)] = block_ok.get(id(spec), True) and status == "ok"
    for fn, spec, label, status, detail, e in rows:
        if fn == "uprep_uselect" and label == "uselect" and status == "bad" and detail == "wrong-unitary" and block_ok.get(id(spec)):
            chk.spec_drift("get_uprep_uselect: USelect differs from the model's index convention but the block encoding "
                           "Uprep^+ USelect Uprep = -H/alpha holds (%s)" % (spec,))
            continue
        s = stats.setdefault(fn + ":" + label, {"ok": 0, "bad": 0, "exception": 0, "offgrid": 0})
        s[status] += 1
        if status == "offgrid":
            chk.inconclusive += 1
        elif status == "ok":
            if "job" in e:
                chk.add_traces(1, fn)
        elif status == "exception":
            chk.violation("%s:exception:%s" % (fn, spec.get("class", "valid-input")), detail, {"fn": fn, "spec": spec})
        elif not ctrl_list(spec.get("control")) and fn != "clock" and (
                detail == "wrong-global-phase" or e.get("verdict") == "wrong-global-phase"
                or (detail == "wrong-phase" and e.get("job", {}).get("kind") in ("select", "adder", "quad", "psq"))):
            # without a control qubit a global phase is unobservable: the property does not constrain it
            s["ok"] += 1
            s["bad"] -= 1
            s["global_phase_waived_uncontrolled"] = s.get("global_phase_waived_uncontrolled", 0) + 1
            if "job" in e:
                chk.add_traces(1, fn)
        else:
            cc = "controlled" if ctrl_list(spec.get("control")) else "uncontrolled"
            chk.violation("%s:%s:%s:%s" % (fn, cc, detail if "job" in e else e.get("verdict", "numeric"), label), detail, {"fn": fn, "spec": spec})
    return stats



# ------------------------------------------------------------------------------------------------------------------
# S runs, clock behaviours (G), multi-product coefficients
# ------------------------------------------------------------------------------------------------------------------
def s_models(chk):
    q = chk.quick
    cfg = ("CONSTANTS M = %d\nMaxTerms = %d\nMaxW = %d\nMaxK = %d\nMaxR = %d\nINIT SInit\nNEXT SNext\nINVARIANT SelExact\n"
           "INVARIANT XsqExact\nINVARIANT AddExact\nINVARIANT MpOrder\nINVARIANT MpSigns\n" % (M, 6, 3, 8 if q else 12, 4 if q else 5))
    r = tlc.run("X07Models", cfg, "x07/s_models", workers=4 if q else 8, timeout=7200, must_succeed=False)
    if not r.ok:
        raise tlc.TLCError("X07Models: an algorithm model disagrees with its definition: %s\n%s" % (r.violated, r.out[-2000:]))
    chk.add_tlc(r, "S_models")


def clock_machine(chk, rng):
    """S: model-check the clock loop; G: replay every complete behaviour (T, c0) on the real generator (dense evaluation of
    the recorded circuit; the ORDER of the applied steps and the final clock value come from TLC)."""
    from tangelo.toolboxes.circuits.discrete_clock import get_discrete_clock_circuit
    maxT = 4 if chk.quick else 7
    cfg = ("CONSTANTS M = %d\nMaxT = %d\nINIT Init\nNEXT Next\nINVARIANT OrderedOnce\nINVARIANT NothingElse\nINVARIANT ClosedForm\n"
           "INVARIANT ClockInRange\nINVARIANT Export\n" % (M, maxT))
    r = tlc.run("X07Clock", cfg, "x07/s_clock", workers=1, coverage=True, must_succeed=False)
    if not r.ok:
        raise tlc.TLCError("X07Clock: %s\n%s" % (r.violated, r.out[-2000:]))
    chk.add_tlc(r, "S_clock")
    cov = r.coverage_counts()
    chk.part("S_clock", actions={k: v[1] for k, v in cov.items()})
    for a in ("Select", "Incr", "Final"):
        if cov.get(a, (0, 0))[1] == 0:
            raise tlc.TLCError("vacuity: action %s of X07Clock never taken" % a)
    behs = r.prints("CLK")
    alphabet = [("RX", 2), ("RZ", 2), ("RX", -6), ("RZ", 6), ("H", 0), ("PHASE", 3), ("RY", 2), ("Y", 0)]
    circs = {}
    n_ok = 0
    for b in sorted(behs, key=lambda x: (x["T"], x["c0"])):
        T, c0 = b["T"], b["c0"]
        if T not in circs:
            steps = [[[nm, 0, k]] for nm, k in (rng.sample(alphabet, T) if T <= len(alphabet) else [rng.choice(alphabet) for _ in range(T)])]
            try:
                circs[T] = (steps, get_discrete_clock_circuit(scripted_trotter(steps, 1.0 / T), {}, 1, 1.0, T, 1))
            except Exception as e:
                circs[T] = (steps, None)
                chk.violation("clock:exception:n_time_steps=%d" % T, "%s: %s" % (type(e).__name__, e), {"fn": "clock_beh", "spec": {"T": T, "c0": c0, "steps": steps}})
        steps, circ = circs[T]
        if circ is None:
            continue
        err = clock_behaviour_error(circ, steps, T, c0, list(b["applied"]), b["c"])
        chk.add_traces(1, "clock_behaviours")
        n_ok += 1
        if err > 1e-9:
            chk.violation("clock:behaviour:%s" % ("c0=0" if c0 == 0 else "c0-nonzero"), "clock circuit started at clock=%d: final state differs from "
                          "(steps %s in this order, clock=%d) by %.3g" % (c0, b["applied"], b["c"], err),
                          {"fn": "clock_beh", "spec": {"T": T, "c0": c0, "steps": steps, "applied": list(b["applied"]), "c": b["c"]}})
    chk.part("G_clock", behaviours=len(behs), replayed=n_ok)


def clock_behaviour_error(circ, steps, T, c0, applied, cfin):
    from tangelo.linq import Gate
    nb = math.ceil(math.log2(T)) if T > 1 else 0
    n = max(3 + nb, circ.width)
    worst = 0.0
    for x in (0, 1):
        v = np.zeros(1 << n, dtype=complex)
        v[(x << (n - 1)) | (c0 << (n - 3 - nb))] = 1
        out = dense_run(list(circ), n, v)
        sv = np.zeros(2, dtype=complex)
        sv[x] = 1
        for i in applied:
            for nm, tq, k in steps[i]:
                sv = dense_run([Gate(nm, 0, parameter=k_to_angle(k, M)) if nm in ("RX", "RY", "RZ", "PHASE") else Gate(nm, 0)], 1, sv)
        exp = np.zeros(1 << n, dtype=complex)
        for y in (0, 1):
            exp[(y << (n - 1)) | (cfin << (n - 3 - nb))] = sv[y]
        worst = max(worst, float(np.max(np.abs(out - exp))))
    return worst


def crt_rational(residues, primes):
    """residues of one rational modulo the primes -> Fraction (Chinese remaindering + rational reconstruction):
    pure format conversion of the exact value TLC computed."""
    m, x = 1, 0
    for r, p in zip(residues, primes):
        x = x + m * (((r - x) * pow(m, -1, p)) % p)
        m *= p
    a0, a1, b0, b1 = m, x, 0, 1
    bound = math.isqrt(m // 2)
    while a1 > bound:
        q = a0 // a1
        a0, a1 = a1, a0 - q * a1
        b0, b1 = b1, b0 - q * b1
    if b1 < 0:
        a1, b1 = -a1, -b1
    return Fraction(a1, b1)


def mp_coefficients(chk):
    """get_ajs_kjs(order): the step numbers go to TLC, which returns the exact multi-product coefficients (residues) and checks
    the order conditions; the code's amplitudes, padding and sign gates are compared with them."""
    from tangelo.toolboxes.circuits.multiproduct import get_ajs_kjs, get_multi_product_circuit
    from tangelo.linq import Circuit, Gate
    jobs, recs = [], {}
    for order in range(1, 7):
        try:
            ajs, kjs, nq = get_ajs_kjs(order)
        except Exception as e:
            chk.violation("mp:exception:get_ajs_kjs", "%s: %s" % (type(e).__name__, e), {"fn": "mp_coef", "spec": {"order": order}})
            continue
        ks = [int(k) for k in kjs if k]
        jobs.append({"kind": "mp", "id": order, "ks": ks})
        recs[order] = (list(map(float, ajs)), list(kjs), nq, ks)
    verdicts, results = tlc.judge("X07Trace", jobs, "x07/mp", {"M": M}, max_parallel=2)
    exact = {}
    for r in results:
        chk.add_tlc(r)
        for rec in r.prints("MP"):
            exact[rec["id"]] = rec
    coefs = {}
    for order, (ajs, kjs, nq, ks) in recs.items():
        case = {"fn": "mp_coef", "spec": {"order": order}}
        chk.add_traces(1, "mp_coefficients")
        if verdicts[order] != "ok" or order not in exact:
            chk.violation("mp:steps:%s" % verdicts[order], "get_ajs_kjs(%d): step numbers %s: %s" % (order, ks, verdicts[order]), case)
            continue
        rec = exact[order]
        a = [crt_rational([rec["res"][q][j] for q in range(len(rec["primes"]))], rec["primes"]) for j in range(len(ks))]
        # the residues are of the SIGNED coefficient: a positive rational reconstruction bound is symmetric, sign from TLC too
        for j, aj in enumerate(a):
            if (aj > 0) != (rec["sign"][j] > 0):
                raise tlc.TLCError("rational reconstruction disagrees with the sign TLC computed (order %d)" % order)
        coefs[order] = (ks, a)
        vlen = 1 << nq
        one_norm = sum(abs(x) for x in a)
        pad = (2 - one_norm) / 2
        tgt = [pad, pad] + [Fraction(0)] * (vlen - 2 - order) + [abs(x) for x in a]
        ok_struct = len(ajs) == vlen and len(kjs) == vlen and nq == math.ceil(math.log2(order + 2)) and [k for k in kjs[:vlen - order]] == [0] * (vlen - order) \
            and len(ks) == order and pad >= 0
        if not ok_struct:
            chk.violation("mp:layout", "get_ajs_kjs(%d): layout of amplitudes / steps %s %s, 1-norm %s" % (order, ajs, kjs, float(one_norm)), case)
            continue
        err = max(abs(ajs[i] ** 2 * 2 - float(tgt[i])) for i in range(vlen))
        if err > 1e-12:
            chk.violation("mp:coefficients", "get_ajs_kjs(%d): amplitudes^2 * 2 = %s differ from the exact |a_j| (and padding) %s by %.3g"
                          % (order, [round(x * x * 2, 9) for x in ajs], [str(x) for x in tgt], err), case)
        # sign bookkeeping in the circuit: a marker step records (pattern, n_trotter_steps); negative a_j need the -1 gate
        log = []

        def marker(control, n_trotter_steps, **kw):
            log.append(n_trotter_steps)
            return Circuit([Gate("CPHASE", 0, control=control, parameter=TWO_PI * n_trotter_steps / 64)])
        circ = get_multi_product_circuit(1.0, order, 1, second_order_trotter=marker, trotter_kwargs={})
        got = mp_select_table(list(circ), order, nq)
        want = {(vlen - order + j): (ks[j], 1 if a[j] > 0 else -1) for j in range(order)}
        want[0] = (0, -1)
        for ii in range(1, vlen - order):
            want[ii] = (0, 1)
        if got != want:
            chk.violation("mp:select-bookkeeping", "get_multi_product_circuit(order=%d): index -> (steps, sign) is %s, exact coefficients need %s"
                          % (order, got, want), case)
    chk.part("mp_coefficients", orders=sorted(coefs), exact={o: [str(x) for x in coefs[o][1]] for o in coefs})
    return coefs


def mp_select_table(gates, order, nq):
    """index pattern -> (steps applied, sign) read off the FIRST select block of the multi-product circuit (system qubit 0,
    index qubits 1..nq, most significant first): dense evaluation of the gates between the two state preparations."""
    # the select block is diagonal here (marker CPHASE, CRZ(2 pi), X ladders); state preparation gates are RY / CNOT.
    sel, started = [], False
    for g in gates:
        if g.name in ("RY", "CNOT") and not started:
            continue
        if g.name in ("RY", "CNOT") and started:
            break
        started = True
        sel.append(g)
    n = 1 + nq
    table = {}
    for ii in range(1 << nq):
        v = np.zeros(1 << n, dtype=complex)
        v[(1 << nq) | ii] = 1                       # system qubit = 1 (the marker phase acts on |1>), index register = ii
        o = dense_run(sel, n, v)
        z = o[(1 << nq) | ii]
        ang = math.atan2(z.imag, z.real) % TWO_PI
        st = ang * 64 / TWO_PI
        # sign -1 adds pi (= 32 units); steps < 32
        k = int(round(st)) % 64
        table[ii] = (k - 32, -1) if k >= 32 else (k, 1)
    return table


def mp_numeric(chk, coefs, rng):
    """NUMERIC TAIL: get_multi_product_circuit for orders >= 2: block = -/+ (3/2 A - 1/2 A A^+ A) with
    A = sum_j a_j S2(t/k_j)^k_j, a_j exact (from TLC), S2 a scripted second-order step (dense evaluation)."""
    from tangelo.toolboxes.circuits.multiproduct import get_multi_product_circuit
    from tangelo.toolboxes.ansatz_generator.ansatz_utils import trotterize
    from tangelo.toolboxes.operators import QubitOperator
    worst, ncase = 0.0, 0
    for order in ([2, 3] if chk.quick else [2, 3, 4, 5, 6]):
        if order not in coefs:
            continue
        ks, a = coefs[order]
        nq = math.ceil(math.log2(order + 2))
        for control in (None, 1 + nq):
            t = rng.choice([0.7, -1.1])
            op = QubitOperator("X0", 0.9) + QubitOperator("Z0", -0.6)
            cl = ctrl_list(control)
            n = 1 + nq + len(cl)
            circ = get_multi_product_circuit(t, order, 1, operator=op, control=control)
            A = np.zeros((2, 2), dtype=complex)
            for kj, aj in zip(ks, a):
                U = np.zeros((2, 2), dtype=complex)
                s2 = list(trotterize(op, time=t, n_trotter_steps=kj, trotter_order=2))
                for x in (0, 1):
                    v = np.zeros(2, dtype=complex)
                    v[x] = 1
                    U[:, x] = dense_run(s2, 1, v)
                A = A + float(aj) * U
            E = 1.5 * A - 0.5 * A @ A.conj().T @ A
            B, _ = dense_block(list(circ), n, 1, list(range(1, 1 + nq)), cl)
            err, vd = mat_verdict(B, E)
            ncase += 1
            if vd == "wrong-global-phase" and not cl:
                err = 0.0
            worst = max(worst, err)
            if err > 1e-9:
                chk.violation("mp:%s:%s:numeric-block" % ("controlled" if cl else "uncontrolled", vd), "NUMERIC TAIL: get_multi_product_circuit(order=%d, "
                              "t=%g): block differs from OAA(sum_j a_j S2(t/k_j)^k_j) by %.3g" % (order, t, err),
                              {"fn": "mp_numeric", "spec": {"order": order, "t": t, "control": control}})
            if cl:
                B0, _ = dense_block(list(circ), n, 1, list(range(1, 1 + nq)), [])
                if float(np.max(np.abs(B0 - np.eye(2)))) > 1e-9:
                    chk.violation("mp:controlled:acts-when-control-off", "NUMERIC TAIL: multi-product circuit acts with its control off (order %d)" % order,
                                  {"fn": "mp_numeric", "spec": {"order": order, "t": t, "control": control}})
    chk.part("numeric_tail_multiproduct_NOT_model_checked", cases=ncase, worst_error=worst,
             oracle="dense numpy evaluation of the recorded circuit vs OAA of sum_j a_j S2^k_j with TLC's exact a_j; tolerance 1e-9")


def dense_unitary(gates, n):
    U = np.zeros((1 << n, 1 << n), dtype=complex)
    for x in range(1 << n):
        v = np.zeros(1 << n, dtype=complex)
        v[x] = 1
        U[:, x] = dense_run(gates, n, v)
    return U


def givens_tail(chk, rng):
    """NUMERIC TAIL: (a) bogoliubov_transform(W): the Givens network G is the single-particle basis change
    G^+ n_k G = sum_pq W[k,p] conj(W[k,q]) a_p^+ a_q for every unitary W (real, complex, permutation-like);
    (b) get_orbital_rotations(molecule): sum_r G_r^+ D_r G_r = JW(H) as an operator identity."""
    from scipy.stats import unitary_group
    from openfermion import FermionOperator as FO, get_sparse_operator
    from tangelo.toolboxes.circuits.diagonal_coulomb import bogoliubov_transform, get_orbital_rotations
    worst, ncase = 0.0, 0
    for n in ((2, 3) if chk.quick else (2, 3, 4, 5)):
        for kind in ("complex", "real", "perm-phase", "identity"):
            sd = rng.randrange(10 ** 6)
            if kind == "complex":
                W = unitary_group.rvs(n, random_state=sd)
            elif kind == "real":
                W = np.linalg.qr(np.random.RandomState(sd).randn(n, n))[0].astype(complex)
            elif kind == "perm-phase":
                perm = list(range(n))
                random.Random(sd).shuffle(perm)
                W = np.zeros((n, n), dtype=complex)
                for a, b in enumerate(perm):
                    W[a, b] = np.exp(1j * (0.3 + a))
            else:
                W = np.eye(n, dtype=complex)
            case = {"fn": "givens", "spec": {"n": n, "kind": kind, "seed": sd}}
            try:
                G = dense_unitary(bogoliubov_transform(W.copy()), n)
            except Exception as e:
                chk.violation("givens:exception:%s" % kind, "%s: %s" % (type(e).__name__, e), case)
                continue
            err = 0.0
            for k in range(n):
                nk = get_sparse_operator(FO(((k, 1), (k, 0))), n_qubits=n).toarray()
                op = FO()
                for p_ in range(n):
                    for q_ in range(n):
                        op += FO(((p_, 1), (q_, 0)), W[k, p_] * np.conj(W[k, q_]))
                err = max(err, float(np.max(np.abs(G.conj().T @ nk @ G - get_sparse_operator(op, n_qubits=n).toarray()))))
            ncase += 1
            worst = max(worst, err)
            if err > 1e-8:
                chk.violation("givens:basis-change:%s" % kind, "NUMERIC TAIL: bogoliubov_transform(W) (%d modes, %s W): G^+ n_k G differs from the "
                              "rotated number operator by %.3g" % (n, kind, err), case)
    mols = []
    if not chk.quick:       # importing the molecule library runs pyscf for every library molecule (~30 s): thorough tier only
        from tangelo.molecule_library import mol_H2_sto3g, mol_H4_sto3g
        mols = [("H2", mol_H2_sto3g), ("H4", mol_H4_sto3g)]
    from tangelo.toolboxes.qubit_mappings.mapping_transform import fermion_to_qubit_mapping
    for name, mol in mols:
        case = {"fn": "givens_mol", "spec": {"molecule": name}}
        nq = mol.n_active_sos
        rots = get_orbital_rotations(mol)
        Hq = fermion_to_qubit_mapping(mol.fermionic_hamiltonian, "JW", up_then_down=False)
        H = op_matrix(Hq, nq)
        S = np.zeros_like(H)
        for r in range(rots.n_rotations):
            G = dense_unitary(list(rots.rotation_gates[r]), nq)
            S = S + G.conj().T @ op_matrix(rots.qubit_operators[r], nq) @ G
        err = float(np.max(np.abs(S - H)))
        ncase += 1
        worst = max(worst, err)
        if err > 1e-7:
            chk.violation("givens:hamiltonian-identity:%s" % name, "NUMERIC TAIL: sum_r G_r^+ D_r G_r differs from JW(H) of %s by %.3g" % (name, err), case)
    chk.part("numeric_tail_givens_NOT_model_checked", cases=ncase, worst_error=worst,
             oracle="dense numpy evaluation of the Givens network vs openfermion sparse operators; tolerance 1e-8")


def negative_controls(jobs):
    """Corrupt one recorded / claimed field per job kind: the trace spec must reject."""
    ctl = []
    seen = set()
    for j in jobs:
        key = (j["kind"], len(j.get("ctrl", [])) > 0)
        if key in seen:
            continue
        c = copy.deepcopy(j)
        c["id"] = 10 ** 6 + len(ctl)
        if j["kind"] == "select":
            st = [s for s in c["stages"] if len(s["terms"]) >= 2]
            if not st:
                st = c["stages"]
                st[0]["terms"][0]["ph"] = (st[0]["terms"][0]["ph"] + M // 4) % M
            else:
                st[0]["terms"][0], st[0]["terms"][1] = st[0]["terms"][1], st[0]["terms"][0]     # index swap
                if st[0]["terms"][0] == st[0]["terms"][1]:
                    continue
        elif j["kind"] == "block":
            nz = [t for t in c["op"] if any(t["c"]["c"])]
            if not nz:
                continue
            nz[0]["c"]["c"] = [-a for a in nz[0]["c"]["c"]]                                     # sign of one coefficient
        elif j["kind"] == "quad":
            c["C"] += 1 if c["R"] % 2 == 0 else 4
        elif j["kind"] == "psq":
            c["C"] += 1
        elif j["kind"] == "adder":
            c["t"] += 1
        elif j["kind"] == "clock":
            if c["T"] < 2:
                continue
            c["steps"][0], c["steps"][1] = c["steps"][1], c["steps"][0]                         # order of two steps
            if c["steps"][0] == c["steps"][1]:
                continue
        else:
            continue
        seen.add(key)
        ctl.append(c)
        # second control: drop the last recorded gate that is not an X
        c2 = copy.deepcopy(j)
        c2["id"] = 10 ** 6 + len(ctl)
        idx = [i for i, g in enumerate(c2["gates"]) if g["name"] not in ("X",) and not (g["name"] in ("CPHASE", "PHASE", "CRZ") and g["k"] % M == 0)]
        if idx and j["kind"] in ("select", "quad", "adder"):
            del c2["gates"][idx[-1]]
            ctl.append(c2)
    return ctl


def run(chk):
    rng = random.Random(chk.seed)
    s_models(chk)
    clock_machine(chk, random.Random(chk.seed + 1))
    coefs = mp_coefficients(chk)
    mp_numeric(chk, coefs, random.Random(chk.seed + 2))
    givens_tail(chk, random.Random(chk.seed + 3))
    cases = lcu_cases(chk, rng) + other_cases(chk, rng)
    rows, jobs, verdicts, results = evaluate(chk, cases, "x07/v")
    for r in results:
        chk.add_tlc(r)
    stats = report(chk, rows)
    chk.part("V_cases", **stats)
    ctl = negative_controls(jobs)
    cv, cres = tlc.judge("X07Trace", ctl, "x07/neg", {"M": M}, max_parallel=4)
    bad = [c["id"] for c in ctl if cv[c["id"]] == "ok"]
    chk.part("negative_controls", corrupted=len(ctl), rejected=len(ctl) - len(bad), kinds=sorted({c["kind"] for c in ctl}))
    if bad:
        raise tlc.TLCError("binding failure: corrupted records accepted: %s" % bad)


def replay(chk, rec):
    """Re-execute the recorded case against the real code (VERIF_REPO or /repo)."""
    case = rec["case"]
    c2 = check.Check(PID, ["quick"])
    c2.known = []
    fn, spec = case["fn"], case["spec"]
    if fn in ("mp_coef", "mp_numeric"):
        coefs = mp_coefficients(c2)
        mp_numeric(c2, coefs, random.Random(2))
        for k, d, _ in c2.violations:
            print("  %s  %s" % (k, d[:300]))
        return not c2.violations
    if fn in ("givens", "givens_mol"):
        givens_tail(c2, random.Random(chk.seed + 3))
        for k, d, _ in c2.violations:
            print("  %s  %s" % (k, d[:300]))
        return not c2.violations
    if fn == "clock_beh":
        from tangelo.toolboxes.circuits.discrete_clock import get_discrete_clock_circuit
        T = spec["T"]
        try:
            circ = get_discrete_clock_circuit(scripted_trotter(spec["steps"], 1.0 / T), {}, 1, 1.0, T, 1)
        except Exception as e:
            print("  exception: %s: %s" % (type(e).__name__, e))
            return False
        err = clock_behaviour_error(circ, spec["steps"], T, spec["c0"], spec["applied"], spec["c"])
        print("  clock behaviour T=%d c0=%d applied=%s: error %.3g" % (T, spec["c0"], spec["applied"], err))
        return err <= 1e-9
    rows, _, _, _ = evaluate(c2, [(fn, spec)], "x07/replay")
    okall = True
    for fn, spec, label, status, detail, e in rows:
        waived = (not ctrl_list(spec.get("control"))) and fn != "clock" and (detail in ("wrong-global-phase", "wrong-phase") or e.get("verdict") == "wrong-global-phase")
        print("  %s:%s -> %s %s%s" % (fn, label, status, detail if status != "ok" else "", " (global phase, uncontrolled: waived)" if status == "bad" and waived else ""))
        if status in ("bad", "exception") and not waived:
            okall = False
    return okall


if __name__ == "__main__":
    check.main(PID, run, replay)
