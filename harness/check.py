"""Common plumbing of the per-property checks: tiers, seeds, verdict lines, known findings, evidence.

Contract (MANIFEST): exit 0 = property held on everything explored; exit 1 + "VIOLATION property=<id>
replay=<path>" = a violation that known_findings.json does not list; exit 2 = machinery failure.
"""
import json
import os
import sys
import time
import traceback

VERIF = os.path.dirname(os.path.dirname(os.path.abspath(__file__)))
# The implementation under test is /repo's working tree.  VERIF_REPO redirects to a scratch copy (development aid
# for mutation experiments only; the registered commands never set it).
REPO = os.environ.get("VERIF_REPO", "/repo")
for p in (REPO, os.path.join(VERIF, "harness")):
    if p not in sys.path:
        sys.path.insert(0, p)
os.environ.setdefault("PYTHONHASHSEED", "0")


def load_known():
    """known_findings.json plus the per-property fragments known_findings.d/*.json (same format)."""
    import glob
    out = []
    for p in [os.path.join(VERIF, "known_findings.json")] + sorted(glob.glob(os.path.join(VERIF, "known_findings.d", "*.json"))):
        if os.path.exists(p):
            with open(p) as f:
                out += json.load(f).get("findings", [])
    return out


class Check:
    def __init__(self, pid, argv=None):
        argv = sys.argv[1:] if argv is None else argv
        self.pid = pid
        self.replay_path = None
        self.tier = os.environ.get("VERIF_TIER", "quick")
        if argv and argv[0] in ("quick", "thorough"):
            self.tier = argv[0]
        if "--replay" in argv:
            self.replay_path = argv[argv.index("--replay") + 1]
        try:
            self.seed = int(os.environ.get("VERIF_SEED", "0"))
        except ValueError:
            self.seed = 0
        self.t0 = time.time()
        self.violations = []       # (key, detail, replay_path)
        self.known_hits = {}       # key -> count
        self.known = [k for k in load_known() if k.get("property") == pid]
        self.inconclusive = 0
        self.drift = []
        self.cov = {"states": 0, "transitions": 0, "traces_validated_against_impl": 0, "samples": [],
                    "evaluations": 0, "distinct_nontrivial": 0, "rule": "", "parts": {}}
        self.assumptions = []
        self.notes = []
        os.makedirs(os.path.join(VERIF, ".work", "replay"), exist_ok=True)
        os.makedirs(os.path.join(VERIF, "evidence"), exist_ok=True)

    @property
    def quick(self):
        return self.tier == "quick"

    # ---- coverage accounting ------------------------------------------------------------------
    def add_tlc(self, res, part=None):
        """Account a TLC run (model-checking or generation)."""
        self.cov["states"] += res.distinct
        self.cov["transitions"] += res.generated
        if part:
            self.cov["parts"].setdefault(part, {}).update(
                {"tlc_states": res.distinct, "tlc_transitions": res.generated, "tlc_wall_s": round(res.wall, 1)})

    def add_traces(self, n, part=None):
        self.cov["traces_validated_against_impl"] += n
        if part:
            d = self.cov["parts"].setdefault(part, {})
            d["traces"] = d.get("traces", 0) + n

    def add_eval(self, n, nontrivial=None):
        self.cov["evaluations"] += n
        self.cov["distinct_nontrivial"] += n if nontrivial is None else nontrivial

    def sample(self, obj):
        if len(self.cov["samples"]) < 6:
            self.cov["samples"].append(obj)

    def part(self, name, **kw):
        self.cov["parts"].setdefault(name, {}).update(kw)

    # ---- verdicts ------------------------------------------------------------------------------
    def match_known(self, key):
        for k in self.known:
            kk = k["key"]
            if key == kk or key.startswith(kk + ":") or (kk.endswith("*") and key.startswith(kk[:-1])):
                return k
        return None

    def violation(self, key, detail, case):
        """Report one failing sample. key identifies the failing input class / call site."""
        k = self.match_known(key)
        if k is not None:
            self.known_hits.setdefault(k["key"], [0, k.get("what", "")])[0] += 1
            return
        n = len(self.violations)
        path = os.path.join(VERIF, ".work", "replay", "%s_%03d.json" % (self.pid, n))
        if n < 50:
            with open(path, "w") as f:
                json.dump({"property": self.pid, "key": key, "detail": detail, "case": case}, f, indent=1, default=str)
        self.violations.append((key, detail, path))

    def spec_drift(self, what):
        if len(self.drift) < 20:
            self.drift.append(what)

    # ---- end -------------------------------------------------------------------------------------
    def finish(self, level="model_checking"):
        wall = time.time() - self.t0
        for key, (cnt, what) in sorted(self.known_hits.items()):
            print("KNOWN-FINDING: property=%s %s (%d failing samples; key=%s)" % (self.pid, what, cnt, key))
        for d in self.drift:
            print("SPEC-DRIFT: property=%s %s" % (self.pid, d))
        seen = set()
        for key, detail, path in self.violations:
            if key in seen:
                continue
            seen.add(key)
            print("VIOLATION property=%s replay=%s" % (self.pid, path))
            print("  key=%s  %s" % (key, str(detail)[:600]))
        cov = dict(self.cov)
        cov["inconclusive_samples"] = self.inconclusive
        cov["known_finding_hits"] = {k: v[0] for k, v in self.known_hits.items()}
        cov["spec_drift"] = self.drift
        if not cov["samples"]:
            cov["samples"] = ["(none recorded)"]
        if cov["states"] == 0:
            cov.pop("states"), cov.pop("transitions"), cov.pop("traces_validated_against_impl")
        if cov["evaluations"] == 0:
            cov["evaluations"] = max(1, cov.get("traces_validated_against_impl", 0))
            cov["distinct_nontrivial"] = max(cov["distinct_nontrivial"], min(2, cov["evaluations"]))
        ev = {"property_id": self.pid, "tier": self.tier, "seed": self.seed, "level": level,
              "coverage": cov, "assumptions": self.assumptions, "wall_s": round(wall, 2),
              "violations": len(seen)}
        evdir = os.path.join(VERIF, "evidence") if REPO == "/repo" else os.path.join(VERIF, ".work", "mutant_evidence")
        os.makedirs(evdir, exist_ok=True)
        with open(os.path.join(evdir, self.pid + ".json"), "w") as f:
            json.dump(ev, f, indent=1, default=str)
        print("%s %s: %s  (%.1fs; states=%s transitions=%s traces=%s; known=%d inconclusive=%d)" % (
            self.pid, self.tier, "FAIL" if seen else "ok", wall, cov.get("states"), cov.get("transitions"),
            cov.get("traces_validated_against_impl"), len(self.known_hits), self.inconclusive))
        sys.exit(1 if seen else 0)


def main(pid, run, replay=None):
    """run(chk) performs the check; replay(chk, case) re-executes one recorded failing case."""
    chk = Check(pid)
    try:
        if chk.replay_path:
            with open(chk.replay_path) as f:
                rec = json.load(f)
            if replay is None:
                print("no replay function; recorded case:\n" + json.dumps(rec, indent=1)[:4000])
                sys.exit(0)
            ok = replay(chk, rec)
            print("replay: %s" % ("property holds on this case" if ok else "VIOLATION reproduced"))
            sys.exit(0 if ok else 1)
        run(chk)
        chk.finish()
    except SystemExit:
        raise
    except Exception:
        traceback.print_exc()
        print("MACHINERY-FAILURE property=%s (exit 2; this is not a verdict)" % pid)
        sys.exit(2)
