#!/bin/bash
# Confirm a seeded change produced by an independent agent and measure detection.
# usage: confirm_seed.sh <src_dir with patch.diff demo.py meta.json> <seed_id> <check ...>      e.g. confirm_seed.sh /tmp/mut/out_c01/1 C01_1 c01
# Steps: (1) demo passes on a clean copy of /repo's package, (2) patch applies, demo fails, (3) the tests of the touched packages pass
# with the patch (skipped with NOTESTS=1), (4) each named check is run against the patched copy (VERIF_REPO), verdict recorded.
set -u
src=$(readlink -f "$1"); sid=$2; shift 2
d=/tmp/verif_seed/$sid; rm -rf $d; mkdir -p $d
cp -r /repo/tangelo $d/tangelo; cp /repo/setup.py $d/ 2>/dev/null
out=/verif/seeded/$sid; mkdir -p $out
log=$out/confirm.log; : > $log
cd $d
echo "== demo on clean copy" >> $log
PYTHONPATH=$d /venv/bin/python $src/demo.py >> $log 2>&1; rc_clean=$?
( patch -p1 -s < $src/patch.diff ) >> $log 2>&1 || { echo "PATCH FAILED" | tee -a $log; rm -rf $d; exit 3; }
echo "== demo on patched copy" >> $log
PYTHONPATH=$d /venv/bin/python $src/demo.py >> $log 2>&1; rc_pat=$?
tests_rc=skipped; tests_cmd=""
if [ "${NOTESTS:-0}" != "1" ]; then
  tdirs=$(grep '^+++ b/' $src/patch.diff | sed 's#^+++ b/##' | xargs -n1 dirname | sort -u | while read p; do q=$p; while [ "$q" != "." ] && [ "$q" != "/" ]; do if [ -d $d/$q/tests ]; then echo $q/tests; break; fi; q=$(dirname $q); done; done | sort -u | tr '\n' ' ')
  if [ -n "$tdirs" ]; then
    tests_cmd="pytest -q -p no:cacheprovider $tdirs"
    echo "== $tests_cmd" >> $log
    ( cd $d && timeout 5400 /venv/bin/python -m pytest -q -rf -p no:cacheprovider $tdirs 2>&1 | grep "^FAILED\|^ERROR\| passed\| failed" ) > $out/tests.log 2>&1
    cat $out/tests.log >> $log
    tests_rc=$(/venv/bin/python - $out/tests.log <<'PY'
import json, re, sys
af = set(json.load(open('/root/.vp/BASELINE.json'))['always_fail'])
new = []
for l in open(sys.argv[1]):
    m = re.match(r'^(FAILED|ERROR) (\S+?)\.py::(\S+?)::(\S+)', l)
    if m:
        name = m.group(2).replace('/', '.') + '.' + m.group(3) + '::' + m.group(4).split(' ')[0]
        if name not in af:
            new.append(name)
    elif re.match(r'^(FAILED|ERROR) ', l):
        new.append(l.strip())
print('pass' if not new else 'NEW_FAILURES:' + ','.join(new)[:300])
PY
)
  fi
fi
det=""
for chk in "$@"; do
  echo "== check $chk quick against patched copy" >> $log
  VERIF_REPO=$d /venv/bin/python /verif/checks/$chk.py quick > $out/check_$chk.log 2>&1; rc=$?
  grep "VIOLATION\|key=\|MACHINERY" $out/check_$chk.log | head -6 >> $log
  det="$det $chk:rc=$rc"
done
cp $src/patch.diff $src/demo.py $out/ ; cp $src/meta.json $out/meta_agent.json
echo "demo_clean_rc=$rc_clean demo_patched_rc=$rc_pat tests=$tests_rc [$tests_cmd] detection:$det" | tee -a $log
rm -rf $d
