"""Codecs between Tangelo objects and the JSON records exchanged with the TLA+ modules."""
import math
import sys

import os
_REPO = os.environ.get("VERIF_REPO", "/repo")
if _REPO not in sys.path:
    sys.path.insert(0, _REPO)

from ring import angle_to_k, k_to_angle, gauss_dyadic, to_complex  # noqa: E402

PARAM_GATES = {"RX", "RY", "RZ", "PHASE", "CRX", "CRY", "CRZ", "CPHASE", "XX"}
ROT_GATES = {"RX", "RY", "RZ", "CRX", "CRY", "CRZ", "XX"}      # half-angle gates: k must be even
LETTER = {"I": 0, "X": 1, "Y": 2, "Z": 3}
LETTER_INV = "IXYZ"


class OffGrid(Exception):
    """The implementation produced a value outside the exact carrier (sample is inconclusive)."""


def gate_to_json(g, M, tol=1e-9):
    """Tangelo Gate -> {"name","t","c","k"}; raises OffGrid when the angle is not a multiple of 2pi/M
    (or an odd multiple for half-angle gates)."""
    name = g.name
    k = 0
    if name in PARAM_GATES:
        p = g.parameter
        if isinstance(p, str) or p == "":
            raise OffGrid("non numeric parameter %r" % (p,))
        k = angle_to_k(float(p), M, tol)
        if k is None:
            raise OffGrid("angle %r off the 2pi/%d grid" % (p, M))
        if name in ROT_GATES and k % 2:
            raise OffGrid("half angle of %r off the grid" % (p,))
    elif name in ("MEASURE", "CMEASURE"):
        k = 0
    return {"name": name, "t": [int(x) for x in g.target],
            "c": [int(x) for x in (g.control or [])], "k": k}


def gates_to_json(gates, M, tol=1e-9):
    return [gate_to_json(g, M, tol) for g in gates]


def json_to_gate(j, M, variational=False):
    from tangelo.linq import Gate
    name = j["name"]
    ctrl = list(j["c"]) if j.get("c") else None
    if name in PARAM_GATES:
        return Gate(name, list(j["t"]), ctrl, parameter=k_to_angle(j["k"], M), is_variational=variational)
    return Gate(name, list(j["t"]), ctrl)


def json_to_gates(js, M):
    return [json_to_gate(j, M) for j in js]


def qubit_op_to_json(op, n, M=8, tol=1e-12):
    """QubitOperator -> list of {"w": [letter codes, length n], "c": ring element over R_M}.
    Coefficients must be Gaussian dyadic rationals, else OffGrid."""
    terms = []
    for term, coef in op.terms.items():
        w = [0] * n
        for q, l in term:
            if q >= n:
                raise OffGrid("operator acts on qubit %d >= %d" % (q, n))
            w[q] = LETTER[l]
        c = gauss_dyadic(coef, M, tol=tol)
        if c is None:
            raise OffGrid("coefficient %r not Gaussian dyadic" % (coef,))
        if any(c["c"]):
            terms.append({"w": w, "c": c})
    return terms


def json_to_qubit_op(terms, M=8):
    from tangelo.toolboxes.operators import QubitOperator
    op = QubitOperator()
    for t in terms:
        word = tuple((q, LETTER_INV[l]) for q, l in enumerate(t["w"]) if l)
        z = to_complex(t["c"], M)
        if abs(z.imag) < 1e-15:
            z = z.real
        op += QubitOperator(word, z)
    return op


def word_to_json(term, n):
    w = [0] * n
    for q, l in term:
        w[q] = LETTER[l]
    return w
