"""Write seeded/<id>/meta.json from the agent's meta, the confirmation log and the integrator's notes.
usage: finalize_seed.py <seed_id> <property> "<detected_by / note>" """
import json, os, re, sys
VERIF = os.path.dirname(os.path.dirname(os.path.abspath(__file__)))
sid, prop, note = sys.argv[1], sys.argv[2], sys.argv[3]
d = os.path.join(VERIF, "seeded", sid)
agent = json.load(open(os.path.join(d, "meta_agent.json")))
log = open(os.path.join(d, "confirm.log")).read()
last = [l for l in log.splitlines() if l.startswith("demo_clean_rc")][-1]
m = re.match(r"demo_clean_rc=(\d+) demo_patched_rc=(\d+) tests=(\S+) \[(.*?)\] detection:(.*)", last)
old = {}
p = os.path.join(d, "meta.json")
if os.path.exists(p):
    old = json.load(open(p))
tests = m.group(3)
ov = os.environ.get("TESTS_OVERRIDE")
if tests == "skipped" and old.get("confirmed", {}).get("existing_tests") not in (None, "skipped"):
    tests, tcmd = old["confirmed"]["existing_tests"], old["confirmed"]["tests_cmd"]
elif tests == "skipped" and ov:
    tests, tcmd = ov.split("|", 1)
else:
    tcmd = m.group(4)
meta = {"seed": sid, "property": prop, "files": agent.get("files"), "what": agent.get("what"),
        "needs_to_manifest": agent.get("needs"),
        "origin": "independent sub-agent given only the property text and its own scratch worktree of /repo (nothing from /verif)",
        "agent_tests_run": agent.get("tests_run"),
        "confirmed": {"demo_exit_on_clean_tree": int(m.group(1)), "demo_exit_with_patch": int(m.group(2)),
                      "existing_tests": tests, "tests_cmd": tcmd,
                      "how": "harness/confirm_seed.sh: scratch copy of /repo's package under /tmp/verif_seed/<id> (removed afterwards), "
                             "demo.py on the clean and on the patched copy, pytest on the tests/ package(s) of the touched files "
                             "(failures compared with BASELINE always_fail), then the property's quick check with VERIF_REPO=<patched copy>"},
        "detection": {"last_run": m.group(5).strip(), "note": note}}
json.dump(meta, open(p, "w"), indent=1)
print(sid, meta["confirmed"]["existing_tests"], meta["detection"])
