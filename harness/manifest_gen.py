"""Regenerates MANIFEST.json from the table below (single source of truth for the interface)."""
import json, os
VERIF = os.path.dirname(os.path.dirname(os.path.abspath(__file__)))
ids = [json.loads(l)["id"] for l in open(os.path.join(VERIF, "properties.jsonl"))]

CHECKS = {
 "C01": dict(
    text="TLC model-checks the exact-statevector machine C01Sim.tla (ring Z[zeta_M][1/2]; unit norm, sum p = 1 in every state) over "
         "every gate x placement x control subset x grid angle; every explored transition and -simulate behaviour is replayed on cirq "
         "and (sampled) sympy and the implementation's state is compared with the spec's successor state.",
    note="Angles on the 2pi/M grid only (M=8, 16): gate entries are a*e^{i theta/2}+b*e^{-i theta/2}, fixed by 3 grid angles. "
         "Trusted: TLC, spec/Ring.tla+Gates.tla as the documented definitions, numpy float comparison at 1e-9; sampled mode is a 6-sigma band.",
    technique="TLA+ exact-ring state machine model-checked by TLC; spec->code replay of every transition (conformance)",
    design="4/C01"),
 "C06": dict(
    text="TLC model-checks the algorithm model of the Whitfield ladder against the exact operator exp(-icP) (ring arithmetic, no phase "
         "freedom) for every Pauli word, coefficient index in -M..M and control choice (C06PauliExp.tla); the gate lists actually emitted by "
         "exp_pauliword_to_gates / get_exponentiated_qubit_operator_circuit / trotterize / TrotterSuzukiUnitary are recorded and validated by "
         "TLC (C06Trace.tla): phase * U(circuit) must equal the first/second-order product of exact exponential factors.",
    note="Coefficients x time on the 2pi/8 grid. Orders >= 4 not decided (irrational Suzuki coefficients). The commutator bound is a theorem "
         "about the product formula; the check decides that the circuit IS the product formula in the operator's term order. Trusted: TLC, Ring/Gates/Pauli modules (self-checked by LibCheck.tla).",
    technique="TLC model check of the construction + TLC trace validation of emitted gate lists (exact unitaries)",
    design="4/C06"),
}

def load_fragments():
    """checks/cxx_manifest.json fragments written per property ({"text","note","technique","design"})."""
    import glob
    integrated = set(open(os.path.join(VERIF, "checks", "integrated.txt")).read().split())
    for p in sorted(glob.glob(os.path.join(VERIF, "checks", "c[0-9][0-9]_manifest.json"))):
        pid = os.path.basename(p)[:3].upper()
        if pid not in integrated:      # built but not yet reviewed / run by the integrator on the current tree
            continue
        if os.path.exists(os.path.join(VERIF, "checks", pid.lower() + ".py")) and pid not in CHECKS and pid in ids:
            d = json.load(open(p))
            CHECKS[pid] = dict(text=d["text"], note=d["note"], technique=d["technique"], design=d.get("design", "4/" + pid))


def main():
    load_fragments()
    checks = []
    for pid, c in sorted(CHECKS.items()):
        n = pid.lower()
        checks.append({
            "property_id": pid,
            "quick_cmd": "/venv/bin/python checks/%s.py quick" % n,
            "thorough_cmd": "/venv/bin/python checks/%s.py thorough" % n,
            "evidence_file": "/verif/evidence/%s.json" % pid,
            "replay_cmd_template": "/venv/bin/python checks/%s.py --replay {path}" % n,
            "engine": "tlc",
            "level_claimed": {"category": "model_checking", "text": c["text"], "design_ref": c["design"]},
            "level_note": c["note"],
            "technique": c["technique"]})
    m = {"version": 1,
         "setup_cmd": "mkdir -p /verif/.work /verif/evidence && /venv/bin/python -m compileall -q /verif/harness /verif/checks && /venv/bin/python /verif/harness/sany_all.py",
         "hooks": {"guard": "TANGELO_VERIF", "enable": "no source hooks: checks import tangelo from /repo's working tree (sys.path[0]=/repo) and observe it through its public API",
                   "baseline_off_cmd": "cd /repo && /venv/bin/python -m pytest -ra -q -p no:cacheprovider --timeout=900 --continue-on-collection-errors",
                   "source_commits": [], "add_only": True},
         "engines": [{"name": "tlc", "path": "/verif/harness/tlc.py", "serves_properties": sorted(CHECKS),
                      "kind_free_text": "TLC 1.8 on the TLA+ modules in /verif/spec (exact ring / Pauli / Fock algebra, state machines, trace specs)"}],
         "checks": checks,
         "not_applicable": [{"property_id": i, "reason": "check not built yet (framework under construction); will be claimed once its TLA+ spec and conformance harness exist"} for i in ids if i not in CHECKS]}
    json.dump(m, open(os.path.join(VERIF, "MANIFEST.json"), "w"), indent=1)

if __name__ == "__main__":
    main()
