"""mark_fixed.py <Cxx> <key-or-prefix*> <commit> : move finding(s) from known_findings.d/Cxx.json to known_findings.json 'fixed'."""
import json, os, sys
VERIF = os.path.dirname(os.path.dirname(os.path.abspath(__file__)))
pid, key, commit = sys.argv[1:4]
frag = os.path.join(VERIF, "known_findings.d", pid + ".json")
d = json.load(open(frag))
main_p = os.path.join(VERIF, "known_findings.json")
m = json.load(open(main_p))
keep, moved = [], []
for f in d["findings"]:
    hit = f["key"] == key or (key.endswith("*") and f["key"].startswith(key[:-1]))
    (moved if hit else keep).append(f)
for f in moved:
    m["fixed"].append("fixed: property=%s %s %s [key %s]" % (pid, commit, f["what"].split(" Proposed fix")[0].strip(), f["key"]))
d["findings"] = keep
json.dump(d, open(frag, "w"), indent=1)
json.dump(m, open(main_p, "w"), indent=1)
print("moved %d, kept %d" % (len(moved), len(keep)))
