"""Python side of the exact ring R_M = Z[zeta_M][1/2] used by the TLA+ modules (spec/Ring.tla).

The Python side never *decides* anything with this arithmetic: it only converts TLC's exact values to
complex floats (to compare with what the implementation returned) and converts floats produced by the
implementation (angles, dyadic coefficients) to exact grid indices, refusing (None) when the float is not on
the grid.
"""
import cmath
import math
from fractions import Fraction

TWO_PI = 2 * math.pi


def to_complex(e, M):
    """{'c': [...], 'k': k} -> complex."""
    z = 0j
    for j, a in enumerate(e["c"]):
        if a:
            z += a * cmath.exp(2j * math.pi * j / M)
    return z / (2 ** e["k"])


def vec_to_complex(v, M):
    return [to_complex(e, M) for e in v]


def angle_to_k(theta, M, tol=1e-9):
    """float angle -> integer k with theta = 2 pi k / M, or None if off-grid."""
    x = theta * M / TWO_PI
    k = round(x)
    if abs(x - k) * TWO_PI / M > tol:
        return None
    return int(k)


def k_to_angle(k, M):
    return TWO_PI * k / M


def dyadic(x, max_k=20, tol=1e-12):
    """float -> (n, k) with x = n / 2^k exactly (within tol), or None."""
    for k in range(max_k + 1):
        y = x * (1 << k)
        n = round(y)
        if abs(y - n) <= tol * (1 << k):
            return int(n), k
    return None


def gauss_dyadic(z, M, max_k=20, tol=1e-12):
    """complex with dyadic real and imaginary parts -> ring element dict over R_M (M % 4 == 0), or None."""
    z = complex(z)
    re = dyadic(z.real, max_k, tol)
    im = dyadic(z.imag, max_k, tol)
    if re is None or im is None:
        return None
    k = max(re[1], im[1])
    c = [0] * (M // 2)
    c[0] = re[0] << (k - re[1])
    c[M // 4] = im[0] << (k - im[1])
    # reduce
    while k > 0 and all(a % 2 == 0 for a in c):
        c = [a // 2 for a in c]
        k -= 1
    if all(a == 0 for a in c):
        k = 0
    return {"c": c, "k": k}


def ring_int(n, M):
    c = [0] * (M // 2)
    c[0] = int(n)
    return {"c": c, "k": 0}


def frac_to_fixed(x, scale=10 ** 8):
    """float -> integer in fixed point (for observational scalar traces)."""
    return int(round(x * scale))
