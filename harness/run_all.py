"""Run the quick (or thorough) command of every check registered in MANIFEST.json, sequentially; summarise.
usage: run_all.py [quick|thorough] [C01 C06 ...]"""
import json, os, subprocess, sys, time
VERIF = os.path.dirname(os.path.dirname(os.path.abspath(__file__)))
tier = sys.argv[1] if len(sys.argv) > 1 and sys.argv[1] in ("quick", "thorough") else "quick"
only = [a for a in sys.argv[1:] if a.startswith("C")]
m = json.load(open(os.path.join(VERIF, "MANIFEST.json")))
rows = []
for c in m["checks"]:
    if only and c["property_id"] not in only:
        continue
    cmd = c["quick_cmd"] if tier == "quick" else c.get("thorough_cmd", c["quick_cmd"])
    t0 = time.time()
    p = subprocess.run(cmd, shell=True, cwd=VERIF, stdout=subprocess.PIPE, stderr=subprocess.STDOUT, text=True)
    lines = [l for l in p.stdout.splitlines() if l.startswith(("VIOLATION", "KNOWN-FINDING", "SPEC-DRIFT", "MACHINERY"))]
    rows.append((c["property_id"], p.returncode, time.time() - t0, lines))
    print("%s rc=%d %.0fs %s" % (c["property_id"], p.returncode, time.time() - t0, "; ".join(l[:110] for l in lines[:4])), flush=True)
bad = [r for r in rows if r[1] != 0]
print("run_all %s: %d checks, %d non-zero" % (tier, len(rows), len(bad)))
sys.exit(1 if bad else 0)
