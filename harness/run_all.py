"""Run the quick (or thorough) command of every check registered in MANIFEST.json, sequentially; summarise.
usage: run_all.py [quick|thorough] [C01 C06 ... | X01 X04 ... | ext]
The extension checks (checks/x0N_*.py, not in MANIFEST.json) run only when named (Xnn) or with the word "ext"."""
import json, os, subprocess, sys, time
VERIF = os.path.dirname(os.path.dirname(os.path.abspath(__file__)))
tier = sys.argv[1] if len(sys.argv) > 1 and sys.argv[1] in ("quick", "thorough") else "quick"
import glob
only = [a for a in sys.argv[1:] if a.startswith(("C", "X"))]
m = json.load(open(os.path.join(VERIF, "MANIFEST.json")))
rows = []
ext = []
for f in sorted(glob.glob(os.path.join(VERIF, "checks", "x0*_*.py"))):
    b = os.path.basename(f)
    if not b.endswith("_driver.py") and ("ext" in sys.argv[1:] or b[:3].upper() in only):
        ext.append({"property_id": b[:3].upper(), "quick_cmd": "/venv/bin/python checks/%s quick" % b,
                    "thorough_cmd": "/venv/bin/python checks/%s thorough" % b})
if "ext" in sys.argv[1:] and not [a for a in only if a.startswith("C")]:
    m = {"checks": []}
for c in m["checks"] + ext:
    if only and c["property_id"] not in only and c not in ext:
        continue
    cmd = c["quick_cmd"] if tier == "quick" else c.get("thorough_cmd", c["quick_cmd"])
    t0 = time.time()
    p = subprocess.run(cmd, shell=True, cwd=VERIF, stdout=subprocess.PIPE, stderr=subprocess.STDOUT, text=True)
    lines = [l for l in p.stdout.splitlines() if l.startswith(("VIOLATION", "KNOWN-FINDING", "SPEC-DRIFT", "MACHINERY"))]
    rows.append((c["property_id"], p.returncode, time.time() - t0, lines))
    print("%s rc=%d %.0fs %s" % (c["property_id"], p.returncode, time.time() - t0, "; ".join(l[:110] for l in lines[:4])), flush=True)
bad = [r for r in rows if r[1] != 0]
print("run_all %s: %d checks, %d non-zero" % (tier, len(rows), len(bad)))
sys.exit(1 if bad else 0)
