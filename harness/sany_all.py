"""Parse the modules in /verif/spec with SANY (fails fast on a broken spec).
Library modules and the modules of properties claimed in MANIFEST.json must parse; modules of properties that are
not (yet) claimed are parsed too but only reported (work in progress must not break the setup of the claimed checks)."""
import glob, json, os, re, subprocess, sys
import concurrent.futures as cf
VERIF = os.path.dirname(os.path.dirname(os.path.abspath(__file__)))
claimed = {c["property_id"] for c in json.load(open(os.path.join(VERIF, "MANIFEST.json")))["checks"]}


def sany(p):
    r = subprocess.run(["java", "-DTLA-Library=" + os.path.join(VERIF, "spec"), "-cp",
                        "/opt/veriftools/tla/tla2tools.jar:/opt/veriftools/tla/CommunityModules-deps.jar", "tla2sany.SANY", p],
                       stdout=subprocess.PIPE, stderr=subprocess.STDOUT, text=True, cwd=os.path.join(VERIF, "spec"))
    ok = not (r.returncode != 0 or "Semantic error" in r.stdout or "Parse Error" in r.stdout or "*** Errors" in r.stdout
              or "Fatal errors" in r.stdout)
    return p, ok, r.stdout


files = sorted(glob.glob(os.path.join(VERIF, "spec", "*.tla")))
bad = 0
with cf.ThreadPoolExecutor(max_workers=8) as ex:
    for p, ok, out in ex.map(sany, files):
        if ok:
            continue
        m = re.match(r"(C\d\d)", os.path.basename(p))
        required = (m is None) or (m.group(1) in claimed)
        print("SANY %s: %s" % ("FAILED" if required else "failed (unclaimed property, ignored)", p))
        if required:
            print(out[-1500:])
            bad += 1
print("sany: %d modules, %d required modules failed" % (len(files), bad))
sys.exit(1 if bad else 0)
