"""Parse every module in /verif/spec with SANY (fails fast on a broken spec)."""
import glob, os, subprocess, sys
VERIF = os.path.dirname(os.path.dirname(os.path.abspath(__file__)))
bad = 0
for p in sorted(glob.glob(os.path.join(VERIF, "spec", "*.tla"))):
    r = subprocess.run(["java", "-DTLA-Library=" + os.path.join(VERIF, "spec"), "-cp",
                        "/opt/veriftools/tla/tla2tools.jar:/opt/veriftools/tla/CommunityModules-deps.jar", "tla2sany.SANY", p],
                       stdout=subprocess.PIPE, stderr=subprocess.STDOUT, text=True, cwd=os.path.join(VERIF, "spec"))
    if r.returncode != 0 or "Semantic error" in r.stdout or "Parse Error" in r.stdout or "*** Errors" in r.stdout:
        print("SANY FAILED:", p); print(r.stdout[-1500:]); bad += 1
print("sany: %d modules, %d failed" % (len(glob.glob(os.path.join(VERIF, "spec", "*.tla"))), bad))
sys.exit(1 if bad else 0)
