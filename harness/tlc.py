"""Run TLC on /verif/spec modules and parse its output.

Everything is kept under /verif/.work (never /tmp).  Exit status conventions of the callers:
a TLC crash / evaluation error is a *machinery failure* (TLCError) and is never turned into a pass.
"""
import json
import os
import re
import shutil
import subprocess
import time
import concurrent.futures as cf

VERIF = os.path.dirname(os.path.dirname(os.path.abspath(__file__)))
SPEC = os.path.join(VERIF, "spec")
WORK = os.path.join(VERIF, ".work")
if os.environ.get("VERIF_REPO"):      # mutation experiment: private scratch so that it can run next to a normal run
    WORK = os.path.join(VERIF, ".work", "mut_%d" % os.getpid())
    import atexit
    atexit.register(lambda: shutil.rmtree(WORK, ignore_errors=True))
JAR = "/opt/veriftools/tla/tla2tools.jar"
DEPS = "/opt/veriftools/tla/CommunityModules-deps.jar"


class TLCError(RuntimeError):
    pass


class TLCResult:
    def __init__(self, name, out, rc, wall):
        self.name, self.out, self.rc, self.wall = name, out, rc, wall
        m = re.search(r"(\d+) states generated, (\d+) distinct states found", out)
        self.generated = int(m.group(1)) if m else 0
        self.distinct = int(m.group(2)) if m else 0
        m = re.search(r"The depth of the complete state graph search is (\d+)", out)
        self.depth = int(m.group(1)) if m else None
        self.violated = re.findall(r"Invariant (\w+) is violated", out)
        self.violated += re.findall(r"Action property (\w+) is violated", out)
        self.violated += re.findall(r"Temporal properties were violated", out)
        self.deadlock = "Deadlock reached" in out
        self.error = None
        if rc not in (0,) and not self.violated and not self.deadlock:
            self.error = out[-3000:]
        if "Error:" in out and not self.violated and not self.deadlock and "Error: Invariant" not in out:
            # evaluation errors, parse errors, overflow ...
            self.error = out[-3000:]

    @property
    def ok(self):
        return self.error is None and not self.violated and not self.deadlock

    def prints(self, tag):
        """All PrintT(<<tag, "json">>) payloads, decoded."""
        res = []
        pat = re.compile(r'^<<"%s", (".*")>>$' % re.escape(tag))
        for line in self.out.splitlines():
            m = pat.match(line)
            if m:
                res.append(json.loads(json.loads(m.group(1))))
        return res

    def tuples(self, tag):
        """All PrintT(<<tag, a, b, ...>>) with scalar (int/string/bool) fields."""
        res = []
        pat = re.compile(r'^<<"%s"(?:, (.*))?>>$' % re.escape(tag))
        for line in self.out.splitlines():
            m = pat.match(line)
            if m:
                res.append(_parse_scalars(m.group(1) or ""))
        return res

    def coverage_counts(self):
        """action name -> (distinct, total) from -coverage 1 output (last report)."""
        res = {}
        for m in re.finditer(r"<(\w+) line \d+, col \d+ to line \d+, col \d+ of module (\w+)>: (\d+):(\d+)", self.out):
            res[m.group(1)] = (int(m.group(3)), int(m.group(4)))
        return res


def _parse_scalars(s):
    out = []
    i = 0
    n = len(s)
    while i < n:
        if s[i] in ", ":
            i += 1
            continue
        if s[i] == '"':
            j = i + 1
            while j < n and not (s[j] == '"' and s[j - 1] != "\\"):
                j += 1
            out.append(json.loads(s[i:j + 1]))
            i = j + 1
        else:
            j = i
            while j < n and s[j] != ",":
                j += 1
            tok = s[i:j].strip()
            if tok == "TRUE":
                out.append(True)
            elif tok == "FALSE":
                out.append(False)
            else:
                try:
                    out.append(int(tok))
                except ValueError:
                    out.append(tok)
            i = j
    return out


def workdir(name, clean=True):
    d = os.path.join(WORK, name)
    if clean and os.path.isdir(d):
        shutil.rmtree(d, ignore_errors=True)
    os.makedirs(d, exist_ok=True)
    return d


def run(module, cfg, name, root_text=None, workers=1, simulate=None, depth=None, seed=None,
        env=None, timeout=3600, coverage=False, deadlock_check=False, heap="4g", dfid=None,
        extra_args=None, keep=False, must_succeed=True):
    """Run TLC.

    module: module name; the file is SPEC/<module>.tla unless root_text is given, in which case
            the text is written as <workdir>/<module>.tla (it may EXTEND the library modules).
    cfg:    text of the configuration file.
    simulate: e.g. "num=200" (TLC -simulate), with depth.
    """
    d = workdir(name)
    if root_text is not None:
        path = os.path.join(d, module + ".tla")
        with open(path, "w") as f:
            f.write(root_text)
    else:
        path = os.path.join(SPEC, module + ".tla")
    cfgpath = os.path.join(d, module + ".cfg")
    with open(cfgpath, "w") as f:
        f.write(cfg)
    cmd = ["java", "-XX:+UseParallelGC", "-XX:ParallelGCThreads=2", "-Xmx" + heap, "-Xss64m", "-DTLA-Library=" + SPEC,
           "-cp", JAR + ":" + DEPS, "tlc2.TLC", "-workers", str(workers), "-noGenerateSpecTE",
           "-metadir", os.path.join(d, "md"), "-config", cfgpath]
    if not deadlock_check:
        cmd += ["-deadlock"]
    if coverage:
        cmd += ["-coverage", "1"]
    if simulate:
        cmd += ["-simulate", simulate]
    if depth:
        cmd += ["-depth", str(depth)]
    if seed is not None:
        cmd += ["-seed", str(seed)]
    if dfid:
        cmd += ["-dfid", str(dfid)]
    if extra_args:
        cmd += list(extra_args)
    cmd.append(path)
    e = dict(os.environ)
    e.pop("JAVA_TOOL_OPTIONS", None)
    if env:
        e.update({k: str(v) for k, v in env.items()})
    t0 = time.time()
    try:
        p = subprocess.run(cmd, cwd=d, env=e, stdout=subprocess.PIPE, stderr=subprocess.STDOUT,
                           timeout=timeout, text=True, errors="replace")
        out, rc = p.stdout, p.returncode
    except subprocess.TimeoutExpired as ex:
        out = (ex.stdout or b"")
        if isinstance(out, bytes):
            out = out.decode(errors="replace")
        out += "\nError: TIMEOUT after %ss" % timeout
        rc = 124
    res = TLCResult(name, out, rc, time.time() - t0)
    with open(os.path.join(d, "tlc.out"), "w") as f:
        f.write(out)
    if not keep:
        shutil.rmtree(os.path.join(d, "md"), ignore_errors=True)
    if must_succeed and res.error:
        raise TLCError("TLC failed on %s (%s):\n%s" % (module, name, res.error))
    return res


def run_many(jobs, max_parallel=16):
    """jobs: list of kwargs dicts for run(); executed in parallel JVMs. Returns results in order."""
    with cf.ThreadPoolExecutor(max_workers=max_parallel) as ex:
        futs = [ex.submit(run, **j) for j in jobs]
        return [f.result() for f in futs]


def write_json(name, fname, obj):
    d = os.path.join(WORK, name)
    os.makedirs(d, exist_ok=True)
    p = os.path.join(d, fname)
    with open(p, "w") as f:
        json.dump(obj, f, separators=(",", ":"))
    return p


def judge(module, jobs, name, consts, chunk=None, max_parallel=16, timeout=3600, heap="4g", root_text=None,
          extra_cfg=""):
    """Generic batch trace validation.

    `module` must define (see spec/JudgeBase.tla): Init/Next over the variable `i` that emit
    PrintT(<<"V", id, verdict_string>>) for every job.  jobs: list of dicts each with an integer
    field "id".  They are split in chunks, one JVM per chunk.  Returns {id: verdict_string}.
    Every job must get a verdict, otherwise TLCError.
    """
    if not jobs:
        return {}, []
    if chunk is None:
        chunk = max(1, (len(jobs) + max_parallel - 1) // max_parallel)
    chunks = [jobs[i:i + chunk] for i in range(0, len(jobs), chunk)]
    runs = []
    for ci, ch in enumerate(chunks):
        nm = "%s_%03d" % (name, ci)
        d = workdir(nm)
        p = os.path.join(d, "jobs.json")
        with open(p, "w") as f:
            json.dump(ch, f, separators=(",", ":"))
        cfg = "".join("CONSTANT %s = %s\n" % (k, v) for k, v in consts.items())
        cfg += "INIT JInit\nNEXT JNext\n" + extra_cfg
        runs.append(dict(module=module, cfg=cfg, name=nm + "/run", env={"VERIF_JOBS": p}, timeout=timeout,
                         heap=heap, root_text=root_text))
    results = run_many(runs, max_parallel=max_parallel)
    verdicts = {}
    for r in results:
        for t in r.tuples("V"):
            verdicts[t[0]] = t[1]
    missing = [j["id"] for j in jobs if j["id"] not in verdicts]
    if missing:
        raise TLCError("no verdict for jobs %s (module %s)" % (missing[:5], module))
    return verdicts, results
