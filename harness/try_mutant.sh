#!/bin/bash
# Development aid: run a check against a scratch copy of /repo with a patch applied.
# usage: try_mutant.sh <patch.diff> <cNN> [quick|thorough]   (scratch copy under /tmp/verif_mut/<pid>, removed afterwards)
set -u
patch=$(readlink -f "$1"); chk=$2; tier=${3:-quick}
d=/tmp/verif_mut/$$; mkdir -p $d
cp -r /repo/tangelo $d/tangelo
( cd $d && git init -q . 2>/dev/null; patch -p1 -s < "$patch" ) || { echo "PATCH FAILED"; rm -rf $d; exit 3; }
VERIF_REPO=$d /venv/bin/python /verif/checks/$chk.py $tier 2>&1 | grep -v "Warn\|^  \"\"\"" | grep "VIOLATION\|KNOWN\|key=\|$chk\|${chk^^}\|MACHINERY" | head -${4:-12}
rc=${PIPESTATUS[0]}
rm -rf $d
exit $rc
