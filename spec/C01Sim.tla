------------------------------ MODULE C01Sim ------------------------------
(***************************************************************************)
(* C01 - backend simulation matches the documented gate semantics.          *)
(*                                                                         *)
(* State machine: the exact statevector of an N-qubit register; one action  *)
(* per gate of the supported set (every placement, every control subset,   *)
(* every grid angle).  TLC checks the semantics itself (unit norm,           *)
(* probabilities sum to one) and, with Export = TRUE, prints every explored *)
(* transition <<source, gate, target>>; the harness replays each of them    *)
(* (and whole behaviours) on every installed backend.                        *)
(***************************************************************************)
EXTENDS Gates, TLC, Json

CONSTANTS N,          \* number of qubits
          MaxDepth,   \* behaviours of at most this many gates
          RotK,       \* set of even angle indices for RX RY RZ CRX CRY CRZ XX
          PhaseK,     \* set of angle indices for PHASE CPHASE
          MaxCtrl,    \* maximal number of controls
          MinCtrl,    \* 0: whole alphabet; c > 0: only gates with at least c controls (multi-control sweep on wider registers)
          Export      \* BOOLEAN: print transitions

\* angle-index sets offered to the configuration files (cfg files cannot write negative numbers)
RotKFull    == { 2 * j : j \in (-(M \div 2))..M }        \* -2pi .. 4pi, every even index
PhaseKFull  == (-M)..(2 * M)                             \* -2pi .. 4pi, every index
RotKSmall   == { -2, 2, 6, M + 2, 2 * M - 2 }
PhaseKSmall == { -1, 1, 3, M \div 2, M + 1 }

VARIABLES psi, last, d, hist, src

vars == <<psi, last, d, hist, src>>

Qubits == 0..(N-1)

CtrlSeqs(others) ==
  LET one   == { <<a>> : a \in others }
      two   == { <<a, b>> : a \in others, b \in others }
      three == { <<a, b, c>> : a \in others, b \in others, c \in others }
  IN  one
      \cup (IF MaxCtrl >= 2 THEN { s \in two : s[1] # s[2] } ELSE {})
      \cup (IF MaxCtrl >= 3 THEN { s \in three : s[1] < s[2] /\ s[2] < s[3] } ELSE {})

Pairs == { <<a, b>> : a \in Qubits, b \in Qubits } \ { <<a, a>> : a \in Qubits }

FullAlphabet ==
       { G(nm, <<t>>, <<>>, 0) : nm \in {"H", "X", "Y", "Z", "S", "T"}, t \in Qubits }
  \cup { G(nm, <<t>>, <<>>, k) : nm \in {"RX", "RY", "RZ"}, t \in Qubits, k \in RotK }
  \cup { G("PHASE", <<t>>, <<>>, k) : t \in Qubits, k \in PhaseK }
  \cup UNION { { G(nm, <<t>>, c, 0) : nm \in {"CNOT", "CX", "CY", "CZ", "CH"}, c \in CtrlSeqs(Qubits \ {t}) } : t \in Qubits }
  \cup UNION { { G(nm, <<t>>, c, k) : nm \in {"CRX", "CRY", "CRZ"}, c \in CtrlSeqs(Qubits \ {t}), k \in RotK } : t \in Qubits }
  \cup UNION { { G("CPHASE", <<t>>, c, k) : c \in CtrlSeqs(Qubits \ {t}), k \in PhaseK } : t \in Qubits }
  \cup { G("XX", p, <<>>, k) : p \in Pairs, k \in RotK }
  \cup { G("SWAP", p, <<>>, 0) : p \in Pairs }
  \cup UNION { { G("CSWAP", p, c, 0) : c \in CtrlSeqs(Qubits \ {p[1], p[2]}) } : p \in Pairs }

Alphabet == IF MinCtrl = 0 THEN FullAlphabet ELSE { g \in FullAlphabet : Len(g.c) >= MinCtrl }

\* A fixed entangled state with pairwise distinct non-zero amplitudes' phases: a defect that is
\* invisible on |0...0> (e.g. a wrong phase on the |1> branch, a swapped control) shows here.
GenericPrep ==
  [q \in 1..N |-> G("H", <<q-1>>, <<>>, 0)]
  \o [q \in 1..N |-> G("PHASE", <<q-1>>, <<>>, q)]
  \o [q \in 1..(N-1) |-> G("CNOT", <<q>>, <<q-1>>, 0)]
  \o [q \in 1..N |-> G("RY", <<q-1>>, <<>>, 2)]
  \o [q \in 1..N |-> G("T", <<q-1>>, <<>>, 0)]
  \o [q \in 1..N |-> G("RX", <<q-1>>, <<>>, 2 * q)]

Generic == Run(ZeroState(N), GenericPrep, N)

NoGate == G("NONE", <<>>, <<>>, 0)

Init == /\ src \in {"zero", "generic"}
        /\ psi = (IF src = "zero" THEN ZeroState(N) ELSE Generic)
        /\ last = NoGate
        /\ d = 0
        /\ hist = <<>>

Step(g) == /\ d < MaxDepth
           /\ psi' = ApplyGate(psi, g, N)
           /\ last' = g
           /\ d' = d + 1
           /\ hist' = Append(hist, g)
           /\ src' = src
           /\ (Export => PrintT(<<"TR", ToJson([n |-> N, s |-> psi, g |-> g, t |-> psi', gen |-> (hist = <<>> /\ src = "generic")])>>))

Next == \E g \in Alphabet : Step(g)

Spec == Init /\ [][Next]_vars

\* ---- properties of the semantics (checked by TLC in every reachable state) --------------
UnitNorm    == Norm2(psi, Dim(N)) = ROne
ProbsReal   == \A i \in 1..Dim(N) : IsReal(Abs2(psi[i]))
ProbSumOne  == SumRing(Probs(psi, Dim(N)), Dim(N)) = ROne
AlphabetOK  == \A g \in Alphabet : WellFormed(g, N)

\* only psi is behaviour-relevant: two histories reaching the same vector are one state
View == <<psi, d>>

\* behaviours for whole-circuit replay: printed at the end of each simulated behaviour
EndOfBehaviour == d = MaxDepth => PrintT(<<"BH", ToJson([n |-> N, src |-> src, s0 |-> (IF src = "zero" THEN ZeroState(N) ELSE Generic), gates |-> hist, t |-> psi])>>)
=============================================================================
