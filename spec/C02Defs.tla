------------------------------ MODULE C02Defs ------------------------------
(***************************************************************************)
(* C02 - expectation values equal <psi|H|psi> on every evaluation path.     *)
(*                                                                         *)
(* Exact semantics (ring R_M, no rounding):                                 *)
(*   Exp(H, psi)     = <psi|H|psi>                 (Pauli!ExpectOp)         *)
(*   VarNum(H, psi)  = SUM_w |c_w|^2 (p^2 - e_w^2),  p = <psi|psi>,         *)
(*                     e_w = <psi|P_w|psi>                                  *)
(* psi may be UNNORMALISED (a post-selected branch vector, Gates!Project):  *)
(* the value the property prescribes is Exp/p and the term-by-term sampling *)
(* variance is  Var1 = SUM_w |c_w|^2 (1 - (e_w/p)^2) = VarNum / p^2.  The    *)
(* ring has no division: TLC exports numerator and denominator, the driver  *)
(* divides the two exact numbers when it converts them to floats.           *)
(*                                                                         *)
(* Algorithm models of the evaluation routes of tangelo.linq Backend:       *)
(*   FreqRouteWord    rotate X -> RY(-pi/2), Y -> RX(+pi/2), take the exact *)
(*                    outcome distribution, weight with the parity of the   *)
(*                    bits under the term mask                              *)
(*   FreqVarNumWord   SUM_i f_i (E - s_i)^2 of the same distribution        *)
(*   OverlapRouteWord Re <P psi | psi> with P applied as a circuit of X/Y/Z *)
(*                    gates (generic statevector route)                     *)
(* TLC checks each of them against the exact semantics for every reachable  *)
(* state and every Pauli word (C02Expect), so the sign conventions of the   *)
(* basis change and of the parity mask are pinned at design level.          *)
(***************************************************************************)
EXTENDS Pauli, SequencesExt, TLC

\* ---- real and imaginary part of a ring element -----------------------------
ReP(a) == Half(Add(a, Conj(a)))
ImP(a) == Mul(Neg(RI), Half(Sub(a, Conj(a))))

ReOp(H) == OpClean(TLCEval([w \in DOMAIN H |-> ReP(H[w])]))
ImOp(H) == OpClean(TLCEval([w \in DOMAIN H |-> ImP(H[w])]))

\* ---- exact semantics ---------------------------------------------------------
Exp(H, psi, n) == ExpectOp(H, psi, n)

VarNum(H, psi, n) ==
  LET p  == Norm2(psi, Dim(n))
      p2 == Mul(p, p)
  IN FoldSet(LAMBDA w, acc : LET e == ExpectWord(w, psi, n) IN
                               Add(acc, Mul(Abs2(H[w]), Sub(p2, Mul(e, e)))),
             RZero, DOMAIN H)

\* ---- algorithm model: frequency route -----------------------------------------
QuarterK == M \div 4            \* pi/2 in grid units

RECURSIVE BasisGatesFrom(_, _, _)
BasisGatesFrom(w, n, q) ==
  IF q > n THEN <<>>
  ELSE (IF w[q] = 1 THEN <<G("RY", <<q - 1>>, <<>>, -QuarterK)>>
        ELSE IF w[q] = 2 THEN <<G("RX", <<q - 1>>, <<>>, QuarterK)>>
        ELSE <<>>) \o BasisGatesFrom(w, n, q + 1)

BasisGates(w, n) == BasisGatesFrom(w, n, 1)

\* (-1)^(number of 1-bits of outcome i0 at the positions where the word is not I)
MaskSign(w, i0, n) ==
  IF Cardinality({q \in 1..n : w[q] # 0 /\ BitAt(i0, q - 1, n) = 1}) % 2 = 0 THEN 1 ELSE -1

Signed(s, a) == IF s = 1 THEN a ELSE Neg(a)

\* parity-weighted sum of the (unnormalised) outcome weights |phi_i|^2
ParityValue(w, phi, n) ==
  SumRing(TLCEval([i \in 1..Dim(n) |-> Signed(MaskSign(w, i - 1, n), Abs2(phi[i]))]), Dim(n))

FreqRouteWordWith(gates, w, psi, n) == ParityValue(w, Run(psi, gates, n), n)
FreqRouteWord(w, psi, n) == FreqRouteWordWith(BasisGates(w, n), w, psi, n)

FreqRouteOp(H, psi, n) ==
  FoldSet(LAMBDA w, acc : Add(acc, Mul(H[w], FreqRouteWord(w, psi, n))), RZero, DOMAIN H)

\* SUM_i a_i (e - s_i p)^2  =  p^3 * SUM_i f_i (E - s_i)^2   (f_i = a_i/p, E = e/p)
FreqVarNumWord(w, psi, n) ==
  LET phi == Run(psi, BasisGates(w, n), n)
      p   == Norm2(psi, Dim(n))
      e   == ParityValue(w, phi, n)
  IN SumRing(TLCEval([i \in 1..Dim(n) |->
        LET dlt == Sub(e, Signed(MaskSign(w, i - 1, n), p)) IN Mul(Abs2(phi[i]), Mul(dlt, dlt))]), Dim(n))

\* ---- algorithm model: generic statevector route ----------------------------------
RECURSIVE PauliGatesFrom(_, _, _)
PauliGatesFrom(w, n, q) ==
  IF q > n THEN <<>>
  ELSE (IF w[q] = 0 THEN <<>>
        ELSE <<G(IF w[q] = 1 THEN "X" ELSE IF w[q] = 2 THEN "Y" ELSE "Z", <<q - 1>>, <<>>, 0)>>)
       \o PauliGatesFrom(w, n, q + 1)
PauliGates(w, n) == PauliGatesFrom(w, n, 1)

OverlapRouteWord(w, psi, n) == ReP(Inner(Run(psi, PauliGates(w, n), n), psi, Dim(n)))

\* ---- a basis-change circuit U is valid for the word w iff  U^dagger Z_mask U = P_w ----------
ValidBasisChange(gates, w, n) ==
  LET U == UnitaryOf(gates, n)          \* U[col][row]
  IN \A x, y \in 1..Dim(n) :
       SumRing(TLCEval([i \in 1..Dim(n) |->
                 Signed(MaskSign(w, i - 1, n), Mul(Conj(U[x][i]), U[y][i]))]), Dim(n))
         = WordElement(w, x - 1, y - 1, n)

\* ---- enumeration of words (export order): index 1..4^n, qubit 0 = most significant base-4 digit ----
Pow4(n) == Pow2(2 * n)
WordOfIndex(j, n) == TLCEval([q \in 1..n |-> ((j - 1) \div Pow4(n - q)) % 4])
=============================================================================
