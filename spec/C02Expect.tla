----------------------------- MODULE C02Expect -----------------------------
(***************************************************************************)
(* C02 state machine: the C01-style exact statevector machine plus mid-     *)
(* circuit projective measurement (post-selected, unnormalised branch       *)
(* vector) plus an operator that is built term by term.                     *)
(*                                                                         *)
(* Variables                                                               *)
(*   psi    exact (possibly unnormalised) state of the N-qubit register     *)
(*   hist   gates applied so far; MEASURE entries carry the selected        *)
(*          outcome in the field k                                          *)
(*   d, nmeas  number of steps / measurements taken                         *)
(*   src    initial state: "zero" = |0..0>, "generic" = Run(|0..0>, Prep),  *)
(*          "one0" = |10..0>                                                *)
(*   terms  operator under construction: sequence of [w, c]                 *)
(*   dmax, tmax, cplx  shape of this behaviour (chosen in Init)             *)
(* Actions                                                                 *)
(*   GateStep(g)   one gate of the alphabet (while d < dmax)                *)
(*   MeasStep(q,b) project qubit q on outcome b (enabled iff p_b # 0)       *)
(*   AddTerm(w,c)  append a term (after the circuit is complete)            *)
(* Properties checked by TLC in every reachable state (S):                  *)
(*   FreqRouteCorrect, FreqVarCorrect, OverlapRouteCorrect  for EVERY word  *)
(*   OpRouteCorrect, Linearity, ViaApply, ComplexSplit, VarSplit  for the   *)
(*   operator of the state.                                                 *)
(*   Finish        close the behaviour (operator complete) and export it    *)
(* Export (G): AllWordsCorrectAndExport prints every distinct reachable     *)
(* state with the exact <psi|P|psi> of every Pauli word (exhaustive runs);  *)
(* the action Finish prints complete behaviours: circuit, operator, exact   *)
(* value and variance numerators, un-selected mixture values (-simulate).   *)
(***************************************************************************)
EXTENDS C02Defs, Json

CONSTANTS N,            \* number of qubits
          MaxDepth,     \* circuit steps (gates + measurements)
          MaxTerms,     \* operator terms
          MaxMeas,      \* mid-circuit measurements
          DepthChoices, \* set of circuit lengths offered to Init
          TermChoices,  \* set of operator sizes offered to Init
          CplxChoices,  \* subset of BOOLEAN: complex coefficients allowed?
          Sources,      \* subset of {"zero", "generic"}
          Export        \* BOOLEAN

VARIABLES psi, hist, d, nmeas, src, terms, dmax, tmax, cplx, fin

vars == <<psi, hist, d, nmeas, src, terms, dmax, tmax, cplx, fin>>

\* named sets for the configuration files
DepthOnlyMax == {MaxDepth}
DepthAll     == 0..MaxDepth
TermsNone    == {0}
TermsAll     == 1..MaxTerms
BoolF        == {FALSE}
BoolBoth     == BOOLEAN
SrcBoth      == {"zero", "generic"}
SrcZero      == {"zero"}
SrcGeneric   == {"generic"}
SrcOne       == {"one0"}

Qubits == 0..(N-1)
QK == QuarterK
EK == M \div 8          \* pi/4: a rotation angle only when even (M >= 16)

OrderedPairs == { <<a, b>> \in Qubits \X Qubits : a # b }

Alphabet ==
       { G(nm, <<t>>, <<>>, 0) : nm \in {"H", "T", "S"}, t \in Qubits }
  \cup { G(nm, <<t>>, <<>>, QK) : nm \in {"RY", "RX"}, t \in Qubits }
  \cup (IF EK % 2 = 0 THEN { G(nm, <<t>>, <<>>, EK) : nm \in {"RY", "RX"}, t \in Qubits } ELSE {})
  \cup { G("CNOT", <<p[1]>>, <<p[2]>>, 0) : p \in OrderedPairs }
  \cup { G("CRZ", <<p[1]>>, <<p[2]>>, QK) : p \in OrderedPairs }

\* A fixed entangled preparation whose Pauli expectation values are (almost) all non-zero and
\* different on different qubits: sign, ordering and mask-index defects that vanish on |0..0> show here.
GenericPrep ==
  FlattenSeq([q \in 1..N |-> <<G("H", <<q-1>>, <<>>, 0), G("T", <<q-1>>, <<>>, 0),
                                G("H", <<q-1>>, <<>>, 0), G("T", <<q-1>>, <<>>, 0)>>])
  \o [q \in 1..(N-1) |-> G("CNOT", <<q>>, <<q-1>>, 0)]
  \o [q \in 1..N |-> IF (q - 1) % 2 = 0 THEN G("RY", <<q-1>>, <<>>, QK) ELSE G("RX", <<q-1>>, <<>>, QK)]
  \o [q \in 1..(N-1) |-> G("CRZ", <<q-1>>, <<q>>, QK)]
  \o << G("T", <<0>>, <<>>, 0) >>

Generic == Run(ZeroState(N), GenericPrep, N)

\* |1 0 ... 0>: a single excitation on qubit 0, the simplest state that is NOT symmetric under reversal of the qubit
\* order (bit-reversed outcome strings / amplitude indices show on it for every Z-type word)
OnePrep  == << G("X", <<0>>, <<>>, 0) >>
OneState == Run(ZeroState(N), OnePrep, N)

S0(s) == IF s = "zero" THEN ZeroState(N) ELSE IF s = "one0" THEN OneState ELSE Generic
PrepOf(s) == IF s = "zero" THEN <<>> ELSE IF s = "one0" THEN OnePrep ELSE GenericPrep

ASSUME Export => PrintT(<<"PREP", ToJson([n |-> N, prep |-> GenericPrep, s0 |-> Generic, prep1 |-> OnePrep, s1 |-> OneState])>>)

\* ---- coefficients (small ring values: Gaussian dyadic rationals) -----------------
RealCoefs == { ROne, Neg(ROne), Half(ROne), Neg(Half(ROne)), FromInt(2), Dyadic(-3, 2), Dyadic(3, 1), Dyadic(1, 2) }
CplxCoefs == { RI, Neg(RI), Add(ROne, RI), Half(Sub(ROne, RI)), Add(FromInt(-2), Half(RI)), Dyadic(1, 1), Neg(ROne) }
IdCoefs   == { Half(ROne), Neg(ROne), Dyadic(3, 2) }
CoefsFor(cx) == IF cx THEN CplxCoefs ELSE RealCoefs

Init == /\ src \in Sources
        /\ psi = S0(src)
        /\ hist = <<>>
        /\ d = 0
        /\ nmeas = 0
        /\ dmax \in DepthChoices
        /\ tmax \in TermChoices
        /\ cplx \in CplxChoices
        /\ fin = FALSE
        /\ terms \in (IF tmax = 0 THEN {<<>>}
                      ELSE {<<>>} \cup { <<[w |-> IdWord(N), c |-> c]>> : c \in IdCoefs })

GateStep(g) == /\ d < dmax
               /\ psi' = ApplyGate(psi, g, N)
               /\ hist' = Append(hist, g)
               /\ d' = d + 1
               /\ UNCHANGED <<nmeas, src, terms, dmax, tmax, cplx, fin>>

MeasStep(q, b) == /\ d < dmax
                  /\ nmeas < MaxMeas
                  /\ LET phi == Project(psi, q, b, N) IN
                       /\ Norm2(phi, Dim(N)) # RZero          \* the selected outcome can occur
                       /\ psi' = phi
                  /\ hist' = Append(hist, G("MEASURE", <<q>>, <<>>, b))
                  /\ d' = d + 1
                  /\ nmeas' = nmeas + 1
                  /\ UNCHANGED <<src, terms, dmax, tmax, cplx, fin>>

AddTerm(w, c) == /\ d = dmax
                 /\ Len(terms) < tmax
                 /\ terms' = Append(terms, [w |-> w, c |-> c])
                 /\ UNCHANGED <<psi, hist, d, nmeas, src, dmax, tmax, cplx, fin>>


\* ---- S: properties of the semantics and of the algorithm models ------------------------
P  == Norm2(psi, Dim(N))
H0 == OpFromTerms(terms)

NormOK == /\ P # RZero
          /\ IsReal(P)
          /\ (nmeas = 0 => P = ROne)

\* -simulate evaluates invariants on every generated successor (hundreds per AddTerm step): long behaviours
\* check the norm once, when they are complete
NormAtEnd == fin => NormOK

FreqRouteCorrect    == \A w \in AllWords(N) : FreqRouteWord(w, psi, N) = ExpectWord(w, psi, N)
OverlapRouteCorrect == \A w \in AllWords(N) : OverlapRouteWord(w, psi, N) = ExpectWord(w, psi, N)
\* SUM_i f_i (E - s_i)^2 = 1 - E^2, cleared of denominators
FreqVarCorrect      == \A w \in AllWords(N) :
                         LET e == ExpectWord(w, psi, N) IN
                         FreqVarNumWord(w, psi, N) = Mul(P, Sub(Mul(P, P), Mul(e, e)))
ExpectReal          == \A w \in AllWords(N) : IsReal(ExpectWord(w, psi, N))

\* the four properties above for one word, sharing the sub-computations (this is what the cfg files use:
\* the ring arithmetic dominates the cost of a state)
WordOK(w, e) ==
  LET phi == Run(psi, BasisGates(w, N), N)
      fe  == ParityValue(w, phi, N)
      fv  == SumRing(TLCEval([i \in 1..Dim(N) |->
                LET dlt == Sub(fe, Signed(MaskSign(w, i - 1, N), P)) IN Mul(Abs2(phi[i]), Mul(dlt, dlt))]), Dim(N))
  IN /\ IsReal(e)
     /\ fe = e                                               \* FreqRouteCorrect
     /\ fv = Mul(P, Sub(Mul(P, P), Mul(e, e)))               \* FreqVarCorrect
     /\ OverlapRouteWord(w, psi, N) = e                      \* OverlapRouteCorrect

RECURSIVE SumTerms(_, _)
SumTerms(ts, j) == IF j = 0 THEN RZero ELSE Add(Mul(ts[j].c, ExpectWord(ts[j].w, psi, N)), SumTerms(ts, j - 1))

\* operator-level properties: evaluated when the behaviour is complete (circuit and operator built)
Done == fin
OpRouteCorrect == Done => FreqRouteOp(H0, psi, N) = Exp(H0, psi, N)
Linearity      == Done => Exp(H0, psi, N) = SumTerms(terms, Len(terms))          \* duplicates are summed
ViaApply       == Done => Inner(psi, ApplyOp(H0, psi, N), Dim(N)) = Exp(H0, psi, N)
ComplexSplit   == Done => LET er == Exp(ReOp(H0), psi, N)
                              ei == Exp(ImOp(H0), psi, N)
                          IN /\ IsReal(er) /\ IsReal(ei)
                             /\ Exp(H0, psi, N) = Add(er, Mul(RI, ei))
VarSplit       == Done => VarNum(H0, psi, N) = Add(VarNum(ReOp(H0), psi, N), VarNum(ImOp(H0), psi, N))
\* the words of the operator only (cheap form of the all-words invariants for long behaviours)
OpWordsCorrect == Done => \A w \in DOMAIN H0 :
                     LET e == ExpectWord(w, psi, N) IN
                     /\ FreqRouteWord(w, psi, N) = e
                     /\ OverlapRouteWord(w, psi, N) = e
                     /\ FreqVarNumWord(w, psi, N) = Mul(P, Sub(Mul(P, P), Mul(e, e)))
AlphabetOK     == \A g \in Alphabet : WellFormed(g, N)

\* two histories reaching the same vector (with the same remaining budget) are one state
View == <<psi, d, nmeas, terms, dmax, tmax, cplx, fin>>

\* ---- G: export ---------------------------------------------------------------------------
AllExpect == TLCEval([j \in 1..Pow4(N) |-> ExpectWord(WordOfIndex(j, N), psi, N)])

ExportState ==
  (Export /\ tmax = 0) =>
     PrintT(<<"ST", ToJson([n |-> N, src |-> src, gates |-> hist, nmeas |-> nmeas, psi |-> psi, p |-> P, ew |-> AllExpect])>>)

\* all-words check and export in one pass over the words
AllWordsCorrectAndExport ==
  LET ew == AllExpect IN
  /\ \A j \in 1..Pow4(N) : WordOK(WordOfIndex(j, N), ew[j])
  /\ ((Export /\ tmax = 0) =>
        PrintT(<<"ST", ToJson([n |-> N, src |-> src, gates |-> hist, nmeas |-> nmeas, psi |-> psi, p |-> P, ew |-> ew])>>))

OpSeq == SetToSeq(DOMAIN H0)

\* ---- the un-selected (dephased) mixture of a circuit with mid-circuit measurements ------------------
\* branch vector of the recorded gate list for an arbitrary outcome string (the behaviour itself followed one)
RECURSIVE RunBranch(_, _, _, _)
RunBranch(v, j, bits, mi) ==
  IF j > Len(hist) THEN v
  ELSE IF hist[j].name = "MEASURE"
       THEN RunBranch(Project(v, hist[j].t[1], bits[mi], N), j + 1, bits, mi + 1)
       ELSE RunBranch(ApplyGate(v, hist[j], N), j + 1, bits, mi)

Outcomes == [1..nmeas -> {0, 1}]
BranchVec(bits) == RunBranch(S0(src), 1, bits, 1)
\* <P_w> in the mixture SUM_b |psi_b><psi_b|  (the branch weights p_b are the norms of the branch vectors)
MixExpectWord(w) == FoldSet(LAMBDA bits, acc : Add(acc, ExpectWord(w, BranchVec(bits), N)), RZero, Outcomes)
\* Born rule sanity of the model: the branch probabilities sum to one, and the followed branch is one of them
BranchesOK == fin => /\ FoldSet(LAMBDA bits, acc : Add(acc, Norm2(BranchVec(bits), Dim(N))), RZero, Outcomes) = ROne
                     /\ \E bits \in Outcomes : BranchVec(bits) = psi

\* ---- histories of in-place updates (one operator object / one circuit object, several evaluations) ------
\* The sequence of operators after each AddTerm IS the history of the operator object: H_1, H_2, ..., H_tmax.
PrefixOp(k)  == OpFromTerms(SubSeq(terms, 1, k))
OpTermsSeq(H) == LET ws == SetToSeq(DOMAIN H) IN [j \in 1..Len(ws) |-> [w |-> ws[j], c |-> H[ws[j]]]]
OpValue(H, v) == [terms |-> OpTermsSeq(H), num |-> Exp(H, v, N), varnum |-> VarNum(H, v, N)]
\* the operator object scaled in place
ScaleHalf == Dyadic(-1, 1)
\* the circuit object with one rotation angle updated in place: recorded gate list with gate `pos` at angle k2,
\* replayed from the initial state along the recorded measurement outcomes
RECURSIVE RunRec(_, _, _)
RunRec(v, gs, j) ==
  IF j > Len(gs) THEN v
  ELSE IF gs[j].name = "MEASURE" THEN RunRec(Project(v, gs[j].t[1], gs[j].k, N), gs, j + 1)
  ELSE RunRec(ApplyGate(v, gs[j], N), gs, j + 1)
RotPositions == {j \in 1..Len(hist) : hist[j].name \in {"RX", "RY", "CRZ"}}
AltPos  == IF RotPositions = {} THEN 0 ELSE CHOOSE j \in RotPositions : \A i \in RotPositions : j <= i
AltK    == hist[AltPos].k + 2 * QK                 \* angle + pi (stays an even grid index)
AltHist == [j \in 1..Len(hist) |-> IF j = AltPos THEN G(hist[j].name, hist[j].t, hist[j].c, AltK) ELSE hist[j]]
AltVec  == RunRec(S0(src), AltHist, 1)

HistoryOK == fin => /\ RunRec(S0(src), hist, 1) = psi                     \* replaying the record reproduces the state
                    /\ \A k \in 0..Len(terms) : Exp(PrefixOp(k), psi, N) = SumTerms(terms, k)
                    /\ Exp(OpScale(ScaleHalf, H0), psi, N) = Mul(ScaleHalf, Exp(H0, psi, N))
                    /\ VarNum(OpScale(RI, H0), psi, N) = VarNum(H0, psi, N)
                    /\ (AltPos # 0 => WellFormed(AltHist[AltPos], N))

BehaviourRecord ==
     LET ws == OpSeq IN
     PrintT(<<"BH", ToJson([n |-> N, src |-> src, gates |-> hist, nmeas |-> nmeas, psi |-> psi, p |-> P,
                            terms |-> [j \in 1..Len(ws) |-> [w |-> ws[j], c |-> H0[ws[j]], e |-> ExpectWord(ws[j], psi, N),
                                                               mix |-> IF nmeas = 0 THEN ExpectWord(ws[j], psi, N)
                                                                       ELSE MixExpectWord(ws[j])]],
                            mixnum |-> IF nmeas = 0 THEN Exp(H0, psi, N)
                                       ELSE FoldSet(LAMBDA w, acc : Add(acc, Mul(H0[w], MixExpectWord(w))), RZero, DOMAIN H0),
                            raw |-> terms,
                            prefixes |-> [k \in 1..Len(terms) |-> OpValue(PrefixOp(k), psi)],
                            half |-> OpValue(OpScale(ScaleHalf, H0), psi),
                            imag |-> OpValue(OpScale(RI, H0), psi),
                            alt |-> IF AltPos = 0 THEN [pos |-> 0]
                                    ELSE [pos |-> AltPos, k |-> AltK, p |-> Norm2(AltVec, Dim(N)),
                                          num |-> Exp(H0, AltVec, N), varnum |-> VarNum(H0, AltVec, N)],
                            num |-> Exp(H0, psi, N), varnum |-> VarNum(H0, psi, N)])>>)

\* the behaviour is complete: exported exactly once, by the action that closes it (in -simulate mode TLC
\* evaluates invariants on EVERY generated successor, an action only on the state actually reached)
Finish == /\ tmax > 0
          /\ d = dmax
          /\ Len(terms) = tmax
          /\ ~fin
          /\ fin' = TRUE
          /\ UNCHANGED <<psi, hist, d, nmeas, src, terms, dmax, tmax, cplx>>
          /\ (Export => BehaviourRecord)

Next == \/ \E g \in Alphabet : GateStep(g)
        \/ \E q \in Qubits, b \in {0, 1} : MeasStep(q, b)
        \/ \E w \in AllWords(N), c \in CoefsFor(cplx) : AddTerm(w, c)
        \/ Finish

Spec == Init /\ [][Next]_vars
=============================================================================
