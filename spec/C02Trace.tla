------------------------------ MODULE C02Trace ------------------------------
(***************************************************************************)
(* V-part of C02: the basis-change gate lists that the implementation emits *)
(* (measurement_basis_gates(term)) are judged by TLC.                       *)
(*                                                                         *)
(* job = [id, n, w (word, letters 0..3), gates]                             *)
(* verdicts:                                                               *)
(*   "same"        the list is exactly the algorithm model BasisGates(w)    *)
(*   "equivalent"  a different list, but U^dagger Z_mask U = P_w holds      *)
(*                 exactly (any such circuit makes the frequency route      *)
(*                 correct)                        -> SPEC-DRIFT            *)
(*   "wrong"       U^dagger Z_mask U # P_w          -> SPEC-DRIFT with the   *)
(*                 semantic verdict; the property-level verdict is the      *)
(*                 VALUE returned by the routes (G part), because the code  *)
(*                 may compensate elsewhere                                 *)
(*   "malformed-gate"                                                       *)
(***************************************************************************)
EXTENDS C02Defs, Json, IOUtils

Jobs == JsonDeserialize(IOEnv.VERIF_JOBS)
VARIABLE i

Verdict(j) ==
  IF ~(\A x \in 1..Len(j.gates) : WellFormed(j.gates[x], j.n)) THEN "malformed-gate"
  ELSE IF j.gates = BasisGates(j.w, j.n) THEN
         (IF ValidBasisChange(j.gates, j.w, j.n) THEN "same" ELSE "model-wrong")
  ELSE IF ValidBasisChange(j.gates, j.w, j.n) THEN "equivalent"
  ELSE "wrong"

JInit == i \in 1..Len(Jobs)
JNext == i > 0 /\ PrintT(<<"V", Jobs[i].id, Verdict(Jobs[i])>>) /\ i' = 0
=============================================================================
