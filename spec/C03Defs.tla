------------------------------ MODULE C03Defs ------------------------------
(***************************************************************************)
(* C03 - fermion-to-qubit encodings are faithful representations.           *)
(*                                                                         *)
(* The property is stated on WHATEVER images the implementation returns:    *)
(* this module contains the LAWS, not a re-implementation of any encoding   *)
(* (no Fenwick tree, no ternary tree, no tapering).                         *)
(*                                                                         *)
(* Mathematical backbone.                                                   *)
(* (1) Full-space encodings (JW, BK, JKMN).  The CAR algebra on n modes is  *)
(*     isomorphic to the full matrix algebra M_{2^n}(C); it has, up to      *)
(*     unitary equivalence, a unique irreducible *-representation, of       *)
(*     dimension 2^n.  If the images A_p, A+_p of the ladder operators on   *)
(*     n qubits satisfy the canonical anticommutation relations and         *)
(*     A+_p = (A_p)^dagger (IsCAR), and the encoding of every operator is   *)
(*     the multiplicative-linear extension of these images (IsExt: this is  *)
(*     linearity, Enc(g1 g2) = Enc(g1) Enc(g2), Enc(1) = 1 in one           *)
(*     equation), then Enc = U ( . ) U^dagger for a unitary U : Fock ->     *)
(*     qubits, hence EVERY operator has exactly the spectrum of its Fock    *)
(*     matrix.  CAR + extension are decided in the Pauli algebra (exact);   *)
(*     the laws are additionally checked on independently recorded triples  *)
(*     (LawMul, LawAdj, LawLin, LawOne), and the spectral statement itself  *)
(*     is tested directly on sampled Hermitian operators (SpectrumFull).    *)
(* (2) Symmetry-conserving BK.  The operators conserving the parities of    *)
(*     N_alpha and N_beta form a direct sum of four full matrix blocks of   *)
(*     dimension 2^(n-2) (one per pair of parities).  A unital              *)
(*     *-homomorphism of that algebra into 2^(n-2) x 2^(n-2) matrices is    *)
(*     one of the four blocks; which one is identified by the scalars it    *)
(*     assigns to the parity operators P_alpha = PROD (1 - 2 n_p), P_beta.  *)
(*     So: homomorphism laws on the generators the implementation accepts   *)
(*     + P_alpha -> (-1)^n_alpha, P_beta -> (-1)^n_beta  ==> isospectral on *)
(*     the stated sector.  The direct spectral test (SpectrumSector) is     *)
(*     run on sampled Hermitian operators as well.                          *)
(* (3) HCB and combinatorial are compressions, not homomorphisms: for a     *)
(*     Hermitian number- and spin-conserving Hamiltonian the matrix of the  *)
(*     qubit operator must have the spectrum of the Fock matrix on the      *)
(*     paired (seniority-zero) space resp. the (n_alpha, n_beta) sector     *)
(*     (SpectrumContained: the combinatorial register may be larger than    *)
(*     the sector).  Entry-wise agreement in the documented basis is a      *)
(*     diagnostic only.                                                     *)
(*                                                                         *)
(* Conventions.  Fermionic operators travel as sequences of                 *)
(* [t |-> <<<<mode, dag>>, ...>>, c |-> ring element] (openfermion order:   *)
(* rightmost factor acts first), qubit operators as term lists              *)
(* [w |-> word, c |-> ring element].  Ladder images are a sequence L with   *)
(* L[2 p + dag + 1] the image of a_p (dag = 0) / a+_p (dag = 1).            *)
(***************************************************************************)
EXTENDS Fock, C03Spectra, TLC

LIdx(p, dag) == 2 * p + dag + 1

\* ---- law 1: canonical anticommutation relations --------------------------
IsCAR(L, nm, n) ==
  /\ \A p \in 0..(nm - 1) : OpEq(OpAdj(L[LIdx(p, 0)]), L[LIdx(p, 1)])
  /\ \A p \in 0..(nm - 1) : \A q \in p..(nm - 1) :
       /\ OpIsZero(OpAntiCommutator(L[LIdx(p, 0)], L[LIdx(q, 0)], n))
       /\ OpIsZero(OpAntiCommutator(L[LIdx(p, 1)], L[LIdx(q, 1)], n))
       /\ OpEq(OpAntiCommutator(L[LIdx(p, 0)], L[LIdx(q, 1)], n), IF p = q THEN OpIdentity(n) ELSE OpZero)
       /\ OpEq(OpAntiCommutator(L[LIdx(q, 0)], L[LIdx(p, 1)], n), IF p = q THEN OpIdentity(n) ELSE OpZero)

\* ---- the multiplicative-linear extension of ladder images -----------------
RECURSIVE TermImageFrom(_, _, _, _)
TermImageFrom(t, L, n, j) ==
  IF j > Len(t) THEN OpIdentity(n)
  ELSE OpMul(L[LIdx(t[j][1], t[j][2])], TermImageFrom(t, L, n, j + 1), n)
TermImage(t, L, n) == TermImageFrom(t, L, n, 1)

RECURSIVE HomExtFrom(_, _, _, _)
HomExtFrom(fop, L, n, k) ==
  IF k = 0 THEN OpZero ELSE OpAdd(OpScale(fop[k].c, TermImage(fop[k].t, L, n)), HomExtFrom(fop, L, n, k - 1))
HomExt(fop, L, n) == HomExtFrom(fop, L, n, Len(fop))

\* the spec's own Jordan-Wigner (reference instance; also decides equality IN the CAR algebra:
\* f = g as elements of the algebra  <=>  their images under a faithful representation agree)
SpecJWL(nm) == TLCEval([x \in 1..(2 * nm) |-> JWLadder((x - 1) \div 2, (x - 1) % 2, nm)])
SpecImg(fop, nm) == HomExt(fop, SpecJWL(nm), nm)

\* law 2: the encoding is the extension of its own ladder images
IsExt(img, fop, L, n) == OpEq(img, HomExt(fop, L, n))

\* laws on independently recorded images (fermionic side first: the driver must really have sent g1 g2, g^dagger, ...)
PreMul(fA, fB, fAB, nm) == OpEq(SpecImg(fAB, nm), OpMul(SpecImg(fA, nm), SpecImg(fB, nm), nm))
LawMul(iA, iB, iAB, n)  == OpEq(iAB, OpMul(iA, iB, n))
PreAdj(fA, fB, nm)      == OpEq(SpecImg(fB, nm), OpAdj(SpecImg(fA, nm)))
LawAdj(iA, iB)          == OpEq(iB, OpAdj(iA))
PreLin(fA, fB, fC, al, be, nm) == OpEq(SpecImg(fC, nm), OpAdd(OpScale(al, SpecImg(fA, nm)), OpScale(be, SpecImg(fB, nm))))
LawLin(iA, iB, iC, al, be)     == OpEq(iC, OpAdd(OpScale(al, iA), OpScale(be, iB)))
LawOne(i1, n)           == OpEq(i1, OpIdentity(n))

\* documented closed form of Jordan-Wigner in either ordering (docstring of jordan_wigner.py; up_then_down:
\* "all spin up, then all spin down"): the image of a_p, p = 2 i + s, is the JW ladder on mode SO(i, s)
JWDocumented(L, nm, utd) ==
  \A p \in 0..(nm - 1) : \A dag \in {0, 1} :
     OpEq(L[LIdx(p, dag)], JWLadder(IF utd THEN SO(p \div 2, p % 2, nm, TRUE) ELSE p, dag, nm))

\* ---- Fock matrices ----------------------------------------------------------
SetSeq(S) == LET RECURSIVE go(_)
                 go(T) == IF T = {} THEN <<>> ELSE LET x == CHOOSE y \in T : TRUE IN <<x>> \o go(T \ {x})
             IN go(S)

\* column Y of the matrix of fop in the basis `basis` (sequence of determinants)
FockColumn(fop, basis, Y) ==
  LET imgs == TLCEval([k \in 1..Len(fop) |-> ApplyTerm(fop[k].t, Y)])
      live == {k \in 1..Len(fop) : ~imgs[k].z}
  IN TLCEval([r \in 1..Len(basis) |->
       FoldSet(LAMBDA k, acc : IF imgs[k].d = basis[r]
                               THEN Add(acc, IF imgs[k].s = 1 THEN fop[k].c ELSE Neg(fop[k].c)) ELSE acc,
               RZero, live)])
FockMatrix(fop, basis) == TLCEval([c \in 1..Len(basis) |-> FockColumn(fop, basis, basis[c])])

\* the operator maps the span of `basis` into itself
Preserves(fop, basisSet) ==
  \A Y \in basisSet : \A k \in 1..Len(fop) : LET r == ApplyTerm(fop[k].t, Y) IN r.z \/ r.d \in basisSet \/ fop[k].c = RZero

\* ---- spectral statements ----------------------------------------------------
\* full space, n modes -> n qubits
SpectrumFull(fop, img, n) == SameSpectrum(FockMatrix(fop, SetSeq(Dets(n))), OpMatrix(img, n))

\* scBK: determinants with the parities of (na, nb); alternating numbering (alpha = even modes)
ParitySector(nm, na, nb) ==
  {D \in Dets(nm) : Cardinality({p \in D : p % 2 = 0}) % 2 = na % 2 /\ Cardinality({p \in D : p % 2 = 1}) % 2 = nb % 2}
SpectrumSector(fop, img, nm, na, nb) ==
  SameSpectrum(FockMatrix(fop, SetSeq(ParitySector(nm, na, nb))), OpMatrix(img, nm - 2))

\* parity operators in the spec's JW: PROD_{p in S} (1 - 2 n_p) = PROD_{p in S} Z_p
ZOn(S, nm) == OpWord(TLCEval([q \in 1..nm |-> IF (q - 1) \in S THEN 3 ELSE 0]))
ParityModes(which, nm) == IF which = "alpha" THEN {p \in 0..(nm - 1) : p % 2 = 0}
                          ELSE IF which = "beta" THEN {p \in 0..(nm - 1) : p % 2 = 1}
                          ELSE 0..(nm - 1)
ParityCount(which, na, nb) == IF which = "alpha" THEN na ELSE IF which = "beta" THEN nb ELSE na + nb
PreParity(f, which, nm) == OpEq(SpecImg(f, nm), ZOn(ParityModes(which, nm), nm))
LawParity(img, which, na, nb, n) ==
  OpEq(img, OpScale(IF ParityCount(which, na, nb) % 2 = 0 THEN ROne ELSE Neg(ROne), OpIdentity(n)))

\* ---- compressions -----------------------------------------------------------
\* HCB: paired determinants of nmo spatial orbitals; S subset of 0..nmo-1 -> {2i, 2i+1 : i in S}
PairDet(S) == UNION {{2 * i, 2 * i + 1} : i \in S}
\* documented basis: qubit i = pair occupation of orbital i (qubit 0 most significant in Pauli!OpMatrix)
PairBasis(nmo) == TLCEval([x \in 1..Pow2(nmo) |-> PairDet({i \in 0..(nmo - 1) : BitAt(x - 1, i, nmo) = 1})])

\* combinatorial: documented basis.  Configurations sigma_alpha, sigma_beta (subsets of spatial orbitals) are ranked
\* lexicographically (as sorted tuples) among the subsets of the same size; index = rank_a * C(nmo, nb) + rank_b;
\* the index is written in binary on the qubits with qubit 0 the LEAST significant bit.
MinOf(S) == CHOOSE x \in S : \A y \in S : x <= y
RECURSIVE LexLess(_, _)
LexLess(S, T) == IF S = {} \/ T = {} THEN FALSE
                 ELSE LET a == MinOf(S) b == MinOf(T) IN
                      IF a < b THEN TRUE ELSE IF a > b THEN FALSE ELSE LexLess(S \ {a}, T \ {b})
KSubsets(nmo, k) == {S \in SUBSET (0..(nmo - 1)) : Cardinality(S) = k}
LexRank(S, nmo) == Cardinality({T \in KSubsets(nmo, Cardinality(S)) : LexLess(T, S)})
ConfDet(Sa, Sb) == {2 * i : i \in Sa} \cup {2 * i + 1 : i \in Sb}
CombIndex(Sa, Sb, nmo) == LexRank(Sa, nmo) * Cardinality(KSubsets(nmo, Cardinality(Sb))) + LexRank(Sb, nmo)
\* sequence of sector determinants ordered by their documented index 0..d-1
CombBasis(nmo, na, nb) ==
  LET d == Cardinality(KSubsets(nmo, na)) * Cardinality(KSubsets(nmo, nb))
  IN TLCEval([x \in 1..d |-> LET pr == CHOOSE pq \in KSubsets(nmo, na) \X KSubsets(nmo, nb) : CombIndex(pq[1], pq[2], nmo) = x - 1
                             IN ConfDet(pr[1], pr[2])])
\* bit reversal: documented integer (qubit 0 least significant) -> Pauli!OpMatrix index (qubit 0 most significant)
CombRevIndex(x0, n) == SumSeq(TLCEval([q \in 1..n |-> BitAt(x0, n - q, n) * Pow2(n - q)]), n)

Transposed(A) == TLCEval([c \in 1..Len(A) |-> TLCEval([r \in 1..Len(A) |-> A[r][c]])])
\* entry-wise agreement of the leading block (documented basis)
EntrywiseEqual(A, img, nq, rev) ==
  \A c \in 1..Len(A) : \A r \in 1..Len(A) :
     LET x == IF rev THEN CombRevIndex(r - 1, nq) ELSE r - 1
         y == IF rev THEN CombRevIndex(c - 1, nq) ELSE c - 1
     IN OpElement(img, x, y, nq) = A[c][r]
=============================================================================
