---------------------------- MODULE C03Encodings ----------------------------
(***************************************************************************)
(* S-part of C03: the law checker of C03Defs is validated on the spec's own *)
(* Jordan-Wigner and on the Fock model before it judges the code.           *)
(* State = (register size sn, a product st of one or two ladder operators). *)
(*  SpecCAR          IsCAR holds for the spec's JW ladder images            *)
(*  CARDiscriminates IsCAR rejects the list with the images of two modes    *)
(*                   exchanged, one sign flipped, one mode rescaled         *)
(*  JWIsFock         matrix of the JW image of st = Fock matrix of st       *)
(*                   (determinant D at index DetIndex(D)), entry by entry   *)
(*  SpectrumLaw      for f = st + st^dagger: SameSpectrum(Fock, JW image)   *)
(*                   holds and fails after shifting the image by 1          *)
(*  AdjLaw, MulLaw   the recorded-triple laws hold on the spec's JW         *)
(*  Eq14IsLexRank    the documented configuration index of the              *)
(*                   combinatorial mapping (arXiv:2205.11742 eq. 14) is the *)
(*                   lexicographic rank used by CombBasis; CombIndex is a   *)
(*                   bijection onto 0..d-1                                  *)
(*  SpectraSelfCheck charpoly of a diagonal matrix; containment             *)
(***************************************************************************)
EXTENDS C03Defs

CONSTANT SNs
VARIABLES sn, st

LadderOps(n) == (0..(n - 1)) \X {0, 1}
SInit == /\ sn \in SNs
         /\ st \in {<<a>> : a \in LadderOps(sn)} \cup {<<a, b>> : a \in LadderOps(sn), b \in LadderOps(sn)}
SNext == UNCHANGED <<sn, st>>

F1(t) == << [t |-> t, c |-> ROne] >>
TermAdj(t) == TLCEval([j \in 1..Len(t) |-> << t[Len(t) + 1 - j][1], 1 - t[Len(t) + 1 - j][2] >>])
Herm(t) == << [t |-> t, c |-> ROne], [t |-> TermAdj(t), c |-> ROne] >>

SpecCAR == IsCAR(SpecJWL(sn), sn, sn)

Swapped(L, a, b) == TLCEval([x \in 1..Len(L) |-> IF x = a THEN L[b] ELSE IF x = b THEN L[a] ELSE L[x]])
CARDiscriminates ==
  /\ IsCAR(Swapped(SpecJWL(sn), 1, 2), sn, sn)       \* particle-hole exchange on mode 0 IS a representation
  /\ ~IsCAR(TLCEval([x \in 1..(2 * sn) |-> IF x = 1 THEN OpScale(FromInt(2), SpecJWL(sn)[x]) ELSE IF x = 2 THEN OpScale(FromInt(2), SpecJWL(sn)[x]) ELSE SpecJWL(sn)[x]]), sn, sn)
  /\ (sn >= 2 => ~IsCAR(Swapped(SpecJWL(sn), 1, 3), sn, sn))
  /\ ~IsCAR(TLCEval([x \in 1..(2 * sn) |-> IF x = 1 THEN OpNeg(SpecJWL(sn)[x]) ELSE SpecJWL(sn)[x]]), sn, sn)

DetByIndex(x0, n) == {p \in 0..(n - 1) : BitAt(x0, p, n) = 1}
IndexBasis(n) == TLCEval([x \in 1..Dim(n) |-> DetByIndex(x - 1, n)])
JWIsFock == FockMatrix(F1(st), IndexBasis(sn)) = OpMatrix(SpecImg(F1(st), sn), sn)

SpectrumLaw ==
  LET A == FockMatrix(Herm(st), SetSeq(Dets(sn)))
      I == SpecImg(Herm(st), sn)
  IN /\ IsHermitianMat(A)
     /\ SameSpectrum(A, OpMatrix(I, sn))
     /\ ~SameSpectrum(A, OpMatrix(OpAdd(I, OpIdentity(sn)), sn))

AdjLaw == /\ PreAdj(F1(st), F1(TermAdj(st)), sn)
          /\ LawAdj(SpecImg(F1(st), sn), SpecImg(F1(TermAdj(st)), sn))
          /\ (Len(st) = 1 => ~PreAdj(F1(st), F1(st), sn))
MulLaw == Len(st) = 2 =>
          /\ PreMul(F1(<<st[1]>>), F1(<<st[2]>>), F1(st), sn)
          /\ LawMul(SpecImg(F1(<<st[1]>>), sn), SpecImg(F1(<<st[2]>>), sn), SpecImg(F1(st), sn), sn)
          /\ (st[1] # st[2] /\ st[1][1] # st[2][1] => ~PreMul(F1(<<st[2]>>), F1(<<st[1]>>), F1(st), sn))

\* ---- documented combinatorial index ---------------------------------------
RECURSIVE Binom(_, _)
Binom(a, b) == IF b < 0 \/ a < 0 \/ b > a THEN 0 ELSE IF b = 0 THEN 1 ELSE Binom(a - 1, b - 1) + Binom(a - 1, b)
SortedSeqOf(S) == LET RECURSIVE go(_)
                      go(T) == IF T = {} THEN <<>> ELSE LET m == MinOf(T) IN <<m>> \o go(T \ {m})
                  IN go(S)
Eq14(S, nmo) == LET sg == SortedSeqOf(S)
                    N  == Len(sg)
                IN Binom(nmo, N) - 1 - SumSeq([k \in 1..N |-> Binom(nmo - sg[N - (k - 1)] - 1, k)], N)
Eq14IsLexRank ==
  \A nmo \in 1..4 : \A S \in SUBSET (0..(nmo - 1)) : Eq14(S, nmo) = LexRank(S, nmo)
CombIndexBijective ==
  \A nmo \in 1..3 : \A na \in 0..nmo : \A nb \in 0..nmo :
     LET prs == KSubsets(nmo, na) \X KSubsets(nmo, nb)
     IN {CombIndex(pr[1], pr[2], nmo) : pr \in prs} = 0..(Cardinality(prs) - 1)

\* ---- spectra ---------------------------------------------------------------
Diag(v) == TLCEval([c \in 1..Len(v) |-> TLCEval([r \in 1..Len(v) |-> IF r = c THEN v[c] ELSE RZero])])
SpectraSelfCheck ==
  LET A == Diag(<<FromInt(2), FromInt(-3), Half(ROne)>>)
      B == Diag(<<Half(ROne), FromInt(2), FromInt(-3)>>)
      C == Diag(<<FromInt(2), FromInt(7), Half(ROne), FromInt(-3), FromInt(7)>>)
      H == << <<FromInt(1), RI>>, <<Neg(RI), FromInt(1)>> >>        \* Hermitian, eigenvalues 0 and 2
  IN /\ SameSpectrum(A, B)
     /\ ~SameSpectrum(A, Diag(<<FromInt(2), FromInt(-3), ROne>>))
     /\ SpectrumContained(A, C)
     /\ ~SpectrumContained(Diag(<<FromInt(2), FromInt(2)>>), C)
     /\ SameSpectrum(H, Diag(<<RZero, FromInt(2)>>))
     /\ ~SameSpectrum(H, Diag(<<ROne, ROne>>))
     /\ IsHermitianMat(H)
=============================================================================
