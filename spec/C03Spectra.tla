----------------------------- MODULE C03Spectra -----------------------------
(***************************************************************************)
(* Basis-free comparison of spectra of small Hermitian matrices with        *)
(* Gaussian-dyadic entries (DESIGN section 3, "Spectra").                   *)
(*                                                                         *)
(* A matrix is a sequence of COLUMNS, each a sequence of ring elements      *)
(* (Mat[col][row], like Pauli!OpMatrix).  Entries a + b i over 2^k are      *)
(* mapped by the ring homomorphism Z[1/2][i] -> Z_p[i] (p an odd prime)     *)
(* to pairs <<re, im>> of residues; power traces t_k = tr A^k (k = 1..d),   *)
(* elementary symmetric functions by Newton's identities (k < p), hence the *)
(* characteristic polynomial mod p.                                         *)
(*                                                                         *)
(*   SameSpectrum(A, B)      char. polynomials agree mod both primes        *)
(*   SpectrumContained(A, B) charpoly(A) divides charpoly(B) mod both       *)
(*                           primes: spec(A) is contained in spec(B) with   *)
(*                           multiplicities (B may act on a bigger space)   *)
(* Both are NECESSARY conditions of the corresponding statements over the   *)
(* complex numbers (a polynomial identity over Z[1/2][i] survives the       *)
(* reduction), so they can never raise a false alarm; a true difference is  *)
(* missed with probability about 1/p per coefficient and prime.  All        *)
(* intermediate integers stay below 2^31 (p < 2^15, every product reduced). *)
(***************************************************************************)
EXTENDS Ring, FiniteSets

P1 == 32749
P2 == 32719

RECURSIVE ModPow(_, _, _)
ModPow(b, e, p) == IF e = 0 THEN 1
                   ELSE LET h == ModPow(b, e \div 2, p)
                            s == (h * h) % p
                        IN IF e % 2 = 0 THEN s ELSE (s * (b % p)) % p
ModInv(a, p) == ModPow(a % p, p - 2, p)

\* a ring element must be Gaussian dyadic: only the 1 and i components are used
IsGauss(x) == \A j \in 1..HM : (j # 1 /\ j # (M \div 4) + 1) => x.c[j] = 0
GaussMatrix(A) == \A c \in 1..Len(A) : \A r \in 1..Len(A[c]) : IsGauss(A[c][r])

ToZp(x, p) == LET s == ModPow(ModInv(2, p), x.k, p)
              IN << ((x.c[1] % p) * s) % p, ((x.c[(M \div 4) + 1] % p) * s) % p >>

\* Z_p[i]
CAdd(a, b, p) == << (a[1] + b[1]) % p, (a[2] + b[2]) % p >>
CMul(a, b, p) == << (((a[1] * b[1]) % p) - ((a[2] * b[2]) % p)) % p,
                    (((a[1] * b[2]) % p) + ((a[2] * b[1]) % p)) % p >>
CZero == <<0, 0>>

MatZp(A, p) == LET d == Len(A) IN TLCEval([c \in 1..d |-> TLCEval([r \in 1..d |-> ToZp(A[c][r], p)])])

\* (A B)[c][r] = SUM_k A[k][r] B[c][k]     (columns first)
RECURSIVE DotFrom(_, _, _, _, _, _, _)
DotFrom(A, B, c, r, k, acc, p) ==
  IF k = 0 THEN acc
  ELSE DotFrom(A, B, c, r, k - 1,
               IF A[k][r] = CZero \/ B[c][k] = CZero THEN acc ELSE CAdd(acc, CMul(A[k][r], B[c][k], p), p), p)
MatMulZp(A, B, p) == LET d == Len(A) IN
  TLCEval([c \in 1..d |-> TLCEval([r \in 1..d |-> DotFrom(A, B, c, r, d, CZero, p)])])

RECURSIVE TraceFrom(_, _, _, _)
TraceFrom(A, j, acc, p) == IF j = 0 THEN acc ELSE TraceFrom(A, j - 1, CAdd(acc, A[j][j], p), p)
TraceZp(A, p) == TraceFrom(A, Len(A), CZero, p)

\* sequence t[k] = tr A^k, k = 1..kmax  (each a pair; the imaginary part of a Hermitian matrix' power trace is 0)
RECURSIVE PowerTracesFrom(_, _, _, _, _, _)
PowerTracesFrom(A, Pk, k, kmax, acc, p) ==
  IF k > kmax THEN acc
  ELSE LET Q == IF k = 1 THEN A ELSE MatMulZp(Pk, A, p)
       IN PowerTracesFrom(A, Q, k + 1, kmax, Append(acc, TraceZp(Q, p)), p)
PowerTraces(A, kmax, p) == PowerTracesFrom(A, A, 1, kmax, <<>>, p)

\* Newton: k e_k = SUM_{i=1..k} (-1)^(i-1) e_{k-i} t_i ; e is the sequence e_1..e_d (e_0 = 1)
RECURSIVE NewtonSum(_, _, _, _, _, _)
NewtonSum(e, t, k, i, acc, p) ==
  IF i > k THEN acc
  ELSE LET ek == IF k - i = 0 THEN <<1, 0>> ELSE e[k - i]
           term == CMul(ek, t[i], p)
           sg == IF i % 2 = 1 THEN term ELSE << (p - term[1]) % p, (p - term[2]) % p >>
       IN NewtonSum(e, t, k, i + 1, CAdd(acc, sg, p), p)
RECURSIVE ElemFrom(_, _, _, _, _)
ElemFrom(t, k, d, e, p) ==
  IF k > d THEN e
  ELSE LET s == NewtonSum(e, t, k, 1, CZero, p)
           inv == ModInv(k, p)
       IN ElemFrom(t, k + 1, d, Append(e, << (s[1] * inv) % p, (s[2] * inv) % p >>), p)

\* characteristic polynomial, monic, as the sequence of coefficients of x^d, x^(d-1), ..., x^0:
\* x^d - e_1 x^(d-1) + e_2 x^(d-2) - ...
CharPoly(A, p) ==
  LET d == Len(A)
      Z == MatZp(A, p)
      t == PowerTraces(Z, d, p)
      e == ElemFrom(t, 1, d, <<>>, p)
  IN TLCEval([j \in 1..(d + 1) |-> IF j = 1 THEN <<1, 0>>
                       ELSE IF (j - 1) % 2 = 0 THEN e[j - 1]
                            ELSE << (p - e[j - 1][1]) % p, (p - e[j - 1][2]) % p >>])

\* remainder of f by the monic g (both coefficient sequences, highest degree first) is zero
RECURSIVE DividesFrom(_, _, _)
DividesFrom(f, g, p) ==
  IF Len(f) < Len(g) THEN \A j \in 1..Len(f) : f[j] = CZero
  ELSE LET lead == f[1]
           f2 == TLCEval([j \in 1..(Len(f) - 1) |->
                    IF j + 1 <= Len(g)
                    THEN LET m == CMul(lead, g[j + 1], p) IN CAdd(f[j + 1], << (p - m[1]) % p, (p - m[2]) % p >>, p)
                    ELSE f[j + 1]])
       IN DividesFrom(f2, g, p)

SameSpectrum(A, B) ==
  /\ Len(A) = Len(B)
  /\ \A p \in {P1, P2} : CharPoly(A, p) = CharPoly(B, p)

SpectrumContained(A, B) ==
  /\ Len(A) <= Len(B)
  /\ \A p \in {P1, P2} : DividesFrom(CharPoly(B, p), CharPoly(A, p), p)

IsHermitianMat(A) == \A c \in 1..Len(A) : \A r \in 1..Len(A) : A[c][r] = Conj(A[r][c])
=============================================================================
