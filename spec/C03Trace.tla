------------------------------ MODULE C03Trace ------------------------------
(***************************************************************************)
(* V-part of C03: operators recorded from the implementation               *)
(* (fermion_to_qubit_mapping, combinatorial) are judged against the laws of *)
(* C03Defs.  A job is one configuration (encoding, register size, ordering, *)
(* for scBK also n_electrons/spin) with the recorded ladder images L and a  *)
(* list of records; every record gets its own verdict line.                 *)
(*                                                                         *)
(* record kinds (field k):                                                  *)
(*  car     IsCAR(L)                                                        *)
(*  jwdoc   L is the documented Jordan-Wigner form in the stated ordering   *)
(*  ext     img = multiplicative-linear extension of L on f                 *)
(*  mul     iAB = iA iB      (fAB = fA fB in the CAR algebra is checked)    *)
(*  adj     iB = iA^dagger   (fB = fA^dagger is checked)                    *)
(*  lin     iC = al iA + be iB                                              *)
(*  one     image of the identity is the identity                           *)
(*  spec    spectrum(img) = spectrum(Fock matrix of f) on the represented   *)
(*          space (whole Fock space; parity sector for scBK)                *)
(*  parity  scBK: image of the alpha / beta / total parity operator is the  *)
(*          scalar (-1)^count                                               *)
(*  hcb     spectrum(img) = spectrum of f compressed to the paired space    *)
(*  comb    spectrum of f on the (na, nb) sector is contained in            *)
(*          spectrum(img)                                                   *)
(***************************************************************************)
EXTENDS C03Defs, Json, IOUtils

Jobs == JsonDeserialize(IOEnv.VERIF_JOBS)
VARIABLE i

Q(terms) == OpFromTerms(terms)

RecVerdict(j, L, r) ==
  LET nm == j.nm
      n  == j.n
  IN
  CASE r.k = "car"   -> IF IsCAR(L, nm, n) THEN "ok" ELSE "car-violated"
    [] r.k = "jwdoc" -> IF JWDocumented(L, nm, j.utd) THEN "ok" ELSE "jw-documented-form-violated"
    [] r.k = "ext"   -> IF IsExt(Q(r.img), r.f, L, n) THEN "ok" ELSE "extension-violated"
    [] r.k = "mul"   -> IF ~PreMul(r.fA, r.fB, r.fAB, nm) THEN "driver-error:not-a-product"
                        ELSE IF LawMul(Q(r.iA), Q(r.iB), Q(r.iAB), n) THEN "ok" ELSE "product-law-violated"
    [] r.k = "adj"   -> IF ~PreAdj(r.fA, r.fB, nm) THEN "driver-error:not-an-adjoint"
                        ELSE IF LawAdj(Q(r.iA), Q(r.iB)) THEN "ok" ELSE "adjoint-law-violated"
    [] r.k = "lin"   -> IF ~PreLin(r.fA, r.fB, r.fC, r.al, r.be, nm) THEN "driver-error:not-a-combination"
                        ELSE IF LawLin(Q(r.iA), Q(r.iB), Q(r.iC), r.al, r.be) THEN "ok" ELSE "linearity-violated"
    [] r.k = "one"   -> IF LawOne(Q(r.img), n) THEN "ok" ELSE "unit-law-violated"
    [] r.k = "spec"  -> LET basis == IF j.enc = "SCBK" THEN SetSeq(ParitySector(nm, j.na, j.nb)) ELSE SetSeq(Dets(nm))
                            A == FockMatrix(r.f, basis)
                            B == OpMatrix(Q(r.img), n)
                        IN IF ~IsHermitianMat(A) THEN "driver-error:not-hermitian"
                           ELSE IF j.enc = "SCBK" /\ ~Preserves(r.f, ParitySector(nm, j.na, j.nb)) THEN "driver-error:not-parity-conserving"
                           ELSE IF ~(GaussMatrix(A) /\ GaussMatrix(B)) THEN "off-carrier"
                           ELSE IF SameSpectrum(A, B) THEN "ok" ELSE "spectrum-violated"
    [] r.k = "parity" -> IF ~PreParity(r.f, r.which, nm) THEN "driver-error:not-the-parity-operator"
                         ELSE IF LawParity(Q(r.img), r.which, j.na, j.nb, n) THEN "ok" ELSE "parity-scalar-violated"
    [] r.k = "hcb"   -> LET A == FockMatrix(r.f, PairBasis(r.nmo))
                            img == Q(r.img)
                            B == OpMatrix(img, r.nmo)
                        IN IF ~IsHermitianMat(A) THEN "driver-error:not-hermitian"
                           ELSE IF ~(GaussMatrix(A) /\ GaussMatrix(B)) THEN "off-carrier"
                           ELSE IF ~SameSpectrum(A, B) THEN "spectrum-violated"
                           ELSE IF EntrywiseEqual(A, img, r.nmo, FALSE) THEN "ok" ELSE "ok-entrywise-differs"
    [] r.k = "comb"  -> LET basis == CombBasis(r.nmo, r.na, r.nb)
                            A == FockMatrix(r.f, basis)
                            img == Q(r.img)
                            B == OpMatrix(img, r.nq)
                        IN IF ~IsHermitianMat(A) THEN "driver-error:not-hermitian"
                           ELSE IF ~Preserves(r.f, {basis[x] : x \in 1..Len(basis)}) THEN "driver-error:not-sector-conserving"
                           ELSE IF ~(GaussMatrix(A) /\ GaussMatrix(B)) THEN "off-carrier"
                           ELSE IF ~SpectrumContained(A, B) THEN "spectrum-violated"
                           ELSE IF EntrywiseEqual(A, img, r.nq, TRUE) \/ EntrywiseEqual(Transposed(A), img, r.nq, TRUE)
                                THEN "ok" ELSE "ok-entrywise-differs"
    [] OTHER -> "malformed"

JobDone(j) ==
  LET L == TLCEval([x \in 1..Len(j.L) |-> Q(j.L[x])])
  IN /\ \A x \in 1..Len(j.recs) : PrintT(<<"V", j.recs[x].id, RecVerdict(j, L, j.recs[x])>>)
     /\ PrintT(<<"V", j.id, "done">>)

JInit == i \in 1..Len(Jobs)
JNext == i > 0 /\ JobDone(Jobs[i]) /\ i' = 0
=============================================================================
