--------------------------- MODULE C04ActiveSpace ---------------------------
(***************************************************************************)
(* S-part of C04: the textbook frozen-core folding formula                  *)
(*    E_core   = c0 + SUM_{I in F} h_II + 1/2 SUM_{I,J in F} (V_IJJI - V_IJIJ)*)
(*    h_eff_UW = h_UW + SUM_{I in F} (V_IUWI - V_IUIW)                        *)
(*    two-body part restricted to the active spin orbitals                  *)
(* (C04Defs!FoldedTerms, spin-orbital form) satisfies the SEMANTIC           *)
(* definition  <x|H_eff|y> = <F u x|H_full|F u y>  evaluated from first      *)
(* principles with the ladder operators of Fock.tla, for every assignment   *)
(* of the N orbitals of each spin to {frozen occupied, active, frozen        *)
(* virtual}, every order of the active list offered, and                     *)
(*   - every element of a BASIS of the tensor space with the physical        *)
(*     symmetries (both sides are linear in (c0, h, g), so the identity then *)
(*     holds for every tensor: restricted tensors are the sums ha+hb,        *)
(*     gaa+gab+gbb of basis elements),                                       *)
(*   - a few dense generic tensors (restricted and unrestricted).            *)
(* The state is the chosen (tensor, assignment); there is no dynamics.       *)
(***************************************************************************)
EXTENDS C04Defs

CONSTANTS N,          \* molecular orbitals per spin
          Restricted  \* BOOLEAN: same assignment for both spins (RHF/ROHF shape) / independent (UHF)

VARIABLES tk,         \* tensor descriptor
          asg         \* <<assignment alpha, assignment beta>>: orbital |-> "fo" | "act" | "fv" (sequences)

R == 0..(N - 1)
Pairs == {pq \in R \X R : pq[1] <= pq[2]}
PairPairs == {x \in Pairs \X Pairs : x[1][1] < x[2][1] \/ (x[1][1] = x[2][1] /\ x[1][2] <= x[2][2])}

\* g[p,q,r,s] = (ps|qr): x-pair {p,s}, y-pair {q,r}
UP(a, b) == IF a <= b THEN <<a, b>> ELSE <<b, a>>
Zero2 == TLCEval([p \in 1..N |-> TLCEval([q \in 1..N |-> 0])])
Zero4 == TLCEval([p \in 1..N |-> TLCEval([q \in 1..N |-> TLCEval([r \in 1..N |-> TLCEval([s \in 1..N |-> 0])])])])
UnitH(ab) == TLCEval([p \in 1..N |-> TLCEval([q \in 1..N |-> IF UP(p - 1, q - 1) = ab THEN 1 ELSE 0])])
\* same-spin class: unordered pair of pairs
UnitGss(xy) == TLCEval([p \in 1..N |-> TLCEval([q \in 1..N |-> TLCEval([r \in 1..N |-> TLCEval([s \in 1..N |->
                 LET a == UP(p - 1, s - 1)  b == UP(q - 1, r - 1)
                 IN IF <<a, b>> = xy \/ <<b, a>> = xy THEN 1 ELSE 0])])])])
\* opposite-spin class: (alpha pair, beta pair) ordered
UnitGab(xy) == TLCEval([p \in 1..N |-> TLCEval([q \in 1..N |-> TLCEval([r \in 1..N |-> TLCEval([s \in 1..N |->
                 IF <<UP(p - 1, s - 1), UP(q - 1, r - 1)>> = xy THEN 1 ELSE 0])])])])

\* dense generic tensors with the physical symmetries (k selects the instance)
PairIdx(a, b) == LET u == UP(a, b) IN u[1] * N + u[2]
GenH(k) == TLCEval([p \in 1..N |-> TLCEval([q \in 1..N |-> (((p * q + p + q) * (k + 1) + k) % 5) - 2])])
GenF(i, j, k) == ((((i + 1) * (j + 1) + i + j) * (k + 2) + k) % 5) - 2
GenGss(k) == TLCEval([p \in 1..N |-> TLCEval([q \in 1..N |-> TLCEval([r \in 1..N |-> TLCEval([s \in 1..N |->
                 GenF(PairIdx(p - 1, s - 1), PairIdx(q - 1, r - 1), k)])])])])
GenGab(k) == TLCEval([p \in 1..N |-> TLCEval([q \in 1..N |-> TLCEval([r \in 1..N |-> TLCEval([s \in 1..N |->
                 ((3 * PairIdx(p - 1, s - 1) + 5 * PairIdx(q - 1, r - 1) + k) % 7) - 3])])])])

Descriptors ==
       {<<"c0">>}
  \cup {<<"ha", ab>> : ab \in Pairs} \cup {<<"hb", ab>> : ab \in Pairs}
  \cup {<<"gaa", xy>> : xy \in PairPairs} \cup {<<"gbb", xy>> : xy \in PairPairs}
  \cup {<<"gab", xy>> : xy \in Pairs \X Pairs}
  \cup {<<"genR", k>> : k \in 1..2} \cup {<<"genU", k>> : k \in 1..2}

TensorOf(d) ==
  LET mk(c0, ha, hb, gaa, gab, gbb) == [uhf |-> TRUE, n |-> N, c0 |-> c0, h |-> <<ha, hb>>, g |-> <<gaa, gab, gbb>>]
  IN CASE d[1] = "c0"   -> mk(1, Zero2, Zero2, Zero4, Zero4, Zero4)
       [] d[1] = "ha"   -> mk(0, UnitH(d[2]), Zero2, Zero4, Zero4, Zero4)
       [] d[1] = "hb"   -> mk(0, Zero2, UnitH(d[2]), Zero4, Zero4, Zero4)
       [] d[1] = "gaa"  -> mk(0, Zero2, Zero2, UnitGss(d[2]), Zero4, Zero4)
       [] d[1] = "gbb"  -> mk(0, Zero2, Zero2, Zero4, Zero4, UnitGss(d[2]))
       [] d[1] = "gab"  -> mk(0, Zero2, Zero2, Zero4, UnitGab(d[2]), Zero4)
       [] d[1] = "genR" -> mk(d[2], GenH(d[2]), GenH(d[2]), GenGss(d[2]), GenGss(d[2]), GenGss(d[2]))
       [] d[1] = "genU" -> mk(d[2], GenH(d[2]), GenH(d[2] + 2), GenGss(d[2]), GenGab(d[2]), GenGss(d[2] + 2))

Assignments == {a \in [1..N -> {"fo", "act", "fv"}] : \E i \in 1..N : a[i] = "act"}

Init == /\ tk \in Descriptors
        /\ asg \in (IF Restricted THEN {<<a, a>> : a \in Assignments} ELSE Assignments \X Assignments)
Next == UNCHANGED <<tk, asg>>

ActSet(s) == {i \in R : asg[s + 1][i + 1] = "act"}
FrozenSO  == {<<i, s>> \in R \X (0..1) : asg[s + 1][i + 1] = "fo"}
\* orders of the active list: increasing, decreasing, and (alpha decreasing, beta increasing)
ActOrders == { <<SetToSortSeq(ActSet(0), <), SetToSortSeq(ActSet(1), <)>>,
               <<Reverse(SetToSortSeq(ActSet(0), <)), Reverse(SetToSortSeq(ActSet(1), <))>>,
               <<Reverse(SetToSortSeq(ActSet(0), <)), SetToSortSeq(ActSet(1), <)>> }

T == TensorOf(tk)

TensorSymmetric == TensorsSymmetric(T)

\* the folding formula satisfies the semantic definition (K = 1: FoldedTerms are the terms of 2 * H_eff)
FoldingCorrect ==
  \A acts \in ActOrders :
     EffectiveOK(T, acts, LabelSet(acts, FrozenSO), FoldedTerms(T, acts, FrozenSO), 1)

\* mean-field energy: for the determinant "frozen occupied + the lowest active orbitals" the folded operator
\* gives the same diagonal element as the first-principles term-by-term evaluation ElemFull2
DiagonalConsistent ==
  \A acts \in ActOrders :
     LET FL == LabelSet(acts, FrozenSO)
         m  == EffMatrix2(T, acts, FL)
     IN \A Y \in ActiveDets(acts) : m[Y][Y] = ElemFull2(T, acts, Y \cup FL, Y \cup FL)

\* negative control of the oracle itself: dropping the exchange part of the one-body correction must be noticed
\* for some tensor/assignment (evaluated as an invariant expected to be VIOLATED)
NoExchangeTerms(acts) ==
  LET ASO == {so \in R \X (0..1) : so[1] \in ToSet(acts[so[2] + 1])}
      L(U) == Label(acts, U[1], U[2])
      core2 == 2 * T.c0 + SumOver(FrozenSO, LAMBDA I : 2 * TH(T, I[2], I[1], I[1]))
                 + SumOver(FrozenSO \X FrozenSO, LAMBDA IJ : VSO(T, IJ[1], IJ[2], IJ[2], IJ[1]) - VSO(T, IJ[1], IJ[2], IJ[1], IJ[2]))
      h2(U, W) == (IF U[2] = W[2] THEN 2 * TH(T, U[2], U[1], W[1]) ELSE 0) + SumOver(FrozenSO, LAMBDA I : 2 * VSO(T, I, U, W, I))
  IN << [t |-> <<>>, c |-> core2] >>
     \o SetToSeq({[t |-> << <<L(UW[1]), 1>>, <<L(UW[2]), 0>> >>, c |-> h2(UW[1], UW[2])] : UW \in ASO \X ASO})
     \o SetToSeq({[t |-> << <<L(x[1]), 1>>, <<L(x[2]), 1>>, <<L(x[3]), 0>>, <<L(x[4]), 0>> >>,
                   c |-> VSO(T, x[1], x[2], x[3], x[4])] : x \in ASO \X ASO \X ASO \X ASO})
ControlNoExchange ==
  \A acts \in ActOrders : EffectiveOK(T, acts, LabelSet(acts, FrozenSO), NoExchangeTerms(acts), 1)
=============================================================================
