------------------------------ MODULE C04Defs ------------------------------
(***************************************************************************)
(* C04 - qubit Hamiltonians reproduce mean-field and full-CI energies.      *)
(* Definitions shared by C04FrozenOrbitals (state machine of freeze_mos),   *)
(* C04ActiveSpace (S: folding formula vs. semantic definition) and          *)
(* C04Trace (V: artefacts recorded from the implementation).                *)
(*                                                                         *)
(* PART 1 - orbital partition.  A reference is described by `mo`:           *)
(*   restricted (RHF/ROHF): mo = <<o_1 .. o_N>>, o_i in {0,1,2}              *)
(*   unrestricted (UHF):    mo = << <<a_1..a_N>>, <<b_1..b_N>> >>, in {0,1}  *)
(* MO indices are 0-based like in the implementation.  A freeze request is  *)
(* a record [kind, n, a, b]: "none" | "core" | "int" n | "list" a |         *)
(* "lists" a b (per-spin lists, UHF).  Part(..) is the resulting partition  *)
(* (active occupied, frozen occupied, active virtual, frozen virtual) per   *)
(* spin; Valid(..) says whether the request must be accepted or rejected.   *)
(*                                                                         *)
(* PART 2 - Hamiltonians.  Integer tensors in the index order documented   *)
(* by IntegralSolver.get_integrals (= openfermion's):                       *)
(*   h[p,q]     = <p|T+V|q>                                                  *)
(*   g[p,q,r,s] = INT p*(x) q*(y) V(x,y) r(y) s(x)                            *)
(*   H = c0 + SUM h[p,q] a+_ps a_qs                                          *)
(*          + 1/2 SUM g[p,q,r,s] a+_ps a+_qt a_rt a_ss      (s,t spins)      *)
(* UHF: h = <<ha, hb>>, g = <<gaa, gab, gbb>> with gab[p,q,r,s]: p,s alpha   *)
(* orbitals, q,r beta orbitals.  Everything is evaluated on 2*H so that     *)
(* all coefficients are integers (2h, g); recorded coefficients travel as   *)
(* integers c * 2^K.                                                        *)
(*                                                                         *)
(* The frozen-core effective operator is DEFINED semantically:              *)
(*   <x| H_eff |y> = < F u x | H_full | F u y >    for all determinants x,y *)
(* of the active spin orbitals, F = the frozen occupied spin orbitals.      *)
(* Determinant signs: the full space is labelled so that active spin        *)
(* orbital (position j in the implementation's active list, spin s) has     *)
(* label 2j+s -- the mode index used by the implementation's fermionic      *)
(* Hamiltonian -- and every frozen spin orbital has a larger label; with    *)
(* Fock.tla's convention |D> = prod_{p in D increasing} a+_p |vac> this is  *)
(* the embedding  |x>  |->  prod_{p in x} a+_p  prod_{f in F} a+_f |vac>.   *)
(***************************************************************************)
EXTENDS Fock, TLC, Json, IOUtils, SequencesExt

Max2(a, b) == IF a >= b THEN a ELSE b

\* ======================= PART 1: orbital partition =========================
NMosOf(uhf, mo) == IF uhf THEN Len(mo[1]) ELSE Len(mo)
MOs(uhf, mo)    == 0..(NMosOf(uhf, mo) - 1)

\* 0/1 occupation of spin orbital (i, s), s = 0 alpha / 1 beta.  ROHF (high spin): a singly
\* occupied orbital holds an alpha electron.
OccSpin(uhf, mo, i, s) ==
  IF uhf THEN mo[s + 1][i + 1]
  ELSE IF s = 0 THEN (IF mo[i + 1] >= 1 THEN 1 ELSE 0) ELSE (IF mo[i + 1] = 2 THEN 1 ELSE 0)

\* "occupied" in the sense of the four lists (restricted: occupation > 0)
OccupiedSet(uhf, mo, s) == {i \in MOs(uhf, mo) : IF uhf THEN mo[s + 1][i + 1] > 0 ELSE mo[i + 1] > 0}

ReqNone        == [kind |-> "none",  n |-> 0, a |-> <<>>, b |-> <<>>]
ReqCore        == [kind |-> "core",  n |-> 0, a |-> <<>>, b |-> <<>>]
ReqInt(n)      == [kind |-> "int",   n |-> n, a |-> <<>>, b |-> <<>>]
ReqList(a)     == [kind |-> "list",  n |-> 0, a |-> a,    b |-> <<>>]
ReqLists(a, b) == [kind |-> "lists", n |-> 0, a |-> a,    b |-> b]

\* documented frozen-core table: first row none, second row 1s, third row 1s 2s 2p
ElemCore(e) == IF e \in {"Li", "Be", "B", "C", "N", "O", "F", "Ne"} THEN 1
               ELSE IF e \in {"Na", "Mg", "Al", "Si", "P", "S", "Cl", "Ar"} THEN 5 ELSE 0
CoreCount(elems) == SumSeq(TLCEval([j \in 1..Len(elems) |-> ElemCore(elems[j])]), Len(elems))

UpTo(n) == TLCEval([j \in 1..n |-> j - 1])      \* <<0, 1, .., n-1>>

ReqTypeOK(uhf, req) ==
  \/ req.kind \in {"none", "core", "int"}
  \/ req.kind = "list" /\ ~uhf
  \/ req.kind = "lists" /\ uhf

\* requested frozen MO indices for spin s, as given (order kept)
FrozenSeq(req, elems, s) ==
  CASE req.kind = "none"  -> <<>>
    [] req.kind = "core"  -> UpTo(CoreCount(elems))
    [] req.kind = "int"   -> UpTo(req.n)
    [] req.kind = "list"  -> req.a
    [] req.kind = "lists" -> IF s = 0 THEN req.a ELSE req.b
FrozenSet(req, elems, s) == ToSet(FrozenSeq(req, elems, s))

NoDup(sq) == Cardinality(ToSet(sq)) = Len(sq)
\* the domain of requests the specification speaks about: a count, or distinct in-range indices
ReqInDomain(uhf, mo, req, elems) ==
  /\ req.kind = "int" => req.n >= 0
  /\ req.kind \in {"list", "lists"} =>
       \A s \in 0..1 : NoDup(FrozenSeq(req, elems, s)) /\ FrozenSet(req, elems, s) \subseteq MOs(uhf, mo)

Partition(uhf, mo, F, s) ==
  LET O == OccupiedSet(uhf, mo, s)
      V == MOs(uhf, mo) \ O
  IN [ao |-> O \ F, fo |-> O \cap F, av |-> V \ F, fv |-> V \cap F]

\* <<partition alpha, partition beta>>  (restricted: both equal)
Part(uhf, mo, req, elems) ==
  << Partition(uhf, mo, FrozenSet(req, elems, 0), 0), Partition(uhf, mo, FrozenSet(req, elems, 1), 1) >>

NActSpin(uhf, mo, part, s) == Cardinality({i \in part[s + 1].ao : OccSpin(uhf, mo, i, s) = 1})
NActMos(part, s)           == Cardinality(part[s + 1].ao \cup part[s + 1].av)

Valid(uhf, mo, req, elems) ==
  LET part == Part(uhf, mo, req, elems)
      na == NActSpin(uhf, mo, part, 0)
      nb == NActSpin(uhf, mo, part, 1)
  IN /\ ReqTypeOK(uhf, req)
     /\ ReqInDomain(uhf, mo, req, elems)
     /\ na + nb > 0                                           \* there are active electrons
     /\ na < NActMos(part, 0) \/ nb < NActMos(part, 1)        \* there is an empty active spin orbital
     /\ ~uhf => \A i \in part[1].fo : mo[i + 1] # 1          \* no half-filled frozen orbital (RHF/ROHF)

\* the first violated validity clause ("ok" when the request is valid)
Why(uhf, mo, req, elems) ==
  LET part == Part(uhf, mo, req, elems)
      na == NActSpin(uhf, mo, part, 0)
      nb == NActSpin(uhf, mo, part, 1)
  IN IF ~ReqTypeOK(uhf, req) THEN "wrong-type"
     ELSE IF ~ReqInDomain(uhf, mo, req, elems) THEN "out-of-domain"
     ELSE IF na + nb = 0 THEN "no-active-electrons"
     ELSE IF ~(na < NActMos(part, 0) \/ nb < NActMos(part, 1)) THEN "all-active-occupied"
     ELSE IF ~uhf /\ (\E i \in part[1].fo : mo[i + 1] = 1) THEN "half-filled-frozen"
     ELSE "ok"

\* everything the implementation derives from the partition
Obs(uhf, mo, req, elems) ==
  LET part == Part(uhf, mo, req, elems)
      na == NActSpin(uhf, mo, part, 0)
      nb == NActSpin(uhf, mo, part, 1)
  IN [req |-> req, part |-> part, nel |-> na + nb, na |-> na, nb |-> nb, spin |-> na - nb,
      nmos |-> <<NActMos(part, 0), NActMos(part, 1)>>,
      nsos |-> 2 * Max2(NActMos(part, 0), NActMos(part, 1)),
      frozen |-> <<part[1].fo \cup part[1].fv, part[2].fo \cup part[2].fv>>]

\* frozen occupied spin orbitals <<i, s>>
FrozenOccSO(uhf, mo, part) ==
  {<<i, s>> \in MOs(uhf, mo) \X (0..1) : i \in part[s + 1].fo /\ OccSpin(uhf, mo, i, s) = 1}
\* all occupied spin orbitals (the mean-field determinant)
AllOccSO(uhf, mo) == {<<i, s>> \in MOs(uhf, mo) \X (0..1) : OccSpin(uhf, mo, i, s) = 1}

\* ========================= PART 2: Hamiltonians ============================
\* T = [uhf, n, c0, h, g]; h = <<h>> | <<ha, hb>>, g = <<g>> | <<gaa, gab, gbb>>; tensors are nested sequences
TH(T, s, p, q) == IF T.uhf THEN T.h[s + 1][p + 1][q + 1] ELSE T.h[1][p + 1][q + 1]
\* coefficient of  a+_{p s} a+_{q t} a_{r t} a_{s' s}  in 2 H
TG(T, s, t, p, q, r, sp) ==
  IF ~T.uhf THEN T.g[1][p + 1][q + 1][r + 1][sp + 1]
  ELSE IF s = 0 /\ t = 0 THEN T.g[1][p + 1][q + 1][r + 1][sp + 1]
  ELSE IF s = 1 /\ t = 1 THEN T.g[3][p + 1][q + 1][r + 1][sp + 1]
  ELSE IF s = 0 /\ t = 1 THEN T.g[2][p + 1][q + 1][r + 1][sp + 1]
  ELSE T.g[2][q + 1][p + 1][sp + 1][r + 1]     \* x-particle beta, y-particle alpha: swap the two particles

\* the physical symmetries assumed of the input tensors (real orbitals)
TensorsSymmetric(T) ==
  LET R == 0..(T.n - 1) IN
  /\ \A s \in 0..1, p \in R, q \in R : TH(T, s, p, q) = TH(T, s, q, p)
  /\ \A s \in 0..1, t \in 0..1, p \in R, q \in R, r \in R, u \in R :
        /\ TG(T, s, t, p, q, r, u) = TG(T, t, s, q, p, u, r)      \* particle exchange
        /\ TG(T, s, t, p, q, r, u) = TG(T, s, t, u, q, r, p)      \* real orbitals, x pair
        /\ TG(T, s, t, p, q, r, u) = TG(T, s, t, p, r, q, u)      \* real orbitals, y pair

\* --- labelling of the full space --------------------------------------------
\* acts = <<active MOs alpha, active MOs beta>> (sequences, the implementation's order)
PosIn(sq, i) == CHOOSE j \in 1..Len(sq) : sq[j] = i
NActLabels(acts) == 2 * Max2(Len(acts[1]), Len(acts[2]))
Label(acts, i, s) ==
  IF i \in ToSet(acts[s + 1]) THEN 2 * (PosIn(acts[s + 1], i) - 1) + s
  ELSE NActLabels(acts) + 2 * i + s

ActiveLabels(acts) == 0..(NActLabels(acts) - 1)
ActiveDets(acts)   == SUBSET ActiveLabels(acts)
LabelSet(acts, SOs) == {Label(acts, so[1], so[2]) : so \in SOs}

\* --- vectors restricted to the embedded active space --------------------------
\* a vector is a function  active determinant |-> integer  (component on  x u FL)
ZeroVec(acts) == TLCEval([X \in ActiveDets(acts) |-> 0])

\* add c * (t |Y u FL>) projected on { X u FL }
AccTerm(acc, t, c, Y, FL, AL) ==
  LET r == ApplyTerm(t, Y \cup FL) IN
  IF r.z \/ (r.d \ AL) # FL THEN acc
  ELSE LET X == r.d \cap AL IN TLCEval([acc EXCEPT ![X] = @ + r.s * c])

\* an operator is a sequence of [t |-> <<<<mode, dag>>, ..>>, c |-> integer]
\* terms |Y u FL>  projected on the embedded active space
ApplyTermsOn(terms, acts, Y, FL) ==
  LET AL == ActiveLabels(acts) IN
  FoldLeft(LAMBDA acc, tm : AccTerm(acc, tm.t, tm.c, Y, FL, AL), ZeroVec(acts), terms)

OneBodyIdx(T)  == {x \in (0..(T.n-1)) \X (0..(T.n-1)) \X (0..1) : TH(T, x[3], x[1], x[2]) # 0}
TwoBodyIdx(T)  == {x \in (0..(T.n-1)) \X (0..(T.n-1)) \X (0..(T.n-1)) \X (0..(T.n-1)) \X (0..1) \X (0..1) :
                     TG(T, x[5], x[6], x[1], x[2], x[3], x[4]) # 0}

\* the terms of 2 * H_full on the labelled full space, from first principles:
\*   2 c0 + SUM 2 h[p,q] a+_{p s} a_{q s} + SUM g(s,t)[p,q,r,u] a+_{p s} a+_{q t} a_{r t} a_{u s}
FullTerms2(T, acts) ==
  LET lab == TLCEval([x \in (0..(T.n-1)) \X (0..1) |-> Label(acts, x[1], x[2])]) IN
  << [t |-> <<>>, c |-> 2 * T.c0] >>
  \o SetToSeq({[t |-> << <<lab[<<x[1], x[3]>>], 1>>, <<lab[<<x[2], x[3]>>], 0>> >>,
                c |-> 2 * TH(T, x[3], x[1], x[2])] : x \in OneBodyIdx(T)})
  \o SetToSeq({[t |-> << <<lab[<<x[1], x[5]>>], 1>>, <<lab[<<x[2], x[6]>>], 1>>,
                         <<lab[<<x[3], x[6]>>], 0>>, <<lab[<<x[4], x[5]>>], 0>> >>,
                c |-> TG(T, x[5], x[6], x[1], x[2], x[3], x[4])] : x \in TwoBodyIdx(T)})

\* the matrix  EffMatrix2[Y][X] = < X u F | 2 H_full | Y u F >  -- the semantic definition of 2 * H_eff
EffMatrix2(T, acts, FL) ==
  LET ft == FullTerms2(T, acts) IN
  TLCEval([Y \in ActiveDets(acts) |-> ApplyTermsOn(ft, acts, Y, FL)])

\* matrix of an operator on the active labels
TermsMatrix(terms, acts) == TLCEval([Y \in ActiveDets(acts) |-> ApplyTermsOn(terms, acts, Y, {})])

\* 2^K * <X|terms|Y> = 2^(K-1) * <X u F| 2 H_full |Y u F>  for all active determinants (terms carry c * 2^K, K >= 1)
EffectiveOK(T, acts, FL, terms, K) ==
  LET a == TermsMatrix(terms, acts)
      b == EffMatrix2(T, acts, FL)
  IN \A Y \in ActiveDets(acts), X \in ActiveDets(acts) : a[Y][X] = Pow2(K - 1) * b[Y][X]

\* first mismatch <<X, Y, got, expected>>, for diagnostics
EffectiveMismatch(T, acts, FL, terms, K) ==
  LET a == TermsMatrix(terms, acts)
      b == EffMatrix2(T, acts, FL)
      bad == {xy \in ActiveDets(acts) \X ActiveDets(acts) : a[xy[2]][xy[1]] # Pow2(K - 1) * b[xy[2]][xy[1]]}
  IN IF bad = {} THEN <<>> ELSE LET xy == CHOOSE xy \in bad : TRUE IN
       <<xy[1], xy[2], a[xy[2]][xy[1]], Pow2(K - 1) * b[xy[2]][xy[1]]>>

\* --- the textbook folding formula (algorithm model, spin-orbital form) ---------
\* spin-orbital two-body tensor V[P,Q,R,S] of 2H with P = <<p, s>> ...: nonzero iff spin(P)=spin(S), spin(Q)=spin(R)
VSO(T, P, Q, R, S) == IF P[2] = S[2] /\ Q[2] = R[2] THEN TG(T, P[2], Q[2], P[1], Q[1], R[1], S[1]) ELSE 0
SumOver(S, f(_)) == FoldSet(LAMBDA x, acc : acc + f(x), 0, S)

\* F = set of frozen occupied spin orbitals <<i, s>>; result: terms of 2 * H_eff on the active labels (K = 1)
FoldedTerms(T, acts, F) ==
  LET ASO == {<<i, s>> \in (0..(T.n - 1)) \X (0..1) : i \in ToSet(acts[s + 1])}
      core2 == 2 * T.c0 + SumOver(F, LAMBDA I : 2 * TH(T, I[2], I[1], I[1]))
                 + SumOver(F \X F, LAMBDA IJ : VSO(T, IJ[1], IJ[2], IJ[2], IJ[1]) - VSO(T, IJ[1], IJ[2], IJ[1], IJ[2]))
      h2(U, W) == (IF U[2] = W[2] THEN 2 * TH(T, U[2], U[1], W[1]) ELSE 0)
                    + SumOver(F, LAMBDA I : 2 * (VSO(T, I, U, W, I) - VSO(T, I, U, I, W)))
      one == {UW \in ASO \X ASO : h2(UW[1], UW[2]) # 0}
      two == {x \in ASO \X ASO \X ASO \X ASO : VSO(T, x[1], x[2], x[3], x[4]) # 0}
      L(U) == Label(acts, U[1], U[2])
  IN << [t |-> <<>>, c |-> core2] >>
     \o SetToSeq({[t |-> << <<L(UW[1]), 1>>, <<L(UW[2]), 0>> >>, c |-> h2(UW[1], UW[2])] : UW \in one})
     \o SetToSeq({[t |-> << <<L(x[1]), 1>>, <<L(x[2]), 1>>, <<L(x[3]), 0>>, <<L(x[4]), 0>> >>,
                   c |-> VSO(T, x[1], x[2], x[3], x[4])] : x \in two})

\* --- qubit level ---------------------------------------------------------------
BitsIdx(bits, n) == SumSeq(TLCEval([q \in 1..n |-> bits[q] * Pow2(n - q)]), n)
\* words: sequence of [w |-> letters, c |-> ring element]
QOp(words) == OpFromTerms(words)

\* 2 <X| H_full |Y> for determinants of the full space given as sets of labels (first principles, term by term)
Term1(acts, x) == << <<Label(acts, x[1], x[3]), 1>>, <<Label(acts, x[2], x[3]), 0>> >>
Term2(acts, x) == << <<Label(acts, x[1], x[5]), 1>>, <<Label(acts, x[2], x[6]), 1>>,
                     <<Label(acts, x[3], x[6]), 0>>, <<Label(acts, x[4], x[5]), 0>> >>
ElemFull2(T, acts, X, Y) ==
  (IF X = Y THEN 2 * T.c0 ELSE 0)
  + SumOver(OneBodyIdx(T), LAMBDA x : 2 * TH(T, x[3], x[1], x[2]) * TermElement(Term1(acts, x), X, Y))
  + SumOver(TwoBodyIdx(T), LAMBDA x : TG(T, x[5], x[6], x[1], x[2], x[3], x[4]) * TermElement(Term2(acts, x), X, Y))

\* twice the energy of the mean-field determinant (all occupied spin orbitals)
MeanField2(T, acts, uhf, mo) == LET D == LabelSet(acts, AllOccSO(uhf, mo)) IN ElemFull2(T, acts, D, D)
=============================================================================
