-------------------------- MODULE C04FrozenOrbitals --------------------------
(***************************************************************************)
(* State machine of SecondQuantizedMolecule.freeze_mos.                     *)
(*                                                                         *)
(* State:  mo    the occupations served by the mean field (fixed)           *)
(*         objs  the live molecule objects; each is [req, part]: the last   *)
(*               accepted freeze request and the orbital partition          *)
(*         hist  the calls made so far with their outcome and the expected  *)
(*               observable state of every object after the call (export)   *)
(* Object 1 is created with frozen_orbitals = None (constructing a molecule *)
(* with request r is the same as constructing it with None and calling      *)
(* freeze_mos(r) in place: the harness replays the first in-place freeze of *)
(* object 1 through both routes).                                           *)
(* Action Freeze(o, req, inplace): a VALID request is accepted - in place   *)
(* object o takes the new partition, otherwise a new object (the returned   *)
(* copy) is appended and object o is unchanged; an INVALID request is       *)
(* rejected: the call must raise and every object stays as it was.          *)
(***************************************************************************)
EXTENDS C04Defs

CONSTANTS NMos,       \* number of molecular orbitals
          Uhf,        \* BOOLEAN
          Elems,      \* element symbols of the synthetic molecule (frozen_core table)
          MaxSteps,   \* freeze calls per behaviour
          MaxObjs,    \* live objects
          Aufbau,     \* BOOLEAN: only aufbau occupation patterns (else every pattern)
          Export      \* BOOLEAN: print every explored transition

\* element lists offered to the configuration files (cfg files cannot write tuples)
ElemsH2  == <<"H", "H">>             \* frozen core 0
ElemsLiH == <<"Li", "H">>            \* frozen core 1
ElemsC2  == <<"C", "H", "C">>        \* frozen core 2
ElemsNaH == <<"Na", "H">>            \* frozen core 5

VARIABLES mo, objs, hist

vars == <<mo, objs, hist>>

Fill(k) == TLCEval([j \in 1..NMos |-> IF j <= k THEN 1 ELSE 0])
Fill2(a, b) == TLCEval([j \in 1..NMos |-> IF j <= a THEN 2 ELSE IF j <= a + b THEN 1 ELSE 0])

Patterns ==
  IF Uhf
  THEN IF Aufbau THEN {<<Fill(a), Fill(b)>> : a \in 0..NMos, b \in 0..NMos}
       ELSE {<<a, b>> : a \in [1..NMos -> 0..1], b \in [1..NMos -> 0..1]}
  ELSE IF Aufbau THEN {Fill2(ab[1], ab[2]) : ab \in {x \in (0..NMos) \X (0..NMos) : x[1] + x[2] <= NMos}}
       ELSE [1..NMos -> 0..2]

IncSeq(S) == SetToSortSeq(S, <)
IncSeqs   == {IncSeq(S) : S \in SUBSET (0..(NMos - 1))}
\* lists in increasing order, plus the reversed order of every list of >= 2 entries
ListSeqs  == IncSeqs \cup {Reverse(s) : s \in IncSeqs}

Requests ==
       {ReqNone, ReqCore}
  \cup {ReqInt(n) : n \in 0..(NMos + 1)}
  \cup (IF Uhf THEN {ReqLists(a, b) : a \in IncSeqs, b \in IncSeqs} \cup {ReqLists(Reverse(a), a) : a \in IncSeqs}
               \cup {ReqList(<<0>>), ReqList(<<0, 1>>)}                        \* wrong type under UHF
        ELSE {ReqList(a) : a \in ListSeqs} \cup {ReqLists(<<0>>, <<0>>)})         \* wrong type under RHF/ROHF

NewObj(req) == [req |-> req, part |-> Part(Uhf, mo, req, Elems)]
ObsAll(os)  == TLCEval([j \in 1..Len(os) |-> Obs(Uhf, mo, os[j].req, Elems)])

Init == /\ mo \in Patterns
        /\ Valid(Uhf, mo, ReqNone, Elems)
        /\ objs = <<NewObj(ReqNone)>>
        /\ hist = <<>>

Freeze(o, req, inplace) ==
  /\ Len(hist) < MaxSteps
  /\ inplace \/ Len(objs) < MaxObjs
  /\ LET acc == Valid(Uhf, mo, req, Elems)
         nxt == IF ~acc THEN objs
                ELSE IF inplace THEN [objs EXCEPT ![o] = NewObj(req)]
                ELSE Append(objs, NewObj(req))
     IN /\ objs' = nxt
        /\ hist' = Append(hist, [o |-> o, req |-> req, inplace |-> inplace, acc |-> acc, why |-> Why(Uhf, mo, req, Elems), post |-> ObsAll(nxt)])
  /\ UNCHANGED mo
  /\ (Export => PrintT(<<"TR", ToJson([uhf |-> Uhf, mo |-> mo, elems |-> Elems, hist |-> hist'])>>))

FreezeInPlace == \E o \in 1..Len(objs), req \in Requests : Freeze(o, req, TRUE)
FreezeCopy    == \E o \in 1..Len(objs), req \in Requests : Freeze(o, req, FALSE)
Next == FreezeInPlace \/ FreezeCopy

Spec == Init /\ [][Next]_vars

\* two histories reaching the same objects are one state
View == <<mo, objs, Len(hist)>>

\* ---- properties of the partition semantics (checked in every reachable state) -------------
All == 0..(NMos - 1)
PartitionOK ==
  \A j \in 1..Len(objs), s \in 1..2 :
     LET p == objs[j].part[s] IN
     /\ p.ao \cup p.fo \cup p.av \cup p.fv = All
     /\ Cardinality(p.ao) + Cardinality(p.fo) + Cardinality(p.av) + Cardinality(p.fv) = NMos
OccupiedVirtualOK ==
  \A j \in 1..Len(objs), s \in 0..1 :
     LET p == objs[j].part[s + 1] IN
     /\ p.ao \cup p.fo = OccupiedSet(Uhf, mo, s)
     /\ p.fo \cup p.fv = FrozenSet(objs[j].req, Elems, s) \cap All
TotalSpin(s) == Cardinality({i \in All : OccSpin(Uhf, mo, i, s) = 1})
FrozenSpin(p, s) == Cardinality({i \in p[s + 1].fo : OccSpin(Uhf, mo, i, s) = 1})
CountsOK ==
  \A j \in 1..Len(objs) :
     LET ob == Obs(Uhf, mo, objs[j].req, Elems) IN
     /\ ob.na = TotalSpin(0) - FrozenSpin(ob.part, 0)
     /\ ob.nb = TotalSpin(1) - FrozenSpin(ob.part, 1)
     /\ ob.nel = ob.na + ob.nb /\ ob.nel > 0
     /\ ob.nel < ob.nmos[1] + ob.nmos[2]
     /\ ob.nsos >= 2 * ob.nmos[1] /\ ob.nsos >= 2 * ob.nmos[2] /\ ob.nsos \in {2 * ob.nmos[1], 2 * ob.nmos[2]}
     \* restricted references: the frozen orbitals are doubly occupied, the active spin is the molecule's spin
     /\ ~Uhf => /\ ob.spin = TotalSpin(0) - TotalSpin(1)
                /\ ob.nel = TotalSpin(0) + TotalSpin(1) - 2 * Cardinality(ob.part[1].fo)
\* every live object carries an accepted request
ObjectsValid == \A j \in 1..Len(objs) : Valid(Uhf, mo, objs[j].req, Elems) /\ Why(Uhf, mo, objs[j].req, Elems) = "ok"
HistConsistent == \A j \in 1..Len(hist) : hist[j].acc <=> (hist[j].why = "ok")
\* a rejected call leaves every object unchanged; an accepted copy leaves the source unchanged
FrameOK ==
  [][ \A o \in 1..Len(objs) : (Len(objs') > Len(objs) \/ ~hist'[Len(hist')].acc) => objs'[o] = objs[o] ]_vars
=============================================================================
