------------------------------ MODULE C04Trace ------------------------------
(***************************************************************************)
(* V-part of C04: artefacts recorded from the implementation, judged by TLC.*)
(* Every job carries the inputs that were served to the implementation      *)
(* (integer tensors T, occupations mo, freeze request req) and what the     *)
(* implementation produced; the expected values are computed here from the  *)
(* inputs alone (C04Defs: partition semantics, first-principles H_full).    *)
(*                                                                         *)
(* kinds                                                                    *)
(*  "eff"   terms of sqmol.fermionic_hamiltonian (c * 2^K), active_mos      *)
(*          -> <x|H_code|y> = <F u x|H_full|F u y> for ALL active dets       *)
(*  "qref"  qubit Hamiltonian words (ring coefficients c * 2^K) and the     *)
(*          code's reference bit vector                                      *)
(*          -> <v|H_q|v> = <HF|H_full|HF>  (all occupied spin orbitals)      *)
(*  "qsec"  qubit Hamiltonian + the code's encoding e(x) of every           *)
(*          determinant x of the (n_alpha, n_beta) sector                    *)
(*          -> <e(x)|H_q|e(y)> = i^(s(y)-s(x)) <F u x|H_full|F u y> for some *)
(*             phase assignment s (an encoding maps a determinant to a basis *)
(*             state up to a phase): same operator, hence same spectrum;     *)
(*             no leakage out of span{e(x)}                                  *)
(*  "sref"  (structure for the numeric tail) words, bit vector              *)
(*          -> prints e_j = <v|P_j|v> in {-1,0,1}                            *)
(*  "ssec"  (structure for the numeric tail) words, encoded sector basis    *)
(*          -> prints for every word j, basis state b: <<position of the     *)
(*             image basis state (0 = leaves the span), phase exponent p,    *)
(*             index z of the image state>>  with P_j |e_b> = i^p |z>        *)
(***************************************************************************)
EXTENDS C04Defs

Jobs == JsonDeserialize(IOEnv.VERIF_JOBS)
VARIABLE i

SeqSet(sq) == ToSet(sq)
IsPermOf(sq, S) == NoDup(sq) /\ ToSet(sq) = S

\* the spec's own view of the job: partition, frozen occupied spin orbitals
JPart(j) == Part(j.uhf, j.mo, j.req, j.elems)
JActsOK(j) ==
  LET part == JPart(j) IN
  /\ Len(j.acts) = 2
  /\ \A s \in 1..2 : IsPermOf(j.acts[s], part[s].ao \cup part[s].av)
JFL(j) == LabelSet(j.acts, FrozenOccSO(j.uhf, j.mo, JPart(j)))

TensorShapeOK(T) ==
  /\ Len(T.h) = (IF T.uhf THEN 2 ELSE 1) /\ Len(T.g) = (IF T.uhf THEN 3 ELSE 1)
  /\ \A a \in 1..Len(T.h) : Len(T.h[a]) = T.n /\ \A p \in 1..T.n : Len(T.h[a][p]) = T.n
  /\ \A a \in 1..Len(T.g) : Len(T.g[a]) = T.n

TermsShapeOK(terms, nl) ==
  \A a \in 1..Len(terms) : \A b \in 1..Len(terms[a].t) :
      terms[a].t[b][1] \in 0..(nl - 1) /\ terms[a].t[b][2] \in 0..1

\* ---- "eff" ---------------------------------------------------------------------
VerdictEff(j) ==
  IF ~TensorShapeOK(j.T) \/ ~TensorsSymmetric(j.T) THEN "malformed-tensors"
  ELSE IF ~Valid(j.uhf, j.mo, j.req, j.elems) THEN "invalid-request"
  ELSE IF ~JActsOK(j) THEN "active-list-not-the-partition"
  ELSE IF ~TermsShapeOK(j.terms, NActLabels(j.acts)) THEN "term-outside-active-modes"
  ELSE IF EffectiveOK(j.T, j.acts, JFL(j), j.terms, j.K) THEN "ok"
  ELSE "effective-operator-mismatch"

\* ---- qubit level ------------------------------------------------------------------
WordsOK(words, n) == \A a \in 1..Len(words) : Len(words[a].w) = n /\ \A q \in 1..n : words[a].w[q] \in 0..3

SpecActs(j) == LET part == JPart(j) IN
  << SetToSortSeq(part[1].ao \cup part[1].av, <), SetToSortSeq(part[2].ao \cup part[2].av, <) >>

VerdictQRef(j) ==
  IF ~TensorShapeOK(j.T) \/ ~TensorsSymmetric(j.T) THEN "malformed-tensors"
  ELSE IF ~Valid(j.uhf, j.mo, j.req, j.elems) THEN "invalid-request"
  ELSE IF ~WordsOK(j.words, j.nq) \/ Len(j.v) # j.nq THEN "malformed-words"
  ELSE LET got == OpExpectBasis(QOp(j.words), BitsIdx(j.v, j.nq), j.nq)
           exp == Pow2(j.K - 1) * MeanField2(j.T, SpecActs(j), j.uhf, j.mo)
       IN IF got = FromInt(exp) THEN "ok" ELSE "reference-energy-mismatch"

\* the determinants of the target sector on the active labels (alpha = even labels)
SectorDets(j) ==
  LET ob == Obs(j.uhf, j.mo, j.req, j.elems)
      AL == ActiveLabels(j.acts)
  IN {D \in SUBSET AL : Cardinality({p \in D : p % 2 = 0}) = ob.na /\ Cardinality({p \in D : p % 2 = 1}) = ob.nb}

\* Two Hermitian matrices A, B (functions 1..nb x 1..nb -> ring) are the same operator in two bases that differ by
\* a diagonal unitary with entries i^s (the encodings map a determinant to a basis state only up to such a phase):
\*     A[a][b] = i^(s[b] - s[a]) * B[a][b]   for all a, b.
\* The witness s is found by propagation along the non-zero entries of B (s = 0 at the root of every connected
\* component); the final test checks every entry, so the search cannot accept a wrong pair.
RECURSIVE Propagate(_, _, _, _, _)
Propagate(A, B, nb, s, todo) ==
  IF todo = {} THEN s
  ELSE LET done == (1..nb) \ todo
           cand == {b \in todo : \E a \in done : B[a][b] # RZero}
       IN IF cand = {}
          THEN LET b == CHOOSE b \in todo : TRUE IN Propagate(A, B, nb, [s EXCEPT ![b] = 0], todo \ {b})
          ELSE LET b  == CHOOSE b \in cand : TRUE
                   a  == CHOOSE a \in done : B[a][b] # RZero
                   ts == {t \in 0..3 : A[a][b] = Mul(IPow(t + 4 - s[a]), B[a][b])}
               IN IF ts = {} THEN [s EXCEPT ![b] = 0]      \* no phase fits: the final test will fail
                  ELSE Propagate(A, B, nb, [s EXCEPT ![b] = CHOOSE t \in ts : TRUE], todo \ {b})

SameUpToDiagonalPhases(A, B, nb) ==
  LET s == Propagate(A, B, nb, TLCEval([b \in 1..nb |-> 0]), 1..nb)
  IN \A a \in 1..nb, b \in 1..nb : A[a][b] = Mul(IPow(s[b] + 4 - s[a]), B[a][b])

VerdictQSec(j) ==
  IF ~TensorShapeOK(j.T) \/ ~TensorsSymmetric(j.T) THEN "malformed-tensors"
  ELSE IF ~Valid(j.uhf, j.mo, j.req, j.elems) THEN "invalid-request"
  ELSE IF ~JActsOK(j) THEN "active-list-not-the-partition"
  ELSE IF ~WordsOK(j.words, j.nq) THEN "malformed-words"
  ELSE LET nb   == Len(j.basis)
           dets == TLCEval([b \in 1..nb |-> ToSet(j.basis[b].x)])
           idx  == TLCEval([b \in 1..nb |-> BitsIdx(j.basis[b].e, j.nq)])
       IN IF {dets[b] : b \in 1..nb} # SectorDets(j) \/ Cardinality({dets[b] : b \in 1..nb}) # nb THEN "basis-is-not-the-sector"
          ELSE IF Cardinality({idx[b] : b \in 1..nb}) # nb THEN "encoding-not-injective"
          ELSE LET A   == QOp(j.words)
                   m   == EffMatrix2(j.T, j.acts, JFL(j))
                   enc == {idx[b] : b \in 1..nb}
                   Am  == TLCEval([a \in 1..nb |-> TLCEval([b \in 1..nb |-> OpElement(A, idx[a], idx[b], j.nq)])])
                   Bm  == TLCEval([a \in 1..nb |-> TLCEval([b \in 1..nb |-> FromInt(Pow2(j.K - 1) * m[dets[b]][dets[a]])])])
                   leakOK  == \A b \in 1..nb :
                                 \A z \in {ActWord(w, idx[b], j.nq).y : w \in DOMAIN A} \ enc :
                                    OpElement(A, z, idx[b], j.nq) = RZero
               IN IF ~SameUpToDiagonalPhases(Am, Bm, nb) THEN "sector-block-mismatch"
                  ELSE IF ~leakOK THEN "sector-not-invariant" ELSE "ok"

\* ---- structure constants for the numeric tail ----------------------------------------
RingToInt(r) == IF r = RZero THEN 0 ELSE IF r = ROne THEN 1 ELSE IF r = Neg(ROne) THEN -1 ELSE 99

StructRef(j) ==
  LET x0 == BitsIdx(j.v, j.nq) IN
  TLCEval([a \in 1..Len(j.words) |-> RingToInt(WordElement(j.words[a], x0, x0, j.nq))])

StructSec(j) ==
  LET nb  == Len(j.basis)
      idx == TLCEval([b \in 1..nb |-> BitsIdx(j.basis[b], j.nq)])
      pos(z) == IF \E b \in 1..nb : idx[b] = z THEN CHOOSE b \in 1..nb : idx[b] = z ELSE 0
  IN TLCEval([a \in 1..Len(j.words) |-> TLCEval([b \in 1..nb |->
        LET r == ActWord(j.words[a], idx[b], j.nq) IN <<pos(r.y), r.p, r.y>>])])

Verdict(j) ==
  CASE j.kind = "eff"  -> VerdictEff(j)
    [] j.kind = "qref" -> VerdictQRef(j)
    [] j.kind = "qsec" -> VerdictQSec(j)
    [] j.kind = "sref" -> IF PrintT(<<"E", ToJson([id |-> j.id, e |-> StructRef(j)])>>) THEN "struct" ELSE "struct"
    [] j.kind = "ssec" -> IF PrintT(<<"E", ToJson([id |-> j.id, e |-> StructSec(j)])>>) THEN "struct" ELSE "struct"
    [] OTHER -> "unknown-kind"

\* diagnostics for replay: first mismatching element of an "eff" job
Diag(j) == IF j.kind = "eff" /\ JActsOK(j) THEN EffectiveMismatch(j.T, j.acts, JFL(j), j.terms, j.K) ELSE <<>>

JInit == i \in 1..Len(Jobs)
JNext == /\ i > 0
         /\ PrintT(<<"V", Jobs[i].id, Verdict(Jobs[i])>>)
         /\ ("diag" \in DOMAIN Jobs[i] => PrintT(<<"D", Jobs[i].id, Diag(Jobs[i])>>))
         /\ i' = 0
=============================================================================
