------------------------------ MODULE C05Defs ------------------------------
(***************************************************************************)
(* C05 - reference-state circuits encode the requested occupations.         *)
(*                                                                         *)
(* The property is a relation between TWO artefacts of the implementation:  *)
(* the state encoder (get_reference_circuit / get_mapped_vector /           *)
(* vector_to_circuit) and the operator encoder (fermion_to_qubit_mapping).  *)
(* Nothing of either encoder is re-implemented here.  The specification     *)
(* contains                                                                 *)
(*   - Filling: which spin-orbitals a reference state with n_e electrons    *)
(*     and spin 2S = n_alpha - n_beta occupies (lowest n_alpha alpha and    *)
(*     lowest n_beta beta spatial orbitals; without a spin argument the     *)
(*     odd electron is an alpha electron), expressed in the alternating     *)
(*     (openfermion) spin-orbital numbering p = 2 i + s that the public     *)
(*     interface uses for operators in BOTH orderings;                      *)
(*   - Encodes(x, Q, occ): for every spin-orbital p the basis state |x> is  *)
(*     an eigenvector of Q_p (the code's image of a+_p a_p) and             *)
(*     <x|Q_p|x> = occ_p, evaluated exactly in the Pauli algebra.           *)
(* x is the bit vector read off the code's circuit: qubit q is 1 iff an odd *)
(* number of X gates acts on q; any other gate in the circuit is reported   *)
(* by the harness as a violation of "computational-basis state" before the  *)
(* record reaches TLC (field bad_gates of the record, judged here).         *)
(***************************************************************************)
EXTENDS Fock, TLC

\* ---- occupations -----------------------------------------------------------
\* dflt = TRUE: no spin argument was given (spin = None)
NAlphaOf(ne, spin, dflt) == IF dflt THEN (ne + 1) \div 2 ELSE (ne + spin) \div 2
NBetaOf(ne, spin, dflt)  == ne - NAlphaOf(ne, spin, dflt)

Admissible(nso, ne, spin, dflt) ==
  /\ nso % 2 = 0 /\ ne \in 0..nso
  /\ (dflt \/ (ne + spin) % 2 = 0)
  /\ (dflt \/ (ne + spin >= 0 /\ ne - spin >= 0))
  /\ NAlphaOf(ne, spin, dflt) \in 0..(nso \div 2)
  /\ NBetaOf(ne, spin, dflt)  \in 0..(nso \div 2)

\* occupation (0/1) of spin-orbital p-1 = 2 i + s, i spatial orbital, s = 0 alpha / 1 beta
FillingOcc(nso, ne, spin, dflt) ==
  LET na == NAlphaOf(ne, spin, dflt)
      nb == NBetaOf(ne, spin, dflt)
  IN TLCEval([p \in 1..nso |-> LET i == (p - 1) \div 2
                                   s == (p - 1) % 2
                               IN IF (s = 0 /\ i < na) \/ (s = 1 /\ i < nb) THEN 1 ELSE 0])

\* ---- the predicate ----------------------------------------------------------
BitsIndex(bits, n) == SumSeq(TLCEval([q \in 1..n |-> bits[q] * Pow2(n - q)]), n)

\* A |x> is proportional to |x>
DiagonalOn(A, x0, n) ==
  \A y0 \in {ActWord(w, x0, n).y : w \in DOMAIN A} \ {x0} : OpElement(A, y0, x0, n) = RZero

\* Q: sequence (one entry per spin-orbital) of Pauli operators
OccupationOK(Q, x0, occ, n) == \A p \in 1..Len(Q) : OpExpectBasis(Q[p], x0, n) = FromInt(occ[p])
AllDiagonal(Q, x0, n)       == \A p \in 1..Len(Q) : DiagonalOn(Q[p], x0, n)
Encodes(x0, Q, occ, n)      == OccupationOK(Q, x0, occ, n) /\ AllDiagonal(Q, x0, n)

\* the spec's own Jordan-Wigner number operators (reference instance for the S-check)
SpecJWNumber(p, n) == OpMul(JWLadder(p, 1, n), JWLadder(p, 0, n), n)
=============================================================================
