---------------------------- MODULE C05RefState ----------------------------
(***************************************************************************)
(* S-part of C05: the predicate of C05Defs is validated on the spec's own   *)
(* Jordan-Wigner before it judges the code.  State = (register size, one    *)
(* determinant); TLC enumerates all of them.                                *)
(*  SpecEncodes       the JW basis state of a determinant D satisfies       *)
(*                    Encodes with occ = indicator of D                     *)
(*  SpecDiscriminates no OTHER basis state satisfies it (the predicate      *)
(*                    identifies the state: a wrong reference vector cannot *)
(*                    be accepted)                                          *)
(*  FillingSound      Filling has n_e electrons, n_alpha - n_beta = spin,   *)
(*                    and is an Aufbau filling (no hole below an electron   *)
(*                    of the same spin), for every admissible (n_e, spin)   *)
(*  OffDiagonalSeen   DiagonalOn rejects X- and Y-type operators            *)
(***************************************************************************)
EXTENDS C05Defs

CONSTANT SNs          \* set of register sizes
VARIABLES sn, sd
SInit == sn \in SNs /\ sd \in Dets(sn)
SNext == UNCHANGED <<sn, sd>>

OccOf(D, n) == TLCEval([p \in 1..n |-> IF (p - 1) \in D THEN 1 ELSE 0])
JWQ(n) == TLCEval([p \in 1..n |-> SpecJWNumber(p - 1, n)])

SpecEncodes == Encodes(DetIndex(sd, sn), JWQ(sn), OccOf(sd, sn), sn)
SpecDiscriminates == \A D \in Dets(sn) : D # sd => ~OccupationOK(JWQ(sn), DetIndex(D, sn), OccOf(sd, sn), sn)

Spins == (-sn)..sn
FillingSound ==
  sn % 2 = 1 \/
  \A ne \in 0..sn : \A spin \in Spins : \A dflt \in BOOLEAN :
    Admissible(sn, ne, spin, dflt) =>
      LET occ == FillingOcc(sn, ne, spin, dflt)
          A   == {p \in 1..sn : occ[p] = 1 /\ (p - 1) % 2 = 0}
          B   == {p \in 1..sn : occ[p] = 1 /\ (p - 1) % 2 = 1}
      IN /\ Cardinality(A) + Cardinality(B) = ne
         /\ (~dflt => Cardinality(A) - Cardinality(B) = spin)
         /\ (dflt => Cardinality(A) - Cardinality(B) \in {0, 1})
         /\ \A p \in A \cup B : p > 2 => (p - 2) \in A \cup B

OffDiagonalSeen ==
  \A q \in 1..sn : \A l \in {1, 2} :
    ~DiagonalOn(OpWord(TLCEval([r \in 1..sn |-> IF r = q THEN l ELSE 0])), DetIndex(sd, sn), sn)
=============================================================================
