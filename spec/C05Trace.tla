------------------------------ MODULE C05Trace ------------------------------
(***************************************************************************)
(* V-part of C05.  One record per (state artefact, operator artefacts):     *)
(*   kind  "ref": x = bits read off get_reference_circuit(nso, ne, mapping, *)
(*                up_then_down, spin); the expected occupation is computed  *)
(*                HERE by FillingOcc(nso, ne, spin, dflt)                   *)
(*         "vec": x = bits of get_mapped_vector(occvec, ...) (and of        *)
(*                vector_to_circuit of it); expected occupation = occvec    *)
(*   n     number of qubits, x bit per qubit (qubit 0 first)                *)
(*   Q     per spin-orbital p (alternating numbering) the term list of      *)
(*         fermion_to_qubit_mapping(a+_p a_p, mapping, nso, n_electrons,    *)
(*         up_then_down, spin) -- for scBK with the (n_e, spin) of the state*)
(*   bad   number of gates in the circuit that are not plain X gates        *)
(*   kind  "frame": before / after = the caller's vector argument before and  *)
(*                after a call of a function of the module (get_mapped_vector,*)
(*                vector_to_circuit, do_*_transform): must be identical.      *)
(* "vec" records also come from histories: the same caller array encoded      *)
(* twice in a row (any ordered pair of (mapping, ordering)) - the SECOND       *)
(* result must encode the occupation the caller wrote into the array.          *)
(***************************************************************************)
EXTENDS C05Defs, Json, IOUtils

Jobs == JsonDeserialize(IOEnv.VERIF_JOBS)
VARIABLE i

RingOK(c) == c.k >= 0 /\ Len(c.c) = HM
TermOK(t, n) == Len(t.w) = n /\ (\A q \in 1..n : t.w[q] \in 0..3) /\ RingOK(t.c)
WellFormedJob(j) ==
  /\ j.n >= 0 /\ Len(j.x) = j.n /\ \A q \in 1..j.n : j.x[q] \in {0, 1}
  /\ Len(j.Q) = j.nso
  /\ \A p \in 1..Len(j.Q) : \A a \in 1..Len(j.Q[p]) : TermOK(j.Q[p][a], j.n)
  /\ (j.kind = "vec" => Len(j.occvec) = j.nso /\ \A p \in 1..j.nso : j.occvec[p] \in {0, 1})
  /\ (j.kind = "ref" => Admissible(j.nso, j.ne, j.spin, j.dflt))

\* frame condition: a function of the module must leave the vector it was given bit-identical
FrameOK(j) == Len(j.before) = Len(j.after) /\ \A q \in 1..Len(j.before) : j.before[q] = j.after[q]

Verdict(j) ==
  IF j.kind = "frame" THEN (IF FrameOK(j) THEN "ok" ELSE "argument-modified")
  ELSE IF ~WellFormedJob(j) THEN "malformed"
  ELSE IF j.bad > 0 THEN "not-a-basis-state-circuit"
  ELSE
    LET n   == j.n
        x0  == BitsIndex(j.x, n)
        Q   == TLCEval([p \in 1..j.nso |-> OpFromTerms(j.Q[p])])
        occ == IF j.kind = "ref" THEN FillingOcc(j.nso, j.ne, j.spin, j.dflt) ELSE j.occvec
    IN IF ~OccupationOK(Q, x0, occ, n) THEN "wrong-occupation"
       ELSE IF ~AllDiagonal(Q, x0, n) THEN "not-an-eigenstate"
       ELSE "ok"

JInit == i \in 1..Len(Jobs)
JNext == i > 0 /\ PrintT(<<"V", Jobs[i].id, Verdict(Jobs[i])>>) /\ i' = 0
=============================================================================
