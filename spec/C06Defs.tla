---------------------------- MODULE C06Defs -------------------------------
(***************************************************************************)
(* C06 - Pauli-exponential and time-evolution circuits implement            *)
(* exp(-i t H).                                                             *)
(*                                                                         *)
(* Exact semantics:  ExpWord(P, c) = cos(c) 1 - i sin(c) P,  c = 2 pi k/M;   *)
(* with a set of control qubits it acts only where all controls are 1.      *)
(* A product formula is a behaviour of the state machine PF below: the      *)
(* state is the exact unitary accumulated so far, one action per factor.    *)
(* `LadderGates` is the algorithm model of the Whitfield construction used  *)
(* by the code; TLC checks it against ExpWord for every word / coefficient  *)
(* / control choice (S), and the trace part judges the gate lists that the  *)
(* implementation actually emitted (V).                                     *)
(***************************************************************************)
EXTENDS Fock, TLC, Json, IOUtils

\* ---- exact semantics ------------------------------------------------------
\* (P psi)[x]
ApplyWordVec(w, psi, n) ==
  TLCEval([x \in 1..Dim(n) |-> LET y0 == ActWord(w, x - 1, n).y IN Mul(IPow(ActWord(w, y0, n).p), psi[y0 + 1])])

\* exp(-i c P) on the subspace where all controls are 1, identity elsewhere
ApplyExpWord(w, k, ctrl, psi, n) ==
  LET pv == ApplyWordVec(w, psi, n)
      cs == CosG(k)
      ms == Mul(Neg(RI), SinG(k))
  IN TLCEval([x \in 1..Dim(n) |-> IF CtrlOn(x - 1, ctrl, n) THEN Add(Mul(cs, psi[x]), Mul(ms, pv[x])) ELSE psi[x]])

\* factors: sequence of [w, k]; the FIRST factor acts first (circuit order)
RECURSIVE ApplyFactors(_, _, _, _, _)
ApplyFactors(fs, ctrl, psi, n, j) ==
  IF j > Len(fs) THEN psi ELSE ApplyFactors(fs, ctrl, ApplyExpWord(fs[j].w, fs[j].k, ctrl, psi, n), n, j + 1)

FactorsUnitary(fs, ctrl, n) == TLCEval([col \in 1..Dim(n) |-> ApplyFactors(fs, ctrl, Basis(col - 1, n), n, 1)])

\* first- and second-order product formulas for terms <<[w, k]>> with k = coefficient * time
\* (order 2 needs even k: each half step carries k/2)
Reverse(s) == TLCEval([j \in 1..Len(s) |-> s[Len(s) + 1 - j]])
HalfK(ts) == TLCEval([j \in 1..Len(ts) |-> [w |-> ts[j].w, k |-> ts[j].k \div 2]])
StepFactors(ts, order) == IF order = 1 THEN ts ELSE HalfK(ts) \o Reverse(HalfK(ts))
RECURSIVE Repeat(_, _)
Repeat(s, r) == IF r = 0 THEN <<>> ELSE s \o Repeat(s, r - 1)

PairwiseCommute(ts, n) == \A a, b \in 1..Len(ts) : CommuteWords(ts[a].w, ts[b].w, n)

\* ---- algorithm model of the code's construction (Whitfield ladder) ---------
WordQubits(w, n) == {q \in 0..(n-1) : w[q + 1] # 0}
SortedSeq(S) == LET RECURSIVE go(_)
                    go(T) == IF T = {} THEN <<>> ELSE LET m == CHOOSE x \in T : \A y \in T : x <= y IN <<m>> \o go(T \ {m})
                IN go(S)
BasisIn(w, n)  == LET qs == SortedSeq(WordQubits(w, n)) IN
   TLCEval([j \in 1..Len(qs) |-> IF w[qs[j] + 1] = 1 THEN G("H", <<qs[j]>>, <<>>, 0)
                         ELSE IF w[qs[j] + 1] = 2 THEN G("RX", <<qs[j]>>, <<>>, M \div 4)
                         ELSE G("PHASE", <<qs[j]>>, <<>>, 0)])
BasisOut(w, n) == LET qs == Reverse(SortedSeq(WordQubits(w, n))) IN
   TLCEval([j \in 1..Len(qs) |-> IF w[qs[j] + 1] = 1 THEN G("H", <<qs[j]>>, <<>>, 0)
                         ELSE IF w[qs[j] + 1] = 2 THEN G("RX", <<qs[j]>>, <<>>, -(M \div 4))
                         ELSE G("PHASE", <<qs[j]>>, <<>>, 0)])
Ladder2(w, n) == LET qs == SortedSeq(WordQubits(w, n)) IN
   TLCEval([j \in 1..(Len(qs) - 1) |-> G("CNOT", <<qs[j + 1]>>, <<qs[j]>>, 0)])
LadderGates(w, k, ctrl, n) ==
  LET qs  == SortedSeq(WordQubits(w, n))
      ang == IF k >= 0 THEN 2 * k ELSE 2 * M + 2 * k
      rot == IF ctrl = <<>> THEN G("RZ", <<qs[Len(qs)]>>, <<>>, ang) ELSE G("CRZ", <<qs[Len(qs)]>>, ctrl, ang)
  IN BasisIn(w, n) \o Ladder2(w, n) \o <<rot>> \o Reverse(Ladder2(w, n)) \o BasisOut(w, n)

=============================================================================
