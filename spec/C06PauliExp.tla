---------------------------- MODULE C06PauliExp ----------------------------
(* S-part of C06: TLC checks the algorithm model of the Whitfield construction (C06Defs!LadderGates)    *)
(* against the exact semantics exp(-i c P) for EVERY word, coefficient (incl. negative, zero, beyond    *)
(* 2 pi in the RZ angle) and control choice -- exactly, including the phase.                             *)
EXTENDS C06Defs

\* ---- S: the construction is exact for every word, coefficient and control --
CONSTANTS SN,        \* qubits carrying the word
          SCtrl      \* number of extra control qubits (0, 1, 2)
VARIABLES sw, sk
SInit == /\ sw \in {w \in [1..(SN + SCtrl) -> 0..3] : (\A q \in (SN+1)..(SN+SCtrl) : w[q] = 0) /\ (\E q \in 1..SN : w[q] # 0)}
         /\ sk \in (-M)..M
SNext == UNCHANGED <<sw, sk>>
SCtrlSeq == [j \in 1..SCtrl |-> SN + j - 1]
LadderExact == UnitaryOf(LadderGates(sw, sk, SCtrlSeq, SN + SCtrl), SN + SCtrl)
                 = FactorsUnitary(<<[w |-> sw, k |-> sk]>>, SCtrlSeq, SN + SCtrl)
LadderUnitary == IsUnitary(FactorsUnitary(<<[w |-> sw, k |-> sk]>>, SCtrlSeq, SN + SCtrl), Dim(SN + SCtrl))
\* a 2 pi-only variant (RZ angle 2k for k < 0 without the +4pi) is ALSO exact: RZ is 4 pi periodic
AltExact == LET qs == SortedSeq(WordQubits(sw, SN + SCtrl))
                g  == IF SCtrlSeq = <<>> THEN G("RZ", <<qs[Len(qs)]>>, <<>>, 2 * sk) ELSE G("CRZ", <<qs[Len(qs)]>>, SCtrlSeq, 2 * sk)
            IN UnitaryOf(BasisIn(sw, SN + SCtrl) \o Ladder2(sw, SN + SCtrl) \o <<g>> \o Reverse(Ladder2(sw, SN + SCtrl)) \o BasisOut(sw, SN + SCtrl), SN + SCtrl)
                 = FactorsUnitary(<<[w |-> sw, k |-> sk]>>, SCtrlSeq, SN + SCtrl)
=============================================================================
