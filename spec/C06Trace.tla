------------------------------ MODULE C06Trace ------------------------------
(* V-part of C06: gate lists emitted by the implementation (exp_pauliword_to_gates,                      *)
(* get_exponentiated_qubit_operator_circuit, trotterize, TrotterSuzukiUnitary.build_circuit) are         *)
(* evaluated exactly and compared with the product of exponential factors the spec prescribes.           *)
EXTENDS C06Defs

\* ---- V: judge the gate lists emitted by the implementation ------------------
Jobs == JsonDeserialize(IOEnv.VERIF_JOBS)
VARIABLE i

\* scale every column of U by zeta^p
ScaleU(U, p, d) == [col \in 1..d |-> [row \in 1..d |-> Mul(Zeta(p), U[col][row])]]

\* job kinds:
\*  "factors": gates (+ optional phase index ph: code_phase = zeta^ph) must equal the product of the listed
\*             exponential factors exactly:  zeta^ph * U(gates) = PROD exp(-i c_j P_j)   [controlled: ph = 0]
Verdict(j) ==
  LET n  == j.n
      d  == Dim(n)
      U  == UnitaryOf(j.gates, n)
      E  == FactorsUnitary(j.factors, j.ctrl, n)
  IN IF ~(\A g \in {j.gates[x] : x \in 1..Len(j.gates)} : WellFormed(g, n)) THEN "malformed-gate"
     ELSE IF ScaleU(U, j.ph, d) = E THEN
            (IF j.commuting_claim /\ ~PairwiseCommute(j.factors, n) THEN "ok-noncommuting" ELSE "ok")
     ELSE IF EquivUpToPhase(U, E, d) THEN "wrong-phase"
     ELSE "wrong-unitary"

JInit == i \in 1..Len(Jobs)
JNext == i > 0 /\ PrintT(<<"V", Jobs[i].id, Verdict(Jobs[i])>>) /\ i' = 0
=============================================================================
