------------------------- MODULE C07AnsatzLifecycle -------------------------
(***************************************************************************)
(* C07 - life cycle of an ansatz object (tangelo.toolboxes.ansatz_generator) *)
(*                                                                         *)
(* Abstract state of an ansatz object:                                       *)
(*   built   - build_circuit has succeeded at least once                     *)
(*   theta   - the last ACCEPTED parameter vector (sequence of value         *)
(*             symbols, one per abstract parameter slot)                     *)
(*   npar    - the advertised number of parameters (n_var_params)            *)
(*   ops     - ADAPT only: the sequence of operators added so far            *)
(*   synced  - theta describes the circuit (FALSE between add_operator and   *)
(*             the next accepted Build/Update: the new gate carries a        *)
(*             placeholder angle and the object promises nothing)            *)
(* Actions = public operations:                                              *)
(*   Build(v)      build_circuit(v), |v| = npar           enabled            *)
(*   Update(v)     update_var_params(v), |v| = npar       enabled if built   *)
(*   BadBuild(v)   build_circuit(v), |v| # npar           REJECTED           *)
(*   BadUpdate(v)  update_var_params(v), |v| # npar       REJECTED           *)
(*   AddOperator(o) add_operator(pool[o])  (ADAPT)        enabled if built   *)
(* A rejected action must raise and leave the object unchanged.              *)
(*                                                                         *)
(* The property IS the shape of this machine: the state after any history    *)
(* is a function of the last accepted vector only (history independence).    *)
(* Refinement obligation on an implementation object x after every step:     *)
(*     synced  =>  Sem(x.circuit) = Sem(Fresh(theta).circuit)                *)
(*                 /\ x.n_var_params = npar                                  *)
(* where Fresh(theta) is a new object (same constructor arguments, same      *)
(* operators) on which only build_circuit(theta) was called.  The obligation *)
(* is discharged by the driver (checks/c07.py) replaying every exported      *)
(* behaviour on real objects and by C07Trace judging the recorded circuits.  *)
(*                                                                         *)
(* Value symbols 0..5 stand for the per-parameter values                     *)
(*     0, a, -a, a + P, 2a, b = 3a       (multipliers Mult of a unit a)      *)
(* exact zero, a value, its sign change, the same value one period P later   *)
(* (P = 16a: beyond 2 pi, a multiple of 4 pi on every gate), and two other   *)
(* values.  The driver chooses the unit a per parameter so that all gate     *)
(* angles land on the exact carrier (Clifford points or the 2 pi/M grid).    *)
(***************************************************************************)
EXTENDS Integers, Sequences, FiniteSets, TLC, Json

CONSTANTS NSlots,     \* parameter slots of a non-adaptive ansatz / initial operators of ADAPT
          Syms,       \* set of value symbols used (subset of 0..5)
          MaxSteps,   \* behaviours of exactly this many calls are exported
          Adapt,      \* BOOLEAN: the ADAPT ansatz (AddOperator enabled, npar = Len(ops))
          MaxOps,     \* ADAPT: at most this many operators
          Pool,       \* ADAPT: operators are drawn from 1..Pool (repetitions allowed)
          BadDeltas,  \* lengths of rejected vectors relative to npar (non-zero integers)
          BadFill,    \* value symbols filling rejected vectors
          Export      \* BOOLEAN: print every behaviour of MaxSteps calls

\* cfg files cannot contain negative numbers: named sets
BadSmall == {-1, 1}
BadFull  == {-2, -1, 1, 2, 3}
SymsAll  == 0..5
SymsFour == {0, 1, 2, 5}
SymsThree == {0, 1, 2}

Mult == <<0, 1, -1, 17, 2, 3>>
MultOf(v) == [j \in 1..Len(v) |-> Mult[v[j] + 1]]

VARIABLES built, theta, npar, ops, synced, hist
state == <<built, theta, npar, ops, synced>>
vars  == <<built, theta, npar, ops, synced, hist>>

Vectors(n) == [1..n -> Syms]
Const(n, s) == [j \in 1..n |-> s]

InitOps == IF Adapt THEN [j \in 1..NSlots |-> ((j - 1) % Pool) + 1] ELSE <<>>

Init == /\ built = FALSE
        /\ theta = <<>>
        /\ npar = NSlots
        /\ ops = InitOps
        /\ synced = FALSE
        /\ hist = <<>>

Log(a, v, o) ==
  hist' = Append(hist, [a |-> a, v |-> MultOf(v), sym |-> v, o |-> o,
                        post |-> [built |-> built', theta |-> MultOf(theta'), npar |-> npar',
                                  synced |-> synced', ops |-> ops']])

Room == Len(hist) < MaxSteps

Build(v) == /\ Room
            /\ Len(v) = npar
            /\ built' = TRUE /\ theta' = v /\ synced' = TRUE
            /\ UNCHANGED <<npar, ops>>
            /\ Log("Build", v, 0)

Update(v) == /\ Room
             /\ built
             /\ Len(v) = npar
             /\ theta' = v /\ synced' = TRUE
             /\ UNCHANGED <<built, npar, ops>>
             /\ Log("Update", v, 0)

Rejected(a, d, s) == /\ npar + d >= 0
                     /\ UNCHANGED state
                     /\ Log(a, Const(npar + d, s), 0)

BadBuild(d, s)  == Room /\ Rejected("BadBuild", d, s)
BadUpdate(d, s) == Room /\ built /\ Rejected("BadUpdate", d, s)

AddOperator(o) == /\ Room
                  /\ Adapt /\ built /\ Len(ops) < MaxOps
                  /\ ops' = Append(ops, o)
                  /\ npar' = npar + 1
                  /\ synced' = FALSE
                  /\ UNCHANGED <<built, theta>>
                  /\ Log("AddOperator", <<>>, o)

Next == \/ \E v \in Vectors(npar) : Build(v)
        \/ \E v \in Vectors(npar) : Update(v)
        \/ \E d \in BadDeltas, s \in BadFill : BadBuild(d, s)
        \/ \E d \in BadDeltas, s \in BadFill : BadUpdate(d, s)
        \/ \E o \in 1..Pool : AddOperator(o)

Spec == Init /\ [][Next]_vars

\* ---- what TLC checks on the specification (S) -------------------------------
TypeOK == /\ built \in BOOLEAN /\ synced \in BOOLEAN
          /\ npar \in Nat
          /\ theta \in Seq(Syms)
          /\ ops \in Seq(1..Pool)

NparOK == npar = (IF Adapt THEN Len(ops) ELSE NSlots)

SyncedShape == synced => (built /\ Len(theta) = npar)

\* Reference semantics "the last accepted vector wins", computed from the call log alone:
\* the state is a function of (i) whether a Build was ever accepted, (ii) the last accepted vector,
\* (iii) the operators added, (iv) whether an operator was added after the last accepted vector.
Accepted(h) == {j \in 1..Len(h) : h[j].a \in {"Build", "Update"}}
LastOf(S) == CHOOSE j \in S : \A l \in S : l <= j
AbstractOf(h) ==
  LET acc  == Accepted(h)
      adds == {j \in 1..Len(h) : h[j].a = "AddOperator"}
      nops == Len(InitOps) + Cardinality(adds)
  IN [built  |-> \E j \in acc : h[j].a = "Build",
      theta  |-> IF acc = {} THEN <<>> ELSE h[LastOf(acc)].sym,
      npar   |-> IF Adapt THEN nops ELSE NSlots,
      synced |-> acc # {} /\ (adds = {} \/ LastOf(adds) < LastOf(acc))]

HistoryIndependence ==
  LET s == AbstractOf(hist) IN
  /\ built = s.built /\ theta = s.theta /\ npar = s.npar /\ synced = s.synced

\* every logged post-state is the state that held right after that call
LogFaithful == hist # <<>> =>
  LET e == hist[Len(hist)] IN
  /\ e.post.built = built /\ e.post.theta = MultOf(theta) /\ e.post.npar = npar /\ e.post.synced = synced

\* rejected calls are exactly the wrong-length ones, and they change nothing
RejectedIffWrongLength ==
  \A j \in 1..Len(hist) :
     LET before == IF j = 1 THEN NSlots ELSE hist[j - 1].post.npar IN
     /\ (hist[j].a \in {"BadBuild", "BadUpdate"}) <=> (hist[j].a # "AddOperator" /\ Len(hist[j].v) # before)
     /\ (hist[j].a \in {"BadBuild", "BadUpdate"}) =>
           (IF j = 1 THEN hist[j].post = [built |-> FALSE, theta |-> <<>>, npar |-> NSlots, synced |-> FALSE, ops |-> InitOps]
            ELSE hist[j].post = hist[j - 1].post)

RejectedFrame == [][(hist' # hist /\ hist'[Len(hist')].a \in {"BadBuild", "BadUpdate"}) => UNCHANGED state]_vars

\* ---- export (G): one JSON record per behaviour of MaxSteps calls --------------
EndOfBehaviour ==
  (Export /\ Len(hist) = MaxSteps) =>
     PrintT(<<"BH", ToJson([nslots |-> NSlots, adapt |-> Adapt, ops0 |-> InitOps, steps |-> hist])>>)
=============================================================================
