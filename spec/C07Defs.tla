------------------------------ MODULE C07Defs ------------------------------
(***************************************************************************)
(* C07 - ansatz parameter updates are equivalent to rebuilding the circuit. *)
(*                                                                         *)
(* Definitions without variables, shared by the life-cycle state machine    *)
(* (C07AnsatzLifecycle), the algorithm model of the cached-table update     *)
(* (C07UpdateModel) and the trace judge (C07Trace).                          *)
(*                                                                         *)
(* Sem(circuit) is the unitary of the gate list up to one global phase.     *)
(* Two engines decide Sem(a) = Sem(b):                                      *)
(*   "clifford": every angle is a Clifford point -> stabiliser tableaux     *)
(*               (Clifford!SameCliffordUpToPhase; 8 qubits / thousands of    *)
(*               gates),                                                     *)
(*   "ring":     exact unitaries over R_M (Gates!UnitaryOf, <= 4 qubits).    *)
(* The reference-state clause (all-zero parameters) is decided on           *)
(* stabilisers: circuit(0)|0..0> is the computational basis state prepared  *)
(* by the reference circuit iff (-1)^{b_q} Z_q stabilises it for every q.    *)
(***************************************************************************)
EXTENDS Clifford, TLC, Json, IOUtils

GateSet(gs) == {gs[x] : x \in 1..Len(gs)}
AllWellFormed(gs, n) == \A g \in GateSet(gs) : WellFormed(g, n)

\* ---- fast exact gate application -------------------------------------------------
\* Gates!ApplyGate multiplies by general ring elements (negacyclic convolutions).  Every gate matrix of the gate set
\* is a combination of powers of zeta and 1/2:  cos(phi) = (z^j + z^-j)/2,  -i sin(phi) = -(z^j - z^-j)/2  with
\* phi = 2 pi j / M the half angle, so a gate can be applied with signed cyclic shifts (MulZeta), Add and Half only.
\* FastApply = ApplyGate is part of SelfChecks (every gate kind, controls, angles beyond 2 pi, generic state).
MulZeta(j, x) ==
  LET jm == j % M IN
  [c |-> TLCEval([p \in 1..HM |-> LET r == (p - 1 - jm) % M IN IF r < HM THEN x.c[r + 1] ELSE -x.c[r - HM + 1]]), k |-> x.k]
TimesI(x) == MulZeta(M \div 4, x)
ScaleInvSqrt2(y) == Half(Sub(MulZeta(M \div 8, y), MulZeta(3 * (M \div 8), y)))
\* [ z^j (a - b) + z^-j (a + b) ] / 2  =  cos(phi) a - i sin(phi) b
RotMix(j, a, b) == Half(Add(MulZeta(j, Sub(a, b)), MulZeta(-j, Add(a, b))))

FastApply(psi, g, n) ==
  LET base == BaseName[g.name]
      j    == g.k \div 2
  IN TLCEval([i \in 1..Dim(n) |->
       LET i0 == i - 1 IN
       IF ~CtrlOn(i0, g.c, n) THEN psi[i]
       ELSE IF base = "SWAP" THEN
              psi[SetBit(SetBit(i0, g.t[1], n, BitAt(i0, g.t[2], n)), g.t[2], n, BitAt(i0, g.t[1], n)) + 1]
       ELSE IF base = "XX" THEN RotMix(j, psi[i], psi[FlipBit(FlipBit(i0, g.t[1], n), g.t[2], n) + 1])
       ELSE LET t  == g.t[1]
                b  == BitAt(i0, t, n)
                me == psi[i]
                ot == psi[FlipBit(i0, t, n) + 1]
                x0 == IF b = 0 THEN me ELSE ot
                x1 == IF b = 0 THEN ot ELSE me
            IN CASE base = "X"     -> ot
                 [] base = "Y"     -> IF b = 0 THEN Neg(TimesI(ot)) ELSE TimesI(ot)
                 [] base = "Z"     -> IF b = 0 THEN me ELSE Neg(me)
                 [] base = "S"     -> IF b = 0 THEN me ELSE TimesI(me)
                 [] base = "SDAG"  -> IF b = 0 THEN me ELSE Neg(TimesI(me))
                 [] base = "T"     -> IF b = 0 THEN me ELSE MulZeta(M \div 8, me)
                 [] base = "TDAG"  -> IF b = 0 THEN me ELSE MulZeta(-(M \div 8), me)
                 [] base = "PHASE" -> IF b = 0 THEN me ELSE MulZeta(g.k, me)
                 [] base = "RZ"    -> IF b = 0 THEN MulZeta(-j, me) ELSE MulZeta(j, me)
                 [] base = "H"     -> ScaleInvSqrt2(IF b = 0 THEN Add(x0, x1) ELSE Sub(x0, x1))
                 [] base = "RX"    -> RotMix(j, me, ot)
                 [] base = "RY"    -> IF b = 0 THEN Half(Add(MulZeta(j, Add(x0, TimesI(x1))), MulZeta(-j, Sub(x0, TimesI(x1)))))
                                      ELSE Half(Add(MulZeta(j, Sub(x1, TimesI(x0))), MulZeta(-j, Add(x1, TimesI(x0)))))])

RECURSIVE FastRunFrom(_, _, _, _)
FastRunFrom(psi, gates, n, from) ==
  IF from > Len(gates) THEN psi ELSE FastRunFrom(FastApply(psi, gates[from], n), gates, n, from + 1)
FastRun(psi, gates, n) == FastRunFrom(psi, gates, n, 1)
FastUnitaryOf(gates, n) == TLCEval([col \in 1..Dim(n) |-> FastRun(Basis(col - 1, n), gates, n)])

\* ---- equivalence of two gate lists up to a global phase ---------------------
SemEqClifford(a, b, n) == SameCliffordUpToPhase(a, b, n)
SemEqRing(a, b, n)     == EquivUpToPhase(FastUnitaryOf(a, n), FastUnitaryOf(b, n), Dim(n))

\* "probe": exact agreement (up to one phase each) of the two circuits on |0..0> and on a fixed entangled state
\* with pairwise different amplitudes.  "differs" is a proof of inequivalence; "ok" is the necessary condition
\* for equivalence that ansatz circuits are used for (state preparation from |0..0>) plus one generic input.
GenericPrep(n) ==
  [q \in 1..n |-> G("H", <<q - 1>>, <<>>, 0)]
  \o [q \in 1..n |-> G("PHASE", <<q - 1>>, <<>>, q)]
  \o [q \in 1..(n - 1) |-> G("CNOT", <<q>>, <<q - 1>>, 0)]
  \o [q \in 1..n |-> G("RY", <<q - 1>>, <<>>, 2)]
  \o [q \in 1..n |-> G("RX", <<q - 1>>, <<>>, 2 * q)]
SemEqProbe(a, b, n) ==
  LET g == FastRun(ZeroState(n), GenericPrep(n), n) IN
  /\ ProportionalVec(FastRun(ZeroState(n), a, n), FastRun(ZeroState(n), b, n), Dim(n))
  /\ ProportionalVec(FastRun(g, a, n), FastRun(g, b, n), Dim(n))

\* verdict strings ("ok" = the property-level predicate holds)
EquivVerdict(a, b, n, mode) ==
  IF ~(AllWellFormed(a, n) /\ AllWellFormed(b, n)) THEN "malformed-gate"
  ELSE IF mode = "clifford" THEN
         (IF ~(AllClifford(a) /\ AllClifford(b)) THEN "not-clifford"
          ELSE IF SemEqClifford(a, b, n) THEN "ok" ELSE "differs")
  ELSE IF mode = "probe" THEN (IF SemEqProbe(a, b, n) THEN "ok" ELSE "differs")
  ELSE IF SemEqRing(a, b, n) THEN "ok" ELSE "differs"

\* ---- reference state: circuit(0)|0> = ref|0> with ref|0> a basis state -------
\* sign (+1/-1) of Z_q on U|0..0>, 0 when Z_q is not (up to sign) a stabiliser
ZSign(q, gates, n) == ExpectZero(ZWord(q, n), gates)

RefVerdict(c0, ref, n) ==
  IF ~(AllWellFormed(c0, n) /\ AllWellFormed(ref, n)) THEN "malformed-gate"
  ELSE IF ~(AllClifford(c0) /\ AllClifford(ref)) THEN "not-clifford"
  ELSE IF \E q \in 0..(n - 1) : ZSign(q, ref, n) = 0 THEN "reference-not-a-basis-state"
  ELSE IF \A q \in 0..(n - 1) : ZSign(q, c0, n) = ZSign(q, ref, n) THEN "ok"
  ELSE "not-reference"

\* ---- the reference (Hartree-Fock) occupation itself, for the encodings whose qubits ARE occupation numbers ----
\* "jw":  Jordan-Wigner; lowest (ne+spin)/2 alpha and (ne-spin)/2 beta spatial orbitals are occupied; qubit of spin-orbital
\*        (i, s) is 2i+s in the alternating ordering and i + s*nso/2 in the up-then-down ordering.
\* "hcb": hard-core bosons (pUCCD): qubit i = spatial orbital i holds a pair iff i < ne/2.
OccBit(q, occ) ==
  IF occ.model = "hcb" THEN (IF q < occ.ne \div 2 THEN 1 ELSE 0)
  ELSE LET na   == (occ.ne + occ.spin) \div 2
           nb   == occ.ne - na
           half == occ.nso \div 2
           i    == IF occ.utd THEN (IF q < half THEN q ELSE q - half) ELSE q \div 2
           s    == IF occ.utd THEN (IF q < half THEN 0 ELSE 1) ELSE q % 2
       IN IF (s = 0 /\ i < na) \/ (s = 1 /\ i < nb) THEN 1 ELSE 0

RefOccVerdict(c0, occ, n) ==
  IF ~AllWellFormed(c0, n) THEN "malformed-gate"
  ELSE IF ~AllClifford(c0) THEN "not-clifford"
  ELSE IF \A q \in 0..(n - 1) : ZSign(q, c0, n) = (IF OccBit(q, occ) = 1 THEN -1 ELSE 1) THEN "ok"
  ELSE "wrong-occupation"

\* ---- frame condition of a rejected call: the recorded gate list is untouched --
SameVerdict(a, b) == IF a = b THEN "ok" ELSE "changed"

\* ---- self-checks of the judge (run by checks/c07.py before it judges the code) -
Check(name, cond) == PrintT(<<"LC", name, cond>>)
SelfChecks ==
  LET x0  == G("X", <<0>>, <<>>, 0)
      x2  == G("X", <<2>>, <<>>, 0)
      rz(q, k) == G("RZ", <<q>>, <<>>, k)
      cn(c, t) == G("CNOT", <<t>>, <<c>>, 0)
      lad(k) == <<G("H", <<0>>, <<>>, 0), cn(0, 1), rz(1, k), cn(0, 1), G("H", <<0>>, <<>>, 0)>>
      gen3 == Run(ZeroState(3), GenericPrep(3), 3)
      ks   == {0, 2, -2, 6, M + 2, 2 * M - 4}
      gates3 == {G(nm, <<t>>, <<>>, 0) : nm \in {"H", "X", "Y", "Z", "S", "T", "SDAG", "TDAG"}, t \in 0..2}
                \cup {G(nm, <<t>>, <<>>, k) : nm \in {"RX", "RY", "RZ", "PHASE"}, t \in 0..2, k \in ks}
                \cup {G("PHASE", <<1>>, <<>>, k) : k \in {1, 3, -5}}
                \cup {G(nm, <<2>>, <<0>>, k) : nm \in {"CRX", "CRY", "CRZ", "CPHASE"}, k \in ks}
                \cup {G(nm, <<0>>, <<2, 1>>, 2) : nm \in {"CRX", "CRY", "CRZ", "CNOT", "CY", "CZ", "CH"}}
                \cup {G(nm, <<1>>, <<2>>, 0) : nm \in {"CNOT", "CX", "CY", "CZ", "CH", "CS", "CT"}}
                \cup {G("XX", <<0, 2>>, <<>>, k) : k \in ks} \cup {G("SWAP", <<2, 0>>, <<>>, 0), G("CSWAP", <<2, 0>>, <<1>>, 0),
                                                                G("CXX", <<1, 2>>, <<0>>, 6)}
  IN /\ Check("fast-apply-equals-documented-semantics",
              \A g \in gates3 : FastApply(gen3, g, 3) = ApplyGate(gen3, g, 3))
     /\ Check("equiv-reflexive", EquivVerdict(lad(Quarter), lad(Quarter), 2, "clifford") = "ok")
     /\ Check("equiv-2pi-period-up-to-phase", EquivVerdict(lad(Quarter), lad(Quarter + M), 2, "clifford") = "ok")
     /\ Check("equiv-detects-angle", EquivVerdict(lad(Quarter), lad(2 * Quarter), 2, "clifford") = "differs")
     /\ Check("equiv-detects-sign", EquivVerdict(lad(Quarter), lad(-Quarter), 2, "clifford") = "differs")
     /\ Check("equiv-zero-gate-may-be-dropped", EquivVerdict(lad(0), <<>>, 2, "clifford") = "ok")
     /\ Check("equiv-engines-agree",
              \A k \in {0, Quarter, 2 * Quarter, 3 * Quarter} : \A l \in {0, Quarter, -Quarter, 5 * Quarter} :
                 EquivVerdict(lad(k), lad(l), 2, "clifford") = EquivVerdict(lad(k), lad(l), 2, "ring"))
     /\ Check("equiv-ring-finer-grid", (M >= 16) => EquivVerdict(lad(2), lad(4), 2, "ring") = "differs")
     /\ Check("equiv-probe-agrees-with-ring",
              \A k \in {0, 2, 4, -2} : \A l \in {0, 2, 6, 2 + 2 * M} :
                 EquivVerdict(lad(k), lad(l), 2, "probe") = EquivVerdict(lad(k), lad(l), 2, "ring"))
     /\ Check("equiv-not-clifford-flagged", (M >= 16) => EquivVerdict(lad(2), lad(2), 2, "clifford") = "not-clifford")
     /\ Check("ref-ok", RefVerdict(<<x0, x2>> \o lad(0), <<x0, x2>>, 3) = "ok")
     /\ Check("ref-detects-moved-electron", RefVerdict(<<x0, x2, cn(2, 1)>>, <<x0, x2>>, 3) = "not-reference")
     /\ Check("ref-detects-superposition", RefVerdict(<<x0>> \o lad(Quarter), <<x0>>, 2) = "not-reference")
     /\ Check("ref-needs-basis-state", RefVerdict(<<x0>>, <<G("H", <<0>>, <<>>, 0)>>, 2) = "reference-not-a-basis-state")
     /\ Check("refocc-jw-alternating", RefOccVerdict(<<x0, G("X", <<1>>, <<>>, 0)>> \o lad(0), [model |-> "jw", nso |-> 4, ne |-> 2, spin |-> 0, utd |-> FALSE], 4) = "ok")
     /\ Check("refocc-jw-up-then-down", RefOccVerdict(<<x0, x2>>, [model |-> "jw", nso |-> 4, ne |-> 2, spin |-> 0, utd |-> TRUE], 4) = "ok"
                                         /\ RefOccVerdict(<<x0, x2>>, [model |-> "jw", nso |-> 4, ne |-> 2, spin |-> 0, utd |-> FALSE], 4) = "wrong-occupation")
     /\ Check("refocc-open-shell", RefOccVerdict(<<x0, G("X", <<1>>, <<>>, 0), x2>>, [model |-> "jw", nso |-> 6, ne |-> 3, spin |-> 1, utd |-> FALSE], 6) = "ok"
                                    /\ RefOccVerdict(<<x0, x2>>, [model |-> "jw", nso |-> 6, ne |-> 2, spin |-> 2, utd |-> FALSE], 6) = "ok")
     /\ Check("refocc-hcb", RefOccVerdict(<<x0>>, [model |-> "hcb", nso |-> 3, ne |-> 2, spin |-> 0, utd |-> FALSE], 3) = "ok")
     /\ Check("same-structural", SameVerdict(lad(2), lad(2)) = "ok" /\ SameVerdict(lad(2), lad(4)) = "changed")
=============================================================================
