--------------------------- MODULE C07UpdateModel ---------------------------
(***************************************************************************)
(* C07 - algorithm model of the in-place parameter update used by           *)
(* uccsd.py / upccgsd.py / uccgd.py / qcc.py:                               *)
(*                                                                         *)
(*   build_circuit  emits one variational gate per Pauli term that is       *)
(*                  present (coefficient # 0), layer after layer, and       *)
(*                  records  table[layer][term] = index of its gate;        *)
(*   update_var_params  recomputes the terms; if for some layer the set of  *)
(*                  present terms differs from the recorded one it          *)
(*                  rebuilds, otherwise it writes the new angles through     *)
(*                  the table.                                              *)
(*                                                                         *)
(* Abstraction: K layers with T terms each; term (k,t) is driven by its own *)
(* parameter theta[k][t] and is present iff that value is non-zero; a gate  *)
(* is the record [k, t, val].  The abstract machine of C07AnsatzLifecycle   *)
(* demands   circ = Fresh(theta)   after every accepted call.               *)
(*                                                                         *)
(* Variants (CONSTANTS):                                                     *)
(*   Offsets = "cumulative": first index of layer k = number of gates of    *)
(*             layers 1..k-1                                                 *)
(*           = "previous":   first index of layer k = number of gates of    *)
(*             layer k-1 only (sum_prev_qubit_terms[k+1] = len(layer k) as  *)
(*             written in upccgsd.py)                                        *)
(*   ResetTable = TRUE:  the table is re-created by every build             *)
(*              = FALSE: entries of earlier builds survive (qcc.py never    *)
(*                clears pauli_to_angles_mapping)                            *)
(* TLC shows (checks/c07.py, part S_update_model): "cumulative"/TRUE         *)
(* refines the abstract machine; "previous" does so only for K <= 2;        *)
(* FALSE fails as soon as a term disappears and comes back.                 *)
(***************************************************************************)
EXTENDS Integers, Sequences, FiniteSets, TLC

CONSTANTS K, T, Vals, MaxSteps, Offsets, ResetTable

VARIABLES built, theta, circ, table, err, n
vars == <<built, theta, circ, table, err, n>>

Layers == 1..K
Terms  == 1..T
Thetas == [Layers -> [Terms -> Vals]]

Present(v, k) == {t \in Terms : v[k][t] # 0}

\* gates of layer k in term order
RECURSIVE LayerGates(_, _, _)
LayerGates(v, k, t) == IF t > T THEN <<>>
                       ELSE (IF v[k][t] # 0 THEN <<[k |-> k, t |-> t, val |-> v[k][t]]>> ELSE <<>>) \o LayerGates(v, k, t + 1)
RECURSIVE FreshFrom(_, _)
FreshFrom(v, k) == IF k > K THEN <<>> ELSE LayerGates(v, k, 1) \o FreshFrom(v, k + 1)
Fresh(v) == FreshFrom(v, 1)

LayerLen(v, k) == Cardinality(Present(v, k))
RECURSIVE CumLen(_, _)
CumLen(v, k) == IF k = 0 THEN 0 ELSE LayerLen(v, k) + CumLen(v, k - 1)

\* 0-based index of the first gate of layer k as the implementation variant computes it
Start(v, k) == IF k = 1 THEN 0
               ELSE IF Offsets = "cumulative" THEN CumLen(v, k - 1)
               ELSE LayerLen(v, k - 1)

Rank(v, k, t) == Cardinality({u \in Present(v, k) : u < t})

NewTable(v) == [k \in Layers |-> [t \in Present(v, k) |-> Start(v, k) + Rank(v, k, t)]]
MergeTable(old, new) ==
  [k \in Layers |-> [t \in (DOMAIN old[k]) \cup (DOMAIN new[k]) |-> IF t \in DOMAIN new[k] THEN new[k][t] ELSE old[k][t]]]

EmptyTable == [k \in Layers |-> [t \in {} |-> 0]]

DoBuild(v) == /\ circ' = Fresh(v)
              /\ table' = IF ResetTable THEN NewTable(v) ELSE MergeTable(table, NewTable(v))
              /\ err' = err

\* in-place writes, layer after layer, term after term (later writes win; an index outside the gate list raises)
Pairs == {<<k, t>> : k \in Layers, t \in Terms}
RECURSIVE WriteAll(_, _, _, _)
WriteAll(c, v, k, t) ==
  IF k > K THEN [c |-> c, err |-> FALSE]
  ELSE IF t > T THEN WriteAll(c, v, k + 1, 1)
  ELSE IF t \notin DOMAIN table[k] THEN WriteAll(c, v, k, t + 1)
  ELSE LET ix == table[k][t] + 1 IN
       IF ix > Len(c) THEN [c |-> c, err |-> TRUE]
       ELSE WriteAll([c EXCEPT ![ix].val = v[k][t]], v, k, t + 1)

Init == /\ built = FALSE /\ theta = [k \in Layers |-> [t \in Terms |-> 0]]
        /\ circ = <<>> /\ table = EmptyTable /\ err = FALSE /\ n = 0

Build(v) == /\ n < MaxSteps /\ ~err
            /\ built' = TRUE /\ theta' = v /\ n' = n + 1
            /\ DoBuild(v)

Update(v) == /\ n < MaxSteps /\ built /\ ~err
             /\ theta' = v /\ n' = n + 1 /\ built' = built
             /\ IF \E k \in Layers : DOMAIN table[k] # Present(v, k)
                THEN DoBuild(v)
                ELSE LET w == WriteAll(circ, v, 1, 1) IN
                     circ' = w.c /\ err' = w.err /\ table' = table

Next == \/ \E v \in Thetas : Build(v)
        \/ \E v \in Thetas : Update(v)

\* refinement of the abstract machine: the circuit is the fresh circuit of the last accepted vector,
\* and an accepted call never raises
Refines == built => (~err /\ circ = Fresh(theta))
=============================================================================
