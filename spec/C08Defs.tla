------------------------------ MODULE C08Defs ------------------------------
(***************************************************************************)
(* C08 - variational solver energies are faithful and variational.          *)
(*                                                                         *)
(* Exact semantics used to judge the solver:                                *)
(*   psi      = U |0...0>  for the gate list U the solver simulates         *)
(*              (reference + ansatz(theta) + projective part),              *)
(*   e_j      = <psi| P_j |psi>   for every Pauli word of the operator,     *)
(*   E(theta) = SUM_j c_j e_j      (c_j: the code's float coefficients, the *)
(*              contraction is done by the harness - "spec-structured       *)
(*              contraction"; when the c_j are dyadic the whole sum is      *)
(*              evaluated here: EvalOp),                                    *)
(*   overlap  = |<0| U1^dagger U2 |0>|^2  (deflation penalty),              *)
(*   N, Sz, S^2: the spec's OWN Jordan-Wigner image of the first-principles *)
(*              Fock-space operators (Fock.tla), for both spin orderings.   *)
(*                                                                         *)
(* Two engines evaluate e_j: the exact ring statevector (Gates!Run +        *)
(* Pauli!ExpectWord; any grid angle, <= 5 qubits) and the stabiliser        *)
(* engine (Clifford.tla; Clifford-point angles, any size).  The S-part      *)
(* (C08VqeEnergy.tla) checks that they agree where both apply, that the     *)
(* normalisation premise of the variational bound holds, and that the      *)
(* spec's symmetry operators have the first-principles action on every     *)
(* determinant.                                                             *)
(***************************************************************************)
EXTENDS Clifford, Fock, TLC, Json, IOUtils

\* ---- gate lists -------------------------------------------------------------
GateSet(gs) == {gs[x] : x \in 1..Len(gs)}
AllWellFormed(gs, n) == \A g \in GateSet(gs) : WellFormed(g, n)

\* inverse of one gate / of a gate list (first gate acts first)
InvGate(g) ==
  CASE g.name = "S"    -> G("SDAG", g.t, g.c, 0)
    [] g.name = "SDAG" -> G("S", g.t, g.c, 0)
    [] g.name = "T"    -> G("TDAG", g.t, g.c, 0)
    [] g.name = "TDAG" -> G("T", g.t, g.c, 0)
    [] g.name = "CS"   -> G("CPHASE", g.t, g.c, -(M \div 4))
    [] g.name = "CT"   -> G("CPHASE", g.t, g.c, -(M \div 8))
    [] OTHER           -> G(g.name, g.t, g.c, -g.k)
InvGates(gs) == TLCEval([x \in 1..Len(gs) |-> InvGate(gs[Len(gs) + 1 - x])])

\* ---- the two engines ----------------------------------------------------------
StateOf(gs, n) == Run(ZeroState(n), gs, n)

\* stabiliser engine on a pre-decomposed, reversed elementary list (shared by all words of a job)
RevElems(gs) == Reverse(DecomposeAll(gs))
ExpectZeroR(w, res) ==
  LET r == FoldLeft(LAMBDA acc, e : ConjE(acc, InvE(e)), Signed(w), res) IN
  IF \E q \in 1..Len(r.w) : r.w[q] \in {1, 2} THEN 0 ELSE IF r.s = 0 THEN 1 ELSE -1

\* evaluation context of a job: the exact statevector (ring engine) or the reversed elementary-gate list
\* (stabiliser engine); it is computed once per job and shared by all words / operators
Ctx(engine, gs, n) == IF engine = "ring" THEN StateOf(gs, n) ELSE RevElems(gs)
EvalWord(engine, ctx, w, n) == IF engine = "ring" THEN ExpectWord(w, ctx, n) ELSE FromInt(ExpectZeroR(w, ctx))
\* e_j for a sequence of words (ring elements in both engines)
EvalWords(engine, ctx, ws, n) == TLCEval([x \in 1..Len(ws) |-> EvalWord(engine, ctx, ws[x], n)])
\* <psi| A |psi> for an operator (function word |-> ring coefficient)
EvalOp(engine, ctx, A, n) ==
  FoldSet(LAMBDA w, acc : Add(acc, Mul(A[w], EvalWord(engine, ctx, w, n))), RZero, DOMAIN A)

TermsRing(gs, ws, n)  == EvalWords("ring", Ctx("ring", gs, n), ws, n)
TermsCliff(gs, ws, n) == EvalWords("cliff", Ctx("cliff", gs, n), ws, n)

\* ---- deflation overlap |<0| U1^dagger U2 |0>|^2 ------------------------------------------------
OverlapVec(g1, psi, n) == Abs2(Inner(StateOf(g1, n), psi, Dim(n)))
OverlapRing(g1, g2, n) == OverlapVec(g1, StateOf(g2, n), n)
\* |0><0| = 2^-n SUM_{S} Z^S : the overlap of two Clifford circuits is a sum of 2^n stabiliser expectations
ZSetWord(S, n) == TLCEval([q \in 1..n |-> IF q \in S THEN 3 ELSE 0])
OverlapCliff(g1, g2, n) ==
  LET res == RevElems(g2 \o InvGates(g1))
      tot == FoldSet(LAMBDA S, acc : acc + ExpectZeroR(ZSetWord(S, n), res), 0, SUBSET (1..n))
  IN Dyadic(tot, n)

\* ---- post-selected state (projective circuit with mid-circuit measurements) ---------------------
\* sel: sequence of <<qubit, outcome>> applied AFTER the gate list (unnormalised)
RECURSIVE ProjectAll(_, _, _, _)
ProjectAll(psi, sel, n, x) == IF x > Len(sel) THEN psi ELSE ProjectAll(Project(psi, sel[x][1], sel[x][2], n), sel, n, x + 1)

\* ---- the spec's own Jordan-Wigner symmetry operators -------------------------------------------
\* product of ladder operators of a term (leftmost factor is the leftmost operator of the product)
JWTermOp(t, n) == FoldLeft(LAMBDA acc, f : OpMul(acc, JWLadder(f[1], f[2], n), n), OpIdentity(n), t)
JWOp(fop, n)   == FoldLeft(LAMBDA acc, ft : OpAdd(acc, OpScale(ft.c, JWTermOp(ft.t, n))), OpZero, fop)

JWN(n)       == JWOp(SpecN(n), n)
JWSz(n, utd) == JWOp(SpecSz(n, utd), n)
JWS2(n, utd) == LET sz == JWSz(n, utd) IN
                OpAdd(OpMul(JWOp(SpecSminus(n, utd), n), JWOp(SpecSplus(n, utd), n), n), OpAdd(sz, OpMul(sz, sz, n)))
\* Hard-core boson encoding (pUCCD): qubit p = pair occupation of spatial orbital p (both spin orbitals or none).
\* On that paired space N = 2 SUM_p n_p = SUM_p (1 - Z_p), and Sz = 0, S^2 = 0 identically (lemma-checked from first
\* principles on every paired determinant in C08Lemmas).
HCBN(n) == FoldLeft(LAMBDA acc, q : OpAdd(acc, OpSub(OpIdentity(n), OpWord(ZWord(q, n)))), OpZero, [q \in 1..n |-> q - 1])
SymOp(which, n, utd) == CASE which = "N" -> JWN(n) [] which = "Sz" -> JWSz(n, utd) [] which = "S^2" -> JWS2(n, utd)
                          [] which = "hcbN" -> HCBN(n) [] which \in {"hcbSz", "hcbS^2"} -> OpZero
\* the determinant of a set of doubly occupied spatial orbitals (alternating spin-orbital order)
PairDet(P) == {2 * p : p \in P} \cup {2 * p + 1 : p \in P}

\* determinant <-> vector over JW basis states
DetVec(D, n) == Basis(DetIndex(D, n), n)
\* Fock vector (function determinant |-> coefficient) as a qubit statevector under JW
FockToQubit(v, n) == TLCEval([x \in 1..Dim(n) |->
   LET Ds == {D \in DOMAIN v : DetIndex(D, n) = x - 1} IN IF Ds = {} THEN RZero ELSE v[CHOOSE D \in Ds : TRUE]])
=============================================================================
