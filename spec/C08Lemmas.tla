----------------------------- MODULE C08Lemmas -----------------------------
(***************************************************************************)
(* S-part of C08: the oracle of C08Defs is checked before it judges the     *)
(* code (LibCheck style: every check prints <<"LC", name, BOOLEAN>>).        *)
(*  - the spec's Jordan-Wigner N, Sz, S^2 act on every determinant as the    *)
(*    first-principles Fock operators (both spin orderings);                 *)
(*  - the stabiliser engine and the ring engine return the same e_j and the *)
(*    same overlaps on Clifford circuits; states are normalised;             *)
(*  - InvGates is the inverse; the projector identity behind OverlapCliff.   *)
(***************************************************************************)
EXTENDS C08Defs

CONSTANT NQ         \* qubits / spin orbitals of the lemma instances (4)

VARIABLE x
Init == x = 0
Next == x' = x
Check(name, cond) == PrintT(<<"LC", name, cond>>)

VecScale(z, v, n) == TLCEval([y \in 1..Dim(n) |-> Mul(z, v[y])])

\* ---- symmetry operators ------------------------------------------------------------------------
ASSUME Check("jw-N-first-principles",
  \A D \in Dets(NQ) : ApplyOp(JWN(NQ), DetVec(D, NQ), NQ) = VecScale(FromInt(Cardinality(D)), DetVec(D, NQ), NQ))
ASSUME Check("jw-Sz-first-principles",
  \A utd \in BOOLEAN : \A D \in Dets(NQ) :
     ApplyOp(JWSz(NQ, utd), DetVec(D, NQ), NQ)
       = VecScale(Dyadic(NAlpha(D, NQ, utd) - NBeta(D, NQ, utd), 1), DetVec(D, NQ), NQ))
ASSUME Check("jw-S2-first-principles",
  \A utd \in BOOLEAN : \A D \in Dets(NQ) :
     ApplyOp(JWS2(NQ, utd), DetVec(D, NQ), NQ) = FockToQubit(SpecS2Apply(VDet(D), NQ, utd), NQ))
ASSUME Check("sym-ops-hermitian",
  \A utd \in BOOLEAN : OpIsHermitian(JWN(NQ)) /\ OpIsHermitian(JWSz(NQ, utd)) /\ OpIsHermitian(JWS2(NQ, utd)))

\* hard-core bosons: every paired determinant is an eigenstate of N (2 |P|), Sz (0) and S^2 (0), and HCBN has the
\* eigenvalue 2 |P| on the qubit basis state with the pair occupations P
ASSUME Check("hcb-paired-determinants",
  LET np == NQ \div 2 IN
  \A P \in SUBSET (0..(np - 1)) :
     LET D == PairDet(P) IN
     /\ Cardinality(D) = 2 * Cardinality(P)
     /\ \A utd \in BOOLEAN : NAlpha(D, NQ, FALSE) = NBeta(D, NQ, FALSE)
     /\ SpecS2Apply(VDet(D), NQ, FALSE) = VZero
     /\ ApplyOp(HCBN(np), Basis(DetIndex(P, np), np), np) = VecScale(FromInt(2 * Cardinality(P)), Basis(DetIndex(P, np), np), np))

\* ---- engines -------------------------------------------------------------------------------------
CliffAlphabet(n) ==
       {G(nm, <<t>>, <<>>, 0) : nm \in {"H", "S", "X", "Y", "SDAG"}, t \in 0..(n-1)}
  \cup {G(nm, <<t>>, <<>>, k) : nm \in {"RX", "RY", "RZ"}, t \in 0..(n-1), k \in {M \div 4, -(M \div 4), M \div 2}}
  \cup ({G("CNOT", <<t>>, <<c>>, 0) : t \in 0..(n-1), c \in 0..(n-1)} \ {G("CNOT", <<t>>, <<t>>, 0) : t \in 0..(n-1)})
  \cup {G("CRZ", <<1>>, <<0>>, M \div 2), G("CZ", <<0>>, <<1>>, 0), G("SWAP", <<0, 1>>, <<>>, 0), G("XX", <<0, 1>>, <<>>, M \div 4)}
Prep2 == <<G("H", <<0>>, <<>>, 0), G("CNOT", <<1>>, <<0>>, 0), G("S", <<1>>, <<>>, 0), G("RX", <<0>>, <<>>, M \div 4)>>
Circs2 == {Prep2 \o <<a, b>> : a, b \in CliffAlphabet(2)}
Words2 == SetToSeqOf(AllWords(2), LAMBDA w : w)

ASSUME Check("engines-agree-terms",
  \A gs \in Circs2 : AllClifford(gs) /\ TermsRing(gs, Words2, 2) = TermsCliff(gs, Words2, 2))
ASSUME Check("engines-agree-overlap",
  \A a \in CliffAlphabet(2) : \A b \in CliffAlphabet(2) :
     OverlapRing(Prep2 \o <<a>>, <<b>> \o Prep2, 2) = OverlapCliff(Prep2 \o <<a>>, <<b>> \o Prep2, 2))
ASSUME Check("normalised", \A gs \in Circs2 : Norm2(StateOf(gs, 2), 4) = ROne)

\* ---- inverse ---------------------------------------------------------------------------------------
InvAlphabet == CliffAlphabet(2) \cup {G("T", <<0>>, <<>>, 0), G("TDAG", <<1>>, <<>>, 0), G("CS", <<1>>, <<0>>, 0), G("CT", <<0>>, <<1>>, 0),
                G("PHASE", <<0>>, <<>>, 3), G("CPHASE", <<1>>, <<0>>, 1), G("RY", <<1>>, <<>>, 2), G("CRX", <<0>>, <<1>>, 6)}
IdentityU(n) == TLCEval([col \in 1..Dim(n) |-> Basis(col - 1, n)])
ASSUME Check("invgates-is-inverse",
  \A a \in InvAlphabet : \A b \in InvAlphabet :
     UnitaryOf(<<a, b>> \o InvGates(<<a, b>>), 2) = IdentityU(2))

\* ---- projector identity: |0><0| = 2^-n SUM_S Z^S ---------------------------------------------------
ASSUME Check("zero-projector",
  LET n == 3
      P == FoldSet(LAMBDA S, acc : OpAdd(acc, OpScale(Dyadic(1, n), OpWord(ZSetWord(S, n)))), OpZero, SUBSET (1..n))
  IN \A a, b \in 0..(Dim(n) - 1) : OpElement(P, a, b, n) = (IF a = 0 /\ b = 0 THEN ROne ELSE RZero))
=============================================================================
