------------------------------ MODULE C08Trace ------------------------------
(***************************************************************************)
(* V-part of C08: artefacts recorded from VQESolver are evaluated exactly.  *)
(* One job = one (configuration, parameter vector):                         *)
(*   gates   the gate list the solver simulates                              *)
(*           (reference + ansatz(theta) + projective part),                  *)
(*   n, engine ("ring" | "cliff"),                                           *)
(*   sel     post-selection <<qubit, outcome>> pairs of a projective circuit *)
(*           with mid-circuit measurements (ring engine only; may be empty), *)
(*   words   Pauli words of the operators whose coefficients are floats      *)
(*           (Hamiltonian, encoded symmetry operators)  -> e_j               *)
(*   ops     operators with dyadic coefficients <<[terms, hasclaim, claim]>> *)
(*           -> exact <psi|A|psi>, optionally an exact claim (N = n_e ...)   *)
(*   syms    <<[which, utd, hasclaim, claim]>>: the spec's OWN Jordan-Wigner *)
(*           N / Sz / S^2 -> exact value (+ claim)                           *)
(*   defl    deflation circuits -> exact overlaps |<0|D^dagger U|0>|^2       *)
(* TLC decides the premises (well-formed gates on the exact carrier,        *)
(* Clifford-ness for the stabiliser engine, normalised state - the premise  *)
(* of the variational bound -, real expectation values, the exact claims)   *)
(* and exports the exact values <<"R", json>>; the harness contracts them   *)
(* with the code's float coefficients and compares with what the solver     *)
(* returned.                                                                *)
(***************************************************************************)
EXTENDS C08Defs

Jobs == JsonDeserialize(IOEnv.VERIF_JOBS)
VARIABLE i

WordsOK(ws, n) == \A x \in 1..Len(ws) : Len(ws[x]) = n /\ \A q \in 1..n : ws[x][q] \in 0..3
SelOK(sel, n)  == \A x \in 1..Len(sel) : sel[x][1] \in 0..(n-1) /\ sel[x][2] \in {0, 1}

Premise(j) ==
  IF ~AllWellFormed(j.gates, j.n) THEN "malformed-gate"
  ELSE IF \E x \in 1..Len(j.defl) : ~AllWellFormed(j.defl[x], j.n) THEN "malformed-gate"
  ELSE IF j.engine = "cliff" /\ ~AllClifford(j.gates) THEN "not-clifford"
  ELSE IF j.engine = "cliff" /\ \E x \in 1..Len(j.defl) : ~AllClifford(j.defl[x]) THEN "not-clifford"
  ELSE IF j.engine = "cliff" /\ j.sel # <<>> THEN "post-selection-needs-ring-engine"
  ELSE IF ~WordsOK(j.words, j.n) \/ ~SelOK(j.sel, j.n) THEN "malformed-word"
  ELSE IF \E x \in 1..Len(j.ops) : ~WordsOK([y \in 1..Len(j.ops[x].terms) |-> j.ops[x].terms[y].w], j.n) THEN "malformed-word"
  ELSE "ok"

Eval(j) ==
  LET n   == j.n
      raw == Ctx(j.engine, j.gates, n)
      nr0 == IF j.engine = "ring" THEN Norm2(raw, Dim(n)) ELSE ROne
      ctx == IF j.engine = "ring" /\ j.sel # <<>> THEN ProjectAll(raw, j.sel, n, 1) ELSE raw
  IN [id   |-> j.id,
      nrm0 |-> nr0,                                                         \* <psi|psi> before post-selection
      nrm  |-> IF j.engine = "ring" THEN Norm2(ctx, Dim(n)) ELSE ROne,      \* <phi|phi> after post-selection
      e    |-> EvalWords(j.engine, ctx, j.words, n),
      ops  |-> TLCEval([x \in 1..Len(j.ops) |-> EvalOp(j.engine, ctx, OpFromTerms(j.ops[x].terms), n)]),
      syms |-> TLCEval([x \in 1..Len(j.syms) |-> EvalOp(j.engine, ctx, SymOp(j.syms[x].which, n, j.syms[x].utd), n)]),
      ov   |-> TLCEval([x \in 1..Len(j.defl) |->
                 IF j.engine = "ring" THEN OverlapVec(j.defl[x], ctx, n) ELSE OverlapCliff(j.defl[x], j.gates, n)])]

AllReal(s) == \A x \in 1..Len(s) : IsReal(s[x])

Verdict(j, r) ==
  IF r.nrm0 # ROne THEN "not-normalised"
  ELSE IF ~(AllReal(r.e) /\ AllReal(r.ops) /\ AllReal(r.syms) /\ AllReal(r.ov) /\ IsReal(r.nrm)) THEN "complex-expectation"
  ELSE IF \E x \in 1..Len(j.ops) : j.ops[x].hasclaim /\ r.ops[x] # j.ops[x].claim THEN "op-claim-failed"
  ELSE IF \E x \in 1..Len(j.syms) : j.syms[x].hasclaim /\ r.syms[x] # j.syms[x].claim THEN "sym-claim-failed"
  ELSE "ok"

Judge(j) ==
  LET p == Premise(j) IN
  IF p # "ok" THEN PrintT(<<"V", j.id, p>>)
  ELSE LET r == Eval(j) IN
       /\ PrintT(<<"R", ToJson(r)>>)
       /\ PrintT(<<"V", j.id, Verdict(j, r)>>)

JInit == i \in 1..Len(Jobs)
JNext == i > 0 /\ Judge(Jobs[i]) /\ i' = 0
=============================================================================
