---------------------------- MODULE C08VqeEnergy ----------------------------
(***************************************************************************)
(* C08 - state-machine view of the variational solver (VQESolver).          *)
(*                                                                         *)
(* Abstraction.  A built solver holds: the parameter vector last loaded     *)
(* into its ansatz (cur; 0 = the initial parameters, 1..NTheta = index into *)
(* the harness' table of grid parameter vectors), the operator it targets   *)
(* (target; "H" = the Hamiltonian it was given), the parameters of the last *)
(* optimisation (opt; 0 = none) and whether get_rdm cached frequencies.     *)
(* One action per public operation:                                         *)
(*   Energy(t)      energy_estimation(theta_t)                               *)
(*   OpExp(o, t)    operator_expectation(o, theta_t)  o in N, Sz, S^2        *)
(*   OpExpCur(o)    operator_expectation(o)  (var_params = None: current)    *)
(*   Simulate(t)    simulate() with the trivial optimiser that evaluates the *)
(*                  energy at theta_t and returns it                         *)
(*   Rdm(t)         get_rdm(theta_t)                                         *)
(*   OpExpObj(f, t) operator_expectation(<operator object of form f>,        *)
(*                  theta_t): FermionOperator, foreign QubitOperator, own    *)
(*                  QubitOperator                                            *)
(*   Resources      get_resources()                                          *)
(* The CONTRACT is that the value returned by a call is a function of the   *)
(* call's own arguments (and, for OpExpCur, of cur) only:                   *)
(*   Energy(t) = E[t], OpExp(o,t) = X[o,t], Simulate(t) = E[t], and         *)
(* operator_expectation restores the target operator (target = "H" is an   *)
(* invariant: the temporary operator swap is not observable).  E and X are  *)
(* the exact values computed by C08Trace for the recorded circuits.         *)
(* TLC enumerates every call history up to MaxDepth (and random long ones   *)
(* with -simulate); each history is printed and replayed on the real        *)
(* solver; the return value of every call and the abstract state after      *)
(* every call are compared.                                                 *)
(***************************************************************************)
EXTENDS Integers, Sequences, TLC, Json

CONSTANTS NTheta,      \* number of grid parameter vectors in the harness' table
          MaxDepth,    \* calls per history
          WithRdm,     \* BOOLEAN: include get_rdm in the alphabet (needs a molecule)
          WithSym,     \* BOOLEAN: include operator_expectation("N"|"Sz"|"S^2") (needs a molecule; a solver built
                       \* from a qubit Hamiltonian documents a KeyError for them)
          Export       \* BOOLEAN: print histories

VARIABLES phase, cur, target, opt, hist

vars == <<phase, cur, target, opt, hist>>

Thetas == 1..NTheta
SymOps == {"N", "Sz", "S^2"}
\* forms of the operator argument of operator_expectation other than the three strings:
\*   "fermion"  a FermionOperator (the harness passes the molecule's fermionic Hamiltonian: value = plain energy)
\*   "qforeign" a QubitOperator DIFFERENT from the solver's Hamiltonian (value = exact contraction of its coefficients)
\*   "qown"     a QubitOperator equal to the solver's Hamiltonian
OpForms == (IF WithSym THEN {"fermion"} ELSE {}) \cup {"qforeign", "qown"}

Call(kind, op, t, expect) == [kind |-> kind, op |-> op, t |-> t, expect |-> expect]

Init == /\ phase = "built"          \* build() is performed by the harness before the history starts
        /\ cur = 0
        /\ target = "H"
        /\ opt = 0
        /\ hist = <<>>

\* expect = the theta index whose exact value the call must return
Do(c, newcur, newopt) ==
  /\ phase = "built"
  /\ Len(hist) < MaxDepth
  /\ cur' = newcur
  /\ opt' = newopt
  /\ target' = target            \* every operation leaves the target operator as it found it
  /\ phase' = phase
  /\ hist' = Append(hist, c)
  /\ (Export /\ Len(hist') = MaxDepth => PrintT(<<"H", ToJson(hist')>>))

Energy(t)   == Do(Call("energy", "", t, t), t, opt)
OpExp(o, t) == WithSym /\ Do(Call("opexp", o, t, t), t, opt)
OpExpCur(o) == WithSym /\ cur # 0 /\ Do(Call("opexpcur", o, 0, cur), cur, opt)
Simulate(t) == Do(Call("simulate", "", t, t), t, t)
Rdm(t)      == WithRdm /\ Do(Call("rdm", "", t, t), t, opt)
\* operator_expectation with an operator OBJECT: whatever its type, the solver's own Hamiltonian is the target afterwards
OpExpObj(f, t) == Do(Call("opexpobj", f, t, t), t, opt)
\* get_resources(): reads the Hamiltonian and the circuit, changes nothing (cur, opt, target unchanged)
Resources   == Do(Call("resources", "", 0, cur), cur, opt)

Next == \/ \E t \in Thetas : Energy(t) \/ Simulate(t) \/ Rdm(t)
        \/ \E t \in Thetas, f \in OpForms : OpExpObj(f, t)
        \/ Resources
        \/ \E t \in Thetas, o \in SymOps : OpExp(o, t)
        \/ \E o \in SymOps : OpExpCur(o)

Spec == Init /\ [][Next]_vars

\* ---- properties of the contract ---------------------------------------------------------------
TypeOK == /\ cur \in 0..NTheta /\ opt \in 0..NTheta /\ target \in {"H", "N", "Sz", "S^2"}
TargetRestored == target = "H"
\* cur is the parameter index of the last call, opt that of the last simulate
CurIsLast == hist # <<>> => cur = hist[Len(hist)].expect
OptIsLastSim == LET sims == {x \in 1..Len(hist) : hist[x].kind = "simulate"} IN
                IF sims = {} THEN opt = 0
                ELSE opt = hist[CHOOSE x \in sims : \A y \in sims : y <= x].t
=============================================================================
