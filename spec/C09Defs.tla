------------------------------ MODULE C09Defs ------------------------------
(***************************************************************************)
(* C09 - circuit transformations preserve the implemented operation.        *)
(*                                                                         *)
(* This module has no variables.  It contains                               *)
(*  (1) the judging vocabulary: the exact unitary of a gate list on the     *)
(*      qubits it uses (ring engine of Gates.tla), equivalence up to one    *)
(*      global phase, adjoint, qubit relabelling / compression, entangled   *)
(*      components;                                                         *)
(*  (2) the CONTRACTS of DESIGN 4/C09 (Inverse, MergeRotations,             *)
(*      RemoveRedundant, RemoveSmall, Simplify, Split, Stack, Trim,         *)
(*      Reindex, Copy, +, *, GateEq, CliffordDecomp, OutOfPlace) as         *)
(*      predicates over (input, arguments, output, input-after);            *)
(*  (3) ALGORITHM MODELS of the code's passes (merge / cancel / drop /      *)
(*      simplify / gate inverse / gate equality), parameterised by the      *)
(*      period used for controlled rotations: strict = TRUE is the correct  *)
(*      4 pi period of CRX/CRY/CRZ, strict = FALSE is the 2 pi period the   *)
(*      pinned code uses.  C09Transform.tla model-checks them against (1);  *)
(*  (4) Sem2, an alternative CONSISTENT semantics in which a controlled     *)
(*      rotation C-R(theta) is replaced by C-(e^{i theta/2} R(theta)),      *)
(*      which is 2 pi periodic and additive.  Every period-2pi              *)
(*      identification is sound in Sem2, so "not equivalent in the true     *)
(*      semantics but equivalent in Sem2" names exactly the 2pi-vs-4pi      *)
(*      defect class without reference to any algorithm model.              *)
(*                                                                         *)
(* A gate is a record [name, t, c, k, v] (+ ignored extra fields): targets, *)
(* controls (<<>> = none), angle index k (angle = 2 pi k / M), variational  *)
(* flag.  Circuits are sequences of gates; the FIRST gate acts first.       *)
(***************************************************************************)
EXTENDS Gates, TLC

GV(name, t, c, k, v) == [name |-> name, t |-> t, c |-> c, k |-> k, v |-> v]
Core(g)     == [name |-> g.name, t |-> g.t, c |-> g.c, k |-> g.k, v |-> g.v]
CoreSeq(gs) == TLCEval([j \in 1..Len(gs) |-> Core(gs[j])])

ParamNames  == {"RX", "RY", "RZ", "PHASE", "CRX", "CRY", "CRZ", "CPHASE", "XX"}
CRotNames   == {"CRX", "CRY", "CRZ"}
CliffordOut == {"H", "S", "X", "Y", "Z", "SDAG", "CNOT", "CX", "CY", "CZ", "SWAP"}

\* ---- qubits ---------------------------------------------------------------------------------
QSeq(g)  == g.t \o g.c
QSet(g)  == {g.t[j] : j \in 1..Len(g.t)} \cup {g.c[j] : j \in 1..Len(g.c)}
Used(gs) == UNION {QSet(gs[j]) : j \in 1..Len(gs)}
SetMax(S) == CHOOSE x \in S : \A y \in S : y <= x
SetMin(S) == CHOOSE x \in S : \A y \in S : x <= y
MaxIdx(gs) == IF Used(gs) = {} THEN -1 ELSE SetMax(Used(gs))
Rank(S, q) == Cardinality({x \in S : x < q})                 \* 0-based rank of q in S
RECURSIVE SortedSeq(_)
SortedSeq(S) == IF S = {} THEN <<>> ELSE <<SetMin(S)>> \o SortedSeq(S \ {SetMin(S)})

\* well-formedness of a gate record (what Gate() accepts for the supported names)
WFGate(g) ==
  /\ g.name \in DOMAIN BaseName
  /\ LET b == BaseName[g.name] IN
       /\ Len(g.t) = (IF b \in TwoTargetBase THEN 2 ELSE 1)
       /\ (b \in RotBase => g.k % 2 = 0)
       /\ (g.name \notin ParamNames => g.k = 0)
  /\ Cardinality(QSet(g)) = Len(g.t) + Len(g.c)
  /\ \A q \in QSet(g) : q >= 0
WFCirc(gs) == \A j \in 1..Len(gs) : WFGate(gs[j])

MapSeq(s, f) == TLCEval([j \in 1..Len(s) |-> f[s[j]]])
RelabelGate(g, f) == [g EXCEPT !.t = MapSeq(g.t, f), !.c = MapSeq(g.c, f)]
Relabel(gs, f)    == TLCEval([j \in 1..Len(gs) |-> RelabelGate(gs[j], f)])
\* relabel the qubits of S (a superset of Used(gs)) to 0..|S|-1 keeping their order
Compress(gs, S)   == Relabel(gs, TLCEval([q \in S |-> Rank(S, q)]))
\* inverse of Compress: qubit r (0-based rank) becomes the r-th smallest element of S
Uncompress(gs, S) == LET ss == SortedSeq(S) IN Relabel(gs, TLCEval([r \in 0..(Len(ss) - 1) |-> ss[r + 1]]))
Shift(gs, off)    == Relabel(gs, TLCEval([q \in Used(gs) |-> q + off]))

RECURSIVE Flatten(_)
Flatten(ss) == IF ss = <<>> THEN <<>> ELSE Head(ss) \o Flatten(Tail(ss))
Reverse(s) == TLCEval([j \in 1..Len(s) |-> s[Len(s) + 1 - j]])
RECURSIVE RepeatSeq(_, _)
RepeatSeq(s, r) == IF r <= 0 THEN <<>> ELSE s \o RepeatSeq(s, r - 1)

\* ---- exact semantics ------------------------------------------------------------------------
MaxJudgeQubits == 5
AdjointU(U, d) == TLCEval([col \in 1..d |-> TLCEval([row \in 1..d |-> Conj(U[row][col])])])
UOn(gs, S)     == UnitaryOf(Compress(gs, S), Cardinality(S))

\* a ~ b (one global phase) as operators on the qubits either of them touches; idle qubits carry the
\* identity on both sides, so this is equivalence on any common register containing those qubits
EquivOnS(a, b, S) == EquivUpToPhase(UOn(a, S), UOn(b, S), Dim(Cardinality(S)))
EquivOn(a, b)     == EquivOnS(a, b, Used(a) \cup Used(b))
TooBig(a, b)      == Cardinality(Used(a) \cup Used(b)) > MaxJudgeQubits
\* U(a) = U(b)^dagger up to phase
AdjointOn(a, b)   == LET S == Used(a) \cup Used(b)
                         d == Dim(Cardinality(S))
                     IN EquivUpToPhase(UOn(a, S), AdjointU(UOn(b, S), d), d)
IsIdentityUpToPhase(gs) == EquivOn(gs, <<>>)

\* ---- Sem2: the 2 pi-periodic controlled rotation C-(e^{i theta/2} R(theta)) ------------------
PhaseOnControls(c, j) == IF Len(c) = 1 THEN GV("PHASE", <<c[1]>>, <<>>, j, FALSE)
                         ELSE GV("CPHASE", <<c[1]>>, Tail(c), j, FALSE)
Sem2Gate(g) == IF g.name \in CRotNames /\ Len(g.c) >= 1 THEN <<Core(g), PhaseOnControls(g.c, g.k \div 2)>> ELSE <<Core(g)>>
Sem2(gs) == Flatten(TLCEval([j \in 1..Len(gs) |-> Sem2Gate(gs[j])]))

\* verdict of an equivalence claim: "ok", the named defect class, or a plain failure
Cls(okTrue, okSem2) == IF okTrue THEN "ok" ELSE IF okSem2 THEN "period-2pi" ELSE "not-equivalent"
EqV(a, b) == Cls(EquivOn(a, b), EquivOn(Sem2(a), Sem2(b)))

\* ---- entangled components (Split) ------------------------------------------------------------
RECURSIVE CompFrom(_, _, _)
CompFrom(gs, i, comps) ==
  IF i > Len(gs) THEN comps
  ELSE LET Q     == QSet(gs[i])
           touch == {C \in comps : C \cap Q # {}}
       IN CompFrom(gs, i + 1, (comps \ touch) \cup {Q \cup UNION touch})
Components(gs) == CompFrom(gs, 1, {})
RECURSIVE CompSeq(_)
CompSeq(C) == IF C = {} THEN <<>>
              ELSE LET c == CHOOSE x \in C : \A y \in C : SetMin(x) <= SetMin(y) IN <<c>> \o CompSeq(C \ {c})

\* ---- algorithm models of the code ------------------------------------------------------------
\* Gate.inverse()
GateInv(g) == IF g.name = "S" THEN [g EXCEPT !.name = "PHASE", !.k = -(M \div 4)]
              ELSE IF g.name = "T" THEN [g EXCEPT !.name = "PHASE", !.k = -(M \div 8)]
              ELSE IF g.name \in ParamNames THEN [g EXCEPT !.k = -g.k]
              ELSE g
InvCirc(gs) == TLCEval([j \in 1..Len(gs) |-> GateInv(gs[Len(gs) + 1 - j])])

\* Gate.__eq__: parameters compared modulo the period (code: 2 pi for every gate; strict: 4 pi for CRX/CRY/CRZ)
Period(g, strict) == IF strict /\ g.name \in CRotNames THEN 2 * M ELSE M
GEq(a, b, strict) ==
  /\ (a.name = b.name \/ (a.name \in {"CNOT", "CX"} /\ b.name \in {"CNOT", "CX"}))
  /\ a.t = b.t /\ a.c = b.c /\ a.v = b.v
  /\ (a.name \in ParamNames => (a.k - b.k) % Period(a, strict) = 0)

\* merge_rotations: per-qubit index of the last gate kept; a rotation is added into the previous gate
\* when that gate is the last one on ALL its qubits and has the same name, targets and controls
MergeNames == {"RX", "RY", "RZ", "CRX", "CRY", "CRZ", "PHASE", "CPHASE"}
RECURSIVE MergeFrom(_, _, _, _)
MergeFrom(gs, i, new, last) ==
  IF i > Len(gs) THEN new
  ELSE LET g     == Core(gs[i])
           prevs == {last[q] : q \in QSet(g)}
           p     == CHOOSE x \in prevs : TRUE
           ok    == /\ Cardinality(prevs) = 1 /\ p # 0 /\ g.name \in MergeNames
                    /\ new[p].name = g.name /\ new[p].t = g.t /\ new[p].c = g.c
       IN IF ok THEN MergeFrom(gs, i + 1, [new EXCEPT ![p] = [@ EXCEPT !.k = @ + g.k, !.v = @ \/ g.v]], last)
          ELSE MergeFrom(gs, i + 1, Append(new, g),
                         TLCEval([q \in DOMAIN last |-> IF q \in QSet(g) THEN Len(new) + 1 ELSE last[q]]))
MergeAlgo(gs) == MergeFrom(gs, 1, <<>>, TLCEval([q \in Used(gs) |-> 0]))

\* remove_redundant_gates: per-qubit stack of gate positions; a gate is removed together with the gate on
\* top of the stacks of ALL its qubits when the inverse of that gate == the gate
RECURSIVE CancelFrom(_, _, _, _, _)
CancelFrom(gs, i, st, rem, strict) ==
  IF i > Len(gs) THEN rem
  ELSE LET g   == gs[i]
           Q   == QSet(g)
           can == \A q \in Q : Len(st[q]) > 0 /\ GEq(GateInv(Core(gs[st[q][Len(st[q])]])), Core(g), strict)
           q1  == QSeq(g)[1]
       IN IF can
          THEN CancelFrom(gs, i + 1, TLCEval([q \in DOMAIN st |-> IF q \in Q THEN SubSeq(st[q], 1, Len(st[q]) - 1) ELSE st[q]]),
                          rem \cup {i, st[q1][Len(st[q1])]}, strict)
          ELSE CancelFrom(gs, i + 1, TLCEval([q \in DOMAIN st |-> IF q \in Q THEN Append(st[q], i) ELSE st[q]]), rem, strict)
KeepIdx(gs, rem) == LET RECURSIVE go(_)
                        go(i) == IF i > Len(gs) THEN <<>> ELSE (IF i \in rem THEN <<>> ELSE <<Core(gs[i])>>) \o go(i + 1)
                    IN go(1)
CancelAlgo(gs, strict) == KeepIdx(gs, CancelFrom(gs, 1, TLCEval([q \in Used(gs) |-> <<>>]), {}, strict))

\* remove_small_rotations: abs(angle) mod period < threshold, i.e. |k| mod period <= T (T = largest index below the threshold)
DropNames == {"RX", "RY", "RZ", "CRX", "CRY", "CRZ"}
AbsI(x) == IF x < 0 THEN -x ELSE x
DropIdx(gs, T, strict) == {i \in 1..Len(gs) : gs[i].name \in DropNames /\ AbsI(gs[i].k) % Period(gs[i], strict) <= T}
DropAlgo(gs, T, strict) == KeepIdx(gs, DropIdx(gs, T, strict))

\* simplify: merge, drop, cancel repeated until nothing changes (at most 100 cycles)
Pass(gs, T, strict) == CancelAlgo(DropAlgo(MergeAlgo(gs), T, strict), strict)
RECURSIVE SimplifyFrom(_, _, _, _)
SimplifyFrom(gs, T, strict, n) == LET nx == Pass(gs, T, strict) IN
                                  IF n = 0 \/ nx = CoreSeq(gs) THEN nx ELSE SimplifyFrom(nx, T, strict, n - 1)
SimplifyAlgo(gs, T, strict) == SimplifyFrom(gs, T, strict, 100)

\* ---- contracts ---------------------------------------------------------------------------------
IsVar(gs) == \E j \in 1..Len(gs) : gs[j].v

\* RemoveSmall(T): the output is the input with some gates deleted, each deleted gate being within T grid
\* steps of a gate that is the identity up to a global phase (sem = TRUE: true semantics, FALSE: Sem2)
NearIdentity(g, T, sem) ==
  /\ g.name \in ParamNames
  /\ \E j \in (-T)..T :
        /\ (BaseName[g.name] \in RotBase => j % 2 = 0)
        /\ LET h == <<[Core(g) EXCEPT !.k = g.k - j]>> IN
             IF sem THEN IsIdentityUpToPhase(h) ELSE IsIdentityUpToPhase(Sem2(h))
RECURSIVE DelOK(_, _, _, _, _, _)
DelOK(a, i, b, j, T, sem) ==
  IF i > Len(a) THEN j > Len(b)
  ELSE \/ (j <= Len(b) /\ Core(a[i]) = Core(b[j]) /\ DelOK(a, i + 1, b, j + 1, T, sem))
       \/ (NearIdentity(a[i], T, sem) /\ DelOK(a, i + 1, b, j, T, sem))
RemoveSmallV(in, out, T) == Cls(DelOK(in, 1, out, 1, T, TRUE), DelOK(in, 1, out, 1, T, FALSE))

\* Split: the parts are exactly the entangled components; trimmed parts are re-labelled to the component
\* (some assignment of parts to components of the right size) and the product of the parts ~ input
SplitOK(in, parts, trim) ==
  LET comps == CompSeq(Components(in))
      n     == Len(parts)
  IN /\ n = Len(comps)
     /\ IF ~trim
        THEN /\ {Used(parts[i]) : i \in 1..n} = Components(in)
             /\ EquivOn(Flatten(parts), in)
        ELSE \E p \in Permutations(1..n) :
               /\ \A i \in 1..n : Used(parts[i]) = 0..(Cardinality(comps[p[i]]) - 1)
               /\ EquivOn(Flatten(TLCEval([i \in 1..n |-> Uncompress(parts[i], comps[p[i]])])), in)

\* Stack: the output ~ trimmed inputs placed side by side (offset = total number of qubits used before)
RECURSIVE StackFrom(_, _, _)
StackFrom(cs, i, off) == IF i > Len(cs) THEN <<>>
                         ELSE Shift(Compress(cs[i], Used(cs[i])), off) \o StackFrom(cs, i + 1, off + Cardinality(Used(cs[i])))
StackModel(cs) == StackFrom(cs, 1, 0)
RECURSIVE SumUsed(_, _)
SumUsed(cs, i) == IF i > Len(cs) THEN 0 ELSE Cardinality(Used(cs[i])) + SumUsed(cs, i + 1)

TrimModel(gs) == Compress(gs, Used(gs))
\* Reindex: the i-th smallest qubit index of the circuit (all of 0..fixedN-1 for a fixed-width circuit) becomes new[i]
QIdxSet(gs, fixedN) == IF fixedN > 0 THEN 0..(fixedN - 1) ELSE Used(gs)
ReindexModel(gs, fixedN, new) == LET S == QIdxSet(gs, fixedN) IN Relabel(gs, TLCEval([q \in S |-> new[Rank(S, q) + 1]]))
=============================================================================
