----------------------------- MODULE C09ThrDefs -----------------------------
(***************************************************************************)
(* C09, option arguments of the simplification passes (no variables).       *)
(*                                                                         *)
(* Angles are FIXED-POINT integers p = angle in micro-radians, so that        *)
(* thresholds far below the exact ring's grid (1e-8 .. 2e-3) are decidable   *)
(* by TLC with integer arithmetic.  A gate is [name, t, c, p, v].            *)
(*                                                                         *)
(* Contract of remove_small_rotations(param_threshold = thr) and of the      *)
(* threshold argument of simplify:  the output is the input with gates       *)
(* deleted, and EVERY deleted gate is a rotation whose angle is within thr   *)
(* of a multiple of its period (2 pi; 4 pi for CRX / CRY / CRZ) - i.e. every *)
(* rotation with |angle| >= the STATED threshold survives.  The operator     *)
(* distance then is at most (number of deleted gates) * thr / 2 (numeric     *)
(* tail, computed by the harness).                                           *)
(* Contract of the in-place METHOD forms: for every value of every           *)
(* documented keyword the method leaves the object in exactly the state the  *)
(* module-level function returns (same gate list incl. raw angles, same      *)
(* width) - method form and function form are two actions with the same      *)
(* next state.                                                               *)
(***************************************************************************)
EXTENDS Integers, Sequences, FiniteSets, TLC

RotNames  == {"RX", "RY", "RZ", "CRX", "CRY", "CRZ"}
CRotNames == {"CRX", "CRY", "CRZ"}
TwoPi     == 6283185            \* micro-radians
FourPi    == 12566371
Tol       == 4                  \* rounding of the fixed-point representation (a few multiples of 2 pi)

GateCore(g)  == [name |-> g.name, t |-> g.t, c |-> g.c, p |-> g.p, v |-> g.v]
Per(g)       == IF g.name \in CRotNames THEN FourPi ELSE TwoPi
DistToMultiple(p, per) == LET r == p % per IN IF r <= per - r THEN r ELSE per - r
\* within thr (T6 micro-radians) of an identity-up-to-phase point
NearIdFx(g, T6) == g.name \in RotNames /\ DistToMultiple(g.p, Per(g)) <= T6 + Tol

RECURSIVE DelOKFx(_, _, _, _, _)
DelOKFx(a, i, b, j, T6) ==
  IF i > Len(a) THEN j > Len(b)
  ELSE \/ (j <= Len(b) /\ GateCore(a[i]) = GateCore(b[j]) /\ DelOKFx(a, i + 1, b, j + 1, T6))
       \/ (NearIdFx(a[i], T6) /\ DelOKFx(a, i + 1, b, j, T6))
NDeleted(a, b) == Len(a) - Len(b)

\* algorithm model of the code: abs(angle) mod period < thr
AbsI(x) == IF x < 0 THEN -x ELSE x
DropsFx(g, T6) == g.name \in RotNames /\ AbsI(g.p) % Per(g) < T6
RECURSIVE DropModelFx(_, _, _)
DropModelFx(gs, i, T6) == IF i > Len(gs) THEN <<>>
                          ELSE (IF DropsFx(gs[i], T6) THEN <<>> ELSE <<GateCore(gs[i])>>) \o DropModelFx(gs, i + 1, T6)
=============================================================================
