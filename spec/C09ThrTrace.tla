----------------------------- MODULE C09ThrTrace -----------------------------
(***************************************************************************)
(* C09, V-part for option arguments: recorded calls judged in fixed point.   *)
(* kinds:                                                                    *)
(*  "thr"    remove_small_rotations / simplify (on circuits where simplify   *)
(*           is a pure deletion pass) with a STATED threshold:               *)
(*           in, out, T6 (threshold in micro-radians), strict (the output    *)
(*           may only delete: remove_small_rotations) ->                     *)
(*             dropped-above-threshold  a deleted gate is not within the     *)
(*                                      stated threshold of an identity      *)
(*             input-mutated            out-of-place call changed its input  *)
(*  "formeq" the same call through the in-place method and through the       *)
(*           module-level function, same keyword values ->                   *)
(*             method-differs-from-function  gate lists (incl. raw angles),  *)
(*                                           widths or raised-flags differ   *)
(***************************************************************************)
EXTENDS C09ThrDefs, Json, IOUtils

Jobs == JsonDeserialize(IOEnv.VERIF_JOBS)
VARIABLE i

\* simplify on a circuit in which no two gates have the same targets and controls can neither merge nor cancel:
\* it is a pure deletion pass and the deletion contract applies to it as well
PureDrop(gs) == \A a, b \in 1..Len(gs) : a # b => <<gs[a].t, gs[a].c>> # <<gs[b].t, gs[b].c>>
Verdict(j) ==
  CASE j.kind = "thr" ->
         (IF j.inplace \/ j.in = j.after THEN <<>> ELSE <<"input-mutated">>)
      \o (IF (j.op = "simplify" /\ ~PureDrop(j.in)) \/ DelOKFx(j.in, 1, j.out, 1, j.T6) THEN <<>> ELSE <<"dropped-above-threshold">>)
    [] j.kind = "formeq" ->
         IF j.r_fn = j.r_m /\ (j.r_fn \/ (j.out_fn = j.out_m /\ j.w_fn = j.w_m)) THEN <<>> ELSE <<"method-differs-from-function">>
    [] OTHER -> <<"unknown-kind">>

JInit == i \in 1..Len(Jobs)
JNext == i > 0 /\ PrintT(<<"V", Jobs[i].id, ToJson(Verdict(Jobs[i]))>>) /\ i' = 0
=============================================================================
