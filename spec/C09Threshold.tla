----------------------------- MODULE C09Threshold -----------------------------
(***************************************************************************)
(* C09: generator of circuits with angles just below / above the thresholds  *)
(* of the simplification passes (4e-4 .. 2e-3 rad around 0, 2 pi, 4 pi,       *)
(* negative), in fixed point, and S-check of the drop model against the       *)
(* deletion contract of C09ThrDefs for every threshold of the option alphabet.*)
(***************************************************************************)
EXTENDS C09ThrDefs, Json

CONSTANTS MaxLen, Export
VARIABLE circ

Qs == {0, 1}
\* micro-radians: 0, 5e-6, 4e-4, 8e-4, -6e-4, 2e-3, pi/2, 2pi, 2pi+6e-4, -2pi+5e-4, 4pi, 4pi+5e-4
TinyP == {0, 5, 400, 800, -600, 2000, 1570796, 6283185, 6283785, -6282685, 12566371, 12566871}
\* thresholds of the option alphabet in micro-radians: 0, 1e-8 (rounds to 0), 1e-5, 1e-3 (default), 2e-3, 0.5
Thresholds == {0, 10, 1000, 2000, 500000}
GT(name, t, c, p) == [name |-> name, t |-> t, c |-> c, p |-> p, v |-> FALSE]
Alphabet ==
       { GT(nm, <<q>>, <<>>, p) : nm \in {"RX", "RZ"}, q \in Qs, p \in TinyP }
  \cup { GT("RY", <<0>>, <<>>, p) : p \in {400, 800, 2000} }
  \cup { GT("CRZ", <<1>>, <<0>>, p) : p \in TinyP } \cup { GT("CRX", <<0>>, <<1>>, p) : p \in TinyP }
  \cup { GT("H", <<q>>, <<>>, 0) : q \in Qs } \cup { GT("CNOT", <<1>>, <<0>>, 0), GT("PHASE", <<0>>, <<>>, 400) }

Init == circ = <<>>
Next == \E g \in Alphabet : Len(circ) < MaxLen /\ circ' = Append(circ, g)

\* S: the drop model deletes only what the contract allows, for every threshold; and it is not vacuous
DropModelSound == \A T6 \in Thresholds : DelOKFx(circ, 1, DropModelFx(circ, 1, T6), 1, T6)
ThresholdMatters == (Len(circ) = 1 /\ circ[1].name \in RotNames /\ circ[1].p = 800)
                       => (DropModelFx(circ, 1, 1000) = <<>> /\ DropModelFx(circ, 1, 10) = circ /\ ~DelOKFx(circ, 1, <<>>, 1, 10))
ExportAll == Export => PrintT(<<"CIRC", ToJson(circ)>>)
=============================================================================
