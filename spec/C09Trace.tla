------------------------------ MODULE C09Trace ------------------------------
(***************************************************************************)
(* C09, V-part: recorded (input, arguments, output, input-after) tuples of   *)
(* the implementation's transformations are judged against the contracts of *)
(* C09Defs with the exact ring engine.  One job = one call of one            *)
(* transformation on a circuit that C09Transform generated.                  *)
(*                                                                         *)
(* The verdict of a job is the sequence of the names of the failing clauses *)
(* (<<>> = the contract holds).  Clause names:                               *)
(*   malformed        a recorded gate is not a well-formed gate              *)
(*   too-big          more than MaxJudgeQubits qubits involved (not judged)  *)
(*   input-mutated    OutOfPlace: the input's gate list changed              *)
(*   not-equivalent   the operation implemented by the output differs        *)
(*   period-2pi       ... differs, but agrees in Sem2: the failure is exactly*)
(*                    a 2pi-instead-of-4pi identification of a controlled    *)
(*                    rotation                                               *)
(*   width            the reported width breaks the operation's width rule   *)
(*   variational      the variational flag of the circuit was lost / invented*)
(*   not-clifford     CliffordDecomp produced a non-Clifford gate            *)
(*   self             in-place operation did not return / keep the object    *)
(* Informational clauses start with "~" (~drift: output differs from the     *)
(* algorithm model although the contract holds).                             *)
(***************************************************************************)
EXTENDS C09Defs, Json, IOUtils

Jobs == JsonDeserialize(IOEnv.VERIF_JOBS)
VARIABLE i

Cl(cond, name) == IF cond THEN <<>> ELSE <<name>>
ClV(v)         == IF v = "ok" THEN <<>> ELSE <<v>>
ClE(cond)      == Cl(cond, "not-equivalent")
\* the named class is reported only when the output is exactly what the period-2pi algorithm model produces
Narrow(v, isModel) == IF v = "period-2pi" /\ ~isModel THEN "not-equivalent" ELSE v
CodeModel(j)   == CASE j.kind = "merge" -> MergeAlgo(j.in)
                    [] j.kind = "redundant" -> CancelAlgo(j.in, FALSE)
                    [] j.kind = "small" -> DropAlgo(j.in, j.T, FALSE)
                    [] j.kind = "simplify" -> SimplifyAlgo(j.in, j.T, FALSE)
StrictModel(j) == CASE j.kind = "merge" -> MergeAlgo(j.in)
                    [] j.kind = "redundant" -> CancelAlgo(j.in, TRUE)
                    [] j.kind = "small" -> DropAlgo(j.in, j.T, TRUE)
                    [] j.kind = "simplify" -> SimplifyAlgo(j.in, j.T, TRUE)
Max2(a, b)     == IF a >= b THEN a ELSE b
WFAll(seqs)    == \A x \in 1..Len(seqs) : WFCirc(seqs[x])
Same(a, b)     == a = b            \* recorded gate lists (all recorded fields, incl. the raw parameter)
WidthFits(gs, w) == w >= MaxIdx(gs) + 1

Verdict(j) ==
  CASE j.kind = "inverse" ->
         IF ~WFAll(<<j.in, j.out>>) THEN <<"malformed">> ELSE IF TooBig(j.in, j.out) THEN <<"too-big">> ELSE
            Cl(Same(j.in, j.after), "input-mutated")
         \o Cl(AdjointOn(j.out, j.in), "not-equivalent")
         \o Cl(j.w_out = j.w_in, "width")
         \o Cl(IsVar(j.out) = IsVar(j.in), "variational")
         \o Cl(CoreSeq(j.out) = InvCirc(CoreSeq(j.in)), "~drift")
    [] j.kind \in {"copy", "mul"} ->
         IF ~WFAll(<<j.in, j.out>>) THEN <<"malformed">> ELSE IF TooBig(j.in, j.out) THEN <<"too-big">> ELSE
            Cl(Same(j.in, j.after), "input-mutated")
         \o ClE(EquivOn(j.out, RepeatSeq(CoreSeq(j.in), j.r)))
         \o Cl(j.w_out = j.w_in, "width")
         \o Cl(IsVar(j.out) = IsVar(j.in), "variational")
         \o Cl(CoreSeq(j.out) = RepeatSeq(CoreSeq(j.in), j.r), "~drift")
    [] j.kind = "add" ->
         IF ~WFAll(<<j.a, j.b, j.out>>) THEN <<"malformed">> ELSE IF TooBig(j.a \o j.b, j.out) THEN <<"too-big">> ELSE
            Cl(Same(j.a, j.a_after) /\ Same(j.b, j.b_after), "input-mutated")
         \o ClE(EquivOn(j.out, j.a \o j.b))
         \o Cl(j.w_out = Max2(j.w_a, j.w_b), "width")
         \o Cl(IsVar(j.out) = (IsVar(j.a) \/ IsVar(j.b)), "variational")
    [] j.kind \in {"merge", "redundant", "small", "simplify"} ->
         IF ~WFAll(<<j.in, j.out>>) THEN <<"malformed">> ELSE IF TooBig(j.in, j.out) THEN <<"too-big">> ELSE
            Cl(j.inplace \/ Same(j.in, j.after), "input-mutated")
         \o (IF j.kind = "merge" THEN ClE(EquivOn(j.out, j.in))
             ELSE IF j.kind = "small" THEN ClV(Narrow(RemoveSmallV(j.in, j.out, j.T), CoreSeq(j.out) = CodeModel(j)))
             ELSE IF j.T = 0 THEN ClV(Narrow(EqV(j.out, j.in), CoreSeq(j.out) = CodeModel(j)))
             ELSE <<>>)
         \o (IF j.kind = "small" /\ j.T = 0 /\ ~EquivOn(j.out, j.in) /\ RemoveSmallV(j.in, j.out, 0) = "ok" THEN <<"spec-inconsistent">> ELSE <<>>)
         \o Cl(WidthFits(j.out, j.w_out) /\ ((j.kind \in {"redundant", "small"} /\ ~j.rq) => j.w_out = j.w_in), "width")
         \o Cl(j.kind = "merge" => IsVar(j.out) = IsVar(j.in), "variational")
         \o Cl(CoreSeq(j.out) = CodeModel(j) \/ CoreSeq(j.out) = StrictModel(j), "~drift")
    [] j.kind = "split" ->
         IF ~(WFCirc(j.in) /\ WFAll(j.parts)) THEN <<"malformed">> ELSE IF TooBig(j.in, <<>>) THEN <<"too-big">> ELSE
            Cl(Same(j.in, j.after), "input-mutated")
         \o Cl(SplitOK(j.in, j.parts, j.trim), "not-equivalent")
         \o Cl(IsVar(Flatten(j.parts)) = IsVar(j.in), "variational")
    [] j.kind = "stack" ->
         IF ~(WFCirc(j.out) /\ WFAll(j.ins)) THEN <<"malformed">> ELSE IF TooBig(StackModel(j.ins), j.out) THEN <<"too-big">> ELSE
            Cl(Same(j.ins, j.afters), "input-mutated")
         \o ClE(EquivOn(j.out, StackModel(j.ins)))
         \o Cl(j.w_out = SumUsed(j.ins, 1), "width")
         \o Cl(IsVar(j.out) = IsVar(Flatten(j.ins)), "variational")
    [] j.kind = "trim" ->
         IF ~WFAll(<<j.in, j.out>>) THEN <<"malformed">> ELSE IF TooBig(TrimModel(j.in), j.out) THEN <<"too-big">> ELSE
            ClE(EquivOn(j.out, TrimModel(j.in)))
         \o Cl(j.w_out = Cardinality(Used(j.in)), "width")
         \o Cl(IsVar(j.out) = IsVar(j.in), "variational")
         \o Cl(j.ret_self, "self")
    [] j.kind = "reindex" ->
         IF ~WFAll(<<j.in, j.out>>) THEN <<"malformed">>
         ELSE IF TooBig(ReindexModel(j.in, j.fixedN, j.new), j.out) THEN <<"too-big">> ELSE
            ClE(EquivOn(j.out, ReindexModel(j.in, j.fixedN, j.new)))
         \o Cl(j.w_out = SetMax({j.new[x] : x \in 1..Len(j.new)}) + 1, "width")
         \o Cl(IsVar(j.out) = IsVar(j.in), "variational")
    [] j.kind = "gateeq" ->
         IF ~WFAll(<<<<j.g1>>, <<j.g2>>>>) THEN <<"malformed">> ELSE
            (IF j.eq THEN ClV(Narrow(EqV(<<j.g1>>, <<j.g2>>), GEq(j.g1, j.g2, FALSE))) \o Cl(j.g1.v = j.g2.v, "variational") ELSE <<>>)
         \o Cl(j.eq = GEq(j.g1, j.g2, FALSE) \/ j.eq = GEq(j.g1, j.g2, TRUE), "~drift")
    [] j.kind = "clifford" ->
         IF ~WFAll(<<<<j.g>>, j.out>>) THEN <<"malformed">> ELSE
            ClE(EquivOn(j.out, <<j.g>>))
         \o Cl(\A x \in 1..Len(j.out) : j.out[x].name \in CliffordOut, "not-clifford")
    [] OTHER -> <<"unknown-kind">>

JInit == i \in 1..Len(Jobs)
JNext == i > 0 /\ PrintT(<<"V", Jobs[i].id, ToJson(Verdict(Jobs[i]))>>) /\ i' = 0
=============================================================================
