---------------------------- MODULE C09Transform ----------------------------
(***************************************************************************)
(* C09, S-part and input generator.                                         *)
(*                                                                         *)
(* State machine: `circ` is a gate list grown one gate at a time from an     *)
(* alphabet (names x ordered qubit placements over the qubit set Qs, which  *)
(* may have gaps x angle indices over the full 4 pi period incl. 0, 2 pi,   *)
(* negative x variational flag).  Every reachable state is a circuit.       *)
(*                                                                         *)
(* S: in every reachable circuit TLC evaluates the algorithm models of       *)
(* C09Defs (merge / cancel / drop / simplify / inverse) against the exact   *)
(* unitary: with the correct 4 pi period of controlled rotations they        *)
(* preserve the operation up to phase (invariants ..Strict..). With the 2 pi  *)
(* period used by the pinned code they do NOT (invariants ..Code.., expected  *)
(* to be violated: the design-level counterexample CR(a) CR(2pi - a)),       *)
(* and in the alternative semantics Sem2 the 2 pi models are sound           *)
(* (Sem2Sound: validates the device that names the defect class).            *)
(*                                                                         *)
(* G: with Export = TRUE every reachable circuit is printed; the harness     *)
(* replays them into real Circuit objects, applies every transformation and *)
(* records (input, args, output, input-after) for C09Trace.tla.              *)
(* In -simulate mode the circuit reached at depth MaxLen is printed.         *)
(***************************************************************************)
EXTENDS C09Defs, Json

CONSTANTS Qs,         \* set of qubit indices used by the generator (gaps allowed)
          MaxLen,     \* maximal circuit length
          Names0,     \* subset of {"H","X","Y","Z","S","T"}
          NamesR,     \* subset of {"RX","RY","RZ"}
          NamesC,     \* subset of {"CNOT","CX","CY","CZ","CH"}
          NamesCR,    \* subset of {"CRX","CRY","CRZ"}
          Names2,     \* subset of {"XX","SWAP","CSWAP","PHASE","CPHASE"}  (switches)
          RotK,       \* even angle indices for RX RY RZ CRX CRY CRZ XX
          PhaseK,     \* angle indices for PHASE CPHASE
          MaxCtrl,    \* maximal number of controls (1 or 2)
          VarSet,     \* variational flags offered for parameterised gates, e.g. {FALSE} or {FALSE, TRUE}
          Mode,       \* "free": any gate may follow; "pairs": the 2nd gate acts on the same targets/controls as the 1st;
                      \* "sandwich": g1 ; p* ; m ; g' (see Sandwich below)
          OuterMaxQ,  \* sandwich mode: maximal number of qubits of the outer gate g1
          Export      \* BOOLEAN

\* named angle sets (cfg files cannot contain negative numbers)
RotKFull    == { 2 * j : j \in (-(M \div 2))..M }                      \* -2pi .. 4pi
RotKMid     == { -M, -2, 0, 2, M - 2, M, M + 2, 2 * M - 2, 2 * M }
RotKSmall   == { -2, 0, 2, M, M + 2 }
RotKTiny    == { 2, M - 2, M + 2 }
RotKPair    == { 2, M - 2 }
PhaseKFull  == (-M)..(2 * M)
PhaseKMid   == { -M, -1, 0, 1, 3, M \div 2, M - 1, M, M + 1 }
PhaseKSmall == { -1, 0, 1, M \div 2, M }
PhaseKTiny  == { 1, M - 1 }
RotKGen     == { -2, 2 }               \* a generic angle (pi/4 for M = 16) and its inverse
PhaseKGen   == { -1, 1 }
RotKGen3    == { -2, 2, 6 }
PhaseKGen3  == { -1, 1, 3 }
VarBoth     == {FALSE, TRUE}
VarNo       == {FALSE}

VARIABLE circ
vars == <<circ>>

CtrlSeqs(others) ==
  { <<a>> : a \in others }
  \cup (IF MaxCtrl >= 2 THEN { s \in { <<a, b>> : a \in others, b \in others } : s[1] # s[2] } ELSE {})
Pairs == { <<a, b>> : a \in Qs, b \in Qs } \ { <<a, a>> : a \in Qs }

Alphabet ==
       { GV(nm, <<t>>, <<>>, 0, FALSE) : nm \in Names0, t \in Qs }
  \cup { GV(nm, <<t>>, <<>>, k, v) : nm \in NamesR, t \in Qs, k \in RotK, v \in VarSet }
  \cup (IF "PHASE" \in Names2 THEN { GV("PHASE", <<t>>, <<>>, k, v) : t \in Qs, k \in PhaseK, v \in VarSet } ELSE {})
  \cup UNION { { GV(nm, <<t>>, c, 0, FALSE) : nm \in NamesC, c \in CtrlSeqs(Qs \ {t}) } : t \in Qs }
  \cup UNION { { GV(nm, <<t>>, c, k, v) : nm \in NamesCR, c \in CtrlSeqs(Qs \ {t}), k \in RotK, v \in VarSet } : t \in Qs }
  \cup (IF "CPHASE" \in Names2 THEN UNION { { GV("CPHASE", <<t>>, c, k, v) : c \in CtrlSeqs(Qs \ {t}), k \in PhaseK, v \in VarSet } : t \in Qs } ELSE {})
  \cup (IF "XX" \in Names2 THEN { GV("XX", p, <<>>, k, v) : p \in Pairs, k \in RotK, v \in VarSet } ELSE {})
  \cup (IF "SWAP" \in Names2 THEN { GV("SWAP", p, <<>>, 0, FALSE) : p \in Pairs } ELSE {})
  \cup (IF "CSWAP" \in Names2 THEN UNION { { GV("CSWAP", p, <<c>>, 0, FALSE) : c \in Qs \ {p[1], p[2]} } : p \in Pairs } ELSE {})

Init == circ = <<>>

\* ---- "sandwich" mode: interleaving patterns --------------------------------------------------------------------
\* A sandwich is  g1 ; p_1 .. p_k ; m ; g'  where
\*   g1  is any gate of the alphabet (a rotation on one qubit, a controlled rotation, CNOT, SWAP, ...),
\*   p_j are parameter-free one-qubit gates on pairwise distinct qubits that g1 does not touch (k = 0 .. MaxLen - 3):
\*       they give the other qubits of m a previous gate that DIFFERS from g1,
\*   m   is a gate that shares a qubit with g1 and with every p_j but has other targets/controls than g1 (a controlled
\*       gate whose control or target is g1's qubit, a 2-control gate, SWAP, XX, or a one-qubit gate on a subset of g1's qubits),
\*   g'  acts on exactly g1's targets and controls and has a related name (same name: mergeable / cancelling rotations and
\*       self-inverse gates, CNOT~CX, S or T followed by PHASE).
\* Every pass that tracks "the last gate on each qubit" (merge, cancel, simplify) must see m between g1 and g'.
Place(g)   == <<g.t, g.c>>
MPosSet    == {j \in 2..Len(circ) : QSet(circ[j]) \cap QSet(circ[1]) # {}}
HasM       == Len(circ) >= 2 /\ MPosSet # {}
MPos       == SetMin(MPosSet)
PQubits    == UNION {QSet(circ[j]) : j \in 2..Len(circ)}
RelatedName(a, b) == \/ a.name = b.name
                     \/ (a.name \in {"CNOT", "CX"} /\ b.name \in {"CNOT", "CX"})
                     \/ (a.name \in {"S", "T"} /\ b.name = "PHASE")
SandwichStep(g) ==
  IF Len(circ) = 0 THEN Cardinality(QSet(g)) <= OuterMaxQ
  ELSE IF ~HasM
       THEN \/ /\ Len(circ) <= MaxLen - 3                       \* p-gate
               /\ g.name \in Names0 /\ Len(g.c) = 0
               /\ QSet(g) \cap (QSet(circ[1]) \cup PQubits) = {}
            \/ /\ QSet(g) \cap QSet(circ[1]) # {}               \* m (one angle per parameterised name is enough here)
               /\ g.k \in {0, 2} /\ ~g.v
               /\ Place(g) # Place(circ[1])
               /\ \A j \in 2..Len(circ) : QSet(g) \cap QSet(circ[j]) # {}
       ELSE /\ Len(circ) = MPos                                 \* g'
            /\ Place(g) = Place(circ[1]) /\ RelatedName(circ[1], g)
SandwichComplete == HasM /\ Len(circ) = MPos + 1

Step(g) == /\ Len(circ) < MaxLen
           /\ (Mode = "pairs" /\ Len(circ) >= 1 => (g.t = circ[1].t /\ g.c = circ[1].c))
           /\ (Mode = "sandwich" => SandwichStep(g))
           /\ circ' = Append(circ, g)

Next == \E g \in Alphabet : Step(g)
Spec == Init /\ [][Next]_vars

\* ---- S: properties of the algorithm models, evaluated on every reachable circuit -----------------
AlphabetOK      == \A g \in Alphabet : WFGate(g)
InverseExact    == LET S == Qs
                       d == Dim(Cardinality(S))
                   IN UOn(InvCirc(circ), S) = AdjointU(UOn(circ, S), d)
UnitaryOK       == IsUnitary(UOn(circ, Qs), Dim(Cardinality(Qs)))
MergeOK         == EquivOnS(MergeAlgo(circ), circ, Qs) /\ IsVar(MergeAlgo(circ)) = IsVar(circ)
CancelStrictOK  == EquivOnS(CancelAlgo(circ, TRUE), circ, Qs)
DropStrictOK    == EquivOnS(DropAlgo(circ, 0, TRUE), circ, Qs)
SimplifyStrictOK == EquivOnS(SimplifyAlgo(circ, 0, TRUE), circ, Qs)
\* the pinned code's period: expected to be VIOLATED (design-level counterexample)
CancelCodeOK    == EquivOnS(CancelAlgo(circ, FALSE), circ, Qs)
DropCodeOK      == EquivOnS(DropAlgo(circ, 0, FALSE), circ, Qs)
\* ... but sound in Sem2, and the contract verdict names the class
Sem2Sound       == /\ EquivOnS(Sem2(CancelAlgo(circ, FALSE)), Sem2(circ), Qs)
                   /\ EquivOnS(Sem2(DropAlgo(circ, 0, FALSE)), Sem2(circ), Qs)
                   /\ EquivOnS(Sem2(SimplifyAlgo(circ, 0, FALSE)), Sem2(circ), Qs)
                   /\ EquivOnS(Sem2(MergeAlgo(circ)), Sem2(circ), Qs)
VerdictNames    == /\ EqV(CancelAlgo(circ, FALSE), circ) \in {"ok", "period-2pi"}
                   /\ EqV(CancelAlgo(circ, TRUE), circ) = "ok"
                   /\ RemoveSmallV(circ, DropAlgo(circ, 0, FALSE), 0) \in {"ok", "period-2pi"}
                   /\ RemoveSmallV(circ, DropAlgo(circ, 0, TRUE), 0) = "ok"
                   /\ RemoveSmallV(circ, DropAlgo(circ, 2, TRUE), 2) = "ok"
\* structural lemmas behind Trim / Stack / Split contracts
TrimLemma       == /\ Used(TrimModel(circ)) = 0..(Cardinality(Used(circ)) - 1)
                   /\ Uncompress(TrimModel(circ), Used(circ)) = CoreSeq(circ)
SplitLemma      == LET comps == CompSeq(Components(circ))
                       parts == TLCEval([i \in 1..Len(comps) |-> SelectSeq(CoreSeq(circ), LAMBDA g : QSet(g) \subseteq comps[i])])
                   IN /\ UNION Components(circ) = Used(circ)
                      /\ \A a, b \in Components(circ) : a = b \/ a \cap b = {}
                      /\ SplitOK(circ, parts, FALSE)
                      /\ SplitOK(circ, TLCEval([i \in 1..Len(parts) |-> TrimModel(parts[i])]), TRUE)

\* ---- G: export ---------------------------------------------------------------------------------------
ExportAll == Export => PrintT(<<"CIRC", ToJson(circ)>>)
ExportEnd == (Export /\ Len(circ) = MaxLen) => PrintT(<<"CIRC", ToJson(circ)>>)
ExportSandwich == (Export /\ SandwichComplete) => PrintT(<<"CIRC", ToJson(circ)>>)
\* S on complete sandwiches only (the prefixes are covered by the other runs)
SandwichOK == SandwichComplete =>
                 /\ EquivOnS(MergeAlgo(circ), circ, Qs)
                 /\ EquivOnS(CancelAlgo(circ, TRUE), circ, Qs)
                 /\ EquivOnS(SimplifyAlgo(circ, 0, TRUE), circ, Qs)
\* the interleaved gate blocks: the models neither merge nor cancel anything in a sandwich
SandwichBlocks == SandwichComplete => Len(MergeAlgo(circ)) = Len(circ) /\ Len(CancelAlgo(circ, TRUE)) = Len(circ)
=============================================================================
