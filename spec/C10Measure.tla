----------------------------- MODULE C10Measure -----------------------------
(***************************************************************************)
(* C10 - mid-circuit measurement and classical control follow the Born rule *)
(*                                                                         *)
(* A PROGRAM is a sequence of instructions:                                 *)
(*    unitary gate        G(name, t, c, k)            (Gates.tla)           *)
(*    MEASURE(q)          [name |-> "MEASURE",  t |-> <<q>>, ...]           *)
(*    CMEASURE(q, ctl)    [name |-> "CMEASURE", t |-> <<q>>, ctl |-> <<p0, p1>>]*)
(* where ctl[b+1] is the program executed when the outcome is b (nesting    *)
(* allowed).  The driver renders ctl as a dictionary parameter, a function  *)
(* or a ClassicalControl subclass.                                          *)
(*                                                                         *)
(* The module is ONE state machine with two phases:                         *)
(*  build: TLC itself constructs the program (actions AddU, AddM, OpenC,    *)
(*         Switch, Close, Done; a stack of frames holds the open CMEASURE   *)
(*         branches) - exhaustively for small bounds, at random with        *)
(*         -simulate.                                                       *)
(*  run:   the Born-rule semantics of ONE shot.  State st =                 *)
(*           todo    stack of pending program suffixes (top first)          *)
(*           psi     UNNORMALISED branch vector (|psi|^2 = probability of    *)
(*                   the outcomes so far)                                    *)
(*           outs    outcome string so far                                   *)
(*           applied gates executed so far (measurements carry the outcome   *)
(*                   in field k)                                             *)
(*         actions Unitary, MeasureTo(b) (project; enabled iff the result   *)
(*         is non-zero), Expand (push the sub-program selected by the last   *)
(*         CMEASURE outcome), Finish.                                        *)
(*                                                                         *)
(* Properties checked by TLC in every reachable state of the run phase:      *)
(*  Conservation    SUM over terminal branches t below st of |t.psi|^2       *)
(*                  = |st.psi|^2       (at the start: SUM_b p_b = 1)         *)
(*  DephasedAgree   SUM_t |t.psi[i]|^2 = diagonal of the density matrix      *)
(*                  obtained by the independent density-matrix semantics     *)
(*                  (Density.tla: MEASURE = dephasing, CMEASURE = sum over   *)
(*                  b of the sub-channel applied to P_b rho P_b)             *)
(*  AppliedIsSelection  applied of every terminal branch = the structural-   *)
(*                  recursive selection Select(prog, outs)                   *)
(*  PrefixFree      outcome strings of distinct terminal branches are not    *)
(*                  prefixes of each other (they identify the branch)        *)
(* With Export = TRUE the action Done prints the program together with the   *)
(* complete branch table (also the probability-zero leaves, flagged dead):   *)
(* the harness replays every (program, outcome string) on the real backend.  *)
(***************************************************************************)
EXTENDS Density, TLC, Json

CONSTANTS N,          \* qubits
          MaxLen,     \* instructions in the whole program (nested ones included)
          MaxMeas,    \* MEASURE + CMEASURE instructions in the whole program
          MinMeas,    \* Done needs at least this many
          MaxNest,    \* nesting depth of CMEASURE (1 = not nested)
          UNames,     \* unitary gate names offered to the builder, subset of {"H","X","T","RY","CNOT"}
          Export,     \* BOOLEAN
          CheckRho    \* BOOLEAN: evaluate DephasedAgree (the expensive invariant)

VARIABLES phase, frames, len, nmeas, src, prog, st

vars == <<phase, frames, len, nmeas, src, prog, st>>

D == Dim(N)
Qubits == 0..(N-1)

\* ---- the instruction alphabet ------------------------------------------------
UAll == { G(nm, <<t>>, <<>>, 0) : nm \in {"H", "X", "T"}, t \in Qubits }
        \cup { G("RY", <<t>>, <<>>, M \div 4) : t \in Qubits }                  \* RY(pi/2)
        \cup ({ G("CNOT", <<t>>, <<c>>, 0) : t \in Qubits, c \in Qubits } \ { G("CNOT", <<t>>, <<t>>, 0) : t \in Qubits })
UAlpha == { g \in UAll : g.name \in UNames }
NamesFull  == {"H", "X", "T", "RY", "CNOT"}
NamesSmall == {"H", "X", "CNOT"}
NamesHX    == {"H", "X"}

Meas(q)       == [name |-> "MEASURE", t |-> <<q>>, c |-> <<>>, k |-> 0]
CMeas(q, ctl) == [name |-> "CMEASURE", t |-> <<q>>, c |-> <<>>, k |-> 0, ctl |-> ctl]
Done_(nm, q, b) == [name |-> nm, t |-> <<q>>, c |-> <<>>, k |-> b]      \* an executed measurement, outcome in k
IsUnit(i) == i.name \notin {"MEASURE", "CMEASURE", "EXPAND"}

\* ---- initial vectors -------------------------------------------------------------
GenericPrep ==
  [q \in 1..N |-> G("H", <<q-1>>, <<>>, 0)]
  \o [q \in 1..N |-> G("PHASE", <<q-1>>, <<>>, q)]
  \o [q \in 1..(N-1) |-> G("CNOT", <<q>>, <<q-1>>, 0)]
  \o [q \in 1..N |-> G("RY", <<q-1>>, <<>>, 2)]
  \o [q \in 1..N |-> G("T", <<q-1>>, <<>>, 0)]
  \o [q \in 1..N |-> G("RX", <<q-1>>, <<>>, 2 * q)]
Generic == Run(ZeroState(N), GenericPrep, N)
Psi0(s) == IF s = "zero" THEN ZeroState(N) ELSE Generic

\* ---- run phase: the one-shot semantics ---------------------------------------------
RECURSIVE NormT(_)
NormT(todo) == IF todo = <<>> THEN <<>> ELSE IF todo[1] = <<>> THEN NormT(Tail(todo)) ELSE todo
Hd(s)  == s.todo[1][1]
Pop(s) == NormT(<<Tail(s.todo[1])>> \o Tail(s.todo))

InitSt(p, s) == [todo |-> NormT(<<p>>), psi |-> Psi0(s), outs |-> <<>>, applied |-> <<>>]

UStep(s) == [todo |-> Pop(s), psi |-> ApplyGate(s.psi, Hd(s), N), outs |-> s.outs, applied |-> Append(s.applied, Hd(s))]

MStep(s, b) ==
  LET h == Hd(s)
      q == h.t[1]
  IN [todo    |-> IF h.name = "MEASURE" THEN Pop(s)
                  ELSE <<<<[name |-> "EXPAND", t |-> h.t, c |-> <<>>, k |-> b, ctl |-> h.ctl]>> \o Tail(s.todo[1])>> \o Tail(s.todo),
      psi     |-> Project(s.psi, q, b, N),
      outs    |-> Append(s.outs, b),
      applied |-> Append(s.applied, Done_(h.name, q, b))]

\* push the sub-program selected by the outcome on top of the stack
EStep(s) == LET h == Hd(s) IN [todo |-> NormT(<<h.ctl[h.k + 1]>> \o Pop(s)), psi |-> s.psi, outs |-> s.outs, applied |-> s.applied]

Possible(s, b) == Norm2(Project(s.psi, Hd(s).t[1], b, N), D) # RZero

Succs(s, withDead) ==
  IF s.todo = <<>> THEN {}
  ELSE IF IsUnit(Hd(s)) THEN {UStep(s)}
  ELSE IF Hd(s).name = "EXPAND" THEN {EStep(s)}
  ELSE {MStep(s, b) : b \in {b \in {0, 1} : withDead \/ Possible(s, b)}}

\* all terminal branches below s
RECURSIVE Branches(_, _)
Branches(s, withDead) == IF s.todo = <<>> THEN {s} ELSE UNION {Branches(t, withDead) : t \in Succs(s, withDead)}

\* ---- independent formulations used by the invariants --------------------------------
\* (a) density-matrix semantics of a program (outcomes discarded)
RECURSIVE RhoProg(_, _, _)
RhoProg(p, j, rho) ==
  IF j > Len(p) THEN rho
  ELSE LET h == p[j] IN
       IF h.name = "MEASURE" THEN RhoProg(p, j + 1, MeasureDephase(rho, h.t[1], N))
       ELSE IF h.name = "CMEASURE"
            THEN RhoProg(p, j + 1, MAdd(RhoProg(h.ctl[1], 1, ProjectRho(rho, h.t[1], 0, N)),
                                         RhoProg(h.ctl[2], 1, ProjectRho(rho, h.t[1], 1, N)), D))
       ELSE IF h.name = "EXPAND" THEN RhoProg(p, j + 1, RhoProg(h.ctl[h.k + 1], 1, rho))
       ELSE RhoProg(p, j + 1, ApplyGateRho(rho, h, N))
RECURSIVE RhoStack(_, _, _)
RhoStack(todo, j, rho) == IF j > Len(todo) THEN rho ELSE RhoStack(todo, j + 1, RhoProg(todo[j], 1, rho))

\* (b) the gates selected by an outcome string, by structural recursion over the program
RECURSIVE Sel(_, _, _, _)
Sel(p, j, o, acc) ==
  IF j > Len(p) THEN [g |-> acc, r |-> o, ok |-> TRUE]
  ELSE LET h == p[j] IN
       IF IsUnit(h) THEN Sel(p, j + 1, o, Append(acc, h))
       ELSE IF o = <<>> THEN [g |-> acc, r |-> o, ok |-> FALSE]
       ELSE LET b   == o[1]
                rec == Done_(h.name, h.t[1], b)
            IN IF h.name = "MEASURE" THEN Sel(p, j + 1, Tail(o), Append(acc, rec))
               ELSE LET sub == Sel(h.ctl[b + 1], 1, Tail(o), Append(acc, rec))
                    IN IF ~sub.ok THEN sub ELSE Sel(p, j + 1, sub.r, sub.g)
Select(p, o) == Sel(p, 1, o, <<>>)

IsPrefix(a, b) == Len(a) <= Len(b) /\ \A j \in 1..Len(a) : a[j] = b[j]

BranchRec(t) == [outs |-> t.outs, p |-> Norm2(t.psi, D), psi |-> t.psi, applied |-> t.applied, dead |-> Norm2(t.psi, D) = RZero]

\* unconditioned final distribution: SUM over terminal branches of |psi_b[i]|^2
Marginal(s) == LET B == Branches(s, FALSE) IN
               TLCEval([i \in 1..D |-> FoldSet(LAMBDA t, acc : Add(acc, Abs2(t.psi[i])), RZero, B)])

\* ---- build phase ------------------------------------------------------------------
Bottom == [prog |-> <<>>, q |-> 0, which |-> 1, b0 |-> <<>>]
Top == frames[Len(frames)]
SetTop(f) == [frames EXCEPT ![Len(frames)] = f]
Building == phase = "build"

Init == /\ phase = "build"
        /\ frames = <<Bottom>>
        /\ len = 0
        /\ nmeas = 0
        /\ src \in {"zero", "generic"}
        /\ prog = <<>>
        /\ st = InitSt(<<>>, "zero")

AddU(g) == /\ Building /\ len < MaxLen
           /\ frames' = SetTop([Top EXCEPT !.prog = Append(@, g)])
           /\ len' = len + 1
           /\ UNCHANGED <<phase, nmeas, src, prog, st>>
AddM(q) == /\ Building /\ len < MaxLen /\ nmeas < MaxMeas
           /\ frames' = SetTop([Top EXCEPT !.prog = Append(@, Meas(q))])
           /\ len' = len + 1 /\ nmeas' = nmeas + 1
           /\ UNCHANGED <<phase, src, prog, st>>
OpenC(q) == /\ Building /\ len < MaxLen /\ nmeas < MaxMeas /\ Len(frames) <= MaxNest
            /\ frames' = Append(frames, [prog |-> <<>>, q |-> q, which |-> 0, b0 |-> <<>>])
            /\ len' = len + 1 /\ nmeas' = nmeas + 1
            /\ UNCHANGED <<phase, src, prog, st>>
Switch == /\ Building /\ Len(frames) > 1 /\ Top.which = 0
          /\ frames' = SetTop([Top EXCEPT !.b0 = Top.prog, !.prog = <<>>, !.which = 1])
          /\ UNCHANGED <<phase, len, nmeas, src, prog, st>>
Close == /\ Building /\ Len(frames) > 1 /\ Top.which = 1
         /\ LET below == frames[Len(frames) - 1]
                ins   == CMeas(Top.q, <<Top.b0, Top.prog>>)
            IN frames' = [j \in 1..(Len(frames) - 1) |-> IF j = Len(frames) - 1 THEN [below EXCEPT !.prog = Append(@, ins)] ELSE frames[j]]
         /\ UNCHANGED <<phase, len, nmeas, src, prog, st>>
Done == /\ Building /\ Len(frames) = 1 /\ nmeas >= MinMeas
        /\ phase' = "run"
        /\ prog' = frames[1].prog
        /\ st' = InitSt(frames[1].prog, src)
        /\ (Export => PrintT(<<"PG", ToJson([n |-> N, src |-> src, s0 |-> Psi0(src), prog |-> prog',
                                             br |-> {BranchRec(t) : t \in Branches(st', TRUE)},
                                             marg |-> Marginal(st')])>>))
        /\ UNCHANGED <<frames, len, nmeas, src>>

Running == phase = "run" /\ st.todo # <<>>
Unitary == /\ Running /\ IsUnit(Hd(st))
           /\ st' = UStep(st) /\ UNCHANGED <<phase, frames, len, nmeas, src, prog>>
MeasureTo(b) == /\ Running /\ Hd(st).name \in {"MEASURE", "CMEASURE"} /\ Possible(st, b)
                /\ st' = MStep(st, b) /\ UNCHANGED <<phase, frames, len, nmeas, src, prog>>
Expand == /\ Running /\ Hd(st).name = "EXPAND"
          /\ st' = EStep(st) /\ UNCHANGED <<phase, frames, len, nmeas, src, prog>>
Finish == /\ phase = "run" /\ st.todo = <<>>
          /\ phase' = "done" /\ UNCHANGED <<frames, len, nmeas, src, prog, st>>

Next == \/ \E g \in UAlpha : AddU(g)
        \/ \E q \in Qubits : AddM(q)
        \/ \E q \in Qubits : OpenC(q)
        \/ Switch \/ Close \/ Done
        \/ Unitary \/ \E b \in {0, 1} : MeasureTo(b) \/ Expand \/ Finish

Spec == Init /\ [][Next]_vars

\* ---- invariants ---------------------------------------------------------------------
InRun == phase \in {"run", "done"}
SumBr(f(_), S) == FoldSet(LAMBDA t, acc : Add(acc, f(t)), RZero, S)

Conservation == InRun => SumBr(LAMBDA t : Norm2(t.psi, D), Branches(st, FALSE)) = Norm2(st.psi, D)
\* at the start of a run this is SUM_b p_b = 1
TotalProbabilityOne == (phase = "run" /\ st.outs = <<>> /\ st.applied = <<>>) => Norm2(st.psi, D) = ROne

DephasedAgree ==
  (CheckRho /\ InRun) =>
     LET rho == RhoStack(st.todo, 1, Pure(st.psi, D))
         B   == Branches(st, FALSE)
     IN /\ IsHermitian(rho, D)
        /\ Trace(rho, D) = Norm2(st.psi, D)
        /\ \A i \in 1..D : SumBr(LAMBDA t : Abs2(t.psi[i]), B) = rho[i][i]

AppliedIsSelection ==
  InRun => \A t \in Branches(st, TRUE) :
              LET s == Select(prog, t.outs) IN s.ok /\ s.r = <<>> /\ s.g = t.applied
PrefixFree ==
  InRun => \A t, u \in Branches(st, TRUE) : (t # u) => ~IsPrefix(t.outs, u.outs)
\* dead branches are exactly the ones the one-shot machine cannot reach
DeadUnreachable ==
  InRun => {t \in Branches(st, TRUE) : Norm2(t.psi, D) # RZero} = Branches(st, FALSE)
AlphabetOK == \A g \in UAlpha : WellFormed(g, N)

\* ---- which call configurations of simulate() are enabled for a circuit with measurements ---------------
\* shots: "none" (exact), "one", "many"; desired: an outcome string is requested; save: save_mid_circuit_meas;
\* sv: return_statevector; cm: the circuit contains CMEASURE (then mid-circuit results are always saved).
\*  - with a requested outcome string every configuration is enabled (the state is pure);
\*  - saved measurements + statevector without a requested string is a pure state only for a single shot;
\*  - otherwise the result is a mixed state: a number of shots is required.
ModeEnabled(shots, desired, save, sv, cm) ==
  LET sm == save \/ cm IN
  IF desired THEN TRUE
  ELSE IF sm /\ sv THEN shots = "one"
  ELSE shots # "none"
ModeRows == { [shots |-> sh, desired |-> d, save |-> sa, sv |-> v, cm |-> c, enabled |-> ModeEnabled(sh, d, sa, v, c)] :
              sh \in {"none", "one", "many"}, d \in BOOLEAN, sa \in BOOLEAN, v \in BOOLEAN, c \in BOOLEAN }
ASSUME Export => PrintT(<<"MR", ToJson(ModeRows)>>)
=============================================================================
