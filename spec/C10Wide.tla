------------------------------- MODULE C10Wide -------------------------------
(***************************************************************************)
(* C10, "wide register" families: circuits whose joint outcome keys         *)
(* (mid-circuit bits followed by the final bits) have MORE THAN TEN          *)
(* positions, so that every code path that assembles bit strings from       *)
(* per-key results is exercised with two-digit keys.                         *)
(*                                                                         *)
(* The full statevector of 8-10 qubits is out of reach of the exact ring    *)
(* engine; the circuits are therefore PRODUCTS OF INDEPENDENT BLOCKS of one *)
(* or two qubits (no gate acts across blocks), and the exact distribution    *)
(* of each block is computed with the ordinary Gates.tla semantics on the   *)
(* block's own register (LBr: all outcome strings of the block's local      *)
(* program, unnormalised branch vectors).  ProductLemma (checked by TLC at  *)
(* start-up on a 4-qubit instance against the full 16-dimensional run)       *)
(* states that the joint distribution of a product circuit is the product    *)
(* of the block distributions.                                              *)
(*                                                                         *)
(* TLC builds the layout (state machine: AddS / AddM / AddB / Finish for     *)
(* family W1, PickW2 for family W2).  Angles are taken WITHOUT REPLACEMENT   *)
(* from a table of grid angles whose outcome probabilities sin^2(pi k/64)    *)
(* are pairwise separated, mirror values included, so that ALL key           *)
(* positions carry pairwise different marginals (invariant Distinct): any    *)
(* permutation of key positions changes the distribution.                    *)
(*   W1: n in 8..10 qubits, 2-4 MEASURE gates, keys = n_meas + n > 10.       *)
(*       S(k)  one qubit  RY(k)                       marginal p_k           *)
(*       M(k)  one qubit  RY(k) MEASURE X             mid p_k, final 1-p_k   *)
(*             (variant "late": two cancelling X first, so that the order    *)
(*             of the measurement keys is not the order of the qubits)       *)
(*       B(k)  two qubits RY(k) CNOT X                p_k and 1-p_k, anticorrelated *)
(*   W2: 3 qubits, each RY(k) then 4 x (MEASURE X): 12 measurements, 15 keys *)
(* Requires M = 64.                                                          *)
(***************************************************************************)
EXTENDS Gates, FiniteSetsExt, TLC, Json

CONSTANTS Family,     \* "W1" or "W2"
          Export

VARIABLES blocks, used, nq, nm, tgt, phase, summary

vars == <<blocks, used, nq, nm, tgt, phase, summary>>

Table == {0, 4, 6, 8, 10, 12, 14, 16, 18, 20, 22, 24, 26, 28, 32}     \* P(1) = sin^2(pi k / 64)
Mirror(k) == 32 - k

Meas(lq)   == [name |-> "MEASURE", t |-> <<lq>>, c |-> <<>>, k |-> 0]
RYg(lq, k) == G("RY", <<lq>>, <<>>, k)
Xg(lq)     == G("X", <<lq>>, <<>>, 0)

\* ---- exact distribution of one block ------------------------------------------------
\* all outcome strings of a local program (probability-zero ones included), unnormalised vectors
RECURSIVE LBr(_, _, _, _, _)
LBr(p, j, psi, o, nl) ==
  IF j > Len(p) THEN {[outs |-> o, psi |-> psi]}
  ELSE IF p[j].name = "MEASURE"
       THEN UNION { LBr(p, j + 1, Project(psi, p[j].t[1], b, nl), Append(o, b), nl) : b \in {0, 1} }
       ELSE LBr(p, j + 1, ApplyGate(psi, p[j], nl), o, nl)
Br(b)      == LBr(b.prog, 1, ZeroState(Len(b.qs)), <<>>, Len(b.qs))
Live(b)    == {r \in Br(b) : Norm2(r.psi, Dim(Len(b.qs))) # RZero}
\* entries [bits, p]: bits = local outcome string followed by the final bits of the block's qubits
BDist(b)   == LET nl == Len(b.qs) IN
              { [bits |-> r.outs \o Bitstring(f0, nl), p |-> Abs2(r.psi[f0 + 1])] : r \in Br(b), f0 \in 0..(Dim(nl) - 1) }
SumP(S)    == FoldSet(LAMBDA e, acc : Add(acc, e.p), RZero, S)

\* ---- the global circuit (layer by layer over the blocks) and its exact summary -------------
\* Everything is computed once, inside one LET (TLC caches LET values), when the layout is finished.
Summary(bl, nqq) ==
  LET nb    == Len(bl)
      maxL  == IF nb = 0 THEN 0 ELSE Max({Len(bl[b].prog) : b \in 1..nb})
      all   == [idx \in 1..(maxL * nb) |-> <<((idx - 1) % nb) + 1, ((idx - 1) \div nb) + 1>>]      \* <<block, layer>>
      slots == SelectSeq(all, LAMBDA x : x[2] <= Len(bl[x[1]].prog))
      ns    == Len(slots)
      glob(x) == LET ins == bl[x[1]].prog[x[2]]
                     qs  == bl[x[1]].qs
                 IN [name |-> ins.name, t |-> [j \in 1..Len(ins.t) |-> qs[ins.t[j] + 1]],
                     c |-> [j \in 1..Len(ins.c) |-> qs[ins.c[j] + 1]], k |-> ins.k]
      circ  == TLCEval([i \in 1..ns |-> glob(slots[i])])
      isM   == TLCEval([i \in 1..ns |-> circ[i].name = "MEASURE"])
      nmm   == Cardinality({i \in 1..ns : isM[i]})
      mid   == TLCEval([i \in 1..ns |-> Cardinality({j \in 1..(i - 1) : isM[j]})])     \* 0-based key position of the measurement in slot i
      \* key positions (0-based) of block b: its measurements in local order, then the final bits of its qubits
      pos   == TLCEval([b \in 1..nb |->
                  LET ms == SelectSeq([i \in 1..ns |-> i], LAMBDA i : slots[i][1] = b /\ isM[i])
                  IN [j \in 1..Len(ms) |-> mid[ms[j]]] \o [j \in 1..Len(bl[b].qs) |-> nmm + bl[b].qs[j]]])
      nk    == nmm + nqq
      owner == TLCEval([p \in 1..nk |-> CHOOSE bj \in {<<b, j>> : b \in 1..nb, j \in 1..5} : bj[2] <= Len(pos[bj[1]]) /\ pos[bj[1]][bj[2]] = p - 1])
      dist  == TLCEval([b \in 1..nb |-> BDist(bl[b])])
      live  == TLCEval([b \in 1..nb |-> {[outs |-> r.outs, psi |-> r.psi, p |-> Norm2(r.psi, Dim(Len(bl[b].qs)))] : r \in Live(bl[b])}])
      marg  == TLCEval([p \in 1..nk |-> SumP({e \in dist[owner[p][1]] : e.bits[owner[p][2]] = 1})])
      \* conditioning on a complete outcome string: one live local outcome record per block
      RECURSIVE Ch(_)
      Ch(b) == IF b = 0 THEN {<<>>} ELSE {Append(x, r) : x \in Ch(b - 1), r \in live[b]}
      prodExcept(ch, x) == FoldSet(LAMBDA b, acc : Mul(acc, ch[b].p), ROne, (1..nb) \ {x})
      dOf(ch) == [m \in 1..nmm |-> ch[owner[m][1]].outs[owner[m][2]]]
      \* P(d and final bit of global qubit q = 1)
      j1(ch, q) == LET b  == owner[nmm + q + 1][1]
                       nl == Len(bl[b].qs)
                       lq == CHOOSE j \in 1..nl : bl[b].qs[j] = q
                       sm == SumRing([f \in 1..Dim(nl) |-> IF BitAt(f - 1, lq - 1, nl) = 1 THEN Abs2(ch[b].psi[f]) ELSE RZero], Dim(nl))
                   IN Mul(prodExcept(ch, b), sm)
      cond  == {[d |-> dOf(ch), p |-> prodExcept(ch, 0), j1 |-> [q \in 1..nqq |-> j1(ch, q - 1)]] : ch \in Ch(nb)}
  IN [family |-> Family, n |-> nqq, nm |-> nmm, gates |-> circ, marg |-> marg,
      blocks |-> [b \in 1..nb |-> [pos |-> pos[b], dist |-> dist[b]]], cond |-> cond]

\* ---- the layout builder ---------------------------------------------------------------------
Targets == {<<8, 3>>, <<8, 4>>, <<9, 2>>, <<9, 3>>, <<9, 4>>, <<10, 2>>, <<10, 3>>, <<10, 4>>}      \* <<qubits, measurements>>

Init == /\ blocks = <<>> /\ used = {} /\ nq = 0 /\ nm = 0 /\ phase = "build" /\ summary = <<>>
        /\ tgt \in (IF Family = "W1" THEN Targets ELSE {<<3, 12>>})

Room(dq, dm) == /\ nq + dq <= tgt[1] /\ nm + dm <= tgt[2]
                /\ (tgt[1] - (nq + dq)) >= (tgt[2] - (nm + dm))          \* enough qubits left for the missing measurements
W1 == Family = "W1" /\ phase = "build"

AddS(k) == /\ W1 /\ Room(1, 0) /\ k \notin used
           /\ blocks' = Append(blocks, [qs |-> <<nq>>, prog |-> IF k = 0 THEN <<>> ELSE <<RYg(0, k)>>])
           /\ used' = used \cup {k} /\ nq' = nq + 1 /\ UNCHANGED <<nm, tgt, phase, summary>>
AddM(k, late) == /\ W1 /\ Room(1, 1) /\ k \notin {0, 16, 32} /\ k \notin used /\ Mirror(k) \notin used
                 /\ blocks' = Append(blocks, [qs |-> <<nq>>, prog |-> (IF late THEN <<RYg(0, k), Xg(0), Xg(0)>> ELSE <<RYg(0, k)>>) \o <<Meas(0), Xg(0)>>])
                 /\ used' = used \cup {k, Mirror(k)} /\ nq' = nq + 1 /\ nm' = nm + 1 /\ UNCHANGED <<tgt, phase, summary>>
AddB(k) == /\ W1 /\ Room(2, 0) /\ k \notin {0, 16, 32} /\ k \notin used /\ Mirror(k) \notin used
           /\ blocks' = Append(blocks, [qs |-> <<nq, nq + 1>>, prog |-> <<RYg(0, k), G("CNOT", <<1>>, <<0>>, 0), Xg(1)>>])
           /\ used' = used \cup {k, Mirror(k)} /\ nq' = nq + 2 /\ UNCHANGED <<nm, tgt, phase, summary>>
\* W2: three qubits, each measured four times with a flip after every measurement
W2Prog(k) == <<RYg(0, k), Meas(0), Xg(0), Meas(0), Xg(0), Meas(0), Xg(0), Meas(0), Xg(0)>>
PickW2(k1, k2, k3) ==
  /\ Family = "W2" /\ phase = "build" /\ blocks = <<>>
  /\ {k1, k2, k3} \cap {0, 16, 32} = {} /\ Cardinality({k1, k2, k3, Mirror(k1), Mirror(k2), Mirror(k3)}) = 6
  /\ blocks' = <<[qs |-> <<0>>, prog |-> W2Prog(k1)], [qs |-> <<1>>, prog |-> W2Prog(k2)], [qs |-> <<2>>, prog |-> W2Prog(k3)]>>
  /\ used' = {k1, k2, k3, Mirror(k1), Mirror(k2), Mirror(k3)} /\ nq' = 3 /\ nm' = 12 /\ UNCHANGED <<tgt, phase, summary>>
Finish == /\ phase = "build" /\ nq = tgt[1] /\ nm = tgt[2]
          /\ phase' = "done"
          /\ summary' = Summary(blocks, nq)
          /\ (Export => PrintT(<<"WD", ToJson(summary')>>))
          /\ UNCHANGED <<blocks, used, nq, nm, tgt>>

Next == \/ \E k \in Table : AddS(k)
        \/ \E k \in Table : \E late \in BOOLEAN : AddM(k, late)
        \/ \E k \in Table : AddB(k)
        \/ \E k1, k2, k3 \in Table : PickW2(k1, k2, k3)
        \/ Finish

\* ---- invariants ---------------------------------------------------------------------------------
Finished == phase = "done"
NKeys == summary.nm + summary.n
\* every block distribution is a probability distribution, the counts match the plan, more than ten keys, the key
\* positions of the blocks partition 0..NKeys-1
WellFormedLayout == Finished => /\ \A b \in 1..Len(summary.blocks) : SumP(summary.blocks[b].dist) = ROne
                                /\ summary.nm = tgt[2] /\ summary.n = tgt[1] /\ NKeys > 10
                                /\ UNION {{summary.blocks[b].pos[j] : j \in 1..Len(summary.blocks[b].pos)} : b \in 1..Len(summary.blocks)} = 0..(NKeys - 1)
                                /\ SumSeq([b \in 1..Len(summary.blocks) |-> Len(summary.blocks[b].pos)], Len(summary.blocks)) = NKeys
\* all key positions carry pairwise different marginals (W1); W2: the three qubits alternate, neighbours differ
Distinct == Finished => IF Family = "W1" THEN \A a, b \in 1..NKeys : (a # b) => summary.marg[a] # summary.marg[b]
                        ELSE \A a \in 1..(NKeys - 1) : summary.marg[a] # summary.marg[a + 1]
\* the conditional table is a partition of the probability
CondTotal == Finished => FoldSet(LAMBDA c, acc : Add(acc, c.p), RZero, summary.cond) = ROne

\* ---- LEMMA: a product circuit has the product distribution (4 qubits: M-block, B-block, S-block) ---------
LemmaFull == LET g   == <<G("RY", <<0>>, <<>>, 4), G("RY", <<1>>, <<>>, 10), G("RY", <<3>>, <<>>, 22),
                          G("CNOT", <<2>>, <<1>>, 0), G("X", <<2>>, <<>>, 0)>>
                 psi == Run(ZeroState(4), g, 4)
                 \* MEASURE qubit 0 -> b, then X on qubit 0
                 br(b) == ApplyGate(Project(psi, 0, b, 4), G("X", <<0>>, <<>>, 0), 4)
             IN [b \in {0, 1} |-> [i \in 1..16 |-> Abs2(br(b)[i])]]
LemmaProd == LET bm == [qs |-> <<0>>, prog |-> <<RYg(0, 4), Meas(0), Xg(0)>>]
                 bb == [qs |-> <<1, 2>>, prog |-> <<RYg(0, 10), G("CNOT", <<1>>, <<0>>, 0), Xg(1)>>]
                 bs == [qs |-> <<3>>, prog |-> <<RYg(0, 22)>>]
                 pm(b, f) == (CHOOSE e \in BDist(bm) : e.bits = <<b, f>>).p
                 pb(f1, f2) == (CHOOSE e \in BDist(bb) : e.bits = <<f1, f2>>).p
                 ps(f) == (CHOOSE e \in BDist(bs) : e.bits = <<f>>).p
             IN [b \in {0, 1} |-> [i \in 1..16 |-> Mul(Mul(pm(b, BitAt(i - 1, 0, 4)), pb(BitAt(i - 1, 1, 4), BitAt(i - 1, 2, 4))), ps(BitAt(i - 1, 3, 4)))]]
ASSUME PrintT(<<"LC", "product-lemma", LemmaFull = LemmaProd>>)
=============================================================================
