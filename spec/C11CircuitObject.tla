-------------------------- MODULE C11CircuitObject --------------------------
(***************************************************************************)
(* C11, generator and S-part.                                               *)
(*                                                                         *)
(* State: a heap of NSlots named circuit objects (slot = Python variable)   *)
(* and the history of operations applied so far.  Abstract state of an      *)
(* object: gate list + fixed width (+ the model of the implementation's     *)
(* qubit-index set, used only to choose arguments).  Metadata are           *)
(* DEFINITIONS (C11Defs) - there is no metadata variable that could go      *)
(* stale in the specification.                                              *)
(*                                                                         *)
(* One action per public operation:                                         *)
(*   new, add (valid gate), add out of range (must be rejected for a fixed  *)
(*   width), addbad (invalid gate: must be rejected), concat (+), repeat    *)
(*   (times k, incl. the rejected factor 0), copy, inverse (rejected for    *)
(*   non-invertible gates), trim, reindex (incl. wrong length: rejected),   *)
(*   split, stack, small / redundant / merge / simplify (function and       *)
(*   method forms, remove_qubits on/off), and the READ-ONLY translate       *)
(*   (cirq, sympy, ionq, projectq, qdk), simulate, depth, iterate, eq, str. *)
(* Rejected and read-only actions are stuttering steps on the heap.         *)
(*                                                                         *)
(* S (checked by TLC in every reachable state): the metadata definitions    *)
(* are mutually consistent (sum of counts = size = sum of arity counts,     *)
(* mixed <=> MEASURE counted, depth bounds, width >= max index + 1), copy   *)
(* preserves every derived value, and the frame condition holds for every   *)
(* action (FrameOK is an action property).                                  *)
(*                                                                         *)
(* G: every history (BFS: all histories of the bounded depth, -simulate:    *)
(* random long ones) is exported and replayed into real Circuit objects.    *)
(***************************************************************************)
EXTENDS C11Defs, Json

CONSTANTS NSlots,     \* number of named objects (2 or 3)
          MaxDepth,   \* number of operations after the initial `new`
          Ops,        \* set of operation names offered
          Rich,       \* BOOLEAN: richer gate alphabet / more argument choices
          Export,     \* "none" | "leaf" (print the history when MaxDepth is reached)
          Prefix,     \* sequence of sets of operation names: the j-th operation after `new` must be in Prefix[j] (scenarios)
          Thin        \* export only the histories whose deterministic hash is 0 modulo Thin (1 = all)

VARIABLES heap, hist
vars == <<heap, hist>>

Slots == 1..NSlots
NoGate == G6("NONE", <<>>, <<>>, 0, FALSE, "")
Dead == [live |-> FALSE, gates |-> <<>>, fixedN |-> 0, qidx |-> {}]

\* ---- alphabets ------------------------------------------------------------------------------------
H0     == G6("H", <<0>>, <<>>, 0, FALSE, "")
RZ1a   == G6("RZ", <<1>>, <<>>, 2, FALSE, "")
RZ1b   == G6("RZ", <<1>>, <<>>, M - 2, FALSE, "")
CN10   == G6("CNOT", <<1>>, <<0>>, 0, FALSE, "")
CRZ03a == G6("CRZ", <<0>>, <<3>>, 2, FALSE, "")
CRZ03b == G6("CRZ", <<0>>, <<3>>, M - 2, FALSE, "")
MEAS1  == G6("MEASURE", <<1>>, <<>>, 0, FALSE, "")
RY3v   == G6("RY", <<3>>, <<>>, 2, TRUE, "")
CCN3   == G6("CNOT", <<3>>, <<0, 1>>, 0, FALSE, "")
RX0s   == G6("RX", <<0>>, <<>>, 0, FALSE, "a")
SW03   == G6("SWAP", <<0, 3>>, <<>>, 0, FALSE, "")
X1     == G6("X", <<1>>, <<>>, 0, FALSE, "")
PH1    == G6("PHASE", <<1>>, <<>>, 1, TRUE, "")
CX10   == G6("CX", <<1>>, <<0>>, 0, FALSE, "")

GateAlpha == IF Rich THEN {H0, RZ1a, RZ1b, CN10, CRZ03a, CRZ03b, MEAS1, RY3v, CCN3, RX0s, SW03, X1, PH1, CX10}
             ELSE {H0, RZ1a, CN10, CRZ03a, MEAS1, RY3v, CCN3, RX0s}
InitLists == IF Rich THEN {<<>>, <<H0, CN10>>, <<RZ1a, RZ1b, H0, H0>>, <<CCN3, RY3v>>, <<RX0s, CN10, CX10>>, <<MEAS1, X1>>, <<CRZ03a, CRZ03b>>}
             ELSE {<<>>, <<H0, CN10>>, <<CCN3, RY3v>>, <<RX0s, RZ1a>>}
FixedChoices == {0, 4, 5}
\* translate: plain formats and the documented cirq output options (noise model with depolarising / Pauli noise on every
\* gate name of the alphabet, save_measurements); simulate: plain, with a noise model, with initial_statevector,
\* desired_meas_result, save_mid_circuit_meas
Formats == {"cirq", "sympy", "ionq", "projectq", "qdk", "cirq:depol", "cirq:pauli", "cirq:savemeas"}
SimForms == {"", "depol", "pauli", "initsv", "desired", "savemid"}
IndexOps == {"reindex", "trim"}
PrefixNone   == <<>>
PrefixIndex2 == <<IndexOps, IndexOps>>
\* freshness scenario: an out-of-place operation (all optional arguments), then a mutation of any object: by the frame
\* condition the operands of the first step must not change when its RESULT is mutated
OutOfPlaceOps == {"concat", "repeat", "copy", "inverse", "stack", "stack0", "stack1", "small", "redundant", "merge", "simplify", "split"}
MutatorOps    == {"add", "trim", "setparam", "reindex"}
PrefixFresh   == <<OutOfPlaceOps, MutatorOps>>           \* two successive in-place index rewritings, then any offered operation

\* uniform action record
Act(op, o, o2, dst, g, gs, n, form, rq, fmt, new, bad) ==
  [op |-> op, o |-> o, o2 |-> o2, dst |-> dst, g |-> g, gs |-> gs, n |-> n, form |-> form, rq |-> rq, fmt |-> fmt,
   new |-> new, bad |-> bad]
A0(op, o) == Act(op, o, 0, 0, NoGate, <<>>, 0, "", FALSE, "", <<>>, "")

\* ---- model of one object (code-faithful where the documentation is silent: used to CHOOSE arguments) ----
W(ob) == IF ob.qidx = {} THEN 0 ELSE SetMax(ob.qidx) + 1
Mk(gs, n) == [live |-> TRUE, gates |-> gs, fixedN |-> n, qidx |-> (IF n > 0 THEN 0..(n - 1) ELSE {}) \cup Used(gs)]
Fits(gs, n) == n = 0 \/ MaxIdx(gs) < n
Simplifiable(gs) == ~Symbolic(gs) /\ Invertible(gs)
To6(gs) == TLCEval([j \in 1..Len(gs) |-> G6(gs[j].name, gs[j].t, gs[j].c, gs[j].k, gs[j].v, "")])
Inv6(gs) == To6(InvCirc(gs))

HasNumParam(gs) == \E j \in 1..Len(gs) : gs[j].name \in ParamNames /\ gs[j].s = ""
FirstNumParam(gs) == SetMin({j \in 1..Len(gs) : gs[j].name \in ParamNames /\ gs[j].s = ""})
\* in-place change of a gate parameter through iteration (documented as allowed): angle index + 2
BumpFirstParam(gs) == [gs EXCEPT ![FirstNumParam(gs)] = [@ EXCEPT !.k = @ + 2]]

\* result object of an out-of-place / in-place rewriting operation, or Dead when the model predicts an exception
Result(act, a, b) ==
  CASE act.op = "concat"  -> LET n == IF a.fixedN > 0 \/ b.fixedN > 0 THEN (IF W(a) >= W(b) THEN W(a) ELSE W(b)) ELSE 0
                                 gs == a.gates \o b.gates
                             IN IF Fits(gs, n) THEN Mk(gs, n) ELSE Dead
    [] act.op = "repeat"  -> IF act.n >= 1 /\ Fits(a.gates, a.fixedN) THEN Mk(RepeatSeq(a.gates, act.n), a.fixedN) ELSE Dead
    [] act.op = "copy"    -> IF Fits(a.gates, a.fixedN) THEN [Mk(a.gates, a.fixedN) EXCEPT !.qidx = @ \cup (IF a.fixedN > 0 THEN {} ELSE {})] ELSE Dead
    [] act.op = "inverse" -> IF Invertible(a.gates) /\ ~Symbolic(a.gates) /\ Fits(a.gates, a.fixedN) THEN Mk(Inv6(a.gates), a.fixedN) ELSE Dead
    [] act.op = "trim"    -> [a EXCEPT !.gates = Compress(a.gates, Used(a.gates)), !.qidx = 0..(Cardinality(Used(a.gates)) - 1),
                                       !.fixedN = IF a.fixedN > 0 THEN Cardinality(Used(a.gates)) ELSE 0]
    [] act.op = "reindex" -> IF Len(act.new) = Cardinality(a.qidx) /\ ValidNew(act.new)
                             THEN [a EXCEPT !.gates = ReindexGates(a.gates, a.qidx, act.new), !.qidx = {act.new[x] : x \in 1..Len(act.new)},
                                            !.fixedN = IF a.fixedN > 0 THEN SetMax({act.new[x] : x \in 1..Len(act.new)}) + 1 ELSE 0]
                             ELSE Dead
    [] act.op = "stack0"  -> Mk(<<>>, 0)
    [] act.op = "stack1"  -> Mk(Compress(a.gates, Used(a.gates)), IF a.fixedN > 0 THEN Cardinality(Used(a.gates)) ELSE 0)
    [] act.op = "setparam" -> IF HasNumParam(a.gates) THEN [a EXCEPT !.gates = BumpFirstParam(a.gates)] ELSE Dead
    [] act.op = "stack"   -> LET gs == StackModel(<<a.gates, b.gates>>)
                                 n  == IF a.fixedN > 0 \/ b.fixedN > 0 THEN MaxIdx(gs) + 1 ELSE 0
                             IN Mk(gs, n)
    [] act.op = "small"   -> IF ~Symbolic(a.gates) THEN Mk(To6(DropAlgo(a.gates, IF act.bad = "thr2" THEN 2 ELSE 0, FALSE)), IF act.rq THEN 0 ELSE W(a)) ELSE Dead
    [] act.op = "redundant" -> IF Simplifiable(a.gates) THEN Mk(To6(CancelAlgo(a.gates, FALSE)), IF act.rq THEN 0 ELSE W(a)) ELSE Dead
    [] act.op = "merge"   -> IF ~Symbolic(a.gates) THEN Mk(To6(MergeAlgo(a.gates)), 0) ELSE Dead
    [] act.op = "simplify" -> IF act.bad = "mc0" THEN (IF Fits(a.gates, a.fixedN) THEN Mk(a.gates, a.fixedN) ELSE Dead)
                              ELSE IF Simplifiable(a.gates) THEN Mk(To6(SimplifyAlgo(a.gates, IF act.bad = "thr2" THEN 2 ELSE 0, FALSE)), 0) ELSE Dead
    [] OTHER -> Dead

InPlace(act) == act.op \in {"trim", "reindex", "setparam"} \/ (act.op \in {"small", "redundant", "merge", "simplify"} /\ act.form = "method")
Writes(act)  == IF act.op \in {"new"} THEN {act.dst}
                ELSE IF act.op = "add" THEN {act.o}
                ELSE IF InPlace(act) THEN {act.o}
                ELSE IF act.op \in {"concat", "repeat", "copy", "inverse", "stack", "stack0", "stack1", "small", "redundant", "merge", "simplify"} THEN {act.dst}
                ELSE {}

Effect(hp, act) ==
  LET a == IF act.o \in Slots THEN hp[act.o] ELSE Dead
      b == IF act.o2 \in Slots THEN hp[act.o2] ELSE Dead
  IN CASE act.op = "new" -> IF Fits(act.gs, act.n) THEN [hp EXCEPT ![act.dst] = Mk(act.gs, act.n)] ELSE hp
       [] act.op = "add" -> IF a.fixedN > 0 /\ MaxIdx(<<act.g>>) >= a.fixedN THEN hp
                            ELSE [hp EXCEPT ![act.o] = [a EXCEPT !.gates = Append(@, act.g), !.qidx = @ \cup QSet(act.g)]]
       [] act.op = "stack0" -> [hp EXCEPT ![act.dst] = Mk(<<>>, 0)]
       [] Writes(act) # {} -> LET r == Result(act, a, b) IN
                              IF r.live THEN [hp EXCEPT ![CHOOSE s \in Writes(act) : TRUE] = r] ELSE hp
       [] OTHER -> hp        \* read-only and always-rejected actions

\* ---- enabled argument choices ---------------------------------------------------------------------------
Live(hp) == {s \in Slots : hp[s].live}
Perm(S) == LET n == Cardinality(S) IN
           \* rev and compact LOWER the maximal index after shift / spread raised it
           {<<"rev", [x \in 1..n |-> n - x]>>, <<"shift", [x \in 1..n |-> x + 1]>>, <<"compact", [x \in 1..n |-> x - 1]>>} \cup
           (IF Rich THEN {<<"spread", [x \in 1..n |-> 2 * (n - x)]>>} ELSE {})
FnOptions(op) == IF op = "simplify" THEN {"", "mc0", "mc1", "thr2"} ELSE IF op = "small" THEN {"", "thr2", "thr0"} ELSE {""}
Acts(hp) ==
  UNION { (IF "add" \in Ops THEN { Act("add", o, 0, 0, g, <<>>, 0, "", FALSE, "", <<>>, "") : g \in GateAlpha } ELSE {})
     \* boundary of the fixed width: index n-1 must be accepted, index n rejected
     \cup (IF "add" \in Ops /\ hp[o].fixedN > 0
           THEN { Act("add", o, 0, 0, G6("X", <<q>>, <<>>, 0, FALSE, ""), <<>>, 0, "", FALSE, "", <<>>, "") : q \in {hp[o].fixedN - 1, hp[o].fixedN} }
           ELSE {})
     \cup (IF "addbad" \in Ops THEN { Act("addbad", o, 0, 0, NoGate, <<>>, 0, "", FALSE, "", <<>>, bk) :
                                       bk \in (IF Rich THEN BadKinds ELSE {"negative-target", "duplicate", "too-many-targets", "float-index", "controlled-too-many-targets"}) } ELSE {})
     \cup (IF "concat" \in Ops THEN { Act("concat", o, o2, d, NoGate, <<>>, 0, "", FALSE, "", <<>>, "") : o2 \in Live(hp), d \in Slots } ELSE {})
     \cup (IF "repeat" \in Ops THEN { Act("repeat", o, 0, d, NoGate, <<>>, k, "", FALSE, "", <<>>, "") : k \in {0, 1, 2}, d \in Slots } ELSE {})
     \cup (IF "copy" \in Ops THEN { Act("copy", o, 0, d, NoGate, <<>>, 0, "", FALSE, "", <<>>, "") : d \in Slots \ {o} } ELSE {})
     \cup (IF "inverse" \in Ops THEN { Act("inverse", o, 0, d, NoGate, <<>>, 0, "", FALSE, "", <<>>, "") : d \in Slots } ELSE {})
     \cup (IF "trim" \in Ops THEN { A0("trim", o) } ELSE {})
     \cup (IF "reindex" \in Ops /\ hp[o].qidx # {}
           THEN { Act("reindex", o, 0, 0, NoGate, <<>>, 0, "", FALSE, "", p[2], "") : p \in Perm(hp[o].qidx) }
                \cup { Act("reindex", o, 0, 0, NoGate, <<>>, 0, "", FALSE, "", <<0>> \o [x \in 1..Cardinality(hp[o].qidx) |-> x], "") }
                \* right length but not a valid set of qubit indices (repeated / negative): must be rejected
                \cup (IF Cardinality(hp[o].qidx) >= 2
                      THEN { Act("reindex", o, 0, 0, NoGate, <<>>, 0, "", FALSE, "", [x \in 1..Cardinality(hp[o].qidx) |-> IF x <= 2 THEN 1 ELSE x], "invalid-new-indices") }
                      ELSE {})
                \cup { Act("reindex", o, 0, 0, NoGate, <<>>, 0, "", FALSE, "", [x \in 1..Cardinality(hp[o].qidx) |-> x - 2], "invalid-new-indices") }
           ELSE {})
     \cup (IF "split" \in Ops THEN { Act("split", o, 0, 0, NoGate, <<>>, 0, "", tr, "", <<>>, "") : tr \in BOOLEAN } ELSE {})
     \cup (IF "stack" \in Ops THEN { Act("stack", o, o2, d, NoGate, <<>>, 0, "", FALSE, "", <<>>, "") : o2 \in Live(hp), d \in Slots } ELSE {})
     \* function forms with every documented optional argument (option tag in the field `bad`: mc0 / mc1 = max_cycles 0 / 1,
     \* thr2 / thr0 = param_threshold 2.0 / 1e-9), method forms with the defaults
     \cup UNION { IF op \in Ops
                  THEN { Act(op, o, 0, d, NoGate, <<>>, 0, "fn", rq, "", <<>>, opt) : d \in Slots, rq \in (IF op = "merge" THEN {FALSE} ELSE BOOLEAN),
                                                                                   opt \in FnOptions(op) }
                       \cup { Act(op, o, 0, 0, NoGate, <<>>, 0, "method", rq, "", <<>>, "") : rq \in (IF op = "merge" THEN {FALSE} ELSE BOOLEAN) }
                  ELSE {} : op \in {"small", "redundant", "merge", "simplify"} }
     \cup (IF "stack" \in Ops THEN { Act("stack1", o, 0, d, NoGate, <<>>, 0, f, FALSE, "", <<>>, "") : d \in Slots, f \in {"fn", "method"} } ELSE {})
     \cup (IF "setparam" \in Ops /\ HasNumParam(hp[o].gates) THEN { A0("setparam", o) } ELSE {})
     \cup (IF "translate" \in Ops THEN { Act("translate", o, 0, 0, NoGate, <<>>, 0, "", FALSE, f, <<>>, "") : f \in Formats } ELSE {})
     \cup (IF "simulate" \in Ops THEN { Act("simulate", o, 0, 0, NoGate, <<>>, 0, f, FALSE, "", <<>>, "") : f \in SimForms } ELSE {})
     \cup UNION { IF op \in Ops THEN { A0(op, o) } ELSE {} : op \in {"depth", "iterate", "str"} }
     \cup (IF "eq" \in Ops THEN { Act("eq", o, o2, 0, NoGate, <<>>, 0, "", FALSE, "", <<>>, "") : o2 \in Live(hp) } ELSE {})
        : o \in Live(hp) }
  \cup (IF "stack" \in Ops THEN { Act("stack0", 0, 0, d, NoGate, <<>>, 0, "", FALSE, "", <<>>, "") : d \in Slots } ELSE {})
  \cup (IF "new" \in Ops THEN { Act("new", 0, 0, d, NoGate, gs, n, "", FALSE, "", <<>>, "") : d \in Slots, gs \in InitLists, n \in {0, 2, 4} } ELSE {})

Init == \E gs \in InitLists, n \in FixedChoices :
          /\ Fits(gs, n)
          /\ heap = [s \in Slots |-> IF s = 1 THEN Mk(gs, n) ELSE Dead]
          /\ hist = <<Act("new", 0, 0, 1, NoGate, gs, n, "", FALSE, "", <<>>, "")>>

\* after MaxDepth operations one terminal "end" marker is appended (a leaf has exactly one successor: the simulator,
\* which evaluates invariants on every candidate successor, then exports each sampled history exactly once)
Ended == Len(hist) >= 1 /\ hist[Len(hist)].op = "end"
Next == \/ /\ Len(hist) <= MaxDepth
           /\ \E act \in Acts(heap) : /\ (Len(hist) <= Len(Prefix) => act.op \in Prefix[Len(hist)])
                                      /\ heap' = Effect(heap, act)
                                      /\ hist' = Append(hist, act)
        \/ /\ Len(hist) = MaxDepth + 1
           /\ heap' = heap
           /\ hist' = Append(hist, A0("end", 0))
Spec == Init /\ [][Next]_vars

\* ---- S: consistency of the definitions, frame ------------------------------------------------------------
SumPairs(S) == LET RECURSIVE go(_)
                   go(T) == IF T = {} THEN 0 ELSE LET p == CHOOSE x \in T : TRUE IN p[2] + go(T \ {p})
               IN go(S)
PerQubitLoad(gs) == NatMax({Cardinality({j \in 1..Len(gs) : q \in QSet(gs[j])}) : q \in Used(gs)})
MetaConsistent ==
  \A s \in Live(heap) : LET gs == heap[s].gates IN
     /\ SumPairs(CountsOf(gs)) = SizeOf(gs)
     /\ SumPairs(CNQOf(gs)) = SizeOf(gs)
     /\ IsMixedOf(gs) = (\E p \in CountsOf(gs) : p[1] \in {"MEASURE", "CMEASURE"})
     /\ DepthOf(gs) <= SizeOf(gs) /\ DepthOf(gs) >= PerQubitLoad(gs) /\ (SizeOf(gs) > 0 => DepthOf(gs) >= 1)
     /\ W(heap[s]) >= MaxIdx(gs) + 1
     /\ WidthOf(gs, 0) = MaxIdx(gs) + 1
     /\ DepthOf(gs \o gs) <= 2 * DepthOf(gs)
     /\ DepthOf(Compress(gs, Used(gs))) = DepthOf(gs) /\ CountsOf(Compress(gs, Used(gs))) = CountsOf(gs)
\* the depth definition on the three circuits whose depth the repository's own test states (3, 4, 0), plus counts
DepthExamples ==
  LET h(q)     == G6("H", <<q>>, <<>>, 0, FALSE, "")
      cn(t, c) == G6("CNOT", <<t>>, <<c>>, 0, FALSE, "")
  IN /\ DepthOf(<<h(0), h(0), h(0), G6("X", <<1>>, <<>>, 0, FALSE, "")>>) = 3
     /\ DepthOf(<<h(0), cn(1, 0), cn(2, 1), h(0), cn(0, 2)>>) = 4
     /\ DepthOf(<<>>) = 0
     /\ CountsOf(<<h(0), cn(1, 0), cn(2, 1), h(0), cn(0, 2)>>) = {<<"H", 2>>, <<"CNOT", 3>>}
     /\ CNQOf(<<h(0), cn(1, 0), CCN3>>) = {<<1, 1>>, <<2, 1>>, <<3, 1>>}
     /\ WidthOf(<<h(0), CCN3>>, 0) = 4 /\ WidthOf(<<h(0)>>, 6) = 6 /\ WidthOf(<<>>, 0) = 0
ASSUME DepthExamples
\* frame: an action changes at most the slot it writes (action property)
FrameOK == [][\A s \in Slots : heap'[s] # heap[s] => s \in Writes(hist'[Len(hist')])]_vars
\* read-only and rejected operations are stuttering steps on the heap
ReadOnlyOps == {"addbad", "split", "translate", "simulate", "depth", "iterate", "str", "eq", "end"}
ReadOnlyOK == [][hist'[Len(hist')].op \in ReadOnlyOps => heap' = heap]_vars

\* deterministic thinning of very large BFS corpora (the harness replays the exported subset)
OpCode(op) == CHOOSE c \in 1..40 : <<op, c>> \in
   {<<"new", 1>>, <<"add", 2>>, <<"addbad", 3>>, <<"concat", 4>>, <<"repeat", 5>>, <<"copy", 6>>, <<"inverse", 7>>, <<"trim", 8>>,
    <<"reindex", 9>>, <<"split", 10>>, <<"stack", 11>>, <<"small", 12>>, <<"redundant", 13>>, <<"merge", 14>>, <<"simplify", 15>>,
    <<"translate", 16>>, <<"stack0", 23>>, <<"stack1", 24>>, <<"setparam", 25>>, <<"simulate", 17>>, <<"depth", 18>>, <<"iterate", 19>>, <<"str", 20>>, <<"eq", 21>>, <<"end", 22>>}
ActHash(a) == OpCode(a.op) + 3 * a.o + 5 * a.dst + 7 * a.o2 + a.g.k + 11 * Len(a.g.t) + 13 * Len(a.g.c) + a.n + 17 * Len(a.new)
              + (IF a.rq THEN 19 ELSE 0) + (IF a.form = "fn" THEN 23 ELSE 0) + Len(a.gs)
              + (IF Len(a.g.t) > 0 THEN 29 * a.g.t[1] ELSE 0) + (IF Len(a.new) > 0 THEN 31 * a.new[1] ELSE 0)
RECURSIVE HistHash(_, _)
HistHash(h, j) == IF j > Len(h) THEN 0 ELSE j * ActHash(h[j]) + HistHash(h, j + 1)
ExportLeaf == (Export = "leaf" /\ Ended /\ HistHash(hist, 1) % Thin = 0) => PrintT(<<"BH", ToJson(SubSeq(hist, 1, Len(hist) - 1))>>)
=============================================================================
