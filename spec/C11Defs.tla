------------------------------ MODULE C11Defs ------------------------------
(***************************************************************************)
(* C11 - circuit metadata stays consistent under any operation history.     *)
(*                                                                         *)
(* No variables here.  A circuit object is abstractly a gate list plus the  *)
(* fixed width it was created with (0 = none).  ALL metadata are            *)
(* DEFINITIONS recomputed from the gate list:                               *)
(*   SizeOf, CountsOf (per gate name), CNQOf (per arity = targets+controls),*)
(*   IsVarOf, IsMixedOf, DepthOf (ASAP moments), and the width rule of the  *)
(*   docstrings: max index + 1, or the fixed n_qubits.                       *)
(* Gates are records [name, t, c, k, v, s]: s = "" or the name of a symbolic *)
(* (string) parameter.  MEASURE is an ordinary 1-target gate here.           *)
(*                                                                         *)
(* The module also contains the action vocabulary shared by the generator   *)
(* (C11CircuitObject.tla, spec -> code) and the validator (C11Trace.tla,    *)
(* code -> spec): the structural effect of every operation on gate lists    *)
(* and the documented part of the width bookkeeping (`Ann`).                *)
(***************************************************************************)
EXTENDS C09Defs

G6(name, t, c, k, v, s) == [name |-> name, t |-> t, c |-> c, k |-> k, v |-> v, s |-> s]
Core6(g)     == [name |-> g.name, t |-> g.t, c |-> g.c, k |-> g.k, v |-> g.v, s |-> g.s]
Core6Seq(gs) == TLCEval([j \in 1..Len(gs) |-> Core6(gs[j])])

\* ---- metadata definitions -----------------------------------------------------------------------
Arity(g)      == Len(g.t) + Len(g.c)
SizeOf(gs)    == Len(gs)
NamesOf(gs)   == {gs[j].name : j \in 1..Len(gs)}
CountsOf(gs)  == {<<nm, Cardinality({j \in 1..Len(gs) : gs[j].name = nm})>> : nm \in NamesOf(gs)}
CNQOf(gs)     == {<<a, Cardinality({j \in 1..Len(gs) : Arity(gs[j]) = a})>> : a \in {Arity(gs[j]) : j \in 1..Len(gs)}}
IsVarOf(gs)   == \E j \in 1..Len(gs) : gs[j].v
IsMixedOf(gs) == \E j \in 1..Len(gs) : gs[j].name \in {"MEASURE", "CMEASURE"}
NatMax(S)     == IF S = {} THEN 0 ELSE SetMax(S)
\* ASAP moments: level(g) = 1 + max level of the earlier gates sharing a qubit; depth = max level
RECURSIVE DepthFrom(_, _, _, _)
DepthFrom(gs, i, lvl, d) ==
  IF i > Len(gs) THEN d
  ELSE LET Q == QSet(gs[i])
           l == 1 + NatMax({lvl[q] : q \in Q})
       IN DepthFrom(gs, i + 1, TLCEval([q \in DOMAIN lvl |-> IF q \in Q THEN l ELSE lvl[q]]), IF l > d THEN l ELSE d)
DepthOf(gs)   == DepthFrom(gs, 1, TLCEval([q \in Used(gs) |-> 0]), 0)
\* documented width: fixed n_qubits, else max index + 1
WidthOf(gs, fixedN) == IF fixedN > 0 THEN fixedN ELSE MaxIdx(gs) + 1

\* ---- gate validity (Gate.__init__ must raise otherwise) ----------------------------------------------
OneTargetNames == {"H", "X", "Y", "Z", "S", "T", "RX", "RY", "RZ", "PHASE", "CNOT", "CX", "CY", "CZ", "CRX", "CRY", "CRZ", "CPHASE", "MEASURE"}
TwoTargetNames == {"XX", "SWAP", "CSWAP"}
InvertibleNames == {"H", "X", "Y", "Z", "S", "T", "RX", "RY", "RZ", "CH", "PHASE", "CNOT", "CX", "CY", "CZ", "CRX", "CRY", "CRZ",
                    "CPHASE", "XX", "SWAP", "CSWAP"}
BadKinds == {"negative-target", "negative-control", "float-index", "duplicate", "too-many-targets", "too-few-targets",
             "string-index", "controlled-too-many-targets", "crot-too-many-targets", "control-on-uncontrolled"}

\* ---- MakeGate: validity of constructor arguments (name, targets, controls), decided for EVERY combination ----------
\* An index is a record [v, ty]: ty in "int", "float", "str", "bool" (True/False), "npint" (numpy integer scalar).
\* Documented sets of tangelo.linq.gate: one-target and two-target gate names; every other name is a custom gate
\* (any positive number of targets).  Controls are only accepted by names starting with "C".
DocOneTarget == {"H", "X", "Y", "Z", "S", "T", "RX", "RY", "RZ", "PHASE", "CNOT", "CX", "CY", "CZ", "CRX", "CRY", "CRZ", "CPHASE"}
DocTwoTarget == {"XX", "SWAP", "CSWAP"}
CustomNames  == {"MEASURE", "POTATO", "CPOTATO", "CH"}
CtrlNames    == {"CNOT", "CX", "CY", "CZ", "CRX", "CRY", "CRZ", "CPHASE", "CSWAP", "CPOTATO", "CH"}      \* names starting with C
MakeGateNames == DocOneTarget \cup DocTwoTarget \cup CustomNames
IdxOf(cd)    == {cd.t[j] : j \in 1..Len(cd.t)} \cup (IF cd.hasc THEN {cd.c[j] : j \in 1..Len(cd.c)} ELSE {})
NIdx(cd)     == Len(cd.t) + (IF cd.hasc THEN Len(cd.c) ELSE 0)
\* "reject": Gate() must raise; "accept": must succeed with exactly these targets/controls; "either": not documented
MakeGateVerdict(cd) ==
  LET typeBad  == \E x \in IdxOf(cd) : x.ty \in {"float", "str"} \/ x.v < 0
      typeOpen == \E x \in IdxOf(cd) : x.ty \in {"bool", "npint"}
      ctrlBad  == cd.hasc /\ cd.name \notin CtrlNames
      dup      == Cardinality({x.v : x \in IdxOf(cd)}) < NIdx(cd)          \* Python: True == 1 == numpy 1
      countBad == \/ (cd.name \in DocOneTarget /\ Len(cd.t) # 1)
                  \/ (cd.name \in DocTwoTarget /\ Len(cd.t) # 2)
      open     == \/ typeOpen
                  \/ (cd.name \notin DocOneTarget \cup DocTwoTarget /\ Len(cd.t) = 0)
                  \/ (cd.hasc /\ Len(cd.c) = 0)
                  \/ (~cd.hasc /\ cd.name \in CtrlNames)                    \* controlled name without controls: silent
  IN IF typeBad \/ ctrlBad \/ dup \/ countBad THEN "reject" ELSE IF open THEN "either" ELSE "accept"

Symbolic(gs)   == \E j \in 1..Len(gs) : gs[j].s # ""
Invertible(gs) == \A j \in 1..Len(gs) : gs[j].name \in InvertibleNames

\* ---- abstract annotation of an object: what the documentation fixes about its width -------------------
\* fixedN: 0 or the n_qubits given at construction; wdoc: the width rule of this object is documented
\* (width = WidthOf(gates, fixedN) and add_gate range check against fixedN); prov: provenance tag naming the
\* undocumented situation the object went through ("" if none)
\* qidx: for a fixed-width object, the set of qubit indices of the circuit (the domain of reindex_qubits): all of
\* 0..n-1 when it is constructed, the trimmed range after trim_qubits, the new indices after reindex_qubits
Ann(fixedN, wdoc, prov) == [fixedN |-> fixedN, wdoc |-> wdoc, prov |-> prov, qidx |-> 0..(fixedN - 1)]
AnnQ(a, q) == [a EXCEPT !.qidx = q]
FreeAnn == Ann(0, TRUE, "")

\* the circuit's qubit indices in the documented cases (reindex_qubits domain)
QIdxOf(gs, ann) == IF ann.fixedN > 0 THEN ann.qidx ELSE Used(gs)

\* a list of new qubit indices is valid when its entries are pairwise distinct non-negative integers (otherwise the
\* rewritten gates would be gates the constructor refuses)
ValidNew(new) == Cardinality({new[x] : x \in 1..Len(new)}) = Len(new) /\ \A x \in 1..Len(new) : new[x] >= 0
ReindexGates(gs, S, new) == Relabel(gs, TLCEval([q \in S |-> new[Rank(S, q) + 1]]))
=============================================================================
