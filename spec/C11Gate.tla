------------------------------- MODULE C11Gate -------------------------------
(***************************************************************************)
(* C11, MakeGate: generator of constructor arguments.  Every initial state  *)
(* is one candidate (name, targets, controls) - names from the documented   *)
(* one-target / two-target sets plus custom names, target lists of length   *)
(* 0..3, control lists absent or of length 1..2, indices 0..2 and the       *)
(* special values -1, 1.0, "1", True, numpy.int64(1), containers list /     *)
(* scalar / tuple / numpy array.  Whether the constructor must accept or    *)
(* reject a candidate is C11Defs!MakeGateVerdict - decided by the spec for  *)
(* EVERY combination (no hand-written list of bad gates).                   *)
(* S: an accepted candidate of a known gate name is a well-formed gate in   *)
(* the sense of the gate semantics used by the other properties (WFGate).   *)
(***************************************************************************)
EXTENDS C11Defs, Json

CONSTANT Part      \* "ints" | "special" | "containers"
VARIABLE cand

Ix(v, ty) == [v |-> v, ty |-> ty]
IntDom    == {Ix(v, "int") : v \in 0..2}
IntDom2   == {Ix(v, "int") : v \in 0..1}
Specials  == {Ix(-1, "int"), Ix(1, "float"), Ix(1, "str"), Ix(1, "bool"), Ix(0, "bool"), Ix(1, "npint")}
SeqsUpTo(D, lo, hi) == UNION {[1..n -> D] : n \in lo..hi}
Cand(name, t, hasc, c, tk, ck) == [name |-> name, t |-> t, hasc |-> hasc, c |-> c, tk |-> tk, ck |-> ck]

\* one position of (t, c) replaced by a special value
Substituted(t, hasc, c) ==
     {<<[t EXCEPT ![j] = s], c>> : j \in 1..Len(t), s \in Specials}
  \cup (IF hasc THEN {<<t, [c EXCEPT ![j] = s]>> : j \in 1..Len(c), s \in Specials} ELSE {})

Kinds(n) == IF n = 1 THEN {"scalar", "list", "tuple", "ndarray"} ELSE {"list", "tuple", "ndarray"}

Candidates ==
  CASE Part = "ints" ->
         { Cand(nm, t, FALSE, <<>>, "list", "list") : nm \in MakeGateNames, t \in SeqsUpTo(IntDom, 0, 3) }
         \cup { Cand(nm, t, TRUE, c, "list", "list") : nm \in MakeGateNames, t \in SeqsUpTo(IntDom, 0, 3), c \in SeqsUpTo(IntDom, 1, 2) }
    [] Part = "special" ->
         UNION { { Cand(nm, p[1], FALSE, <<>>, "list", "list") : p \in Substituted(t, FALSE, <<>>) } :
                   nm \in MakeGateNames, t \in SeqsUpTo(IntDom2, 1, 2) }
         \cup UNION { { Cand(nm, p[1], TRUE, p[2], "list", "list") : p \in Substituted(t, TRUE, c) } :
                   nm \in MakeGateNames, t \in SeqsUpTo(IntDom2, 1, 2), c \in SeqsUpTo({Ix(2, "int")}, 1, 1) }
    [] Part = "containers" ->
         UNION { { Cand(nm, t, FALSE, <<>>, tk, "list") : tk \in Kinds(Len(t)) } :
                   nm \in {"H", "RZ", "CNOT", "XX", "SWAP", "CSWAP", "POTATO"}, t \in SeqsUpTo(IntDom, 1, 2) }
         \cup UNION { { Cand(nm, t, TRUE, c, tk, ck) : tk \in Kinds(Len(t)), ck \in Kinds(Len(c)) } :
                   nm \in {"H", "CNOT", "CRZ", "CSWAP", "CPOTATO"}, t \in SeqsUpTo(IntDom, 1, 2), c \in SeqsUpTo(IntDom, 1, 2) }

Init == cand \in Candidates
Next == UNCHANGED cand

AsGate(cd) == G6(cd.name, [j \in 1..Len(cd.t) |-> cd.t[j].v], IF cd.hasc THEN [j \in 1..Len(cd.c) |-> cd.c[j].v] ELSE <<>>, 0, FALSE, "")
\* S: accepted arguments of a gate known to the exact semantics form a well-formed gate there
Known == (DocOneTarget \cup DocTwoTarget) \cap DOMAIN BaseName
AcceptedIsWellFormed == (MakeGateVerdict(cand) = "accept" /\ cand.name \in Known) => WFGate(AsGate(cand))
\* S: rejected arguments of a known gate are not well-formed or carry a control on a name that takes none
RejectedIsIllFormed  == (MakeGateVerdict(cand) = "reject" /\ cand.name \in Known /\ (\A x \in IdxOf(cand) : x.ty = "int"))
                          => (~WFGate(AsGate(cand)) \/ (cand.hasc /\ cand.name \notin CtrlNames))
Export == PrintT(<<"CAND", ToJson(cand)>>)
=============================================================================
