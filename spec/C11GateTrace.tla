----------------------------- MODULE C11GateTrace -----------------------------
(***************************************************************************)
(* C11, MakeGate: judge of recorded constructor calls.  A job is one         *)
(* candidate of C11Gate with what the implementation did: raised or not,     *)
(* the resulting gate's name / targets / controls, and the dump of           *)
(* Circuit([gate]) (reported metadata).  Clauses:                            *)
(*   accepted-invalid   the spec rejects the arguments, Gate() accepted them *)
(*   rejected-valid     the spec accepts the arguments, Gate() raised        *)
(*   fields             accepted, but name / targets / controls differ       *)
(*   size, counts, counts_n_qubit, width, depth   metadata of Circuit([g])   *)
(***************************************************************************)
EXTENDS C11Defs, Json, IOUtils

Jobs == JsonDeserialize(IOEnv.VERIF_JOBS)
VARIABLE i

ToSet(s) == {s[x] : x \in 1..Len(s)}
Vals(s)  == [j \in 1..Len(s) |-> s[j].v]
Verdict(j) ==
  LET v  == MakeGateVerdict(j.cand)
      gs == IF j.raised THEN <<>> ELSE Core6Seq(j.dump.gates)
  IN (IF v = "reject" /\ ~j.raised THEN <<"accepted-invalid">> ELSE <<>>)
  \o (IF v = "accept" /\ j.raised THEN <<"rejected-valid">> ELSE <<>>)
  \o (IF v = "accept" /\ ~j.raised /\ ~(j.out.name = j.cand.name /\ j.out.t = Vals(j.cand.t)
                                        /\ j.out.c = (IF j.cand.hasc THEN Vals(j.cand.c) ELSE <<>>))
      THEN <<"fields">> ELSE <<>>)
  \o (IF j.raised \/ v = "reject" THEN <<>>
      ELSE (IF j.dump.size = 1 /\ Len(gs) = 1 THEN <<>> ELSE <<"size">>)
        \o (IF ToSet(j.dump.counts) = CountsOf(gs) THEN <<>> ELSE <<"counts">>)
        \o (IF ToSet(j.dump.cnq) = CNQOf(gs) THEN <<>> ELSE <<"counts_n_qubit">>)
        \o (IF j.dump.width = MaxIdx(gs) + 1 THEN <<>> ELSE <<"width">>)
        \o (IF j.dump.depth = DepthOf(gs) THEN <<>> ELSE <<"depth">>))

JInit == i \in 1..Len(Jobs)
JNext == i > 0 /\ PrintT(<<"V", Jobs[i].id, ToJson(Verdict(Jobs[i]))>>) /\ i' = 0
=============================================================================
