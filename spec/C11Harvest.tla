----------------------------- MODULE C11Harvest -----------------------------
(***************************************************************************)
(* C11, harvested traces: every outermost call of a public Circuit operation *)
(* made by the repository's own test module (recorded by runtime wrappers,   *)
(* checks/c11_harvest_plugin.py) is judged with the definitions of C11Defs:  *)
(*   - every Circuit argument after the call and every returned Circuit      *)
(*     reports metadata equal to the definitions applied to its own gate     *)
(*     list (width: >= max index + 1, the history of harvested objects is    *)
(*     unknown);                                                             *)
(*   - arguments the operation is not documented to write are bit-identical  *)
(*     before and after; when the call raised, all arguments are unchanged.  *)
(* Verdict: sequence of failing clause names.                                *)
(***************************************************************************)
EXTENDS C11Defs, Json, IOUtils

Jobs == JsonDeserialize(IOEnv.VERIF_JOBS)
VARIABLE i

ToSet(s) == {s[x] : x \in 1..Len(s)}
Meta(d) ==
  IF ~d.live THEN <<>> ELSE
  LET gs == Core6Seq(d.gates) IN
     (IF d.size = SizeOf(gs) THEN <<>> ELSE <<"size">>)
  \o (IF ToSet(d.counts) = CountsOf(gs) /\ Len(d.counts) = Cardinality(CountsOf(gs)) THEN <<>> ELSE <<"counts">>)
  \o (IF ToSet(d.cnq) = CNQOf(gs) /\ Len(d.cnq) = Cardinality(CNQOf(gs)) THEN <<>> ELSE <<"counts_n_qubit">>)
  \o (IF d.isvar = IsVarOf(gs) THEN <<>> ELSE <<"is_variational">>)
  \o (IF d.mixed = IsMixedOf(gs) THEN <<>> ELSE <<"is_mixed_state">>)
  \o (IF d.depth = DepthOf(gs) THEN <<>> ELSE <<"depth">>)
  \o (IF d.width >= MaxIdx(gs) + 1 THEN <<>> ELSE <<"width">>)

\* an argument that was written although it must not be is reported once (frame / state-changed-on-raise); its metadata
\* mismatch is a consequence.  After a raising call only the frame is judged.
Unchanged(j, x) == j.before[x] = j.after[x]
MayWrite(j, x)  == x = 1 /\ j.writes_first /\ ~j.raised
Verdict(j) ==
  IF Len(j.before) = Len(j.after)
  THEN Flatten([x \in 1..Len(j.after) |->
          IF Unchanged(j, x) THEN <<>>
          ELSE IF MayWrite(j, x) THEN Meta(j.after[x])
          ELSE IF j.raised THEN <<"state-changed-on-raise">> ELSE <<"frame">>])
       \o Flatten([x \in 1..Len(j.results) |-> Meta(j.results[x])])
  ELSE Flatten([x \in 1..Len(j.after) |-> Meta(j.after[x])]) \o Flatten([x \in 1..Len(j.results) |-> Meta(j.results[x])])

JInit == i \in 1..Len(Jobs)
JNext == i > 0 /\ PrintT(<<"V", Jobs[i].id, ToJson(Verdict(Jobs[i]))>>) /\ i' = 0
=============================================================================
