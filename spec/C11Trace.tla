------------------------------ MODULE C11Trace ------------------------------
(***************************************************************************)
(* C11, V-part: a recorded behaviour (operation history replayed into real  *)
(* Circuit objects, with a dump of EVERY live object after EVERY step) is    *)
(* validated step by step.  A dump holds list(circuit) and the REPORTED      *)
(* width / size / counts / counts_n_qubit / is_variational / is_mixed_state *)
(* / depth().                                                                *)
(*                                                                         *)
(* Per step TLC decides                                                      *)
(*   outcome   valid operations must succeed, invalid ones must raise        *)
(*             (clauses exception / accepted-invalid);                       *)
(*   frame     every object the operation does not write is bit-identical    *)
(*             to its previous dump, and nothing changes when the operation  *)
(*             raised (clauses frame / state-changed-on-raise);              *)
(*   gates     structural operations produce exactly the specified gate list *)
(*             (new, add, +, *, copy, trim, reindex, stack); for inverse and *)
(*             the simplification passes the new list is taken from the log  *)
(*             (their contract is C09);                                      *)
(*   metadata  for every object that changed and every returned object, the  *)
(*             reported values equal the DEFINITIONS of C11Defs applied to   *)
(*             its own dumped gate list (clauses size, counts,               *)
(*             counts_n_qubit, is_variational, is_mixed_state, depth,        *)
(*             width);                                                       *)
(*   fresh     the result of an out-of-place operation shares no object    *)
(*             with the other live objects (clause result-aliases-operand), *)
(*             and - by the frame clause of the FOLLOWING steps - mutating  *)
(*             the result never changes an operand;                         *)
(*   width     the documented width rule: exact (fixed n or max index + 1)   *)
(*             while the object's history is in the documented zone,         *)
(*             >= max index + 1 always, and the operation-specific rule at   *)
(*             creation (copy/inverse/repeat keep it, + takes the max, trim  *)
(*             = qubits in use, reindex = max new index + 1, stack = sum).   *)
(* The validator carries, per slot, the annotation Ann (fixedN, wdoc, prov,   *)
(* qidx).                                                                    *)
(* The verdict is the list of <<step, clause, slot, provenance>>.            *)
(***************************************************************************)
EXTENDS C11Defs, Json, IOUtils

Jobs == JsonDeserialize(IOEnv.VERIF_JOBS)
VARIABLE i

ToSet(s) == {s[x] : x \in 1..Len(s)}
DeadAnn == Ann(0, TRUE, "")

GatesOf(d) == Core6Seq(d.gates)

MetaClauses(d, ann) ==
  LET gs == GatesOf(d) IN
     (IF d.size = SizeOf(gs) THEN <<>> ELSE <<"size">>)
  \o (IF ToSet(d.counts) = CountsOf(gs) /\ Len(d.counts) = Cardinality(CountsOf(gs)) THEN <<>> ELSE <<"counts">>)
  \o (IF ToSet(d.cnq) = CNQOf(gs) /\ Len(d.cnq) = Cardinality(CNQOf(gs)) THEN <<>> ELSE <<"counts_n_qubit">>)
  \o (IF d.isvar = IsVarOf(gs) THEN <<>> ELSE <<"is_variational">>)
  \o (IF d.mixed = IsMixedOf(gs) THEN <<>> ELSE <<"is_mixed_state">>)
  \o (IF d.depth = DepthOf(gs) THEN <<>> ELSE <<"depth">>)
  \o (IF d.width >= MaxIdx(gs) + 1 /\ (ann.wdoc => d.width = WidthOf(gs, ann.fixedN)) THEN <<>> ELSE <<"width">>)

Max2(a, b) == IF a >= b THEN a ELSE b
Prov2(x, y) == IF x.prov # "" THEN x.prov ELSE y.prov
Plain(x) == x.wdoc /\ x.fixedN = 0

InPlace(act) == act.op \in {"trim", "reindex", "setparam"} \/ (act.op \in {"small", "redundant", "merge", "simplify"} /\ act.form = "method")
Written(act) == IF act.op = "new" THEN act.dst
                ELSE IF act.op = "add" \/ InPlace(act) THEN act.o
                ELSE IF act.op \in {"concat", "repeat", "copy", "inverse", "stack", "stack0", "stack1", "small", "redundant", "merge", "simplify"} THEN act.dst
                ELSE 0

\* "ok" (must succeed), "reject" (must raise), "either"
Expect(act, prev, anns) ==
  LET a  == prev[act.o]
      an == anns[act.o]
      gs == GatesOf(a)
  IN CASE act.op = "new"     -> IF act.n = 0 \/ MaxIdx(act.gs) < act.n THEN "ok" ELSE "reject"
       [] act.op = "add"     -> IF an.wdoc THEN (IF an.fixedN > 0 /\ MaxIdx(<<act.g>>) >= an.fixedN THEN "reject" ELSE "ok")
                                ELSE (IF MaxIdx(<<act.g>>) < a.width THEN "ok" ELSE "either")
       [] act.op = "addbad"  -> "reject"
       [] act.op = "repeat"  -> IF act.n >= 1 THEN "ok" ELSE "reject"
       [] act.op = "inverse" -> IF ~Invertible(gs) THEN "reject" ELSE IF Symbolic(gs) THEN "either" ELSE "ok"
       [] act.op = "reindex" -> IF ~ValidNew(act.new) THEN "reject"
                                ELSE IF ~an.wdoc THEN "either"
                                ELSE IF Len(act.new) = Cardinality(QIdxOf(gs, an)) THEN "ok" ELSE "reject"
       [] act.op \in {"small", "merge"} -> IF Symbolic(gs) THEN "either" ELSE "ok"
       [] act.op \in {"redundant", "simplify"} -> IF Symbolic(gs) \/ ~Invertible(gs) THEN "either" ELSE "ok"
       [] act.op \in {"translate", "simulate"} -> "either"
       [] act.op = "setparam" -> "ok"
       [] OTHER -> "ok"

\* <<known, gates>>: the gate list the written slot must hold after a successful structural operation
ExpGates(act, prev, anns) ==
  LET a == GatesOf(prev[act.o])
      b == GatesOf(prev[act.o2])
  IN CASE act.op = "new"    -> <<TRUE, Core6Seq(act.gs)>>
       [] act.op = "add"    -> <<TRUE, Append(a, Core6(act.g))>>
       [] act.op = "concat" -> <<TRUE, a \o b>>
       [] act.op = "repeat" -> <<TRUE, RepeatSeq(a, act.n)>>
       [] act.op = "copy"   -> <<TRUE, a>>
       [] act.op = "trim"   -> <<TRUE, Compress(a, Used(a))>>
       [] act.op = "reindex" -> IF anns[act.o].wdoc THEN <<TRUE, ReindexGates(a, QIdxOf(a, anns[act.o]), act.new)>> ELSE <<FALSE, <<>>>>
       [] act.op = "stack"  -> <<TRUE, StackModel(<<a, b>>)>>
       [] act.op = "stack0" -> <<TRUE, <<>>>>
       [] act.op = "stack1" -> <<TRUE, Compress(a, Used(a))>>
       [] act.op = "setparam" -> LET j == SetMin({x \in 1..Len(a) : a[x].name \in ParamNames /\ a[x].s = ""})
                                 IN <<TRUE, [a EXCEPT ![j] = [@ EXCEPT !.k = @ + 2]]>>
       [] OTHER -> <<FALSE, <<>>>>

\* operation-specific width rule at creation; -1 = none
ExpWidth(act, prev) ==
  LET a == prev[act.o]
      b == prev[act.o2]
  IN CASE act.op = "concat" -> Max2(a.width, b.width)
       [] act.op \in {"repeat", "copy", "inverse"} -> a.width
       [] act.op = "trim" -> Cardinality(Used(GatesOf(a)))
       [] act.op = "reindex" -> SetMax(ToSet(act.new)) + 1
       [] act.op = "stack" -> Cardinality(Used(GatesOf(a))) + Cardinality(Used(GatesOf(b)))
       [] act.op = "stack0" -> 0
       [] act.op = "stack1" -> Cardinality(Used(GatesOf(a)))
       [] act.op = "setparam" -> a.width
       [] act.op \in {"small", "redundant"} /\ ~act.rq -> a.width
       [] act.op = "add" -> Max2(a.width, MaxIdx(<<act.g>>) + 1)
       [] OTHER -> -1

\* Fixed-width objects stay in the documented zone under trim_qubits (fixed at the trimmed width; free when nothing is left)
\* and reindex_qubits (fixed, wide enough for the new indices = max new index + 1): their width must then equal the fixed
\* width exactly, add_gate beyond it must raise, and copy / inverse / * / remove_* keep it.
NewAnn(act, anns, prev) ==
  LET a == anns[act.o]
      b == anns[act.o2]
      fixedDoc == a.wdoc /\ a.fixedN > 0
  IN CASE act.op = "new" -> Ann(act.n, TRUE, "")
       [] act.op = "add" -> IF a.fixedN > 0 THEN AnnQ(a, a.qidx \cup QSet(act.g)) ELSE a
       [] act.op \in {"repeat", "copy", "inverse"} -> Ann(a.fixedN, a.wdoc, a.prov)
       [] act.op = "concat" -> IF Plain(a) /\ Plain(b) THEN FreeAnn ELSE Ann(0, FALSE, Prov2(a, b))
       [] act.op = "stack" -> IF Plain(a) /\ Plain(b) THEN FreeAnn ELSE Ann(0, FALSE, Prov2(a, b))
       [] act.op = "stack0" -> FreeAnn
       [] act.op = "stack1" -> IF Plain(a) THEN FreeAnn ELSE Ann(0, FALSE, a.prov)
       [] act.op = "setparam" -> a
       [] act.op = "trim" -> IF Plain(a) THEN a
                             ELSE IF fixedDoc THEN Ann(Cardinality(Used(GatesOf(prev[act.o]))), TRUE, "")
                             ELSE Ann(0, FALSE, a.prov)
       [] act.op = "reindex" -> IF Plain(a) THEN a
                                ELSE IF fixedDoc THEN AnnQ(Ann(SetMax(ToSet(act.new)) + 1, TRUE, ""), ToSet(act.new))
                                ELSE Ann(0, FALSE, a.prov)
       [] act.op \in {"small", "redundant"} -> IF act.rq THEN FreeAnn ELSE Ann(0, FALSE, a.prov)
       [] OTHER -> Ann(0, FALSE, a.prov)

Tag(k, cls, slot, prov) == TLCEval([x \in 1..Len(cls) |-> <<k, cls[x], slot, prov>>])

\* verdict entries of step k; S = [dumps, anns]
StepV(S, st, k) ==
  LET act  == st.act
      prev == S.dumps
      cur  == st.heap
      n    == Len(cur)
      w    == Written(act)
      ex   == Expect(act, prev, S.anns)
      pv   == IF act.o >= 1 THEN Prov2(S.anns[act.o], IF act.o2 >= 1 THEN S.anns[act.o2] ELSE DeadAnn) ELSE ""
      operandsLive == (act.o = 0 \/ prev[act.o].live) /\ (act.o2 = 0 \/ prev[act.o2].live)
  IN IF ~operandsLive THEN <<<<k, "malformed-step", 0, "">>>>
     ELSE
        (IF ex = "ok" /\ st.raised THEN <<<<k, "exception", act.o, pv>>>> ELSE <<>>)
     \o (IF ex = "reject" /\ ~st.raised THEN <<<<k, "accepted-invalid", act.o, pv>>>> ELSE <<>>)
     \o (IF st.raised
         THEN Flatten(TLCEval([s \in 1..n |-> IF cur[s] = prev[s] THEN <<>> ELSE <<<<k, "state-changed-on-raise", s, S.anns[s].prov>>>>]))
         ELSE Flatten(TLCEval([s \in 1..n |-> IF s = w \/ cur[s] = prev[s] THEN <<>> ELSE <<<<k, "frame", s, S.anns[s].prov>>>>])))
     \* freshness: the result of an out-of-place operation is a different object sharing no gate object / index list
     \* with any other live object (recorded identity observation `alias` = slots it shares with)
     \o (IF ~st.raised /\ Len(st.alias) > 0
         THEN TLCEval([x \in 1..Len(st.alias) |-> <<k, "result-aliases-operand", st.alias[x], pv>>]) ELSE <<>>)
     \o (IF ~st.raised /\ w >= 1
         THEN LET eg == ExpGates(act, prev, S.anns)
                  ew == ExpWidth(act, prev)
              IN (IF cur[w].live THEN <<>> ELSE <<<<k, "no-result", w, pv>>>>)
              \o (IF eg[1] /\ GatesOf(cur[w]) # eg[2] THEN <<<<k, "gates", w, pv>>>> ELSE <<>>)
              \o (IF ew >= 0 /\ cur[w].width # ew THEN <<<<k, "width-rule", w, pv>>>> ELSE <<>>)
         ELSE <<>>)
     \o (IF st.raised THEN <<>>
         ELSE Flatten(TLCEval([s \in 1..n |->
                 IF cur[s].live /\ (s = w \/ cur[s] # prev[s])
                 THEN Tag(k, MetaClauses(cur[s], IF s = w THEN NewAnn(act, S.anns, prev) ELSE S.anns[s]), s,
                          (IF s = w THEN NewAnn(act, S.anns, prev) ELSE S.anns[s]).prov)
                 ELSE <<>>])))
     \o Flatten(TLCEval([r \in 1..Len(st.results) |-> Tag(k, MetaClauses(st.results[r], FreeAnn), 0, pv)]))

\* a slot that changed although the operation did not write it (or although the operation raised) is TAINTED: later
\* findings on that object are consequences and are reported under the provenance "after-unexpected-write"
Taint(a) == Ann(0, FALSE, IF a.prov # "" THEN a.prov ELSE "after-unexpected-write")
NextS(S, st) ==
  LET w  == Written(st.act)
      n  == Len(st.heap)
      a1 == IF st.raised \/ w = 0 THEN S.anns ELSE [S.anns EXCEPT ![w] = NewAnn(st.act, S.anns, S.dumps)]
  IN [dumps |-> st.heap,
      anns  |-> TLCEval([s \in 1..n |-> IF st.heap[s] # S.dumps[s] /\ (st.raised \/ s # w) THEN Taint(a1[s]) ELSE a1[s]])]

RECURSIVE Walk(_, _, _)
Walk(S, steps, k) == IF k > Len(steps) THEN <<>> ELSE StepV(S, steps[k], k) \o Walk(NextS(S, steps[k]), steps, k + 1)

DeadDump == [live |-> FALSE, gates |-> <<>>, width |-> 0, size |-> 0, counts |-> <<>>, cnq |-> <<>>, isvar |-> FALSE,
             mixed |-> FALSE, depth |-> 0]
Verdict(j) == LET n == Len(j.steps[1].heap) IN
              Walk([dumps |-> [s \in 1..n |-> DeadDump], anns |-> [s \in 1..n |-> DeadAnn]], j.steps, 1)

JInit == i \in 1..Len(Jobs)
JNext == i > 0 /\ PrintT(<<"V", Jobs[i].id, ToJson(Verdict(Jobs[i]))>>) /\ i' = 0
=============================================================================
