------------------------------ MODULE C12Defs ------------------------------
(***************************************************************************)
(* C12 - symmetry operators and penalties are exact; default ansaetze       *)
(* conserve them.                                                           *)
(*                                                                         *)
(* First-principles semantics (module Fock): the particle number N, the     *)
(* spin projection Sz = 1/2 (N_alpha - N_beta) and the total spin           *)
(* S^2 = S- S+ + Sz + Sz^2 with S+ = SUM_i a+_{i alpha} a_{i beta}, acting  *)
(* on vectors of Fock space (finite maps determinant |-> ring coefficient). *)
(* The operators of the implementation arrive as term lists and are judged  *)
(* by their ACTION:                                                         *)
(*   NumberOK / SzOK   on EVERY determinant D: Op D = eigenvalue(D) D        *)
(*   S2OK              on every determinant Op D = S^2 D (first principles) *)
(*                     and on every spin eigenfunction                      *)
(*                     Phi = S-^k |closed shells C, alpha singles O>         *)
(*                     Op Phi = s(s+1) Phi with s = |O|/2                   *)
(*   PenaltyOK         P D = SUM_j mu_j (Op_j - v_j)(Op_j - v_j) D with the  *)
(*                     FIRST-PRINCIPLES Op_j: this is a sum of squares of   *)
(*                     Hermitian operators, hence positive semidefinite,    *)
(*                     and on the joint eigenvectors its value is           *)
(*                     SUM mu_j (lambda_j - v_j)^2, zero exactly on the      *)
(*                     target sector (PenaltyValueOK states this on every   *)
(*                     determinant for the diagonal operators N, Sz)        *)
(*   CommutesOn        [Op, H] D = 0 on every determinant                    *)
(*   EncPenaltyOK      Enc(P) = SUM mu_j (Enc(Op_j) - v_j)^2 in the Pauli    *)
(*                     algebra (images recorded from the implementation)    *)
(* Ansatz conservation: generators commute with Enc(N), Enc(Sz)             *)
(* (GeneratorCommutes), block condition on the word order (BlockCondition), *)
(* and exact evaluation of the built circuits on the grid (C12Trace).       *)
(***************************************************************************)
EXTENDS Fock, TLC

\* ---- sparse vectors: function determinant |-> non-zero ring coefficient ------
\* apply an operator (sequence of [t, c]) to a sparse vector; one pass over (term, determinant) pairs
ApplyOpVec(fop, v) ==
  LET pairs == {<<k, Y>> : k \in 1..Len(fop), Y \in DOMAIN v}
      img   == TLCEval([pr \in pairs |-> ApplyTerm(fop[pr[1]].t, pr[2])])
      live  == {pr \in pairs : ~img[pr].z}
      tgt   == {img[pr].d : pr \in live}
  IN VClean(TLCEval([X \in tgt |->
       FoldSet(LAMBDA pr, acc :
                 IF img[pr].d # X THEN acc
                 ELSE LET z == Mul(fop[pr[1]].c, v[pr[2]]) IN Add(acc, IF img[pr].s = 1 THEN z ELSE Neg(z)),
               RZero, live)]))

VSub(u, v) == VAdd(u, VScale(Neg(ROne), v))
VEq(u, v) == VClean(u) = VClean(v)

\* ---- first-principles operators as maps on vectors ----------------------------
SpecNApply(v, n)        == ApplyOpVec(SpecN(n), v)
SpecSzApply(v, n, utd)  == ApplyOpVec(SpecSz(n, utd), v)
SpecS2(v, n, utd) ==
  LET sz == SpecSzApply(v, n, utd)
  IN VAdd(ApplyOpVec(SpecSminus(n, utd), ApplyOpVec(SpecSplus(n, utd), v)), VAdd(sz, SpecSzApply(sz, n, utd)))
SpecApply(kind, v, n, utd) ==
  CASE kind = "N" -> SpecNApply(v, n) [] kind = "Sz" -> SpecSzApply(v, n, utd) [] kind = "S2" -> SpecS2(v, n, utd)

\* eigenvalues on a determinant
NEig(D)          == FromInt(Cardinality(D))
SzEig(D, n, utd) == Dyadic(NAlpha(D, n, utd) - NBeta(D, n, utd), 1)

NumberOK(fop, n)  == \A D \in Dets(n) : VEq(ApplyOpVec(fop, VDet(D)), VScale(NEig(D), VDet(D)))
SzOK(fop, n, utd) == \A D \in Dets(n) : VEq(ApplyOpVec(fop, VDet(D)), VScale(SzEig(D, n, utd), VDet(D)))

\* spin eigenfunctions: closed shells C, singly occupied alpha orbitals O (disjoint), lowered k times
HighSpinDet(C, O, n, utd) == {SO(i, 0, n, utd) : i \in C \cup O} \cup {SO(i, 1, n, utd) : i \in C}
RECURSIVE Lowered(_, _, _, _)
Lowered(v, k, n, utd) == IF k = 0 THEN v ELSE Lowered(ApplyOpVec(SpecSminus(n, utd), v), k - 1, n, utd)
\* s(s+1) for s = m/2 :  m (m + 2) / 4
SSPlus1(m) == Dyadic(m * (m + 2), 2)
SpinFunctions(n) ==
  LET orbs == 0..((n \div 2) - 1)
  IN {<<C, O, k>> \in (SUBSET orbs) \X (SUBSET orbs) \X (0..(n \div 2)) : C \cap O = {} /\ k <= Cardinality(O)}

S2OK(fop, n, utd) ==
  /\ \A D \in Dets(n) : VEq(ApplyOpVec(fop, VDet(D)), SpecS2(VDet(D), n, utd))
  /\ \A cok \in SpinFunctions(n) :
       LET phi == Lowered(VDet(HighSpinDet(cok[1], cok[2], n, utd)), cok[3], n, utd)
       IN /\ phi # VZero
          /\ VEq(ApplyOpVec(fop, phi), VScale(SSPlus1(Cardinality(cok[2])), phi))

\* ---- penalties ------------------------------------------------------------------
\* parts: sequence of [kind, mu, v] (mu, v ring elements)
SquareApply(kind, target, v, n, utd) ==
  LET w1 == VSub(SpecApply(kind, v, n, utd), VScale(target, v))
  IN VSub(SpecApply(kind, w1, n, utd), VScale(target, w1))
RECURSIVE PenaltyApplyFrom(_, _, _, _, _)
PenaltyApplyFrom(parts, v, n, utd, j) ==
  IF j = 0 THEN VZero
  ELSE VAdd(VScale(parts[j].mu, SquareApply(parts[j].kind, parts[j].v, v, n, utd)), PenaltyApplyFrom(parts, v, n, utd, j - 1))
PenaltyOK(fop, parts, n, utd) ==
  \A D \in Dets(n) : VEq(ApplyOpVec(fop, VDet(D)), PenaltyApplyFrom(parts, VDet(D), n, utd, Len(parts)))

\* for the diagonal operators: value on a determinant, non-negativity, zero exactly on the target sector
Eig(kind, D, n, utd) == IF kind = "N" THEN NEig(D) ELSE SzEig(D, n, utd)
IsNonNegReal(x) == (\A j \in 2..HM : x.c[j] = 0) /\ x.c[1] >= 0     \* dyadic rational >= 0
RECURSIVE PenaltyValueFrom(_, _, _, _, _)
PenaltyValueFrom(parts, D, n, utd, j) ==
  IF j = 0 THEN RZero
  ELSE LET dlt == Sub(Eig(parts[j].kind, D, n, utd), parts[j].v)
       IN Add(Mul(parts[j].mu, Mul(dlt, dlt)), PenaltyValueFrom(parts, D, n, utd, j - 1))
InSector(parts, D, n, utd) == \A j \in 1..Len(parts) : Eig(parts[j].kind, D, n, utd) = parts[j].v
PenaltyValueOK(fop, parts, n, utd) ==
  (\A j \in 1..Len(parts) : parts[j].kind # "S2" /\ IsNonNegReal(parts[j].mu) /\ parts[j].mu # RZero /\ IsReal(parts[j].v)) =>
  \A D \in Dets(n) :
     LET val == PenaltyValueFrom(parts, D, n, utd, Len(parts))
     IN /\ VEq(ApplyOpVec(fop, VDet(D)), VScale(val, VDet(D)))
        /\ IsNonNegReal(val)
        /\ (val = RZero <=> InSector(parts, D, n, utd))

\* ---- commutation with a Hamiltonian ---------------------------------------------
CommutesOn(op, ham, n) ==
  \A D \in Dets(n) : VEq(ApplyOpVec(op, ApplyOpVec(ham, VDet(D))), ApplyOpVec(ham, ApplyOpVec(op, VDet(D))))

\* ---- encoded penalties -------------------------------------------------------------
\* imgs: sequence of [mu, v, op] with op the recorded image of the symmetry operator
RECURSIVE EncPenaltyFrom(_, _, _)
EncPenaltyFrom(imgs, nq, j) ==
  IF j = 0 THEN OpZero
  ELSE LET sh == OpSub(imgs[j].op, OpScale(imgs[j].v, OpIdentity(nq)))
       IN OpAdd(OpScale(imgs[j].mu, OpMul(sh, sh, nq)), EncPenaltyFrom(imgs, nq, j - 1))
EncPenaltyOK(iP, imgs, nq) == OpEq(iP, EncPenaltyFrom(imgs, nq, Len(imgs)))

\* ---- fermionic generators (pool elements, rows of the excitation tables) judged on the Fock model -----------------
\* [G, S] D = 0 on every determinant, S the FIRST-PRINCIPLES N, Sz (and S^2 where the pool is documented as spin adapted)
FockGeneratorConserves(f, kinds, n, utd) ==
  \A D \in Dets(n) : \A kind \in kinds :
     VEq(ApplyOpVec(f, SpecApply(kind, VDet(D), n, utd)), SpecApply(kind, ApplyOpVec(f, VDet(D)), n, utd))

\* ---- ansatz generators ----------------------------------------------------------------
GeneratorCommutes(gen, sym, nq) == OpIsZero(OpCommutator(sym, gen, nq))

\* Block condition (sufficient for conservation at ALL parameter values).  words: the Pauli words of the built circuit in
\* circuit order; cw[j]: sequence of [p |-> parameter, c |-> coefficient] - the coefficient of word j in the generator of
\* parameter p (the circuit applies exp(-i (SUM_p theta_p c) word_j) in this order).  The circuit conserves the symmetries S
\* for every theta if the word sequence can be cut into CONSECUTIVE blocks such that inside a block the words commute
\* pairwise and, for every parameter p, the block's share SUM_j c[j,p] word_j of the generator commutes with every symmetry:
\* each block is then exp(-i SUM_p theta_p B_p) with [B_p, S] = 0.  If a valid cut exists, the greedy one (always the
\* shortest admissible block) is valid too (the remainder of a block is again admissible), so TLC searches greedily.
BlockShare(words, cw, a, b, p) ==
  OpFromTerms(SetToSeqOf({j \in a..b : \E x \in 1..Len(cw[j]) : cw[j][x].p = p},
                         LAMBDA j : [w |-> words[j], c |-> cw[j][CHOOSE x \in 1..Len(cw[j]) : cw[j][x].p = p].c]))
BlockParams(cw, a, b) == UNION {{cw[j][x].p : x \in 1..Len(cw[j])} : j \in a..b}
BlockOK(words, cw, S, nq, a, b) ==
  /\ \A x \in a..b : CommuteWords(words[x], words[b], nq)
  /\ \A p \in BlockParams(cw, a, b) : \A s \in 1..Len(S) : GeneratorCommutes(BlockShare(words, cw, a, b, p), S[s], nq)
MaxBlock == 48
RECURSIVE FirstBlockEnd(_, _, _, _, _, _)
\* smallest b >= cur with words a..b pairwise commuting and the block admissible; 0 if none
FirstBlockEnd(words, cw, S, nq, a, cur) ==
  IF cur > Len(words) \/ cur - a >= MaxBlock THEN 0
  ELSE IF ~(\A x \in a..cur : CommuteWords(words[x], words[cur], nq)) THEN 0
  ELSE IF BlockOK(words, cw, S, nq, a, cur) THEN cur
  ELSE FirstBlockEnd(words, cw, S, nq, a, cur + 1)
RECURSIVE PartitionableFrom(_, _, _, _, _)
PartitionableFrom(words, cw, S, nq, a) ==
  IF a > Len(words) THEN TRUE
  ELSE LET b == FirstBlockEnd(words, cw, S, nq, a, a)
       IN b # 0 /\ PartitionableFrom(words, cw, S, nq, b + 1)
BlockCondition(words, cw, S, nq) == PartitionableFrom(words, cw, S, nq, 1)
=============================================================================
