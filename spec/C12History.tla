----------------------------- MODULE C12History -----------------------------
(***************************************************************************)
(* G-part of C12: parameter histories of ONE ansatz object.                 *)
(*                                                                         *)
(* "For all parameter values" includes the values an ansatz object reaches  *)
(* through update_var_params after it was built somewhere else: amplitudes  *)
(* that are EXACTLY zero are compressed out of the generator, so the built  *)
(* circuit and its gate book-keeping depend on the zero pattern at build    *)
(* time.  The state machine below is the abstract life of the object:       *)
(*   vec    current parameter vector as integer multipliers of the          *)
(*          per-parameter unit angle, over the alphabet {0, 1, -1, 2}       *)
(*   built  zero pattern the object was last (re)built with - the abstract  *)
(*          contract: a changed pattern forces a rebuild, an unchanged one  *)
(*          allows the in-place update                                      *)
(*   hist   the vectors so far (hist[1] = build, the rest = updates)        *)
(* Actions: Build (initial state: a vector with at least one exact zero,    *)
(* incl. the all-zero vector), UpdateSame (same zero pattern, new values),  *)
(* UpdateOther (another zero pattern).  Zero patterns are intervals of      *)
(* parameter indices (single parameters, whole layers, parts of a layer),   *)
(* residue classes and the empty pattern; values follow five sign / size    *)
(* schemes.  TLC -simulate samples behaviours; each finished behaviour is   *)
(* printed (EndOfBehaviour) and replayed on a real ansatz object; the FINAL *)
(* circuit is then judged by C12Trace (kinds circ / cliff).                 *)
(* The pattern counter c is a linear congruential walk through the pattern  *)
(* table, so that every state has few successors (TLC picks uniformly among *)
(* successors: same-pattern and other-pattern updates are equally likely).  *)
(***************************************************************************)
EXTENDS Integers, Sequences, FiniteSets, TLC, Json

CONSTANTS Mode,      \* "zeros": the life described above;  "flip" / "pair": sign histories, see the end of the module
          NP,        \* number of parameters
          Layer,     \* parameters per layer (k-UpCCGSD repeats the same Layer parameters k times; NP for the others)
          MaxLen     \* vectors per behaviour (1 build + MaxLen-1 updates)

VARIABLES zs, sch, c, hist
vars == <<zs, sch, c, hist>>

Idx == 1..NP
\* intervals inside ONE layer (single parameters, parts of a layer, a whole layer), the empty and the full pattern
Intervals == {Z \in {lo..hi : lo \in Idx, hi \in Idx} : \A a, b \in Z : (a - 1) \div Layer = (b - 1) \div Layer}
Residues  == {{i \in Idx : i % m = r} : m \in 2..3, r \in 0..2}
ZeroSets  == Intervals \cup Residues \cup {{}, Idx}

SetSeq(S) == LET RECURSIVE go(_)
                 go(T) == IF T = {} THEN <<>> ELSE LET x == CHOOSE y \in T : TRUE IN <<x>> \o go(T \ {x})
             IN go(S)
ZSeq == SetSeq(ZeroSets)
NZ == Len(ZSeq)

Schemes == 0..4
Val(i, s) == CASE s = 0 -> <<1, -1, 2>>[(i % 3) + 1]
               [] s = 1 -> <<-1, 2, 1>>[(i % 3) + 1]
               [] s = 2 -> <<2, 1, -1>>[(i % 3) + 1]
               [] s = 3 -> 1
               [] s = 4 -> IF i % 2 = 0 THEN 2 ELSE -1
Vec(Z, s) == [i \in Idx |-> IF i \in Z THEN 0 ELSE Val(i, s)]
ToSeq(f) == [i \in Idx |-> f[i]]

Pick(k) == ZSeq[(k % NZ) + 1]

Init == /\ c \in 0..47
        /\ zs = (IF c % 12 = 0 THEN Idx ELSE Pick(c * 13 + 5))     \* all-zero start every 12th
        /\ zs # {}                                                  \* build at a vector with an exact zero
        /\ sch \in Schemes
        /\ hist = <<ToSeq(Vec(zs, sch))>>

UpdateSame == /\ Len(hist) < MaxLen
              /\ zs # Idx                         \* the all-zero vector has one value scheme only
              /\ zs' = zs
              /\ sch' \in Schemes \ {sch}
              /\ c' = c
              /\ hist' = Append(hist, ToSeq(Vec(zs', sch')))

UpdateOther == /\ Len(hist) < MaxLen
               /\ c' = (c * 7 + 3) % 1009
               /\ zs' = Pick(c')
               /\ sch' \in Schemes
               /\ hist' = Append(hist, ToSeq(Vec(zs', sch')))

\* ---- sign histories ("flip", "pair"): explored EXHAUSTIVELY (breadth first, no -simulate) ----------------------------
\* Two parameters with EXACTLY opposite amplitudes make contributions to shared Pauli words cancel exactly: the word list
\* of the generator keeps its content but changes its ORDER (or loses words) - an object that decides "update in place" from
\* the set of words and writes angles by position then puts angles on the wrong words.  Vectors are integer LEVELS, all
\* multiplied by ONE common amplitude (so that +l and -l are exactly opposite radians).
\*   flip: build at a sign-free level pattern Gen(s), then negate ONE parameter (it becomes exactly opposite to every
\*         parameter of the same level)                                   - NP updates per pattern
\*   pair: build at levels 3..7, then set an ordered pair (p, q) to (+1, -1): the ONLY exactly opposite pair
\*                                                                        - NP (NP - 1) updates
Gen(s) == CASE s = 0 -> [i \in Idx |-> 1]
            [] s = 1 -> [i \in Idx |-> 1 + (i % 3)]
            [] s = 2 -> [i \in Idx |-> 1 + ((i + 1) % 2)]
            [] s = 3 -> [i \in Idx |-> 3 + (i % 5)]
SignInit == /\ c = 0 /\ zs = {}
            /\ sch \in (IF Mode = "flip" THEN 0..2 ELSE {3})
            /\ hist = <<ToSeq(Gen(sch))>>
Flip == /\ Mode = "flip" /\ Len(hist) = 1
        /\ \E q \in Idx : hist' = Append(hist, ToSeq([Gen(sch) EXCEPT ![q] = -Gen(sch)[q]]))
        /\ UNCHANGED <<zs, sch, c>>
Pair == /\ Mode = "pair" /\ Len(hist) = 1
        /\ \E p \in Idx : \E q \in Idx \ {p} : hist' = Append(hist, ToSeq([Gen(sch) EXCEPT ![p] = 1, ![q] = -1]))
        /\ UNCHANGED <<zs, sch, c>>
SignNext == Flip \/ Pair
SignTypeOK == /\ Len(hist) \in 1..2 /\ \A i \in Idx : hist[1][i] > 0
              /\ (Len(hist) = 2 => Cardinality({i \in Idx : hist[2][i] < 0}) = 1)
              /\ (Len(hist) = 2 /\ Mode = "pair" =>
                     Cardinality({pq \in Idx \X Idx : pq[1] # pq[2] /\ hist[2][pq[1]] = -hist[2][pq[2]]}) = 2)   \* one pair, both orders

Next == UpdateSame \/ UpdateOther
Spec == Init /\ [][Next]_vars

TypeOK == /\ zs \subseteq Idx
          /\ \A k \in 1..Len(hist) : \A i \in Idx : hist[k][i] \in {0, 1, -1, 2}
          /\ hist[Len(hist)] = ToSeq(Vec(zs, sch))
          /\ \A i \in Idx : (hist[Len(hist)][i] = 0) <=> (i \in zs)
StartsWithZero == \E i \in Idx : hist[1][i] = 0

EndOfBehaviour == Len(hist) = MaxLen => PrintT(<<"BH", ToJson([np |-> NP, h |-> hist])>>)
=============================================================================
