---------------------------- MODULE C12Symmetry ----------------------------
(***************************************************************************)
(* S-part of C12: the first-principles operators and the judging predicates *)
(* of C12Defs are validated on themselves before they judge the code.       *)
(* State = (number of spin-orbitals sn, ordering sutd).                     *)
(*  SpecEigen        N and Sz of the spec pass NumberOK / SzOK              *)
(*  SpecS2Eigen      S+ annihilates every high-spin determinant; every      *)
(*                   lowered function S-^k|C,O> is a non-zero eigenfunction *)
(*                   of S^2 = S-S+ + Sz + Sz^2 with s(s+1), s = |O|/2, and  *)
(*                   of Sz with |O|/2 - k; S^2 commutes with N and Sz       *)
(*  SquarePositive   <D|(Op - v)^2|D> = ||(Op - v) D||^2 >= 0 (Hermiticity: *)
(*                   the penalty is positive "by construction")             *)
(*  FastApplyAgrees  ApplyOpVec = Fock!VApplyOp on sample vectors           *)
(*  Discriminates    the predicates reject operators with one coefficient   *)
(*                   changed                                                *)
(***************************************************************************)
EXTENDS C12Defs

CONSTANT SNs
VARIABLES sn, sutd
SInit == sn \in SNs /\ sutd \in BOOLEAN
SNext == UNCHANGED <<sn, sutd>>

SpecEigen == NumberOK(SpecN(sn), sn) /\ SzOK(SpecSz(sn, sutd), sn, sutd)

VNorm2(v) == FoldSet(LAMBDA D, acc : Add(acc, Abs2(v[D])), RZero, DOMAIN v)

SpecS2Eigen ==
  \A cok \in SpinFunctions(sn) :
     LET hs  == VDet(HighSpinDet(cok[1], cok[2], sn, sutd))
         phi == Lowered(hs, cok[3], sn, sutd)
         m   == Cardinality(cok[2])
     IN /\ ApplyOpVec(SpecSplus(sn, sutd), hs) = VZero
        /\ phi # VZero
        /\ VEq(SpecS2(phi, sn, sutd), VScale(SSPlus1(m), phi))
        /\ VEq(SpecSzApply(phi, sn, sutd), VScale(Dyadic(m - 2 * cok[3], 1), phi))
        /\ VEq(SpecNApply(phi, sn), VScale(FromInt(2 * Cardinality(cok[1]) + m), phi))
S2Commutes ==
  \A D \in Dets(sn) :
     /\ VEq(SpecS2(SpecSzApply(VDet(D), sn, sutd), sn, sutd), SpecSzApply(SpecS2(VDet(D), sn, sutd), sn, sutd))
     /\ VEq(SpecS2(SpecNApply(VDet(D), sn), sn, sutd), SpecNApply(SpecS2(VDet(D), sn, sutd), sn))

Targets == {RZero, FromInt(2), Dyadic(3, 2), Neg(Half(ROne))}
SquarePositive ==
  \A D \in Dets(sn) : \A kind \in {"N", "Sz", "S2"} : \A tv \in Targets :
     LET w1 == VSub(SpecApply(kind, VDet(D), sn, sutd), VScale(tv, VDet(D)))
         sq == SquareApply(kind, tv, VDet(D), sn, sutd)
     IN /\ VCoef(sq, D) = VNorm2(w1)
        /\ IsNonNegReal(VCoef(sq, D))

FastApplyAgrees ==
  \A D \in Dets(sn) :
     LET v == VAdd(VDet(D), VScale(FromInt(2), VDet({})))
     IN /\ VEq(ApplyOpVec(SpecSminus(sn, sutd), v), VApplyOp(SpecSminus(sn, sutd), v))
        /\ VEq(ApplyOpVec(SpecSz(sn, sutd), v), VApplyOp(SpecSz(sn, sutd), v))
        /\ VEq(ApplyOpVec(SpecSplus(sn, sutd), ApplyOpVec(SpecSminus(sn, sutd), v)),
               VApplyOp(SpecSplus(sn, sutd), VApplyOp(SpecSminus(sn, sutd), v)))

Tweaked(op) == TLCEval([j \in 1..Len(op) |-> IF j = 1 THEN [t |-> op[j].t, c |-> Add(op[j].c, Half(ROne))] ELSE op[j]])
Discriminates ==
  /\ ~NumberOK(Tweaked(SpecN(sn)), sn)
  /\ ~SzOK(Tweaked(SpecSz(sn, sutd)), sn, sutd)
  /\ ~SzOK(SpecSz(sn, ~sutd), sn, sutd) \/ sn = 2      \* the other ordering is a different operator (n > 2)
  /\ ~S2OK(SpecN(sn), sn, sutd)
  /\ ~PenaltyOK(SpecN(sn), << [kind |-> "N", mu |-> ROne, v |-> ROne] >>, sn, sutd)
  /\ ~CommutesOn(SpecN(sn), SpecSplus(sn, sutd) \o << [t |-> << <<0, 1>> >>, c |-> ROne] >>, sn)
  /\ CommutesOn(SpecN(sn), SpecSplus(sn, sutd), sn)

\* block condition on a two-qubit example: G = (X0 Y1 - Y0 X1)/2 commutes with N = 1 - (Z0 + Z1)/2
BlockSelfCheck ==
  LET XY == <<1, 2>>
      YX == <<2, 1>>
      ZI == <<3, 0>>
      IZ == <<0, 3>>
      h  == Half(ROne)
      NN == OpFromTerms(<< [w |-> <<0, 0>>, c |-> ROne], [w |-> ZI, c |-> Neg(h)], [w |-> IZ, c |-> Neg(h)] >>)
      c1(p, z) == << [p |-> p, c |-> z] >>
  IN /\ BlockCondition(<<XY, YX>>, <<c1(0, h), c1(0, Neg(h))>>, <<NN>>, 2)
     /\ ~BlockCondition(<<XY, YX>>, <<c1(0, h), c1(0, h)>>, <<NN>>, 2)                      \* X0Y1 + Y0X1 does not conserve N
     /\ ~BlockCondition(<<XY, YX>>, <<c1(0, h), c1(1, Neg(h))>>, <<NN>>, 2)                 \* independent angles
     /\ ~BlockCondition(<<XY, ZI, YX>>, <<c1(0, h), c1(1, h), c1(0, Neg(h))>>, <<NN>>, 2)   \* separated by a non-commuting word
     /\ BlockCondition(<<ZI, XY, YX, IZ>>, <<c1(1, h), c1(0, h), c1(0, Neg(h)), c1(1, h)>>, <<NN>>, 2)
=============================================================================
