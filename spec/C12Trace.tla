------------------------------ MODULE C12Trace ------------------------------
(***************************************************************************)
(* V-part of C12: artefacts recorded from the implementation, judged by     *)
(* the predicates of C12Defs.  Record kinds (field k):                      *)
(*  N, Sz, S2  f = number_operator / spinz_operator / spin2_operator        *)
(*  pen        f = a penalty operator, parts = <<[kind, mu, v], ...>>       *)
(*  comm       op, ham: [op, ham] D = 0 on every determinant                *)
(*  encpen     iP = Enc(P), imgs = <<[mu, v, op = Enc(Op)], ...>>           *)
(*  encdet     iP applied to the encoded determinant x (bits recorded from  *)
(*             get_mapped_vector) gives the penalty value of the            *)
(*             determinant occ (diagonal penalties)                         *)
(*  fockgen    a FERMIONIC generator (element of an operator pool, row of an *)
(*             excitation table) commutes with the first-principles N, Sz   *)
(*             (and S^2 where listed in kinds) on every determinant         *)
(*  gen        generator G of one ansatz parameter commutes with every      *)
(*             recorded symmetry image in S                                 *)
(*  block      block condition on the word order of a built circuit         *)
(*             (sufficient, not necessary: failure is NOT a violation, the  *)
(*             harness then relies on the exact circuit evaluation)         *)
(*  circ       the state prepared by the recorded gate list (exact ring     *)
(*             evaluation) is an eigenvector of every symmetry image in S   *)
(*             with the recorded reference eigenvalue                       *)
(*  cliff      like circ, for circuits at Clifford-point angles (8 qubits):  *)
(*             stabiliser engine (spec/Clifford.tla, Heisenberg pull-back   *)
(*             of every Pauli word): <S> = v and <(S - v)^2> = 0 for every  *)
(*             symmetry image S (for Hermitian S this IS "eigenvector with  *)
(*             eigenvalue v": <(S-v)^2> = ||(S-v) psi||^2)                   *)
(*  circ / cliff records come from fresh builds AND from parameter          *)
(*  histories (C12History.tla: build, then update_var_params), where the    *)
(*  FINAL circuit of the object is judged.                                  *)
(***************************************************************************)
EXTENDS C12Defs, Clifford, Json, IOUtils

Jobs == JsonDeserialize(IOEnv.VERIF_JOBS)
VARIABLE i

Q(terms) == OpFromTerms(terms)
OccSet(occ) == {p \in 0..(Len(occ) - 1) : occ[p + 1] = 1}
BitsIndex(bits, n) == SumSeq(TLCEval([q \in 1..n |-> bits[q] * Pow2(n - q)]), n)
ScaleVec(z, psi, d) == TLCEval([x \in 1..d |-> Mul(z, psi[x])])

Verdict(j) ==
  CASE j.k = "N"  -> IF NumberOK(j.f, j.n) THEN "ok" ELSE "number-operator-wrong"
    [] j.k = "Sz" -> IF SzOK(j.f, j.n, j.utd) THEN "ok" ELSE "spinz-operator-wrong"
    [] j.k = "S2" -> IF S2OK(j.f, j.n, j.utd) THEN "ok" ELSE "spin2-operator-wrong"
    [] j.k = "pen" -> IF ~PenaltyOK(j.f, j.parts, j.n, j.utd) THEN "penalty-not-the-square"
                      ELSE IF ~PenaltyValueOK(j.f, j.parts, j.n, j.utd) THEN "penalty-sector-wrong" ELSE "ok"
    [] j.k = "comm" -> IF CommutesOn(j.op, j.ham, j.n) THEN "ok" ELSE "does-not-commute"
    [] j.k = "encpen" ->
         IF EncPenaltyOK(Q(j.iP), TLCEval([x \in 1..Len(j.imgs) |-> [mu |-> j.imgs[x].mu, v |-> j.imgs[x].v, op |-> Q(j.imgs[x].op)]]), j.nq)
         THEN "ok" ELSE "encoded-penalty-not-the-square"
    [] j.k = "encdet" ->
         LET iP == Q(j.iP)
         IN IF \A a \in 1..Len(j.dets) :
                 LET x0  == BitsIndex(j.dets[a].x, j.nq)
                     val == PenaltyValueFrom(j.parts, OccSet(j.dets[a].occ), j.n, j.utd, Len(j.parts))
                 IN ApplyOp(iP, Basis(x0, j.nq), j.nq) = ScaleVec(val, Basis(x0, j.nq), Dim(j.nq))
            THEN "ok" ELSE "encoded-penalty-value-wrong"
    [] j.k = "fockgen" -> IF FockGeneratorConserves(j.f, {j.kinds[x] : x \in 1..Len(j.kinds)}, j.n, j.utd) THEN "ok"
                          ELSE IF ~FockGeneratorConserves(j.f, {"N"}, j.n, j.utd) THEN "generator-changes-N"
                          ELSE IF ~FockGeneratorConserves(j.f, {"Sz"}, j.n, j.utd) THEN "generator-changes-Sz"
                          ELSE "generator-changes-S2"
    [] j.k = "gen" -> IF \A s \in 1..Len(j.S) : GeneratorCommutes(Q(j.G), Q(j.S[s].op), j.nq) THEN "ok" ELSE "generator-does-not-commute"
    [] j.k = "block" -> IF BlockCondition(j.words, j.cw, TLCEval([s \in 1..Len(j.S) |-> Q(j.S[s].op)]), j.nq)
                        THEN "ok" ELSE "block-condition-fails"
    [] j.k = "circ" ->
         IF ~(\A g \in {j.gates[x] : x \in 1..Len(j.gates)} : WellFormed(g, j.nq)) THEN "malformed-gate"
         ELSE LET psi == Run(ZeroState(j.nq), j.gates, j.nq)
              IN IF \A s \in 1..Len(j.S) : ApplyOp(Q(j.S[s].op), psi, j.nq) = ScaleVec(j.S[s].v, psi, Dim(j.nq))
                 THEN "ok" ELSE "state-leaves-the-symmetry-sector"
    [] j.k = "cliff" ->
         IF ~(\A g \in {j.gates[x] : x \in 1..Len(j.gates)} : WellFormed(g, j.nq)) THEN "malformed-gate"
         ELSE IF ~AllClifford(j.gates) THEN "off-carrier"
         ELSE LET rev == Reverse(DecomposeAll(j.gates))
                  EZ(w) == LET r == FoldLeft(LAMBDA acc, e : ConjE(acc, InvE(e)), Signed(w), rev)
                           IN IF \E q \in 1..j.nq : r.w[q] \in {1, 2} THEN RZero ELSE IF r.s = 0 THEN ROne ELSE Neg(ROne)
                  EX(A) == FoldSet(LAMBDA w, acc : Add(acc, Mul(A[w], EZ(w))), RZero, DOMAIN A)
              IN IF \A s \in 1..Len(j.S) :
                      LET A  == Q(j.S[s].op)
                          sh == OpSub(A, OpScale(j.S[s].v, OpIdentity(j.nq)))
                      IN EX(A) = j.S[s].v /\ EX(OpMul(sh, sh, j.nq)) = RZero
                 THEN "ok" ELSE "state-leaves-the-symmetry-sector"
    [] OTHER -> "malformed"

JInit == i \in 1..Len(Jobs)
JNext == i > 0 /\ PrintT(<<"V", Jobs[i].id, Verdict(Jobs[i])>>) /\ i' = 0
=============================================================================
