------------------------------ MODULE C13Defs ------------------------------
(***************************************************************************)
(* C13 - reduced density matrices reproduce energies and electron counts.   *)
(*                                                                         *)
(* First-principles definitions (Fock.tla), in the index order documented   *)
(* by the code (rdms.py / molecule.energy_from_rdms, pyscf's convention):   *)
(*   spin orbital P = 2 p + s   (s = 0 alpha, 1 beta; openfermion order)    *)
(*   Rdm1SO[P,Q]     = <psi| a+_P a_Q |psi>                                  *)
(*   Rdm2SO[P,Q,R,S] = <psi| a+_P a+_R a_S a_Q |psi>                         *)
(*   spin summed:  Rdm1[p,q]     = SUM_s   Rdm1SO[ps, qs]                    *)
(*                 Rdm2[p,q,r,s] = SUM_s,t Rdm2SO[ps, qs, rt, st]            *)
(*   spin resolved (unrestricted): (Rdm1 alpha, beta), (Rdm2 aa, ab, bb)     *)
(*                 Rdm2ab[p,q,r,s] = <a+_{p alpha} a+_{r beta} a_{s beta} a_{q alpha}> *)
(*   energy:  E = core + SUM h[p,q] Rdm1[p,q] + 1/2 SUM (pq|rs) Rdm2[p,q,r,s] *)
(* States are Fock vectors (function determinant |-> ring element), not     *)
(* necessarily normalised: every value is returned together with <psi|psi>. *)
(*                                                                         *)
(* Product state with a frozen core (padding):                              *)
(*   Psi = psi_act(a+) |core>,  psi_act(a+) = SUM_D c_D PROD_{m in D, incr} a+_{emb(m)} *)
(* with the canonical sign rules of Fock.tla (no sign is assumed).          *)
(***************************************************************************)
EXTENDS C08Defs

\* ---- Fock vectors ------------------------------------------------------------------------------
VInner(u, v) == FoldSet(LAMBDA D, acc : Add(acc, Mul(Conj(u[D]), VCoef(v, D))), RZero, DOMAIN u)
VNorm2(v)    == VInner(v, v)
ExpectTerm(t, v) == VInner(v, VApplyTerm(t, ROne, v))

SOm(p, s) == 2 * p + s
T1(P, Q)       == << <<P, 1>>, <<Q, 0>> >>
T2(P, Q, R, S) == << <<P, 1>>, <<R, 1>>, <<S, 0>>, <<Q, 0>> >>

\* spin-orbital RDM entries
Rdm1SO(v, P, Q)       == ExpectTerm(T1(P, Q), v)
Rdm2SO(v, P, Q, R, S) == ExpectTerm(T2(P, Q, R, S), v)

\* spin-summed entries over spatial orbitals
Rdm1E(v, p, q) == Add(Rdm1SO(v, SOm(p, 0), SOm(q, 0)), Rdm1SO(v, SOm(p, 1), SOm(q, 1)))
Rdm2E(v, p, q, r, s) ==
  Add(Add(Rdm2SO(v, SOm(p, 0), SOm(q, 0), SOm(r, 0), SOm(s, 0)), Rdm2SO(v, SOm(p, 0), SOm(q, 0), SOm(r, 1), SOm(s, 1))),
      Add(Rdm2SO(v, SOm(p, 1), SOm(q, 1), SOm(r, 0), SOm(s, 0)), Rdm2SO(v, SOm(p, 1), SOm(q, 1), SOm(r, 1), SOm(s, 1))))
\* spin-resolved entries: s1 = spin of the (p,q) pair, s2 = spin of the (r,s) pair
Rdm1S(v, p, q, s1) == Rdm1SO(v, SOm(p, s1), SOm(q, s1))
Rdm2S(v, p, q, r, s, s1, s2) == Rdm2SO(v, SOm(p, s1), SOm(q, s1), SOm(r, s2), SOm(s, s2))

\* tensors as nested sequences over orbitals 0..n-1 (index + 1)
Tensor2(n, f(_, _)) == TLCEval([p \in 1..n |-> TLCEval([q \in 1..n |-> f(p - 1, q - 1)])])
Tensor4(n, f(_, _, _, _)) ==
  TLCEval([p \in 1..n |-> TLCEval([q \in 1..n |-> TLCEval([r \in 1..n |-> TLCEval([s \in 1..n |-> f(p - 1, q - 1, r - 1, s - 1)])])])])

Rdm1Sum(v, n) == Tensor2(n, LAMBDA p, q : Rdm1E(v, p, q))
Rdm2Sum(v, n) == Tensor4(n, LAMBDA p, q, r, s : Rdm2E(v, p, q, r, s))
Rdm1Spin(v, n, s1) == Tensor2(n, LAMBDA p, q : Rdm1S(v, p, q, s1))
Rdm2Spin(v, n, s1, s2) == Tensor4(n, LAMBDA p, q, r, s : Rdm2S(v, p, q, r, s, s1, s2))
\* full spin-orbital tensors (VQE, sum_spin = False): indices are spin orbitals 0..2n-1
Rdm1Full(v, nso) == Tensor2(nso, LAMBDA P, Q : Rdm1SO(v, P, Q))
Rdm2Full(v, nso) == Tensor4(nso, LAMBDA P, Q, R, S : Rdm2SO(v, P, Q, R, S))

\* contractions with integer integrals (h[p][q], eri[p][q][r][s] = (pq|rs))
Dot2(h, g, n) == FoldSet(LAMBDA pq, acc : Add(acc, Mul(FromInt(h[pq[1]][pq[2]]), g[pq[1]][pq[2]])), RZero, (1..n) \X (1..n))
Dot4(e, GG, n) == FoldSet(LAMBDA x, acc : IF e[x[1]][x[2]][x[3]][x[4]] = 0 THEN acc
                                           ELSE Add(acc, Mul(FromInt(e[x[1]][x[2]][x[3]][x[4]]), GG[x[1]][x[2]][x[3]][x[4]])),
                         RZero, (1..n) \X (1..n) \X (1..n) \X (1..n))
Trace2(g, n) == FoldSet(LAMBDA p, acc : Add(acc, g[p][p]), RZero, 1..n)

\* restricted energy numerator: core <psi|psi> + h.Rdm1 + 1/2 eri.Rdm2
EnergyR(core, h, eri, g1, g2, nrm, n) ==
  Add(Mul(FromInt(core), nrm), Add(Dot2(h, g1, n), Half(Dot4(eri, g2, n))))
\* unrestricted: h = <<ha, hb>>, eri = <<aa, ab, bb>>, g1 = <<a, b>>, g2 = <<aa, ab, bb>>
EnergyU(core, h, eri, g1, g2, nrm, n) ==
  Add(Mul(FromInt(core), nrm),
      Add(Add(Dot2(h[1], g1[1], n), Dot2(h[2], g1[2], n)),
          Add(Half(Dot4(eri[1], g2[1], n)), Add(Dot4(eri[2], g2[2], n), Half(Dot4(eri[3], g2[3], n))))))

\* ---- Jordan-Wigner statevector -> Fock vector (VQE states) -----------------------------------------
\* Under JW the fermionic mode of spin orbital P is the qubit QubitOf(P): alternating (q = P) or
\* all-up-then-all-down (q = P div 2 + (P mod 2) * nso/2; the code relabels the modes, then applies JW).
QubitOf(P, nso, utd) == IF utd THEN (P \div 2) + (P % 2) * (nso \div 2) ELSE P
\* Fock vector over the qubit-labelled modes: the JW basis state |x> is the canonical determinant {q : x_q = 1}
JWFock(psi, nso) ==
  LET S == {D \in SUBSET (0..(nso - 1)) : psi[DetIndex(D, nso) + 1] # RZero}
  IN TLCEval([D \in S |-> psi[DetIndex(D, nso) + 1]])
\* a fermionic term over spin-orbital labels relabelled to qubit modes
Relabel(t, nso, utd) == TLCEval([k \in 1..Len(t) |-> <<QubitOf(t[k][1], nso, utd), t[k][2]>>])

\* ---- product state with a frozen core --------------------------------------------------------------
\* embedding of active spin orbital 2a+s (a = position in the active list, 0-based) into the full space
\* act[s+1] = sequence of active orbitals of spin s (restricted: the same list twice)
Emb(m, act) == SOm(act[(m % 2) + 1][(m \div 2) + 1], m % 2)
CreateSeq(D, act) == LET sq == SetToSortSeq(D, LAMBDA a, b : a < b) IN TLCEval([k \in 1..Len(sq) |-> <<Emb(sq[k], act), 1>>])
\* core: set of frozen occupied spin orbitals of the full space
ProductState(vact, act, core) ==
  LET img == {ApplyTerm(CreateSeq(D, act), core).d : D \in DOMAIN vact}
  IN TLCEval([X \in img |->
       FoldSet(LAMBDA D, acc : LET r == ApplyTerm(CreateSeq(D, act), core) IN
                 IF r.z \/ r.d # X THEN acc ELSE Add(acc, IF r.s = 1 THEN vact[D] ELSE Neg(vact[D])),
               RZero, DOMAIN vact)])
=============================================================================
