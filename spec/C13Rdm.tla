------------------------------- MODULE C13Rdm -------------------------------
(***************************************************************************)
(* C13 (ii) - padding active-space RDMs with the frozen orbitals, EXACT.    *)
(*                                                                         *)
(* State space: a molecule shape (number of orbitals, occupations, frozen   *)
(* occupied / frozen virtual / active orbital lists, restricted or          *)
(* unrestricted, integer integrals; supplied by the harness through         *)
(* VERIF_SHAPES) and an integer-amplitude active-space state (one amplitude *)
(* in Amps per determinant of the active sector, not all zero).  TLC        *)
(* enumerates the states (or samples them), computes from first principles  *)
(* (Fock.tla) the RDMs of the active-space state and of the product state   *)
(* with the frozen core, checks the textbook product-state identities (S)   *)
(* and exports everything; the harness feeds the exact active RDMs to       *)
(* pad_rdms_with_frozen_orbitals_restricted/_unrestricted and compares the  *)
(* output with the exact full-space RDMs (G).                                *)
(***************************************************************************)
EXTENDS C13Defs

CONSTANTS Amps,       \* set of integer amplitudes, e.g. {-1, 0, 1}
          MaxDets,    \* at most this many determinants of the sector carry an amplitude (others 0)
          Export

Shapes == JsonDeserialize(IOEnv.VERIF_SHAPES)

AmpsSmall == {-1, 0, 1}
AmpsWide  == {-2, -1, 0, 1, 3}

VARIABLES sh, amp

\* active sector of a shape: determinants over active spin orbitals 2a+s with the shape's (n_alpha, n_beta)
NActA(S) == Len(S.act[1])
NActB(S) == Len(S.act[2])
ActModes(S) == {2 * a : a \in 0..(NActA(S) - 1)} \cup {2 * a + 1 : a \in 0..(NActB(S) - 1)}
SectorOf(S) == {D \in SUBSET ActModes(S) : Cardinality({m \in D : m % 2 = 0}) = S.nalpha /\ Cardinality({m \in D : m % 2 = 1}) = S.nbeta}
\* a deterministic choice of at most MaxDets determinants of the sector
RECURSIVE TakeN(_, _)
TakeN(T, k) == IF k = 0 \/ T = {} THEN {} ELSE LET x == CHOOSE y \in T : TRUE IN {x} \cup TakeN(T \ {x}, k - 1)
\* (a shape may lower the support size: maxd; keeps the large high-spin shapes cheap)
SupportOf(S) == TakeN(SectorOf(S), IF S.maxd < MaxDets THEN S.maxd ELSE MaxDets)

Init == /\ sh \in 1..Len(Shapes)
        /\ amp \in {f \in [SupportOf(Shapes[sh]) -> Amps] : \E D \in SupportOf(Shapes[sh]) : f[D] # 0}
Next == UNCHANGED <<sh, amp>>

S0 == Shapes[sh]
VAct == VClean(TLCEval([D \in DOMAIN amp |-> FromInt(amp[D])]))
CoreSet == {2 * f : f \in {S0.focc[1][k] : k \in 1..Len(S0.focc[1])}} \cup {2 * f + 1 : f \in {S0.focc[2][k] : k \in 1..Len(S0.focc[2])}}
VFull == ProductState(VAct, S0.act, CoreSet)
NormA == VNorm2(VAct)

\* ---- S: properties of the specification's own product state ---------------------------------------
NormPreserved == VNorm2(VFull) = NormA
NAct  == S0.nalpha + S0.nbeta
NCore == Cardinality(CoreSet)
TraceAct  == Trace2(Rdm1Sum(VAct, NActA(S0)), NActA(S0)) = Mul(FromInt(NAct), NormA)
TraceFull == Trace2(Rdm1Sum(VFull, S0.nmos), S0.nmos) = Mul(FromInt(NAct + NCore), NormA)
\* restricted shapes (same active list for both spins, doubly occupied core): textbook identities of
\*   Psi = core (x) psi_act :  G[i,i,p,q] = 2 g[p,q],  G[i,q,p,i] = -g[p,q],  active block = active RDM,
\*   core-core G[i,i,j,j] = 4 - 2 [i=j],  G[i,j,j,i] = -2 (i # j),  frozen virtual rows vanish
ProductIdentities ==
  S0.uhf \/
  LET n  == S0.nmos
      na == NActA(S0)
      g1 == Rdm1Sum(VAct, na)
      g2 == Rdm2Sum(VAct, na)
      G1 == Rdm1Sum(VFull, n)
      G2 == Rdm2Sum(VFull, n)
      A(a) == S0.act[1][a] + 1             \* full index (1-based) of active position a (1-based)
      core == {S0.focc[1][k] + 1 : k \in 1..Len(S0.focc[1])}
      virt == {S0.fvirt[1][k] + 1 : k \in 1..Len(S0.fvirt[1])}
      two == FromInt(2)
  IN /\ \A a, b \in 1..na : G1[A(a)][A(b)] = g1[a][b]
     /\ \A a, b, c, d \in 1..na : G2[A(a)][A(b)][A(c)][A(d)] = g2[a][b][c][d]
     /\ \A ii \in core : /\ G1[ii][ii] = Mul(two, NormA)
                         /\ \A a, b \in 1..na : /\ G2[ii][ii][A(a)][A(b)] = Mul(two, g1[a][b])
                                                /\ G2[A(a)][A(b)][ii][ii] = Mul(two, g1[a][b])
                                                /\ G2[ii][A(b)][A(a)][ii] = Neg(g1[a][b])
                                                /\ G2[A(a)][ii][ii][A(b)] = Neg(g1[a][b])
                         /\ \A jj \in core : /\ G2[ii][ii][jj][jj] = Mul(FromInt(IF ii = jj THEN 2 ELSE 4), NormA)
                                             /\ (ii # jj => G2[ii][jj][jj][ii] = Mul(FromInt(-2), NormA))
     /\ \A vv \in virt : \A x \in 1..n : G1[vv][x] = RZero /\ G1[x][vv] = RZero
                                          /\ \A y, z \in 1..n : G2[vv][x][y][z] = RZero /\ G2[x][y][z][vv] = RZero
Hermitian ==
  LET n == S0.nmos
      G1 == Rdm1Sum(VFull, n)
      G2 == Rdm2Sum(VFull, n)
  IN /\ \A p, q \in 1..n : G1[p][q] = Conj(G1[q][p])
     /\ \A p, q, r, s \in 1..n : G2[p][q][r][s] = Conj(G2[q][p][s][r]) /\ G2[p][q][r][s] = G2[r][s][p][q]

\* ---- G: export ------------------------------------------------------------------------------------------
\* integrals travel in the shape record (h, eri / ha, hb, eaa, eab, ebb, core)
StateSeq == SetToSeqOf(DOMAIN amp, LAMBDA D : [d |-> SetToSortSeq(D, LAMBDA a, b : a < b), a |-> amp[D]])
Record ==
  IF S0.uhf
  THEN LET na == NActA(S0)
           n  == S0.nmos
           g1 == <<Rdm1Spin(VAct, na, 0), Rdm1Spin(VAct, na, 1)>>
           g2 == <<Rdm2Spin(VAct, na, 0, 0), Rdm2Spin(VAct, na, 0, 1), Rdm2Spin(VAct, na, 1, 1)>>
           G1 == <<Rdm1Spin(VFull, n, 0), Rdm1Spin(VFull, n, 1)>>
           G2 == <<Rdm2Spin(VFull, n, 0, 0), Rdm2Spin(VFull, n, 0, 1), Rdm2Spin(VFull, n, 1, 1)>>
       IN [shape |-> sh, state |-> StateSeq, nrm |-> NormA, a1 |-> g1, a2 |-> g2, f1 |-> G1, f2 |-> G2,
           efull |-> EnergyU(S0.core, <<S0.ha, S0.hb>>, <<S0.eaa, S0.eab, S0.ebb>>, G1, G2, NormA, n),
           ntot |-> NAct + NCore, nact |-> NAct]
  ELSE LET na == NActA(S0)
           n  == S0.nmos
           g1 == Rdm1Sum(VAct, na)
           g2 == Rdm2Sum(VAct, na)
           G1 == Rdm1Sum(VFull, n)
           G2 == Rdm2Sum(VFull, n)
       IN [shape |-> sh, state |-> StateSeq, nrm |-> NormA, a1 |-> g1, a2 |-> g2, f1 |-> G1, f2 |-> G2,
           efull |-> EnergyR(S0.core, S0.h, S0.eri, G1, G2, NormA, n),
           ntot |-> NAct + NCore, nact |-> NAct]

Exported == Export => PrintT(<<"PAD", ToJson(Record)>>)
=============================================================================
