--------------------------- MODULE C13RdmHistory ---------------------------
(***************************************************************************)
(* C13 - get_rdm / get_rdm_uhf as a first-class action of the solver's      *)
(* state machine (twin of C08VqeEnergy.tla, seen from the RDM side).        *)
(*                                                                         *)
(* Abstract state of a built VQESolver: cur = index of the parameter vector *)
(* last loaded into the ansatz circuit (0 = the initial parameters), opt =  *)
(* index of the vector stored by the last simulate() (0 = none).  Actions:  *)
(*   Energy(t)    energy_estimation(theta_t)                                 *)
(*   OpExp(t)     operator_expectation("S^2", theta_t)                       *)
(*   Simulate(t)  simulate() with the trivial optimiser returning theta_t    *)
(*   Rdm(t)       get_rdm(theta_t) (spin-summed and spin-resolved) or        *)
(*                get_rdm_uhf(theta_t)                                        *)
(* CONTRACT: the RDMs returned by Rdm(t) are a function of t only - after   *)
(* ANY history they are the RDMs of the state prepared with theta_t (the    *)
(* exact tensors computed by C13Trace for theta_t), whatever cur and opt    *)
(* are: in particular for t = opt (the stored optimal vector) after other   *)
(* vectors were evaluated, for t = cur and for a third vector.              *)
(* TLC enumerates every history of MaxDepth calls that ends with Rdm; with  *)
(* Canonical = TRUE only histories whose parameter indices appear in order  *)
(* of first use (1, then 2, then 3) are kept: the vectors are               *)
(* interchangeable, so this loses no call pattern.  The invariant           *)
(* AllRelationsCovered (checked on the set of exported histories by the     *)
(* harness: vacuity control) demands that Rdm(t) is asked with t = opt #    *)
(* cur, t = cur, and t different from both.                                  *)
(***************************************************************************)
EXTENDS Integers, Sequences, FiniteSets, TLC, Json

CONSTANTS NTheta, MaxDepth, Canonical, Export

VARIABLES cur, opt, hist
vars == <<cur, opt, hist>>

Thetas == 1..NTheta
\* rel: relation of the requested vector to the abstract state BEFORE the call
Rel(t) == [isopt |-> (opt # 0 /\ t = opt), iscur |-> (cur # 0 /\ t = cur)]
Call(kind, t) == [kind |-> kind, t |-> t, isopt |-> Rel(t).isopt, iscur |-> Rel(t).iscur, cur |-> cur, opt |-> opt]

UsedThetas == {hist[x].t : x \in 1..Len(hist)}
\* parameter indices appear in order of first use
InOrder(t) == ~Canonical \/ t \in UsedThetas \/ t = Cardinality(UsedThetas) + 1

Init == cur = 0 /\ opt = 0 /\ hist = <<>>

Do(c, newopt) ==
  /\ Len(hist) < MaxDepth
  /\ InOrder(c.t)
  /\ (Len(hist) = MaxDepth - 1 => c.kind = "rdm")          \* every exported history ends with the judged call
  /\ cur' = c.t
  /\ opt' = newopt
  /\ hist' = Append(hist, c)
  /\ (Export /\ Len(hist') = MaxDepth => PrintT(<<"RH", ToJson(hist')>>))

Energy(t)   == Do(Call("energy", t), opt)
OpExp(t)    == Do(Call("opexp", t), opt)
Simulate(t) == Do(Call("simulate", t), t)
Rdm(t)      == Do(Call("rdm", t), opt)

Next == \E t \in Thetas : Energy(t) \/ OpExp(t) \/ Simulate(t) \/ Rdm(t)
Spec == Init /\ [][Next]_vars

TypeOK == cur \in 0..NTheta /\ opt \in 0..NTheta /\ Len(hist) <= MaxDepth
CurIsLast == hist # <<>> => cur = hist[Len(hist)].t
OptIsLastSim == LET sims == {x \in 1..Len(hist) : hist[x].kind = "simulate"} IN
                IF sims = {} THEN opt = 0 ELSE opt = hist[CHOOSE x \in sims : \A y \in sims : y <= x].t
\* the recorded relation flags are those of the state before the call
FlagsConsistent == \A x \in 1..Len(hist) :
   /\ hist[x].cur = (IF x = 1 THEN 0 ELSE hist[x - 1].t)
   /\ hist[x].iscur = (hist[x].cur # 0 /\ hist[x].t = hist[x].cur)
=============================================================================
