------------------------------ MODULE C13Trace ------------------------------
(***************************************************************************)
(* V-part of C13.  Job kinds:                                               *)
(*  "vqe"   the state-preparation circuit recorded from VQESolver.get_rdm    *)
(*          (gates, n, engine) + the keys of the fermionic Hamiltonian       *)
(*          (terms; the code measures exactly those) + their encodings       *)
(*          (enc[j] = <<[k, c]>>: term j = SUM c * words[k], produced by the *)
(*          C03-validated encoding).  TLC returns the exact value of every   *)
(*          <psi| term |psi> - for Jordan-Wigner (jw = TRUE, ring engine)    *)
(*          ALSO from first principles (Fock.tla, no encoding involved) and  *)
(*          the two must agree - and places them into the tensors with the   *)
(*          index rule of C13Defs: term a+_P a_Q -> Rdm1[P,Q],               *)
(*          a+_P a+_R a_S a_Q -> Rdm2[P,Q,R,S]; spin-summed tensors by the   *)
(*          definition of C13Defs restricted to the measured terms.          *)
(*  "scalars" recorded scalars of a classical solver (FCI/CCSD/MP2) in fixed *)
(*          point: OBSERVATIONAL invariants |E_rdm - E_solver| <= tol,       *)
(*          tr(gamma) = N, ||gamma - gamma^T|| <= tol (no independent oracle)*)
(***************************************************************************)
EXTENDS C13Defs

Jobs == JsonDeserialize(IOEnv.VERIF_JOBS)
VARIABLE i

\* ---- "vqe" ---------------------------------------------------------------------------------------
EncValue(enc, e) == FoldLeft(LAMBDA acc, kc : Add(acc, Mul(kc.c, e[kc.k])), RZero, enc)

IsOneBody(t) == Len(t) = 2 /\ t[1][2] = 1 /\ t[2][2] = 0
IsTwoBody(t) == Len(t) = 4 /\ t[1][2] = 1 /\ t[2][2] = 1 /\ t[3][2] = 0 /\ t[4][2] = 0
\* index of the tensor entry a term contributes to (C13Defs: T1(P,Q) = P+ Q ; T2(P,Q,R,S) = P+ R+ S Q)
Idx1(t) == <<t[1][1], t[2][1]>>
Idx2(t) == <<t[1][1], t[4][1], t[2][1], t[3][1]>>

VqeEval(j) ==
  LET n    == j.n
      ctx  == Ctx(j.engine, j.gates, n)
      nrm  == IF j.engine = "ring" THEN Norm2(ctx, Dim(n)) ELSE ROne
      e    == EvalWords(j.engine, ctx, j.words, n)
      venc == TLCEval([x \in 1..Len(j.terms) |-> EncValue(j.enc[x], e)])
      fock == IF j.jw /\ j.engine = "ring" THEN JWFock(ctx, n) ELSE <<>>
      vfp  == IF j.jw /\ j.engine = "ring"
              THEN TLCEval([x \in 1..Len(j.terms) |-> ExpectTerm(Relabel(j.terms[x], n, j.utd), fock)])
              ELSE venc
      one  == {x \in 1..Len(j.terms) : IsOneBody(j.terms[x])}
      two  == {x \in 1..Len(j.terms) : IsTwoBody(j.terms[x])}
      nmo  == j.nso \div 2
      \* spin-summed tensors restricted to the measured terms
      s1   == Tensor2(nmo, LAMBDA p, q :
                FoldSet(LAMBDA x, acc : LET ix == Idx1(j.terms[x]) IN
                          IF ix[1] \div 2 = p /\ ix[2] \div 2 = q THEN Add(acc, vfp[x]) ELSE acc, RZero, one))
      s2   == Tensor4(nmo, LAMBDA p, q, r, s :
                FoldSet(LAMBDA x, acc : LET ix == Idx2(j.terms[x]) IN
                          IF ix[1] \div 2 = p /\ ix[2] \div 2 = q /\ ix[3] \div 2 = r /\ ix[4] \div 2 = s THEN Add(acc, vfp[x]) ELSE acc,
                        RZero, two))
  IN [id |-> j.id, nrm |-> nrm, e |-> e, vals |-> vfp, agree |-> (vfp = venc),
      idx |-> TLCEval([x \in 1..Len(j.terms) |-> IF x \in one THEN Idx1(j.terms[x]) ELSE IF x \in two THEN Idx2(j.terms[x]) ELSE <<>>]),
      sum1 |-> s1, sum2 |-> s2]

VqePremise(j) ==
  IF ~AllWellFormed(j.gates, j.n) THEN "malformed-gate"
  ELSE IF j.engine = "cliff" /\ ~AllClifford(j.gates) THEN "not-clifford"
  ELSE IF \E x \in 1..Len(j.words) : Len(j.words[x]) # j.n THEN "malformed-word"
  ELSE IF Len(j.enc) # Len(j.terms) THEN "malformed-enc"
  ELSE IF \E x \in 1..Len(j.terms) : ~(IsOneBody(j.terms[x]) \/ IsTwoBody(j.terms[x])) THEN "unexpected-term-shape"
  ELSE "ok"

VqeVerdict(j, r) ==
  IF r.nrm # ROne THEN "not-normalised"
  ELSE IF ~r.agree THEN "encoding-disagrees-with-first-principles"
  ELSE "ok"

\* ---- "scalars" (observational) ---------------------------------------------------------------------
\* energies as <<hi, lo>>: E = hi * 10^-4 + lo * 10^-10 ; all other scalars in units of 10^-8
EDiff(a, b) == IF a[1] - b[1] > 1000 \/ b[1] - a[1] > 1000 THEN 2000000000 ELSE (a[1] - b[1]) * 1000000 + (a[2] - b[2])
AbsI(x) == IF x < 0 THEN -x ELSE x
ScalarVerdict(j) ==
  IF AbsI(EDiff(j.e_rdm, j.e_solver)) > j.tol_e THEN "energy-from-rdms-differs-from-solver-energy"
  ELSE IF AbsI(j.trace - j.nelec) > j.tol THEN "trace-is-not-electron-count"
  ELSE IF j.herm1 > j.tol \/ j.herm2 > j.tol THEN "not-hermitian"
  ELSE "ok"

Judge(j) ==
  IF j.kind = "scalars" THEN PrintT(<<"V", j.id, ScalarVerdict(j)>>)
  ELSE LET p == VqePremise(j) IN
       IF p # "ok" THEN PrintT(<<"V", j.id, p>>)
       ELSE LET r == VqeEval(j) IN
            /\ PrintT(<<"R", ToJson(r)>>)
            /\ PrintT(<<"V", j.id, VqeVerdict(j, r)>>)

JInit == i \in 1..Len(Jobs)
JNext == i > 0 /\ Judge(Jobs[i]) /\ i' = 0
=============================================================================
