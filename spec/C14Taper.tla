------------------------------- MODULE C14Taper -------------------------------
(***************************************************************************)
(* C14 (tapering) - certificate form of "Z2 tapering returns an operator   *)
(* on fewer qubits whose every eigenvalue is an eigenvalue of the original  *)
(* and which retains the lowest eigenvalue of the target sector".           *)
(*                                                                         *)
(* No eigenvalue is computed.  From the artefacts the code produced         *)
(*   H     the Hamiltonian (n qubits, dyadic coefficients)                  *)
(*   S     symmetry generators (Pauli words; the kernel)                    *)
(*   q, sg single-qubit Paulis sigma_i = letter sg[i] on qubit q[i]         *)
(*   U     the Clifford operator (product of (sigma_i + S_i)/sqrt 2)        *)
(*   eps   sector eigenvalues (+1 / -1)                                     *)
(*   T     the tapered operator (n - k qubits)                              *)
(*   X, TX another operator tapered with the same function (z2_tapering)    *)
(*   W     the code's encoding of the parities 1 - 2 n_p as signed words    *)
(* TLC decides in the exact Pauli algebra over R_8:                         *)
(*   bit 1   (a) some S_i does not commute with a term of H, or two         *)
(*               generators do not commute                                  *)
(*   bit 2   (b) U U^dagger # 1                                             *)
(*   bit 4   (c) U S_i U^dagger # sigma_i for some i                        *)
(*   bit 8   (d) a term of U H U^dagger carries a letter other than 1 or    *)
(*               sigma_i on qubit q[i]                                      *)
(*   bit 16  (e) T # (U H U^dagger with sigma_i -> eps_i, qubits q deleted) *)
(*   bit 32  (f) some S_i is not a signed product of the parities W_p, or   *)
(*               eps_i is not its eigenvalue on the reference determinant   *)
(*               of the target (n_alpha, n_beta) sector  (skipped, has_f =   *)
(*               FALSE, for hand-written qubit Hamiltonians without a        *)
(*               fermionic sector: any choice of eps_i gives a block)        *)
(*   bit 64      malformed record (q not distinct, lengths, eps not +-1)    *)
(*   bit 128 (e') TX # the same substitution applied to the part of X that  *)
(*               commutes with every S_i (documented culling)               *)
(*   bit 512     a copy of the tapered operator obtained LATER from the same  *)
(*               tapering object (after the first copy was modified in place, *)
(*               or through z2_tapering(H)) fails clause (e)                  *)
(*   bit 1024    the same for a later z2_tapering(X)                          *)
(*   bit 256     information only: some S_i is NOT constant on the whole    *)
(*               sector (extra Z2 symmetry: the sector ground state is      *)
(*               retained only if it lies in the reference's symmetry class)*)
(* (b),(d),(e) say: U H U^dagger is block diagonal in the sigma_i and T is  *)
(* one of its blocks, hence spec(T) is a subset of spec(H).  (a),(c),(f)    *)
(* identify the block with the joint eigenspace S_i = eps_i that contains   *)
(* the reference determinant (and, when bit 256 is clear, every determinant *)
(* of the sector, so the sector's lowest eigenvalue is retained).           *)
(* In "structure" mode (real molecules, float coefficients) H carries unit  *)
(* coefficients, (e) is skipped and the module exports, for every term of   *)
(* H, the tapered word and sign; the harness contracts them with the        *)
(* code's own coefficients (spec-structured contraction, numeric tail).     *)
(***************************************************************************)
EXTENDS Fock, TLC, Json, IOUtils, SequencesExt

Jobs == JsonDeserialize(IOEnv.VERIF_JOBS)
VARIABLE i

SeqSet(s) == {s[x] : x \in 1..Len(s)}
SigmaWord(n, q0, l) == TLCEval([p \in 1..n |-> IF p = q0 + 1 THEN l ELSE 0])
KeepSeq(n, qs) == SetToSortSeq({p \in 1..n : (p - 1) \notin SeqSet(qs)}, LAMBDA a, b : a < b)
DelWord(w, keep) == TLCEval([x \in 1..Len(keep) |-> w[keep[x]]])
EpsProd(w, qs, eps) ==
  LET hit == {x \in 1..Len(qs) : w[qs[x] + 1] # 0 /\ eps[x] = -1}
  IN IF Cardinality(hit) % 2 = 0 THEN ROne ELSE Neg(ROne)

\* sigma_i -> eps_i and delete the qubits q (A must satisfy clause (d))
SubstDelete(A, n, qs, eps) ==
  LET keep == KeepSeq(n, qs)
  IN OpFromTerms(SetToSeq({[w |-> DelWord(w, keep), c |-> Mul(A[w], EpsProd(w, qs, eps)), orig |-> w] : w \in DOMAIN A}))

ClauseD(A, qs, sg) == \A w \in DOMAIN A : \A x \in 1..Len(qs) : w[qs[x] + 1] \in {0, sg[x]}

CommutingPart(A, S, n) ==
  LET D == {w \in DOMAIN A : \A x \in 1..Len(S) : CommuteWords(w, S[x], n)}
  IN TLCEval([w \in D |-> A[w]])

\* ---- clause (f): S_i as a signed product of the parity words --------------------------------
\* W[p+1] = [w, s]:  Enc(1 - 2 n_p) = s * w   (p = spin-orbital index, even = alpha)
RECURSIVE ParityProd(_, _, _, _)
\* product of W_p over p in A (increasing p), as [w, ph] with value i^ph * w
ParityProd(W, A, n, acc) ==
  IF A = {} THEN acc
  ELSE LET p == CHOOSE x \in A : \A y \in A : x <= y
           r == MulWord(acc.w, W[p + 1].w, n)
       IN ParityProd(W, A \ {p}, n, [w |-> r.w, ph |-> (acc.ph + r.p + (IF W[p + 1].s = -1 THEN 2 ELSE 0)) % 4])

RefDet(na, nb) == {2 * x : x \in 0..(na - 1)} \cup {2 * x + 1 : x \in 0..(nb - 1)}
SectorDets(nso, na, nb) == Sector(nso, na, nb, FALSE)
\* eigenvalue (+1/-1) of i^ph * prod_{p in A} W_p on determinant D  (ph in {0, 2})
EigOn(A, ph, D) == IF (Cardinality(A \cap D) + (ph \div 2)) % 2 = 0 THEN 1 ELSE -1

\* [ok, strong] for generator s with claimed eigenvalue e
ClauseF(s, e, W, n, nso, na, nb) ==
  LET cands == {A \in SUBSET (0..(nso - 1)) :
                  LET r == ParityProd(W, A, n, [w |-> IdWord(n), ph |-> 0]) IN r.w = s /\ r.ph \in {0, 2}}
  IN IF cands = {} THEN [ok |-> FALSE, strong |-> FALSE]
     ELSE LET A  == CHOOSE x \in cands : TRUE
              ph == ParityProd(W, A, n, [w |-> IdWord(n), ph |-> 0]).ph
          IN [ok |-> EigOn(A, ph, RefDet(na, nb)) = e,
              strong |-> \A D \in SectorDets(nso, na, nb) : EigOn(A, ph, D) = e]

WFWords(ws, n) == \A x \in 1..Len(ws) : Len(ws[x]) = n /\ \A p \in 1..n : ws[x][p] \in 0..3
WFTerms(ts, n) == \A x \in 1..Len(ts) : Len(ts[x].w) = n /\ \A p \in 1..n : ts[x].w[p] \in 0..3

WellFormedJob(j) ==
  /\ Len(j.S) = j.k /\ Len(j.q) = j.k /\ Len(j.sg) = j.k /\ Len(j.eps) = j.k
  /\ Cardinality(SeqSet(j.q)) = j.k /\ \A x \in 1..j.k : j.q[x] \in 0..(j.n - 1) /\ j.sg[x] \in 1..3 /\ j.eps[x] \in {-1, 1}
  /\ WFWords(j.S, j.n) /\ WFTerms(j.H, j.n) /\ WFTerms(j.U, j.n) /\ WFTerms(j.T, j.n - j.k) /\ WFTerms(j.X, j.n) /\ WFTerms(j.TX, j.n - j.k)
  /\ \A x \in 1..Len(j.TA) : WFTerms(j.TA[x], j.n - j.k)
  /\ \A x \in 1..Len(j.TXA) : WFTerms(j.TXA[x], j.n - j.k)
  /\ Len(j.W) = j.nso /\ \A x \in 1..j.nso : Len(j.W[x].w) = j.n /\ j.W[x].s \in {-1, 1}
  /\ j.na \in 0..(j.nso \div 2) /\ j.nb \in 0..(j.nso \div 2)

Verdict(j) ==
  IF ~WellFormedJob(j) THEN 64 ELSE
  LET n   == j.n
      H   == OpFromTerms(j.H)
      U   == OpFromTerms(j.U)
      Ud  == OpAdj(U)
      Hp  == OpMul(OpMul(U, H, n), Ud, n)
      fs  == [x \in 1..j.k |-> ClauseF(j.S[x], j.eps[x], j.W, n, j.nso, j.na, j.nb)]
      b1  == IF (\A x \in 1..j.k : (\A w \in DOMAIN H : CommuteWords(j.S[x], w, n)) /\ (\A y \in 1..j.k : CommuteWords(j.S[x], j.S[y], n)))
             THEN 0 ELSE 1
      b2  == IF OpEq(OpMul(U, Ud, n), OpIdentity(n)) THEN 0 ELSE 2
      b4  == IF \A x \in 1..j.k : OpEq(OpMul(OpMul(U, OpWord(j.S[x]), n), Ud, n), OpWord(SigmaWord(n, j.q[x], j.sg[x]))) THEN 0 ELSE 4
      dOK == ClauseD(Hp, j.q, j.sg)
      b8  == IF dOK THEN 0 ELSE 8
      b16 == IF j.structure \/ ~dOK THEN 0 ELSE IF OpEq(OpFromTerms(j.T), SubstDelete(Hp, n, j.q, j.eps)) THEN 0 ELSE 16
      b32 == IF ~j.has_f THEN 0 ELSE IF \A x \in 1..j.k : fs[x].ok THEN 0 ELSE 32
      Xc  == CommutingPart(OpFromTerms(j.X), j.S, n)
      Xp  == OpMul(OpMul(U, Xc, n), Ud, n)
      b128 == IF ~j.has_x THEN 0 ELSE IF ClauseD(Xp, j.q, j.sg) /\ OpEq(OpFromTerms(j.TX), SubstDelete(Xp, n, j.q, j.eps)) THEN 0 ELSE 128
      \* history: copies of the tapered operators requested AGAIN from the same tapering object after the first copies
      \* were modified in place (and z2_tapering(H) itself): the certificate must hold for every one of them
      b512 == IF j.structure \/ ~dOK THEN 0
              ELSE IF \A x \in 1..Len(j.TA) : OpEq(OpFromTerms(j.TA[x]), SubstDelete(Hp, n, j.q, j.eps)) THEN 0 ELSE 512
      b1024 == IF ~j.has_x \/ ~ClauseD(Xp, j.q, j.sg) THEN 0
               ELSE IF \A x \in 1..Len(j.TXA) : OpEq(OpFromTerms(j.TXA[x]), SubstDelete(Xp, n, j.q, j.eps)) THEN 0 ELSE 1024
      b256 == IF ~j.has_f THEN 0 ELSE IF \A x \in 1..j.k : fs[x].strong THEN 0 ELSE 256
  IN b1 + b2 + b4 + b8 + b16 + b32 + b128 + b256 + b512 + b1024

\* structure export (real molecules): for every word of H the tapered word and the sign of its coefficient
Structure(j) ==
  LET n  == j.n
      U  == OpFromTerms(j.U)
      Ud == OpAdj(U)
      keep == KeepSeq(n, j.q)
  IN [x \in 1..Len(j.H) |->
        LET P  == OpMul(OpMul(U, OpWord(j.H[x].w), n), Ud, n)
            w  == CHOOSE v \in DOMAIN P : TRUE
        IN IF Cardinality(DOMAIN P) # 1 THEN [tw |-> <<>>, re |-> 0, im |-> 0]
           ELSE LET c == Mul(P[w], EpsProd(w, j.q, j.eps))
                IN [tw |-> DelWord(w, keep), re |-> c.c[1], im |-> c.c[(HM \div 2) + 1], k |-> c.k]]

JInit == i \in 1..Len(Jobs)
JNext == /\ i > 0
         /\ LET v == Verdict(Jobs[i]) IN
              /\ PrintT(<<"V", Jobs[i].id, v>>)
              /\ (Jobs[i].structure /\ v % 256 = 0 /\ v < 512 => PrintT(<<"ST", ToJson([id |-> Jobs[i].id, st |-> Structure(Jobs[i])])>>))
         /\ i' = 0
=============================================================================
