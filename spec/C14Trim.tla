-------------------------------- MODULE C14Trim --------------------------------
(***************************************************************************)
(* C14 (trimming) - removing the qubits that a circuit leaves in a fixed    *)
(* computational-basis state leaves the expectation value of any operator   *)
(* unchanged.                                                               *)
(*                                                                         *)
(* Generation (Mode = "gen"): the state is a circuit on N qubits assembled  *)
(* from one single-qubit recipe per qubit (idle, flipped, phase-only,       *)
(* superposed ...) and an optional entangling block on the last two qubits; *)
(* every assembled circuit is exported (<<"CIRC", json>>).  The invariant   *)
(* RecipeModel checks the specification's own table: a recipe the table     *)
(* marks as trivial with bit b really prepares |b> up to a phase and one    *)
(* it marks non-trivial does not prepare a basis state.                     *)
(*                                                                         *)
(* Validation (Mode = "judge", jobs from VERIF_JOBS): for a circuit C on n  *)
(* qubits, the code's trimmed circuit C2 on n2 qubits, and a list of pairs  *)
(* (op, op2) = (operator, trimmed operator), psi = C|0..0>, psi2 = C2|0..0>*)
(* are evaluated exactly in R_M and                                         *)
(*   bit 1   <psi|op|psi> # <psi2|op2|psi2> for some pair                   *)
(*   bit 2   op2 or C2 touches a qubit outside 0..n2-1 / malformed gate      *)
(*   bit 4   (trim_states given) psi is not proportional to psi2 tensored    *)
(*           with the recorded basis states on the removed qubits            *)
(*   bit 8   information: no qubit was removed                               *)
(*   bit 16  <psi|op|psi> # <psi|op3|psi> where op3 is the operator trimmed  *)
(*           WITHOUT re-indexing (trim_trivial_operator(..., reindex=False)) *)
(***************************************************************************)
EXTENDS Pauli, TLC, Json, IOUtils, SequencesExt

CONSTANTS Mode, N, RecipeSet, EntSet

\* ---- recipes: sequences of <<name, k>> applied to one qubit ----------------------------------
HP == M \div 2          \* pi
QP == M \div 4          \* pi/2
Recipes ==
  [ idle   |-> <<>>,
    x      |-> << <<"X", 0>> >>,
    rxpi   |-> << <<"RX", HP>> >>,
    rx3pi  |-> << <<"RX", 3 * HP>> >>,
    rxmpi  |-> << <<"RX", -HP>> >>,
    rx2pi  |-> << <<"RX", M>> >>,
    xx     |-> << <<"X", 0>>, <<"X", 0>> >>,
    xrx    |-> << <<"X", 0>>, <<"RX", HP>> >>,
    rxx    |-> << <<"RX", HP>>, <<"X", 0>> >>,
    zx     |-> << <<"Z", 0>>, <<"X", 0>> >>,
    rzx    |-> << <<"RZ", QP>>, <<"X", 0>> >>,
    rzrx   |-> << <<"RZ", 2>>, <<"RX", HP>> >>,
    z      |-> << <<"Z", 0>> >>,
    rz     |-> << <<"RZ", QP>> >>,
    rz2    |-> << <<"RZ", 2>> >>,
    zz     |-> << <<"Z", 0>>, <<"RZ", QP>> >>,
    s      |-> << <<"S", 0>> >>,
    xz     |-> << <<"X", 0>>, <<"Z", 0>> >>,
    xrz    |-> << <<"X", 0>>, <<"RZ", QP>> >>,
    y      |-> << <<"Y", 0>> >>,
    rypi   |-> << <<"RY", HP>> >>,
    yx     |-> << <<"Y", 0>>, <<"X", 0>> >>,
    xy     |-> << <<"X", 0>>, <<"Y", 0>> >>,
    h      |-> << <<"H", 0>> >>,
    rxhalf |-> << <<"RX", QP>> >>,
    rxq    |-> << <<"RX", 2>> >>,
    hx     |-> << <<"H", 0>>, <<"X", 0>> >>,
    xh     |-> << <<"X", 0>>, <<"H", 0>> >>,
    rxrx   |-> << <<"RX", QP>>, <<"RX", QP>> >>,
    xxx    |-> << <<"X", 0>>, <<"X", 0>>, <<"X", 0>> >>,
    hzh    |-> << <<"H", 0>>, <<"Z", 0>>, <<"H", 0>> >> ]

\* the specification's own classification: bit prepared (0 / 1) or 2 = not a basis state
RecipeBit ==
  [ idle |-> 0, x |-> 1, rxpi |-> 1, rx3pi |-> 1, rxmpi |-> 1, rx2pi |-> 0, xx |-> 0, xrx |-> 0, rxx |-> 0, zx |-> 1, rzx |-> 1, rzrx |-> 1,
    z |-> 0, rz |-> 0, rz2 |-> 0, zz |-> 0, s |-> 0, xz |-> 1, xrz |-> 1, y |-> 1, rypi |-> 1, yx |-> 0, xy |-> 0,
    h |-> 2, rxhalf |-> 2, rxq |-> 2, hx |-> 2, xh |-> 2, rxrx |-> 1, xxx |-> 1, hzh |-> 1 ]

RecipesAll  == DOMAIN Recipes
RecipesCore == {"idle", "x", "rxpi", "xx", "zx", "rzx", "z", "rz", "s", "y", "h", "rxhalf", "xrx", "xz", "rxmpi", "rx2pi"}

RecipeGates(r, q) == LET s == Recipes[r] IN TLCEval([x \in 1..Len(s) |-> G(s[x][1], <<q>>, <<>>, s[x][2])])

\* entangling blocks on the qubits a, b
Ent(e, a, b) ==
  CASE e = "none"   -> <<>>
    [] e = "bell"   -> << G("H", <<a>>, <<>>, 0), G("CNOT", <<b>>, <<a>>, 0) >>
    [] e = "cnot"   -> << G("CNOT", <<b>>, <<a>>, 0) >>                         \* control in |0>: acts trivially, still two-qubit
    [] e = "xcnot"  -> << G("X", <<a>>, <<>>, 0), G("CNOT", <<b>>, <<a>>, 0) >>
    [] e = "ryxx"   -> << G("RY", <<a>>, <<>>, 2), G("XX", <<a, b>>, <<>>, 2) >>
    [] e = "crz"    -> << G("H", <<b>>, <<>>, 0), G("CRZ", <<b>>, <<a>>, 2) >>
EntAll  == {"none", "bell", "cnot", "xcnot", "ryxx", "crz"}
EntCore == {"none", "bell", "xcnot"}

VARIABLES rec, ent, order, i
vars == <<rec, ent, order, i>>

Qs == 0..(N - 1)

\* order "q": qubit by qubit; "rev": last qubit first; "ent-first": entangling block first
Assemble(r, e, o) ==
  LET singles == [q \in Qs |-> RecipeGates(r[q], q)]
      RECURSIVE cat(_)
      cat(q) == IF q = N THEN <<>> ELSE singles[q] \o cat(q + 1)
      RECURSIVE tac(_)
      tac(q) == IF q < 0 THEN <<>> ELSE singles[q] \o tac(q - 1)
      blk == Ent(e, N - 2, N - 1)
  IN CASE o = "q"         -> cat(0) \o blk
       [] o = "rev"       -> blk \o tac(N - 1)
       [] o = "ent-first" -> blk \o cat(0)

GenInit ==
  /\ Mode = "gen"
  /\ rec \in [Qs -> RecipeSet]
  /\ ent \in EntSet
  \* the entangled pair carries only idle single-qubit recipes unless there is no entangling block
  /\ (ent # "none" => rec[N - 2] = "idle" /\ rec[N - 1] \in {"idle", "x", "h"})
  /\ order \in {"q", "rev", "ent-first"}
  /\ (ent = "none" => order = "q")
  /\ i = 0
  /\ PrintT(<<"CIRC", ToJson([n |-> N, gates |-> Assemble(rec, ent, order), rec |-> [q \in 1..N |-> rec[q - 1]], ent |-> ent, order |-> order])>>)
GenNext == UNCHANGED vars

\* S: the table is right
RecipeModel ==
  \A r \in DOMAIN Recipes :
     LET psi == Run(ZeroState(1), RecipeGates(r, 0), 1)
     IN CASE RecipeBit[r] = 0 -> psi[2] = RZero /\ Abs2(psi[1]) = ROne
          [] RecipeBit[r] = 1 -> psi[1] = RZero /\ Abs2(psi[2]) = ROne
          [] RecipeBit[r] = 2 -> psi[1] # RZero /\ psi[2] # RZero

\* ---- validation ---------------------------------------------------------------------------------
Jobs == IF Mode = "judge" THEN JsonDeserialize(IOEnv.VERIF_JOBS) ELSE <<>>

SeqSet(s) == {s[x] : x \in 1..Len(s)}
Qs0(n) == 0..(n - 1)
WFOp(ts, n) == \A x \in 1..Len(ts) : Len(ts[x].w) = n /\ \A p \in 1..n : ts[x].w[p] \in 0..3

\* psi2 (on the kept qubits, in increasing order) tensored with basis states on the removed qubits
\* trim: sequence of <<qubit, bit>>
Embed(psi2, n, trim) ==
  LET removed == {t[1] : t \in SeqSet(trim)}
      keep    == SetToSortSeq(Qs0(n) \ removed, LAMBDA a, b : a < b)
      bitOf(q) == (CHOOSE t \in SeqSet(trim) : t[1] = q)[2]
      n2 == Len(keep)
  IN TLCEval([x \in 1..Dim(n) |->
       IF \A q \in removed : BitAt(x - 1, q, n) = bitOf(q)
       THEN psi2[1 + SumSeq(TLCEval([p \in 1..n2 |-> BitAt(x - 1, keep[p], n) * Pow2(n2 - p)]), n2)]
       ELSE RZero])

Verdict(j) ==
  LET n  == j.n
      n2 == j.n2
      wf == /\ \A g \in SeqSet(j.gates) : WellFormed(g, n)
            /\ \A g \in SeqSet(j.gates2) : WellFormed(g, n2)
            /\ \A x \in 1..Len(j.ops) : WFOp(j.ops[x].op, n) /\ WFOp(j.ops[x].op2, n2) /\ WFOp(j.ops[x].op3, n)
  IN IF ~wf THEN 2 ELSE
     LET psi  == Run(ZeroState(n), j.gates, n)
         psi2 == Run(ZeroState(n2), j.gates2, n2)
         b1 == IF \A x \in 1..Len(j.ops) :
                    ExpectOp(OpFromTerms(j.ops[x].op), psi, n) = ExpectOp(OpFromTerms(j.ops[x].op2), psi2, n2) THEN 0 ELSE 1
         b4 == IF ~j.has_trim THEN 0
               ELSE IF Len(j.trim) + n2 = n /\ ProportionalVec(psi, Embed(psi2, n, j.trim), Dim(n)) THEN 0 ELSE 4
         b8 == IF n2 = n THEN 8 ELSE 0
         b16 == IF \A x \in 1..Len(j.ops) :
                    ExpectOp(OpFromTerms(j.ops[x].op), psi, n) = ExpectOp(OpFromTerms(j.ops[x].op3), psi, n) THEN 0 ELSE 16
     IN b1 + b4 + b8 + b16

JInit == /\ Mode = "judge"
         /\ i \in 1..Len(Jobs)
         /\ rec = <<>> /\ ent = "" /\ order = ""
JNext == /\ i > 0
         /\ PrintT(<<"V", Jobs[i].id, Verdict(Jobs[i])>>)
         /\ i' = 0
         /\ UNCHANGED <<rec, ent, order>>
=============================================================================
