------------------------------ MODULE C14Truncate ------------------------------
(***************************************************************************)
(* C14 (truncation) - norm-based term truncation with tolerance epsilon     *)
(* moves no eigenvalue by more than epsilon.                                *)
(*                                                                         *)
(* Decided exactly for DIAGONAL operators: a sum of Z-words                 *)
(*   A = SUM_j c_j Z^(s_j),  s_j a subset of the qubits, c_j = a_j / Den    *)
(* has the eigenvalues  lambda_x = SUM_j c_j (-1)^(|x & s_j|)  for the 2^n  *)
(* bit strings x: integers after scaling by Den.                            *)
(*                                                                         *)
(* Generation (Mode = "gen"): TLC enumerates operator families (one word    *)
(* mask per term) with their scaled coefficients and tolerances             *)
(* epsilon = sqrt(E) / Den, exported as <<"OPS", json>>; they include the    *)
(* worst-case family "all 2^n Z-words with one equal tiny coefficient",      *)
(* where the operator norm of the small part meets its Frobenius bound.      *)
(* Validation (Mode = "judge"): from the terms the code kept,                *)
(*   bit 1   the kept terms are not a sub-multiset of the original terms     *)
(*   bit 2   max_i |lambda_i - lambda'_i| > epsilon  on the sorted spectra   *)
(*           (compared as (lambda_i - lambda'_i)^2 > E)                      *)
(*   bit 4   also max_x |lambda_x - lambda'_x| > epsilon (unsorted: the       *)
(*           operator norm of the discarded part)  - information            *)
(*   bit 8   information: nothing was discarded                              *)
(* Words are bit masks over the n qubits (bit q set = Z on qubit q).         *)
(***************************************************************************)
EXTENDS Integers, Sequences, FiniteSets, TLC, Json, IOUtils, SequencesExt, FiniteSetsExt

CONSTANTS Mode, NMax

RECURSIVE P2(_)
P2(n) == IF n = 0 THEN 1 ELSE 2 * P2(n - 1)
RECURSIVE PopCount(_)
PopCount(m) == IF m = 0 THEN 0 ELSE (m % 2) + PopCount(m \div 2)
RECURSIVE BitAnd(_, _)
BitAnd(a, b) == IF a = 0 \/ b = 0 THEN 0 ELSE ((a % 2) * (b % 2)) + 2 * BitAnd(a \div 2, b \div 2)

\* terms: sequence of [m |-> mask, a |-> scaled coefficient]
Eig(terms, x) == FoldLeft(LAMBDA acc, t : acc + (IF PopCount(BitAnd(x, t.m)) % 2 = 0 THEN t.a ELSE -t.a), 0, terms)
Spectrum(terms, n) == [x \in 1..P2(n) |-> Eig(terms, x - 1)]
Sorted(s) == SortSeq(s, LAMBDA a, b : a < b)

\* ---- generation -----------------------------------------------------------------------------------
VARIABLES fam, i
vars == <<fam, i>>

\* every non-identity mask gets coefficient c, the identity gets big  (2^n terms)
AllEqual(n, c, big) == [x \in 1..P2(n) |-> [m |-> x - 1, a |-> IF x = 1 THEN big ELSE c]]
\* the first cnt masks (1..cnt) get coefficient c, the identity gets big
FirstFew(n, cnt, c, big) == [x \in 1..(cnt + 1) |-> [m |-> x - 1, a |-> IF x = 1 THEN big ELSE c]]
\* distinct increasing coefficients 1, 2, 3, ... on the masks 1.., identity big
Staircase(n, cnt, big) == [x \in 1..(cnt + 1) |-> [m |-> x - 1, a |-> IF x = 1 THEN big ELSE x - 1]]
\* single-qubit and two-qubit Z words with alternating signs
Ising(n, c, d) ==
  LET ones == [q \in 1..n |-> [m |-> P2(q - 1), a |-> IF q % 2 = 0 THEN c ELSE -c]]
      twos == [q \in 1..(n - 1) |-> [m |-> P2(q - 1) + P2(q), a |-> d]]
  IN ones \o twos

Families(n) ==
       { [n |-> n, kind |-> "all-equal", terms |-> AllEqual(n, c, big)] : c \in {1, 2, -3}, big \in {0, 640} }
  \cup { [n |-> n, kind |-> "all-equal-no-identity", terms |-> SubSeq(AllEqual(n, c, 0), 2, P2(n))] : c \in {1, 5} }
  \cup { [n |-> n, kind |-> "first-few", terms |-> FirstFew(n, cnt, c, 640)] : cnt \in {1, 2, P2(n - 1), P2(n) - 2}, c \in {1, -4} }
  \cup { [n |-> n, kind |-> "staircase", terms |-> Staircase(n, cnt, 64)] : cnt \in {3, P2(n) - 1} }
  \cup { [n |-> n, kind |-> "ising", terms |-> Ising(n, c, d)] : c \in {1, 8}, d \in {2, -16} }

\* tolerances epsilon^2 * Den^2
Tolerances(f) ==
  LET sq == FoldLeft(LAMBDA acc, t : acc + t.a * t.a, 0, f.terms)      \* sum of squares of everything
      small == FoldLeft(LAMBDA acc, t : IF t.a * t.a <= 64 THEN acc + t.a * t.a ELSE acc, 0, f.terms)
      d == P2(f.n)
  IN {1, 16, small, small * P2(f.n \div 2) * P2(f.n \div 2), small * P2(f.n \div 2) * P2(f.n \div 2) + 1,
      small * d, small * d + 1, 4 * small * d, sq * d} \ {0}

GenInit == /\ Mode = "gen"
           /\ \E n \in 2..NMax : \E f \in Families(n) :
                /\ fam = f
                /\ PrintT(<<"OPS", ToJson([n |-> f.n, kind |-> f.kind, terms |-> f.terms, E |-> SetToSeq(Tolerances(f))])>>)
           /\ i = 0
GenNext == UNCHANGED vars

\* S: the eigenvalue formula is the diagonal of the operator: trace = 2^n * (identity coefficient) and
\* the sum of squares of the eigenvalues = 2^n * sum of squares of the coefficients (Parseval), for every family
Parseval == LET n == fam.n
                sp == Spectrum(fam.terms, n)
                idc == FoldLeft(LAMBDA acc, t : IF t.m = 0 THEN acc + t.a ELSE acc, 0, fam.terms)
            IN Mode = "gen" =>
                 /\ FoldLeft(LAMBDA acc, v : acc + v, 0, sp) = P2(n) * idc
                 /\ FoldLeft(LAMBDA acc, v : acc + v * v, 0, sp) = P2(n) * FoldLeft(LAMBDA acc, t : acc + t.a * t.a, 0, fam.terms)

\* ---- validation -------------------------------------------------------------------------------------
Jobs == IF Mode = "judge" THEN JsonDeserialize(IOEnv.VERIF_JOBS) ELSE <<>>
SeqSet(s) == {s[x] : x \in 1..Len(s)}

Verdict(j) ==
  LET n  == j.n
      s0 == Spectrum(j.terms, n)
      s1 == Spectrum(j.kept, n)
      a0 == Sorted(s0)
      a1 == Sorted(s1)
      sub == /\ \A t \in SeqSet(j.kept) : t \in SeqSet(j.terms)
             /\ Cardinality(SeqSet(j.kept)) = Len(j.kept)
      b1 == IF sub THEN 0 ELSE 1
      b2 == IF \E x \in 1..P2(n) : (a0[x] - a1[x]) * (a0[x] - a1[x]) > j.E THEN 2 ELSE 0
      b4 == IF \E x \in 1..P2(n) : (s0[x] - s1[x]) * (s0[x] - s1[x]) > j.E THEN 4 ELSE 0
      b8 == IF Len(j.kept) = Len(j.terms) THEN 8 ELSE 0
  IN b1 + b2 + b4 + b8

JInit == /\ Mode = "judge"
         /\ i \in 1..Len(Jobs)
         /\ fam = <<>>
JNext == /\ i > 0
         /\ PrintT(<<"V", Jobs[i].id, Verdict(Jobs[i])>>)
         /\ i' = 0
         /\ UNCHANGED fam
=============================================================================
