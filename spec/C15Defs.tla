------------------------------ MODULE C15Defs ------------------------------
(***************************************************************************)
(* C15 - definitions without variables shared by C15Oniom (S, G) and        *)
(* C15Trace (V): selection-argument semantics, formal energy combinations   *)
(* (bags of tokens), two-limb fixed-point scalars.                          *)
(***************************************************************************)
EXTENDS Integers, Sequences, FiniteSets, FiniteSetsExt, TLC, Json, IOUtils

None == "none"

\* ---- selection semantics (ONIOM): none = whole system | count = first n atoms | list of indices ----
SelNone       == [kind |-> "none", n |-> 0, l |-> <<>>]
SelCount(n)   == [kind |-> "count", n |-> n, l |-> <<>>]
SelList(l)    == [kind |-> "list", n |-> 0, l |-> l]
ResolveSel(sel, na) == CASE sel.kind = "none"  -> [i \in 1..na |-> i - 1]
                         [] sel.kind = "count" -> [i \in 1..sel.n |-> i - 1]
                         [] sel.kind = "list"  -> sel.l

\* ---- bags: functions token -> non-zero integer ------------------------------------------
BagGet(b, t)    == IF t \in DOMAIN b THEN b[t] ELSE 0
BagAdd(b, t, c) == LET D == (DOMAIN b) \cup {t}
                       v(x) == BagGet(b, x) + (IF x = t THEN c ELSE 0)
                   IN [x \in {y \in D : v(y) # 0} |-> v(x)]
EmptyBag == [x \in {} |-> 0]
Single(t) == [x \in {t} |-> 1]


\* ---- two-limb fixed point: E = hi * 10^-4 + lo * 10^-10 Hartree, 0 <= lo < 10^6 ----------------
\* difference a - b in units of 10^-10, saturated at +-Big (TLC integers are 32 bit)
Big == 2000000000
LimbDiff(a, b) == LET dh == a[1] - b[1] IN
                  IF dh > 1000 THEN Big ELSE IF dh < -1000 THEN -Big ELSE dh * 1000000 + (a[2] - b[2])
Abs(x) == IF x < 0 THEN -x ELSE x
Close(a, b, tol) == Abs(LimbDiff(a, b)) <= tol
=============================================================================
