------------------------------ MODULE C15Dmet ------------------------------
(***************************************************************************)
(* C15 (DMET), generation part: semantics of the fragment-atom argument.    *)
(*                                                                         *)
(* The argument is either a list of counts (fragment i = the next c_i       *)
(* atoms) or a nested list of atom indices (fragment i = the listed atoms,  *)
(* any order).  It denotes an ordered partition of the atoms 0..NA-1; the   *)
(* calculation is carried out on the geometry re-ordered fragment by        *)
(* fragment:    order = concatenation of the blocks, counts = block sizes.  *)
(* Arguments that are not partitions (an atom missing, an atom twice, an    *)
(* index out of range, counts not summing to NA) denote nothing and must    *)
(* be refused.                                                              *)
(*                                                                         *)
(* TLC enumerates every argument (valid and invalid, blocks of length <=    *)
(* NA over indices 0..NA) as initial states, checks the semantics itself    *)
(* (PermutationOK: order is a permutation and the counts tile it;           *)
(* FragmentsOK: the atoms of fragment i in the re-ordered geometry are      *)
(* exactly block i) and prints each case (tag "FA") for the driver.         *)
(* The chemical-potential loop itself is judged on recorded traces          *)
(* (C15Trace, kind "dmet").                                                 *)
(***************************************************************************)
EXTENDS C15Defs

CONSTANTS NA, MaxBlocks, WithInvalid

VARIABLES arg, done
vars == <<arg, done>>

Atoms == 0..(NA - 1)
Idx   == IF WithInvalid THEN 0..NA ELSE Atoms          \* NA itself is out of range

\* blocks: non-empty sequences without repetition inside... (repetitions are generated only across/inside when WithInvalid)
BlocksOfLen(n) == IF WithInvalid THEN [1..n -> Idx]
                  ELSE {b \in [1..n -> Idx] : Cardinality({b[i] : i \in 1..n}) = n}
Blocks == UNION {BlocksOfLen(n) : n \in 1..NA}

RECURSIVE Flatten(_)
Flatten(s) == IF s = <<>> THEN <<>> ELSE Head(s) \o Flatten(Tail(s))
TotalLen(s) == Len(Flatten(s))

CountArgs  == UNION { [1..nb -> 1..NA] : nb \in 1..MaxBlocks }
SumSeqN(c)  == FoldSet(LAMBDA i, a : a + c[i], 0, 1..Len(c))
Offset(c, i) == FoldSet(LAMBDA k, a : a + c[k], 0, 1..(i - 1))
\* valid nested arguments directly: every permutation of the atoms cut by every composition of NA
Perms        == {q \in [1..NA -> Atoms] : Cardinality({q[i] : i \in 1..NA}) = NA}
Compositions == {c \in CountArgs : SumSeqN(c) = NA}
Split(q, c)  == [i \in 1..Len(c) |-> [x \in 1..c[i] |-> q[Offset(c, i) + x]]]
NestedArgs == IF WithInvalid
              THEN UNION { {s \in [1..nb -> Blocks] : TotalLen(s) <= NA + 1} : nb \in 1..MaxBlocks }    \* brute force, small NA only
              ELSE {Split(q, c) : q \in Perms, c \in Compositions}

IsPartition(s) == LET f == Flatten(s) IN
                  /\ Len(f) = NA
                  /\ {f[i] : i \in 1..Len(f)} = Atoms
ValidNested(s) == IsPartition(s)
ValidCounts(c) == SumSeqN(c) = NA

\* denotation
OrderOf(a)  == IF a.kind = "nested" THEN Flatten(a.v) ELSE [i \in 1..NA |-> i - 1]
CountsOf(a) == IF a.kind = "nested" THEN [i \in 1..Len(a.v) |-> Len(a.v[i])] ELSE a.v
ValidArg(a) == IF a.kind = "nested" THEN ValidNested(a.v) ELSE ValidCounts(a.v)

\* why an argument denotes nothing (first applicable)
Reason(a) == IF ValidArg(a) THEN "valid"
             ELSE IF a.kind = "counts" THEN "counts-do-not-sum-to-the-atoms"
             ELSE LET f == Flatten(a.v) IN
                  IF \E i \in 1..Len(f) : f[i] \notin Atoms THEN "index-out-of-range"
                  ELSE IF Cardinality({f[i] : i \in 1..Len(f)}) # Len(f) THEN "atom-listed-twice"
                  ELSE "atom-missing"

Args == {[kind |-> "nested", v |-> s] : s \in NestedArgs} \cup {[kind |-> "counts", v |-> c] : c \in CountArgs}

Init == /\ arg \in {a \in Args : WithInvalid \/ ValidArg(a)}
        /\ done = FALSE

\* invalid arguments one edit away from a valid nested partition (for NA where brute force is too large):
\* a block dropped, an atom dropped, an atom replaced by another index (duplicate or out of range)
RemoveAt(q, i) == [x \in 1..(Len(q) - 1) |-> IF x < i THEN q[x] ELSE q[x + 1]]
ValidSplits == {Split(q, c) : q \in Perms, c \in Compositions}
Edits(v) == { RemoveAt(v, i) : i \in {x \in 1..Len(v) : Len(v) >= 2} }
            \cup { [v EXCEPT ![i] = RemoveAt(v[i], x)] : i \in {y \in 1..Len(v) : Len(v[y]) >= 2}, x \in 1..NA } 
            \cup { [v EXCEPT ![i] = [v[i] EXCEPT ![1] = r]] : i \in 1..Len(v), r \in 0..NA }
WellShaped(v) == \A i \in 1..Len(v) : Len(v[i]) >= 1 /\ Len(v[i]) <= NA
InitDerived == /\ arg \in {a \in {[kind |-> "nested", v |-> e] : e \in UNION {Edits(v) : v \in ValidSplits}} : WellShaped(a.v) /\ ~ValidArg(a)}
               /\ done = FALSE
Next == /\ ~done
        /\ done' = TRUE
        /\ UNCHANGED arg
        /\ PrintT(<<"FA", ToJson([na |-> NA, kind |-> arg.kind, v |-> arg.v, valid |-> ValidArg(arg), why |-> Reason(arg),
                                 order |-> (IF ValidArg(arg) THEN OrderOf(arg) ELSE <<>>),
                                 counts |-> (IF ValidArg(arg) THEN CountsOf(arg) ELSE <<>>)])>>)

\* ---- documented constructor options: every combination (the driver runs a pairwise-covering subset in the quick
\* tier and all of them in the thorough tier; what each option MEANS is stated as trace clauses in C15Trace) ---------
OptVot       == {"default", "zero", "1e-3"}        \* virtual_orbital_threshold: default 1e-13, 0. = truncation off, 1e-3
OptLoc       == {"meta_lowdin", "nao", "iao"}
OptSolvers   == {"fci", "fci+ccsd"}                \* one name for all fragments | one solver per fragment
OptOptimizer == {"default", "user"}                \* default secant search | a caller-supplied callable
OptMu0       == {"0", "2e-3"}                      \* initial_chemical_potential
OptVerbose   == {FALSE, TRUE}
OptConfigs == { [vot |-> v, loc |-> l, solvers |-> so, optimizer |-> o, mu0 |-> m, verbose |-> vb] :
                  v \in OptVot, l \in OptLoc, so \in OptSolvers, o \in OptOptimizer, m \in OptMu0, vb \in OptVerbose }
InitOpt == arg \in OptConfigs /\ done = FALSE
NextOpt == ~done /\ done' = TRUE /\ UNCHANGED arg /\ PrintT(<<"OPT", ToJson(arg)>>)

\* ---- the semantics itself -------------------------------------------------------------------
PermutationOK == ValidArg(arg) =>
                   LET o == OrderOf(arg)
                       c == CountsOf(arg)
                   IN /\ Len(o) = NA /\ {o[i] : i \in 1..NA} = Atoms
                      /\ Offset(c, Len(c) + 1) = NA
FragmentsOK   == (ValidArg(arg) /\ arg.kind = "nested") =>
                   LET o == OrderOf(arg)
                       c == CountsOf(arg)
                   IN \A i \in 1..Len(c) :
                        {o[Offset(c, i) + p] : p \in 1..c[i]} = {arg.v[i][p] : p \in 1..Len(arg.v[i])}
\* the identity relabelling is the count form
IdentityOK    == (ValidArg(arg) /\ arg.kind = "counts") => OrderOf(arg) = [i \in 1..NA |-> i - 1]
=============================================================================
