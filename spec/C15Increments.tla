--------------------------- MODULE C15Increments ---------------------------
(***************************************************************************)
(* C15 (method of increments).  Centres 0..m-1; a fragment is a non-empty   *)
(* subset of centres, encoded by its bit mask 1..2^m-1.  Every fragment X   *)
(* carries an arbitrary integer total energy E[X], a correction C[X] and    *)
(* optionally a user supplied energy U[X] replacing the stored one          *)
(* (effective energy Eeff[X] = U[X] + C[X] if supplied, else E[X]).         *)
(*                                                                         *)
(* State machine: the incremental summation, one action per truncation      *)
(* order.   t = orders summed so far, eps = increments of all fragments of  *)
(* at most t centres (recursive subtraction                                 *)
(*    eps[X] = (Eeff[X] - emf) - SUM_{0 # Y strictly inside X} eps[Y] ),   *)
(* acc = emf + SUM_{|X| <= t} eps[X]  = the MI energy truncated at order t. *)
(*                                                                         *)
(* Properties checked by TLC (S):                                           *)
(*   Moebius    eps[X] = SUM_{0 # Y inside X} (-1)^(|X|-|Y|) (Eeff[Y]-emf)  *)
(*              (the recursive definition agrees with Moebius inversion)    *)
(*   FullOrder  t = m  =>  acc = Eeff[all centres]     (the property)       *)
(*   AccDef     acc = emf + SUM eps                                         *)
(* Generation (G): every AddOrder transition prints the instance and the    *)
(* exact truncated energy; the driver packs it in the full_result format    *)
(* of MethodOfIncrementsHelper and mi_summation() must return that value.   *)
(* Initial states: either every assignment over small ranges (InitAll) or   *)
(* the assignments listed in the JSON file VERIF_JOBS (InitJobs; seeded     *)
(* sample for m = 4, wide value ranges, corrections, user energies).        *)
(***************************************************************************)
EXTENDS Integers, Sequences, FiniteSets, FiniteSetsExt, TLC, Json, IOUtils

CONSTANTS NC,        \* m, number of centres
          ERange,    \* energies (InitAll)
          MfRange,   \* mean-field energies (InitAll)
          CRange,    \* corrections (InitAll)
          UMasks,    \* set of sets of masks: which fragments get a user energy (InitAll)
          URange     \* user energies (InitAll)

VARIABLES E, C, U, emf, t, acc, eps

vars == <<E, C, U, emf, t, acc, eps>>

RECURSIVE P2(_)
P2(n) == IF n = 0 THEN 1 ELSE 2 * P2(n - 1)

Masks     == 1..(P2(NC) - 1)
Full      == P2(NC) - 1
Bit(x, i) == (x \div P2(i)) % 2
SetOf(x)  == {i \in 0..(NC - 1) : Bit(x, i) = 1}
Size(x)   == Cardinality(SetOf(x))
SubOf(y, x)       == SetOf(y) \subseteq SetOf(x)
StrictSubs(x)     == {y \in Masks : SubOf(y, x) /\ y # x}
MasksUpTo(n)      == {x \in Masks : Size(x) <= n}
MasksOf(n)        == {x \in Masks : Size(x) = n}

Sum(f, S) == FoldSet(LAMBDA x, a : a + f[x], 0, S)

NoUser == -999999      \* sentinel outside every range: "no user energy for this fragment"
Eeff(x) == IF U[x] = NoUser THEN E[x] ELSE U[x] + C[x]

InitRest == /\ t = 0
            /\ acc = emf
            /\ eps = [x \in {} |-> 0]

InitAll == /\ E \in [Masks -> ERange]
           /\ C \in [Masks -> CRange]
           /\ \E um \in UMasks : U \in {u \in [Masks -> URange \cup {NoUser}] : \A x \in Masks : (u[x] # NoUser) <=> (x \in um)}
           /\ emf \in MfRange
           /\ InitRest

\* jobs: [{"m": m, "emf": int, "E": [ints by mask], "C": [...], "U": [int by mask, -999999 = none]}]
Jobs == JsonDeserialize(IOEnv.VERIF_JOBS)
InitJobs == \E j \in 1..Len(Jobs) :
              /\ Jobs[j].m = NC
              /\ E = [x \in Masks |-> Jobs[j].E[x]]
              /\ C = [x \in Masks |-> Jobs[j].C[x]]
              /\ U = [x \in Masks |-> Jobs[j].U[x]]
              /\ emf = Jobs[j].emf
              /\ InitRest

NewEps(old, n) ==
  \* extend `old` (defined on fragments of < n centres) to the fragments of exactly n centres
  [x \in (DOMAIN old) \cup MasksOf(n) |->
      IF x \in DOMAIN old THEN old[x] ELSE (Eeff(x) - emf) - Sum(old, StrictSubs(x))]

AsSeq(f) == [x \in Masks |-> f[x]]      \* function on 1..Full printed as a JSON array

AddOrder == /\ t < NC
            /\ t' = t + 1
            /\ eps' = NewEps(eps, t + 1)
            /\ acc' = acc + Sum(eps', MasksOf(t + 1))
            /\ UNCHANGED <<E, C, U, emf>>
            /\ PrintT(<<"MI", ToJson([m |-> NC, order |-> t', emf |-> emf, E |-> AsSeq(E), C |-> AsSeq(C), U |-> AsSeq(U),
                                     total |-> acc', epsfull |-> (IF t' = NC THEN eps'[Full] ELSE 0)])>>)

Next == AddOrder

\* value sets offered to the configuration files (cfg files cannot contain negative numbers)
R3  == {-1, 0, 2}
R5  == {-3, -1, 0, 1, 4}
R2  == {0, 3}
R1  == {0}
Mf2 == {-2, 5}
NoUsers   == {{}}
AnyUsers  == SUBSET Masks
UR2 == {-4, 1}

\* ---- properties -------------------------------------------------------------
Sign(n) == IF n % 2 = 0 THEN 1 ELSE -1
Moebius == \A x \in DOMAIN eps :
             eps[x] = FoldSet(LAMBDA y, a : a + Sign(Size(x) - Size(y)) * (Eeff(y) - emf), 0, StrictSubs(x) \cup {x})
AccDef    == /\ DOMAIN eps = MasksUpTo(t)
             /\ acc = emf + Sum(eps, DOMAIN eps)
FullOrder == t = NC => acc = Eeff(Full)
\* one centre: the increment is the correlation energy itself
OneBody   == \A x \in DOMAIN eps : Size(x) = 1 => eps[x] = Eeff(x) - emf
=============================================================================
