----------------------------- MODULE C15Oniom -----------------------------
(***************************************************************************)
(* C15 (ONIOM).  Three uses, selected by the INIT/NEXT pair of the cfg:     *)
(*                                                                         *)
(* Formal (InitFormal/NextFormal, S).  Atoms 0..NA-1.  A fragment is        *)
(* [sel, links, low, high]: low / high are LEVELS <<method, options>> (the   *)
(* options - basis set, frozen orbitals, ... - are part of the argument of  *)
(* the uninterpreted energy function E(method, options, atoms, caps));      *)
(* sel is a selection argument (none = whole system |                       *)
(* count = first n atoms | list of distinct atom indices in any order),    *)
(* broken links [s, l] (staying inside, leaving outside), method names      *)
(* ("none" = absent).  Energies are UNINTERPRETED: a token is               *)
(* <<method, geometry>> with geometry = [atoms: SET of atoms, caps: SET of  *)
(* links] (the energy does not depend on the order of the atoms), and the   *)
(* ONIOM energy is a formal integer combination of tokens, accumulated by   *)
(* the state machine one fragment at a time:                                *)
(*     high present:  + <<high, g>> - <<low, g>> (if low present)           *)
(*     only low    :  + <<low, g>>                                          *)
(* (token = <<method, options, geometry>>)                                  *)
(* Checked on every configuration: TelescopeLow (all models with identical  *)
(* high and low levels => Total = E(low, whole system)), WholeModel (the    *)
(* model is the whole system => Total = E(high, whole system)), CoefSum     *)
(* (coefficients sum to 1), AtomBalance (every atom counted once, caps      *)
(* cancel), OptionsMatter (the same method with DIFFERENT options does not  *)
(* telescope: the options belong to the token).                             *)
(*                                                                         *)
(* Selection (InitSel/NextSel, G).  Every selection argument for NA atoms   *)
(* with the list of atom indices it denotes (printed, tag "SEL").           *)
(*                                                                         *)
(* Fragment geometry (InitFrag/NextFrag, G+V).  Every selection form x {no   *)
(* link, one link, two links} (tag "FRG"); the fragment geometries the code  *)
(* builds for them are judged by C15Trace (kind "fraggeom").                 *)
(*                                                                         *)
(* Link (InitLink/NextLink, G).  Cap position = staying + factor (leaving   *)
(* - staying) in exact integer arithmetic: coordinates in units of 1/8,     *)
(* factors in units of 1/8, results in units of 1/64 (printed, tag "LNK").  *)
(***************************************************************************)
EXTENDS C15Defs

CONSTANTS NA,          \* number of atoms
          Methods,     \* abstract method names
          Options,     \* abstract option sets (basis, frozen orbitals, ...)
          MaxModels,   \* model fragments per configuration (1 or 2)
          WithLinks,   \* BOOLEAN: models may carry one broken link
          Coords,      \* coordinate values (units 1/8) for the link cases
          Factors      \* factor values (units 1/8)

VARIABLES frs, k, acc, gcase
vars == <<frs, k, acc, gcase>>

Atoms == 0..(NA - 1)

\* ---- selection semantics: C15Defs!ResolveSel ---------------------------------------
Resolve(sel)  == ResolveSel(sel, NA)
Lists(n)      == {l \in [1..n -> Atoms] : Cardinality({l[i] : i \in 1..n}) = n}
AllLists      == UNION {Lists(n) : n \in 1..NA}
SelArgs       == {SelNone} \cup {SelCount(n) : n \in 1..NA} \cup {SelList(l) : l \in AllLists}
AtomSet(sel)  == {Resolve(sel)[i] : i \in 1..Len(Resolve(sel))}

\* ---- formal energies ---------------------------------------------------------------
Geom(f)   == [atoms |-> AtomSet(f.sel), caps |-> {f.links[i] : i \in 1..Len(f.links)}]
WholeGeom == [atoms |-> Atoms, caps |-> {}]
Levels  == Methods \X Options
NoLevel == <<None, None>>
Tok(lv, g) == <<lv[1], lv[2], g>>

Contribution(b, f) ==
  IF f.high # NoLevel
  THEN LET b1 == BagAdd(b, Tok(f.high, Geom(f)), 1)
       IN IF f.low # NoLevel THEN BagAdd(b1, Tok(f.low, Geom(f)), -1) ELSE b1
  ELSE BagAdd(b, Tok(f.low, Geom(f)), 1)

\* ---- configurations ----------------------------------------------------------------------
LinksFor(sel) == IF ~WithLinks THEN {<<>>}
                 ELSE {<<>>} \cup { <<[s |-> s, l |-> l]>> : s \in AtomSet(sel), l \in Atoms \ AtomSet(sel) }
SystemFrags == { [sel |-> SelNone, links |-> <<>>, low |-> m, high |-> NoLevel] : m \in Levels }
ModelSels   == SelArgs \ {SelNone}
ModelFrags  == UNION { { [sel |-> s, links |-> li, low |-> lo, high |-> hi] : li \in LinksFor(s), lo \in Levels, hi \in Levels }
                       : s \in ModelSels }
Configs == { <<s, a>> : s \in SystemFrags, a \in ModelFrags }
           \cup (IF MaxModels >= 2 THEN { <<s, a, b>> : s \in SystemFrags, a \in ModelFrags, b \in ModelFrags } ELSE {})

InitFormal == /\ frs \in Configs
              /\ k = 0
              /\ acc = EmptyBag
              /\ gcase = 0
NextFormal == /\ k < Len(frs)
              /\ acc' = Contribution(acc, frs[k + 1])
              /\ k' = k + 1
              /\ UNCHANGED <<frs, gcase>>

Done   == k = Len(frs)
Models == {i \in 2..Len(frs) : TRUE}
TelescopeLow == (Done /\ \A i \in Models : frs[i].high = frs[i].low)
                   => acc = Single(Tok(frs[1].low, WholeGeom))
WholeModel   == (Done /\ Len(frs) = 2 /\ AtomSet(frs[2].sel) = Atoms /\ frs[2].links = <<>> /\ frs[2].low = frs[1].low)
                   => acc = Single(Tok(frs[2].high, WholeGeom))
CoefSum      == Done => FoldSet(LAMBDA t, a : a + acc[t], 0, DOMAIN acc) = 1
AtomBalance  == Done => /\ FoldSet(LAMBDA t, a : a + acc[t] * Cardinality(t[3].atoms), 0, DOMAIN acc) = NA
                        /\ FoldSet(LAMBDA t, a : a + acc[t] * Cardinality(t[3].caps), 0, DOMAIN acc) = 0
\* same method, different options, one model: no cancellation - neither identity may be claimed
OptionsMatter == (Done /\ Len(frs) = 2 /\ frs[2].high # frs[2].low /\ frs[2].high[1] = frs[2].low[1])
                   => acc # Single(Tok(frs[1].low, WholeGeom))
\* partial sums: after the system fragment alone the energy is the low-level energy of the whole system
SystemFirst  == k = 1 => acc = Single(Tok(frs[1].low, WholeGeom))

\* ---- G: selection arguments -----------------------------------------------------------------
InitSel == /\ frs = <<>> /\ k = 0 /\ acc = EmptyBag
           /\ gcase \in SelArgs \cup {SelCount(0)}
NextSel == /\ k = 0 /\ k' = 1
           /\ PrintT(<<"SEL", ToJson([na |-> NA, sel |-> gcase, atoms |-> Resolve(gcase)])>>)
           /\ UNCHANGED <<frs, acc, gcase>>

\* ---- G: selection form x broken links (the fragment geometry the solvers see) ---------------------------
\* every selection argument x {no link, one link, two links}; a link [s, l, f]: s a selected atom, l an atom outside the
\* selection (any other atom for the whole-system form), f in Factors.  The driver runs each case through the real
\* distribute_atoms and C15Trace (kind "fraggeom") judges the recorded fragment geometry: selected atoms + exact caps.
LinkChoices(sel) == LET A   == AtomSet(sel)
                        out == IF sel.kind = "none" THEN Atoms ELSE Atoms \ A
                    IN {c \in {[s |-> s, l |-> l, f |-> f] : s \in A, l \in out, f \in Factors} : c.s # c.l}
LinkLists(sel) == {<<>>} \cup {<<a>> : a \in LinkChoices(sel)}
                  \cup ({<<a, b>> : a \in LinkChoices(sel), b \in LinkChoices(sel)} \ {<<a, a>> : a \in LinkChoices(sel)})
\* degenerate inputs are left out: a cap placed exactly on an atom (factor 8/8 puts it on the leaving atom: excluded when
\* the leaving atom belongs to the fragment, and for two links to the same leaving atom)
NonDegenerate(se, li) ==
  /\ \A i \in 1..Len(li) : ~(li[i].f = 8 /\ li[i].l \in AtomSet(se))
  /\ (Len(li) = 2 => ~(li[1].f = 8 /\ li[2].f = 8 /\ li[1].l = li[2].l))
InitFrag == /\ frs = <<>> /\ k = 0 /\ acc = EmptyBag
            /\ gcase \in UNION { {[sel |-> se, links |-> li] : li \in {x \in LinkLists(se) : NonDegenerate(se, x)}} : se \in SelArgs \cup {SelCount(0)} }
NextFrag == /\ k = 0 /\ k' = 1
            /\ PrintT(<<"FRG", ToJson([na |-> NA, sel |-> gcase.sel, links |-> gcase.links, atoms |-> Resolve(gcase.sel)])>>)
            /\ UNCHANGED <<frs, acc, gcase>>
\* every link of a case starts inside the selection
FragCaseOK == \A i \in 1..Len(gcase.links) : gcase.links[i].s \in AtomSet(gcase.sel) /\ gcase.links[i].l # gcase.links[i].s

\* ---- G: link atoms ------------------------------------------------------------------------------
Vec == Coords \X Coords \X Coords
Cap(s, l, f) == [i \in 1..3 |-> 8 * s[i] + f * (l[i] - s[i])]       \* units 1/64
InitLink == /\ frs = <<>> /\ k = 0 /\ acc = EmptyBag
            /\ gcase \in { [s |-> s, l |-> l, f |-> f] : s \in Vec, l \in Vec, f \in Factors }
NextLink == /\ k = 0 /\ k' = 1
            /\ PrintT(<<"LNK", ToJson([s |-> gcase.s, l |-> gcase.l, f |-> gcase.f, cap |-> Cap(gcase.s, gcase.l, gcase.f)])>>)
            /\ UNCHANGED <<frs, acc, gcase>>
\* on the bond: the cap, the staying and the leaving atom are collinear and the fraction is the factor
CapOnBond == LET c == Cap(gcase.s, gcase.l, gcase.f) IN
               /\ \A i \in 1..3 : 8 * (c[i] - 8 * gcase.s[i]) = gcase.f * 8 * (gcase.l[i] - gcase.s[i])
               /\ (gcase.f = 0 => \A i \in 1..3 : c[i] = 8 * gcase.s[i])
               /\ (gcase.f = 8 => \A i \in 1..3 : c[i] = 8 * gcase.l[i])

\* value sets for the configuration files
CoordsSmall == {-9, 0, 13}
CoordsWide  == {-9, 0, 4, 13}
FactorsAll  == {0, 4, 5, 8, 11, 16}
FactorsTwo  == {5, 8}
FactorsOne  == {6}
Opt1  == {"o"}
Opt2  == {"o", "p"}
Meth2 == {"LO", "HI"}
Meth3 == {"LO", "MID", "HI"}
NoCoords == {0}
=============================================================================
