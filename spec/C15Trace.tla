------------------------------ MODULE C15Trace ------------------------------
(***************************************************************************)
(* V-part of C15: records of real runs judged by TLC.                       *)
(*                                                                         *)
(* "oniom": one ONIOMProblemDecomposition.simulate() run.  Fields:          *)
(*   geometry  whole system, atoms <<species, x, y, z>> (10^-6 Angstrom)    *)
(*   frags     per fragment: sel (selection argument), links [s, l, f8,     *)
(*             sp, gsize] (factor in 1/8, anchor species, atoms added),     *)
(*             low / high: levels [m, o] = method and OPTIONS (basis,       *)
(*             frozen orbitals, charge, spin; m = "none" when absent),      *)
(*             geom (the fragment geometry the code built)                  *)
(*   total     value returned by simulate(), two-limb fixed point           *)
(*   refs      independent evaluations [m, o, geom, e] of E(method, options,  *)
(*             geometry)                                                    *)
(*             by direct solver calls (the uninterpreted function E sampled *)
(*             where needed)                                                *)
(*   expect    "low" | "high" | "none": identity the input was built for    *)
(*   optframe  per option dictionary OBJECT passed by the caller: its text  *)
(*             as written, after build and after simulate (frame condition: *)
(*             unchanged); levels may share one object, and a second ONIOM   *)
(*             object may be built on the same objects (field round)        *)
(* Verdict clauses, in order: the code's fragment geometries are the spec's *)
(* selection plus caps (cap = staying + f (leaving - staying) EXACTLY);      *)
(* equal (method, atom set) tokens have equal recorded values (determinism, *)
(* tolerance TolPerm for differently ordered atom lists); the total equals  *)
(* the formal combination SUM coef(token) E(token) (tolerance TolSum); when *)
(* the formal combination telescopes to one token the total is that energy  *)
(* (the two identities of the property), and it must telescope when the     *)
(* input was built to (expect).                                             *)
(*                                                                         *)
(* "fraggeom": the fragment geometry distribute_atoms builds for one         *)
(* selection argument with 0, 1 or 2 broken links (inputs enumerated by      *)
(* C15Oniom!InitFrag): selected atoms + caps at staying + f (leaving -       *)
(* staying) exactly; the other fragment and the caller's geometry untouched. *)
(*                                                                         *)
(* "group": placement of a capping group by Link.relink (anchor position is *)
(* judged exactly in the G part): recorded squared distances and one         *)
(* orientation cosine, OBSERVATIONAL.                                       *)
(*                                                                         *)
(* "dmet": the chemical-potential loop of one DMET run as a trace of        *)
(* recorded fixed-point scalars: events oneshot(mu, mismatch, energy,       *)
(* save) ... done(mu, energy).  State machine iter -> saved -> done.        *)
(* OBSERVATIONAL invariants: |mismatch re-evaluated at mu*| <= TolN, the    *)
(* returned energy/potential are those of the saved evaluation, exact       *)
(* embedding |E - E_FCI| <= TolE when flagged AND the recorded fragment+bath *)
(* dimensions all equal the number of orbitals, relabelled partner run      *)
(* gives the same energy.  Documented options: virtual_orbital_threshold =  *)
(* 0 turns the bath truncation off (recorded dimensions span the space),    *)
(* the search starts at initial_chemical_potential, the result of a         *)
(* caller-supplied optimizer is the chemical potential that is used.        *)
(***************************************************************************)
EXTENDS C15Defs

Jobs == JsonDeserialize(IOEnv.VERIF_JOBS)
VARIABLE ji

TolSum  == 200        \* 2e-8 Hartree: same code, same atom order, deterministic solvers
TolPerm == 20000      \* 2e-6 Hartree: same molecule, atoms listed in another order (observational)

\* ---- ONIOM ---------------------------------------------------------------------------------
AtomT(a)     == <<a[1], a[2], a[3], a[4]>>
AtomSetOf(g) == {AtomT(g[i]) : i \in 1..Len(g)}
NAtoms(j)    == Len(j.geometry)

SelOK(sel, na) == CASE sel.kind = "none"  -> TRUE
                    [] sel.kind = "count" -> sel.n \in 0..na
                    [] sel.kind = "list"  -> /\ \A i \in 1..Len(sel.l) : sel.l[i] \in 0..(na - 1)
                                             /\ Cardinality({sel.l[i] : i \in 1..Len(sel.l)}) = Len(sel.l)
                    [] OTHER -> FALSE
\* cap = staying + (f8 / 8) (leaving - staying); coordinates are multiples of 125000 (1/8 Angstrom) so this is exact
CapAtom(j, li) == LET s == j.geometry[li.s + 1]
                      l == j.geometry[li.l + 1]
                  IN <<li.sp, s[2] + li.f8 * ((l[2] - s[2]) \div 8), s[3] + li.f8 * ((l[3] - s[3]) \div 8),
                       s[4] + li.f8 * ((l[4] - s[4]) \div 8)>>
OnGrid(j) == \A i \in 1..NAtoms(j) : \A c \in 2..4 : j.geometry[i][c] % 125000 = 0
ExpectedCore(j, f) == LET idx == ResolveSel(f.sel, NAtoms(j))
                      IN {AtomT(j.geometry[idx[i] + 1]) : i \in 1..Len(idx)}
                         \cup {CapAtom(j, f.links[i]) : i \in 1..Len(f.links)}
ExpectedLen(j, f) == Len(ResolveSel(f.sel, NAtoms(j))) + FoldSet(LAMBDA i, a : a + f.links[i].gsize, 0, 1..Len(f.links))
DistributionOK(j, f) ==
  /\ Len(f.geom) = ExpectedLen(j, f)
  /\ Cardinality(AtomSetOf(f.geom)) = Len(f.geom)
  /\ ExpectedCore(j, f) \subseteq AtomSetOf(f.geom)
  /\ ((\A i \in 1..Len(f.links) : f.links[i].gsize = 1) => ExpectedCore(j, f) = AtomSetOf(f.geom))

Tok(lv, g) == <<lv.m, lv.o, AtomSetOf(g)>>
Absent(lv) == lv.m = None
FragBag(b, f) ==
  IF ~Absent(f.high)
  THEN LET b1 == BagAdd(b, Tok(f.high, f.geom), 1)
       IN IF ~Absent(f.low) THEN BagAdd(b1, Tok(f.low, f.geom), -1) ELSE b1
  ELSE BagAdd(b, Tok(f.low, f.geom), 1)
RECURSIVE FormalFrom(_, _, _)
FormalFrom(j, i, b) == IF i > Len(j.frags) THEN b ELSE FormalFrom(j, i + 1, FragBag(b, j.frags[i]))
Formal(j) == FormalFrom(j, 1, EmptyBag)

RefsOf(j, t)  == {i \in 1..Len(j.refs) : Tok(j.refs[i], j.refs[i].geom) = t}
HasRef(j, t)  == RefsOf(j, t) # {}
RefVal(j, t)  == j.refs[CHOOSE i \in RefsOf(j, t) : TRUE].e
\* same ordered geometry => TolSum, otherwise TolPerm
Deterministic(j) ==
  \A a, b \in 1..Len(j.refs) :
     (Tok(j.refs[a], j.refs[a].geom) = Tok(j.refs[b], j.refs[b].geom))
        => Close(j.refs[a].e, j.refs[b].e, IF j.refs[a].geom = j.refs[b].geom THEN TolSum ELSE TolPerm)

\* some token was evaluated on differently ordered atom lists: cancellations are then only good to TolPerm
MixedOrders(j) == \E a, b \in 1..Len(j.refs) : /\ Tok(j.refs[a], j.refs[a].geom) = Tok(j.refs[b], j.refs[b].geom)
                                                /\ j.refs[a].geom # j.refs[b].geom

\* SUM coef * E in limbs, compared with the total
SumHi(j, b) == FoldSet(LAMBDA t, a : a + b[t] * RefVal(j, t)[1], 0, DOMAIN b)
SumLo(j, b) == FoldSet(LAMBDA t, a : a + b[t] * RefVal(j, t)[2], 0, DOMAIN b)
SumClose(j, b, tol) == LET dh == SumHi(j, b) - j.total[1]
                           dl == SumLo(j, b) - j.total[2]
                       IN /\ Abs(dh) <= 1000
                          /\ Abs(dh * 1000000 + dl) <= tol

Telescoped(b) == Cardinality(DOMAIN b) = 1 /\ \A t \in DOMAIN b : b[t] = 1
WholeTok(j, lv) == Tok(lv, j.geometry)
SystemFrags(j) == {i \in 1..Len(j.frags) : j.frags[i].sel.kind = "none" /\ Absent(j.frags[i].high)}

\* frame condition: every option dictionary the caller passed in is unchanged (canonical JSON text) after the
\* construction/build and after simulate()
OptionsUntouched(j) == \A i \in 1..Len(j.optframe) :
                          j.optframe[i].built = j.optframe[i].written /\ j.optframe[i].simulated = j.optframe[i].written

OniomVerdict(j) ==
  IF ~(\A i \in 1..Len(j.frags) : SelOK(j.frags[i].sel, NAtoms(j))) THEN "malformed-selection"
  ELSE IF ~OnGrid(j) /\ (\E i \in 1..Len(j.frags) : Len(j.frags[i].links) > 0) THEN "malformed-off-grid-links"
  ELSE IF \E i \in 1..Len(j.frags) : ~DistributionOK(j, j.frags[i]) THEN "atom-distribution-wrong"
  ELSE LET b == Formal(j) IN
       IF ~(\A t \in DOMAIN b : HasRef(j, t)) THEN "malformed-missing-reference"
       ELSE IF ~Deterministic(j) THEN "equal-tokens-different-energies"
       ELSE IF ~Close(j.total, j.total2, 0) THEN "second-simulate-differs"
       ELSE IF ~SumClose(j, b, IF MixedOrders(j) THEN TolPerm ELSE TolSum) THEN "total-is-not-the-formal-sum"
       ELSE IF j.expect = "low" /\ ~(Telescoped(b) /\ \E i \in SystemFrags(j) : b = Single(WholeTok(j, j.frags[i].low)))
            THEN "identity-low-does-not-telescope"
       ELSE IF j.expect = "high" /\ ~(Telescoped(b) /\ \E i \in 1..Len(j.frags) : ~Absent(j.frags[i].high) /\ b = Single(WholeTok(j, j.frags[i].high)))
            THEN "identity-high-does-not-telescope"
       ELSE IF j.expect = "none" /\ Telescoped(b) THEN "malformed-unexpected-telescoping"
       ELSE IF ~OptionsUntouched(j) THEN "caller-option-dictionaries-modified"      \* energies right, but the caller's dicts were consumed
       ELSE "ok"

\* ---- Link.relink alone (exact): [s, l, f8] in 1/8, cap in 1/64 ------------------------------
\* (judged in the G part by the driver against C15Oniom!Cap; nothing to do here)

\* ---- DMET trace ------------------------------------------------------------------------------------
\* events: [ev |-> "oneshot", mu, mis, e, save] / [ev |-> "done", mu, e]
RECURSIVE DmetAccept(_, _, _, _)
\* st: "iter" | "saved" | "done" | "rejected:<why>"; last: the saved oneshot event
DmetAccept(ev, i, st, last) ==
  IF i > Len(ev) THEN <<st, last>>
  ELSE LET e == ev[i] IN
       IF e.ev = "oneshot" /\ st = "iter" /\ ~e.save THEN DmetAccept(ev, i + 1, "iter", last)
       ELSE IF e.ev = "oneshot" /\ st = "iter" /\ e.save THEN DmetAccept(ev, i + 1, "saved", e)
       ELSE IF e.ev = "done" /\ st = "saved" THEN DmetAccept(ev, i + 1, "done", last)
       ELSE <<"rejected", last>>

\* premise of the exact-embedding claim, from recorded dimensions: every fragment+bath space has the size of the
\* whole orbital space
SpansWholeSpace(j) == Len(j.dims) >= 1 /\ \A i \in 1..Len(j.dims) : j.dims[i] = j.norb

DmetVerdict(j) ==
  LET r    == DmetAccept(j.events, 1, "iter", [ev |-> "none"])
      fin  == j.events[Len(j.events)]
  IN IF Len(j.events) < 2 THEN "trace-too-short"
     ELSE IF r[1] # "done" THEN "trace-not-accepted"
     ELSE IF ~(Close(fin.mu, r[2].mu, 0) /\ Close(fin.e, r[2].e, 0)) THEN "returned-values-not-from-final-evaluation"
     ELSE IF ~Close(j.recheck, <<0, 0>>, j.tolN) THEN "electron-count-mismatch-at-convergence"
     ELSE IF ~Close(r[2].mis, <<0, 0>>, j.tolN) THEN "electron-count-mismatch-at-convergence"
     ELSE IF j.vot = "zero" /\ ~SpansWholeSpace(j) THEN "virtual-orbital-threshold-0-still-truncates-the-bath"
     ELSE IF ~Close(j.events[1].mu, j.mu0, 0) THEN "initial-chemical-potential-not-used"
     ELSE IF j.useropt /\ ~Close(fin.mu, j.optret, 0) THEN "user-optimizer-result-not-used"
     ELSE IF j.exact /\ ~SpansWholeSpace(j) THEN "skip-premise-not-met"       \* a bath smaller than the fragment: not the exact case
     ELSE IF j.exact /\ ~Close(fin.e, j.efci, j.tolE) THEN "exact-embedding-energy-differs-from-fci"
     ELSE IF j.haspartner /\ ~Close(fin.e, j.partner, j.tolE) THEN "relabelled-atoms-different-energy"
     ELSE "ok"

\* ---- fragment geometries through distribute_atoms (no energies): selection form x broken links ---------------
\* frags: the fragment under test followed by a plain whole-system fragment; geometry_after: the caller's geometry list
\* after the construction (frame condition: unchanged)
FragGeomVerdict(j) ==
  IF ~(\A i \in 1..Len(j.frags) : SelOK(j.frags[i].sel, NAtoms(j))) THEN "malformed-selection"
  ELSE IF ~OnGrid(j) THEN "malformed-off-grid"
  ELSE IF ~DistributionOK(j, j.frags[1]) THEN "fragment-geometry-is-not-selection-plus-caps"
  ELSE IF \E i \in 2..Len(j.frags) : ~DistributionOK(j, j.frags[i]) THEN "other-fragment-disturbed"
  ELSE IF j.geometry_after # j.geometry THEN "input-geometry-modified"
  ELSE "ok"

\* ---- capping groups (OBSERVATIONAL, recorded fixed-point scalars, units 10^-8) ---------------------------
\* rigid placement: the pairwise squared distances of the group are those of the template (d2n = d2t) and the group
\* is oriented along the broken bond: cos of the angle between (centroid of the other atoms - anchor) and the bond
\* direction staying -> leaving equals the template's cos between (centroid - anchor) and (anchor - ghost atom X)
GroupVerdict(j) ==
  IF Len(j.d2n) # Len(j.d2t) THEN "group-size-differs"
  ELSE IF \E i \in 1..Len(j.d2t) : Abs(j.d2n[i] - j.d2t[i]) > j.tol THEN "group-not-rigid"
  ELSE IF Abs(j.cosn - j.cost) > j.tol THEN "group-misoriented"
  ELSE "ok"

Verdict(j) == CASE j.kind = "oniom" -> OniomVerdict(j)
                [] j.kind = "group" -> GroupVerdict(j)
                [] j.kind = "fraggeom" -> FragGeomVerdict(j)
                [] j.kind = "dmet"  -> DmetVerdict(j)
                [] OTHER -> "unknown-kind"

JInit == ji \in 1..Len(Jobs)
JNext == /\ ji > 0
         /\ PrintT(<<"V", Jobs[ji].id, Verdict(Jobs[ji])>>)
         /\ ji' = 0
=============================================================================
