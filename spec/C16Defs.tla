------------------------------ MODULE C16Defs ------------------------------
(***************************************************************************)
(* C16 - operator arithmetic returns correct values and never mutates      *)
(* operands.  Value domain and the semantics of one arithmetic step.        *)
(*                                                                         *)
(* Value of an operator object = finite map  key |-> coefficient           *)
(* (Gaussian integers carried in the ring R_M):                            *)
(*   Family "F" (fermionic): key = sequence of <<mode, dag>>.  openfermion  *)
(*     keeps products un-normal-ordered, so  product = concatenation of    *)
(*     the keys with the product of the coefficients, sum = pointwise.     *)
(*   Family "Q" (qubit): key = Pauli word on NQ qubits (Pauli.tla);        *)
(*     product = MulWord with its phase i^p.                                *)
(* An object is [cls, ann, val]:                                           *)
(*   cls  "TF" Tangelo FermionOperator     ann <<n_spinorbitals, n_electrons, spin>>  (-1 = None) *)
(*        "OF" openfermion FermionOperator ann <<>>                        *)
(*        "QH" Tangelo QubitHamiltonian    ann <<mapping, up_then_down>>    *)
(*             mapping 0 None 1 "JW" 2 "jw" 3 "BK"; up_then_down 0 None 1 False 2 True *)
(*        "QO" Tangelo QubitOperator, "OQ" openfermion QubitOperator  ann <<>> *)
(*        "null" unbound name                                               *)
(*                                                                         *)
(* Outcome of a step: "ok" (must succeed with the algebraic result),        *)
(* "reject" (documented annotation mismatch: must raise, nothing changes),  *)
(* "either" (the documentation is silent: both behaviours conform, the      *)
(* frame conditions still hold).                                            *)
(***************************************************************************)
EXTENDS Fock, TLC, Json, SequencesExt

CONSTANTS Family,     \* "F" or "Q"
          NQ          \* number of modes / qubits

\* ---- values -----------------------------------------------------------------
IdKey == IF Family = "F" THEN <<>> ELSE IdWord(NQ)
AConst(s) == OpClean(TLCEval([t \in {IdKey} |-> s]))

\* fermionic product: concatenation (several pairs may concatenate to the same key)
FMul(A, B) ==
  LET T == {a \o b : a \in DOMAIN A, b \in DOMAIN B}
  IN OpClean(TLCEval([t \in T |->
       FoldSet(LAMBDA pr, acc : Add(acc, Mul(A[pr[1]], B[pr[2]])), RZero,
               {pr \in (DOMAIN A) \X (DOMAIN B) : pr[1] \o pr[2] = t})]))

AMul(A, B) == IF Family = "F" THEN FMul(A, B) ELSE OpMul(A, B, NQ)
AAdd(A, B) == OpAdd(A, B)
ASub(A, B) == OpSub(A, B)
ANeg(A)    == OpClean(OpNeg(A))
ABin(op, A, B) == CASE op = "add" -> AAdd(A, B) [] op = "sub" -> ASub(A, B) [] op = "mul" -> AMul(A, B)

GI == (HM \div 2) + 1                       \* position of the imaginary unit in the coefficient tuple
IsGauss(z) == z.k = 0 /\ \A j \in 1..HM : (j \notin {1, GI} => z.c[j] = 0)
Small(z, bound) == \A j \in 1..HM : z.c[j] <= bound /\ -z.c[j] <= bound
KeyLen(t) == Len(t)
ValOK(v, maxTerms, maxLen, bound) ==
  /\ Cardinality(DOMAIN v) <= maxTerms
  /\ \A t \in DOMAIN v : IsGauss(v[t]) /\ Small(v[t], bound) /\ (Family = "F" => Len(t) <= maxLen)

\* export form: sequence of [t, re, im]
ValSeq(v) == SetToSeq({[t |-> w, re |-> v[w].c[1], im |-> v[w].c[GI]] : w \in DOMAIN v})

\* ---- objects ------------------------------------------------------------------
Obj(c, a, v) == [cls |-> c, ann |-> a, val |-> v]
Null == Obj("null", <<>>, OpZero)
NoneF == <<-1, -1, -1>>

FullQ(a)     == a[1] # 0 /\ a[2] # 0
MapUpper(m)  == IF m = 2 THEN 1 ELSE m                   \* "jw".upper() = "JW"
QMismatch(x, y) == /\ FullQ(x.ann) /\ FullQ(y.ann)
                   /\ (MapUpper(x.ann[1]) # MapUpper(y.ann[1]) \/ x.ann[2] # y.ann[2])

Tangelo(c) == c \in {"TF", "QH", "QO"}

\* outcome of  x (op) y  for two operator objects; op in add/sub/mul; aug = augmented assignment
OutOO(x, y, op, aug) ==
  CASE x.cls = "TF" /\ y.cls = "TF" -> IF x.ann = y.ann THEN "ok" ELSE "reject"
    [] x.cls = "TF" /\ y.cls = "OF" -> IF x.ann = NoneF THEN "ok" ELSE "reject"
    [] x.cls = "OF" /\ y.cls = "TF" -> IF y.ann = NoneF THEN "ok" ELSE "either"
    [] x.cls = "OF" /\ y.cls = "OF" -> "ok"
    [] x.cls = "OQ"                 -> "ok"
    [] x.cls = "QO"                 -> IF y.cls = "OQ" THEN "either" ELSE "ok"
    [] x.cls = "QH" /\ y.cls = "OQ" -> IF op = "add" THEN "ok" ELSE "either"       \* a native openfermion operator is a plain operator too
    [] x.cls = "QH" /\ y.cls = "QO" -> IF op = "add" THEN "ok" ELSE "either"       \* documented for + and ==
    [] x.cls = "QH" /\ y.cls = "QH" -> IF QMismatch(x, y) THEN (IF op = "add" THEN "reject" ELSE "either") ELSE "ok"

\* class of the result object (Python dispatch: a subclass overriding the reflected method is tried first)
ResCls(x, y, op, aug) ==
  IF aug THEN x.cls
  ELSE IF x.cls = "OF" /\ y.cls = "TF" /\ op \in {"add", "sub"} THEN "TF"
  ELSE x.cls
ResAnn(x, y, op, aug) == IF ResCls(x, y, op, aug) = x.cls THEN x.ann ELSE y.ann

EqOutcome(x, y) == "ok"
EqValue(x, y) ==
  /\ OpEq(x.val, y.val)
  /\ (x.cls = "TF" /\ y.cls = "TF" => x.ann = y.ann)
  /\ (x.cls = "QH" /\ y.cls = "QH" => ~QMismatch(x, y))

\* ---- scalars (index into a table; the harness maps 1 -> int -1, 2 -> float 2.0, 3 -> complex 1j) ----------
\* The spec value is just the number; the harness supplies it in the listed Python / numpy type:
\*   1 int -1          2 float 2.0        3 complex 1j        4 int 0
\*   5 np.int8 -1      6 np.int16 2       7 np.int32 -2       8 np.int64 3
\*   9 np.uint8 3     10 np.uint16 2     11 np.uint32 3      12 np.uint64 2
\*  13 np.float32 2.0 14 np.float64 -1.0 15 np.complex64 1j  16 np.complex128 1j   17 int -3
ScalarNum == << -1, 2, 0, 0, -1, 2, -2, 3, 3, 2, 3, 2, 2, -1, 0, 0, -3 >>
ScalarVal(s) == IF s \in {3, 15, 16} THEN RI ELSE FromInt(ScalarNum[s])
\* np.complex64 is neither a Python complex nor an np.floating: it is not in COEFFICIENT_TYPES, both behaviours conform
ScalarOut(s) == IF s = 15 THEN "either" ELSE "ok"

\* ---- pools of classes / annotations / values ----------------------------------
FClsPool == { <<"TF", NoneF>>, <<"TF", <<4, 2, 0>> >>, <<"TF", <<4, 2, 2>> >>, <<"OF", <<>> >> }
QClsPool == { <<"QO", <<>> >>, <<"OQ", <<>> >>, <<"QH", <<0, 0>> >>, <<"QH", <<1, 1>> >>, <<"QH", <<2, 1>> >>,
              <<"QH", <<3, 1>> >>, <<"QH", <<1, 2>> >>, <<"QH", <<3, 0>> >> }
ClsPool == IF Family = "F" THEN FClsPool ELSE QClsPool

Coefs == {Neg(ROne), ROne, FromInt(2), RI}
FKeys == { <<>>, << <<0, 1>> >>, << <<1, 0>> >>, << <<0, 1>>, <<1, 0>> >>, << <<1, 1>>, <<0, 0>> >>, << <<0, 1>>, <<0, 0>> >> }
QKeys == { <<0, 0>>, <<1, 3>>, <<2, 0>>, <<3, 3>>, <<0, 1>>, <<2, 2>> }
Keys  == IF Family = "F" THEN FKeys ELSE QKeys

Val1(t, c) == TLCEval([w \in {t} |-> c])
Vals1 == {Val1(t, c) : t \in Keys, c \in Coefs}
Vals2 == {OpAdd(Val1(t, c), Val1(u, e)) : t \in Keys, u \in Keys, c \in Coefs, e \in Coefs} \ {OpZero}
ValsAll == Vals1 \cup Vals2

\* a few fixed, mutually non-commuting values for the deep runs
K1 == IF Family = "F" THEN << <<0, 1>>, <<1, 0>> >> ELSE <<1, 3>>
K2 == IF Family = "F" THEN << <<1, 1>>, <<0, 0>> >> ELSE <<2, 0>>
K3 == IF Family = "F" THEN << <<1, 1>> >> ELSE <<3, 3>>
ValA == OpAdd(Val1(K1, FromInt(2)), Val1(IdKey, RI))
ValB == Val1(K2, RI)
ValC == OpAdd(Val1(K1, Neg(ROne)), Val1(K3, ROne))
ValsFixed == {ValA, ValB, ValC}
\* degenerate values: the empty operator (no terms at all) and the identity-only operator
ValId == Val1(IdKey, ROne)              \* the unit operator (neutral element of the product)
=============================================================================
