------------------------------- MODULE C16Laws -------------------------------
(***************************************************************************)
(* S-part of C16: the value domain that judges the code is itself checked. *)
(* Ring laws on the enumerated values (both families), and the link of the  *)
(* value-level product with the operator semantics:                          *)
(*   fermionic: <X| A*B |Y> = SUM_Z <X|A|Z><Z|B|Y> on every determinant     *)
(*              (concatenation of un-normal-ordered terms IS the product),  *)
(*   qubit:     matrix of OpMul = product of the matrices.                   *)
(* Every check is printed as <<"LC", name, BOOLEAN>>.                        *)
(***************************************************************************)
EXTENDS C16Defs

VARIABLE x
Init == x = 0
Next == x' = x

Check(name, cond) == PrintT(<<"LC", name, cond>>)

Sample == ValsFixed \cup {Val1(IdKey, FromInt(2)), Val1(K2, Neg(ROne)), OpAdd(Val1(K2, ROne), Val1(K3, RI))}

ASSUME Check("add-comm-assoc", \A a, b \in ValsAll : AAdd(a, b) = AAdd(b, a))
ASSUME Check("add-assoc-neutral-inverse",
   \A a, b, c \in Sample : /\ AAdd(a, AAdd(b, c)) = AAdd(AAdd(a, b), c)
                           /\ AAdd(a, OpZero) = a /\ ASub(a, a) = OpZero /\ AAdd(a, ANeg(a)) = OpZero
                           /\ ASub(a, b) = AAdd(a, ANeg(b)))
ASSUME Check("mul-assoc", \A a, b, c \in Sample : AMul(a, AMul(b, c)) = AMul(AMul(a, b), c))
ASSUME Check("distributive",
   \A a, b, c \in Sample : /\ AMul(a, AAdd(b, c)) = AAdd(AMul(a, b), AMul(a, c))
                           /\ AMul(AAdd(a, b), c) = AAdd(AMul(a, c), AMul(b, c)))
ASSUME Check("unit-and-scalars",
   \A a \in ValsAll : /\ AMul(a, AConst(ROne)) = a /\ AMul(AConst(ROne), a) = a
                      /\ \A s \in 1..17 : AMul(AConst(ScalarVal(s)), a) = OpScale(ScalarVal(s), a)
                                      /\ AMul(a, AConst(ScalarVal(s))) = OpScale(ScalarVal(s), a)
                      /\ AMul(a, OpZero) = OpZero)
ASSUME Check("noncommutative-domain", \E a, b \in ValsFixed : AMul(a, b) # AMul(b, a))

\* value -> operator semantics
FSeq(v) == SetToSeq({[t |-> w, c |-> v[w]] : w \in DOMAIN v})
ASSUME Check("product-is-operator-product",
   IF Family = "F"
   THEN \A a, b \in Sample : \A X, Y \in Dets(NQ) :
          FOpElement(FSeq(AMul(a, b)), X, Y)
            = FoldSet(LAMBDA Z, acc : Add(acc, Mul(FOpElement(FSeq(a), X, Z), FOpElement(FSeq(b), Z, Y))), RZero, Dets(NQ))
   ELSE \A a, b \in Sample : \A r, c \in 0..(Dim(NQ) - 1) :
          OpElement(AMul(a, b), r, c, NQ)
            = FoldSet(LAMBDA k, acc : Add(acc, Mul(OpElement(a, r, k, NQ), OpElement(b, k, c, NQ))), RZero, 0..(Dim(NQ) - 1)))
=============================================================================
