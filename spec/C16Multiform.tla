----------------------------- MODULE C16Multiform -----------------------------
(***************************************************************************)
(* V-part of C16 for the array-based Pauli operator form                    *)
(* (tangelo MultiformOperator).  The harness records, for a pair of Pauli   *)
(* operators A, B on n qubits:                                              *)
(*   P     rows (word, factor) of the integer array / factors of A * B       *)
(*   PT    the `terms` dictionary of A * B                                   *)
(*   dc    do_commute(A, B)                                                  *)
(*   tr    do_commute(A, B, term_resolved=True)  (one Boolean per term of A, *)
(*         in the order of the rows A of the record)                         *)
(* and TLC judges them against the exact Pauli algebra (Pauli.tla):          *)
(*   bit 1   P  # A * B as operators            (wrong product / phase)      *)
(*   bit 2   P has duplicate words or a zero factor     (not collapsed)      *)
(*   bit 4   PT # P                                     (forms disagree)     *)
(*   bit 8   dc = TRUE  but [A, B] # 0                                       *)
(*   bit 16  dc = FALSE but [A, B] = 0                                       *)
(*   bit 32  tr[i] # (word A_i commutes with every word of B)                *)
(*   bit 64  malformed record                                                 *)
(* The verdict is the sum of the bits (0 = conforms).                        *)
(* Records of kind "collapse" carry the rows A, B handed to                  *)
(* MultiformOperator.collapse as one stacked array (hundreds of rows,        *)
(* repeated words, int8 / int64) and the returned rows P:                    *)
(*   bit 1   P # A + B as operators      bit 2   P not collapsed             *)
(***************************************************************************)
EXTENDS Pauli, TLC, Json, IOUtils

Jobs == JsonDeserialize(IOEnv.VERIF_JOBS)
VARIABLE i

Words(ts) == {ts[x].w : x \in 1..Len(ts)}
WF(ts, n) == \A x \in 1..Len(ts) : Len(ts[x].w) = n /\ \A q \in 1..n : ts[x].w[q] \in 0..3

\* kind "collapse": P = rows returned by MultiformOperator.collapse for the stacked rows A followed by B
\* (duplicates inside A, inside B and across them); the oracle is the sum of the two Pauli operators
CollapseVerdict(j) ==
  LET n  == j.n
      AB == OpAdd(OpFromTerms(j.A), OpFromTerms(j.B))
      b1 == IF OpEq(OpFromTerms(j.P), AB) THEN 0 ELSE 1
      b2 == IF Cardinality(Words(j.P)) # Len(j.P) \/ \E x \in 1..Len(j.P) : j.P[x].c = RZero THEN 2 ELSE 0
  IN IF ~(WF(j.A, n) /\ WF(j.B, n) /\ WF(j.P, n)) THEN 64 ELSE b1 + b2

PairVerdict(j) ==
  LET n  == j.n
      A  == OpFromTerms(j.A)
      B  == OpFromTerms(j.B)
      AB == OpMul(A, B, n)
      comm0 == OpIsZero(OpCommutator(A, B, n))
      b1 == IF j.has_prod /\ ~OpEq(OpFromTerms(j.P), AB) THEN 1 ELSE 0
      b2 == IF j.has_prod /\ (Cardinality(Words(j.P)) # Len(j.P) \/ \E x \in 1..Len(j.P) : j.P[x].c = RZero) THEN 2 ELSE 0
      b4 == IF j.has_prod /\ ~OpEq(OpFromTerms(j.P), OpFromTerms(j.PT)) THEN 4 ELSE 0
      b8 == IF j.has_dc /\ j.dc /\ ~comm0 THEN 8 ELSE 0
      b16 == IF j.has_dc /\ ~j.dc /\ comm0 THEN 16 ELSE 0
      b32 == IF j.has_tr /\ (Len(j.tr) # Len(j.A) \/
                \E x \in 1..Len(j.A) : j.tr[x] # (\A y \in 1..Len(j.B) : CommuteWords(j.A[x].w, j.B[y].w, n))) THEN 32 ELSE 0
  IN IF ~(WF(j.A, n) /\ WF(j.B, n) /\ (j.has_prod => WF(j.P, n) /\ WF(j.PT, n))) THEN 64
     ELSE b1 + b2 + b4 + b8 + b16 + b32

Verdict(j) == IF j.kind = "collapse" THEN CollapseVerdict(j) ELSE PairVerdict(j)

JInit == i \in 1..Len(Jobs)
JNext == i > 0 /\ PrintT(<<"V", Jobs[i].id, Verdict(Jobs[i])>>) /\ i' = 0
=============================================================================
