------------------------- MODULE C16MultiformMachine -------------------------
(***************************************************************************)
(* C16 - the array-based Pauli operator object (tangelo MultiformOperator)  *)
(* as a state machine.                                                      *)
(*                                                                         *)
(* An object carries TWO abstract values (Pauli operators, Pauli.tla):      *)
(*   val  what its symbolic `terms` dictionary denotes                      *)
(*   arr  what its array forms (integer, binary, binary_swap, factors)      *)
(*        denote.  In-place symbolic arithmetic, the forms *= += -= taken from *)
(*        openfermion) changes val only; compress() re-derives the arrays   *)
(*        (arr := val, kernel reset); remove_terms works on the arrays and   *)
(*        rebuilds terms from them (val := arr); the array product `*`,      *)
(*        collapse of stacked arrays and do_commute read arr.                *)
(* The array-reading actions are enabled on objects whose arrays are in sync *)
(* (val = arr); get_kernel additionally needs a non-trivial symmetry.        *)
(* k = TRUE iff the kernel attribute is set (get_kernel), compress resets it.*)
(*                                                                         *)
(* Actions (names m, s, p):                                                 *)
(*   IMulO x *= y    IMulS x *= scalar    IAddO x += y    ISubO x -= y       *)
(*   CompressDD .. CompressBN  x.compress(abs_tol, n_qubits): one action per  *)
(*            combination of abs_tol in (not given, 1e-12, 1.5 = removes the  *)
(*            components of modulus 1) and n_qubits in (not given = the       *)
(*            register shrinks to count_qubits, N)                            *)
(*   RemoveInt / RemoveList / RemoveArray  x.remove_terms(i | [i, j] | array) *)
(*   Mul      r := x * y             (array product, collapse inside)        *)
(*   AddCollapse r := from_integerop of collapse(stacked rows of x and y)    *)
(*   Commute  do_commute(x, y, term_resolved) - both orders, both flags      *)
(*   RoundTripN / RoundTripD  r := from_qubitop(x.qubitoperator[, N]) and     *)
(*            r.compress([n_qubits=N])  (with / without the optional width)  *)
(*   GetKernel x.get_kernel()                                                *)
(* Every step exports, for every row of the array value, the exact rows of   *)
(* ALL derived forms (integer code 0 I 1 Z 2 X 3 Y; binary (x|z); swapped    *)
(* (z|x)); the harness compares every attribute of every object after every  *)
(* step.  EncodingOK checks the specification's own encodings: the           *)
(* symplectic product of the exported swapped and binary rows is the         *)
(* commutation relation of Pauli.tla.                                        *)
(***************************************************************************)
EXTENDS C16Defs

CONSTANTS MaxDepth, MaxTerms, Bound,
          ValsM, ValsS,        \* initial values of m and s
          Scalars, Targets, Export

N == NQ
Names == {"m", "s", "p"}

VARIABLES heap, d, hist, h0
vars == <<heap, d, hist, h0>>

\* ---- encodings of the array forms (n = register width of the object) ---------------------------------
IntCode(l) == CASE l = 0 -> 0 [] l = 1 -> 2 [] l = 2 -> 3 [] l = 3 -> 1
IntRowN(w, n)  == TLCEval([q \in 1..n |-> IntCode(w[q])])
XBit(l) == IF l \in {1, 2} THEN 1 ELSE 0
ZBit(l) == IF l \in {2, 3} THEN 1 ELSE 0
BinRowN(w, n)  == TLCEval([c \in 1..(2 * n) |-> IF c <= n THEN XBit(w[c]) ELSE ZBit(w[c - n])])
SwapRowN(w, n) == TLCEval([c \in 1..(2 * n) |-> IF c <= n THEN ZBit(w[c]) ELSE XBit(w[c - n])])
IntRow(w) == IntRowN(w, N)
BinRow(w) == BinRowN(w, N)
SwapRow(w) == SwapRowN(w, N)

EncodingOK ==
  \A a, b \in AllWords(N) :
     (SumSeq([c \in 1..(2 * N) |-> SwapRow(a)[c] * BinRow(b)[c]], 2 * N) % 2 = 0) <=> CommuteWords(a, b, N)

\* ---- objects -----------------------------------------------------------------------------------
\* n = the register width the array forms are built for (n_qubits); words keep length N, a width n < N is only
\* reached when no word acts on the qubits n..N-1
MObj(v, a, k, n) == [ex |-> TRUE, val |-> v, arr |-> a, k |-> k, n |-> n]
MNull == [ex |-> FALSE, val |-> OpZero, arr |-> OpZero, k |-> FALSE, n |-> 0]

ArrX(v, n) == SetToSeq({[w |-> w, re |-> v[w].c[1], im |-> v[w].c[GI], int |-> IntRowN(w, n), bin |-> BinRowN(w, n), swp |-> SwapRowN(w, n)] : w \in DOMAIN v})
MObjX(o) == [ex |-> o.ex, val |-> ValSeq(o.val), arr |-> ArrX(o.arr, o.n), k |-> o.k, n |-> o.n]
HeapX(h) == [m |-> MObjX(h["m"]), s |-> MObjX(h["s"]), p |-> MObjX(h["p"])]

\* named value sets for the configuration files
W1(a, b) == <<a, b>>
MV1 == OpAdd(Val1(W1(1, 3), FromInt(2)), Val1(W1(2, 0), RI))                         \* 2 X0Z1 + i Y0
MV2 == OpAdd(OpAdd(Val1(W1(1, 0), ROne), Val1(W1(3, 1), Neg(ROne))), Val1(W1(0, 0), FromInt(2)))   \* X0 - Z0X1 + 2
MV3 == OpAdd(Val1(W1(1, 1), ROne), Val1(W1(2, 2), ROne))                              \* X0X1 + Y0Y1
SV1 == Val1(W1(3, 0), ROne)                                                            \* Z0       (single word, last qubit idle)
SV2 == OpAdd(Val1(W1(3, 3), ROne), Val1(W1(0, 1), RI))                                 \* Z0Z1 + i X1
SV3 == OpAdd(Val1(W1(3, 0), ROne), Val1(W1(0, 3), ROne))                               \* Z0 + Z1
ValsMSmall == {MV1, MV3}
ValsMAll   == {MV1, MV2, MV3}
ValsSSmall == {SV1, SV2}
ValsSAll   == {SV1, SV2, SV3}
ScalarsAll == {1, 2, 3}
ScalarsOne == {3}
TargetsP   == {"p"}
TargetsAll == Names

Init == \E vm \in ValsM, vs \in ValsS :
          /\ heap = [n \in Names |-> IF n = "m" THEN MObj(vm, vm, FALSE, N) ELSE IF n = "s" THEN MObj(vs, vs, FALSE, N) ELSE MNull]
          /\ d = 0
          /\ hist = <<>>
          /\ h0 = HeapX(heap)

\* the array forms are only meaningful when they are in sync with the terms and built for the full register: the
\* array-reading operations are exercised on such objects (after construction, compress(n_qubits=N), array products)
Synced(X) == X.ex /\ X.val = X.arr
Full(X) == Synced(X) /\ X.n = N
Reducible(a) == \E u \in AllWords(N) \ {IdWord(N)} : \A v \in DOMAIN a : CommuteWords(u, v, N)     \* a non-trivial symmetry exists

OKVal(v) == ValOK(v, MaxTerms, 0, Bound)
\* count_qubits: highest qubit acted on + 1 (0 for the empty / identity-only operator)
CountQ(v) == IF \A w \in DOMAIN v : w = IdWord(N) THEN 0
             ELSE CHOOSE q \in 1..N : (\E w \in DOMAIN v : w[q] # 0) /\ (\A p \in (q + 1)..N : \A w \in DOMAIN v : w[p] = 0)

\* openfermion's compress(abs_tol): real and imaginary parts with |.| <= abs_tol are removed, then terms with
\* |coefficient| <= abs_tol.  Coefficients are Gaussian integers: abs_tol = 1.5 removes every component of modulus 1.
TruncC(z) == LET re == IF z.c[1] >= 2 \/ z.c[1] <= -2 THEN z.c[1] ELSE 0
                 im == IF z.c[GI] >= 2 \/ z.c[GI] <= -2 THEN z.c[GI] ELSE 0
             IN Add(FromInt(re), Mul(RI, FromInt(im)))
TruncVal(v) == OpClean(TLCEval([w \in DOMAIN v |-> TruncC(v[w])]))

\* one step (export form).  upd = the object bound to name r after the step; opt = the keyword combination used
Rec(kind, x, y, r, s, flag, rows, upd, exp) ==
  [kind |-> kind, x |-> x, y |-> y, r |-> r, s |-> s, flag |-> flag, rows |-> rows, upd |-> MObjX(upd), exp |-> exp]
NoExp == [trw |-> <<>>, tw |-> FALSE, zero |-> FALSE, comm |-> <<>>]

Advance(rec, newheap) ==
  /\ heap' = newheap
  /\ d' = d + 1
  /\ hist' = Append(hist, rec)
  /\ h0' = h0
  /\ (Export = "all" => PrintT(<<"MH", ToJson([h0 |-> h0, steps |-> hist'])>>))

Put(r, o) == [heap EXCEPT ![r] = o]

IMulO(x, y) ==
  /\ d < MaxDepth
  /\ LET X == heap[x]
         Y == heap[y]
         v == AMul(X.val, Y.val)
         new == MObj(v, X.arr, X.k, X.n)
     IN /\ X.ex /\ Y.ex /\ OKVal(v)
        /\ Advance(Rec("imul", x, y, x, 0, "", <<>>, new, NoExp), Put(x, new))

IMulS(x, s) ==
  /\ d < MaxDepth
  /\ LET X == heap[x]
         v == OpScale(ScalarVal(s), X.val)
         new == MObj(v, X.arr, X.k, X.n)
     IN /\ X.ex /\ OKVal(v)
        /\ Advance(Rec("imuls", x, "", x, s, "", <<>>, new, NoExp), Put(x, new))

IAddO(x, y, minus) ==
  /\ d < MaxDepth
  /\ LET X == heap[x]
         Y == heap[y]
         v == IF minus THEN ASub(X.val, Y.val) ELSE AAdd(X.val, Y.val)
         new == MObj(v, X.arr, X.k, X.n)
     IN /\ X.ex /\ Y.ex /\ x # y /\ OKVal(v)
        /\ Advance(Rec(IF minus THEN "isub" ELSE "iadd", x, y, x, 0, "", <<>>, new, NoExp), Put(x, new))

\* compress(abs_tol, n_qubits): every combination of the two documented optional arguments is its own action.
\*   tol "D" not given (EQ_TOLERANCE), "T" 1e-12, "B" 1.5 (removes the components of modulus 1)
\*   nq  "D" not given: n_qubits becomes count_qubits(operator);  "N" n_qubits = N
CompressGen(x, tol, nq) ==
  /\ d < MaxDepth
  /\ LET X == heap[x]
         v == IF tol = "B" THEN TruncVal(X.val) ELSE X.val
         new == MObj(v, v, FALSE, IF nq = "N" THEN N ELSE CountQ(v))
     IN /\ X.ex
        /\ Advance(Rec("compress", x, "", x, 0, <<tol, nq>>, <<>>, new, NoExp), Put(x, new))
CompressDD(x) == d < MaxDepth /\ CompressGen(x, "D", "D")
CompressDN(x) == d < MaxDepth /\ CompressGen(x, "D", "N")
CompressTD(x) == d < MaxDepth /\ CompressGen(x, "T", "D")
CompressTN(x) == d < MaxDepth /\ CompressGen(x, "T", "N")
CompressBD(x) == d < MaxDepth /\ CompressGen(x, "B", "D")
CompressBN(x) == d < MaxDepth /\ CompressGen(x, "B", "N")

\* remove_terms(indices): indices an int, a list or a numpy array
RemoveRows(x, ws, mode) ==
  /\ d < MaxDepth
  /\ LET X == heap[x]
         a == TLCEval([w \in (DOMAIN X.arr) \ ws |-> X.arr[w]])
         new == MObj(a, a, X.k, X.n)
     IN /\ Synced(X) /\ ws # {} /\ ws \subseteq DOMAIN X.arr /\ Cardinality(ws) <= 2
        /\ (mode = "int" => Cardinality(ws) = 1)
        /\ Advance(Rec("remove", x, "", x, 0, mode, SetToSeq({IntRowN(w, X.n) : w \in ws}), new, NoExp), Put(x, new))
RemoveInt(x)   == \E ws \in SUBSET (DOMAIN heap[x].arr) : RemoveRows(x, ws, "int")
RemoveList(x)  == \E ws \in SUBSET (DOMAIN heap[x].arr) : RemoveRows(x, ws, "list")
RemoveArray(x) == \E ws \in SUBSET (DOMAIN heap[x].arr) : RemoveRows(x, ws, "array")

ArrMul(r, x, y) ==
  /\ d < MaxDepth
  /\ LET X == heap[x]
         Y == heap[y]
         v == AMul(X.arr, Y.arr)
         new == MObj(v, v, FALSE, N)
     IN /\ Full(X) /\ Full(Y) /\ X.arr # OpZero /\ Y.arr # OpZero /\ v # OpZero /\ OKVal(v)
        /\ Advance(Rec("mul", x, y, r, 0, "", <<>>, new, NoExp), Put(r, new))

AddCollapse(r, x, y) ==
  /\ d < MaxDepth
  /\ LET X == heap[x]
         Y == heap[y]
         v == AAdd(X.arr, Y.arr)
         new == MObj(v, v, FALSE, N)
     IN /\ Full(X) /\ Full(Y) /\ X.arr # OpZero /\ Y.arr # OpZero /\ v # OpZero /\ OKVal(v)
        /\ Advance(Rec("addcollapse", x, y, r, 0, "", <<>>, new, NoExp), Put(r, new))

Commute(x, y, tr) ==
  /\ d < MaxDepth
  /\ LET X == heap[x]
         Y == heap[y]
         trw == SetToSeq({[int |-> IntRow(w), c |-> \A v \in DOMAIN Y.arr : CommuteWords(w, v, N)] : w \in DOMAIN X.arr})
         tw == \A w \in DOMAIN X.arr : \A v \in DOMAIN Y.arr : CommuteWords(w, v, N)
         exp == [trw |-> trw, tw |-> tw, zero |-> OpIsZero(OpCommutator(X.arr, Y.arr, N)), comm |-> <<>>]
     IN /\ Full(X) /\ Full(Y) /\ X.arr # OpZero /\ Y.arr # OpZero
        /\ Advance(Rec("commute", x, y, "", 0, IF tr THEN "tr" ELSE "plain", <<>>, MNull, exp), heap)

\* from_qubitop(x.qubitoperator, n_qubits) with / without the optional argument, followed by compress with the same choice
RoundTripGen(r, x, nq) ==
  /\ d < MaxDepth
  /\ LET X == heap[x]
         new == MObj(X.val, X.val, FALSE, IF nq = "N" THEN N ELSE CountQ(X.val))
     IN /\ X.ex
        /\ Advance(Rec("roundtrip", x, "", r, 0, nq, <<>>, new, NoExp), Put(r, new))
RoundTripN(r, x) == d < MaxDepth /\ RoundTripGen(r, x, "N")
RoundTripD(r, x) == d < MaxDepth /\ RoundTripGen(r, x, "D")

GetKernel(x) ==
  /\ d < MaxDepth
  /\ LET X == heap[x]
         comm == SetToSeq({BinRow(w) : w \in {u \in AllWords(N) : \A v \in DOMAIN X.arr : CommuteWords(u, v, N)}})
         new == MObj(X.val, X.arr, TRUE, X.n)
     IN /\ Full(X) /\ X.arr # OpZero /\ Reducible(X.arr)
        /\ Advance(Rec("kernel", x, "", x, 0, "", <<>>, new, [NoExp EXCEPT !.comm = comm]), Put(x, new))

Next == \/ \E x \in Names, y \in Names : IMulO(x, y)
        \/ \E x \in Names, s \in Scalars : IMulS(x, s)
        \/ \E x \in Names, y \in Names, minus \in BOOLEAN : IAddO(x, y, minus)
        \/ \E x \in Names : CompressDD(x)
        \/ \E x \in Names : CompressDN(x)
        \/ \E x \in Names : CompressTD(x)
        \/ \E x \in Names : CompressTN(x)
        \/ \E x \in Names : CompressBD(x)
        \/ \E x \in Names : CompressBN(x)
        \/ \E x \in Names : RemoveInt(x)
        \/ \E x \in Names : RemoveList(x)
        \/ \E x \in Names : RemoveArray(x)
        \/ \E r \in Targets, x \in Names, y \in Names : ArrMul(r, x, y)
        \/ \E r \in Targets, x \in Names, y \in Names : AddCollapse(r, x, y)
        \/ \E x \in Names, y \in Names, tr \in BOOLEAN : Commute(x, y, tr)
        \/ \E r \in Targets, x \in Names : RoundTripN(r, x)
        \/ \E r \in Targets, x \in Names : RoundTripD(r, x)
        \/ \E x \in Names : GetKernel(x)

TypeOK == \A n \in Names : LET o == heap[n] IN
             /\ \A w \in DOMAIN o.val : o.val[w] # RZero /\ IsGauss(o.val[w]) /\ Len(w) = N
             /\ \A w \in DOMAIN o.arr : o.arr[w] # RZero /\ IsGauss(o.arr[w]) /\ Len(w) = N
             /\ (~o.ex => o = MNull)
             /\ o.n \in 0..N /\ (o.ex => \A w \in DOMAIN o.arr : \A q \in (o.n + 1)..N : w[q] = 0)

\* frame: a step changes at most the object it names as target; do_commute changes nothing
FrameOK == [][\A n \in Names : (heap'[n] # heap[n]) => (hist'[Len(hist')].r = n /\ hist'[Len(hist')].kind # "commute")]_vars

View == <<heap, d>>
EndOfBehaviour == (Export = "leaf" /\ d = MaxDepth) => PrintT(<<"MH", ToJson([h0 |-> h0, steps |-> hist])>>)
=============================================================================
