------------------------- MODULE C16MultiformMachine -------------------------
(***************************************************************************)
(* C16 - the array-based Pauli operator object (tangelo MultiformOperator)  *)
(* as a state machine.                                                      *)
(*                                                                         *)
(* An object carries TWO abstract values (Pauli operators, Pauli.tla):      *)
(*   val  what its symbolic `terms` dictionary denotes                      *)
(*   arr  what its array forms (integer, binary, binary_swap, factors)      *)
(*        denote.  In-place symbolic arithmetic, the forms *= += -= taken from *)
(*        openfermion) changes val only; compress() re-derives the arrays   *)
(*        (arr := val, kernel reset); remove_terms works on the arrays and   *)
(*        rebuilds terms from them (val := arr); the array product `*`,      *)
(*        collapse of stacked arrays and do_commute read arr.                *)
(* The array-reading actions are enabled on objects whose arrays are in sync *)
(* (val = arr); get_kernel additionally needs a non-trivial symmetry.        *)
(* k = TRUE iff the kernel attribute is set (get_kernel), compress resets it.*)
(*                                                                         *)
(* Actions (names m, s, p):                                                 *)
(*   IMulO x *= y    IMulS x *= scalar    IAddO x += y    ISubO x -= y       *)
(*   Compress x.compress(n_qubits=N) / x.compress() (only when the highest   *)
(*            qubit is still in use, so that both forms mean the same)       *)
(*   Remove   x.remove_terms(index) / x.remove_terms([i, j])                 *)
(*   Mul      r := x * y             (array product, collapse inside)        *)
(*   AddCollapse r := from_integerop of collapse(stacked rows of x and y)    *)
(*   Commute  do_commute(x, y, term_resolved) - both orders, both flags      *)
(*   RoundTrip r := from_qubitop(x.qubitoperator, N); r.compress(n_qubits=N) *)
(*   GetKernel x.get_kernel()                                                *)
(* Every step exports, for every row of the array value, the exact rows of   *)
(* ALL derived forms (integer code 0 I 1 Z 2 X 3 Y; binary (x|z); swapped    *)
(* (z|x)); the harness compares every attribute of every object after every  *)
(* step.  EncodingOK checks the specification's own encodings: the           *)
(* symplectic product of the exported swapped and binary rows is the         *)
(* commutation relation of Pauli.tla.                                        *)
(***************************************************************************)
EXTENDS C16Defs

CONSTANTS MaxDepth, MaxTerms, Bound,
          ValsM, ValsS,        \* initial values of m and s
          Scalars, Targets, Export

N == NQ
Names == {"m", "s", "p"}

VARIABLES heap, d, hist, h0
vars == <<heap, d, hist, h0>>

\* ---- encodings of the array forms ------------------------------------------------------------
IntCode(l) == CASE l = 0 -> 0 [] l = 1 -> 2 [] l = 2 -> 3 [] l = 3 -> 1
IntRow(w)  == TLCEval([q \in 1..N |-> IntCode(w[q])])
XBit(l) == IF l \in {1, 2} THEN 1 ELSE 0
ZBit(l) == IF l \in {2, 3} THEN 1 ELSE 0
BinRow(w)  == TLCEval([c \in 1..(2 * N) |-> IF c <= N THEN XBit(w[c]) ELSE ZBit(w[c - N])])
SwapRow(w) == TLCEval([c \in 1..(2 * N) |-> IF c <= N THEN ZBit(w[c]) ELSE XBit(w[c - N])])

EncodingOK ==
  \A a, b \in AllWords(N) :
     (SumSeq([c \in 1..(2 * N) |-> SwapRow(a)[c] * BinRow(b)[c]], 2 * N) % 2 = 0) <=> CommuteWords(a, b, N)

\* ---- objects -----------------------------------------------------------------------------------
MObj(v, a, k) == [ex |-> TRUE, val |-> v, arr |-> a, k |-> k]
MNull == [ex |-> FALSE, val |-> OpZero, arr |-> OpZero, k |-> FALSE]

ArrX(v) == SetToSeq({[w |-> w, re |-> v[w].c[1], im |-> v[w].c[GI], int |-> IntRow(w), bin |-> BinRow(w), swp |-> SwapRow(w)] : w \in DOMAIN v})
MObjX(o) == [ex |-> o.ex, val |-> ValSeq(o.val), arr |-> ArrX(o.arr), k |-> o.k]
HeapX(h) == [m |-> MObjX(h["m"]), s |-> MObjX(h["s"]), p |-> MObjX(h["p"])]

\* named value sets for the configuration files
W1(a, b) == <<a, b>>
MV1 == OpAdd(Val1(W1(1, 3), FromInt(2)), Val1(W1(2, 0), RI))                         \* 2 X0Z1 + i Y0
MV2 == OpAdd(OpAdd(Val1(W1(1, 0), ROne), Val1(W1(3, 1), Neg(ROne))), Val1(W1(0, 0), FromInt(2)))   \* X0 - Z0X1 + 2
MV3 == OpAdd(Val1(W1(1, 1), ROne), Val1(W1(2, 2), ROne))                              \* X0X1 + Y0Y1
SV1 == Val1(W1(3, 0), ROne)                                                            \* Z0       (single word)
SV2 == OpAdd(Val1(W1(3, 3), ROne), Val1(W1(0, 1), RI))                                 \* Z0Z1 + i X1
SV3 == OpAdd(Val1(W1(3, 0), ROne), Val1(W1(0, 3), ROne))                               \* Z0 + Z1
ValsMSmall == {MV1, MV3}
ValsMAll   == {MV1, MV2, MV3}
ValsSSmall == {SV1, SV2}
ValsSAll   == {SV1, SV2, SV3}
ScalarsAll == {1, 2, 3}
ScalarsOne == {3}
TargetsP   == {"p"}
TargetsAll == Names

Init == \E vm \in ValsM, vs \in ValsS :
          /\ heap = [n \in Names |-> IF n = "m" THEN MObj(vm, vm, FALSE) ELSE IF n = "s" THEN MObj(vs, vs, FALSE) ELSE MNull]
          /\ d = 0
          /\ hist = <<>>
          /\ h0 = HeapX(heap)

\* the array forms are only meaningful when they are in sync with the terms: the array-reading operations are
\* exercised on synced objects (after construction, compress, remove_terms, array products)
Synced(X) == X.ex /\ X.val = X.arr
Reducible(a) == \E u \in AllWords(N) \ {IdWord(N)} : \A v \in DOMAIN a : CommuteWords(u, v, N)     \* a non-trivial symmetry exists

OKVal(v) == ValOK(v, MaxTerms, 0, Bound)
CountQ(v) == IF \A w \in DOMAIN v : w = IdWord(N) THEN 0
             ELSE CHOOSE q \in 1..N : (\E w \in DOMAIN v : w[q] # 0) /\ (\A p \in (q + 1)..N : \A w \in DOMAIN v : w[p] = 0)

\* one step (export form).  upd = the object bound to name r after the step
Rec(kind, x, y, r, s, flag, rows, upd, exp) ==
  [kind |-> kind, x |-> x, y |-> y, r |-> r, s |-> s, flag |-> flag, rows |-> rows, upd |-> MObjX(upd), exp |-> exp]
NoExp == [trw |-> <<>>, tw |-> FALSE, zero |-> FALSE, comm |-> <<>>]

Advance(rec, newheap) ==
  /\ heap' = newheap
  /\ d' = d + 1
  /\ hist' = Append(hist, rec)
  /\ h0' = h0
  /\ (Export = "all" => PrintT(<<"MH", ToJson([h0 |-> h0, steps |-> hist'])>>))

Put(r, o) == [heap EXCEPT ![r] = o]

IMulO(x, y) ==
  /\ d < MaxDepth
  /\ LET X == heap[x]
         Y == heap[y]
         v == AMul(X.val, Y.val)
         new == MObj(v, X.arr, X.k)
     IN /\ X.ex /\ Y.ex /\ OKVal(v)
        /\ Advance(Rec("imul", x, y, x, 0, FALSE, <<>>, new, NoExp), Put(x, new))

IMulS(x, s) ==
  /\ d < MaxDepth
  /\ LET X == heap[x]
         v == OpScale(ScalarVal(s), X.val)
         new == MObj(v, X.arr, X.k)
     IN /\ X.ex /\ OKVal(v)
        /\ Advance(Rec("imuls", x, "", x, s, FALSE, <<>>, new, NoExp), Put(x, new))

IAddO(x, y, minus) ==
  /\ d < MaxDepth
  /\ LET X == heap[x]
         Y == heap[y]
         v == IF minus THEN ASub(X.val, Y.val) ELSE AAdd(X.val, Y.val)
         new == MObj(v, X.arr, X.k)
     IN /\ X.ex /\ Y.ex /\ x # y /\ OKVal(v)
        /\ Advance(Rec(IF minus THEN "isub" ELSE "iadd", x, y, x, 0, FALSE, <<>>, new, NoExp), Put(x, new))

Compress(x, dflt) ==
  /\ d < MaxDepth
  /\ LET X == heap[x]
         new == MObj(X.val, X.val, FALSE)
     IN /\ X.ex
        /\ (dflt => CountQ(X.val) = N)
        /\ Advance(Rec("compress", x, "", x, 0, dflt, <<>>, new, NoExp), Put(x, new))

RemoveRows(x, ws) ==
  /\ d < MaxDepth
  /\ LET X == heap[x]
         a == TLCEval([w \in (DOMAIN X.arr) \ ws |-> X.arr[w]])
         new == MObj(a, a, X.k)
     IN /\ Synced(X) /\ ws # {} /\ ws \subseteq DOMAIN X.arr /\ Cardinality(ws) <= 2
        /\ Advance(Rec("remove", x, "", x, 0, Cardinality(ws) = 1, SetToSeq({IntRow(w) : w \in ws}), new, NoExp), Put(x, new))

RemoveAny(x) == \E ws \in SUBSET (DOMAIN heap[x].arr) : RemoveRows(x, ws)

ArrMul(r, x, y) ==
  /\ d < MaxDepth
  /\ LET X == heap[x]
         Y == heap[y]
         v == AMul(X.arr, Y.arr)
         new == MObj(v, v, FALSE)
     IN /\ Synced(X) /\ Synced(Y) /\ X.arr # OpZero /\ Y.arr # OpZero /\ v # OpZero /\ OKVal(v)
        /\ Advance(Rec("mul", x, y, r, 0, FALSE, <<>>, new, NoExp), Put(r, new))

AddCollapse(r, x, y) ==
  /\ d < MaxDepth
  /\ LET X == heap[x]
         Y == heap[y]
         v == AAdd(X.arr, Y.arr)
         new == MObj(v, v, FALSE)
     IN /\ Synced(X) /\ Synced(Y) /\ X.arr # OpZero /\ Y.arr # OpZero /\ v # OpZero /\ OKVal(v)
        /\ Advance(Rec("addcollapse", x, y, r, 0, FALSE, <<>>, new, NoExp), Put(r, new))

Commute(x, y, tr) ==
  /\ d < MaxDepth
  /\ LET X == heap[x]
         Y == heap[y]
         trw == SetToSeq({[int |-> IntRow(w), c |-> \A v \in DOMAIN Y.arr : CommuteWords(w, v, N)] : w \in DOMAIN X.arr})
         tw == \A w \in DOMAIN X.arr : \A v \in DOMAIN Y.arr : CommuteWords(w, v, N)
         exp == [trw |-> trw, tw |-> tw, zero |-> OpIsZero(OpCommutator(X.arr, Y.arr, N)), comm |-> <<>>]
     IN /\ Synced(X) /\ Synced(Y) /\ X.arr # OpZero /\ Y.arr # OpZero
        /\ Advance(Rec("commute", x, y, "", 0, tr, <<>>, MNull, exp), heap)

RoundTrip(r, x) ==
  /\ d < MaxDepth
  /\ LET X == heap[x]
         new == MObj(X.val, X.val, FALSE)
     IN /\ X.ex
        /\ Advance(Rec("roundtrip", x, "", r, 0, FALSE, <<>>, new, NoExp), Put(r, new))

GetKernel(x) ==
  /\ d < MaxDepth
  /\ LET X == heap[x]
         comm == SetToSeq({BinRow(w) : w \in {u \in AllWords(N) : \A v \in DOMAIN X.arr : CommuteWords(u, v, N)}})
         new == MObj(X.val, X.arr, TRUE)
     IN /\ Synced(X) /\ X.arr # OpZero /\ Reducible(X.arr)
        /\ Advance(Rec("kernel", x, "", x, 0, FALSE, <<>>, new, [NoExp EXCEPT !.comm = comm]), Put(x, new))

Next == \/ \E x \in Names, y \in Names : IMulO(x, y)
        \/ \E x \in Names, s \in Scalars : IMulS(x, s)
        \/ \E x \in Names, y \in Names, minus \in BOOLEAN : IAddO(x, y, minus)
        \/ \E x \in Names, dflt \in BOOLEAN : Compress(x, dflt)
        \/ \E x \in Names : RemoveAny(x)
        \/ \E r \in Targets, x \in Names, y \in Names : ArrMul(r, x, y)
        \/ \E r \in Targets, x \in Names, y \in Names : AddCollapse(r, x, y)
        \/ \E x \in Names, y \in Names, tr \in BOOLEAN : Commute(x, y, tr)
        \/ \E r \in Targets, x \in Names : RoundTrip(r, x)
        \/ \E x \in Names : GetKernel(x)

TypeOK == \A n \in Names : LET o == heap[n] IN
             /\ \A w \in DOMAIN o.val : o.val[w] # RZero /\ IsGauss(o.val[w]) /\ Len(w) = N
             /\ \A w \in DOMAIN o.arr : o.arr[w] # RZero /\ IsGauss(o.arr[w]) /\ Len(w) = N
             /\ (~o.ex => o = MNull)

\* frame: a step changes at most the object it names as target; do_commute changes nothing
FrameOK == [][\A n \in Names : (heap'[n] # heap[n]) => (hist'[Len(hist')].r = n /\ hist'[Len(hist')].kind # "commute")]_vars

View == <<heap, d>>
EndOfBehaviour == (Export = "leaf" /\ d = MaxDepth) => PrintT(<<"MH", ToJson([h0 |-> h0, steps |-> hist])>>)
=============================================================================
