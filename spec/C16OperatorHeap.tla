--------------------------- MODULE C16OperatorHeap ---------------------------
(***************************************************************************)
(* C16 - a heap of three named operator objects under arithmetic.           *)
(*                                                                         *)
(* Variables: heap (name |-> object or Null), d (steps taken), hist (the    *)
(* steps taken so far, in export form), h0 (the initial heap, export form). *)
(* Actions (one per Python form):                                           *)
(*   BinOO  r := x op y      both operands named objects (x = y and     *)
(*                                r = x / r = y aliasing included)          *)
(*   BinOS  r := x op s      scalar on the right  (__add__ ...)        *)
(*   BinSO  r := s op y      scalar on the left   (__radd__ ...)       *)
(*   AugOO  x op= y          AugOS  x op= s                        *)
(*   EqStep x == y                NegStep r := -x                           *)
(*   ConvStep r := x.to_openfermion() / x.to_qubitoperator() /              *)
(*            QubitOperator.from_openfermion(x) / qubitop_to_qubitham(x)    *)
(* Frame conditions are part of the actions: a binary form writes only the  *)
(* name r (all existing objects keep class, annotation and value), an       *)
(* augmented form changes only x, a rejected step and == change nothing.    *)
(* The harness replays every history on the real classes and compares       *)
(* EVERY name with the spec heap after every step.                          *)
(***************************************************************************)
EXTENDS C16Defs

CONSTANTS MaxDepth, MaxTerms, MaxLen, Bound,
          ClsA, ClsB,          \* <<class, annotation>> choices for the objects initially bound to a and b
          ValsA, ValsB,        \* value choices
          Thirds,              \* choices for the object initially bound to c (Null included or not)
          Scalars,             \* subset of 1..3
          Ops,                 \* subset of {"add","sub","mul"}
          Targets,             \* names that may receive the result of a binary form
          ZeroReps,            \* representation only: which initial object additionally stores an explicit zero-coefficient entry
          Export               \* "none" | "all" (every explored transition) | "leaf" (histories of length MaxDepth)

Names == {"a", "b", "c"}

VARIABLES heap, d, hist, h0
vars == <<heap, d, hist, h0>>

\* named sets for the configuration files
ClsAll  == ClsPool
ClsMain == IF Family = "F" THEN { <<"TF", NoneF>>, <<"TF", <<4, 2, 0>> >>, <<"OF", <<>> >> }
           ELSE { <<"QO", <<>> >>, <<"OQ", <<>> >>, <<"QH", <<0, 0>> >>, <<"QH", <<1, 1>> >>, <<"QH", <<3, 1>> >> }
ClsSmall == IF Family = "F" THEN { <<"TF", NoneF>>, <<"TF", <<4, 2, 0>> >>, <<"OF", <<>> >> }
            ELSE { <<"QO", <<>> >>, <<"QH", <<1, 1>> >>, <<"QH", <<3, 1>> >> }
ClsD3A == IF Family = "F" THEN { <<"TF", NoneF>>, <<"TF", <<4, 2, 0>> >> } ELSE { <<"QH", <<1, 1>> >> }
ClsD3B == IF Family = "F" THEN { <<"TF", <<4, 2, 0>> >>, <<"OF", <<>> >> } ELSE { <<"QO", <<>> >>, <<"QH", <<3, 1>> >>, <<"QH", <<2, 1>> >> }
ClsTangelo == {c \in ClsPool : Tangelo(c[1])}
ValsOnlyA == {ValA}
ValsOnlyB == {ValB}
ValsAB    == {ValA, ValB}
ValsAZ    == {ValA, OpZero}                 \* the empty operator as an operand
ValsZero  == {OpZero}
ValsZeroId == {OpZero, ValId}
ValsBZ    == {ValB, OpZero}
Vals1Z    == Vals1 \cup {OpZero}
ZeroNone  == {"none"}
ZeroAll   == {"none", "a", "b"}
ThirdNull == {Null}
ThirdSome == {Null} \cup {Obj(c[1], c[2], ValC) : c \in ClsMain}
ScalarsAll == {1, 2, 3}
ScalarsTyped == 1..17         \* every Python / numpy scalar type of the table in C16Defs
ScalarsOne == {3}
OpsAll == {"add", "sub", "mul"}
TargetsAll == Names
TargetsC   == {"c"}
TargetsAC  == {"a", "c"}

ObjX(o) == [cls |-> o.cls, ann |-> o.ann, val |-> ValSeq(o.val)]
HeapX(h) == [a |-> ObjX(h["a"]), b |-> ObjX(h["b"]), c |-> ObjX(h["c"])]

Init == \E ca \in ClsA, cb \in ClsB, va \in ValsA, vb \in ValsB, t \in Thirds, zr \in ZeroReps :
          /\ heap = [n \in Names |-> IF n = "a" THEN Obj(ca[1], ca[2], va)
                                     ELSE IF n = "b" THEN Obj(cb[1], cb[2], vb) ELSE t]
          /\ d = 0
          /\ hist = <<>>
          /\ h0 = [a |-> ObjX(heap["a"]), b |-> ObjX(heap["b"]), c |-> ObjX(heap["c"]), zero |-> zr, zkey |-> K3]

Bound1(v) == ValOK(v, MaxTerms, MaxLen, Bound)

\* record of one step (export form); upd = the object written to name r (Null when nothing is written)
Rec(kind, op, r, xn, xs, yn, ys, out, eqv, upd) ==
  [kind |-> kind, op |-> op, r |-> r, xn |-> xn, xs |-> xs, yn |-> yn, ys |-> ys, out |-> out, eqv |-> eqv, upd |-> ObjX(upd)]

Advance(rec, newheap) ==
  /\ heap' = newheap
  /\ d' = d + 1
  /\ hist' = Append(hist, rec)
  /\ h0' = h0
  /\ (Export = "all" => PrintT(<<"H", ToJson([h0 |-> h0, steps |-> hist'])>>))

AnyTangelo(X, Y) == IF Tangelo(X.cls) THEN TRUE ELSE Tangelo(Y.cls)
Write(r, o) == [heap EXCEPT ![r] = o]

BinOO(r, x, y, op) ==
  /\ d < MaxDepth
  /\ LET X == heap[x]
         Y == heap[y]
         out == OutOO(X, Y, op, FALSE)
         new == Obj(ResCls(X, Y, op, FALSE), ResAnn(X, Y, op, FALSE), ABin(op, X.val, Y.val))
     IN /\ X # Null /\ Y # Null
        /\ AnyTangelo(X, Y)
        /\ (out # "reject" => Bound1(new.val))
        /\ Advance(Rec("bin", op, r, x, 0, y, 0, out, FALSE, IF out = "reject" THEN Null ELSE new),
                   IF out = "reject" THEN heap ELSE Write(r, new))

BinOS(r, x, s, op) ==
  /\ d < MaxDepth
  /\ LET X == heap[x]
         new == Obj(X.cls, X.ann, ABin(op, X.val, AConst(ScalarVal(s))))
     IN /\ X # Null /\ Tangelo(X.cls)
        /\ Bound1(new.val)
        /\ Advance(Rec("bin", op, r, x, 0, "", s, ScalarOut(s), FALSE, new), Write(r, new))

BinSO(r, s, y, op) ==
  /\ d < MaxDepth
  /\ LET Y == heap[y]
         new == Obj(Y.cls, Y.ann, ABin(op, AConst(ScalarVal(s)), Y.val))
     IN /\ Y # Null /\ Tangelo(Y.cls)
        /\ Bound1(new.val)
        /\ Advance(Rec("bin", op, r, "", s, y, 0, ScalarOut(s), FALSE, new), Write(r, new))

AugOO(x, y, op) ==
  /\ d < MaxDepth
  /\ LET X == heap[x]
         Y == heap[y]
         out0 == OutOO(X, Y, op, TRUE)
         \* x op= x on one and the same object: openfermion's in-place loops iterate over the dictionary they
         \* modify; raising is tolerated (a wrong value or a changed bystander is not)
         out == IF x = y /\ out0 = "ok" THEN "either" ELSE out0
         new == Obj(X.cls, X.ann, ABin(op, X.val, Y.val))
     IN /\ X # Null /\ Y # Null
        /\ AnyTangelo(X, Y)
        /\ (out # "reject" => Bound1(new.val))
        /\ Advance(Rec("aug", op, x, x, 0, y, 0, out, FALSE, IF out = "reject" THEN Null ELSE new),
                   IF out = "reject" THEN heap ELSE Write(x, new))

AugOS(x, s, op) ==
  /\ d < MaxDepth
  /\ LET X == heap[x]
         new == Obj(X.cls, X.ann, ABin(op, X.val, AConst(ScalarVal(s))))
     IN /\ X # Null /\ Tangelo(X.cls)
        /\ Bound1(new.val)
        /\ Advance(Rec("aug", op, x, x, 0, "", s, ScalarOut(s), FALSE, new), Write(x, new))

EqStep(x, y) ==
  /\ d < MaxDepth
  /\ LET X == heap[x]
         Y == heap[y]
     IN /\ X # Null /\ Y # Null
        /\ AnyTangelo(X, Y)
        /\ Advance(Rec("eq", "eq", "", x, 0, y, 0, EqOutcome(X, Y), EqValue(X, Y), Null), heap)

NegStep(r, x) ==
  /\ d < MaxDepth
  /\ LET X == heap[x]
         new == Obj(X.cls, X.ann, ANeg(X.val))
     IN /\ X # Null /\ Tangelo(X.cls)
        /\ Advance(Rec("neg", "neg", r, x, 0, "", 0, "ok", FALSE, new), Write(r, new))

\* conversions between the classes (each documented to return a NEW object with the same terms)
ConvTarget(X, c) ==
  CASE c = "to_openfermion" /\ X.cls = "TF"            -> Obj("OF", <<>>, X.val)
    [] c = "to_openfermion" /\ X.cls \in {"QO", "QH"}  -> Obj("OQ", <<>>, X.val)
    [] c = "to_qubitoperator" /\ X.cls = "QH"          -> Obj("QO", <<>>, X.val)
    [] c = "from_openfermion" /\ X.cls \in {"OQ", "QO"} -> Obj("QO", <<>>, X.val)
    [] c = "to_qubitham" /\ X.cls \in {"QO", "OQ"}      -> Obj("QH", <<1, 1>>, X.val)      \* qubitop_to_qubitham(x, "JW", False)
    [] OTHER -> Null
Conversions == {"to_openfermion", "to_qubitoperator", "from_openfermion", "to_qubitham"}

ConvStep(r, x, c) ==
  /\ d < MaxDepth
  /\ LET X == heap[x]
         new == ConvTarget(X, c)
     IN /\ X # Null /\ new # Null
        /\ Advance(Rec("conv", c, r, x, 0, "", 0, "ok", FALSE, new), Write(r, new))

Next == \/ \E r \in Targets, x \in Names, y \in Names, op \in Ops : BinOO(r, x, y, op)
        \/ \E r \in Targets, x \in Names, s \in Scalars, op \in Ops : BinOS(r, x, s, op)
        \/ \E r \in Targets, s \in Scalars, y \in Names, op \in Ops : BinSO(r, s, y, op)
        \/ \E x \in Names, y \in Names, op \in Ops : AugOO(x, y, op)
        \/ \E x \in Names, s \in Scalars, op \in Ops : AugOS(x, s, op)
        \/ \E x \in Names, y \in Names : EqStep(x, y)
        \/ \E r \in Targets, x \in Names : NegStep(r, x)
        \/ \E r \in Targets, x \in Names, c \in Conversions : ConvStep(r, x, c)

Spec == Init /\ [][Next]_vars

\* ---- properties of the model itself ---------------------------------------------------------
TypeOK == \A n \in Names : LET o == heap[n] IN
             /\ o.cls \in {"null", "TF", "OF", "QH", "QO", "OQ"}
             /\ (o.cls \in {"TF", "OF"} => Family = "F") /\ (o.cls \in {"QH", "QO", "OQ"} => Family = "Q")
             /\ \A t \in DOMAIN o.val : o.val[t] # RZero /\ IsGauss(o.val[t])
             /\ (o.cls = "TF" => Len(o.ann) = 3) /\ (o.cls = "QH" => Len(o.ann) = 2)
             /\ (o.cls \in {"OF", "QO", "OQ", "null"} => o.ann = <<>>)

\* the frame condition as an action property: a step changes at most the name it names as target
FrameOK == [][\A n \in Names : (heap'[n] # heap[n]) => (hist'[Len(hist')].r = n /\ hist'[Len(hist')].out # "reject")]_vars

\* hist is bookkeeping: two histories reaching the same heap are one state
View == <<heap, d>>

\* export of complete histories (works for BFS without VIEW and for -simulate)
EndOfBehaviour == (Export = "leaf" /\ d = MaxDepth) => PrintT(<<"H", ToJson([h0 |-> h0, steps |-> hist])>>)
=============================================================================
