------------------------------ MODULE C17Defs ------------------------------
(***************************************************************************)
(* C17 - circuits and operators survive export/import round trips.          *)
(* Definitions shared by the state machine (C17RoundTrip) and the trace     *)
(* judge (C17Trace).  No variables here.                                    *)
(*                                                                         *)
(* A gate is a record [name, t, c, p, v]:                                   *)
(*   t  sequence of target qubits, c sequence of control qubits (<<>> when  *)
(*   the gate has none), p parameter token (-1 = no parameter), v the       *)
(*   is_variational flag.                                                   *)
(* Parameters are UNINTERPRETED TOKENS: a round trip has to return the very *)
(* same value, so only equality of parameters matters.  The driver maps     *)
(* tokens to concrete values (0, negative, > 2 pi, two values that differ   *)
(* by exactly 2 pi - which Tangelo's own Gate.__eq__ would conflate -,       *)
(* integers, 1e-7, 123456.789, strings for repr) and maps every value the   *)
(* implementation returns back to its token (-2 = a value that is not in    *)
(* the table, i.e. certainly not the original one).                         *)
(*                                                                         *)
(* A circuit is [n |-> width, gates |-> sequence of gates].                 *)
(* Circuit equality is the documented one: same width, same length, gate by *)
(* gate the same name (CNOT and CX are one gate), the same targets and the  *)
(* same controls (both as sets: every multi-target gate of the alphabet -   *)
(* SWAP, XX, CSWAP - is symmetric in its targets and the order of controls  *)
(* has no meaning, so a translator that reorders them keeps the gate) and   *)
(* the same parameter.  eval(repr(g)) is held to the stricter GateDiffFull. *)
(*                                                                         *)
(* Supported[fmt] is taken from the translators' own documented dictionaries*)
(* (get_ionq_gates / get_projectq_gates) and the format documentation:      *)
(*   ionq     : H X Y Z S T RX RY RZ PHASE(z+rotation) SWAP XX without       *)
(*              controls; CNOT CX CY CZ CRX CRY CRZ CPHASE with >= 1 control *)
(*              ("controls" is a list in the IonQ JSON schema).              *)
(*   projectq : H X Y Z S T Rx Ry Rz R(phase) Measure; CX with exactly one   *)
(*              control, from a Tangelo CNOT or its documented alias CX      *)
(*              (Gate.__eq__: "CNOT and CX gates are equivalent"; the IonQ   *)
(*              importer itself names the gate CX, so a direct IonQ ->       *)
(*              ProjectQ conversion needs it).                               *)
(*   cirq, sympy (targets of direct conversions only): get_cirq_gates lists  *)
(*              the whole alphabet; get_sympy_gates everything but XX,       *)
(*              CSWAP, MEASURE.                                              *)
(*   openqasm : the subset get_openqasm_gates documents: h x y z s t rx ry  *)
(*              rz p measure swap; cx cy cz crz cp cswap with one control.   *)
(* Everything else is unsupported: the exporter must refuse (raise).         *)
(***************************************************************************)
EXTENDS Pauli, TLC, Json, IOUtils

RG(name, t, c, p, v) == [name |-> name, t |-> t, c |-> c, p |-> p, v |-> v]

NoParam == -1

Plain1   == {"H", "X", "Y", "Z", "S", "T"}
Param1   == {"RX", "RY", "RZ", "PHASE"}
Ctrl0    == {"CNOT", "CX", "CY", "CZ", "CH"}
CtrlP    == {"CRX", "CRY", "CRZ", "CPHASE"}
AllNames == Plain1 \cup Param1 \cup Ctrl0 \cup CtrlP \cup {"SWAP", "XX", "CSWAP", "MEASURE"}

HasParam(nm)  == nm \in Param1 \cup CtrlP \cup {"XX"}
NTargets(nm)  == IF nm \in {"SWAP", "XX", "CSWAP"} THEN 2 ELSE 1
NeedsCtrl(nm) == nm \in Ctrl0 \cup CtrlP \cup {"CSWAP"}

SeqSet(s) == {s[i] : i \in 1..Len(s)}

\* what tangelo.linq.Gate accepts for the names of the alphabet
GateOK(g, n) ==
  /\ g.name \in AllNames
  /\ Len(g.t) = NTargets(g.name)
  /\ (NeedsCtrl(g.name) <=> Len(g.c) >= 1)
  /\ Cardinality(SeqSet(g.t) \cup SeqSet(g.c)) = Len(g.t) + Len(g.c)
  /\ \A q \in SeqSet(g.t) \cup SeqSet(g.c) : q \in 0..(n - 1)
  /\ (HasParam(g.name) <=> g.p # NoParam)

\* ---- what each format supports --------------------------------------------
GateClass(g, fmt) ==
  CASE fmt = "ionq" ->
         IF \/ (g.name \in Plain1 \cup Param1 \cup {"SWAP", "XX"} /\ g.c = <<>>)
            \/ (g.name \in {"CNOT", "CX", "CY", "CZ", "CRX", "CRY", "CRZ", "CPHASE"} /\ Len(g.c) >= 1)
         THEN "supported" ELSE "unsupported"
    [] fmt = "projectq" ->
         IF \/ (g.name \in Plain1 \cup Param1 \cup {"MEASURE"} /\ g.c = <<>>)
            \/ (g.name \in {"CNOT", "CX"} /\ Len(g.c) = 1)
         THEN "supported" ELSE "unsupported"
    [] fmt = "cirq" -> "supported"                                    \* get_cirq_gates lists the whole alphabet
    [] fmt = "sympy" ->
         IF \/ (g.name \in Plain1 \cup Param1 \cup {"SWAP"} /\ g.c = <<>>)
            \/ (g.name \in Ctrl0 \cup CtrlP /\ Len(g.c) >= 1)
         THEN "supported" ELSE "unsupported"
    [] fmt = "openqasm" ->
         IF \/ (g.name \in Plain1 \cup Param1 \cup {"MEASURE", "SWAP"} /\ g.c = <<>>)
            \/ (g.name \in {"CNOT", "CY", "CZ", "CRZ", "CPHASE", "CSWAP"} /\ Len(g.c) = 1)
         THEN "supported"
         ELSE IF g.name = "CX" /\ Len(g.c) = 1 THEN "optional" ELSE "unsupported"
    [] OTHER -> "unsupported"

\* Python type of a document of each format, as reported by the driver
ExpectedType(fmt) == CASE fmt = "ionq" -> "dict" [] fmt = "projectq" -> "str" [] fmt = "openqasm" -> "str"
                       [] fmt = "cirq" -> "cirq" [] fmt = "sympy" -> "sympy" [] OTHER -> "?"
OneWay == {"cirq", "sympy"}         \* formats Tangelo can write but not read

CircClass(gates, fmt) ==
  IF \E i \in 1..Len(gates) : GateClass(gates[i], fmt) = "unsupported" THEN "unsupported"
  ELSE IF \E i \in 1..Len(gates) : GateClass(gates[i], fmt) = "optional" THEN "optional"
  ELSE "supported"

\* ---- equalities --------------------------------------------------------------
CanonName(nm) == IF nm = "CNOT" THEN "CX" ELSE nm

\* "equal" or the first field that differs
GateDiff(a, b) ==
  IF CanonName(a.name) # CanonName(b.name) THEN "altered-name"
  ELSE IF SeqSet(a.t) # SeqSet(b.t) \/ Len(a.t) # Len(b.t) THEN "altered-target"
  ELSE IF SeqSet(a.c) # SeqSet(b.c) \/ Len(a.c) # Len(b.c) THEN "altered-control"
  ELSE IF a.p # b.p THEN "altered-param"
  ELSE "equal"

\* eval(repr(g)) must recreate the gate itself: every attribute, name and orders included
GateDiffFull(a, b) ==
  IF a.name # b.name THEN "altered-name"
  ELSE IF a.t # b.t THEN "altered-target"
  ELSE IF a.c # b.c THEN "altered-control"
  ELSE IF a.p # b.p THEN "altered-param"
  ELSE IF a.v # b.v THEN "altered-variational"
  ELSE "equal"

CircDiff(a, b) ==
  IF a.n # b.n THEN "altered-width"
  ELSE IF Len(a.gates) # Len(b.gates) THEN "altered-length"
  ELSE LET bad == {i \in 1..Len(a.gates) : GateDiff(a.gates[i], b.gates[i]) # "equal"}
       IN IF bad = {} THEN "equal"
          ELSE GateDiff(a.gates[CHOOSE i \in bad : \A k \in bad : i <= k], b.gates[CHOOSE i \in bad : \A k \in bad : i <= k])

\* the circuit an importer returns for the document written from c (the spec's Import)
CanonGate(g) == RG(CanonName(g.name), g.t, g.c, g.p, FALSE)
CanonCirc(c) == [n |-> c.n, gates |-> TLCEval([i \in 1..Len(c.gates) |-> CanonGate(c.gates[i])])]

\* ---- operators: value semantics of Pauli.tla ---------------------------------
\* terms: sequence of [w |-> word (letters 0..3, one per qubit), c |-> ring element]
OpValue(terms) == OpFromTerms(terms)
SameOp(ta, tb) == OpEq(OpValue(ta), OpValue(tb))
=============================================================================
