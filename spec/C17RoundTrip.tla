---------------------------- MODULE C17RoundTrip ----------------------------
(***************************************************************************)
(* C17 - state machine of an export / import round trip.                    *)
(*                                                                         *)
(* Variables                                                                *)
(*   kind    "circuit" | "gate" | "op"  (what is being round-tripped)       *)
(*   fmt     external format ("ionq", "projectq"; "repr" for gates;         *)
(*           "cirq", "openfermion" for operators)                           *)
(*   n       width of the circuit / number of qubits of the operator        *)
(*   obj     the object under construction: sequence of gates (circuit),    *)
(*           a one-gate sequence (gate), sequence of terms (operator)       *)
(*   status  "build" -> "exported" | "refused" -> "imported"                *)
(*           "build" -> "evaluated" (gate),  "build" -> "converted" (op)    *)
(*   doc     abstract content of the external document (what a faithful     *)
(*           writer records: the width and every gate)                      *)
(*   out     the object read back                                           *)
(*   style   how the driver spells qubit indices when it builds a gate      *)
(*           ("list": target=[1], "int": target=1)                          *)
(*                                                                         *)
(* Actions                                                                  *)
(*   AddGate(g)     append a gate (at most one unsupported gate per circuit)*)
(*   Export         enabled iff the format supports every gate; otherwise   *)
(*                  Refuse is the only continuation (the implementation     *)
(*                  must raise); an OPTIONAL gate allows both               *)
(*   Import         reads the document: out = the circuit, CNOT == CX       *)
(*   Convert(f2)    direct translation of the exported document into a      *)
(*                  second external format f2 (fmt2), enabled iff f2 also   *)
(*                  supports every gate, else ConvertRefuse; Import then    *)
(*                  reads format f2                                         *)
(*   ReprEval(g)    out = g  (all five attributes)                          *)
(*   AddTerm / OpRoundTrip   out = value of the operator (Pauli.tla)        *)
(*                                                                         *)
(* TLC checks the invariants below (S) and, with Emit = TRUE, prints one    *)
(* record per terminal transition (G); the driver executes the real         *)
(* translate_circuit / repr / translate_operator on each of them and hands  *)
(* the observed results to C17Trace, where TLC judges them (V).             *)
(***************************************************************************)
EXTENDS C17Defs

CONSTANTS Widths,      \* set of circuit widths / operator sizes explored
          MaxLen,      \* circuits of at most MaxLen gates
          MinLen,      \* export / conversion only of objects with at least MinLen gates / terms (steers -simulate)
          Toks,        \* parameter tokens offered to circuits
          StrToks,     \* additional (string) tokens offered to repr
          MaxCtrl,     \* 1 or 2 controls
          Fmts,        \* circuit formats explored
          ConvTargets, \* target formats of direct conversions ({} switches Convert off)
          OpFmts,      \* operator formats explored
          Kinds,       \* subset of {"circuit", "gate", "op"}
          MaxTerms,    \* operators of at most MaxTerms terms (duplicates allowed: they add up)
          Coefs,       \* coefficient set for operator terms
          Emit         \* BOOLEAN: print terminal transitions

\* named sets for the configuration files
W12       == 1..2
W123      == 1..3
WWide     == {9, 10, 11, 12, 20, 101}
WWide2    == {12, 101}
TokAll    == 0..9
TokSmall  == {1, 3}            \* the driver maps 1 and 3 to values that differ by exactly 2 pi
TokOne    == {4}
StrAll    == {100}
NoStr     == {}
CoefFull  == { ROne, Neg(ROne), Neg(Half(FromInt(3))), RI, Add(Half(ROne), Mul(RI, Dyadic(1, 2))),
               Neg(Mul(RI, FromInt(2))), Dyadic(1, 3) }
CoefSmall == { ROne, Neg(ROne), Add(Half(ROne), Mul(RI, Dyadic(1, 2))) }
FmtAll    == {"ionq", "projectq"}
FmtIonq   == {"ionq"}
FmtPq     == {"projectq"}
FmtQasm   == {"openqasm"}
FmtAll3   == {"ionq", "projectq", "openqasm"}
NoConv    == {}
ConvAll   == {"ionq", "projectq", "cirq", "sympy"}
OpFmtAll  == {"cirq", "openfermion"}
KCircuit  == {"circuit"}
KGate     == {"gate"}
KOp       == {"op"}
KAll      == {"circuit", "gate", "op"}

VARIABLES kind, fmt, fmt2, n, obj, status, doc, out, style
vars == <<kind, fmt, fmt2, n, obj, status, doc, out, style>>

\* qubits offered to the gate alphabet: every qubit of a small register; on a WIDE register (multi-digit indices:
\* a classic parsing boundary - single \\d regexes, string sorting, string max) a few low qubits, the indices around
\* ten, and the two highest ones, so that circuits with many idle trailing qubits (gates on 0, 2 only) and circuits
\* that touch the last qubit (targets and controls with 2-3 digits) are both generated
Q(w) == IF w <= 3 THEN 0..(w - 1) ELSE {0, 2, 9, 10, 11, w - 2, w - 1} \cap (0..(w - 1))

CtrlSeqs(others) ==
  { <<a>> : a \in others }
  \cup (IF MaxCtrl >= 2 THEN { s \in { <<a, b>> : a \in others, b \in others } : s[1] # s[2] } ELSE {})

Pairs(w) == { s \in { <<a, b>> : a \in Q(w), b \in Q(w) } : s[1] # s[2] }

Alphabet(w, toks, flags) ==
       { RG(nm, <<t>>, <<>>, NoParam, v) : nm \in Plain1 \cup {"MEASURE"}, t \in Q(w), v \in flags }
  \cup { RG(nm, <<t>>, <<>>, p, v) : nm \in Param1, t \in Q(w), p \in toks, v \in flags }
  \cup UNION { { RG(nm, <<t>>, c, NoParam, v) : nm \in Ctrl0, c \in CtrlSeqs(Q(w) \ {t}), v \in flags } : t \in Q(w) }
  \cup UNION { { RG(nm, <<t>>, c, p, v) : nm \in CtrlP, c \in CtrlSeqs(Q(w) \ {t}), p \in toks, v \in flags } : t \in Q(w) }
  \cup { RG("SWAP", pr, <<>>, NoParam, v) : pr \in Pairs(w), v \in flags }
  \cup { RG("XX", pr, <<>>, p, v) : pr \in Pairs(w), p \in toks, v \in flags }
  \cup UNION { { RG("CSWAP", pr, c, NoParam, v) : c \in CtrlSeqs(Q(w) \ {pr[1], pr[2]}), v \in flags } : pr \in Pairs(w) }

NilCirc == [n |-> 0, gates |-> <<>>, op |-> OpZero]

Init == /\ kind \in Kinds
        /\ fmt \in (IF kind = "circuit" THEN Fmts ELSE IF kind = "op" THEN OpFmts ELSE {"repr"})
        /\ n \in Widths
        /\ style \in (IF kind = "gate" THEN {"list", "int"} ELSE {"list"})
        /\ obj = <<>>
        /\ status = "build"
        /\ doc = NilCirc
        /\ out = NilCirc
        /\ fmt2 = "none"

Worse(a, b) == IF "unsupported" \in {a, b} THEN "unsupported" ELSE IF "optional" \in {a, b} THEN "optional" ELSE "supported"
Rec(st, o) == [kind |-> kind, fmt |-> fmt, fmt2 |-> fmt2, cls1 |-> (IF kind = "circuit" THEN CircClass(obj, fmt) ELSE "supported"), n |-> n, obj |-> obj, style |-> style, status |-> st, out |-> o,
               cls |-> (IF kind = "circuit"
                        THEN (IF fmt2 = "none" THEN CircClass(obj, fmt) ELSE Worse(CircClass(obj, fmt), CircClass(obj, fmt2)))
                        ELSE "supported")]
EmitRec(st, o) == Emit => PrintT(<<"TR", ToJson(Rec(st, o))>>)

\* ---- circuits ----------------------------------------------------------------
AddGate(g) ==
  /\ kind = "circuit" /\ status = "build" /\ Len(obj) < MaxLen
  /\ (GateClass(g, fmt) = "unsupported" => CircClass(obj, fmt) # "unsupported")
  /\ obj' = Append(obj, g)
  /\ UNCHANGED <<fmt2, kind, fmt, n, status, doc, out, style>>

ExportOK ==
  /\ kind = "circuit" /\ status = "build" /\ Len(obj) >= MinLen
  /\ CircClass(obj, fmt) # "unsupported"
  /\ status' = "exported"
  /\ doc' = [n |-> n, gates |-> obj, op |-> OpZero]
  /\ UNCHANGED <<fmt2, kind, fmt, n, obj, out, style>>

RefuseCore ==
  /\ kind = "circuit" /\ status = "build" /\ Len(obj) >= MinLen
  /\ CircClass(obj, fmt) # "supported"
  /\ status' = "refused"
  /\ UNCHANGED <<fmt2, kind, fmt, n, obj, doc, out, style>>
Refuse == RefuseCore /\ EmitRec("refused", [n |-> 0, gates |-> <<>>])

Import ==
  /\ kind = "circuit" /\ status = "exported"
  /\ out' = [n |-> doc.n, gates |-> CanonCirc(doc).gates, op |-> OpZero]
  /\ status' = "imported"
  /\ EmitRec("imported", [n |-> out'.n, gates |-> out'.gates])
  /\ UNCHANGED <<fmt2, kind, fmt, n, obj, doc, style>>

\* ---- direct conversion between two external formats: translate_circuit(doc, target = f2, source = fmt) ----------
\* enabled iff every gate is supported by BOTH formats; the converted document is a document of format f2 (its Python
\* type is ExpectedType(f2)) with the same abstract content, so Import (now reading format f2) returns the source
\* circuit:  Import(f2, Convert(fmt, f2, Export(fmt, c))) = c.   cirq and sympy can only be written: for them the
\* converted document must equal the direct export Export(f2, c).
ConvertCore(f2) ==
  /\ kind = "circuit" /\ status = "exported" /\ fmt2 = "none" /\ f2 \in ConvTargets \ {fmt} /\ Len(obj) >= 1
  /\ CircClass(doc.gates, f2) # "unsupported"
  /\ fmt2' = f2
  /\ status' = (IF f2 \in OneWay THEN "converted-oneway" ELSE "exported")
  /\ UNCHANGED <<kind, fmt, n, obj, doc, out, style>>
Convert(f2) ==
  /\ ConvertCore(f2)
  /\ ((Emit /\ f2 \in OneWay) => PrintT(<<"TR", ToJson([Rec("converted-oneway", [n |-> 0, gates |-> <<>>]) EXCEPT
            !.fmt2 = f2, !.cls = Worse(CircClass(obj, fmt), CircClass(obj, f2))])>>))

ConvertRefuseCore(f2) ==
  /\ kind = "circuit" /\ status = "exported" /\ fmt2 = "none" /\ f2 \in ConvTargets \ {fmt} /\ Len(obj) >= 1
  /\ CircClass(doc.gates, f2) # "supported"
  /\ fmt2' = f2
  /\ status' = "refused"
  /\ UNCHANGED <<kind, fmt, n, obj, doc, out, style>>
ConvertRefuse(f2) ==
  /\ ConvertRefuseCore(f2)
  /\ (Emit => PrintT(<<"TR", ToJson([Rec("refused", [n |-> 0, gates |-> <<>>]) EXCEPT
            !.fmt2 = f2, !.cls = Worse(CircClass(obj, fmt), CircClass(obj, f2))])>>))

ConvertStep       == kind = "circuit" /\ status = "exported" /\ fmt2 = "none" /\ \E f2 \in ConvTargets : Convert(f2)
ConvertRefuseStep == kind = "circuit" /\ status = "exported" /\ fmt2 = "none" /\ \E f2 \in ConvTargets : ConvertRefuse(f2)

\* ---- gates: eval(repr(g)) ----------------------------------------------------
ReprEval(g) ==
  /\ kind = "gate" /\ status = "build"
  /\ obj' = <<g>>
  /\ doc' = [n |-> n, gates |-> <<g>>, op |-> OpZero]
  /\ out' = doc'
  /\ status' = "evaluated"
  /\ (Emit => PrintT(<<"TR", ToJson([kind |-> kind, fmt |-> fmt, n |-> n, obj |-> <<g>>, style |-> style,
                                     status |-> "evaluated", out |-> [n |-> n, gates |-> <<g>>], cls |-> "supported", cls1 |-> "supported", fmt2 |-> "none"])>>))
  /\ UNCHANGED <<fmt2, kind, fmt, n, style>>

\* ---- operators ---------------------------------------------------------------
AddTerm(w, cf) ==
  /\ kind = "op" /\ status = "build" /\ Len(obj) < MaxTerms
  /\ obj' = Append(obj, [w |-> w, c |-> cf])
  /\ UNCHANGED <<fmt2, kind, fmt, n, status, doc, out, style>>

OpRoundTrip ==
  /\ kind = "op" /\ status = "build" /\ Len(obj) >= MinLen
  /\ out' = [n |-> n, gates |-> <<>>, op |-> OpValue(obj)]
  /\ doc' = out'
  /\ status' = "converted"
  /\ EmitRec("converted", [n |-> n, gates |-> <<>>])
  /\ UNCHANGED <<fmt2, kind, fmt, n, obj, style>>

\* (guards first: TLC evaluates the alphabet only where an action can be taken)
AddGateStep == kind = "circuit" /\ status = "build" /\ Len(obj) < MaxLen /\ \E g \in Alphabet(n, Toks, {FALSE}) : AddGate(g)
ReprStep    == kind = "gate" /\ status = "build" /\ \E g \in Alphabet(n, Toks \cup StrToks, BOOLEAN) : ReprEval(g)
AddTermStep == kind = "op" /\ status = "build" /\ Len(obj) < MaxTerms /\ \E w \in AllWords(n), cf \in Coefs : AddTerm(w, cf)

Next == AddGateStep \/ ExportOK \/ Refuse \/ Import \/ ConvertStep \/ ConvertRefuseStep \/ ReprStep \/ AddTermStep \/ OpRoundTrip

Spec == Init /\ [][Next]_vars

\* ---- invariants (S) ------------------------------------------------------------
AlphabetOK    == (status = "build" /\ obj = <<>>) => \A g \in Alphabet(n, Toks \cup StrToks, BOOLEAN) : GateOK(g, n)
RoundTripInv  == status = "imported" => CircDiff([n |-> n, gates |-> obj], out) = "equal"
RefuseInv     == status = "refused" => (CircClass(obj, fmt) # "supported" \/ (fmt2 # "none" /\ CircClass(obj, fmt2) # "supported"))
\* supported by both formats => the direct conversion is enabled and cannot be refused; unsupported by the target => only refusal
ConvertEnabled == (kind = "circuit" /\ status = "exported" /\ fmt2 = "none" /\ Len(obj) >= 1) =>
   \A f2 \in ConvTargets \ {fmt} :
      /\ (CircClass(doc.gates, f2) = "supported" => (ENABLED ConvertCore(f2) /\ ~ENABLED ConvertRefuseCore(f2)))
      /\ (CircClass(doc.gates, f2) = "unsupported" => (ENABLED ConvertRefuseCore(f2) /\ ~ENABLED ConvertCore(f2)))
ConvertedInv == (status \in {"exported", "imported", "converted-oneway"} /\ fmt2 # "none") =>
                   (CircClass(obj, fmt) # "unsupported" /\ CircClass(obj, fmt2) # "unsupported")
ExportedInv   == status \in {"exported", "imported"} => CircClass(obj, fmt) # "unsupported"
\* supported set => export enabled (and refusal is not a behaviour of the specification)
SupportedEnabled == (kind = "circuit" /\ status = "build" /\ Len(obj) >= MinLen /\ CircClass(obj, fmt) = "supported")
                       => (ENABLED ExportOK /\ ~ENABLED RefuseCore)
UnsupportedRefused == (kind = "circuit" /\ status = "build" /\ Len(obj) >= MinLen /\ CircClass(obj, fmt) = "unsupported")
                       => (ENABLED RefuseCore /\ ~ENABLED ExportOK)
WidthSurvives == status = "imported" => out.n = n
ReprInv       == status = "evaluated" => GateDiffFull(obj[1], out.gates[1]) = "equal"
OpInv         == status = "converted" => OpEq(out.op, OpFromTerms(obj))
=============================================================================
