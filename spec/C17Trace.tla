------------------------------ MODULE C17Trace ------------------------------
(***************************************************************************)
(* V-part of C17: what the implementation actually did on each input that   *)
(* C17RoundTrip generated is judged here by TLC, with the same definitions  *)
(* (C17Defs) the state machine uses.                                        *)
(*                                                                         *)
(* job kinds                                                                *)
(*  "circuit": fmt, n, gates            the input circuit                   *)
(*             status  "exported" | "refused"   (translate_circuit(c, fmt)) *)
(*             istatus "imported" | "import-raised" | "none"                *)
(*             out     [n, gates] read back by translate_circuit(x,         *)
(*                     "tangelo", source=fmt)                               *)
(*             after   [n, gates] the SOURCE circuit after both calls       *)
(*  "gate":    g, status "evaluated" | "eval-raised", out = eval(repr(g)),  *)
(*             after = g after the call                                     *)
(*  "op":      n, terms, status "converted" | "raised", out (terms),         *)
(*             offgrid (a returned coefficient is no Gaussian dyadic, hence  *)
(*             certainly not one of the input's), after (terms)             *)
(*                                                                         *)
(* verdicts: "ok", "ok-refused" (unsupported or optional input refused),    *)
(*  "drift-unsupported-roundtrips" (the translators now support a gate the  *)
(*  specification lists as unsupported, and it survives: not a violation),  *)
(*  everything else is a violation of the property:                         *)
(*  "refused-supported", "import-raised", "altered-width", "altered-length",*)
(*  "altered-name", "altered-target", "altered-control", "altered-param",   *)
(*  "altered-variational", "source-mutated", "eval-raised", "raised",       *)
(*  "altered-operator".                                                     *)
(***************************************************************************)
EXTENDS C17Defs

Jobs == JsonDeserialize(IOEnv.VERIF_JOBS)
VARIABLE i

CircuitVerdict(j) ==
  LET src == [n |-> j.n, gates |-> j.gates]
      cls == CircClass(j.gates, j.fmt)
  IN IF ~(\A x \in 1..Len(j.gates) : GateOK(j.gates[x], j.n)) THEN "malformed-input"
     ELSE IF CircDiff(src, j.after) # "equal" THEN "source-mutated"
     ELSE IF j.status = "refused" THEN (IF cls = "supported" THEN "refused-supported" ELSE "ok-refused")
     ELSE IF j.istatus # "imported" THEN "import-raised"
     ELSE LET d == CircDiff(src, j.out) IN
          IF d = "equal" THEN (IF cls = "unsupported" THEN "drift-unsupported-roundtrips" ELSE "ok") ELSE d

GateVerdict(j) ==
  IF GateDiffFull(j.g, j.after) # "equal" THEN "source-mutated"
  ELSE IF j.status # "evaluated" THEN "eval-raised"
  ELSE LET d == GateDiffFull(j.g, j.out) IN IF d = "equal" THEN "ok" ELSE d

OpVerdict(j) ==
  IF ~SameOp(j.terms, j.after) THEN "source-mutated"
  ELSE IF j.status # "converted" THEN "raised"
  ELSE IF j.offgrid THEN "altered-operator"
  ELSE IF SameOp(j.terms, j.out) THEN "ok" ELSE "altered-operator"

Verdict(j) ==
  CASE j.kind = "circuit" -> CircuitVerdict(j)
    [] j.kind = "gate"    -> GateVerdict(j)
    [] j.kind = "op"      -> OpVerdict(j)
    [] OTHER              -> "malformed-job"

JInit == i \in 1..Len(Jobs)
JNext == i > 0 /\ PrintT(<<"V", Jobs[i].id, Verdict(Jobs[i])>>) /\ i' = 0
=============================================================================
