------------------------------ MODULE C17Trace ------------------------------
(***************************************************************************)
(* V-part of C17: what the implementation actually did on each input that   *)
(* C17RoundTrip generated is judged here by TLC, with the same definitions  *)
(* (C17Defs) the state machine uses.                                        *)
(*                                                                         *)
(* job kinds                                                                *)
(*  "circuit": fmt, n, gates            the input circuit                   *)
(*             status  "exported" | "refused"   (translate_circuit(c, fmt)) *)
(*             istatus "imported" | "import-raised" | "none"                *)
(*             out     [n, gates] read back by translate_circuit(x,         *)
(*                     "tangelo", source=fmt)                               *)
(*             after   [n, gates] the SOURCE circuit after both calls       *)
(*  "convert": a "circuit" job with a direct conversion in between:        *)
(*             fmt2, cstatus "converted" | "refused", ctype (Python type of *)
(*             the converted document), same_direct (one-way targets)       *)
(*  "gate":    g, status "evaluated" | "eval-raised", out = eval(repr(g)),  *)
(*             after = g after the call                                     *)
(*  "op":      n, terms, status "converted" | "raised", out (terms),         *)
(*             offgrid (a returned coefficient is no Gaussian dyadic, hence  *)
(*             certainly not one of the input's), after (terms)             *)
(*                                                                         *)
(* verdicts: "ok", "ok-refused" (unsupported or optional input refused),    *)
(*  "drift-unsupported-roundtrips" (the translators now support a gate the  *)
(*  specification lists as unsupported, and it survives: not a violation),  *)
(*  everything else is a violation of the property:                         *)
(*  "refused-supported", "import-raised", "altered-width", "altered-length",*)
(*  "altered-name", "altered-target", "altered-control", "altered-param",   *)
(*  "altered-variational", "source-mutated", "eval-raised", "raised",       *)
(*  "altered-operator".                                                     *)
(***************************************************************************)
EXTENDS C17Defs

Jobs == JsonDeserialize(IOEnv.VERIF_JOBS)
VARIABLE i

CircuitVerdict(j) ==
  LET src == [n |-> j.n, gates |-> j.gates]
      cls == CircClass(j.gates, j.fmt)
  IN IF ~(\A x \in 1..Len(j.gates) : GateOK(j.gates[x], j.n)) THEN "malformed-input"
     ELSE IF CircDiff(src, j.after) # "equal" THEN "source-mutated"
     ELSE IF j.status = "refused" THEN (IF cls = "supported" THEN "refused-supported" ELSE "ok-refused")
     ELSE IF j.istatus # "imported" THEN "import-raised"
     ELSE LET d == CircDiff(src, j.out) IN
          IF d = "equal" THEN (IF cls = "unsupported" THEN "drift-unsupported-roundtrips" ELSE "ok") ELSE d

\* direct conversion fmt -> fmt2:  cstatus "converted" | "refused", ctype = Python type of the converted document,
\* two-way targets: istatus / out as above (read with source = fmt2);  one-way targets (cirq, sympy): same_direct =
\* the converted document equals translate_circuit(c, fmt2)
ConvertVerdict(j) ==
  LET src  == [n |-> j.n, gates |-> j.gates]
      cls1 == CircClass(j.gates, j.fmt)
      cls2 == CircClass(j.gates, j.fmt2)
  IN IF ~(\A x \in 1..Len(j.gates) : GateOK(j.gates[x], j.n)) THEN "malformed-input"
     ELSE IF CircDiff(src, j.after) # "equal" THEN "source-mutated"
     ELSE IF j.status = "refused" THEN (IF cls1 = "supported" THEN "refused-supported" ELSE "ok-refused")
     ELSE IF j.cstatus = "refused"
          THEN (IF cls1 = "supported" /\ cls2 = "supported" THEN "conversion-refused-supported" ELSE "ok-refused")
     ELSE IF j.ctype # ExpectedType(j.fmt2) THEN "converted-document-has-wrong-type"
     ELSE IF j.fmt2 \in OneWay
          THEN (IF ~j.same_direct THEN "converted-differs-from-direct-export"
                ELSE IF "unsupported" \in {cls1, cls2} THEN "drift-unsupported-roundtrips" ELSE "ok")
     ELSE IF j.istatus # "imported" THEN "import-raised"
     ELSE LET d == CircDiff(src, j.out) IN
          IF d = "equal" THEN (IF "unsupported" \in {cls1, cls2} THEN "drift-unsupported-roundtrips" ELSE "ok") ELSE d

GateVerdict(j) ==
  IF GateDiffFull(j.g, j.after) # "equal" THEN "source-mutated"
  ELSE IF j.status # "evaluated" THEN "eval-raised"
  ELSE LET d == GateDiffFull(j.g, j.out) IN IF d = "equal" THEN "ok" ELSE d

OpVerdict(j) ==
  IF ~SameOp(j.terms, j.after) THEN "source-mutated"
  ELSE IF j.status # "converted" THEN "raised"
  ELSE IF j.offgrid THEN "altered-operator"
  ELSE IF SameOp(j.terms, j.out) THEN "ok" ELSE "altered-operator"

Verdict(j) ==
  CASE j.kind = "circuit" -> CircuitVerdict(j)
    [] j.kind = "convert" -> ConvertVerdict(j)
    [] j.kind = "gate"    -> GateVerdict(j)
    [] j.kind = "op"      -> OpVerdict(j)
    [] OTHER              -> "malformed-job"

JInit == i \in 1..Len(Jobs)
JNext == i > 0 /\ PrintT(<<"V", Jobs[i].id, Verdict(Jobs[i])>>) /\ i' = 0
=============================================================================
