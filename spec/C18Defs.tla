------------------------------ MODULE C18Defs -------------------------------
(***************************************************************************)
(* C18 - histogram processing conserves information: exact algebra of       *)
(* measurement histograms (integer counts).  No variables here.             *)
(*                                                                         *)
(* A histogram over nb bits is [nb |-> nb, cnt |-> <<c_0 .. c_{2^nb - 1}>>]:*)
(* c_x = number of shots whose outcome is the bitstring of x.  A bitstring  *)
(* is written with qubit 0 FIRST (Tangelo's lsq_first keys): character q of *)
(* the key is Bit(x, q, nb), i.e. qubit 0 is the most significant bit of x. *)
(* A key with count 0 and an absent key are the same thing (the abstraction *)
(* function of the driver drops zero entries).  Frequencies are the exact   *)
(* rationals c_x / Total.                                                   *)
(*                                                                         *)
(* Operations (the documented meaning of tangelo.toolboxes.post_processing):*)
(*   HNew      construction, optionally from msq_first keys (reversal)      *)
(*   HAdd      aggregation of two histograms of the same width              *)
(*   HRemove   remove qubit indices I, summing the remaining bitstrings     *)
(*   HFilter   keep the outcomes satisfying a predicate                     *)
(*   HPostSel  keep the outcomes matching the expected bits, then remove    *)
(*             those qubits                                                  *)
(*   ResampleOK  what any resampling to n shots must satisfy                *)
(*   FSplit / FSplitLast  the two marginals returned by                      *)
(*             split_frequency_dict / split_frequency_dict_for_last_n_digits *)
(***************************************************************************)
EXTENDS Integers, Sequences, FiniteSets, TLC

RECURSIVE Pw2(_)
Pw2(n) == IF n <= 0 THEN 1 ELSE 2 * Pw2(n - 1)

RECURSIVE HSumTo(_, _)
HSumTo(s, k) == IF k = 0 THEN 0 ELSE s[k] + HSumTo(s, k - 1)
HSum(s) == HSumTo(s, Len(s))

Bit(x, q, nb) == (x \div Pw2(nb - 1 - q)) % 2

Nil == [nb |-> -1, cnt |-> <<>>]
IsHist(h) == h.nb >= 0 /\ Len(h.cnt) = Pw2(h.nb) /\ \A i \in 1..Len(h.cnt) : h.cnt[i] >= 0
Total(h) == HSum(h.cnt)
Live(h)  == h.nb >= 0 /\ Total(h) > 0
HSupport(h) == {x \in 0..(Pw2(h.nb) - 1) : h.cnt[x + 1] > 0}
Mass(h, S) == HSum(TLCEval([i \in 1..Len(h.cnt) |-> IF (i - 1) \in S THEN h.cnt[i] ELSE 0]))

\* ---- bit order reversal (msq_first input) ------------------------------------
RevIdx(x, nb) == HSum(TLCEval([j \in 1..nb |-> Bit(x, j - 1, nb) * Pw2(j - 1)]))
HRev(h) == [nb |-> h.nb, cnt |-> TLCEval([i \in 1..Len(h.cnt) |-> h.cnt[RevIdx(i - 1, h.nb) + 1]])]
HNew(nb, cnt, msq) == IF msq THEN HRev([nb |-> nb, cnt |-> cnt]) ELSE [nb |-> nb, cnt |-> cnt]

\* ---- aggregation ---------------------------------------------------------------
HAdd(a, b) == [nb |-> a.nb, cnt |-> TLCEval([i \in 1..Len(a.cnt) |-> a.cnt[i] + b.cnt[i]])]

\* ---- marginalisation -------------------------------------------------------------
RECURSIVE SortedFrom(_, _, _)
SortedFrom(S, q, nb) == IF q >= nb THEN <<>> ELSE (IF q \in S THEN <<q>> ELSE <<>>) \o SortedFrom(S, q + 1, nb)
Kept(nb, I) == SortedFrom((0..(nb - 1)) \ I, 0, nb)          \* kept positions, ascending

\* index of the bitstring made of the bits of x at positions K[1], K[2], ...
MargIdx(x, K, nb) == HSum(TLCEval([j \in 1..Len(K) |-> Bit(x, K[j], nb) * Pw2(Len(K) - j)]))

HRemove(h, I) ==
  LET K == Kept(h.nb, I)
      m == Len(K)
  IN [nb |-> m,
      cnt |-> TLCEval([y \in 1..Pw2(m) |-> Mass(h, {x \in 0..(Pw2(h.nb) - 1) : MargIdx(x, K, h.nb) = y - 1})])]

\* ---- filtering / post-selection ----------------------------------------------------
HFilter(h, S) == [nb |-> h.nb, cnt |-> TLCEval([i \in 1..Len(h.cnt) |-> IF (i - 1) \in S THEN h.cnt[i] ELSE 0])]

\* predicates on outcomes (the driver builds the matching Python function)
PredHolds(P, x, nb) ==
  CASE P.kind = "bit"    -> Bit(x, P.q, nb) = P.v
    [] P.kind = "parity" -> HSum(TLCEval([j \in 1..nb |-> Bit(x, j - 1, nb)])) % 2 = P.v
    [] P.kind = "all"    -> TRUE
    [] P.kind = "none"   -> FALSE
PredSet(P, nb) == {x \in 0..(Pw2(nb) - 1) : PredHolds(P, x, nb)}

\* expected outcomes: sequence E of length nb, E[q+1] in {0, 1} = required bit of qubit q, 2 = unconstrained
Constrained(E) == {q \in 0..(Len(E) - 1) : E[q + 1] # 2}
MatchSet(E, nb) == {x \in 0..(Pw2(nb) - 1) : \A q \in Constrained(E) : Bit(x, q, nb) = E[q + 1]}
HPostSel(h, E) == HRemove(HFilter(h, MatchSet(E, h.nb)), Constrained(E))

\* ---- resampling ----------------------------------------------------------------------
ResampleOK(h, n, r) ==
  /\ IsHist(r) /\ r.nb = h.nb
  /\ Total(r) = n
  /\ HSupport(r) \subseteq HSupport(h)
ResampleVerdict(h, n, r) ==
  IF r.nb # h.nb \/ Len(r.cnt) # Len(h.cnt) THEN "key-width-changed"
  ELSE IF Total(r) # n THEN "total-differs-from-n"
  ELSE IF ~(HSupport(r) \subseteq HSupport(h)) THEN "outcome-outside-support"
  ELSE "ok"
\* a canonical member of the allowed set (all shots on the smallest supported outcome)
ResampleCanon(h, n) ==
  LET x0 == CHOOSE x \in HSupport(h) : \A y \in HSupport(h) : x <= y
  IN [nb |-> h.nb, cnt |-> TLCEval([i \in 1..Len(h.cnt) |-> IF i = x0 + 1 THEN n ELSE 0])]
\* all members (small widths only)
ResampleAllSet(h, n) ==
  { [nb |-> h.nb, cnt |-> c] : c \in { c \in [1..Len(h.cnt) -> 0..n] :
        HSumTo(c, Len(h.cnt)) = n /\ \A i \in 1..Len(h.cnt) : (c[i] > 0 => h.cnt[i] > 0) } }

\* ---- the functional helpers on frequency dictionaries --------------------------------
\* split_frequency_dict(freqs, idx, desired): idx = sequence of distinct positions (any order),
\* desired = <<>> (None) or a sequence of bits aligned with idx
SeqRange(s) == {s[j] : j \in 1..Len(s)}
ExpectedOf(idx, desired, nb) ==
  TLCEval([q1 \in 1..nb |-> IF \E j \in 1..Len(idx) : idx[j] = q1 - 1
                    THEN desired[CHOOSE j \in 1..Len(idx) : idx[j] = q1 - 1] ELSE 2])
FSplitMid(h, idx)  == HRemove(h, (0..(h.nb - 1)) \ SeqRange(idx))
FSplitMarg(h, idx, desired) ==
  IF desired = <<>> THEN HRemove(h, SeqRange(idx)) ELSE HPostSel(h, ExpectedOf(idx, desired, h.nb))
\* split_frequency_dict_for_last_n_digits(freqs, k): (all but the last k bits, the last k bits)
FSplitLastHead(h, k) == HRemove(h, (h.nb - k)..(h.nb - 1))
FSplitLastTail(h, k) == HRemove(h, 0..(h.nb - k - 1))

\* ---- parity expectation values (Z-type words given by the set of qubits they act on) ----
\* numerator of <Z_S> : sum_x c_x (-1)^{sum_{q in S} bit_q(x)}; denominator Total(h)
ParityNum(h, S) ==
  HSum(TLCEval([i \in 1..Len(h.cnt) |->
     IF Cardinality({q \in S : Bit(i - 1, q, h.nb) = 1}) % 2 = 0 THEN h.cnt[i] ELSE -h.cnt[i]]))
\* the same word after removing the qubits I (I disjoint from S): positions are re-indexed
Reindex(S, I) == {q - Cardinality({r \in I : r < q}) : q \in S}
\* parities of every subset, indexed by the mask value (qubit 0 = most significant bit of the mask)
MaskSet(m, nb) == {q \in 0..(nb - 1) : Bit(m, q, nb) = 1}
AllParities(h) == TLCEval([m1 \in 1..Pw2(h.nb) |-> ParityNum(h, MaskSet(m1 - 1, h.nb))])
=============================================================================
