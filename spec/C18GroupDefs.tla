---------------------------- MODULE C18GroupDefs -----------------------------
(***************************************************************************)
(* C18 - measurement grouping: qubit-wise-commuting partitions and the      *)
(* expectation value assembled from per-basis histograms.  No variables.    *)
(*                                                                         *)
(* Operators are sequences of terms [w |-> word, c |-> ring element]        *)
(* (Pauli.tla: letters 0 I, 1 X, 2 Y, 3 Z; one letter per qubit).           *)
(* A grouping is a sequence of groups [b |-> basis word, terms |-> terms];  *)
(* letter 0 in a basis word = the basis does not fix that qubit.            *)
(***************************************************************************)
EXTENDS Pauli, TLC, Json, IOUtils

TermWords(ts) == {ts[i].w : i \in 1..Len(ts)}
RECURSIVE ConcatTerms(_, _)
ConcatTerms(groups, k) == IF k = 0 THEN <<>> ELSE ConcatTerms(groups, k - 1) \o groups[k].terms

\* a word is diagonal in the tensor-product basis b iff every letter is I or the basis letter
DiagonalIn(w, b, n) == \A q \in 1..n : w[q] = 0 \/ w[q] = b[q]

\* "ok" or the clause of the partition property that fails
PartitionVerdict(opterms, groups, n) ==
  LET all == ConcatTerms(groups, Len(groups)) IN
  IF \E g \in 1..Len(groups), h \in 1..Len(groups) : g # h /\ groups[g].b = groups[h].b THEN "duplicate-basis"
  ELSE IF Cardinality(TermWords(all)) # Len(all) THEN "term-in-two-groups"
  ELSE IF \E g \in 1..Len(groups) : \E t \in 1..Len(groups[g].terms) :
             ~DiagonalIn(groups[g].terms[t].w, groups[g].b, n) THEN "term-not-diagonal-in-its-basis"
  ELSE IF TermWords(all) # TermWords(opterms) THEN "term-missing-or-extra"
  ELSE IF ~OpEq(OpFromTerms(all), OpFromTerms(opterms)) THEN "coefficient-changed"
  ELSE "ok"
IsQwcPartition(opterms, groups, n) == PartitionVerdict(opterms, groups, n) = "ok"

\* map_measurements_qwc: every non-identity term |-> exactly the bases it commutes with qubit-wise
\* map: sequence of [w |-> word, bases |-> sequence of basis words]
MapVerdict(groups, map, n) ==
  LET all   == ConcatTerms(groups, Len(groups))
      words == {w \in TermWords(all) : w # IdWord(n)}
      bases == {groups[g].b : g \in 1..Len(groups)}
  IN IF {map[i].w : i \in 1..Len(map)} # words \/ Len(map) # Cardinality(words) THEN "map-keys-differ-from-terms"
     ELSE IF \E i \in 1..Len(map) :
               LET bs == {map[i].bases[j] : j \in 1..Len(map[i].bases)} IN
               \/ Cardinality(bs) # Len(map[i].bases)
               \/ bs # {b \in bases : QubitwiseCommute(map[i].w, b, n)}
          THEN "map-lists-wrong-bases"
     ELSE "ok"

\* ---- measuring in a tensor-product basis ---------------------------------------------
\* rotate so that the basis letter becomes Z:  X: H,   Y: H S^dagger  (H S^dagger Y S H = Z)
RECURSIVE BasisGatesFrom(_, _, _)
BasisGatesFrom(b, q, n) ==
  IF q > n THEN <<>>
  ELSE (CASE b[q] = 1 -> <<G("H", <<q - 1>>, <<>>, 0)>>
          [] b[q] = 2 -> <<G("SDAG", <<q - 1>>, <<>>, 0), G("H", <<q - 1>>, <<>>, 0)>>
          [] OTHER    -> <<>>) \o BasisGatesFrom(b, q + 1, n)
BasisGates(b, n) == BasisGatesFrom(b, 1, n)

\* exact outcome distribution (real ring elements), index x+1 <-> bitstring of x, qubit 0 first
DistInBasis(psi, b, n) == Probs(Run(psi, BasisGates(b, n), n), Dim(n))

\* parity estimator of the word w from a distribution over bitstrings
ParityExpect(dist, w, n) ==
  SumRing(TLCEval([i \in 1..Dim(n) |->
     IF Cardinality({q \in 1..n : w[q] # 0 /\ BitAt(i - 1, q - 1, n) = 1}) % 2 = 0 THEN dist[i] ELSE Neg(dist[i])]), Dim(n))

\* value assembled from the per-basis distributions, term by term
RECURSIVE AssembledFrom(_, _, _, _)
AssembledFrom(groups, psi, n, g) ==
  IF g = 0 THEN RZero
  ELSE LET dist == DistInBasis(psi, groups[g].b, n)
           ts   == groups[g].terms
       IN Add(AssembledFrom(groups, psi, n, g - 1),
              SumRing(TLCEval([t \in 1..Len(ts) |-> Mul(ts[t].c, ParityExpect(dist, ts[t].w, n))]), Len(ts)))
Assembled(groups, psi, n) == AssembledFrom(groups, psi, n, Len(groups))

\* ---- state preparations (exact grid states) ---------------------------------------------
\* a generic entangled state: pairwise distinct amplitudes, every Pauli word has a non-trivial expectation value
GenericPrep(n) ==
  [q \in 1..n |-> G("H", <<q - 1>>, <<>>, 0)]
  \o [q \in 1..n |-> G("PHASE", <<q - 1>>, <<>>, q)]
  \o [q \in 1..(n - 1) |-> G("CNOT", <<q>>, <<q - 1>>, 0)]
  \o [q \in 1..n |-> G("RY", <<q - 1>>, <<>>, 2)]
  \o [q \in 1..n |-> G("T", <<q - 1>>, <<>>, 0)]
  \o [q \in 1..n |-> G("RX", <<q - 1>>, <<>>, 2 * q)]
\* a product state that is an eigenstate of no single-qubit Pauli
TiltPrep(n) == [q \in 1..n |-> G("RY", <<q - 1>>, <<>>, 2)] \o [q \in 1..n |-> G("PHASE", <<q - 1>>, <<>>, 2 * q - 1)]
\* GHZ-like
GhzPrep(n) == <<G("H", <<0>>, <<>>, 0)>> \o [q \in 1..(n - 1) |-> G("CNOT", <<q>>, <<q - 1>>, 0)] \o <<G("S", <<0>>, <<>>, 0)>>
Prep(p, n) == CASE p = 1 -> GenericPrep(n) [] p = 2 -> TiltPrep(n) [] p = 3 -> GhzPrep(n) [] OTHER -> <<>>
PrepState(p, n) == Run(ZeroState(n), Prep(p, n), n)
=============================================================================
