----------------------------- MODULE C18Grouping -----------------------------
(***************************************************************************)
(* C18 - measurement grouping.  State machine that enumerates qubit         *)
(* operators (distinct words, non-zero Gaussian dyadic coefficients) next   *)
(* to an exact state preparation.                                           *)
(*                                                                         *)
(* Variables: n (qubits), p (index of the state preparation), terms (the    *)
(* operator under construction), phase ("build" | "done").                  *)
(* Actions:   AddTerm(w, c), Finish (prints the operator for the driver).   *)
(*                                                                         *)
(* S (checked by TLC):                                                      *)
(*  FrequencyRouteExact  for every basis b and every word w diagonal in b   *)
(*     the parity estimator on the exact distribution of psi measured in b  *)
(*     equals <psi| w |psi>   (so per-basis histograms determine the value) *)
(*  GreedyIsPartition / GreedyAssembledExact  a first-fit qubit-wise        *)
(*     commuting grouping (algorithm model) is a partition in the sense of  *)
(*     IsQwcPartition and its assembled value equals sum_j c_j <P_j>        *)
(* V: the groups returned by the real group_qwc / map_measurements_qwc for  *)
(*  the emitted operators are judged by C18Trace with the same definitions. *)
(***************************************************************************)
EXTENDS C18GroupDefs

CONSTANTS GN, GMinTerms, GMaxTerms, GCoefs, GPreps, GEmit

GCoefFull  == { ROne, Neg(Half(FromInt(3))), Dyadic(1, 2), Mul(RI, Half(ROne)), FromInt(2) }
GCoefSmall == { ROne, Neg(Half(FromInt(3))) }
GPrepAll   == {1, 2, 3}
GPrepOne   == {1}

VARIABLES n, p, terms, phase
vars == <<n, p, terms, phase>>

Init == n \in 1..GN /\ p \in GPreps /\ terms = <<>> /\ phase = "build"

AddTerm(w, c) ==
  /\ phase = "build" /\ Len(terms) < GMaxTerms /\ w \notin TermWords(terms)
  /\ terms' = Append(terms, [w |-> w, c |-> c])
  /\ UNCHANGED <<n, p, phase>>
AddTermStep == phase = "build" /\ Len(terms) < GMaxTerms /\ \E w \in AllWords(n), c \in GCoefs : AddTerm(w, c)

Finish ==
  /\ phase = "build" /\ Len(terms) >= GMinTerms
  /\ phase' = "done"
  /\ (GEmit => PrintT(<<"TR", ToJson([n |-> n, p |-> p, prep |-> Prep(p, n), terms |-> terms])>>))
  /\ UNCHANGED <<n, p, terms>>

Next == AddTermStep \/ Finish
Spec == Init /\ [][Next]_vars

\* ---- algorithm model: first-fit grouping ---------------------------------------------------
MergeBasis(b, w, m) == TLCEval([q \in 1..m |-> IF b[q] # 0 THEN b[q] ELSE w[q]])
RECURSIVE FirstFit(_, _, _, _)
FirstFit(groups, t, g, m) ==
  IF g > Len(groups) THEN Append(groups, [b |-> t.w, terms |-> <<t>>])
  ELSE IF QubitwiseCommute(t.w, groups[g].b, m)
       THEN [groups EXCEPT ![g] = [b |-> MergeBasis(groups[g].b, t.w, m), terms |-> Append(groups[g].terms, t)]]
       ELSE FirstFit(groups, t, g + 1, m)
RECURSIVE GreedyFrom(_, _, _, _)
GreedyFrom(ts, k, groups, m) == IF k > Len(ts) THEN groups ELSE GreedyFrom(ts, k + 1, FirstFit(groups, ts[k], 1, m), m)
GreedyGroups(ts, m) == GreedyFrom(ts, 1, <<>>, m)

\* ---- S -------------------------------------------------------------------------------------------
FrequencyRouteExact ==
  (phase = "build" /\ terms = <<>>) =>
     LET psi == PrepState(p, n) IN
     \A b \in AllWords(n) :
        LET dist == DistInBasis(psi, b, n) IN
        /\ SumRing(dist, Dim(n)) = ROne
        /\ \A w \in {w \in AllWords(n) : DiagonalIn(w, b, n)} : ParityExpect(dist, w, n) = ExpectWord(w, psi, n)
GreedyIsPartition == phase = "done" => IsQwcPartition(terms, GreedyGroups(terms, n), n)
GreedyAssembledExact ==
  phase = "done" => Assembled(GreedyGroups(terms, n), PrepState(p, n), n) = ExpectOp(OpFromTerms(terms), PrepState(p, n), n)
=============================================================================
