---------------------------- MODULE C18Histogram ----------------------------
(***************************************************************************)
(* C18 - state machine over a heap of Histogram objects.                    *)
(*                                                                         *)
(* Variables                                                                *)
(*   heap  slot |-> histogram value (C18Defs) or Nil; distinct slots are    *)
(*         distinct Python objects                                          *)
(*   pre   the heap before the last action,  act the last action,           *)
(*   ret   what the last action returned ("none", "raise" = the action is   *)
(*         rejected: the implementation must raise and change nothing,      *)
(*         "hist"/"pair" = value(s) of a functional helper, "nondet" = the   *)
(*         result is only constrained (resampling))                         *)
(*   d     number of actions so far,  hist  the behaviour so far            *)
(*                                                                         *)
(* Actions (one per public operation)                                       *)
(*   New(s, h0, msq, mode, zeros)   Histogram(outcomes, n_shots, msq_first) *)
(*   Add(dd, a, b)    heap[dd] := heap[a] + heap[b]   (rejected when the    *)
(*                    widths differ)                                         *)
(*   IAdd(a, b)       heap[a] += heap[b]                                     *)
(*   Agg3(dd,a,b,c)   heap[dd] := aggregate_histograms(a, b, c)              *)
(*   Remove(a, I)     remove_qubit_indices(I...)                           *)
(*   PostSelect(a, E) post_select({q: bit})                                  *)
(*   Filter(dd, a, P) heap[dd] := filter_hist(heap[a], P)                    *)
(*   Resample(dd, a, n)  heap[dd] := heap[a].resample(n)   (nondeterministic)*)
(*   FPostSelect, FStrip, FSplit, FSplitLast, FResample: the functional      *)
(*   helpers applied to heap[a].frequencies (heap unchanged);                *)
(*   FSplitLastRagged: the last-n-digits split on a dictionary whose keys    *)
(*   have two different lengths                                              *)
(*                                                                         *)
(* Invariants = the conservation laws of DESIGN 4/C18, stated over           *)
(* (pre, act, ret, heap) and checked by TLC in every reachable state.        *)
(* Every behaviour / transition is exported for replay on real objects.      *)
(***************************************************************************)
EXTENDS C18Defs, Json

CONSTANTS Slots,        \* set of heap slots
          Level,        \* 1 = small argument alphabets (every history), 2 = full alphabets
          InitMode,     \* "empty": all slots Nil;  "all": slot 1 ranges over the carrier, slot 2 over Few or Nil;
                        \* "big": slot 1 is one of two generic histograms, only Resample / FResample with n in BigNs
          NBSet,        \* widths of the carrier
          MaxCount,     \* counts 0..MaxCount in the carrier
          NewCarrier,   \* BOOLEAN: New ranges over the whole carrier (else over the fixed generic histograms)
          MaxDepth,
          BigNs,        \* shot numbers for InitMode "big" (the implementation samples in chunks of 10^7 shots:
                        \* 10^7 - 1, 10^7, 10^7 + 1, 2 * 10^7 sit on the chunk boundary)
          BigCross,     \* BOOLEAN: in "big" mode both functions on both histograms (else resample on the 2-bit,
                        \* get_resampled_frequencies on the 1-bit histogram: each call costs seconds)
          ResampleAll,  \* BOOLEAN: enumerate every allowed resampling outcome (widths <= 2), else a canonical one
          Emit,         \* BOOLEAN: print every transition
          EmitBH        \* BOOLEAN: print every behaviour of length MaxDepth

NB012 == {0, 1, 2}
NB12  == {1, 2}
NB3   == {3}
NB123 == {1, 2, 3}
BigQuick == {10000000, 20000000}
BigFull  == {9999999, 10000000, 10000001, 20000000}
NoBig    == {}
S2    == {1, 2}
S3    == {1, 2, 3}

VARIABLES heap, pre, act, ret, d, hist
vars == <<heap, pre, act, ret, d, hist>>

H(nb, cnt) == [nb |-> nb, cnt |-> cnt]
\* generic histograms: asymmetric under bit reversal, with empty outcomes, several widths
F1a == H(1, <<1, 2>>)
F1b == H(1, <<3, 0>>)
F2a == H(2, <<1, 0, 2, 3>>)
F2b == H(2, <<0, 2, 1, 0>>)
F3a == H(3, <<1, 0, 2, 0, 0, 3, 1, 0>>)
F3b == H(3, <<0, 1, 0, 2, 1, 0, 0, 0>>)
\* totals 22 and 23: c/22*22 and c/23*23 are not exact in binary floating point (15/22*22 < 15), so the
\* frequency constructor must round, not truncate, to conserve the number of shots
F1c == H(1, <<15, 7>>)
F2c == H(2, <<13, 4, 5, 1>>)
Few == {F1a, F1b, F2a, F2b, F3a, F3b, F1c, F2c}

Carrier == UNION { { H(nb, c) : c \in { c \in [1..Pw2(nb) -> 0..MaxCount] : \E i \in 1..Pw2(nb) : c[i] > 0 } } : nb \in NBSet }

NewArgs ==
  IF NewCarrier THEN { <<h, m, md, z>> : h \in Carrier \cup Few, m \in BOOLEAN, md \in {"counts", "freq"}, z \in BOOLEAN }
  ELSE IF Level = 1 THEN { <<F2a, FALSE, "counts", FALSE>>, <<F2b, TRUE, "freq", FALSE>>, <<F1a, FALSE, "counts", TRUE>> }
  ELSE { <<h, m, md, z>> : h \in Few, m \in BOOLEAN, md \in {"counts", "freq"}, z \in BOOLEAN }

ISets(nb) == IF Level = 1 THEN { {q} : q \in 0..(nb - 1) } \cup (IF nb >= 1 THEN { 0..(nb - 1) } ELSE {})
             ELSE (SUBSET (0..(nb - 1))) \ { {} }
ESets(nb) == LET all == { E \in [1..nb -> {0, 1, 2}] : Constrained(E) # {} }
             IN IF Level = 1 THEN { E \in all : Cardinality(Constrained(E)) = 1 \/ E = [q1 \in 1..nb |-> q1 % 2] }
                ELSE all
Preds(nb) == IF Level = 1 THEN (IF nb >= 1 THEN { [kind |-> "bit", q |-> 0, v |-> 1] } ELSE {}) \cup { [kind |-> "parity", q |-> 0, v |-> 0] }
             ELSE { [kind |-> "bit", q |-> q, v |-> v] : q \in 0..(nb - 1), v \in {0, 1} }
                  \cup { [kind |-> "parity", q |-> 0, v |-> v] : v \in {0, 1} }
                  \cup { [kind |-> "all", q |-> 0, v |-> 0], [kind |-> "none", q |-> 0, v |-> 0] }
ResampleNs == IF InitMode = "big" THEN BigNs ELSE IF Level = 1 THEN {2} ELSE {1, 3}
\* index sequences for split_frequency_dict: one or two distinct positions, in any order
IdxSeqs(nb) == { <<q>> : q \in 0..(nb - 1) }
               \cup { s \in { <<p, q>> : p \in 0..(nb - 1), q \in 0..(nb - 1) } : s[1] # s[2] }
Desired(idx) == { <<>> } \cup [1..Len(idx) -> {0, 1}]

NoAct == [op |-> "none"]
NoRet == [kind |-> "none"]

LiveSlots == {s \in Slots : Live(heap[s])}

Obs(hp) == [s \in Slots |-> IF Live(hp[s]) THEN [tot |-> Total(hp[s]), par |-> AllParities(hp[s])]
                                            ELSE [tot |-> 0, par |-> <<>>]]
HeapSeq(hp) == [s \in 1..Cardinality(Slots) |-> hp[s]]
ObsSeq(hp)  == LET o == Obs(hp) IN [s \in 1..Cardinality(Slots) |-> o[s]]

Init ==
  /\ (IF InitMode = "empty" THEN heap = [s \in Slots |-> Nil]
      ELSE IF InitMode = "big" THEN \E h1 \in {F1a, F2a} : heap = [s \in Slots |-> IF s = 1 THEN h1 ELSE Nil]
      ELSE \E h1 \in Carrier, h2 \in {F1a, F2a, F3b, Nil} : heap = [s \in Slots |-> IF s = 1 THEN h1 ELSE IF s = 2 THEN h2 ELSE Nil])
  /\ pre = heap /\ act = NoAct /\ ret = NoRet /\ d = 0 /\ hist = <<>>

\* common tail of every action
Step(a, r, hp) ==
  /\ d < MaxDepth
  /\ heap' = hp /\ pre' = heap /\ act' = a /\ ret' = r /\ d' = d + 1
  /\ hist' = Append(hist, [act |-> a, ret |-> r, heap |-> HeapSeq(hp), obs |-> ObsSeq(hp)])
  /\ (Emit => PrintT(<<"TR", ToJson([pre |-> HeapSeq(heap), act |-> a, ret |-> r, heap |-> HeapSeq(hp), obs |-> ObsSeq(hp)])>>))

Put(s, h) == [heap EXCEPT ![s] = h]

\* in "all" mode unary actions are explored on slot 1 with slot 2 empty, binary ones when slot 2 is filled
UnaryOK(a)  == InitMode = "empty" \/ (a = 1 /\ heap[2] = Nil)
BinaryOK    == InitMode = "empty" \/ heap[2] # Nil
NotBig      == InitMode # "big"

New(s, h0, msq, mode, zeros) ==
  /\ (Level = 1 \/ NewCarrier \/ ~Live(heap[s]))
  /\ InitMode = "empty"
  /\ Step([op |-> "new", d |-> s, h |-> h0, msq |-> msq, mode |-> mode, zeros |-> zeros], NoRet, Put(s, HNew(h0.nb, h0.cnt, msq)))

Add(dd, a, b) ==
  /\ BinaryOK /\ a \in LiveSlots /\ b \in LiveSlots
  /\ IF heap[a].nb = heap[b].nb
     THEN Step([op |-> "add", d |-> dd, a |-> a, b |-> b], NoRet, Put(dd, HAdd(heap[a], heap[b])))
     ELSE Step([op |-> "add", d |-> dd, a |-> a, b |-> b], [kind |-> "raise"], heap)

IAdd(a, b) ==
  /\ BinaryOK /\ a \in LiveSlots /\ b \in LiveSlots
  /\ IF heap[a].nb = heap[b].nb
     THEN Step([op |-> "iadd", a |-> a, b |-> b], NoRet, Put(a, HAdd(heap[a], heap[b])))
     ELSE Step([op |-> "iadd", a |-> a, b |-> b], [kind |-> "raise"], heap)

\* aggregate_histograms(h_a, h_b, h_c): n-ary aggregation (rejected unless all widths agree)
Agg3(dd, a, b, c) ==
  /\ Level = 2 /\ BinaryOK /\ a \in LiveSlots /\ b \in LiveSlots /\ c \in LiveSlots
  /\ IF heap[a].nb = heap[b].nb /\ heap[b].nb = heap[c].nb
     THEN Step([op |-> "agg3", d |-> dd, a |-> a, b |-> b, c |-> c], NoRet, Put(dd, HAdd(HAdd(heap[a], heap[b]), heap[c])))
     ELSE Step([op |-> "agg3", d |-> dd, a |-> a, b |-> b, c |-> c], [kind |-> "raise"], heap)

SetSeq(S, nb) == Kept(nb, (0..(nb - 1)) \ S)      \* ascending sequence of the elements of S

Remove(a, I) ==
  /\ UnaryOK(a) /\ a \in LiveSlots
  /\ Step([op |-> "remove", a |-> a, I |-> SetSeq(I, heap[a].nb)], NoRet, Put(a, HRemove(heap[a], I)))

PostSelect(a, E) ==
  /\ UnaryOK(a) /\ a \in LiveSlots
  /\ Step([op |-> "postselect", a |-> a, E |-> E], NoRet, Put(a, HPostSel(heap[a], E)))

Filter(dd, a, P) ==
  /\ UnaryOK(a) /\ a \in LiveSlots
  /\ (Level = 1 => dd # a)
  /\ Step([op |-> "filter", d |-> dd, a |-> a, P |-> P], NoRet, Put(dd, HFilter(heap[a], PredSet(P, heap[a].nb))))

ResampleChoices(h, n) == IF ResampleAll /\ h.nb <= 2 THEN ResampleAllSet(h, n) ELSE {ResampleCanon(h, n)}

Resample(dd, a, n) ==
  /\ UnaryOK(a) /\ a \in LiveSlots /\ heap[a].nb >= 1
  /\ (InitMode = "big" => (dd = 2 /\ (BigCross \/ heap[a].nb = 2)))
  /\ \E r \in ResampleChoices(heap[a], n) :
       Step([op |-> "resample", d |-> dd, a |-> a, n |-> n], [kind |-> "nondet"], Put(dd, r))

\* ---- functional helpers (heap unchanged) -------------------------------------------------
\* (renormalisation is part of the helpers' contract: explored where the selected mass is positive)
FPostSelect(a, E) ==
  /\ UnaryOK(a) /\ a \in LiveSlots /\ Mass(heap[a], MatchSet(E, heap[a].nb)) > 0
  /\ Step([op |-> "fpostselect", a |-> a, E |-> E], [kind |-> "hist", h |-> HPostSel(heap[a], E)], heap)

FStrip(a, I) ==
  /\ UnaryOK(a) /\ a \in LiveSlots
  /\ Step([op |-> "fstrip", a |-> a, I |-> SetSeq(I, heap[a].nb)], [kind |-> "hist", h |-> HRemove(heap[a], I)], heap)

FSplit(a, idx, des) ==
  /\ UnaryOK(a) /\ a \in LiveSlots
  /\ (des # <<>> => Mass(heap[a], MatchSet(ExpectedOf(idx, des, heap[a].nb), heap[a].nb)) > 0)
  /\ Step([op |-> "fsplit", a |-> a, idx |-> idx, des |-> des],
          [kind |-> "pair", h1 |-> FSplitMid(heap[a], idx), h2 |-> FSplitMarg(heap[a], idx, des)], heap)

FSplitLast(a, k) ==
  /\ UnaryOK(a) /\ a \in LiveSlots
  /\ Step([op |-> "fsplitlast", a |-> a, k |-> k],
          [kind |-> "pair", h1 |-> FSplitLastHead(heap[a], k), h2 |-> FSplitLastTail(heap[a], k)], heap)

\* split_frequency_dict_for_last_n_digits on a dictionary whose keys have two different lengths (what simulate()
\* passes when classically controlled measurements make the number of mid-circuit outcomes vary): the dictionary is
\* the union of heap[a] and heap[b] (different widths), frequencies = counts / (Total(a) + Total(b)).
\* ret: ha, hb = the leading parts per width (a ragged dictionary again), h2 = the aggregated last-k-bits part
FSplitLastRagged(a, b, k) ==
  /\ BinaryOK /\ a \in LiveSlots /\ b \in LiveSlots /\ heap[a].nb # heap[b].nb
  /\ k <= heap[a].nb /\ k <= heap[b].nb
  /\ Step([op |-> "fsplitlastragged", a |-> a, b |-> b, k |-> k],
          [kind |-> "ragged", ha |-> FSplitLastHead(heap[a], k), hb |-> FSplitLastHead(heap[b], k),
           h2 |-> HAdd(FSplitLastTail(heap[a], k), FSplitLastTail(heap[b], k)), tot |-> Total(heap[a]) + Total(heap[b])], heap)

FResample(a, n) ==
  /\ UnaryOK(a) /\ a \in LiveSlots /\ heap[a].nb >= 1
  /\ (InitMode = "big" => (BigCross \/ heap[a].nb = 1))
  /\ \E r \in ResampleChoices(heap[a], n) :
       Step([op |-> "fresample", a |-> a, n |-> n], [kind |-> "nondet", h |-> r], heap)

NewStep        == NotBig /\ d < MaxDepth /\ InitMode = "empty" /\ \E s \in Slots, x \in NewArgs : New(s, x[1], x[2], x[3], x[4])
AddStep        == NotBig /\ d < MaxDepth /\ \E dd \in Slots, a \in Slots, b \in Slots : Add(dd, a, b)
IAddStep       == NotBig /\ d < MaxDepth /\ \E a \in Slots, b \in Slots : IAdd(a, b)
Agg3Step       == NotBig /\ d < MaxDepth /\ Level = 2 /\ \E dd \in Slots, a \in Slots, b \in Slots, c \in Slots : Agg3(dd, a, b, c)
FSplitLastRaggedStep == NotBig /\ d < MaxDepth /\ Level = 2 /\ \E a \in LiveSlots, b \in LiveSlots : \E k \in 0..3 : FSplitLastRagged(a, b, k)
RemoveStep     == NotBig /\ d < MaxDepth /\ \E a \in LiveSlots : \E I \in ISets(heap[a].nb) : Remove(a, I)
PostSelectStep == NotBig /\ d < MaxDepth /\ \E a \in LiveSlots : \E E \in ESets(heap[a].nb) : PostSelect(a, E)
FilterStep     == NotBig /\ d < MaxDepth /\ \E a \in LiveSlots, dd \in Slots : \E P \in Preds(heap[a].nb) : Filter(dd, a, P)
ResampleStep   == d < MaxDepth /\ \E a \in LiveSlots, dd \in Slots, n \in ResampleNs : Resample(dd, a, n)
FPostSelectStep == NotBig /\ d < MaxDepth /\ Level = 2 /\ \E a \in LiveSlots : \E E \in ESets(heap[a].nb) : FPostSelect(a, E)
FStripStep     == NotBig /\ d < MaxDepth /\ Level = 2 /\ \E a \in LiveSlots : \E I \in ISets(heap[a].nb) : FStrip(a, I)
FSplitStep     == NotBig /\ d < MaxDepth /\ Level = 2 /\ \E a \in LiveSlots : \E idx \in IdxSeqs(heap[a].nb) : \E des \in Desired(idx) : FSplit(a, idx, des)
FSplitLastStep == NotBig /\ d < MaxDepth /\ Level = 2 /\ \E a \in LiveSlots : \E k \in 0..heap[a].nb : FSplitLast(a, k)
FResampleStep  == d < MaxDepth /\ Level = 2 /\ \E a \in LiveSlots, n \in ResampleNs : FResample(a, n)

Next == NewStep \/ AddStep \/ IAddStep \/ RemoveStep \/ PostSelectStep \/ FilterStep \/ ResampleStep
        \/ FPostSelectStep \/ FStripStep \/ FSplitStep \/ FSplitLastStep \/ FResampleStep
        \/ Agg3Step \/ FSplitLastRaggedStep

Spec == Init /\ [][Next]_vars

\* ---- conservation laws (S) ------------------------------------------------------------------
Written == CASE act.op \in {"new", "add", "agg3", "filter", "resample"} -> {act.d}
             [] act.op \in {"iadd", "remove", "postselect"} -> {act.a}
             [] OTHER -> {}

WellFormedHeap == \A s \in Slots : heap[s] = Nil \/ IsHist(heap[s])
LawFrame == \A s \in Slots : (s \notin Written \/ ret.kind = "raise") => heap[s] = pre[s]
LawNew == act.op = "new" =>
   /\ Total(heap[act.d]) = Total(act.h) /\ heap[act.d].nb = act.h.nb
   /\ HRev(HRev(act.h)) = act.h                                      \* reversal is an involution
   /\ heap[act.d] = (IF act.msq THEN HRev(act.h) ELSE act.h)
LawAdd == (act.op \in {"add", "iadd"} /\ ret.kind # "raise") =>
   LET tgt == IF act.op = "add" THEN act.d ELSE act.a IN
   /\ Total(heap[tgt]) = Total(pre[act.a]) + Total(pre[act.b])
   /\ heap[tgt].nb = pre[act.a].nb
   /\ \A x \in 1..Len(heap[tgt].cnt) : heap[tgt].cnt[x] = pre[act.a].cnt[x] + pre[act.b].cnt[x]
LawAgg3 == (act.op = "agg3" /\ ret.kind # "raise") =>
   /\ Total(heap[act.d]) = Total(pre[act.a]) + Total(pre[act.b]) + Total(pre[act.c])
   /\ heap[act.d].nb = pre[act.a].nb
LawAgg3Reject == (act.op = "agg3" /\ ret.kind = "raise") =>
   (Cardinality({pre[act.a].nb, pre[act.b].nb, pre[act.c].nb}) > 1 /\ heap = pre)
LawFSplitLastRagged == act.op = "fsplitlastragged" =>
   /\ Total(ret.ha) + Total(ret.hb) = ret.tot /\ Total(ret.h2) = ret.tot
   /\ ret.ha.nb = pre[act.a].nb - act.k /\ ret.hb.nb = pre[act.b].nb - act.k /\ ret.h2.nb = act.k
LawAddReject == (act.op \in {"add", "iadd"} /\ ret.kind = "raise") => (pre[act.a].nb # pre[act.b].nb /\ heap = pre)
LawRemove == act.op = "remove" =>
   LET I == SeqRange(act.I)  h0 == pre[act.a]  h1 == heap[act.a] IN
   /\ Total(h1) = Total(h0)
   /\ h1.nb = h0.nb - Cardinality(I)
   \* marginal invariance: a word acting only on kept qubits keeps its expectation value
   /\ \A S \in SUBSET ((0..(h0.nb - 1)) \ I) : ParityNum(h0, S) = ParityNum(h1, Reindex(S, I))
LawPostSelect == act.op = "postselect" =>
   LET h0 == pre[act.a]  h1 == heap[act.a] IN
   /\ Total(h1) = Mass(h0, MatchSet(act.E, h0.nb))
   /\ h1.nb = h0.nb - Cardinality(Constrained(act.E))
LawFilter == act.op = "filter" =>
   LET h0 == pre[act.a]  h1 == heap[act.d] IN
   /\ Total(h1) = Mass(h0, PredSet(act.P, h0.nb))
   /\ h1.nb = h0.nb
   /\ \A x \in 1..Len(h1.cnt) : h1.cnt[x] \in {0, h0.cnt[x]}
LawResample == act.op = "resample" => ResampleOK(pre[act.a], act.n, heap[act.d])
LawFResample == act.op = "fresample" => ResampleOK(pre[act.a], act.n, ret.h)
LawFStrip == act.op = "fstrip" =>
   /\ Total(ret.h) = Total(pre[act.a]) /\ ret.h.nb = pre[act.a].nb - Len(act.I)
LawFPostSelect == act.op = "fpostselect" =>
   /\ Total(ret.h) = Mass(pre[act.a], MatchSet(act.E, pre[act.a].nb))
   /\ ret.h.nb = pre[act.a].nb - Cardinality(Constrained(act.E))
LawFSplit == act.op = "fsplit" =>
   LET h0 == pre[act.a] IN
   /\ Total(ret.h1) = Total(h0) /\ ret.h1.nb = Len(act.idx)
   /\ ret.h2.nb = h0.nb - Len(act.idx)
   /\ (act.des = <<>> => Total(ret.h2) = Total(h0))
   /\ (act.des # <<>> => Total(ret.h2) = Mass(h0, MatchSet(ExpectedOf(act.idx, act.des, h0.nb), h0.nb)))
   \* the mid-circuit marginal, restricted to the desired outcome, carries exactly the selected mass
   /\ (act.des # <<>> /\ Len(act.idx) = 1 => ret.h1.cnt[act.des[1] + 1] = Total(ret.h2))
LawFSplitLast == act.op = "fsplitlast" =>
   LET h0 == pre[act.a] IN
   /\ Total(ret.h1) = Total(h0) /\ Total(ret.h2) = Total(h0)
   /\ ret.h1.nb = h0.nb - act.k /\ ret.h2.nb = act.k

\* behaviours for whole-history replay: printed when a behaviour reaches MaxDepth
EndOfBehaviour == (EmitBH /\ d = MaxDepth) => PrintT(<<"BH", ToJson(hist)>>)
=============================================================================
