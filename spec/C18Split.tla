------------------------------- MODULE C18Split -------------------------------
(***************************************************************************)
(* C18 - end-to-end splitting of simulation results into mid-circuit and    *)
(* final frequencies.  State machine that BUILDS small programs with k1     *)
(* MEASURE and k2 CMEASURE instructions in every order and prints, for each *)
(* program, the exact branch table (C18SplitDefs).                          *)
(*                                                                         *)
(* Variables: prog (the program, starting with a fixed entangling           *)
(* preparation), nu (unitaries added by the builder), phase.                *)
(* Actions:   AddU(g), AddM(q), AddC(q, v) (v selects the classically        *)
(* controlled gate lists), Done.                                            *)
(*                                                                         *)
(* S: for every built program the branch probabilities add up to one, each  *)
(* branch distribution adds up to its branch probability, and the joint      *)
(* support is consistent with the table.                                     *)
(* G/V: the driver runs Backend.simulate (cirq) exactly with every outcome  *)
(* string as desired_meas_result and in sampled mode; exact results are      *)
(* compared with the table, sampled results are judged by C18Trace          *)
(* (SplitVerdict: key widths, shots conserved, mid/final = the two          *)
(* marginals of all_frequencies, support).                                   *)
(***************************************************************************)
EXTENDS C18SplitDefs, Json

CONSTANTS SN,        \* qubits (1..2)
          MaxM,      \* MEASURE instructions
          MaxC,      \* CMEASURE instructions
          MinMeas,   \* Done needs at least this many measurements (steers -simulate)
          MaxU,      \* unitaries inserted by the builder
          CVars,     \* variants of the controlled gate lists
          SEmit

CV1   == {1}
CV123 == {1, 2, 3}

VARIABLES prog, nu, phase
vars == <<prog, nu, phase>>

Qs == 0..(SN - 1)
Other(q) == IF SN = 1 THEN q ELSE (q + 1) % SN

Prep == [q \in 1..SN |-> G("H", <<q - 1>>, <<>>, 0)]
        \o [q \in 1..SN |-> G("PHASE", <<q - 1>>, <<>>, q)]
        \o [q \in 1..(SN - 1) |-> G("CNOT", <<q>>, <<q - 1>>, 0)]
        \o [q \in 1..SN |-> G("RY", <<q - 1>>, <<>>, 2)]

UAlpha == { G(nm, <<t>>, <<>>, 0) : nm \in {"H", "X", "T"}, t \in Qs }
          \cup { G("RY", <<t>>, <<>>, 2) : t \in Qs }
          \cup { G("CNOT", <<pr[1]>>, <<pr[2]>>, 0) : pr \in { pr \in Qs \X Qs : pr[1] # pr[2] } }

Meas(q) == [name |-> "MEASURE", t |-> <<q>>, c |-> <<>>, k |-> 0]
Ctl(q, v) == CASE v = 1 -> << <<G("H", <<Other(q)>>, <<>>, 0)>>, <<G("X", <<q>>, <<>>, 0), G("RY", <<Other(q)>>, <<>>, 2)>> >>
               [] v = 2 -> << <<>>, <<G("X", <<q>>, <<>>, 0)>> >>                       \* reset to |0>
               [] OTHER -> << <<G("RY", <<q>>, <<>>, 2)>>, <<>> >>
CMeas(q, v) == [name |-> "CMEASURE", t |-> <<q>>, c |-> <<>>, k |-> 0, ctl |-> Ctl(q, v)]

Init == prog = Prep /\ nu = 0 /\ phase = "build"

AddU(g) == /\ phase = "build" /\ nu < MaxU /\ IsMeas(prog[Len(prog)])
           /\ prog' = Append(prog, g) /\ nu' = nu + 1 /\ UNCHANGED phase
AddM(q) == /\ phase = "build" /\ NPlain(prog) < MaxM
           /\ prog' = Append(prog, Meas(q)) /\ UNCHANGED <<nu, phase>>
AddC(q, v) == /\ phase = "build" /\ NCtl(prog) < MaxC
              /\ prog' = Append(prog, CMeas(q, v)) /\ UNCHANGED <<nu, phase>>
Done == /\ phase = "build" /\ NMeas(prog) >= MinMeas
        /\ phase' = "done"
        /\ (SEmit => PrintT(<<"TR", ToJson([n |-> SN, prog |-> prog, k |-> NMeas(prog), table |-> BranchTable(prog, SN)])>>))
        /\ UNCHANGED <<prog, nu>>

AddUStep == phase = "build" /\ nu < MaxU /\ \E g \in UAlpha : AddU(g)
AddMStep == phase = "build" /\ \E q \in Qs : AddM(q)
AddCStep == phase = "build" /\ \E q \in Qs, v \in CVars : AddC(q, v)
Next == AddUStep \/ AddMStep \/ AddCStep \/ Done
Spec == Init /\ [][Next]_vars

\* ---- S ------------------------------------------------------------------------------------
BranchesSumToOne ==
  phase = "done" =>
    LET tab == BranchTable(prog, SN) IN
    /\ SumRing(TLCEval([b1 \in 1..Len(tab) |-> tab[b1].p]), Len(tab)) = ROne
    /\ \A b1 \in 1..Len(tab) : SumRing(tab[b1].probs, Dim(SN)) = tab[b1].p /\ IsReal(tab[b1].p)
JointSupportOK ==
  phase = "done" =>
    \A i \in JointSupport(prog, SN) : BranchTable(prog, SN)[(i \div Pow2(SN)) + 1].p # RZero
=============================================================================
