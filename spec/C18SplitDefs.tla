---------------------------- MODULE C18SplitDefs -----------------------------
(***************************************************************************)
(* C18 - splitting mid-circuit from final results (Backend.simulate).       *)
(* Exact branch semantics of a program with MEASURE and CMEASURE            *)
(* instructions (no nesting).  No variables here.                           *)
(*                                                                         *)
(* A program is a sequence of                                               *)
(*    unitary gates  G(name, t, c, k)                  (Gates.tla)          *)
(*    [name |-> "MEASURE",  t |-> <<q>>, c |-> <<>>, k |-> 0]               *)
(*    [name |-> "CMEASURE", t |-> <<q>>, c |-> <<>>, k |-> 0,               *)
(*     ctl |-> <<gates applied after outcome 0, gates after outcome 1>>]    *)
(* For an outcome string b (one bit per measurement, in program order) the  *)
(* UNNORMALISED branch vector psi_b is obtained by projecting (Gates.tla    *)
(* Project) at every measurement; p_b = |psi_b|^2 and the final outcome     *)
(* distribution given b is |psi_b[x]|^2 / p_b.                              *)
(***************************************************************************)
EXTENDS Gates, TLC

IsMeas(h) == h.name \in {"MEASURE", "CMEASURE"}
NMeas(prog) == Cardinality({i \in 1..Len(prog) : IsMeas(prog[i])})
NPlain(prog) == Cardinality({i \in 1..Len(prog) : prog[i].name = "MEASURE"})
NCtl(prog)   == Cardinality({i \in 1..Len(prog) : prog[i].name = "CMEASURE"})

RECURSIVE BranchFrom(_, _, _, _, _)
BranchFrom(prog, i, psi, outs, n) ==
  IF i > Len(prog) THEN psi
  ELSE LET h == prog[i] IN
       IF h.name = "MEASURE"
       THEN BranchFrom(prog, i + 1, Project(psi, h.t[1], outs[1], n), Tail(outs), n)
       ELSE IF h.name = "CMEASURE"
       THEN BranchFrom(prog, i + 1, Run(Project(psi, h.t[1], outs[1], n), h.ctl[outs[1] + 1], n), Tail(outs), n)
       ELSE BranchFrom(prog, i + 1, ApplyGate(psi, h, n), outs, n)

BranchVec(prog, outs, n) == BranchFrom(prog, 1, ZeroState(n), outs, n)

\* table[b + 1] for the outcome string whose bits are the binary digits of b (first measurement = most significant)
BranchTable(prog, n) ==
  LET k == NMeas(prog) IN
  TLCEval([b1 \in 1..Pow2(k) |->
     LET psi == BranchVec(prog, Bitstring(b1 - 1, k), n)
     IN [b |-> Bitstring(b1 - 1, k), p |-> Norm2(psi, Dim(n)), probs |-> Probs(psi, Dim(n))]])

\* indices (outcome string, final bitstring) of the joint histogram over k + n bits that have non-zero probability
JointSupport(prog, n) ==
  LET k   == NMeas(prog)
      tab == BranchTable(prog, n)
  IN { b0 * Pow2(n) + x0 : b0 \in { b0 \in 0..(Pow2(k) - 1) : tab[b0 + 1].p # RZero }, x0 \in 0..(Pow2(n) - 1) }
     \cap { b0x \in 0..(Pow2(k + n) - 1) : tab[(b0x \div Pow2(n)) + 1].probs[(b0x % Pow2(n)) + 1] # RZero }
=============================================================================
