------------------------------ MODULE C18Trace -------------------------------
(***************************************************************************)
(* V-part of C18: observations recorded from the implementation, judged by  *)
(* TLC with the definitions of C18Defs (histograms) and C18GroupDefs.       *)
(*                                                                         *)
(* job kinds                                                                *)
(*  "resample": h (histogram value before), n, out (histogram returned by   *)
(*      Histogram.resample / get_resampled_frequencies scaled by n),        *)
(*      exact (BOOLEAN: every frequency was a multiple of 1/n)              *)
(*  "group": n, terms (operator), groups (returned by group_qwc, each       *)
(*      [b, terms]), map (returned by map_measurements_qwc, each            *)
(*      [w, bases]); withD (BOOLEAN) asks for the exact per-basis           *)
(*      distributions of the state prepared by `prep` and the exact         *)
(*      expectation value, printed as <<"D", json>> for the driver          *)
(***************************************************************************)
EXTENDS C18Defs, C18GroupDefs

Jobs == JsonDeserialize(IOEnv.VERIF_JOBS)
VARIABLE i

ResampleJob(j) ==
  IF ~j.exact THEN "frequency-not-multiple-of-1/n"
  ELSE ResampleVerdict(j.h, j.n, j.out)

GroupJob(j) ==
  LET pv == PartitionVerdict(j.terms, j.groups, j.n) IN
  IF pv # "ok" THEN pv
  ELSE LET mv == MapVerdict(j.groups, j.map, j.n) IN
  IF mv # "ok" THEN mv
  ELSE IF ~j.withD THEN "ok"
  ELSE LET psi   == Run(ZeroState(j.n), j.prep, j.n)
           exact == ExpectOp(OpFromTerms(j.terms), psi, j.n)
           dists == TLCEval([g \in 1..Len(j.groups) |-> DistInBasis(psi, j.groups[g].b, j.n)])
       IN IF Assembled(j.groups, psi, j.n) # exact THEN "spec-inconsistent"
          ELSE IF PrintT(<<"D", ToJson([id |-> j.id, dists |-> dists, exact |-> exact])>>) THEN "ok" ELSE "print-failed"

Verdict(j) ==
  CASE j.kind = "resample" -> ResampleJob(j)
    [] j.kind = "group"    -> GroupJob(j)
    [] OTHER               -> "malformed-job"

JInit == i \in 1..Len(Jobs)
JNext == i > 0 /\ PrintT(<<"V", Jobs[i].id, Verdict(Jobs[i])>>) /\ i' = 0
=============================================================================
