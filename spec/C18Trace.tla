------------------------------ MODULE C18Trace -------------------------------
(***************************************************************************)
(* V-part of C18: observations recorded from the implementation, judged by  *)
(* TLC with the definitions of C18Defs (histograms) and C18GroupDefs.       *)
(*                                                                         *)
(* job kinds                                                                *)
(*  "resample": h (histogram value before), n, out (histogram returned by   *)
(*      Histogram.resample / get_resampled_frequencies scaled by n),        *)
(*      exact (BOOLEAN: every frequency was a multiple of 1/n)              *)
(*  "group": n, terms (operator), groups (returned by group_qwc, each       *)
(*      [b, terms]), map (returned by map_measurements_qwc, each            *)
(*      [w, bases]); withD (BOOLEAN) asks for the exact per-basis           *)
(*      distributions of the state prepared by `prep` and the exact         *)
(*      expectation value, printed as <<"D", json>> for the driver          *)
(*  "split": n, prog (C18SplitDefs program), shots, and the three integer   *)
(*      histograms observed after Backend.simulate(..., save_mid_circuit_   *)
(*      meas=True) with n_shots = shots: joint (backend.all_frequencies),   *)
(*      mid (backend.mid_circuit_meas_freqs), final (returned frequencies), *)
(*      each scaled by shots; nb = common key length, -2 if keys differ in  *)
(*      length; exact = every frequency was a multiple of 1/shots           *)
(***************************************************************************)
EXTENDS C18Defs, C18GroupDefs, C18SplitDefs

Jobs == JsonDeserialize(IOEnv.VERIF_JOBS)
VARIABLE i

ResampleJob(j) ==
  IF ~j.exact THEN "frequency-not-multiple-of-1/n"
  ELSE ResampleVerdict(j.h, j.n, j.out)

GroupJob(j) ==
  LET pv == PartitionVerdict(j.terms, j.groups, j.n) IN
  IF pv # "ok" THEN pv
  ELSE LET mv == MapVerdict(j.groups, j.map, j.n) IN
  IF mv # "ok" THEN mv
  ELSE IF ~j.withD THEN "ok"
  ELSE LET psi   == Run(ZeroState(j.n), j.prep, j.n)
           exact == ExpectOp(OpFromTerms(j.terms), psi, j.n)
           dists == TLCEval([g \in 1..Len(j.groups) |-> DistInBasis(psi, j.groups[g].b, j.n)])
       IN IF Assembled(j.groups, psi, j.n) # exact THEN "spec-inconsistent"
          ELSE IF PrintT(<<"D", ToJson([id |-> j.id, dists |-> dists, exact |-> exact])>>) THEN "ok" ELSE "print-failed"

\* mid-circuit and final results are the two marginals of the joint histogram: nothing lost, nothing misaligned
SplitJob(j) ==
  LET k == NMeas(j.prog) IN
  IF ~j.exact THEN "frequency-not-multiple-of-1/n"
  ELSE IF j.final.nb # j.n THEN "final-key-width"
  ELSE IF j.mid.nb # k THEN "mid-key-width"
  ELSE IF j.joint.nb # k + j.n THEN "joint-key-width"
  ELSE IF Total(j.final) # j.shots \/ Total(j.mid) # j.shots \/ Total(j.joint) # j.shots THEN "shots-not-conserved"
  ELSE IF j.mid.cnt # FSplitLastHead(j.joint, j.n).cnt THEN "mid-is-not-the-marginal-of-all-frequencies"
  ELSE IF j.final.cnt # FSplitLastTail(j.joint, j.n).cnt THEN "final-is-not-the-marginal-of-all-frequencies"
  ELSE IF ~(HSupport(j.joint) \subseteq JointSupport(j.prog, j.n)) THEN "outcome-outside-exact-support"
  ELSE "ok"

Verdict(j) ==
  CASE j.kind = "resample" -> ResampleJob(j)
    [] j.kind = "group"    -> GroupJob(j)
    [] j.kind = "split"    -> SplitJob(j)
    [] OTHER               -> "malformed-job"

JInit == i \in 1..Len(Jobs)
JNext == i > 0 /\ PrintT(<<"V", Jobs[i].id, Verdict(Jobs[i])>>) /\ i' = 0
=============================================================================
