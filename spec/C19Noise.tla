------------------------------ MODULE C19Noise ------------------------------
(***************************************************************************)
(* C19 - noisy simulation applies exactly the specified channels.           *)
(*                                                                         *)
(* One state machine, four phases:                                          *)
(*  model    the NoiseModel object: one action AddError(gate, type, params) *)
(*           per call of add_quantum_error.  The call is ACCEPTED iff the   *)
(*           type is pauli/depol, the parameters are well-typed (pauli: a   *)
(*           list of 3 rates, depol: one float) and the gate has no channel *)
(*           of that type yet; otherwise it is REJECTED (must raise, model   *)
(*           unchanged).  Well-typed parameters outside [0,1] (or a Pauli    *)
(*           triple summing to more than 1) are REJECTED-BY-USE: the         *)
(*           specification must be refused at the latest when a circuit      *)
(*           containing that gate is simulated.                               *)
(*  circuit  TLC builds the circuit (AddGate).                               *)
(*  run      NoisyRun: one action Step per gate occurrence, in gate order:   *)
(*           rho := U rho U^dagger, then, if the gate name is in the model,  *)
(*           its channels IN THE ORDER THE MODEL LISTS THEM: type pauli on   *)
(*           each target then each control (one-qubit channel each), type    *)
(*           depol jointly on targets+controls (Density.tla).                *)
(*  done     the behaviour is exported (gate list, the calls, the model,     *)
(*           rho, tr(rho P) for every Pauli word, tr(rho H) for operators).  *)
(*                                                                         *)
(* Invariants (every reachable state): trace preservation, Hermiticity,      *)
(* NoNoiseIsNoiseless (as long as no channel with a non-zero rate has been    *)
(* applied, rho = |psi><psi| of the noiseless run), ModelWellFormed.          *)
(* A denominator budget keeps the integers of the exact ring below 2^31:     *)
(* Step is disabled (the behaviour is cut, not exported) beyond it.           *)
(***************************************************************************)
EXTENDS Density, TLC, Json

CONSTANTS N,           \* qubits
          MaxCalls,    \* add_quantum_error calls
          MaxGates,    \* gates in the circuit
          RateSet,     \* offered error rates, pairs <<num, k>> = num / 2^k
          WithBad,     \* BOOLEAN: offer malformed calls too
          WithMeasure, \* BOOLEAN: offer mid-circuit MEASURE gates (dephasing)
          Budget,      \* bound on the accumulated denominator bits
          Sources,     \* "zero", "generic" or "both": the initial statevectors offered to Init
          Focus,       \* BOOLEAN: generation policy - non-empty model, gates at odd positions carry a modelled name
          SameGate,    \* BOOLEAN: generation policy - all calls address the gate of the first call (both types on one gate)
          Export

VARIABLES phase, calls, model, gates, pc, rho, psi, pure, bits, noisy, s0

vars == <<phase, calls, model, gates, pc, rho, psi, pure, bits, noisy, s0>>

D == Dim(N)
Qubits == 0..(N-1)

RatesFull  == {<<0, 0>>, <<1, 3>>, <<1, 2>>, <<1, 1>>, <<1, 0>>}
RatesSmall == {<<0, 0>>, <<1, 2>>, <<1, 0>>}
RatesZero  == {<<0, 0>>}
RatesMid   == {<<1, 3>>, <<1, 2>>, <<1, 1>>}

RV(r) == Dyadic(r[1], r[2])
Num8(r) == r[1] * Pow2(3 - r[2])            \* rate in units of 1/8 (k <= 3)

\* ---- the NoiseModel object ---------------------------------------------------------
ModelGates == {"X", "H", "RZ"} \cup (IF N >= 2 THEN {"CNOT", "CRZ"} ELSE {}) \cup (IF N >= 3 THEN {"CX", "CSWAP"} ELSE {})
Types      == {"pauli", "depol"} \cup (IF WithBad THEN {"amp"} ELSE {})

GoodParams(ty) ==
  IF ty = "depol" THEN {[kind |-> "float", v |-> <<a>>] : a \in RateSet}
  ELSE {[kind |-> "list", v |-> <<a, b, c>>] : a \in RateSet, b \in RateSet, c \in RateSet}
ShapeBad == {[kind |-> "float", v |-> <<<<1, 2>>>>], [kind |-> "list", v |-> <<<<1, 2>>, <<1, 2>>>>],
             [kind |-> "list", v |-> <<<<1, 3>>, <<1, 3>>, <<1, 3>>, <<1, 3>>>>], [kind |-> "list", v |-> <<<<1, 2>>>>]}
RangeBad == {[kind |-> "float", v |-> <<<<2, 0>>>>], [kind |-> "float", v |-> <<<<-1, 3>>>>],
             [kind |-> "list", v |-> <<<<1, 1>>, <<1, 1>>, <<1, 1>>>>], [kind |-> "list", v |-> <<<<1, 2>>, <<-1, 2>>, <<1, 2>>>>]}
Params(ty) == GoodParams(IF ty = "amp" THEN "depol" ELSE ty) \cup (IF WithBad THEN ShapeBad \cup RangeBad ELSE {})

ShapeOK(ty, pr) == IF ty = "pauli" THEN pr.kind = "list" /\ Len(pr.v) = 3 ELSE pr.kind = "float"
RangeOK(pr) == /\ \A j \in 1..Len(pr.v) : pr.v[j][1] >= 0 /\ Num8(pr.v[j]) <= 8
               /\ SumSeq([j \in 1..Len(pr.v) |-> Num8(pr.v[j])], Len(pr.v)) <= 8

EntryOf(m, g) == {j \in 1..Len(m) : m[j].gate = g}
ErrsOf(m, g)  == IF EntryOf(m, g) = {} THEN <<>> ELSE m[CHOOSE j \in EntryOf(m, g) : TRUE].errs
HasType(m, g, ty) == \E j \in 1..Len(ErrsOf(m, g)) : ErrsOf(m, g)[j].type = ty

Verdict(m, g, ty, pr) ==
  IF ty \notin {"pauli", "depol"} THEN "reject"
  ELSE IF ~ShapeOK(ty, pr) THEN "reject"
  ELSE IF HasType(m, g, ty) THEN "reject"
  ELSE IF ~RangeOK(pr) THEN "reject-by-use"
  ELSE "accept"

Added(m, g, ty, pr) ==
  LET e == [type |-> ty, params |-> pr.v] IN
  IF EntryOf(m, g) = {} THEN Append(m, [gate |-> g, errs |-> <<e>>])
  ELSE [j \in 1..Len(m) |-> IF m[j].gate = g THEN [m[j] EXCEPT !.errs = Append(@, e)] ELSE m[j]]

\* ---- the circuit alphabet -----------------------------------------------------------
RotKs == {2, 6}
Pairs == {<<a, b>> \in Qubits \X Qubits : a # b}
Triples == {<<a, b, c>> \in Qubits \X Qubits \X Qubits : a # b /\ a # c /\ b # c}
GAlpha ==
       { G(nm, <<t>>, <<>>, 0) : nm \in {"X", "H"}, t \in Qubits }
  \cup { G("RZ", <<t>>, <<>>, k) : t \in Qubits, k \in RotKs }
  \cup { G("CNOT", <<p[1]>>, <<p[2]>>, 0) : p \in Pairs }
  \cup { G("CRZ", <<p[1]>>, <<p[2]>>, k) : p \in Pairs, k \in RotKs }
  \cup { G("CSWAP", <<p[1], p[2]>>, <<p[3]>>, 0) : p \in {x \in Triples : x[1] < x[2]} }
  \cup { G(nm, <<p[1]>>, <<p[2], p[3]>>, 0) : nm \in {"CNOT", "CX"}, p \in Triples }          \* Toffoli
  \cup { G("CRZ", <<p[1]>>, <<p[2], p[3]>>, 2) : p \in {x \in Triples : x[2] < x[3]} }
  \cup (IF WithMeasure THEN { [name |-> "MEASURE", t |-> <<q>>, c |-> <<>>, k |-> 0] : q \in Qubits } ELSE {})

\* ---- NoisyRun ---------------------------------------------------------------------------
TouchedQubits(g) == g.t \o g.c          \* targets first, then controls

RECURSIVE PauliEach(_, _, _, _)
PauliEach(r, Q, v, j) ==
  IF j > Len(Q) THEN r ELSE PauliEach(PauliChannel(r, Q[j], RV(v[1]), RV(v[2]), RV(v[3]), N), Q, v, j + 1)

ApplyErr(r, g, e) ==
  IF e.type = "pauli" THEN PauliEach(r, TouchedQubits(g), e.params, 1)
  ELSE Depol(r, TouchedQubits(g), RV(e.params[1]), N)

RECURSIVE ApplyErrs(_, _, _, _)
ApplyErrs(r, g, errs, j) == IF j > Len(errs) THEN r ELSE ApplyErrs(ApplyErr(r, g, errs[j]), g, errs, j + 1)

MaxK(v) == LET S == {v[j][2] : j \in {j \in 1..Len(v) : v[j][1] # 0}} IN IF S = {} THEN 0 ELSE CHOOSE k \in S : \A x \in S : x <= k
IsZeroErr(e) == \A j \in 1..Len(e.params) : e.params[j][1] = 0
ErrCost(g, e) ==
  IF IsZeroErr(e) THEN 0
  ELSE IF e.type = "pauli" THEN MaxK(e.params) * Len(TouchedQubits(g))
  ELSE MaxK(e.params) + Len(TouchedQubits(g))
GateCost(g, errs) == (IF g.name = "H" THEN 1 ELSE 0) + SumSeq([j \in 1..Len(errs) |-> ErrCost(g, errs[j])], Len(errs))

\* ---- operators whose expectation values are exported ---------------------------------------
W1(q, l)          == [j \in 1..N |-> IF j = q + 1 THEN l ELSE 0]
W2(q1, l1, q2, l2) == [j \in 1..N |-> IF j = q1 + 1 THEN l1 ELSE IF j = q2 + 1 THEN l2 ELSE 0]
Last == N - 1
OpTerms ==
  << << [w |-> IdWord(N), c |-> Dyadic(1, 1)], [w |-> W1(0, 3), c |-> ROne], [w |-> W1(Last, 1), c |-> Dyadic(-3, 2)] >>,
     << [w |-> W1(0, 2), c |-> ROne], [w |-> W2(Last, 3, 0, 3), c |-> FromInt(2)], [w |-> W2(Last, 1, 0, 1), c |-> Dyadic(-1, 1)],
        [w |-> W2(0, 1, Last, 2), c |-> Dyadic(5, 2)] >> >>
\* for N = 1 the two-letter words collapse to the letter on qubit 0 given first (W2 tests q1 first); duplicates are summed

\* ---- initial states: part of Init (the option initial_statevector of simulate / get_expectation_value) --------
\* |0..0> and one entangled exact ring state with pairwise different phases and non-uniform magnitudes
GenericPrep ==
  [q \in 1..N |-> G("H", <<q-1>>, <<>>, 0)]
  \o [q \in 1..N |-> G("PHASE", <<q-1>>, <<>>, q)]
  \o [q \in 1..(N-1) |-> G("CNOT", <<q>>, <<q-1>>, 0)]
  \o << G("RY", <<0>>, <<>>, 2), G("T", <<N-1>>, <<>>, 0) >>
Generic == Run(ZeroState(N), GenericPrep, N)
InitStates == IF Sources = "zero" THEN {ZeroState(N)} ELSE IF Sources = "generic" THEN {Generic} ELSE {ZeroState(N), Generic}

Init == /\ phase = "model"
        /\ calls = <<>> /\ model = <<>> /\ gates = <<>> /\ pc = 1
        /\ s0 \in InitStates
        /\ rho = Pure(s0, D) /\ psi = s0 /\ pure = TRUE /\ bits = (IF s0 = ZeroState(N) THEN 0 ELSE N + 2) /\ noisy = FALSE

NRejected == Cardinality({j \in 1..Len(calls) : calls[j].verdict # "accept"})

AddError(g, ty, pr) ==
  /\ phase = "model" /\ Len(calls) < MaxCalls
  /\ (SameGate /\ calls # <<>>) => g = calls[1].gate
  /\ LET v == Verdict(model, g, ty, pr) IN
       /\ (v # "accept" => NRejected = 0)                 \* at most one malformed call per behaviour
       /\ calls' = Append(calls, [gate |-> g, type |-> ty, kind |-> pr.kind, params |-> pr.v, verdict |-> v])
       /\ model' = IF v = "accept" THEN Added(model, g, ty, pr) ELSE model
       /\ phase' = IF v = "reject-by-use" THEN "circuit" ELSE "model"      \* such a call ends the model phase
  /\ UNCHANGED <<gates, pc, rho, psi, pure, bits, noisy, s0>>
EndModel == /\ phase = "model" /\ phase' = "circuit" /\ (Focus => model # <<>>)
            /\ UNCHANGED <<calls, model, gates, pc, rho, psi, pure, bits, noisy, s0>>
Relevant(g) == ~Focus \/ model = <<>> \/ Len(gates) % 2 = 1 \/ g.name \in {model[j].gate : j \in 1..Len(model)}
AddGate(g) == /\ phase = "circuit" /\ Len(gates) < MaxGates /\ Relevant(g)
              /\ gates' = Append(gates, g)
              /\ UNCHANGED <<phase, calls, model, pc, rho, psi, pure, bits, noisy, s0>>
EndCircuit == /\ phase = "circuit" /\ Len(gates) >= 1 /\ phase' = "run"
              /\ UNCHANGED <<calls, model, gates, pc, rho, psi, pure, bits, noisy, s0>>

Step == /\ phase = "run" /\ pc <= Len(gates)
        /\ LET g    == gates[pc]
               errs == IF g.name = "MEASURE" THEN <<>> ELSE ErrsOf(model, g.name)
               r1   == IF g.name = "MEASURE" THEN MeasureDephase(rho, g.t[1], N) ELSE ApplyGateRho(rho, g, N)
           IN /\ bits + GateCost(g, errs) <= Budget
              /\ bits' = bits + GateCost(g, errs)
              /\ rho' = ApplyErrs(r1, g, errs, 1)
              /\ psi' = IF g.name = "MEASURE" THEN psi ELSE ApplyGate(psi, g, N)
              /\ pure' = (pure /\ g.name # "MEASURE")
              /\ noisy' = (noisy \/ \E j \in 1..Len(errs) : ~IsZeroErr(errs[j]))
        /\ pc' = pc + 1
        /\ UNCHANGED <<phase, calls, model, gates, s0>>

\* ---- outcome-resolved run (desired_meas_result / save_mid_circuit_meas under noise) ----------------------------
\* unnormalised rho_d: the same run with the projection P_b rho P_b at every MEASURE; tr(rho_d) = probability of d
RECURSIVE CondRun(_, _, _)
CondRun(r, j, d) ==
  IF j > Len(gates) THEN r
  ELSE LET g == gates[j] IN
       IF g.name = "MEASURE" THEN CondRun(ProjectRho(r, g.t[1], d[1], N), j + 1, Tail(d))
       ELSE CondRun(ApplyErrs(ApplyGateRho(r, g, N), g, ErrsOf(model, g.name), 1), j + 1, d)
NMeas == Cardinality({j \in 1..Len(gates) : gates[j].name = "MEASURE"})
CondTable == IF NMeas = 0 THEN {} ELSE {[d |-> d, rho |-> CondRun(Pure(s0, D), 1, d)] : d \in [1..NMeas -> {0, 1}]}

ExportRec == [s0 |-> s0, cond |-> CondTable, n |-> N, gates |-> gates, calls |-> calls, model |-> model, rho |-> rho, noisy |-> noisy, pure |-> pure,
              psi |-> psi,
              tw |-> {[w |-> w, v |-> TrWord(rho, w, N)] : w \in AllWords(N)},
              ops |-> [j \in 1..Len(OpTerms) |-> [terms |-> OpTerms[j], v |-> TrOp(rho, OpFromTerms(OpTerms[j]), N)]]]

Finish == /\ phase = "run" /\ pc > Len(gates)
          /\ phase' = "done"
          /\ (Export => PrintT(<<"NR", ToJson(ExportRec)>>))
          /\ UNCHANGED <<calls, model, gates, pc, rho, psi, pure, bits, noisy, s0>>

Next == \/ \E g \in ModelGates : \E ty \in Types : \E pr \in Params(ty) : AddError(g, ty, pr)
        \/ EndModel
        \/ \E g \in GAlpha : AddGate(g)
        \/ EndCircuit \/ Step \/ Finish

Spec == Init /\ [][Next]_vars

\* ---- invariants -------------------------------------------------------------------------------
TracePreserved == Trace(rho, D) = ROne
Hermitian      == IsHermitian(rho, D)
\* zero-rate channels (and gates without a channel) leave the run noiseless
NoNoiseIsNoiseless == (pure /\ ~noisy) => rho = Pure(psi, D)
\* every diagonal entry is a probability: real (by Hermiticity) and they sum to one
DiagReal == \A i \in 1..D : IsReal(rho[i][i])
ModelWellFormed ==
  /\ \A j, l \in 1..Len(model) : (j # l) => model[j].gate # model[l].gate
  /\ \A j \in 1..Len(model) :
       /\ model[j].gate \in ModelGates
       /\ Len(model[j].errs) \in 1..2
       /\ \A a, b \in 1..Len(model[j].errs) : (a # b) => model[j].errs[a].type # model[j].errs[b].type
       /\ \A a \in 1..Len(model[j].errs) :
            LET e == model[j].errs[a] IN
            /\ e.type \in {"pauli", "depol"}
            /\ Len(e.params) = (IF e.type = "pauli" THEN 3 ELSE 1)
            /\ RangeOK([kind |-> "x", v |-> e.params])
\* the model is exactly the accepted calls, in call order
ModelIsAcceptedCalls ==
  LET acc == SelectSeq(calls, LAMBDA c : c.verdict = "accept")
      RECURSIVE Build(_, _)
      Build(m, j) == IF j > Len(acc) THEN m
                     ELSE Build(Added(m, acc[j].gate, acc[j].type, [kind |-> acc[j].kind, v |-> acc[j].params]), j + 1)
  IN model = Build(<<>>, 1)
\* the outcome-resolved states sum to the unconditioned (dephased) final state
CondSumsToRho == (phase = "done" /\ NMeas > 0) =>
                    FoldSet(LAMBDA c, acc : MAdd(acc, c.rho, D), ZeroMat(D), CondTable) = rho
AlphabetOK == \A g \in GAlpha : g.name = "MEASURE" \/ WellFormed(g, N)

\* which backend configurations accept a noise model (exported once; the driver checks each row)
BackendRows == { [backend |-> b, shots |-> s, noise |-> nz, accept |-> (nz => (b = "cirq" /\ s))] :
                 b \in {"cirq", "sympy"}, s \in BOOLEAN, nz \in BOOLEAN } \ { [backend |-> "sympy", shots |-> TRUE, noise |-> FALSE, accept |-> TRUE] }
ASSUME Export => PrintT(<<"BR", ToJson(BackendRows)>>)
=============================================================================
