------------------------------ MODULE C20Defs ------------------------------
(***************************************************************************)
(* C20 - Fourier transform, state initialisation and phase estimation are   *)
(* exact.  Definitions without variables (shared by the S-specs C20Qft,     *)
(* C20Qpe and by the trace spec C20Trace).                                  *)
(*                                                                         *)
(* Register semantics.  A register is an ordered list L of distinct qubits  *)
(* of an n-qubit system; the FIRST listed qubit is the LEAST significant    *)
(* bit of the register value:  RegVal(x, L) = SUM_i bit(x, L[i]) 2^(i-1).   *)
(* Dft(L) is the discrete Fourier transform of that register,               *)
(*        |j>_L  |->  2^(-|L|/2) SUM_k zeta_N^(j k) |k>_L ,  N = 2^|L|,     *)
(* and the identity on every other qubit.  zeta_N = zeta_M^(M/N) requires   *)
(* N <= M.  All matrices are sequences of columns U[col][row] like          *)
(* Gates!UnitaryOf.                                                         *)
(***************************************************************************)
EXTENDS Pauli, TLC, Json, IOUtils

\* ---- small matrix helpers (columns) -----------------------------------------
RECURSIVE RPow(_, _)
RPow(a, e) == IF e = 0 THEN ROne ELSE Mul(a, RPow(a, e - 1))

MatAdj(U, d)    == TLCEval([col \in 1..d |-> TLCEval([row \in 1..d |-> Conj(U[row][col])])])
\* (A B): apply B first
MatMul(A, B, d) == TLCEval([col \in 1..d |-> TLCEval([row \in 1..d |->
                      SumRing(TLCEval([k \in 1..d |-> Mul(A[k][row], B[col][k])]), d)])])
MatId(d)        == TLCEval([col \in 1..d |-> TLCEval([row \in 1..d |-> IF row = col THEN ROne ELSE RZero])])
ScaleMat(U, z, d) == TLCEval([col \in 1..d |-> TLCEval([row \in 1..d |-> Mul(z, U[col][row])])])
ScaleVec(v, z, d) == TLCEval([i \in 1..d |-> Mul(z, v[i])])

SeqSet(s) == {s[j] : j \in 1..Len(s)}
RevSeq(s) == TLCEval([j \in 1..Len(s) |-> s[Len(s) + 1 - j]])
IsRegister(L, n) == /\ Cardinality(SeqSet(L)) = Len(L)
                    /\ \A q \in SeqSet(L) : q \in 0..(n - 1)

\* ---- registers ----------------------------------------------------------------
RegVal(x0, L, n) == SumSeq(TLCEval([j \in 1..Len(L) |-> BitAt(x0, L[j], n) * Pow2(j - 1)]), Len(L))

RECURSIVE SetRegFrom(_, _, _, _, _)
SetRegFrom(x0, L, n, v, j) ==
  IF j > Len(L) THEN x0
  ELSE SetRegFrom(SetBit(x0, L[j], n, (v \div Pow2(j - 1)) % 2), L, n, v, j + 1)
SetReg(x0, L, n, v) == SetRegFrom(x0, L, n, v, 1)

\* x and y agree on every qubit outside the register
SameOutside(x0, y0, L, n) == \A q \in (0..(n - 1)) \ SeqSet(L) : BitAt(x0, q, n) = BitAt(y0, q, n)

\* bit reversal of a register value of width w
BitRevVal(v, w) == SumSeq(TLCEval([j \in 1..w |-> ((v \div Pow2(j - 1)) % 2) * Pow2(w - j)]), w)

\* ---- the discrete Fourier transform of a register -------------------------------
\* sgn = 1: Dft, sgn = -1: its adjoint (inverse transform)
DftSgn(L, n, sgn) ==
  LET w    == Len(L)
      N    == Pow2(w)
      unit == M \div N
      amp  == RPow(InvSqrt2, w)
  IN TLCEval([col \in 1..Dim(n) |-> TLCEval([row \in 1..Dim(n) |->
        IF SameOutside(col - 1, row - 1, L, n)
        THEN Mul(amp, Zeta(sgn * unit * ((RegVal(col - 1, L, n) * RegVal(row - 1, L, n)) % N)))
        ELSE RZero])])

Dft(L, n)    == DftSgn(L, n, 1)
DftInv(L, n) == DftSgn(L, n, -1)

\* permutation matrix reversing the bit order of the register
BitRevU(L, n) ==
  TLCEval([col \in 1..Dim(n) |->
     Basis(SetReg(col - 1, L, n, BitRevVal(RegVal(col - 1, L, n), Len(L))), n)])

\* What get_qft_circuit(L, inverse, swap) has to implement:
\*   swap        : Dft(L)                 / its adjoint
\*   without swap: the same transform with the output register left in bit-reversed order,
\*                 BitRev o Dft(L)        / its adjoint  Dft(L)^+ o BitRev
BitRevIdx(x0, L, n) == SetReg(x0, L, n, BitRevVal(RegVal(x0, L, n), Len(L)))
\* BitRevU o A (rows permuted) and A o BitRevU (columns permuted); BitRevU is an involution (checked in C20Qft)
BitRevRows(A, L, n) == TLCEval([col \in 1..Dim(n) |-> TLCEval([row \in 1..Dim(n) |-> A[col][BitRevIdx(row - 1, L, n) + 1]])])
BitRevCols(A, L, n) == TLCEval([col \in 1..Dim(n) |-> A[BitRevIdx(col - 1, L, n) + 1]])
QftExpected(L, n, inverse, swap) ==
  LET d   == Dim(n)
      fwd == IF swap THEN Dft(L, n) ELSE BitRevRows(Dft(L, n), L, n)
  IN IF inverse THEN MatAdj(fwd, d) ELSE fwd

\* ---- algorithm model of the textbook construction (H + controlled-phase ladder + swaps) ----
\* for a register L of width w: for t = w, w-1, ..., 1:  H on L[t], then CPHASE(pi / 2^(t-i)) controlled by L[i], i < t
RECURSIVE QftRotations(_, _, _)
QftRotations(L, t, sgn) ==
  IF t = 0 THEN <<>>
  ELSE <<G("H", <<L[t]>>, <<>>, 0)>>
       \o TLCEval([i \in 1..(t - 1) |-> G("CPHASE", <<L[t]>>, <<L[i]>>, sgn * (M \div Pow2(t - i + 1)))])
       \o QftRotations(L, t - 1, sgn)
QftSwaps(L) == TLCEval([j \in 1..(Len(L) \div 2) |-> G("SWAP", <<L[j], L[Len(L) + 1 - j]>>, <<>>, 0)])
QftModel(L, inverse, swap) ==
  LET sw == IF swap THEN QftSwaps(L) ELSE <<>>
  IN IF inverse THEN sw \o RevSeq(QftRotations(L, Len(L), -1))
     ELSE QftRotations(L, Len(L), 1) \o sw

\* ---- Fourier transform applied to a vector (no dense matrix) ---------------------
ApplyDftVec(psi, L, n, sgn) ==
  LET w    == Len(L)
      N    == Pow2(w)
      unit == M \div N
      amp  == RPow(InvSqrt2, w)
  IN TLCEval([y \in 1..Dim(n) |->
       Mul(amp, SumRing(TLCEval([v1 \in 1..N |->
              Mul(Zeta(sgn * unit * (((v1 - 1) * RegVal(y - 1, L, n)) % N)), psi[SetReg(y - 1, L, n, v1 - 1) + 1])]), N))])

\* ---- exact time evolution under a sum of pairwise commuting Pauli words ------------
\* (same semantics as C06Defs: exp(-i c P) = cos c - i sin c P, c = 2 pi k / M, controlled on the qubits `ctrl`)
QWordVec(w, psi, n) ==
  TLCEval([x \in 1..Dim(n) |-> LET y0 == ActWord(w, x - 1, n).y IN Mul(IPow(ActWord(w, y0, n).p), psi[y0 + 1])])
QExpWord(w, k, ctrl, psi, n) ==
  LET pv == QWordVec(w, psi, n)
      cs == CosG(k)
      ms == Mul(Neg(RI), SinG(k))
  IN TLCEval([x \in 1..Dim(n) |-> IF CtrlOn(x - 1, ctrl, n) THEN Add(Mul(cs, psi[x]), Mul(ms, pv[x])) ELSE psi[x]])
\* terms: sequence of [w, k]; every index is multiplied by `mult` (time multiplier x power of the unitary)
RECURSIVE QExpTermsFrom(_, _, _, _, _, _)
QExpTermsFrom(terms, mult, ctrl, psi, n, j) ==
  IF j > Len(terms) THEN psi
  ELSE QExpTermsFrom(terms, mult, ctrl, QExpWord(terms[j].w, terms[j].k * mult, ctrl, psi, n), n, j + 1)
QExpTerms(terms, mult, ctrl, psi, n) == QExpTermsFrom(terms, mult, ctrl, psi, n, 1)
TermsCommute(terms, n) == \A a, b \in 1..Len(terms) : CommuteWords(terms[a].w, terms[b].w, n)
\* words of a Hamiltonian on ns qubits padded with identities to n >= ns qubits
PadTerms(terms, ns, n) == TLCEval([j \in 1..Len(terms) |->
                             [w |-> TLCEval([q \in 1..n |-> IF q <= ns THEN terms[j].w[q] ELSE 0]), k |-> terms[j].k]])

\* a user circuit applied `power` times on the subspace where all `ctrl` qubits are 1 (the circuit does not touch them)
RECURSIVE RunPower(_, _, _, _)
RunPower(psi, gates, n, power) == IF power = 0 THEN psi ELSE RunPower(Run(psi, gates, n), gates, n, power - 1)
CtrlRunPower(psi, gates, n, power, ctrl) ==
  LET on == RunPower(psi, gates, n, power)
  IN TLCEval([x \in 1..Dim(n) |-> IF CtrlOn(x - 1, ctrl, n) THEN on[x] ELSE psi[x]])

\* eigenphase index kappa (U v = zeta^kappa v), or -1 when v is not an eigenvector with a grid phase
PhaseIndex(v, Uv, d) == LET S == {kp \in 0..(M - 1) : Uv = ScaleVec(v, Zeta(kp), d)}
                        IN IF S = {} THEN -1 ELSE CHOOSE kp \in S : TRUE

\* psi0 (ns qubits) (x) |r> (extra qubits, register index r: the extra qubits are the low bits of the index)
TensorReg(psi0, ns, extra, r) ==
  TLCEval([x \in 1..Dim(ns + extra) |-> IF (x - 1) % Pow2(extra) = r THEN psi0[((x - 1) \div Pow2(extra)) + 1] ELSE RZero])

\* marginal probability that the qubits listed in L (first = least significant) hold the value r
RegProb(psi, L, n, r) ==
  SumRing(TLCEval([x \in 1..Dim(n) |-> IF RegVal(x - 1, L, n) = r THEN Abs2(psi[x]) ELSE RZero]), Dim(n))

\* all ordered lists of w distinct qubits out of 0..n-1
RegistersOf(n, w) == {L \in [1..w -> 0..(n - 1)] : Cardinality({L[j] : j \in 1..w}) = w}

AllWellFormed(gates, n) == \A j \in 1..Len(gates) : WellFormed(gates[j], n)
=============================================================================
