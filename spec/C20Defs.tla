------------------------------ MODULE C20Defs ------------------------------
(***************************************************************************)
(* C20 - Fourier transform, state initialisation and phase estimation are   *)
(* exact.  Definitions without variables (shared by the S-specs C20Qft,     *)
(* C20Qpe and by the trace spec C20Trace).                                  *)
(*                                                                         *)
(* Register semantics.  A register is an ordered list L of distinct qubits  *)
(* of an n-qubit system; the FIRST listed qubit is the LEAST significant    *)
(* bit of the register value:  RegVal(x, L) = SUM_i bit(x, L[i]) 2^(i-1).   *)
(* Dft(L) is the discrete Fourier transform of that register,               *)
(*        |j>_L  |->  2^(-|L|/2) SUM_k zeta_N^(j k) |k>_L ,  N = 2^|L|,     *)
(* and the identity on every other qubit.  zeta_N = zeta_M^(M/N) requires   *)
(* N <= M.  All matrices are sequences of columns U[col][row] like          *)
(* Gates!UnitaryOf.                                                         *)
(***************************************************************************)
EXTENDS Pauli, TLC, Json, IOUtils

\* ---- small matrix helpers (columns) -----------------------------------------
RECURSIVE RPow(_, _)
RPow(a, e) == IF e = 0 THEN ROne ELSE Mul(a, RPow(a, e - 1))

MatAdj(U, d)    == TLCEval([col \in 1..d |-> TLCEval([row \in 1..d |-> Conj(U[row][col])])])
\* (A B): apply B first
MatMul(A, B, d) == TLCEval([col \in 1..d |-> TLCEval([row \in 1..d |->
                      SumRing(TLCEval([k \in 1..d |-> Mul(A[k][row], B[col][k])]), d)])])
MatId(d)        == TLCEval([col \in 1..d |-> TLCEval([row \in 1..d |-> IF row = col THEN ROne ELSE RZero])])
ScaleMat(U, z, d) == TLCEval([col \in 1..d |-> TLCEval([row \in 1..d |-> Mul(z, U[col][row])])])
ScaleVec(v, z, d) == TLCEval([i \in 1..d |-> Mul(z, v[i])])

SeqSet(s) == {s[j] : j \in 1..Len(s)}
RevSeq(s) == TLCEval([j \in 1..Len(s) |-> s[Len(s) + 1 - j]])
IsRegister(L, n) == /\ Cardinality(SeqSet(L)) = Len(L)
                    /\ \A q \in SeqSet(L) : q \in 0..(n - 1)

\* ---- registers ----------------------------------------------------------------
RegVal(x0, L, n) == SumSeq(TLCEval([j \in 1..Len(L) |-> BitAt(x0, L[j], n) * Pow2(j - 1)]), Len(L))

RECURSIVE SetRegFrom(_, _, _, _, _)
SetRegFrom(x0, L, n, v, j) ==
  IF j > Len(L) THEN x0
  ELSE SetRegFrom(SetBit(x0, L[j], n, (v \div Pow2(j - 1)) % 2), L, n, v, j + 1)
SetReg(x0, L, n, v) == SetRegFrom(x0, L, n, v, 1)

\* x and y agree on every qubit outside the register
SameOutside(x0, y0, L, n) == \A q \in (0..(n - 1)) \ SeqSet(L) : BitAt(x0, q, n) = BitAt(y0, q, n)

\* bit reversal of a register value of width w
BitRevVal(v, w) == SumSeq(TLCEval([j \in 1..w |-> ((v \div Pow2(j - 1)) % 2) * Pow2(w - j)]), w)

\* ---- the discrete Fourier transform of a register -------------------------------
\* sgn = 1: Dft, sgn = -1: its adjoint (inverse transform)
DftSgn(L, n, sgn) ==
  LET w    == Len(L)
      N    == Pow2(w)
      unit == M \div N
      amp  == RPow(InvSqrt2, w)
  IN TLCEval([col \in 1..Dim(n) |-> TLCEval([row \in 1..Dim(n) |->
        IF SameOutside(col - 1, row - 1, L, n)
        THEN Mul(amp, Zeta(sgn * unit * ((RegVal(col - 1, L, n) * RegVal(row - 1, L, n)) % N)))
        ELSE RZero])])

Dft(L, n)    == DftSgn(L, n, 1)
DftInv(L, n) == DftSgn(L, n, -1)

\* permutation matrix reversing the bit order of the register
BitRevU(L, n) ==
  TLCEval([col \in 1..Dim(n) |->
     Basis(SetReg(col - 1, L, n, BitRevVal(RegVal(col - 1, L, n), Len(L))), n)])

\* What get_qft_circuit(L, inverse, swap) has to implement:
\*   swap        : Dft(L)                 / its adjoint
\*   without swap: the same transform with the output register left in bit-reversed order,
\*                 BitRev o Dft(L)        / its adjoint  Dft(L)^+ o BitRev
QftExpected(L, n, inverse, swap) ==
  LET d   == Dim(n)
      fwd == IF swap THEN Dft(L, n) ELSE MatMul(BitRevU(L, n), Dft(L, n), d)
  IN IF inverse THEN MatAdj(fwd, d) ELSE fwd

\* ---- algorithm model of the textbook construction (H + controlled-phase ladder + swaps) ----
\* for a register L of width w: for t = w, w-1, ..., 1:  H on L[t], then CPHASE(pi / 2^(t-i)) controlled by L[i], i < t
RECURSIVE QftRotations(_, _, _)
QftRotations(L, t, sgn) ==
  IF t = 0 THEN <<>>
  ELSE <<G("H", <<L[t]>>, <<>>, 0)>>
       \o TLCEval([i \in 1..(t - 1) |-> G("CPHASE", <<L[t]>>, <<L[i]>>, sgn * (M \div Pow2(t - i + 1)))])
       \o QftRotations(L, t - 1, sgn)
QftSwaps(L) == TLCEval([j \in 1..(Len(L) \div 2) |-> G("SWAP", <<L[j], L[Len(L) + 1 - j]>>, <<>>, 0)])
QftModel(L, inverse, swap) ==
  LET sw == IF swap THEN QftSwaps(L) ELSE <<>>
  IN IF inverse THEN sw \o RevSeq(QftRotations(L, Len(L), -1))
     ELSE QftRotations(L, Len(L), 1) \o sw

\* all ordered lists of w distinct qubits out of 0..n-1
RegistersOf(n, w) == {L \in [1..w -> 0..(n - 1)] : Cardinality({L[j] : j \in 1..w}) = w}

AllWellFormed(gates, n) == \A j \in 1..Len(gates) : WellFormed(gates[j], n)
=============================================================================
