------------------------------- MODULE C20Qft -------------------------------
(***************************************************************************)
(* S-part of C20 (Fourier transform).  One TLC state per register choice    *)
(* (ordered list L of W distinct qubits out of N, inverse flag, swap flag); *)
(* the invariants check the ORACLE itself before it judges the code:        *)
(*   DftUnitary    Dft(L) is unitary                                        *)
(*   InvIsAdjoint  the inverse transform (sign -1) is the adjoint and the   *)
(*                 two compose to the identity                              *)
(*   OneQubitIsH   Dft on one qubit is the Hadamard gate                    *)
(*   BitRevInvol   bit reversal is an involution and conjugates Dft(L) to   *)
(*                 Dft(reverse L)                                            *)
(*   ModelExact    the textbook construction (H + controlled-phase ladder   *)
(*                 + swaps; algorithm model C20Defs!QftModel) equals the    *)
(*                 expected operator exactly, for every L / flag            *)
(* N <= 4, W <= 3 at M = 8; W = 4 at M = 16; W = 5 at M = 32.               *)
(***************************************************************************)
EXTENDS C20Defs

CONSTANTS N, W
VARIABLES L, inv, swp

SInit == /\ L \in RegistersOf(N, W)
         /\ inv \in BOOLEAN
         /\ swp \in BOOLEAN
SNext == UNCHANGED <<L, inv, swp>>

D == Dim(N)

DftUnitary   == IsUnitary(Dft(L, N), D)
InvIsAdjoint == /\ DftInv(L, N) = MatAdj(Dft(L, N), D)
                /\ MatMul(DftInv(L, N), Dft(L, N), D) = MatId(D)
OneQubitIsH  == W = 1 => Dft(L, N) = UnitaryOf(<<G("H", <<L[1]>>, <<>>, 0)>>, N)
BitRevInvol  == /\ \A x \in 0..(D - 1) : BitRevIdx(BitRevIdx(x, L, N), L, N) = x
                /\ BitRevRows(MatId(D), L, N) = BitRevU(L, N)
                /\ BitRevCols(MatId(D), L, N) = BitRevU(L, N)
                /\ (N <= 3 => MatMul(BitRevU(L, N), Dft(L, N), D) = BitRevRows(Dft(L, N), L, N))
                /\ BitRevRows(BitRevCols(Dft(L, N), L, N), L, N) = Dft(RevSeq(L), N)
ModelExact   == /\ AllWellFormed(QftModel(L, inv, swp), N)
                /\ UnitaryOf(QftModel(L, inv, swp), N) = QftExpected(L, N, inv, swp)
\* the Fourier transform of the register value: column j has amplitudes zeta_N^(jk) / sqrt(N)
FirstColumnUniform == \A row \in 1..D : Dft(L, N)[1][row] =
                          (IF SameOutside(0, row - 1, L, N) THEN RPow(InvSqrt2, W) ELSE RZero)
=============================================================================
