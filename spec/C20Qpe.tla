------------------------------- MODULE C20Qpe -------------------------------
(***************************************************************************)
(* S/G-part of C20 (phase estimation): the textbook algorithms as state     *)
(* machines over exact statevectors.                                        *)
(*                                                                         *)
(* Instance: a Hamiltonian H = SUM_j k_j P_j of pairwise commuting Pauli    *)
(* words on ns qubits with integer coefficients, evolution time             *)
(* t = 2 pi tm / M (so U = exp(-iHt) = PROD exp(-i (2 pi k_j tm / M) P_j)   *)
(* is exact in the ring), an eigenstate psi0 = prep|0..0> (basis state,     *)
(* Bell-type or |+-> product state), a register of m qubits.  The           *)
(* eigenphase phi in [0,1), U psi0 = e^{2 pi i phi} psi0, is kappa / M;     *)
(* only instances whose phi has at most m binary digits are admitted        *)
(* (j = phi 2^m).                                                           *)
(*                                                                         *)
(* mode "qpe" (standard, register L = <<ns+m-1, ..., ns>>, first = least    *)
(*   significant):  QStart (Fourier transform of the zero register = H      *)
(*   layer), QCtrl (controlled U^(2^i) on L[i+1], i = 0..m-1), QIqft        *)
(*   (inverse transform).  QpeCertain: the final state is psi0 (x) |j>      *)
(*   EXACTLY, i.e. reading the register returns phi with probability 1.     *)
(* mode "iqpe" (iterative, one ancilla, bits measured least significant     *)
(*   first with phase feedback): IRound (H, feedback phase, controlled      *)
(*   U^(2^(p-1)), H), IMeasure(b) (projection, both outcomes explored,      *)
(*   unnormalised state, reset).  IqpeCertain: a branch has weight 1 iff    *)
(*   its outcomes are the bits of j (least significant first), every other  *)
(*   branch has weight 0.                                                   *)
(* Every admitted instance is printed (tag "QI") for the conformance part.  *)
(***************************************************************************)
EXTENDS C20Defs

CONSTANTS MaxReg,     \* largest register
          MaxQubits   \* ns + m <= MaxQubits in mode qpe

VARIABLES inst, mode, pc, step, psi, outs
vars == <<inst, mode, pc, step, psi, outs>>

T(w, k) == [w |-> w, k |-> k]
\* Hamiltonians: <<ns, terms>>; letters 0 I, 1 X, 2 Y, 3 Z
HSet == <<
  <<1, <<T(<<3>>, 1)>> >>,
  <<1, <<T(<<3>>, -3), T(<<0>>, 2)>> >>,
  <<1, <<T(<<1>>, 2)>> >>,
  <<2, <<T(<<3, 0>>, 1), T(<<0, 3>>, 2)>> >>,
  <<2, <<T(<<3, 3>>, 1), T(<<3, 0>>, -1), T(<<0, 0>>, 2)>> >>,
  <<2, <<T(<<0, 3>>, 3)>> >>,
  <<2, <<T(<<1, 1>>, 1), T(<<3, 3>>, 2)>> >>,
  <<2, <<T(<<1, 1>>, 1), T(<<2, 2>>, 1), T(<<3, 3>>, -2), T(<<0, 0>>, 1)>> >>,
  <<2, <<T(<<1, 0>>, 2), T(<<0, 1>>, -1), T(<<1, 1>>, 1)>> >>,
  <<2, <<T(<<2, 2>>, 1), T(<<3, 3>>, 1)>> >>
>>
TMs == {-2, -1, 1, 2, 3}
Kinds == {"basis", "bell", "plus"}

\* preparation circuit of the eigenstate candidates
XGates(x, ns) == LET qs == {q \in 0..(ns - 1) : BitAt(x, q, ns) = 1}
                     RECURSIVE go(_)
                     go(S) == IF S = {} THEN <<>> ELSE LET q == CHOOSE a \in S : \A b \in S : a <= b
                                                       IN <<G("X", <<q>>, <<>>, 0)>> \o go(S \ {q})
                 IN go(qs)
PrepGates(kind, x, ns) ==
  XGates(x, ns) \o
  (CASE kind = "basis" -> <<>>
     [] kind = "bell"  -> <<G("H", <<0>>, <<>>, 0), G("CNOT", <<1>>, <<0>>, 0)>>
     [] kind = "plus"  -> [q \in 1..ns |-> G("H", <<q - 1>>, <<>>, 0)])

Psi0(h, kind, x) == Run(ZeroState(HSet[h][1]), PrepGates(kind, x, HSet[h][1]), HSet[h][1])
Kappa(h, kind, x, tm) ==
  LET ns == HSet[h][1]
      v  == Psi0(h, kind, x)
  IN PhaseIndex(v, QExpTerms(HSet[h][2], tm, <<>>, v, ns), Dim(ns))

\* candidates without the register size; the eigenstate and its phase index are computed ONCE per candidate and
\* carried in the instance record
Candidates == { [h |-> h, kind |-> kind, x |-> x, tm |-> tm] : h \in 1..Len(HSet), kind \in Kinds, x \in 0..3, tm \in TMs }
StaticOK(c) == LET ns == HSet[c.h][1] IN c.x < Dim(ns) /\ (c.kind = "bell" => ns = 2)
Phased == { [h |-> c.h, kind |-> c.kind, x |-> c.x, tm |-> c.tm,
             kp |-> Kappa(c.h, c.kind, c.x, c.tm), p0 |-> Psi0(c.h, c.kind, c.x)] : c \in {d \in Candidates : StaticOK(d)} }
Eigen  == {r \in Phased : r.kp >= 0}
Instances ==
  { i \in { [h |-> r.h, kind |-> r.kind, x |-> r.x, tm |-> r.tm, m |-> m, kp |-> r.kp, p0 |-> r.p0] : r \in Eigen, m \in 1..MaxReg } :
      /\ HSet[i.h][1] + i.m <= MaxQubits
      /\ Pow2(i.m) <= M
      /\ (i.kp * Pow2(i.m)) % M = 0 }

NS    == HSet[inst.h][1]
Terms == HSet[inst.h][2]
Kp    == inst.kp
J     == (Kp * Pow2(inst.m)) \div M                 \* phi = J / 2^m
P0    == inst.p0
NQ    == IF mode = "qpe" THEN NS + inst.m ELSE NS + 1
RegL  == [i \in 1..inst.m |-> NS + inst.m - i]
Anc   == NS

Init == /\ inst \in Instances
        /\ mode \in {"qpe", "iqpe"}
        /\ pc = "start"
        /\ step = 0
        /\ psi = TensorReg(P0, NS, (IF mode = "qpe" THEN inst.m ELSE 1), 0)
        /\ outs = <<>>

\* ---- standard phase estimation ----------------------------------------------------
QStart == /\ mode = "qpe" /\ pc = "start"
          /\ psi' = ApplyDftVec(psi, RegL, NQ, 1)
          /\ pc' = "ctrl"
          /\ UNCHANGED <<inst, mode, step, outs>>

QCtrl == /\ mode = "qpe" /\ pc = "ctrl" /\ step < inst.m
         /\ psi' = QExpTerms(PadTerms(Terms, NS, NQ), inst.tm * Pow2(step), <<RegL[step + 1]>>, psi, NQ)
         /\ step' = step + 1
         /\ pc' = IF step + 1 = inst.m THEN "iqft" ELSE "ctrl"
         /\ UNCHANGED <<inst, mode, outs>>

QIqft == /\ mode = "qpe" /\ pc = "iqft"
         /\ psi' = ApplyDftVec(psi, RegL, NQ, -1)
         /\ pc' = "done"
         /\ UNCHANGED <<inst, mode, step, outs>>
         /\ PrintT(<<"QI", ToJson([ns |-> NS, terms |-> Terms, tm |-> inst.tm, m |-> inst.m, kind |-> inst.kind, x |-> inst.x,
                                  prep |-> PrepGates(inst.kind, inst.x, NS), kappa |-> Kp, j |-> J, h |-> inst.h])>>)

\* ---- iterative phase estimation ---------------------------------------------------
\* feedback index after `step` measured bits (outs[i] = bit of weight 2^(i-1) of J), for the bit of position p = m - step
Feedback == LET p == inst.m - step
            IN (M \div Pow2(inst.m)) * SumSeq([i \in 1..step |-> outs[i] * Pow2(i + p - 2)], step)

IRound == /\ mode = "iqpe" /\ pc \in {"start", "round"} /\ step < inst.m
          /\ LET p  == inst.m - step
                 s1 == ApplyGate(psi, G("H", <<Anc>>, <<>>, 0), NQ)
                 s2 == ApplyGate(s1, G("PHASE", <<Anc>>, <<>>, -Feedback), NQ)
                 s3 == QExpTerms(PadTerms(Terms, NS, NQ), inst.tm * Pow2(p - 1), <<Anc>>, s2, NQ)
             IN psi' = ApplyGate(s3, G("H", <<Anc>>, <<>>, 0), NQ)
          /\ pc' = "meas"
          /\ UNCHANGED <<inst, mode, step, outs>>

IMeasure(b) == /\ mode = "iqpe" /\ pc = "meas"
               /\ LET pr == Project(psi, Anc, b, NQ)
                  IN psi' = IF b = 1 THEN ApplyGate(pr, G("X", <<Anc>>, <<>>, 0), NQ) ELSE pr
               /\ outs' = Append(outs, b)
               /\ step' = step + 1
               /\ pc' = IF step + 1 = inst.m THEN "done" ELSE "round"
               /\ UNCHANGED <<inst, mode>>

Next == QStart \/ QCtrl \/ QIqft \/ IRound \/ IMeasure(0) \/ IMeasure(1)

\* ---- properties -------------------------------------------------------------------------
D == Dim(NQ)
EigenOK == /\ TermsCommute(Terms, NS)
           /\ P0 = Psi0(inst.h, inst.kind, inst.x)
           /\ Norm2(P0, Dim(NS)) = ROne
           /\ QExpTerms(Terms, inst.tm, <<>>, P0, NS) = ScaleVec(P0, Zeta(Kp), Dim(NS))
           /\ J \in 0..(Pow2(inst.m) - 1)
           /\ J * M = Kp * Pow2(inst.m)
QpeNorm == mode = "qpe" => Norm2(psi, D) = ROne
QpeCertain == (mode = "qpe" /\ pc = "done") =>
                 /\ psi = TensorReg(P0, NS, inst.m, J)
                 /\ RegProb(psi, RegL, NQ, J) = ROne
\* after the controlled powers the register holds the Fourier state of J
QpeFourierState == (mode = "qpe" /\ pc = "iqft") => psi = ApplyDftVec(TensorReg(P0, NS, inst.m, J), RegL, NQ, 1)
JBit(i) == (J \div Pow2(i - 1)) % 2
OutsMatch == \A i \in 1..Len(outs) : outs[i] = JBit(i)
IqpeCertain == (mode = "iqpe" /\ pc \in {"start", "round", "done"}) =>
                 /\ (OutsMatch => psi = TensorReg(P0, NS, 1, 0))      \* weight exactly 1, ancilla reset
                 /\ (~OutsMatch => Norm2(psi, D) = RZero)             \* impossible branch
IqpeNorm == mode = "iqpe" => (Norm2(psi, D) \in {ROne, RZero})
=============================================================================
