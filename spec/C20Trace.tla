------------------------------ MODULE C20Trace ------------------------------
(***************************************************************************)
(* V-part of C20: artefacts recorded from the implementation are judged     *)
(* exactly by TLC.  Job kinds (field "kind"):                               *)
(*  "qft"   gate list of get_qft_circuit(L, n_qubits, inverse, swap) on n   *)
(*          qubits: UnitaryOf(gates) must EQUAL QftExpected(L, inverse,     *)
(*          swap) (no phase freedom).                                       *)
(*  "init"  gate list of StateVector(v, order).initializing_circuit with    *)
(*          the returned phase index ph (phase = 2 pi ph / M) and the       *)
(*          requested vector v as ring elements (indexed in `order`):       *)
(*          zeta^ph * Run(|0..0>, gates) = v exactly.                       *)
(*  "uncomp" gate list of uncomputing_circuit: Run(v, gates) = z |0..0>     *)
(*          with z # 0; with the returned phase: zeta^ph * Run(v, gates) =  *)
(*          |v| |0..0> (real positive: checked as equal to sqrt(norm) when  *)
(*          norm2 = 1: = |0..0> exactly).                                   *)
(*  "qpe"   reference circuit + circuit of QPESolver: TLC derives the       *)
(*          eigenphase of the recorded INPUT (Hamiltonian terms and time,   *)
(*          or user circuit) on the prepared state, J = phi 2^m, and the    *)
(*          read-out register must hold J with probability exactly 1.       *)
(*  "iqpe"  gate segments of IterativeQPESolver for every outcome string    *)
(*          (or the realised run): the branch whose outcomes are the bits   *)
(*          of J must have weight exactly 1, every other branch weight 0    *)
(*          (Gates!Project, unnormalised states).                           *)
(***************************************************************************)
EXTENDS C20Defs

Jobs == JsonDeserialize(IOEnv.VERIF_JOBS)
VARIABLE ji

QftVerdict(j) ==
  LET n == j.n
      d == Dim(n)
  IN IF ~AllWellFormed(j.gates, n) THEN "malformed-gate"
     ELSE IF ~IsRegister(j.L, n) THEN "malformed-register"
     ELSE LET U == UnitaryOf(j.gates, n)
              E == QftExpected(j.L, n, j.inverse, j.swap)
          IN IF U = E THEN "ok"
             ELSE IF EquivUpToPhase(U, E, d) THEN "wrong-phase"
             ELSE "wrong-unitary"

\* the requested vector in the spec's index convention (qubit 0 most significant = "lsq_first")
RingOfJson(e) == Norm([c |-> TLCEval([p \in 1..HM |-> e.c[p]]), k |-> e.k])
VecOf(j) == LET v == TLCEval([x \in 1..Dim(j.n) |-> RingOfJson(j.v[x])])
            IN IF j.order = "lsq_first" THEN v ELSE Reorder(v, j.n)
VecOK(j) == /\ Len(j.v) = Dim(j.n)
            /\ \A x \in 1..Len(j.v) : Len(j.v[x].c) = HM
            /\ Norm2(VecOf(j), Dim(j.n)) = ROne

InitVerdict(j) ==
  LET n == j.n
      d == Dim(n)
  IN IF ~AllWellFormed(j.gates, n) THEN "malformed-gate"
     ELSE IF ~VecOK(j) THEN "malformed-vector"
     ELSE LET out == Run(ZeroState(n), j.gates, n)
              v   == VecOf(j)
          IN IF ScaleVec(out, Zeta(j.ph), d) = v THEN "ok"
             ELSE IF ProportionalVec(out, v, d) THEN "wrong-phase"
             ELSE "wrong-state"

UncompVerdict(j) ==
  LET n == j.n
      d == Dim(n)
  IN IF ~AllWellFormed(j.gates, n) THEN "malformed-gate"
     ELSE IF ~VecOK(j) THEN "malformed-vector"
     ELSE LET out == Run(VecOf(j), j.gates, n)
          IN IF \E x \in 2..d : out[x] # RZero THEN "not-zero-state"
             ELSE IF out[1] = RZero THEN "annihilated"
             ELSE IF Mul(Zeta(j.ph), out[1]) = ROne THEN "ok"     \* unit-norm inputs: exactly |0..0>
             ELSE "ok-up-to-phase"                                \* the property asks for proportionality only

\* ---- phase estimation -----------------------------------------------------------------
\* the unitary whose phase is estimated: "terms" (U = exp(-i H t): terms [w, k] on ns qubits, time multiplier tm)
\* or "circuit" (U = UnitaryOf(ugates) on ns qubits)
UApply(j, v) == IF j.utype = "terms" THEN QExpTerms(j.terms, j.tm, <<>>, v, j.ns) ELSE Run(v, j.ugates, j.ns)
QpeInputOK(j) == /\ AllWellFormed(j.prep, j.ns)
                 /\ (j.utype = "terms" => /\ \A t \in 1..Len(j.terms) : Len(j.terms[t].w) = j.ns
                                           /\ TermsCommute(j.terms, j.ns))
                 /\ (j.utype = "circuit" => AllWellFormed(j.ugates, j.ns))
                 /\ j.m >= 1 /\ Pow2(j.m) <= M
QpePsi0(j)  == Run(ZeroState(j.ns), j.prep, j.ns)
QpeKappa(j) == PhaseIndex(QpePsi0(j), UApply(j, QpePsi0(j)), Dim(j.ns))
QpeJ(j)     == (QpeKappa(j) * Pow2(j.m)) \div M
\* read-out register: the qubits ns .. n-1, the LOWEST index is the most significant bit of the reported phase
ReadReg(j)  == [i \in 1..(j.n - j.ns) |-> j.n - i]

\* <<verdict, J>>
QpeVerdict(j) ==
  IF ~QpeInputOK(j) THEN <<"malformed-input", -1>>
  ELSE IF QpeKappa(j) < 0 THEN <<"skip-not-eigenstate", -1>>
  ELSE IF (QpeKappa(j) * Pow2(j.m)) % M # 0 THEN <<"skip-unrepresentable", -1>>
  ELSE IF j.n # j.ns + j.m THEN <<"wrong-width", QpeJ(j)>>
  ELSE IF ~AllWellFormed(j.gates, j.n) THEN <<"malformed-gate", QpeJ(j)>>
  ELSE LET out == Run(TensorReg(QpePsi0(j), j.ns, j.m, 0), j.gates, j.n)
           pr  == RegProb(out, ReadReg(j), j.n, QpeJ(j))
       IN IF pr = ROne THEN <<"ok", QpeJ(j)>>
          ELSE IF pr = RZero THEN <<"never-returns-phase", QpeJ(j)>>
          ELSE <<"not-certain", QpeJ(j)>>

\* iterative: a branch is [outs |-> measured bits in measurement order, segs |-> gate lists between the measurements]
\* (segs[1] precedes the first, meaningless, measurement of the fresh ancilla; Len(segs) = Len(outs) + 1)
RECURSIVE IqpeRun(_, _, _, _, _)
IqpeRun(st, br, anc, n, i) ==
  IF i > Len(br.outs) THEN st
  ELSE IqpeRun(Project(Run(st, br.segs[i + 1], n), anc, br.outs[i], n), br, anc, n, i + 1)
BranchWeight(j, br) ==
  LET n   == j.ns + 1
      st0 == Project(Run(TensorReg(QpePsi0(j), j.ns, 1, 0), br.segs[1], n), j.ns, 0, n)
  IN Norm2(IqpeRun(st0, br, j.ns, n, 1), Dim(n))
BranchOK(j, br) == /\ Len(br.segs) = Len(br.outs) + 1
                   /\ \A s \in 1..Len(br.segs) : AllWellFormed(br.segs[s], j.ns + 1)
OutsAreJ(j, br) == /\ Len(br.outs) = j.m
                   /\ \A i \in 1..j.m : br.outs[i] = (QpeJ(j) \div Pow2(i - 1)) % 2
IqpeVerdict(j) ==
  IF ~QpeInputOK(j) THEN <<"malformed-input", -1>>
  ELSE IF QpeKappa(j) < 0 THEN <<"skip-not-eigenstate", -1>>
  ELSE IF (QpeKappa(j) * Pow2(j.m)) % M # 0 THEN <<"skip-unrepresentable", -1>>
  ELSE IF \E b \in 1..Len(j.branches) : ~BranchOK(j, j.branches[b]) THEN <<"malformed-gate", QpeJ(j)>>
  ELSE IF j.realised
       THEN (IF ~OutsAreJ(j, j.branches[1]) THEN <<"wrong-bits-measured", QpeJ(j)>>
             ELSE IF BranchWeight(j, j.branches[1]) = ROne THEN <<"ok", QpeJ(j)>> ELSE <<"not-certain", QpeJ(j)>>)
       ELSE IF ~(\E b \in 1..Len(j.branches) : OutsAreJ(j, j.branches[b])) THEN <<"branch-missing", QpeJ(j)>>
       ELSE IF \A b \in 1..Len(j.branches) :
                  BranchWeight(j, j.branches[b]) = (IF OutsAreJ(j, j.branches[b]) THEN ROne ELSE RZero)
            THEN <<"ok", QpeJ(j)>> ELSE <<"not-certain", QpeJ(j)>>

Verdict2(j) == CASE j.kind = "qpe"  -> QpeVerdict(j)
                 [] j.kind = "iqpe" -> IqpeVerdict(j)
                 [] OTHER -> <<"-", -1>>

Verdict(j) == CASE j.kind = "qft"    -> QftVerdict(j)
                [] j.kind = "init"   -> InitVerdict(j)
                [] j.kind = "uncomp" -> UncompVerdict(j)
                [] j.kind \in {"qpe", "iqpe"} -> Verdict2(j)[1]
                [] OTHER -> "unknown-kind"

JInit == ji \in 1..Len(Jobs)
JNext == /\ ji > 0
         /\ IF Jobs[ji].kind \in {"qpe", "iqpe"}
            THEN LET v == Verdict2(Jobs[ji]) IN PrintT(<<"V", Jobs[ji].id, v[1], v[2]>>)
            ELSE PrintT(<<"V", Jobs[ji].id, Verdict(Jobs[ji])>>)
         /\ ji' = 0
=============================================================================
