------------------------------ MODULE Clifford ------------------------------
(***************************************************************************)
(* Stabiliser (Heisenberg) engine for circuits whose angles are Clifford    *)
(* points: rotations RX RY RZ PHASE XX at multiples of pi/2, singly         *)
(* controlled CRX CRY CRZ at multiples of pi, CPHASE at multiples of pi.    *)
(*                                                                         *)
(* A signed Pauli word is [w |-> word, s |-> 0 or 1] (value (-1)^s w).      *)
(* Every supported gate is first rewritten, up to a global phase, into the  *)
(* elementary set {H, S, SDAG, X, Y, Z, CX}; conjugation rules of these    *)
(* seven gates act on signed words.  LibCheck-style self-checks at the end  *)
(* (run by checks/libcheck.py through CliffordCheck.tla) prove, with the    *)
(* exact ring engine of Gates.tla, that (i) each elementary rule is         *)
(* U P U^dagger and (ii) each rewriting equals the documented gate up to a  *)
(* global phase - so the two engines are one semantics.                      *)
(*                                                                         *)
(* Scales to ~10 qubits and thousands of gates: cost O(gates) per word.     *)
(***************************************************************************)
EXTENDS Pauli, SequencesExt

\* ---- Clifford points ------------------------------------------------------
Quarter == M \div 4                       \* pi/2 in grid units
IsCliffordGate(g) ==
  LET b == BaseName[g.name] IN
  IF Len(g.c) = 0 THEN
       \/ b \in {"H", "X", "Y", "Z", "S", "SDAG", "SWAP"}
       \/ (b \in {"RX", "RY", "RZ", "PHASE", "XX"} /\ g.k % Quarter = 0)
  ELSE /\ Len(g.c) = 1
       /\ \/ b \in {"X", "Y", "Z"}
          \/ (b \in {"RX", "RY", "RZ"} /\ g.k % (2 * Quarter) = 0)
          \/ (b = "PHASE" /\ g.k % (2 * Quarter) = 0)

E(name, a, b) == [e |-> name, a |-> a, b |-> b]      \* elementary gate on qubit a (and b for CX: control a, target b)

RzSeq(q, j) == CASE j % 4 = 0 -> <<>>
                 [] j % 4 = 1 -> <<E("S", q, q)>>
                 [] j % 4 = 2 -> <<E("Z", q, q)>>
                 [] j % 4 = 3 -> <<E("SDAG", q, q)>>
RxSeq(q, j) == <<E("H", q, q)>> \o RzSeq(q, j) \o <<E("H", q, q)>>
RySeq(q, j) == <<E("SDAG", q, q)>> \o RxSeq(q, j) \o <<E("S", q, q)>>       \* RY = S RX S^dagger
CzSeq(c, t) == <<E("H", t, t), E("CX", c, t), E("H", t, t)>>
CySeq(c, t) == <<E("SDAG", t, t), E("CX", c, t), E("S", t, t)>>
\* CRZ(j pi): diag(1,1,e^{-i j pi/2}, e^{+i j pi/2})
CrzSeq(c, t, j) == CASE j % 4 = 0 -> <<>>
                     [] j % 4 = 1 -> <<E("SDAG", c, c)>> \o CzSeq(c, t)
                     [] j % 4 = 2 -> <<E("Z", c, c)>>
                     [] j % 4 = 3 -> <<E("S", c, c)>> \o CzSeq(c, t)
CrxSeq(c, t, j) == <<E("H", t, t)>> \o CrzSeq(c, t, j) \o <<E("H", t, t)>>
CrySeq(c, t, j) == <<E("SDAG", t, t)>> \o CrxSeq(c, t, j) \o <<E("S", t, t)>>

\* circuit order (first element acts first)
Decompose(g) ==
  LET b == BaseName[g.name]
      t == g.t[1]
      j == g.k \div Quarter
  IN IF Len(g.c) = 0 THEN
       CASE b \in {"H", "X", "Y", "Z", "S", "SDAG"} -> <<E(b, t, t)>>
         [] b = "RZ" \/ b = "PHASE" -> RzSeq(t, j)
         [] b = "RX" -> RxSeq(t, j)
         [] b = "RY" -> RySeq(t, j)
         [] b = "SWAP" -> <<E("CX", g.t[1], g.t[2]), E("CX", g.t[2], g.t[1]), E("CX", g.t[1], g.t[2])>>
         [] b = "XX" -> <<E("H", g.t[1], g.t[1]), E("H", g.t[2], g.t[2]), E("CX", g.t[1], g.t[2])>>
                          \o RzSeq(g.t[2], j)
                          \o <<E("CX", g.t[1], g.t[2]), E("H", g.t[1], g.t[1]), E("H", g.t[2], g.t[2])>>
     ELSE LET c == g.c[1]
              jj == g.k \div (2 * Quarter)
          IN CASE b = "X" -> <<E("CX", c, t)>>
               [] b = "Y" -> CySeq(c, t)
               [] b = "Z" -> CzSeq(c, t)
               [] b = "RZ" -> CrzSeq(c, t, jj)
               [] b = "RX" -> CrxSeq(c, t, jj)
               [] b = "RY" -> CrySeq(c, t, jj)
               [] b = "PHASE" -> IF jj % 2 = 0 THEN <<>> ELSE CzSeq(c, t)

DecomposeAll(gates) == FoldLeft(LAMBDA acc, g : acc \o Decompose(g), <<>>, gates)

InvE(e) == IF e.e = "S" THEN E("SDAG", e.a, e.b) ELSE IF e.e = "SDAG" THEN E("S", e.a, e.b) ELSE e

\* ---- conjugation  P |-> e P e^dagger  of a signed word by an elementary gate ----------
\* letters 0 I, 1 X, 2 Y, 3 Z;  bits: x = letter in {1,2}, z = letter in {2,3}
XB(l) == IF l \in {1, 2} THEN 1 ELSE 0
ZB(l) == IF l \in {2, 3} THEN 1 ELSE 0
LetterOf(x, z) == IF x = 1 THEN (IF z = 1 THEN 2 ELSE 1) ELSE (IF z = 1 THEN 3 ELSE 0)
Xor(a, b) == (a + b) % 2

ConjE(r, e) ==
  LET l == r.w[e.a + 1] IN
  CASE e.e = "H"    -> [w |-> TLCEval([q \in 1..Len(r.w) |-> IF q = e.a + 1 THEN (IF l = 1 THEN 3 ELSE IF l = 3 THEN 1 ELSE l) ELSE r.w[q]]),
                        s |-> IF l = 2 THEN 1 - r.s ELSE r.s]
    [] e.e = "S"    -> [w |-> TLCEval([q \in 1..Len(r.w) |-> IF q = e.a + 1 THEN (IF l = 1 THEN 2 ELSE IF l = 2 THEN 1 ELSE l) ELSE r.w[q]]),
                        s |-> IF l = 2 THEN 1 - r.s ELSE r.s]
    [] e.e = "SDAG" -> [w |-> TLCEval([q \in 1..Len(r.w) |-> IF q = e.a + 1 THEN (IF l = 1 THEN 2 ELSE IF l = 2 THEN 1 ELSE l) ELSE r.w[q]]),
                        s |-> IF l = 1 THEN 1 - r.s ELSE r.s]
    [] e.e = "X"    -> [w |-> r.w, s |-> IF l \in {2, 3} THEN 1 - r.s ELSE r.s]
    [] e.e = "Y"    -> [w |-> r.w, s |-> IF l \in {1, 3} THEN 1 - r.s ELSE r.s]
    [] e.e = "Z"    -> [w |-> r.w, s |-> IF l \in {1, 2} THEN 1 - r.s ELSE r.s]
    [] e.e = "CX"   ->
         LET lt == r.w[e.b + 1]
             xc == XB(l)
             zc == ZB(l)
             xt == XB(lt)
             zt == ZB(lt)
             flip == IF xc = 1 /\ zt = 1 /\ Xor(xt, zc) = 0 THEN 1 ELSE 0
         IN [w |-> TLCEval([q \in 1..Len(r.w) |-> IF q = e.a + 1 THEN LetterOf(xc, Xor(zc, zt))
                                                  ELSE IF q = e.b + 1 THEN LetterOf(Xor(xt, xc), zt)
                                                  ELSE r.w[q]]),
             s |-> Xor(r.s, flip)]

Signed(w) == [w |-> w, s |-> 0]

\* U P U^dagger for the circuit `gates` (first gate acts first)
PushForward(w, gates) == FoldLeft(LAMBDA acc, e : ConjE(acc, e), Signed(w), DecomposeAll(gates))

\* U^dagger P U
PullBack(w, gates) == FoldLeft(LAMBDA acc, e : ConjE(acc, InvE(e)), Signed(w), Reverse(DecomposeAll(gates)))

\* <0...0| U^dagger P U |0...0>  in {-1, 0, 1}
ExpectZero(w, gates) ==
  LET r == PullBack(w, gates) IN
  IF \E q \in 1..Len(r.w) : r.w[q] \in {1, 2} THEN 0 ELSE IF r.s = 0 THEN 1 ELSE -1

\* <x| U^dagger P U |x> for a computational basis state given as a 0/1 sequence
ExpectBits(w, gates, bits) ==
  LET r == PullBack(w, gates)
      par == SumSeq([q \in 1..Len(r.w) |-> IF r.w[q] = 3 THEN bits[q] ELSE 0], Len(r.w)) % 2
  IN IF \E q \in 1..Len(r.w) : r.w[q] \in {1, 2} THEN 0 ELSE IF Xor(r.s, par) = 0 THEN 1 ELSE -1

XWord(q, n) == [p \in 1..n |-> IF p = q + 1 THEN 1 ELSE 0]
ZWord(q, n) == [p \in 1..n |-> IF p = q + 1 THEN 3 ELSE 0]

\* tableau: images of X_0..X_{n-1}, Z_0..Z_{n-1}; on pre-decomposed gate lists
TableauOf(gates, n) ==
  LET es == DecomposeAll(gates) IN
  [j \in 1..(2 * n) |-> FoldLeft(LAMBDA acc, e : ConjE(acc, e),
                                 Signed(IF j <= n THEN XWord(j - 1, n) ELSE ZWord(j - n - 1, n)), es)]

\* two Clifford circuits implement the same unitary up to a global phase iff their tableaux agree
SameCliffordUpToPhase(g1, g2, n) == TableauOf(g1, n) = TableauOf(g2, n)

\* the state U|0..0> is determined (up to phase) by its stabilisers U Z_q U^dagger
StabilisersOf(gates, n) ==
  LET es == DecomposeAll(gates) IN
  [q \in 1..n |-> FoldLeft(LAMBDA acc, e : ConjE(acc, e), Signed(ZWord(q - 1, n)), es)]

AllClifford(gates) == \A j \in 1..Len(gates) : IsCliffordGate(gates[j])
=============================================================================
