---------------------------- MODULE CliffordCheck ----------------------------
(* Self-checks binding the stabiliser engine (Clifford.tla) to the exact ring engine (Gates.tla).      *)
EXTENDS Clifford, TLC

VARIABLE x
Init == x = 0
Next == x' = x
Check(name, cond) == PrintT(<<"LC", name, cond>>)

MatMul(A, B, d) == TLCEval([col \in 1..d |-> TLCEval([row \in 1..d |-> SumRing(TLCEval([k \in 1..d |-> Mul(A[k][row], B[col][k])]), d)])])
MatScale(z, A, d) == TLCEval([col \in 1..d |-> TLCEval([row \in 1..d |-> Mul(z, A[col][row])])])

AsGate(e) == IF e.e = "CX" THEN G("CNOT", <<e.b>>, <<e.a>>, 0) ELSE G(e.e, <<e.a>>, <<>>, 0)
AsGates(es) == TLCEval([j \in 1..Len(es) |-> AsGate(es[j])])

Elementary2 == {E(nm, q, q) : nm \in {"H", "S", "SDAG", "X", "Y", "Z"}, q \in 0..1} \cup {E("CX", 0, 1), E("CX", 1, 0)}

\* (i) U M(w) = (-1)^s M(w') U   for every elementary gate and every 2-qubit word
ASSUME Check("clifford-elementary-rules",
  \A e \in Elementary2 : \A w \in AllWords(2) :
     LET U  == UnitaryOf(<<AsGate(e)>>, 2)
         r  == ConjE(Signed(w), e)
         sg == IF r.s = 0 THEN ROne ELSE Neg(ROne)
     IN MatMul(U, OpMatrix(OpWord(w), 2), 4) = MatScale(sg, MatMul(OpMatrix(OpWord(r.w), 2), U, 4), 4))

\* (ii) every rewriting equals the documented gate up to a global phase
CliffordGates2 ==
       {G(nm, <<t>>, <<>>, 0) : nm \in {"H", "X", "Y", "Z", "S"}, t \in 0..1}
  \cup {G(nm, <<t>>, <<>>, j * Quarter) : nm \in {"RX", "RY", "RZ", "PHASE"}, t \in 0..1, j \in -4..8}
  \cup {G(nm, <<t>>, <<1 - t>>, 0) : nm \in {"CNOT", "CX", "CY", "CZ"}, t \in 0..1}
  \cup {G(nm, <<t>>, <<1 - t>>, 2 * j * Quarter) : nm \in {"CRX", "CRY", "CRZ", "CPHASE"}, t \in 0..1, j \in -2..4}
  \cup {G("XX", <<t, 1 - t>>, <<>>, j * Quarter) : t \in 0..1, j \in -4..8}
  \cup {G("SWAP", <<t, 1 - t>>, <<>>, 0) : t \in 0..1}

ASSUME Check("clifford-gates-recognised", \A g \in CliffordGates2 : IsCliffordGate(g))
ASSUME Check("clifford-decompositions",
  \A g \in CliffordGates2 : EquivUpToPhase(UnitaryOf(<<g>>, 2), UnitaryOf(AsGates(Decompose(g)), 2), 4))
ASSUME Check("non-clifford-rejected",
  /\ ~IsCliffordGate(G("T", <<0>>, <<>>, 0)) /\ ~IsCliffordGate(G("RZ", <<0>>, <<>>, 1))
  /\ ~IsCliffordGate(G("CRZ", <<0>>, <<1>>, Quarter)) /\ ~IsCliffordGate(G("CH", <<0>>, <<1>>, 0))
  /\ ~IsCliffordGate(G("CNOT", <<0>>, <<1, 2>>, 0)) /\ ~IsCliffordGate(G("CPHASE", <<0>>, <<1>>, Quarter)))

\* (iii) pull-back / push-forward against exact expectation values on a 3-qubit Clifford circuit
Circ3 == <<G("H", <<0>>, <<>>, 0), G("CNOT", <<1>>, <<0>>, 0), G("RX", <<2>>, <<>>, Quarter), G("CRZ", <<2>>, <<1>>, 2 * Quarter),
           G("XX", <<0, 2>>, <<>>, 3 * Quarter), G("S", <<1>>, <<>>, 0), G("RY", <<0>>, <<>>, -Quarter), G("CY", <<0>>, <<2>>, 0),
           G("SWAP", <<1, 2>>, <<>>, 0), G("PHASE", <<2>>, <<>>, 2 * Quarter), G("CRY", <<1>>, <<0>>, 6 * Quarter)>>
ASSUME Check("clifford-expectation-vs-ring",
  LET psi == Run(ZeroState(3), Circ3, 3) IN
  \A w \in AllWords(3) : ExpectWord(w, psi, 3) = FromInt(ExpectZero(w, Circ3)))
ASSUME Check("clifford-expectbits-vs-ring",
  LET psi == Run(Basis(5, 3), Circ3, 3) IN
  \A w \in {<<3, 0, 1>>, <<2, 2, 0>>, <<0, 3, 3>>, <<1, 1, 1>>, <<3, 3, 3>>, <<0, 0, 2>>} :
      ExpectWord(w, psi, 3) = FromInt(ExpectBits(w, Circ3, <<1, 0, 1>>)))
ASSUME Check("clifford-tableau-equivalence",
  /\ SameCliffordUpToPhase(<<G("H", <<0>>, <<>>, 0), G("Z", <<0>>, <<>>, 0), G("H", <<0>>, <<>>, 0)>>, <<G("X", <<0>>, <<>>, 0)>>, 2)
  /\ SameCliffordUpToPhase(<<G("RZ", <<0>>, <<>>, Quarter)>>, <<G("S", <<0>>, <<>>, 0)>>, 2)
  /\ ~SameCliffordUpToPhase(<<G("CRZ", <<1>>, <<0>>, 4 * Quarter)>>, <<>>, 2)        \* CRZ(2 pi) is Z on the control
  /\ SameCliffordUpToPhase(<<G("CRZ", <<1>>, <<0>>, 8 * Quarter)>>, <<>>, 2))
=============================================================================
