------------------------------ MODULE Density ------------------------------
(***************************************************************************)
(* Exact density matrices over the ring R_M (library module, used by C10    *)
(* and C19).                                                                *)
(*                                                                         *)
(* A density matrix on n qubits is a sequence of Dim(n) columns, each a     *)
(* sequence of Dim(n) ring elements:  rho[col][row]  (1-based); the         *)
(* 0-based accessor is At(rho, r0, c0) = <r0| rho |c0>.  Index convention   *)
(* as in Gates.tla (qubit 0 = most significant bit).                         *)
(*                                                                         *)
(* Channels (the documented meaning of the two noise types of               *)
(* tangelo.linq.noisy_simulation):                                          *)
(*   PauliChannel(px,py,pz) on qubit q:                                     *)
(*        rho -> (1-px-py-pz) rho + px X rho X + py Y rho Y + pz Z rho Z    *)
(*   Depol(p) on a sequence Q of k qubits:                                  *)
(*        rho -> (1-p) rho + p * tr_Q(rho) (x) 1/2^k                        *)
(* Error rates are ring elements (dyadic rationals Dyadic(a, k) = a/2^k).   *)
(*                                                                         *)
(* Lemma (checked by TLC in DensityCheck.tla for k <= 2):                   *)
(*   Depol(p) on k qubits = (1 - (4^k-1) w) rho + w SUM_{P # I} P rho P     *)
(*   with w = p / 4^k, which is cirq.depolarize(p_c, k) for the TOTAL error *)
(*   probability p_c = (4^k-1) w = p (4^k-1)/4^k  (cirq gives every         *)
(*   non-identity Pauli word the weight p_c/(4^k-1)).                        *)
(***************************************************************************)
EXTENDS Pauli

At(rho, r0, c0) == rho[c0 + 1][r0 + 1]

\* matrix from an entry function of 0-based (row, col)
MatFrom(E(_, _), d) == TLCEval([c \in 1..d |-> TLCEval([r \in 1..d |-> E(r - 1, c - 1)])])

ZeroMat(d)        == MatFrom(LAMBDA r0, c0 : RZero, d)
Pure(psi, d)      == MatFrom(LAMBDA r0, c0 : Mul(psi[r0 + 1], Conj(psi[c0 + 1])), d)
Transpose(A, d)   == MatFrom(LAMBDA r0, c0 : At(A, c0, r0), d)
MScale(z, A, d)   == IF z = ROne THEN A ELSE MatFrom(LAMBDA r0, c0 : Mul(z, At(A, r0, c0)), d)
MAdd(A, B, d)     == MatFrom(LAMBDA r0, c0 : Add(At(A, r0, c0), At(B, r0, c0)), d)
ConjVec(v, d)     == TLCEval([i \in 1..d |-> Conj(v[i])])

Trace(rho, d)       == SumRing(TLCEval([i \in 1..d |-> rho[i][i]]), d)
DiagOf(rho, d)      == TLCEval([i \in 1..d |-> rho[i][i]])
IsHermitian(rho, d) == \A r, c \in 1..d : rho[c][r] = Conj(rho[r][c])

\* U rho U^dagger for one gate: U acts on the columns, then conj(U) on the rows
ApplyGateRho(rho, g, n) ==
  LET d  == Dim(n)
      B  == TLCEval([c \in 1..d |-> ApplyGate(rho[c], g, n)])            \* U rho   (columns)
      Bt == Transpose(B, d)                                              \* Bt[r] = row r of U rho
      Ct == TLCEval([r \in 1..d |-> ConjVec(ApplyGate(ConjVec(Bt[r], d), g, n), d)])
  IN Transpose(Ct, d)

RECURSIVE RunRhoFrom(_, _, _, _)
RunRhoFrom(rho, gates, n, from) ==
  IF from > Len(gates) THEN rho ELSE RunRhoFrom(ApplyGateRho(rho, gates[from], n), gates, n, from + 1)
RunRho(rho, gates, n) == RunRhoFrom(rho, gates, n, 1)

\* ---- Pauli channel on one qubit ----------------------------------------------
PauliName == <<"X", "Y", "Z">>
Conjugate(rho, l, q, n) == ApplyGateRho(rho, G(PauliName[l], <<q>>, <<>>, 0), n)    \* l in 1..3

PauliChannel(rho, q, px, py, pz, n) ==
  LET d  == Dim(n)
      p0 == Sub(ROne, Add(px, Add(py, pz)))
      term(p, l) == IF p = RZero THEN ZeroMat(d) ELSE MScale(p, Conjugate(rho, l, q, n), d)
  IN IF px = RZero /\ py = RZero /\ pz = RZero THEN rho
     ELSE MAdd(MAdd(MScale(p0, rho, d), term(px, 1), d), MAdd(term(py, 2), term(pz, 3), d), d)

\* ---- depolarising channel on the qubits Q (sequence, k = Len(Q)) ---------------
\* i0 with the bits of the qubits Q replaced by the pattern x in 0..2^k-1 (Q[1] = most significant bit of x)
RECURSIVE SetBitsFrom(_, _, _, _, _)
SetBitsFrom(i0, Q, x, n, j) ==
  IF j > Len(Q) THEN i0
  ELSE SetBitsFrom(SetBit(i0, Q[j], n, (x \div Pow2(Len(Q) - j)) % 2), Q, x, n, j + 1)
SetBits(i0, Q, x, n) == SetBitsFrom(i0, Q, x, n, 1)
SameOn(r0, c0, Q, n) == \A j \in 1..Len(Q) : BitAt(r0, Q[j], n) = BitAt(c0, Q[j], n)

\* tr_Q(rho) (x) 1/2^k
TraceMix(rho, Q, n) ==
  LET k == Len(Q) IN
  MatFrom(LAMBDA r0, c0 :
            IF SameOn(r0, c0, Q, n)
            THEN Mul(Dyadic(1, k),
                     SumRing(TLCEval([x \in 1..Pow2(k) |-> At(rho, SetBits(r0, Q, x - 1, n), SetBits(c0, Q, x - 1, n))]), Pow2(k)))
            ELSE RZero, Dim(n))

Depol(rho, Q, p, n) ==
  IF p = RZero THEN rho
  ELSE MAdd(MScale(Sub(ROne, p), rho, Dim(n)), MScale(p, TraceMix(rho, Q, n), Dim(n)), Dim(n))

\* the uniform Pauli-mixture form: every non-identity word on Q gets the weight w
\* words on Q = functions 1..k -> 0..3; conjugation by the word = conjugation by its letters
RECURSIVE ConjWordFrom(_, _, _, _, _)
ConjWordFrom(rho, Q, w, n, j) ==
  IF j > Len(Q) THEN rho
  ELSE ConjWordFrom(IF w[j] = 0 THEN rho ELSE Conjugate(rho, w[j], Q[j], n), Q, w, n, j + 1)
ConjWord(rho, Q, w, n) == ConjWordFrom(rho, Q, w, n, 1)

DepolPauliForm(rho, Q, w, n) ==
  LET k     == Len(Q)
      d     == Dim(n)
      words == {v \in [1..k -> 0..3] : \E j \in 1..k : v[j] # 0}
      keep  == Sub(ROne, Mul(FromInt(Pow2(2 * k) - 1), w))
  IN FoldSet(LAMBDA v, acc : MAdd(acc, MScale(w, ConjWord(rho, Q, v, n), d), d), MScale(keep, rho, d), words)

\* ---- measurement -----------------------------------------------------------------
\* unconditioned (outcome discarded) measurement of qubit q in the computational basis
MeasureDephase(rho, q, n) ==
  MatFrom(LAMBDA r0, c0 : IF BitAt(r0, q, n) = BitAt(c0, q, n) THEN At(rho, r0, c0) ELSE RZero, Dim(n))
\* P_b rho P_b (unnormalised)
ProjectRho(rho, q, b, n) ==
  MatFrom(LAMBDA r0, c0 : IF BitAt(r0, q, n) = b /\ BitAt(c0, q, n) = b THEN At(rho, r0, c0) ELSE RZero, Dim(n))

\* ---- expectation values ------------------------------------------------------------
\* tr(rho w) for a Pauli word w (sequence of n letters):  w|x> = i^p |y>  =>  tr = SUM_x <x|rho|y> i^p
TrWord(rho, w, n) ==
  SumRing(TLCEval([x \in 1..Dim(n) |-> LET a == ActWord(w, x - 1, n) IN Mul(IPow(a.p), At(rho, x - 1, a.y))]), Dim(n))
\* tr(rho A) for an operator A (function word |-> coefficient)
TrOp(rho, A, n) == FoldSet(LAMBDA w, acc : Add(acc, Mul(A[w], TrWord(rho, w, n))), RZero, DOMAIN A)
=============================================================================
