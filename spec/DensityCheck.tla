---------------------------- MODULE DensityCheck ----------------------------
(***************************************************************************)
(* Self-checks of Density.tla in the style of LibCheck.tla: every check is  *)
(* printed as <<"LC", name, BOOLEAN>> and the harness (checks/c19.py,       *)
(* checks/c10.py) requires all of them TRUE before the module is used as    *)
(* an oracle.                                                                *)
(***************************************************************************)
EXTENDS Density, TLC

VARIABLE x
Init == x = 0
Next == x' = x

Check(name, cond) == PrintT(<<"LC", name, cond>>)

\* entangled test states with pairwise different phases (PHASE(k) needs nothing special, RY/RX need even k)
Prep(n) == [q \in 1..n |-> G("H", <<q-1>>, <<>>, 0)]
           \o [q \in 1..n |-> G("PHASE", <<q-1>>, <<>>, q)]
           \o [q \in 1..(n-1) |-> G("CNOT", <<q>>, <<q-1>>, 0)]
           \o [q \in 1..n |-> G("RY", <<q-1>>, <<>>, 2)]
           \o [q \in 1..n |-> G("T", <<q-1>>, <<>>, 0)]
Psi(n) == Run(ZeroState(n), Prep(n), n)
Rho(n) == Pure(Psi(n), Dim(n))
e8 == Dyadic(1, 3)
q4 == Dyadic(1, 2)
hf == Dyadic(1, 1)
\* a genuinely mixed state
Mix(n) == Depol(PauliChannel(Rho(n), 0, e8, q4, RZero, n), <<n - 1>>, hf, n)

Gs(n) == { G("H", <<0>>, <<>>, 0), G("Y", <<n-1>>, <<>>, 0), G("T", <<0>>, <<>>, 0), G("S", <<n-1>>, <<>>, 0),
           G("RY", <<0>>, <<>>, 2), G("RZ", <<n-1>>, <<>>, 6), G("RX", <<0>>, <<>>, -2) }
         \cup (IF n >= 2 THEN { G("CNOT", <<1>>, <<0>>, 0), G("CNOT", <<0>>, <<n-1>>, 0), G("CRZ", <<0>>, <<1>>, 2),
                                G("SWAP", <<0, n-1>>, <<>>, 0), G("XX", <<0, 1>>, <<>>, 2) } ELSE {})
         \cup (IF n >= 3 THEN { G("CSWAP", <<0, 2>>, <<1>>, 0), G("CNOT", <<1>>, <<0, 2>>, 0) } ELSE {})

Rates == {RZero, e8, q4, hf, ROne}

ASSUME Check("pure-trace-hermitian", \A n \in 1..3 : Trace(Rho(n), Dim(n)) = ROne /\ IsHermitian(Rho(n), Dim(n))
                                                       /\ Trace(Mix(n), Dim(n)) = ROne /\ IsHermitian(Mix(n), Dim(n))
                                                       /\ Mix(n) # Rho(n))
ASSUME Check("gate-on-pure", \A n \in 1..3 : \A g \in Gs(n) :
                 ApplyGateRho(Rho(n), g, n) = Pure(ApplyGate(Psi(n), g, n), Dim(n)))
ASSUME Check("gate-on-mixed-trace-hermitian", \A n \in 2..3 : \A g \in Gs(n) :
                 LET r == ApplyGateRho(Mix(n), g, n) IN Trace(r, Dim(n)) = ROne /\ IsHermitian(r, Dim(n)))
\* U rho U^dagger entrywise against the explicit unitary: SUM_ab U[r][a] rho[a][b] conj(U[c][b])
ASSUME Check("gate-on-mixed-explicit", \A g \in Gs(2) :
                 LET U == UnitaryOf(<<g>>, 2)       \* U[col][row]
                     r == ApplyGateRho(Mix(2), g, 2)
                 IN \A rr, cc \in 0..3 :
                      At(r, rr, cc) = SumRing([ab \in 1..16 |->
                                          LET a == (ab - 1) \div 4
                                              b == (ab - 1) % 4
                                          IN Mul(Mul(U[a + 1][rr + 1], At(Mix(2), a, b)), Conj(U[b + 1][cc + 1]))], 16))
ASSUME Check("pauli-channel-tp-hermitian", \A n \in 1..2 : \A q \in 0..(n-1) : \A px, py, pz \in {RZero, e8, hf} :
                 LET r == PauliChannel(Mix(n), q, px, py, pz, n) IN Trace(r, Dim(n)) = ROne /\ IsHermitian(r, Dim(n)))
ASSUME Check("pauli-channel-zero-is-identity", \A n \in 1..3 : \A q \in 0..(n-1) : PauliChannel(Mix(n), q, RZero, RZero, RZero, n) = Mix(n))
ASSUME Check("pauli-channel-full-rate-is-conjugation", \A n \in 1..2 : \A q \in 0..(n-1) :
                 /\ PauliChannel(Mix(n), q, ROne, RZero, RZero, n) = ApplyGateRho(Mix(n), G("X", <<q>>, <<>>, 0), n)
                 /\ PauliChannel(Mix(n), q, RZero, ROne, RZero, n) = ApplyGateRho(Mix(n), G("Y", <<q>>, <<>>, 0), n)
                 /\ PauliChannel(Mix(n), q, RZero, RZero, ROne, n) = ApplyGateRho(Mix(n), G("Z", <<q>>, <<>>, 0), n))
\* the two Pauli letters are distinguished (px on X, py on Y): Y-flip changes the phase of coherences differently from X
ASSUME Check("pauli-channel-letters-distinct", PauliChannel(Rho(2), 0, hf, RZero, RZero, 2) # PauliChannel(Rho(2), 0, RZero, hf, RZero, 2)
                                            /\ PauliChannel(Rho(2), 0, hf, RZero, RZero, 2) # PauliChannel(Rho(2), 0, RZero, RZero, hf, 2)
                                            /\ PauliChannel(Rho(2), 0, hf, RZero, RZero, 2) # PauliChannel(Rho(2), 1, hf, RZero, RZero, 2))
ASSUME Check("depol-tp-hermitian-zero", \A n \in 1..3 : \A Q \in {<<0>>, <<n-1>>} \cup (IF n >= 2 THEN {<<0, n-1>>, <<n-1, 0>>} ELSE {}) : \A p \in Rates :
                 LET r == Depol(Mix(n), Q, p, n) IN /\ Trace(r, Dim(n)) = ROne /\ IsHermitian(r, Dim(n))
                                                    /\ (p = RZero => r = Mix(n)))
\* LEMMA: partial-trace form = uniform Pauli mixture with per-word weight p/4^k  (= cirq.depolarize(p (4^k-1)/4^k, k))
ASSUME Check("depol-lemma-k1", \A n \in 1..3 : \A q \in 0..(n-1) : \A p \in Rates :
                 Depol(Mix(n), <<q>>, p, n) = DepolPauliForm(Mix(n), <<q>>, Mul(p, Dyadic(1, 2)), n))
ASSUME Check("depol-lemma-k2", \A n \in 2..3 : \A Q \in {<<0, 1>>, <<n-1, 0>>} : \A p \in {e8, hf, ROne} :
                 Depol(Mix(n), Q, p, n) = DepolPauliForm(Mix(n), Q, Mul(p, Dyadic(1, 4)), n))
ASSUME Check("depol-lemma-k3", \A p \in {q4, ROne} : Depol(Mix(3), <<2, 0, 1>>, p, 3) = DepolPauliForm(Mix(3), <<2, 0, 1>>, Mul(p, Dyadic(1, 6)), 3))
\* k = 1: Depol(p) = PauliChannel(p/4, p/4, p/4)
ASSUME Check("depol-k1-is-symmetric-pauli", \A p \in Rates : LET w == Mul(p, q4) IN Depol(Mix(2), <<1>>, p, 2) = PauliChannel(Mix(2), 1, w, w, w, 2))
ASSUME Check("depol-full-is-maximally-mixed", \A n \in 1..3 :
                 Depol(Mix(n), [j \in 1..n |-> j - 1], ROne, n) = MatFrom(LAMBDA r0, c0 : IF r0 = c0 THEN Dyadic(1, n) ELSE RZero, Dim(n)))
ASSUME Check("depol-order-of-qubits-irrelevant", Depol(Mix(3), <<0, 2>>, hf, 3) = Depol(Mix(3), <<2, 0>>, hf, 3)
                                              /\ Depol(Mix(3), <<0, 2>>, hf, 3) # Depol(Mix(3), <<0, 1>>, hf, 3)
                                              /\ Depol(Mix(3), <<0, 2>>, hf, 3) # Depol(Depol(Mix(3), <<0>>, hf, 3), <<2>>, hf, 3))
\* a Pauli channel on a qubit of Q commutes with the depolarising channel on Q: the order in which a model lists the
\* two channel types of one gate is not observable
ASSUME Check("pauli-depol-commute", \A Q \in {<<0>>, <<1, 0>>, <<0, 2>>} : \A q \in {Q[j] : j \in 1..Len(Q)} :
                 Depol(PauliChannel(Mix(3), q, e8, q4, RZero, 3), Q, hf, 3) = PauliChannel(Depol(Mix(3), Q, hf, 3), q, e8, q4, RZero, 3))
ASSUME Check("dephase-is-sum-of-projections", \A n \in 1..3 : \A q \in 0..(n-1) :
                 /\ MeasureDephase(Mix(n), q, n) = MAdd(ProjectRho(Mix(n), q, 0, n), ProjectRho(Mix(n), q, 1, n), Dim(n))
                 /\ MeasureDephase(Mix(n), q, n) = PauliChannel(Mix(n), q, RZero, RZero, hf, n)
                 /\ ProjectRho(Rho(n), q, 1, n) = Pure(Project(Psi(n), q, 1, n), Dim(n))
                 /\ DiagOf(MeasureDephase(Mix(n), q, n), Dim(n)) = DiagOf(Mix(n), Dim(n)))
ASSUME Check("trword-pure", \A n \in 1..2 : \A w \in AllWords(n) : TrWord(Rho(n), w, n) = ExpectWord(w, Psi(n), n))
ASSUME Check("trword-matrix", \A w \in AllWords(2) :
                 LET P == OpMatrix(OpWord(w), 2)    \* P[col][row]
                 IN TrWord(Mix(2), w, 2) = SumRing([ab \in 1..16 |-> LET a == (ab - 1) \div 4
                                                                        b == (ab - 1) % 4
                                                                    IN Mul(At(Mix(2), a, b), P[a + 1][b + 1])], 16))
ASSUME Check("trop-linear", LET A == OpFromTerms(<<[w |-> <<3, 0>>, c |-> hf], [w |-> <<1, 2>>, c |-> FromInt(-3)], [w |-> <<0, 0>>, c |-> RI]>>)
                            IN TrOp(Mix(2), A, 2) = Add(Add(Mul(hf, TrWord(Mix(2), <<3, 0>>, 2)), Mul(FromInt(-3), TrWord(Mix(2), <<1, 2>>, 2))), RI))
=============================================================================
