------------------------------- MODULE Fock -------------------------------
(***************************************************************************)
(* Fermionic Fock space from first principles.                              *)
(*                                                                         *)
(* Modes 0..n-1.  A determinant is the set of occupied modes; the reference *)
(* ordering of the creation operators is increasing mode index:             *)
(*   |D> = prod_{p in D, increasing} a+_p |vac>.                             *)
(* a_p |D>  = (-1)^{#{q in D : q < p}} |D \ {p}>   if p in D, else 0        *)
(* a+_p |D> = (-1)^{#{q in D : q < p}} |D u {p}>   if p notin D, else 0     *)
(* A term is a sequence of <<mode, dag>> (dag 1 = creation) read like a     *)
(* product of operators: the RIGHTMOST factor acts first (openfermion).     *)
(* An operator is a sequence of [t |-> term, c |-> ring coefficient].       *)
(***************************************************************************)
EXTENDS Pauli

SignBelow(p, D) == IF Cardinality({q \in D : q < p}) % 2 = 0 THEN 1 ELSE -1

\* result record: z = TRUE means the zero vector
Ladder(p, dag, r) ==
  IF r.z THEN r
  ELSE IF dag = 1
       THEN IF p \in r.d THEN [z |-> TRUE, s |-> 1, d |-> {}]
            ELSE [z |-> FALSE, s |-> r.s * SignBelow(p, r.d), d |-> r.d \cup {p}]
       ELSE IF p \notin r.d THEN [z |-> TRUE, s |-> 1, d |-> {}]
            ELSE [z |-> FALSE, s |-> r.s * SignBelow(p, r.d), d |-> r.d \ {p}]

RECURSIVE ApplyTermFrom(_, _, _)
ApplyTermFrom(t, r, j) == IF j = 0 THEN r ELSE ApplyTermFrom(t, Ladder(t[j][1], t[j][2], r), j - 1)

\* t |D>
ApplyTerm(t, D) == ApplyTermFrom(t, [z |-> FALSE, s |-> 1, d |-> D], Len(t))

\* <X| t |Y>  in {-1, 0, 1}
TermElement(t, X, Y) == LET r == ApplyTerm(t, Y) IN IF r.z \/ r.d # X THEN 0 ELSE r.s

\* <X| op |Y>
FOpElement(op, X, Y) ==
  SumRing(TLCEval([j \in 1..Len(op) |->
            LET e == TermElement(op[j].t, X, Y) IN
            IF e = 0 THEN RZero ELSE IF e = 1 THEN op[j].c ELSE Neg(op[j].c)]), Len(op))

Dets(n)          == SUBSET (0..(n-1))
DetsN(n, ne)     == {D \in Dets(n) : Cardinality(D) = ne}

\* ---- spin-orbital conventions -------------------------------------------
\* spatial orbital i in 0..n/2-1, spin s (0 = alpha/up, 1 = beta/down)
SO(i, s, n, utd) == IF utd THEN i + s * (n \div 2) ELSE 2 * i + s
AlphaModes(n, utd) == {SO(i, 0, n, utd) : i \in 0..((n \div 2) - 1)}
BetaModes(n, utd)  == {SO(i, 1, n, utd) : i \in 0..((n \div 2) - 1)}
NAlpha(D, n, utd)  == Cardinality(D \cap AlphaModes(n, utd))
NBeta(D, n, utd)   == Cardinality(D \cap BetaModes(n, utd))
Sector(n, na, nb, utd) == {D \in Dets(n) : NAlpha(D, n, utd) = na /\ NBeta(D, n, utd) = nb}

\* ---- vectors: functions determinant |-> ring element (finite support) ----
VZero == TLCEval([D \in {} |-> RZero])
VClean(v) == LET S == {D \in DOMAIN v : v[D] # RZero} IN TLCEval([D \in S |-> v[D]])
VCoef(v, D) == IF D \in DOMAIN v THEN v[D] ELSE RZero
VAdd(u, v) == VClean(TLCEval([D \in (DOMAIN u) \cup (DOMAIN v) |-> Add(VCoef(u, D), VCoef(v, D))]))
VScale(z, v) == VClean(TLCEval([D \in DOMAIN v |-> Mul(z, v[D])]))
VDet(D) == TLCEval([X \in {D} |-> ROne])

\* t applied to a vector
VApplyTerm(t, c, v) ==
  LET img == {ApplyTerm(t, D).d : D \in {Y \in DOMAIN v : ~ApplyTerm(t, Y).z}}
  IN VClean(TLCEval([X \in img |->
       FoldSet(LAMBDA Y, acc : LET r == ApplyTerm(t, Y) IN
                 IF r.z \/ r.d # X THEN acc
                 ELSE Add(acc, Mul(c, IF r.s = 1 THEN v[Y] ELSE Neg(v[Y]))),
               RZero, DOMAIN v)]))

RECURSIVE VApplyOpFrom(_, _, _)
VApplyOpFrom(op, v, j) == IF j = 0 THEN VZero ELSE VAdd(VApplyTerm(op[j].t, op[j].c, v), VApplyOpFrom(op, v, j - 1))
VApplyOp(op, v) == VApplyOpFrom(op, v, Len(op))

\* ---- first-principles symmetry operators ---------------------------------
NumberTerm(p) == << <<p, 1>>, <<p, 0>> >>
FTerm(t, c) == [t |-> t, c |-> c]

SetToSeqOf(S, f(_)) ==
  LET RECURSIVE go(_)
      go(T) == IF T = {} THEN <<>> ELSE LET x == CHOOSE y \in T : TRUE IN <<f(x)>> \o go(T \ {x})
  IN go(S)

SpecN(n) == SetToSeqOf(0..(n-1), LAMBDA p : FTerm(NumberTerm(p), ROne))
SpecSz(n, utd) ==
  SetToSeqOf(0..(n-1), LAMBDA p : FTerm(NumberTerm(p), IF p \in AlphaModes(n, utd) THEN Half(ROne) ELSE Neg(Half(ROne))))
\* S+ = sum_i a+_{i alpha} a_{i beta},  S- = sum_i a+_{i beta} a_{i alpha}
SpecSplus(n, utd)  == SetToSeqOf(0..((n \div 2) - 1), LAMBDA i : FTerm(<< <<SO(i, 0, n, utd), 1>>, <<SO(i, 1, n, utd), 0>> >>, ROne))
SpecSminus(n, utd) == SetToSeqOf(0..((n \div 2) - 1), LAMBDA i : FTerm(<< <<SO(i, 1, n, utd), 1>>, <<SO(i, 0, n, utd), 0>> >>, ROne))
\* S^2 v = S- S+ v + Sz v + Sz Sz v
SpecS2Apply(v, n, utd) ==
  LET sz == VApplyOp(SpecSz(n, utd), v)
  IN VAdd(VApplyOp(SpecSminus(n, utd), VApplyOp(SpecSplus(n, utd), v)), VAdd(sz, VApplyOp(SpecSz(n, utd), sz)))

\* ---- the spec's own Jordan-Wigner image of a ladder operator --------------
\* a_p = Z_0 ... Z_{p-1} (X_p + i Y_p)/2 ,  a+_p = Z_0 ... Z_{p-1} (X_p - i Y_p)/2
JWLadder(p, dag, n) ==
  LET wx == TLCEval([q \in 1..n |-> IF q - 1 < p THEN 3 ELSE IF q - 1 = p THEN 1 ELSE 0])
      wy == TLCEval([q \in 1..n |-> IF q - 1 < p THEN 3 ELSE IF q - 1 = p THEN 2 ELSE 0])
      h  == Half(ROne)
      ih == Half(RI)
  IN TLCEval([w \in {wx, wy} |-> IF w = wx THEN h ELSE IF dag = 1 THEN Neg(ih) ELSE ih])

\* determinant <-> JW basis-state index (qubit p = occupation of mode p, qubit 0 most significant)
DetIndex(D, n) == SumSeq(TLCEval([q \in 1..n |-> IF (q - 1) \in D THEN Pow2(n - q) ELSE 0]), n)
=============================================================================
