------------------------------- MODULE Gates -------------------------------
(***************************************************************************)
(* The documented gate semantics of tangelo.linq (gate.py / README of the   *)
(* linq module, Nielsen & Chuang conventions) over the exact ring R_M.      *)
(*                                                                         *)
(* A gate is a record [name, t, c, k]: t = sequence of target qubits,       *)
(* c = sequence of control qubits (possibly empty), k = angle in units of   *)
(* 2 pi / M (0 for non-parameterised gates).  A gate "C<base>" (and any     *)
(* base gate given extra controls) acts as <base> on the targets when all   *)
(* controls are 1 and as the identity otherwise.                            *)
(*                                                                         *)
(* A statevector on n qubits is a sequence of 2^n ring elements; the        *)
(* amplitude of |b_0 b_1 ... b_{n-1}> sits at index 1 + SUM b_q 2^(n-1-q):  *)
(* qubit 0 is the most significant bit (cirq's order).                      *)
(***************************************************************************)
EXTENDS Ring, FiniteSets

BaseName == [ H |-> "H", X |-> "X", Y |-> "Y", Z |-> "Z", S |-> "S", T |-> "T",
              SDAG |-> "SDAG", TDAG |-> "TDAG",
              RX |-> "RX", RY |-> "RY", RZ |-> "RZ", PHASE |-> "PHASE",
              CNOT |-> "X", CX |-> "X", CY |-> "Y", CZ |-> "Z", CH |-> "H",
              CS |-> "S", CT |-> "T",
              CRX |-> "RX", CRY |-> "RY", CRZ |-> "RZ", CPHASE |-> "PHASE",
              XX |-> "XX", SWAP |-> "SWAP", CSWAP |-> "SWAP", CXX |-> "XX" ]

OneTargetBase == {"H", "X", "Y", "Z", "S", "T", "SDAG", "TDAG", "RX", "RY", "RZ", "PHASE"}
TwoTargetBase == {"XX", "SWAP"}
RotBase       == {"RX", "RY", "RZ", "XX"}       \* need the half angle: k must be even
ParamBase     == RotBase \cup {"PHASE"}

G(name, t, c, k) == [name |-> name, t |-> t, c |-> c, k |-> k]

\* ---- 2x2 matrices <<<<m00, m01>>, <<m10, m11>>>> ------------------------
\* half angle theta/2 = 2 pi (k/2) / M
Mat1(base, k) ==
  LET j  == k \div 2
      cs == CosG(j)
      sn == SinG(j)
      mi == Neg(RI)
  IN CASE base = "H"     -> << <<InvSqrt2, InvSqrt2>>, <<InvSqrt2, Neg(InvSqrt2)>> >>
       [] base = "X"     -> << <<RZero, ROne>>, <<ROne, RZero>> >>
       [] base = "Y"     -> << <<RZero, mi>>, <<RI, RZero>> >>
       [] base = "Z"     -> << <<ROne, RZero>>, <<RZero, Neg(ROne)>> >>
       [] base = "S"     -> << <<ROne, RZero>>, <<RZero, RI>> >>
       [] base = "SDAG"  -> << <<ROne, RZero>>, <<RZero, mi>> >>
       [] base = "T"     -> << <<ROne, RZero>>, <<RZero, Zeta(M \div 8)>> >>
       [] base = "TDAG"  -> << <<ROne, RZero>>, <<RZero, Zeta(-(M \div 8))>> >>
       [] base = "RX"    -> << <<cs, Mul(mi, sn)>>, <<Mul(mi, sn), cs>> >>
       [] base = "RY"    -> << <<cs, Neg(sn)>>, <<sn, cs>> >>
       [] base = "RZ"    -> << <<Zeta(-j), RZero>>, <<RZero, Zeta(j)>> >>
       [] base = "PHASE" -> << <<ROne, RZero>>, <<RZero, Zeta(k)>> >>

\* ---- bit manipulation on 0-based amplitude indices -----------------------
BitAt(i0, q, n)     == (i0 \div Pow2(n - 1 - q)) % 2
SetBit(i0, q, n, b) == i0 + (b - BitAt(i0, q, n)) * Pow2(n - 1 - q)
FlipBit(i0, q, n)   == SetBit(i0, q, n, 1 - BitAt(i0, q, n))
CtrlOn(i0, c, n)    == \A j \in 1..Len(c) : BitAt(i0, c[j], n) = 1

Dim(n) == Pow2(n)

GateQubits(g) == {g.t[j] : j \in 1..Len(g.t)} \cup {g.c[j] : j \in 1..Len(g.c)}

\* well-formedness of a gate on n qubits (what the documentation accepts)
WellFormed(g, n) ==
  /\ g.name \in DOMAIN BaseName
  /\ LET b == BaseName[g.name] IN
       /\ Len(g.t) = (IF b \in TwoTargetBase THEN 2 ELSE 1)
       /\ (b \in RotBase => g.k % 2 = 0)
  /\ Cardinality(GateQubits(g)) = Len(g.t) + Len(g.c)
  /\ \A q \in GateQubits(g) : q \in 0..(n-1)

\* ---- action of one gate on a statevector ----------------------------------
ApplyGate(psi, g, n) ==
  LET base == BaseName[g.name]
      m    == Mat1(base, g.k)
      jj   == g.k \div 2
      xc   == CosG(jj)
      xs   == Mul(Neg(RI), SinG(jj))
  IN TLCEval([i \in 1..Dim(n) |->
       LET i0 == i - 1 IN
       IF ~CtrlOn(i0, g.c, n) THEN psi[i]
       ELSE IF base \in OneTargetBase THEN
              LET t == g.t[1]
                  b == BitAt(i0, t, n)
              IN Add(Mul(m[b+1][1], psi[SetBit(i0, t, n, 0) + 1]),
                     Mul(m[b+1][2], psi[SetBit(i0, t, n, 1) + 1]))
       ELSE IF base = "SWAP" THEN
              LET b1 == BitAt(i0, g.t[1], n)
                  b2 == BitAt(i0, g.t[2], n)
              IN psi[SetBit(SetBit(i0, g.t[1], n, b2), g.t[2], n, b1) + 1]
       ELSE \* XX(theta) = cos(theta/2) 1 - i sin(theta/2) X(x)X
              Add(Mul(xc, psi[i]), Mul(xs, psi[FlipBit(FlipBit(i0, g.t[1], n), g.t[2], n) + 1]))])

RECURSIVE RunFrom(_, _, _, _)
RunFrom(psi, gates, n, from) ==
  IF from > Len(gates) THEN psi ELSE RunFrom(ApplyGate(psi, gates[from], n), gates, n, from + 1)

Run(psi, gates, n) == RunFrom(psi, gates, n, 1)

Basis(x0, n) == TLCEval([i \in 1..Dim(n) |-> IF i = x0 + 1 THEN ROne ELSE RZero])
ZeroState(n) == Basis(0, n)

\* unitary as a sequence of columns: U[col][row]
UnitaryOf(gates, n) == TLCEval([col \in 1..Dim(n) |-> Run(Basis(col - 1, n), gates, n)])

Inner(a, b, d)   == SumRing(TLCEval([i \in 1..d |-> Mul(Conj(a[i]), b[i])]), d)
Norm2(psi, d)    == SumRing(TLCEval([i \in 1..d |-> Abs2(psi[i])]), d)
Probs(psi, d)    == TLCEval([i \in 1..d |-> Abs2(psi[i])])

IsUnitary(U, d) == \A a, b \in 1..d : Inner(U[a], U[b], d) = (IF a = b THEN ROne ELSE RZero)

\* U ~ V up to one global phase: all 2x2 minors of (vec U, vec V) vanish and U, V non-zero.
\* Uses a pivot entry to stay linear in the number of entries.
ProportionalVec(u, v, d) ==
  LET nzU == {i \in 1..d : u[i] # RZero}
      nzV == {i \in 1..d : v[i] # RZero}
  IN /\ nzU = nzV
     /\ nzU # {}
     /\ LET p == CHOOSE i \in nzU : TRUE IN
          \A i \in 1..d : Mul(u[i], v[p]) = Mul(v[i], u[p])

\* for unitaries (norm-preserving), proportional => the factor is a phase
EquivUpToPhase(U, V, d) ==
  LET nz == {<<a, b>> \in (1..d) \X (1..d) : U[a][b] # RZero}
  IN /\ nz # {}
     /\ LET p == CHOOSE ab \in nz : TRUE IN
          /\ V[p[1]][p[2]] # RZero
          /\ \A a, b \in 1..d : Mul(U[a][b], V[p[1]][p[2]]) = Mul(V[a][b], U[p[1]][p[2]])

Bitstring(i0, n) == TLCEval([q \in 1..n |-> BitAt(i0, q - 1, n)])

\* order reversal (qubit 0 least significant), for backends that advertise msq_first
RevIndex(i0, n) == SumSeq(TLCEval([q \in 1..n |-> BitAt(i0, q - 1, n) * Pow2(q - 1)]), n)
Reorder(psi, n) == TLCEval([i \in 1..Dim(n) |-> psi[RevIndex(i - 1, n) + 1]])

\* ---- projective measurement of qubit q with outcome b (unnormalised) ------
Project(psi, q, b, n) == TLCEval([i \in 1..Dim(n) |-> IF BitAt(i - 1, q, n) = b THEN psi[i] ELSE RZero])
=============================================================================
