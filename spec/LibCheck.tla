------------------------------ MODULE LibCheck ------------------------------
(***************************************************************************)
(* Self-checks of the specification library (the oracle is checked before   *)
(* it judges the code).  Every check is printed as <<"LC", name, BOOLEAN>>  *)
(* and the harness requires all of them TRUE.                               *)
(***************************************************************************)
EXTENDS Fock, TLC

VARIABLE x
Init == x = 0
Next == x' = x

K == (-M)..(2 * M)
EvenK == {k \in K : k % 2 = 0}

Mat2Mul(a, b) == [r \in 1..2 |-> [c \in 1..2 |-> Add(Mul(a[r][1], b[1][c]), Mul(a[r][2], b[2][c]))]]
Mat2Adj(a)    == [r \in 1..2 |-> [c \in 1..2 |-> Conj(a[c][r])]]
Id2           == << <<ROne, RZero>>, <<RZero, ROne>> >>

Check(name, cond) == PrintT(<<"LC", name, cond>>)

\* ---- ring ------------------------------------------------------------------
ASSUME Check("ring-comm-assoc-distrib",
   \A a, b \in RingSample : /\ Add(a, b) = Add(b, a)
                            /\ Mul(a, b) = Mul(b, a)
                            /\ \A c \in {RI, InvSqrt2, Zeta(1), FromInt(-3)} :
                                   /\ Mul(a, Add(b, c)) = Add(Mul(a, b), Mul(a, c))
                                   /\ Mul(a, Mul(b, c)) = Mul(Mul(a, b), c)
                                   /\ Add(a, Add(b, c)) = Add(Add(a, b), c))
ASSUME Check("zeta-order", Zeta(M) = ROne /\ Zeta(M \div 2) = Neg(ROne) /\ Mul(RI, RI) = Neg(ROne)
                           /\ \A j \in 0..(M-1) : Abs2(Zeta(j)) = ROne /\ Mul(Zeta(j), Zeta(-j)) = ROne)
ASSUME Check("invsqrt2", Mul(InvSqrt2, InvSqrt2) = Half(ROne) /\ IsReal(InvSqrt2))
ASSUME Check("cos2+sin2", \A j \in K : Add(Mul(CosG(j), CosG(j)), Mul(SinG(j), SinG(j))) = ROne
                                      /\ IsReal(CosG(j)) /\ IsReal(SinG(j))
                                      /\ Add(CosG(j), Mul(RI, SinG(j))) = Zeta(j))
ASSUME Check("conj-involution-hom", \A a, b \in RingSample : Conj(Conj(a)) = a /\ Conj(Mul(a, b)) = Mul(Conj(a), Conj(b)))

\* ---- gates -------------------------------------------------------------------
ASSUME Check("1q-unitary",
   /\ \A b \in {"H", "X", "Y", "Z", "S", "T", "SDAG", "TDAG"} : Mat2Mul(Mat2Adj(Mat1(b, 0)), Mat1(b, 0)) = Id2
   /\ \A b \in {"RX", "RY", "RZ"} : \A k \in EvenK : Mat2Mul(Mat2Adj(Mat1(b, k)), Mat1(b, k)) = Id2
   /\ \A k \in K : Mat2Mul(Mat2Adj(Mat1("PHASE", k)), Mat1("PHASE", k)) = Id2)
ASSUME Check("S=PHASE(pi/2),T=PHASE(pi/4)", Mat1("S", 0) = Mat1("PHASE", M \div 4) /\ Mat1("T", 0) = Mat1("PHASE", M \div 8)
                                          /\ Mat2Mul(Mat1("S", 0), Mat1("SDAG", 0)) = Id2 /\ Mat2Mul(Mat1("T", 0), Mat1("TDAG", 0)) = Id2)
ASSUME Check("rot-generators",   \* R_P(theta) = cos(theta/2) 1 - i sin(theta/2) P
   \A k \in EvenK : \A b \in {"X", "Y", "Z"} :
      LET R == Mat1(IF b = "X" THEN "RX" ELSE IF b = "Y" THEN "RY" ELSE "RZ", k)
          P == Mat1(b, 0)
          c == CosG(k \div 2)
          s == Mul(Neg(RI), SinG(k \div 2))
      IN \A r, cc \in 1..2 : R[r][cc] = Add(Mul(c, Id2[r][cc]), Mul(s, P[r][cc])))
ASSUME Check("rot-4pi-periodic-not-2pi", \A b \in {"RX", "RY", "RZ"} :
      /\ Mat1(b, 2 * M) = Id2
      /\ Mat1(b, M) # Id2
      /\ \A r, c \in 1..2 : Mat1(b, M)[r][c] = Neg(Id2[r][c]))
ASSUME Check("2q-unitary-n2",
   \A g \in {G("CNOT", <<1>>, <<0>>, 0), G("CZ", <<0>>, <<1>>, 0), G("CY", <<1>>, <<0>>, 0), G("CH", <<0>>, <<1>>, 0),
             G("SWAP", <<0, 1>>, <<>>, 0), G("XX", <<0, 1>>, <<>>, 2), G("XX", <<1, 0>>, <<>>, -6),
             G("CRZ", <<1>>, <<0>>, 2), G("CRX", <<0>>, <<1>>, 6), G("CRY", <<1>>, <<0>>, M + 2),
             G("CPHASE", <<1>>, <<0>>, 3)} : IsUnitary(UnitaryOf(<<g>>, 2), 4))
ASSUME Check("crz-2pi-is-Z-on-control",
   UnitaryOf(<<G("CRZ", <<1>>, <<0>>, M)>>, 2) = UnitaryOf(<<G("Z", <<0>>, <<>>, 0)>>, 2))
ASSUME Check("crz-not-cphase",
   ~EquivUpToPhase(UnitaryOf(<<G("CRZ", <<1>>, <<0>>, 2)>>, 2), UnitaryOf(<<G("CPHASE", <<1>>, <<0>>, 2)>>, 2), 4))
ASSUME Check("rz~phase-up-to-phase",
   EquivUpToPhase(UnitaryOf(<<G("RZ", <<0>>, <<>>, 2)>>, 1), UnitaryOf(<<G("PHASE", <<0>>, <<>>, 2)>>, 1), 2)
   /\ UnitaryOf(<<G("RZ", <<0>>, <<>>, 2)>>, 1) # UnitaryOf(<<G("PHASE", <<0>>, <<>>, 2)>>, 1))
ASSUME Check("cnot=cx,swap=3cnot",
   /\ UnitaryOf(<<G("CNOT", <<1>>, <<0>>, 0)>>, 2) = UnitaryOf(<<G("CX", <<1>>, <<0>>, 0)>>, 2)
   /\ UnitaryOf(<<G("SWAP", <<0, 1>>, <<>>, 0)>>, 2)
        = UnitaryOf(<<G("CNOT", <<1>>, <<0>>, 0), G("CNOT", <<0>>, <<1>>, 0), G("CNOT", <<1>>, <<0>>, 0)>>, 2))
ASSUME Check("toffoli-cswap-n3",
   /\ IsUnitary(UnitaryOf(<<G("CNOT", <<2>>, <<0, 1>>, 0)>>, 3), 8)
   /\ UnitaryOf(<<G("CSWAP", <<1, 2>>, <<0>>, 0)>>, 3)[7] = Basis(5, 3)      \* |110> -> |101>
   /\ UnitaryOf(<<G("CSWAP", <<1, 2>>, <<0>>, 0)>>, 3)[3] = Basis(2, 3))     \* control 0: unchanged
ASSUME Check("reorder-involution", \A i0 \in 0..7 : RevIndex(RevIndex(i0, 3), 3) = i0)

\* ---- Pauli algebra ---------------------------------------------------------
W1(l) == <<l>>
ASSUME Check("pauli-1q-products-vs-matrices",
   \A a, b \in 0..3 :
      LET r  == MulWord(W1(a), W1(b), 1)
          nm == [l \in 0..3 |-> IF l = 0 THEN Id2 ELSE Mat1(IF l = 1 THEN "X" ELSE IF l = 2 THEN "Y" ELSE "Z", 0)]
          pr == Mat2Mul(nm[a], nm[b])
      IN \A rr, cc \in 1..2 : pr[rr][cc] = Mul(IPow(r.p), nm[r.w[1]][rr][cc]))
ASSUME Check("pauli-symplectic-iff-commute",
   \A a, b \in AllWords(2) : CommuteWords(a, b, 2) <=> OpIsZero(OpCommutator(OpWord(a), OpWord(b), 2)))
ASSUME Check("pauli-product-adjoint",
   \A a, b \in AllWords(2) :
      LET A == OpScale(RI, OpWord(a))
          B == OpAdd(OpWord(b), OpScale(Half(ROne), OpWord(<<3, 3>>)))
      IN OpEq(OpAdj(OpMul(A, B, 2)), OpMul(OpAdj(B), OpAdj(A), 2)))
ASSUME Check("pauli-matrix-hom",      \* matrix of a product = product of matrices (n = 2, sampled words)
   \A a \in {<<1, 2>>, <<3, 0>>, <<2, 2>>} : \A b \in {<<2, 1>>, <<0, 3>>, <<1, 1>>} :
      LET A == OpMatrix(OpWord(a), 2)
          B == OpMatrix(OpWord(b), 2)
          P == OpMatrix(OpMul(OpWord(a), OpWord(b), 2), 2)
      IN \A col, row \in 1..4 : P[col][row] = SumRing([k \in 1..4 |-> Mul(A[k][row], B[col][k])], 4))
ASSUME Check("pauli-word-vs-gates",   \* ActWord agrees with the X, Y, Z gates of module Gates
   \A w \in AllWords(2) : \A x0 \in 0..3 :
      LET gs == [q \in 1..2 |-> G(IF w[q] = 1 THEN "X" ELSE IF w[q] = 2 THEN "Y" ELSE IF w[q] = 3 THEN "Z" ELSE "PHASE", <<q - 1>>, <<>>, 0)]
          v  == Run(Basis(x0, 2), gs, 2)
          r  == ActWord(w, x0, 2)
      IN v = [i \in 1..4 |-> IF i = r.y + 1 THEN IPow(r.p) ELSE RZero])
ASSUME Check("expect-vs-apply",
   LET psi == Run(ZeroState(2), <<G("H", <<0>>, <<>>, 0), G("T", <<0>>, <<>>, 0), G("CNOT", <<1>>, <<0>>, 0), G("RY", <<1>>, <<>>, 2)>>, 2)
   IN \A w \in AllWords(2) : ExpectWord(w, psi, 2) = Inner(psi, ApplyOp(OpWord(w), psi, 2), 4))

\* ---- Fock space -------------------------------------------------------------
FN == 4
LadderOp(p, dag) == <<FTerm(<< <<p, dag>> >>, ROne)>>
ASSUME Check("fock-CAR",    \* {a_p, a+_q} = delta_pq, {a_p, a_q} = 0 on every determinant
   \A p, q \in 0..(FN-1) : \A D \in Dets(FN) :
      /\ VAdd(VApplyOp(LadderOp(p, 0), VApplyOp(LadderOp(q, 1), VDet(D))),
              VApplyOp(LadderOp(q, 1), VApplyOp(LadderOp(p, 0), VDet(D)))) = (IF p = q THEN VDet(D) ELSE VZero)
      /\ VAdd(VApplyOp(LadderOp(p, 0), VApplyOp(LadderOp(q, 0), VDet(D))),
              VApplyOp(LadderOp(q, 0), VApplyOp(LadderOp(p, 0), VDet(D)))) = VZero)
ASSUME Check("fock-term-right-to-left",
   /\ ApplyTerm(<< <<0, 1>>, <<1, 0>> >>, {1}) = [z |-> FALSE, s |-> 1, d |-> {0}]
   /\ ApplyTerm(<< <<1, 1>>, <<0, 0>> >>, {0}) = [z |-> FALSE, s |-> 1, d |-> {1}]
   /\ ApplyTerm(<< <<2, 1>>, <<0, 0>> >>, {0, 1}) = [z |-> FALSE, s |-> -1, d |-> {1, 2}])
ASSUME Check("fock-N-Sz-eigen",
   \A utd \in BOOLEAN : \A D \in Dets(FN) :
      /\ VApplyOp(SpecN(FN), VDet(D)) = VScale(FromInt(Cardinality(D)), VDet(D))
      /\ VApplyOp(SpecSz(FN, utd), VDet(D)) = VScale(Dyadic(NAlpha(D, FN, utd) - NBeta(D, FN, utd), 1), VDet(D)))
ASSUME Check("fock-S2-on-closed-shell-and-high-spin",
   \A utd \in BOOLEAN :
      /\ SpecS2Apply(VDet({SO(0, 0, FN, utd), SO(0, 1, FN, utd)}), FN, utd) = VZero                               \* singlet
      /\ LET t == VDet({SO(0, 0, FN, utd), SO(1, 0, FN, utd)}) IN SpecS2Apply(t, FN, utd) = VScale(FromInt(2), t)  \* triplet s(s+1)=2
      /\ LET dd == VDet({SO(0, 0, FN, utd)}) IN SpecS2Apply(dd, FN, utd) = VScale(Dyadic(3, 2), dd))               \* doublet 3/4
ASSUME Check("jw-CAR",
   \A p, q \in 0..2 :
      /\ OpEq(OpAntiCommutator(JWLadder(p, 0, 3), JWLadder(q, 1, 3), 3), IF p = q THEN OpIdentity(3) ELSE OpZero)
      /\ OpIsZero(OpAntiCommutator(JWLadder(p, 0, 3), JWLadder(q, 0, 3), 3))
      /\ OpEq(OpAdj(JWLadder(p, 0, 3)), JWLadder(p, 1, 3)))
ASSUME Check("jw-matches-fock",   \* <X| a+_p a_q |Y> (Fock) = <enc X| JW(a+_p) JW(a_q) |enc Y>
   \A p, q \in 0..2 : \A X, Y \in Dets(3) :
      FOpElement(<<FTerm(<< <<p, 1>>, <<q, 0>> >>, ROne)>>, X, Y)
        = OpElement(OpMul(JWLadder(p, 1, 3), JWLadder(q, 0, 3), 3), DetIndex(X, 3), DetIndex(Y, 3), 3))
=============================================================================
