------------------------------- MODULE Pauli -------------------------------
(***************************************************************************)
(* Exact Pauli algebra over the ring R_M.                                   *)
(*                                                                         *)
(* A Pauli word on n qubits is a sequence of n letters 0=I 1=X 2=Y 3=Z.     *)
(* An operator is a function  word |-> coefficient (ring element)  whose    *)
(* domain is a finite set of words.  Products carry the phases i^p of the   *)
(* single-qubit products XY = iZ, YZ = iX, ZX = iY.                          *)
(***************************************************************************)
EXTENDS Gates, FiniteSetsExt

\* LetterMul[a+1][b+1] = <<letter, p>>  with  sigma_a sigma_b = i^p sigma_letter
LetterMul ==
  << << <<0,0>>, <<1,0>>, <<2,0>>, <<3,0>> >>,
     << <<1,0>>, <<0,0>>, <<3,1>>, <<2,3>> >>,
     << <<2,0>>, <<3,3>>, <<0,0>>, <<1,1>> >>,
     << <<3,0>>, <<2,1>>, <<1,3>>, <<0,0>> >> >>

IPow(p) == Zeta((p % 4) * (M \div 4))

IdWord(n) == TLCEval([q \in 1..n |-> 0])

\* a * b = i^p * w
MulWord(a, b, n) ==
  [w |-> TLCEval([q \in 1..n |-> LetterMul[a[q]+1][b[q]+1][1]]),
   p |-> SumSeq(TLCEval([q \in 1..n |-> LetterMul[a[q]+1][b[q]+1][2]]), n) % 4]

\* symplectic test: the words commute iff they differ on an even number of
\* positions where both are non-identity
AntiPositions(a, b, n) == {q \in 1..n : a[q] # 0 /\ b[q] # 0 /\ a[q] # b[q]}
CommuteWords(a, b, n) == Cardinality(AntiPositions(a, b, n)) % 2 = 0
QubitwiseCommute(a, b, n) == AntiPositions(a, b, n) = {}

Support(w, n) == {q \in 1..n : w[q] # 0}

\* ---- operators ------------------------------------------------------------
OpZero == TLCEval([w \in {} |-> RZero])
OpClean(A) == LET D == {w \in DOMAIN A : A[w] # RZero} IN TLCEval([w \in D |-> A[w]])
OpEq(A, B) == OpClean(A) = OpClean(B)
OpIsZero(A) == \A w \in DOMAIN A : A[w] = RZero
Coef(A, w) == IF w \in DOMAIN A THEN A[w] ELSE RZero

\* terms: sequence of [w |-> word, c |-> ring element]; duplicates are summed
OpFromTerms(terms) ==
  LET W == {terms[i].w : i \in 1..Len(terms)}
  IN OpClean(TLCEval([w \in W |-> FoldSet(LAMBDA i, acc : Add(acc, terms[i].c), RZero,
                                   {i \in 1..Len(terms) : terms[i].w = w})]))

OpWord(w)      == TLCEval([v \in {w} |-> ROne])
OpScale(z, A)  == OpClean(TLCEval([w \in DOMAIN A |-> Mul(z, A[w])]))
OpNeg(A)       == TLCEval([w \in DOMAIN A |-> Neg(A[w])])
OpAdd(A, B)    == OpClean(TLCEval([w \in (DOMAIN A) \cup (DOMAIN B) |-> Add(Coef(A, w), Coef(B, w))]))
OpSub(A, B)    == OpAdd(A, OpNeg(B))
\* Pauli words are Hermitian: the adjoint conjugates the coefficients
OpAdj(A)       == TLCEval([w \in DOMAIN A |-> Conj(A[w])])
OpIsHermitian(A) == \A w \in DOMAIN A : IsReal(A[w])

OpMul(A, B, n) ==
  LET W == {MulWord(a, b, n).w : a \in DOMAIN A, b \in DOMAIN B}
  IN OpClean(TLCEval([w \in W |->
       FoldSet(LAMBDA a, acc :
                 LET b == MulWord(a, w, n).w IN      \* a * w is proportional to the unique b with a * b ~ w
                 IF b \in DOMAIN B
                 THEN Add(acc, Mul(Mul(A[a], B[b]), IPow(MulWord(a, b, n).p)))
                 ELSE acc,
               RZero, DOMAIN A)]))

OpCommutator(A, B, n)     == OpSub(OpMul(A, B, n), OpMul(B, A, n))
OpAntiCommutator(A, B, n) == OpAdd(OpMul(A, B, n), OpMul(B, A, n))
OpIdentity(n) == OpWord(IdWord(n))

RECURSIVE OpPower(_, _, _)
OpPower(A, e, n) == IF e = 0 THEN OpIdentity(n) ELSE OpMul(A, OpPower(A, e - 1, n), n)

\* ---- action on computational basis states --------------------------------
\* w |x> = i^p |y>;  x, y are 0-based amplitude indices (qubit 0 most significant)
ActWord(w, x0, n) ==
  [y |-> x0 + SumSeq(TLCEval([q \in 1..n |->
             IF w[q] \in {1, 2} THEN (1 - 2 * BitAt(x0, q - 1, n)) * Pow2(n - q) ELSE 0]), n),
   p |-> SumSeq(TLCEval([q \in 1..n |->
             LET b == BitAt(x0, q - 1, n) IN
             CASE w[q] = 0 -> 0
               [] w[q] = 1 -> 0
               [] w[q] = 2 -> 1 + 2 * b
               [] w[q] = 3 -> 2 * b]), n) % 4]

\* <x| w |y>
WordElement(w, x0, y0, n) == LET r == ActWord(w, y0, n) IN IF r.y = x0 THEN IPow(r.p) ELSE RZero

\* <x| A |y>
OpElement(A, x0, y0, n) ==
  FoldSet(LAMBDA w, acc : Add(acc, Mul(A[w], WordElement(w, x0, y0, n))), RZero, DOMAIN A)

\* <x| A |x> on a basis state: only I/Z words contribute
OpExpectBasis(A, x0, n) == OpElement(A, x0, x0, n)

\* <psi| w |psi> for an exact statevector
ExpectWord(w, psi, n) ==
  SumRing(TLCEval([i \in 1..Dim(n) |->
             LET r == ActWord(w, i - 1, n) IN
             Mul(Conj(psi[r.y + 1]), Mul(IPow(r.p), psi[i]))]), Dim(n))

ExpectOp(A, psi, n) ==
  FoldSet(LAMBDA w, acc : Add(acc, Mul(A[w], ExpectWord(w, psi, n))), RZero, DOMAIN A)

\* A |psi>
ApplyOp(A, psi, n) ==
  TLCEval([x \in 1..Dim(n) |->
     FoldSet(LAMBDA w, acc :
               \* the y with w|y> ~ |x> is y = flips(x)
               LET y0 == ActWord(w, x - 1, n).y
                   r  == ActWord(w, y0, n)
               IN Add(acc, Mul(Mul(A[w], IPow(r.p)), psi[y0 + 1])),
             RZero, DOMAIN A)])

\* dense matrix (columns) of an operator; Mat[col][row]
OpMatrix(A, n) == TLCEval([col \in 1..Dim(n) |-> TLCEval([row \in 1..Dim(n) |-> OpElement(A, row - 1, col - 1, n)])])

AllWords(n) == [1..n -> 0..3]
=============================================================================
