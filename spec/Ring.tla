------------------------------- MODULE Ring -------------------------------
(***************************************************************************)
(* Exact arithmetic in R_M = Z[zeta_M][1/2], zeta_M = exp(2 pi i / M), M a  *)
(* power of two >= 4.  An element is  (SUM_j c[j+1] * zeta^j) / 2^k  with    *)
(* j = 0 .. M/2-1 (zeta^(M/2) = -1) and is kept in the unique reduced form  *)
(* (k minimal).  Every gate matrix of the supported gate set at angles that *)
(* are multiples of 2 pi / M has entries in this ring, so statevectors,     *)
(* unitaries, density matrices, probabilities and Pauli coefficients are    *)
(* evaluated by TLC without rounding and equality is decidable.             *)
(***************************************************************************)
EXTENDS Integers, Sequences, TLC

CONSTANT M          \* 4, 8, 16, 32, ...

HM == M \div 2

RECURSIVE SumSeq(_, _)
SumSeq(s, n) == IF n = 0 THEN 0 ELSE s[n] + SumSeq(s, n - 1)

RECURSIVE Pow2(_)
Pow2(n) == IF n = 0 THEN 1 ELSE 2 * Pow2(n - 1)

AllEven(c) == \A j \in 1..HM : c[j] % 2 = 0
AllZero(c) == \A j \in 1..HM : c[j] = 0

RECURSIVE Norm(_)
Norm(x) == IF AllZero(x.c) THEN [c |-> x.c, k |-> 0]
           ELSE IF x.k > 0 /\ AllEven(x.c)
                THEN Norm([c |-> TLCEval([j \in 1..HM |-> x.c[j] \div 2]), k |-> x.k - 1])
                ELSE x

RZero == [c |-> TLCEval([j \in 1..HM |-> 0]), k |-> 0]
ROne  == [c |-> TLCEval([j \in 1..HM |-> IF j = 1 THEN 1 ELSE 0]), k |-> 0]
FromInt(n) == [c |-> TLCEval([j \in 1..HM |-> IF j = 1 THEN n ELSE 0]), k |-> 0]
\* n / 2^k
Dyadic(n, k) == Norm([c |-> TLCEval([j \in 1..HM |-> IF j = 1 THEN n ELSE 0]), k |-> k])

\* zeta^j for any integer j
Zeta(j) == LET jm == j % M IN
           [c |-> TLCEval([p \in 1..HM |-> IF jm < HM THEN (IF p = jm + 1 THEN 1 ELSE 0)
                                              ELSE (IF p = jm - HM + 1 THEN -1 ELSE 0)]),
            k |-> 0]

RI == Zeta(M \div 4)             \* the imaginary unit

Neg(a) == [c |-> TLCEval([j \in 1..HM |-> -a.c[j]]), k |-> a.k]

Add(a, b) ==
  IF a = RZero THEN b ELSE IF b = RZero THEN a ELSE
  LET K  == IF a.k >= b.k THEN a.k ELSE b.k
      fa == Pow2(K - a.k)
      fb == Pow2(K - b.k)
  IN Norm([c |-> TLCEval([j \in 1..HM |-> a.c[j] * fa + b.c[j] * fb]), k |-> K])

Sub(a, b) == Add(a, Neg(b))

\* negacyclic convolution
MulC(a, b, j0) ==
  SumSeq(TLCEval([p \in 1..HM |-> LET p0 == p - 1 IN
            IF a[p] = 0 THEN 0
            ELSE IF p0 <= j0 THEN a[p] * b[j0 - p0 + 1]
                             ELSE -(a[p] * b[j0 - p0 + HM + 1])]), HM)

Mul(a, b) ==
  IF a = RZero \/ b = RZero THEN RZero
  ELSE IF a = ROne THEN b ELSE IF b = ROne THEN a
  ELSE Norm([c |-> TLCEval([j \in 1..HM |-> MulC(a.c, b.c, j - 1)]), k |-> a.k + b.k])

\* complex conjugate: conj(zeta^j) = -zeta^(M/2-j)
Conj(a) == [c |-> TLCEval([j \in 1..HM |-> IF j = 1 THEN a.c[1] ELSE -a.c[HM - j + 2]]), k |-> a.k]

Half(a) == Norm([c |-> a.c, k |-> a.k + 1])

IsReal(a) == Conj(a) = a
IsZero(a) == a = RZero
Abs2(a)   == Mul(a, Conj(a))

\* 1/sqrt(2) = (zeta_8 - zeta_8^3)/2   (needs M >= 8)
InvSqrt2 == Half(Sub(Zeta(M \div 8), Zeta(3 * (M \div 8))))

\* cos and sin of the angle 2 pi j / M
CosG(j) == Half(Add(Zeta(j), Zeta(-j)))
\* sin = (z - z^-1)/(2i) = -i (z - z^-1)/2
SinG(j) == Mul(Neg(RI), Half(Sub(Zeta(j), Zeta(-j))))

RECURSIVE SumRing(_, _)
SumRing(s, n) == IF n = 0 THEN RZero ELSE Add(s[n], SumRing(s, n - 1))

\* a finite, TLC-enumerable sample of the ring used by self-checks
RingSample == { Zeta(j) : j \in 0..(M-1) } \cup { RZero, InvSqrt2, Half(ROne), FromInt(2),
                Add(ROne, RI), Half(Add(ROne, Zeta(1))), FromInt(-3) }
=============================================================================
