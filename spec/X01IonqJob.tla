----------------------------- MODULE X01IonqJob -----------------------------
(***************************************************************************)
(* Extension beyond the listed properties: the job life-cycle of           *)
(* tangelo.linq.qpu_connection.IonQConnection (submit / status / blocking   *)
(* results / cancel) against a remote REST service.                          *)
(*                                                                         *)
(* Two processes: the SERVER moves a job through                              *)
(*   none -> submitted -> ready -> running -> completed | failed            *)
(* (any non-terminal state -> canceled on a DELETE), and may answer any      *)
(* request with an error document; the CLIENT submits, then runs the         *)
(* blocking job_results loop: GET status; completed with data -> return the *)
(* histogram (keys re-encoded: IonQ's integer key has qubit 0 as least       *)
(* significant bit; Tangelo bitstrings list qubit 0 first); submitted /      *)
(* ready / running -> sleep and poll again; anything else -> raise.          *)
(* One action per REST round trip / critical step; the interleaving of       *)
(* ServerAdvance with Poll is what TLC explores.                             *)
(*                                                                         *)
(* Deliberate deviation kept as the code has it: a `completed` answer that   *)
(* does not yet carry `data` is treated as unexpected (raise), not polled.   *)
(***************************************************************************)
EXTENDS Naturals, Sequences, FiniteSets, TLC, Json

CONSTANTS MaxPolls,      \* bound on the number of status requests in a behaviour
          NQ,            \* register size of the job
          HistKeys       \* set of integer keys the server may report (subset of 0..2^NQ-1)

VARIABLES server,        \* job status on the server
          withData,      \* does a completed answer carry the histogram
          errNext,       \* the next answer is an error document
          client,        \* "idle" | "submitted" | "waiting" | "returned" | "raised" | "cancelled"
          polls,         \* status requests issued by job_results
          sleeps,        \* sleeps performed by job_results
          result,        \* histogram returned to the caller (set of bit sequences), or {}
          obs            \* sequence of answers observed by the client (history variable, exported)

vars == <<server, withData, errNext, client, polls, sleeps, result, obs>>

NonTerminal == {"submitted", "ready", "running"}
Terminal    == {"completed", "failed", "canceled"}

\* IonQ integer key -> Tangelo bitstring (qubit 0 first): bit q of the integer is qubit q
Decode(k) == [q \in 1..NQ |-> (k \div (2 ^ (q - 1))) % 2]

Init == /\ server = "none" /\ withData \in BOOLEAN /\ errNext = FALSE
        /\ client = "idle" /\ polls = 0 /\ sleeps = 0 /\ result = {} /\ obs = <<>>

\* ---- client ---------------------------------------------------------------
Submit ==
  /\ client = "idle" /\ server = "none"
  /\ IF errNext THEN /\ client' = "raised" /\ server' = server /\ obs' = Append(obs, "error")
                ELSE /\ client' = "submitted" /\ server' = "submitted" /\ obs' = Append(obs, "submitted")
  /\ errNext' = FALSE
  /\ UNCHANGED <<withData, polls, sleeps, result>>

StartResults ==
  /\ client = "submitted"
  /\ client' = "waiting"
  /\ UNCHANGED <<server, withData, errNext, polls, sleeps, result, obs>>

\* one iteration of the blocking loop: a status request and the reaction to its answer
Poll ==
  /\ client = "waiting" /\ polls < MaxPolls
  /\ polls' = polls + 1
  /\ errNext' = FALSE
  /\ IF errNext THEN
          /\ client' = "raised" /\ obs' = Append(obs, "error") /\ UNCHANGED <<sleeps, result>>
     ELSE IF server = "completed" /\ withData THEN
          /\ client' = "returned" /\ result' = {Decode(k) : k \in HistKeys}
          /\ obs' = Append(obs, "completed+data") /\ UNCHANGED sleeps
     ELSE IF server \in NonTerminal THEN
          /\ client' = "waiting" /\ sleeps' = sleeps + 1
          /\ obs' = Append(obs, server) /\ UNCHANGED result
     ELSE /\ client' = "raised" /\ obs' = Append(obs, server) /\ UNCHANGED <<sleeps, result>>
  /\ UNCHANGED <<server, withData>>

Cancel ==
  /\ client \in {"submitted"} /\ server \in NonTerminal \cup Terminal
  /\ IF errNext THEN client' = "raised" /\ server' = server /\ obs' = Append(obs, "error")
                ELSE client' = "cancelled" /\ server' = "canceled" /\ obs' = Append(obs, "canceled")
  /\ errNext' = FALSE
  /\ UNCHANGED <<withData, polls, sleeps, result>>

\* ---- server ---------------------------------------------------------------
ServerAdvance ==
  /\ server \in NonTerminal
  /\ server' \in (CASE server = "submitted" -> {"ready", "failed"}
                    [] server = "ready"     -> {"running", "failed"}
                    [] server = "running"   -> {"completed", "failed"})
  /\ UNCHANGED <<withData, errNext, client, polls, sleeps, result, obs>>

ServerError ==      \* the next request is answered with {"error": ...}
  /\ ~errNext /\ client \in {"idle", "submitted", "waiting"}
  /\ errNext' = TRUE
  /\ UNCHANGED <<server, withData, client, polls, sleeps, result, obs>>

Next == Submit \/ StartResults \/ Poll \/ Cancel \/ ServerAdvance \/ ServerError

Spec == Init /\ [][Next]_vars /\ WF_vars(Poll) /\ WF_vars(ServerAdvance) /\ WF_vars(StartResults)

\* ---- properties ------------------------------------------------------------
TypeOK == /\ server \in {"none"} \cup NonTerminal \cup Terminal
          /\ client \in {"idle", "submitted", "waiting", "returned", "raised", "cancelled"}
          /\ polls \in 0..MaxPolls /\ sleeps \in 0..MaxPolls

\* results are only ever returned for a completed job, and are exactly the decoded histogram
ReturnOnlyCompleted == client = "returned" => (server = "completed" /\ withData /\ result = {Decode(k) : k \in HistKeys})
\* nothing is returned or raised while the job is still in progress (no early exit), unless the service answered with an error
NoEarlyExit == (client = "raised" /\ server \in NonTerminal) => obs[Len(obs)] = "error"
\* every non-terminal answer costs exactly one sleep; the terminal answer none
SleepAccounting == client \in {"waiting", "returned", "raised"} /\ obs # <<>> /\ obs[Len(obs)] # "error" /\ polls > 0
                     => sleeps = polls - (IF client = "waiting" THEN 0 ELSE 1)
\* decoding is injective and width-preserving
DecodeOK == \A a, b \in HistKeys : (Decode(a) = Decode(b)) => a = b
\* action property: answers observed by the client only grow
ObsGrows == [][Len(obs') >= Len(obs) /\ SubSeq(obs', 1, Len(obs)) = obs]_vars
\* the client loop never blocks: while it is waiting (and the exploration bound is not hit) a poll is possible
PollEnabled == (client = "waiting" /\ polls < MaxPolls) => ENABLED Poll
\* (liveness "the blocking call ends once the server reaches a terminal state" is not checked: the counters polls /
\* sleeps / obs are unbounded history, so the fair state graph is infinite; PollEnabled + NoEarlyExit are its safety core)

\* ---- export of complete behaviours for replay --------------------------------
Done == client \in {"returned", "raised", "cancelled"}
ExportDone == Done => PrintT(<<"BH", ToJson([obs |-> obs, client |-> client, polls |-> polls, sleeps |-> sleeps,
                                             withData |-> withData, result |-> result])>>)
View == <<server, withData, errNext, client, polls, sleeps, result, obs>>
=============================================================================
