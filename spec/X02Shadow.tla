------------------------------ MODULE X02Shadow ------------------------------
(***************************************************************************)
(* Extension beyond the listed properties: classical shadows               *)
(* (tangelo.toolboxes.measurements.classical_shadows).                      *)
(*                                                                         *)
(* State machine: an exact n-qubit stabiliser-type state prepared by a      *)
(* circuit over {H, S, X, CNOT, CZ} (so every Pauli-basis outcome           *)
(* probability is a dyadic rational).  A "complete shadow" measures the      *)
(* state once in each of the 3^n single-qubit Pauli bases; the snapshot      *)
(* estimator of a Pauli word P for basis B and outcome b is                  *)
(*     est(P; B, b) = PROD_{q in supp P} ( 3 (-1)^{b_q} if B_q = P_q else 0 )*)
(* (inverse of the measurement channel, Huang-Kueng-Preskill).  TLC checks  *)
(*   Unbiased:    (1/3^n) SUM_B SUM_b p(b | B) est(P; B, b) = <psi|P|psi>    *)
(*   Matching:    for the derandomised / adaptive estimator, the average of  *)
(*                the parity over the bases that match P on supp P is <P>    *)
(* for every reachable state and every word, and exports, per state, the     *)
(* exact outcome counts (p * 2^n) of every basis, from which the harness     *)
(* builds real shadow objects whose estimates must then be EXACT.            *)
(***************************************************************************)
EXTENDS Pauli, TLC, Json

CONSTANTS N, MaxDepth, Export

VARIABLES psi, hist
vars == <<psi, hist>>

Qubits == 0..(N-1)
Alphabet ==
       { G(nm, <<t>>, <<>>, 0) : nm \in {"H", "S", "X"}, t \in Qubits }
  \cup { g \in { G(nm, <<t>>, <<c>>, 0) : nm \in {"CNOT", "CZ"}, t \in Qubits, c \in Qubits } : g.t[1] # g.c[1] }

\* bases: sequences of letters 1 X, 2 Y, 3 Z, one per qubit
Bases == [1..N -> 1..3]

\* documented measurement-basis change: X -> RY(-pi/2), Y -> RX(+pi/2), Z -> nothing
BasisGates(B) ==
  LET seq(q) == IF B[q] = 1 THEN <<G("RY", <<q - 1>>, <<>>, -(M \div 4))>>
                ELSE IF B[q] = 2 THEN <<G("RX", <<q - 1>>, <<>>, M \div 4)>> ELSE <<>>
      RECURSIVE cat(_)
      cat(q) == IF q > N THEN <<>> ELSE seq(q) \o cat(q + 1)
  IN cat(1)

Rotated(B) == Run(psi, BasisGates(B), N)
ProbsIn(B) == Probs(Rotated(B), Dim(N))          \* exact outcome probabilities, index = bitstring (qubit 0 first)

\* p * 2^N as an integer (stabiliser states: always integral); -1 flags a non-dyadic value
CountOf(p) == LET s == Mul(p, FromInt(Pow2(N))) IN
              IF s.k = 0 /\ (\A j \in 2..HM : s.c[j] = 0) THEN s.c[1] ELSE -1

\* snapshot estimator of word w for basis B and outcome index x0
Est(w, B, x0) ==
  LET f(q) == IF w[q] = 0 THEN 1 ELSE IF w[q] # B[q] THEN 0 ELSE 3 * (1 - 2 * BitAt(x0, q - 1, N))
      RECURSIVE prod(_)
      prod(q) == IF q > N THEN 1 ELSE f(q) * prod(q + 1)
  IN prod(1)

Matches(w, B) == \A q \in 1..N : w[q] = 0 \/ w[q] = B[q]
Parity(w, x0) == LET RECURSIVE pr(_)
                     pr(q) == IF q > N THEN 1 ELSE (IF w[q] # 0 THEN (1 - 2 * BitAt(x0, q - 1, N)) ELSE 1) * pr(q + 1)
                 IN pr(1)

\* SUM_B SUM_b count(b|B) est  =  3^N 2^N <P>
UnbiasedFor(w) ==
  LET total == FoldSet(LAMBDA B, acc :
                   LET pr == ProbsIn(B) IN
                   acc + SumSeq(TLCEval([i \in 1..Dim(N) |-> CountOf(pr[i]) * Est(w, B, i - 1)]), Dim(N)),
                 0, Bases)
  IN FromInt(total) = Mul(FromInt((3 ^ N) * Pow2(N)), ExpectWord(w, psi, N))

MatchingFor(w) ==
  \A B \in {b \in Bases : Matches(w, b)} :
     LET pr == ProbsIn(B) IN
     FromInt(SumSeq(TLCEval([i \in 1..Dim(N) |-> CountOf(pr[i]) * Parity(w, i - 1)]), Dim(N)))
       = Mul(FromInt(Pow2(N)), ExpectWord(w, psi, N))

AllDyadic == \A B \in Bases : \A i \in 1..Dim(N) : CountOf(ProbsIn(B)[i]) >= 0
Unbiased == \A w \in AllWords(N) : UnbiasedFor(w)
Matching == \A w \in AllWords(N) : MatchingFor(w)

Init == psi = ZeroState(N) /\ hist = <<>>
Step(g) == /\ Len(hist) < MaxDepth
           /\ psi' = ApplyGate(psi, g, N)
           /\ hist' = Append(hist, g)
Next == \E g \in Alphabet : Step(g)

BasisRecord(B) == [b |-> B, counts |-> TLCEval([i \in 1..Dim(N) |-> CountOf(ProbsIn(B)[i])])]
ExportState ==
  Export => PrintT(<<"ST", ToJson([n |-> N, gates |-> hist,
                                   bases |-> {BasisRecord(B) : B \in Bases},
                                   exp |-> {[w |-> w, e |-> ExpectWord(w, psi, N)] : w \in AllWords(N)}])>>)
View == psi
=============================================================================
