----------------------------- MODULE X03AdaptLoop -----------------------------
(***************************************************************************)
(* Extension beyond the listed properties: the control loop of              *)
(* tangelo.algorithms.variational.ADAPTSolver.simulate().                    *)
(*                                                                         *)
(* Each cycle: measure the pool gradients of the current state, pick the    *)
(* operator with the largest gradient; if that gradient is >= tol, append    *)
(* the operator (one new parameter initialised at 0, earlier parameters      *)
(* kept), re-optimise, record the energy; otherwise declare convergence.     *)
(* At most MaxCycles cycles.  Gradients are an environment input: TLC        *)
(* explores every gradient vector over a small integer grid (ties, values    *)
(* exactly at the tolerance, all below it), i.e. every control path.         *)
(***************************************************************************)
EXTENDS Naturals, Sequences, FiniteSets, TLC, Json

CONSTANTS PoolSize, MaxCycles, Tol, GradValues, Export

VARIABLES iter, ops, nparams, nenergies, converged, done, script
vars == <<iter, ops, nparams, nenergies, converged, done, script>>

GradVecs == [1..PoolSize -> GradValues]
MaxOf(g) == CHOOSE m \in {g[i] : i \in 1..PoolSize} : \A i \in 1..PoolSize : g[i] <= m
ArgMax(g) == {i \in 1..PoolSize : g[i] = MaxOf(g)}

Init == iter = 0 /\ ops = <<>> /\ nparams = 0 /\ nenergies = 0 /\ converged = FALSE /\ done = FALSE /\ script = <<>>

\* one ADAPT cycle with measured gradients g
Cycle(g) ==
  /\ ~done /\ iter < MaxCycles
  /\ iter' = iter + 1
  /\ script' = Append(script, g)
  /\ IF MaxOf(g) >= Tol
     THEN /\ \E i \in ArgMax(g) : ops' = Append(ops, i)       \* any maximiser is acceptable
          /\ nparams' = nparams + 1
          /\ nenergies' = nenergies + 1
          /\ UNCHANGED <<converged, done>>
     ELSE /\ converged' = TRUE /\ done' = TRUE
          \* a reference state that is converged from the start still yields an energy (the one of the reference state)
          /\ nenergies' = IF ops = <<>> THEN 1 ELSE nenergies
          /\ UNCHANGED <<ops, nparams>>

Exhaust == /\ ~done /\ iter = MaxCycles
           /\ done' = TRUE
           /\ UNCHANGED <<iter, ops, nparams, nenergies, converged, script>>

Next == (\E g \in GradVecs : Cycle(g)) \/ Exhaust

TypeOK == iter \in 0..MaxCycles /\ Len(ops) <= MaxCycles
\* one parameter and one energy per appended operator
Bookkeeping == nparams = Len(ops) /\ nenergies = (IF done /\ converged /\ ops = <<>> THEN 1 ELSE Len(ops))
\* a finished run always has an energy to return
ReturnsEnergy == done => nenergies >= 1
\* every appended operator was a maximiser of the gradients measured in its cycle, with gradient >= Tol
ChosenAreMax == \A j \in 1..Len(ops) : ops[j] \in ArgMax(script[j]) /\ script[j][ops[j]] >= Tol
\* convergence is declared only when every gradient of the last cycle is below the tolerance
ConvergedMeansSmall == converged => (\A i \in 1..PoolSize : script[Len(script)][i] < Tol) /\ Len(script) = Len(ops) + 1
\* without convergence every cycle appended an operator
NotConverged == ~converged => Len(script) = Len(ops)
\* the loop stops exactly at convergence or at the cycle limit
StopRule == done => (converged \/ iter = MaxCycles)
OpsGrow == [][Len(ops') >= Len(ops) /\ SubSeq(ops', 1, Len(ops)) = ops]_vars

ExportDone == (Export /\ done) => PrintT(<<"BH", ToJson([script |-> script, ops |-> ops, converged |-> converged, iter |-> iter, nenergies |-> nenergies])>>)
View == <<iter, ops, converged, done, script>>
=============================================================================
