------------------------- MODULE X04BackendProtocol -------------------------
(***************************************************************************)
(* Extension beyond the listed properties: the option protocol of a         *)
(* tangelo.linq Backend object (tangelo/linq/simulator.py get_backend,       *)
(* tangelo/linq/target/backend.py Backend.__init__ / simulate /              *)
(* get_expectation_value, and the simulate_circuit of the built-in cirq and  *)
(* sympy targets as far as it decides *whether* and *what kind of* result    *)
(* comes back).                                                              *)
(*                                                                         *)
(* The module is a transcription of the decision procedure - one operator    *)
(* per decision point of the code, in the order the code takes them - plus   *)
(* the object machine around it (Create, SetShots, Simulate, Expect; the     *)
(* only state a call leaves behind is the sticky mid_circuit_meas_freqs      *)
(* attribute).  It is written to be bound: every transition TLC explores is  *)
(* exported with the expected outcome record and replayed on a real Backend  *)
(* object (built-in cirq / sympy and user-defined Backend subclasses with    *)
(* every capability-flag combination, the documented extension point of      *)
(* get_backend).                                                             *)
(*                                                                         *)
(* n_shots = None is written 0 here (TLC cannot mix strings and integers in  *)
(* one set; n_shots = 0 itself is only meaningful to the constructor, which  *)
(* treats it like None, and is not modelled separately).                     *)
(***************************************************************************)
EXTENDS Naturals, Sequences, FiniteSets, TLC, Json

CONSTANTS Kinds,        \* backend kinds to explore
          MaxCalls,     \* calls per object history
          Export        \* print transitions for replay

VARIABLES phase,        \* "new" | "live" | "dead" (constructor raised)
          kind, shots, noise,
          midset,       \* the object carries a mid_circuit_meas_freqs attribute
          ncalls,
          last          \* outcome record of the last action (exported; hidden by VIEW)

vars == <<phase, kind, shots, noise, midset, ncalls, last>>

\* ---- capability flags (backend_info) ----------------------------------------
SvAvail(k) == k \in {"cirq", "sympy", "u_tf", "u_tt"}
Noisy(k)   == k \in {"cirq", "u_ft", "u_tt"}
CirqLike(k) == k # "sympy"                 \* user backends wrap the cirq target's simulate_circuit
HasPreparedStateShortcut(k) == k \in {"cirq", "sympy"}     \* expectation_value_from_prepared_state

ShotVals == {0, 1, 3}

\* ---- circuit classes -------------------------------------------------------------
Circs == {"W0", "E2", "U2", "M1", "M2", "CM"}
Width(c)  == IF c = "W0" THEN 0 ELSE 2
Size(c)   == IF c \in {"W0", "E2"} THEN 0 ELSE 1
NMeas(c)  == CASE c = "M1" -> 1 [] c = "M2" -> 2 [] OTHER -> 0
NCMeas(c) == IF c = "CM" THEN 1 ELSE 0
Mixed(c)  == NMeas(c) + NCMeas(c) > 0
\* appending measurement-basis gates to a circuit: an empty circuit becomes a unitary one of width 2
Plus(c)   == IF c \in {"W0", "E2"} THEN "U2" ELSE c

\* ---- desired_meas_result values ------------------------------------------------
Dess == {"none", "len0", "len1", "len2", "nonstr"}
DesLen(d) == CASE d = "len0" -> 0 [] d = "len1" -> 1 [] d = "len2" -> 2 [] OTHER -> 99
Truthy(d) == d \in {"len1", "len2"}        \* Python truthiness of the string ("" and None are falsy)

\* ---- outcome records ---------------------------------------------------------------
\* cls: "ok" or the exception class; tag: which decision raised (diagnostic, compared when the driver recognises it)
\* sv: "none" | "vector" | "matrix"; mid: mid_circuit_meas_freqs set by this call; midlen: its key length (9 = unspecified)
\* norm: frequencies sum to 1; grid: frequencies are multiples of 1 / n_shots
Err(c, t) == [cls |-> c, tag |-> t, sv |-> "none", mid |-> FALSE, midlen |-> 9, norm |-> FALSE, grid |-> FALSE]
Ok(svk, m, ml, nrm, grd) == [cls |-> "ok", tag |-> "ok", sv |-> svk, mid |-> m, midlen |-> ml, norm |-> nrm, grid |-> grd]

\* ---- Backend.__init__ ------------------------------------------------------------------
CreateOutcome(k, s, nz) ==
  IF nz /\ ~Noisy(k) THEN Err("ValueError", "noise-unsupported")
  ELSE IF s = 0 /\ (~SvAvail(k) \/ nz) THEN Err("ValueError", "shots-needed")
  ELSE Ok("none", FALSE, 9, TRUE, TRUE)

\* ---- target-specific simulate_circuit (only what decides class / kind of the result) ----
SympyCircuit(s, c, rsv, isv, des, smidEff) ==
  IF NCMeas(c) > 0 THEN Err("NotImplementedError", "sympy-cmeasure")
  ELSE IF smidEff THEN Err("NotImplementedError", "sympy-midcircuit")
  ELSE IF NMeas(c) > 0 THEN Err("ValueError", "unsupported-gate")        \* translator refuses MEASURE
  ELSE Ok(IF rsv THEN "vector" ELSE "none", FALSE, 9, TRUE, FALSE)        \* symbolic: exact probabilities, shots ignored

CirqCircuit(k, s, nz, c, rsv, isv, des, smidEff) ==
  IF nz /\ NCMeas(c) > 0 THEN Err("NotImplementedError", "cirq-noise-cmeasure")
  ELSE LET dm  == nz \/ (Mixed(c) /\ ~smidEff)       \* density-matrix state
           svk == IF ~rsv \/ ~SvAvail(k) THEN "none" ELSE IF dm THEN "matrix" ELSE "vector"
           \* post-selection on desired_meas_result with a shot count may keep no shot at all
           nrm == ~(des # "none" /\ s # 0 /\ Mixed(c))
           grd == s # 0 /\ des = "none"
       IN Ok(svk, smidEff, IF NCMeas(c) > 0 THEN 9 ELSE NMeas(c), nrm, grd)

\* ---- Backend.simulate -------------------------------------------------------------------------
Sim(k, s, nz, c, rsv, isv, des, smid) ==
  LET smid1   == smid \/ NCMeas(c) > 0
      smidEff == smid1 \/ des # "none"
  IN
  IF des # "none" /\ (des = "nonstr" \/ (DesLen(des) # NMeas(c) /\ NCMeas(c) = 0)) THEN Err("ValueError", "desired")
  ELSE IF des = "none" /\ smid1 /\ rsv /\ s # 1 THEN Err("ValueError", "mixed-statevector")
  ELSE IF des = "none" /\ ~(smid1 /\ rsv) /\ Mixed(c) /\ s = 0 THEN Err("ValueError", "shots-needed-mixed")
  ELSE IF Width(c) = 0 THEN Err("ValueError", "width0")
  ELSE IF Size(c) = 0 /\ ~nz THEN       \* identity shortcut: nothing simulated, nothing sampled, nothing saved
       Ok(IF rsv THEN "vector" ELSE "none", FALSE, 9, TRUE, (s # 0 /\ ~isv))
  ELSE IF k = "sympy" THEN SympyCircuit(s, c, rsv, isv, des, smidEff)
  ELSE CirqCircuit(k, s, nz, c, rsv, isv, des, smidEff)

\* ---- Backend.get_expectation_value --------------------------------------------------------
Ops == {"Z0", "XZ", "I", "wide3", "cplx"}
TermLen(op) == CASE op = "wide3" -> 3 [] op = "XZ" -> 2 [] op = "I" -> 0 [] OTHER -> 1      \* longest term
\* terms of a real operator in dictionary order: TRUE = the term needs measurement-basis gates, FALSE = Z-only
Terms(op) == CASE op = "Z0" -> <<"z">> [] op = "XZ" -> <<"x", "z">> [] op = "I" -> <<"e">> [] op = "X1" -> <<"x">> [] OTHER -> <<>>

\* expectation outcome: cls/tag as above, sampled = the value is an average over n_shots samples, mid as above
EErr(c, t) == [cls |-> c, tag |-> t, sampled |-> FALSE, mid |-> FALSE]
EOk(smp, m) == [cls |-> "ok", tag |-> "ok", sampled |-> smp, mid |-> m]
\* Post-selecting a finite number of shots on desired_meas_result may keep no shot at all: the call then refuses with
\* "empty-frequencies" instead of returning a value - the only outcome of the protocol that is left to chance.
MayBeEmpty(s, c, des) == des # "none" /\ s # 0 /\ Mixed(c)

\* first failing simulate of a sequence of outcome records, or the ok record
RECURSIVE FirstErr(_)
FirstErr(seq) == IF seq = <<>> THEN Ok("none", FALSE, 9, TRUE, TRUE)
                 ELSE IF Head(seq).cls # "ok" THEN Head(seq) ELSE FirstErr(Tail(seq))

TermSims(k, s, nz, op, initial, usv, des) ==
  [j \in 1..Len(Terms(op)) |->
     LET t == Terms(op)[j] IN
     IF t = "e" THEN Ok("none", FALSE, 9, TRUE, TRUE)
     ELSE Sim(k, s, nz, IF t = "x" THEN Plus(initial) ELSE initial, FALSE, usv, des, FALSE)]

FromFreq(k, s, nz, op, c, isv, des) ==
  IF ~SvAvail(k) \/ Mixed(c) \/ nz
  THEN LET sims == TermSims(k, s, nz, op, c, isv, des)
           e == FirstErr(sims)
       IN IF e.cls # "ok" THEN EErr(e.cls, e.tag)
          ELSE EOk(s # 0 /\ \E j \in 1..Len(sims) : Terms(op)[j] # "e",
                   \E j \in 1..Len(sims) : sims[j].mid)
  ELSE LET r0 == Sim(k, s, nz, c, TRUE, isv, des, FALSE) IN
       IF r0.cls # "ok" THEN EErr(r0.cls, r0.tag)
       ELSE LET sims == TermSims(k, s, nz, op, "E2", TRUE, des)
                e == FirstErr(sims)
            IN IF e.cls # "ok" THEN EErr(e.cls, e.tag)
               ELSE EOk(s # 0 /\ \E j \in 1..Len(sims) : Terms(op)[j] # "e", r0.mid \/ \E j \in 1..Len(sims) : sims[j].mid)

FromSV(k, s, nz, op, c, isv, des) ==
  LET r0 == Sim(k, s, nz, c, TRUE, isv, des, FALSE) IN
  IF r0.cls # "ok" THEN EErr(r0.cls, r0.tag) ELSE EOk(FALSE, r0.mid)

ExpReal(k, s, nz, op, c, isv, des) ==
  IF nz \/ ~SvAvail(k) \/ s # 0 \/ Size(c) = 0 THEN FromFreq(k, s, nz, op, c, isv, des)
  ELSE FromSV(k, s, nz, op, c, isv, des)

Exp(k, s, nz, op, c, isv, des) ==
  IF isv /\ ~SvAvail(k) THEN EErr("ValueError", "sv-unsupported")
  ELSE IF Width(c) < TermLen(op) THEN EErr("ValueError", "op-too-wide")
  ELSE IF op = "cplx"                       \* i Z0 + 0.5 X1: real part (X1) first, then imaginary part (Z0)
       THEN LET re == ExpReal(k, s, nz, "X1", c, isv, des)
                im == ExpReal(k, s, nz, "Z0", c, isv, des)
            IN IF re.cls # "ok" THEN re ELSE IF im.cls # "ok" THEN im
               ELSE EOk(re.sampled \/ im.sampled, re.mid \/ im.mid)
  ELSE ExpReal(k, s, nz, op, c, isv, des)

\* ---- Backend.get_variance / get_standard_error ------------------------------------------------
\* Always the frequency route; unlike the expectation value, an identity term is not skipped (the code's `pass` falls
\* through to a simulation of the bare state preparation), so refusals of simulate() surface for identity-only operators too.
\* (skipE = TRUE is the equally valid implementation that skips identity terms - the variance of a constant is 0 - and is
\* accepted as well: the property does not depend on it.)
TermSimsV(skipE, k, s, nz, op, initial, usv, des) ==
  [j \in 1..Len(Terms(op)) |->
     IF skipE /\ Terms(op)[j] = "e" THEN Ok("none", FALSE, 9, TRUE, TRUE)
     ELSE Sim(k, s, nz, IF Terms(op)[j] = "x" THEN Plus(initial) ELSE initial, FALSE, usv, des, FALSE)]

VarReal(skipE, k, s, nz, op, c, isv, des) ==
  IF ~SvAvail(k) \/ Mixed(c) \/ nz
  THEN LET e == FirstErr(TermSimsV(skipE, k, s, nz, op, c, isv, des)) IN
       IF e.cls # "ok" THEN EErr(e.cls, e.tag) ELSE EOk(s # 0, FALSE)
  ELSE LET r0 == Sim(k, s, nz, c, TRUE, isv, des, FALSE) IN
       IF r0.cls # "ok" THEN EErr(r0.cls, r0.tag)
       ELSE LET e == FirstErr(TermSimsV(skipE, k, s, nz, op, "E2", TRUE, des)) IN
            IF e.cls # "ok" THEN EErr(e.cls, e.tag) ELSE EOk(s # 0, FALSE)

VarG(skipE, k, s, nz, op, c, isv, des) ==
  IF isv /\ ~SvAvail(k) THEN EErr("ValueError", "sv-unsupported")
  ELSE IF Width(c) < TermLen(op) THEN EErr("ValueError", "op-too-wide")
  ELSE IF op = "cplx"
       THEN LET re == VarReal(skipE, k, s, nz, "X1", c, isv, des)
                im == VarReal(skipE, k, s, nz, "Z0", c, isv, des)
            IN IF re.cls # "ok" THEN re ELSE IF im.cls # "ok" THEN im ELSE EOk(s # 0, FALSE)
  ELSE VarReal(skipE, k, s, nz, op, c, isv, des)
Var(k, s, nz, op, c, isv, des) == VarG(FALSE, k, s, nz, op, c, isv, des)

\* ---- the object machine ------------------------------------------------------------------------
Init == /\ phase = "new" /\ kind \in Kinds /\ shots \in ShotVals /\ noise \in BOOLEAN
        /\ midset = FALSE /\ ncalls = 0 /\ last = [act |-> "none"]

Create ==
  /\ phase = "new"
  /\ LET o == CreateOutcome(kind, shots, noise) IN
       /\ phase' = IF o.cls = "ok" THEN "live" ELSE "dead"
       /\ last' = [act |-> "create", kind |-> kind, shots |-> shots, noise |-> noise, out |-> o]
  /\ UNCHANGED <<kind, shots, noise, midset, ncalls>>

\* the user may change n_shots later as long as it keeps its type (int stays int)
SetShots(s) ==
  /\ phase = "live" /\ shots # 0 /\ s # 0 /\ s # shots /\ ncalls < MaxCalls
  /\ shots' = s
  /\ last' = [act |-> "setshots", shots |-> s]
  /\ UNCHANGED <<phase, kind, noise, midset, ncalls>>

Simulate(c, rsv, isv, des, smid) ==
  /\ phase = "live" /\ ncalls < MaxCalls
  /\ LET o == Sim(kind, shots, noise, c, rsv, isv, des, smid) IN
       /\ midset' = (midset \/ (o.cls = "ok" /\ o.mid))
       /\ last' = [act |-> "simulate", c |-> c, rsv |-> rsv, isv |-> isv, des |-> des, smid |-> smid, out |-> o,
                   kind |-> kind, shots |-> shots, noise |-> noise, midset |-> midset']
  /\ ncalls' = ncalls + 1
  /\ UNCHANGED <<phase, kind, shots, noise>>

Expect(op, c, isv, des) ==
  /\ phase = "live" /\ ncalls < MaxCalls
  /\ ~(kind = "sympy" /\ isv)     \* the symbolic target has no array format accepted on both the identity shortcut and the gate path
  /\ LET o == Exp(kind, shots, noise, op, c, isv, des) IN
       /\ midset' \in (IF o.cls = "ok" THEN {midset \/ o.mid} ELSE {midset, TRUE})   \* a failing call may have saved before failing
       /\ last' = [act |-> "expect", op |-> op, c |-> c, isv |-> isv, des |-> des, out |-> o,
                   kind |-> kind, shots |-> shots, noise |-> noise, midset |-> midset', strict |-> (o.cls = "ok"),
                   \* the value is a plain average of n_shots samples (post-selection renormalises by the number of kept shots)
                   grid |-> (o.cls = "ok" /\ o.sampled /\ des = "none"),
                   mayempty |-> (o.cls = "ok" /\ o.sampled /\ MayBeEmpty(shots, c, des))]
  /\ ncalls' = ncalls + 1
  /\ UNCHANGED <<phase, kind, shots, noise>>

\* get_variance (stderr = FALSE) or get_standard_error (stderr = TRUE): same refusals; the value is non-negative, and the
\* standard error of a backend without shots is exactly 0
Variance(stderr, op, c, isv, des) ==
  /\ phase = "live" /\ ncalls < MaxCalls
  /\ ~(kind = "sympy" /\ isv)
  /\ LET o == Var(kind, shots, noise, op, c, isv, des) IN
       /\ midset' \in {midset, TRUE}          \* not tracked for this call (re-synchronised by the replay)
       /\ last' = [act |-> "variance", stderr |-> stderr, op |-> op, c |-> c, isv |-> isv, des |-> des, out |-> o,
                   alt |-> VarG(TRUE, kind, shots, noise, op, c, isv, des),
                   kind |-> kind, shots |-> shots, noise |-> noise, midset |-> midset', strict |-> FALSE,
                   zero |-> (o.cls = "ok" /\ stderr /\ shots = 0),
                   mayempty |-> (o.cls = "ok" /\ MayBeEmpty(shots, c, des))]
  /\ ncalls' = ncalls + 1
  /\ UNCHANGED <<phase, kind, shots, noise>>

Next == \/ Create
        \/ \E s \in ShotVals : SetShots(s)
        \/ \E c \in Circs, rsv \in BOOLEAN, isv \in BOOLEAN, des \in Dess, smid \in BOOLEAN : Simulate(c, rsv, isv, des, smid)
        \/ \E op \in Ops, c \in Circs, isv \in BOOLEAN, des \in Dess : Expect(op, c, isv, des)
        \/ \E se \in BOOLEAN, op \in Ops, c \in Circs, isv \in BOOLEAN, des \in Dess : Variance(se, op, c, isv, des)

Spec == Init /\ [][Next]_vars

\* ---- properties of the protocol (checked on every reachable state / for every option combination) ----
AllSim == [k : Kinds, s : ShotVals, nz : BOOLEAN, c : Circs, rsv : BOOLEAN, isv : BOOLEAN, des : Dess, smid : BOOLEAN]
S(a) == Sim(a.k, a.s, a.nz, a.c, a.rsv, a.isv, a.des, a.smid)
Constructible(a) == CreateOutcome(a.k, a.s, a.nz).cls = "ok"

TypeOK == phase \in {"new", "live", "dead"} /\ shots \in ShotVals /\ ncalls \in 0..MaxCalls

\* a live object always satisfies the constructor's rule for its creation-time settings... until SetShots: the rule is
\* about None-ness, which SetShots cannot change
LiveRespectsCreate == phase = "live" => CreateOutcome(kind, shots, noise).cls = "ok"

\* a statevector comes back only when asked for and only from a backend exposing one (or from the identity shortcut)
SvOnlyOnRequest == \A a \in AllSim : (S(a).cls = "ok" /\ S(a).sv # "none") => a.rsv
\* a mixed state (mid-circuit measurement, nothing selected) is never reported as a pure statevector unless exactly one shot
NoPureStateForMixture ==
  \A a \in AllSim : (Constructible(a) /\ S(a).cls = "ok" /\ S(a).sv = "vector" /\ Mixed(a.c) /\ a.des = "none") => a.s = 1
\* measurement circuits are never simulated without shots unless an outcome is selected
MixedNeedsShotsOrSelection ==
  \A a \in AllSim : (Constructible(a) /\ S(a).cls = "ok" /\ Mixed(a.c) /\ a.s = 0) => (a.des # "none")
\* a noise model always comes with shots, and a noisy statevector request yields a density matrix, never a vector
NoisyNeverVector == \A a \in AllSim : (Constructible(a) /\ a.nz /\ S(a).cls = "ok" /\ Size(a.c) > 0) => S(a).sv # "vector"
\* saving mid-circuit results is exactly what desired_meas_result / CMEASURE / the flag ask for
MidIffRequested == \A a \in AllSim : (Constructible(a) /\ S(a).cls = "ok" /\ (Size(a.c) > 0 \/ a.nz)) =>
                      (S(a).mid <=> (a.smid \/ a.des # "none" \/ NCMeas(a.c) > 0))
\* width-0 circuits are never simulated
Width0Refused == \A a \in AllSim : a.c = "W0" => S(a).cls # "ok"

AllExp == [k : Kinds, s : ShotVals, nz : BOOLEAN, op : Ops, c : Circs, isv : BOOLEAN, des : Dess]
E(a) == Exp(a.k, a.s, a.nz, a.op, a.c, a.isv, a.des)
\* an expectation value is a sample average exactly when shots are set and something is measured
SampledIffShots == \A a \in AllExp : (CreateOutcome(a.k, a.s, a.nz).cls = "ok" /\ E(a).cls = "ok") =>
                      (E(a).sampled <=> (a.s # 0 /\ a.op # "I"))
\* without a statevector no initial statevector is accepted
NoSvNoInitial == \A a \in AllExp : (a.isv /\ ~SvAvail(a.k)) => E(a).cls = "ValueError"

\* action property: a call never changes the settings of the object
\* the variance route refuses at least whenever the expectation route of the same call does, except that it never needs
\* the statevector shortcut
VarRefusesWithExp == \A a \in AllExp : (E(a).cls # "ok" /\ E(a).tag \in {"sv-unsupported", "op-too-wide"}) =>
                        Var(a.k, a.s, a.nz, a.op, a.c, a.isv, a.des).tag = E(a).tag
SettingsStable == [][(last'.act \in {"simulate", "expect", "variance"}) => (kind' = kind /\ shots' = shots /\ noise' = noise /\ phase' = phase)]_vars
MidSticky == [][midset => midset']_vars

ExportTr == (Export /\ last.act # "none") => PrintT(<<"TR", ToJson(last)>>)
View == <<phase, kind, shots, noise, midset, ncalls>>
=============================================================================
