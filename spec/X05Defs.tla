------------------------------ MODULE X05Defs ------------------------------
(***************************************************************************)
(* Extension X05 - state-averaged variational solvers                       *)
(* (tangelo.algorithms.variational.SA_VQESolver / SA_OO_Solver).            *)
(*                                                                         *)
(* Exact semantics of one state-averaged evaluation:                        *)
(*   psi_i    = U(theta) R_i |0..0>     R_i: reference circuit of state i   *)
(*   E_i      = <psi_i| H |psi_i>  (+ c * SUM_d |<0| D_d^dagger |psi_i>|^2  *)
(*              when deflation circuits D_d with coefficient c are given)   *)
(*   E_SA     = SUM_i w_i E_i / SUM_i w_i     (weights are normalised)      *)
(* and of the facts a user relies on when the references are orthonormal:   *)
(*   <psi_i|psi_j> = delta_ij at every theta,                               *)
(*   lambda_min <= <psi_i|H|psi_i> <= lambda_max,                           *)
(*   SUM_i w_i <psi_i|H|psi_i> >= SUM_i w_i^(desc) lambda_i^(asc)           *)
(*   (ensemble variational principle; Schur + Cauchy interlacing).          *)
(*                                                                         *)
(* The eigenvalues are exact because the model Hamiltonians are built as    *)
(* H = V D V^dagger with D a dyadic combination of Z-words (its diagonal is *)
(* the spectrum) and V a Clifford circuit (conjugation maps Pauli words to  *)
(* signed Pauli words).  The Pauli expansion of H is computed HERE and      *)
(* handed to the code, and the lemma <psi|H|psi> = <V^dagger psi|D|V^dagger *)
(* psi> is checked on every state the machine reaches.                      *)
(*                                                                         *)
(* Order: at grid angles that are multiples of pi/4 every expectation value *)
(* is a trigonometric polynomial in the full angles, hence lies in          *)
(* Q(sqrt 2) = { (a + b sqrt2) / 2^k }: the sign of such a number is        *)
(* decided with integers (NonNeg).                                          *)
(***************************************************************************)
EXTENDS C08Defs

\* ---- order on the real subfield Q(sqrt 2) of the ring ------------------------------------------
E8 == M \div 8                                  \* sqrt2 = zeta^E8 - zeta^(3 E8)
InQ2(x) == /\ IsReal(x)
           /\ \A j \in 1..HM : (j \notin {1, 1 + E8, 1 + 3 * E8}) => x.c[j] = 0
NonNeg(x) ==
  LET a == x.c[1]
      b == x.c[1 + E8]
  IN IF a >= 0 /\ b >= 0 THEN TRUE
     ELSE IF a <= 0 /\ b <= 0 THEN FALSE
     ELSE IF a > 0 THEN a * a >= 2 * b * b      \* a > 0 > b :  a >= |b| sqrt2
     ELSE 2 * b * b >= a * a                    \* b > 0 > a
Leq(x, y) == NonNeg(Sub(y, x))
Lt(x, y)  == x # y /\ Leq(x, y)

\* ---- weighted sums ------------------------------------------------------------------------------
RECURSIVE WSumFrom(_, _, _)
WSumFrom(ws, es, x) == IF x > Len(ws) THEN RZero ELSE Add(Mul(FromInt(ws[x]), es[x]), WSumFrom(ws, es, x + 1))
WSum(ws, es) == WSumFrom(ws, es, 1)             \* SUM_i ws[i] * es[i]   (ws integers, es ring elements)
RECURSIVE ISum(_, _)
ISum(ws, x) == IF x > Len(ws) THEN 0 ELSE ws[x] + ISum(ws, x + 1)

\* ---- model Hamiltonians H = V D V^dagger -----------------------------------------------------------
\* D: operator (word |-> coefficient) on Z-words only; V: Clifford gate list
IsDiagonalOp(A, n) == \A w \in DOMAIN A : \A q \in 1..n : w[q] \in {0, 3}
ConjOp(A, V) ==
  FoldSet(LAMBDA w, acc : LET r == PushForward(w, V) IN
                          OpAdd(acc, TLCEval([v \in {r.w} |-> IF r.s = 0 THEN A[w] ELSE Neg(A[w])])),
          OpZero, DOMAIN A)
\* spectrum of D (= spectrum of H), one entry per basis state
Diagonal(A, n) == TLCEval([x \in 1..Dim(n) |-> OpExpectBasis(A, x - 1, n)])
\* operator as a sequence of terms for export
OpTerms(A) == LET ws == SetToSeq(DOMAIN A) IN TLCEval([x \in 1..Len(ws) |-> [w |-> ws[x], c |-> A[ws[x]]]])

\* ---- the ensemble --------------------------------------------------------------------------------
\* ansatz template: gate records with an extra field v (0: fixed gate with angle k; p > 0: variational, angle = theta[p])
AnsatzAt(tpl, th) == TLCEval([x \in 1..Len(tpl) |->
                       G(tpl[x].name, tpl[x].t, tpl[x].c, IF tpl[x].v = 0 THEN tpl[x].k ELSE th[tpl[x].v])])
PlainGates(gs) == TLCEval([x \in 1..Len(gs) |-> G(gs[x].name, gs[x].t, gs[x].c, gs[x].k)])
Ensemble(refs, anz, n) == TLCEval([i \in 1..Len(refs) |-> Run(ZeroState(n), PlainGates(refs[i]) \o anz, n)])
Gram(psis, n) == TLCEval([i \in 1..Len(psis) |-> TLCEval([j \in 1..Len(psis) |-> Inner(psis[i], psis[j], Dim(n))])])
IsOrthonormal(psis, n) == \A i, j \in 1..Len(psis) : Inner(psis[i], psis[j], Dim(n)) = (IF i = j THEN ROne ELSE RZero)
Energies(H, psis, n) == TLCEval([i \in 1..Len(psis) |-> ExpectOp(H, psis[i], n)])
Penalties(defl, psis, n) ==
  TLCEval([i \in 1..Len(psis) |->
     FoldLeft(LAMBDA acc, d : Add(acc, OverlapVec(PlainGates(d), psis[i], n)), RZero, defl)])
\* <psi|H^2|psi> - <psi|H|psi>^2 = 0 iff psi is an eigenvector (vacuity guard: some state must not be one)
Variance(H, psi, n) == LET hp == ApplyOp(H, psi, n) e == ExpectOp(H, psi, n) IN Sub(Norm2(hp, Dim(n)), Mul(e, e))

\* ---- the bounds ------------------------------------------------------------------------------------
\* every state energy within the spectrum
WithinSpectrum(es, lams) ==
  \A i \in 1..Len(es) : (\E x \in 1..Len(lams) : Leq(lams[x], es[i])) /\ (\E x \in 1..Len(lams) : Leq(es[i], lams[x]))
AboveMin(es, lams) == \A i \in 1..Len(es) : \E x \in 1..Len(lams) : Leq(lams[x], es[i])
\* ensemble variational principle: SUM w_i E_i >= SUM w^(desc)_i lambda^(asc)_i
EnsembleFloor(ws, lams) ==
  LET wd == SortSeq(ws, LAMBDA a, b : a > b)
      la == SortSeq(lams, Lt)
  IN WSum(wd, SubSeq(la, 1, Len(ws)))
EnsembleBound(ws, es, lams) == Leq(EnsembleFloor(ws, lams), WSum(ws, es))
=============================================================================
