----------------------------- MODULE X05SaSolver -----------------------------
(***************************************************************************)
(* Extension X05 - the SA_VQESolver object as a state machine.              *)
(*                                                                         *)
(* One action per public call of                                            *)
(* tangelo/algorithms/variational/sa_vqe_solver.py:                         *)
(*   Build          build(): reference circuits from ref_states, ansatz     *)
(*                  loaded with initial_var_params (theta index 1)          *)
(*   Energy(t)      energy_estimation(theta_t): loads theta_t in the ansatz,*)
(*                  stores state_energies, returns the weighted average     *)
(*   Simulate(s)    simulate() with a scripted optimizer that probes the    *)
(*                  parameter vectors of script s in order and returns the  *)
(*                  first probe of minimal state-averaged energy; the       *)
(*                  solver then holds optimal_var_params / optimal_energy,  *)
(*                  the ansatz (and the optimal_circuit snapshot) carry the *)
(*                  optimal parameters and state_energies describe that     *)
(*                  optimal ensemble                                         *)
(* The configuration (qubits, reference circuits, integer weights, ansatz   *)
(* template, grid parameter vectors, probe scripts, D, V with               *)
(* H = V D V^dagger, deflation circuits + coefficient) is read from the     *)
(* JSON file VERIF_X05CFG; all exact values are constants of the run.       *)
(*                                                                         *)
(* Abstract state of the solver object:                                      *)
(*   built, cur (parameter vector the ansatz circuit carries), se (the       *)
(*   state_energies attribute, <<>> before the first evaluation), seth       *)
(*   (ghost: the parameter vector se was computed at), opt (optimal          *)
(*   parameters / weighted energy / parameters frozen in optimal_circuit).  *)
(* hist records every call with the exact observations the real object must *)
(* reproduce (G: every history of length Depth is exported and replayed).    *)
(*                                                                         *)
(* Invariants (TLC, every reachable state):                                  *)
(*   CarrierOK        all energies lie in Q(sqrt2) (the order is decidable)  *)
(*   HamLemma         <psi|H|psi> = <V^dagger psi|D|V^dagger psi>            *)
(*   Orthonormal      orthonormal references stay orthonormal under U(theta)*)
(*   StateBounds      lambda_min <= <psi_i|H|psi_i> <= lambda_max            *)
(*   EnsembleOK       SUM w_i <psi_i|H|psi_i> >= SUM w^desc_i lambda^asc_i   *)
(*   PenaltyRange     0 <= deflation overlap sum, each overlap <= 1          *)
(*   SeOfCur          state_energies describe the circuit the ansatz holds   *)
(*                    (until build() reloads the initial parameters)         *)
(*   OptIsMin         optimal energy <= energy of every probe of the script  *)
(*   OptConsistent    after simulate: ansatz, snapshot and state_energies    *)
(*                    all describe the optimal parameters                    *)
(***************************************************************************)
EXTENDS X05Defs

CONSTANTS Depth, Export

Cfg == JsonDeserialize(IOEnv.VERIF_X05CFG)
N       == Cfg.n
Refs    == Cfg.refs
K       == Len(Refs)
Ws      == Cfg.weights
W       == ISum(Ws, 1)
Tpl     == Cfg.anz
Thetas  == Cfg.thetas
NT      == Len(Thetas)
Scripts == Cfg.scripts
DOp     == OpFromTerms(Cfg.dterms)
VGates  == PlainGates(Cfg.vgates)
Defl    == Cfg.defl
DeflC   == Cfg.deflc

ASSUME CfgOK == /\ K >= 1 /\ Len(Ws) = K /\ \A i \in 1..K : Ws[i] >= 0
                /\ W > 0
                /\ IsDiagonalOp(DOp, N)
                /\ AllClifford(VGates)
                /\ \A i \in 1..K : AllWellFormed(PlainGates(Refs[i]), N)
                /\ \A t \in 1..NT : AllWellFormed(AnsatzAt(Tpl, Thetas[t]), N)

\* ---- exact constants of the run -------------------------------------------------------------------
Ham   == ConjOp(DOp, VGates)                         \* Pauli expansion of V D V^dagger
Lams  == Diagonal(DOp, N)                            \* its spectrum
RefStates == Ensemble(Refs, <<>>, N)
RefsOrthonormal == IsOrthonormal(RefStates, N)
Psis  == TLCEval([t \in 1..NT |-> Ensemble(Refs, AnsatzAt(Tpl, Thetas[t]), N)])
Plain == TLCEval([t \in 1..NT |-> Energies(Ham, Psis[t], N)])
Pens  == TLCEval([t \in 1..NT |-> Penalties(Defl, Psis[t], N)])
SE    == TLCEval([t \in 1..NT |-> TLCEval([i \in 1..K |-> Add(Plain[t][i], Mul(DeflC, Pens[t][i]))])])
EW    == TLCEval([t \in 1..NT |-> WSum(Ws, SE[t])])  \* W * state-averaged energy
NonEigen == TLCEval([t \in 1..NT |-> \E i \in 1..K : Variance(Ham, Psis[t][i], N) # RZero])

\* first probe of minimal weighted energy
Best(s) == LET sc == Scripts[s] IN
           sc[CHOOSE j \in 1..Len(sc) : /\ \A l \in 1..Len(sc) : Leq(EW[sc[j]], EW[sc[l]])
                                        /\ \A l \in 1..(j - 1) : EW[sc[l]] # EW[sc[j]]]

Nil == [t |-> 0]

VARIABLES built, cur, se, seth, opt, hist
vars == <<built, cur, se, seth, opt, hist>>

Init == built = FALSE /\ cur = 0 /\ se = <<>> /\ seth = 0 /\ opt = Nil /\ hist = <<>>

Build ==
  /\ built' = TRUE
  /\ cur' = 1                                          \* initial_var_params
  /\ UNCHANGED <<se, seth, opt>>
  /\ hist' = Append(hist, [a |-> "build", cur |-> 1, se |-> se, optt |-> opt.t])

Energy(t) ==
  /\ built
  /\ cur' = t /\ se' = SE[t] /\ seth' = t
  /\ UNCHANGED <<built, opt>>
  /\ hist' = Append(hist, [a |-> "energy", t |-> t, ew |-> EW[t], cur |-> t, se |-> SE[t], optt |-> opt.t,
                           plain |-> Plain[t], pen |-> Pens[t], noneigen |-> NonEigen[t]])

Simulate(s) ==
  /\ built
  /\ LET b == Best(s) IN
     /\ cur' = b /\ se' = SE[b] /\ seth' = b
     /\ opt' = [t |-> b, ew |-> EW[b], circ |-> b]
     /\ hist' = Append(hist, [a |-> "simulate", s |-> s, ew |-> EW[b], cur |-> b, se |-> SE[b], optt |-> b,
                              last |-> Scripts[s][Len(Scripts[s])], selast |-> SE[Scripts[s][Len(Scripts[s])]]])
  /\ UNCHANGED built

Next == /\ Len(hist) < Depth
        /\ \/ Build
           \/ \E t \in 1..NT : Energy(t)
           \/ \E s \in 1..Len(Scripts) : Simulate(s)

\* ---- invariants -------------------------------------------------------------------------------------
Reach == IF cur = 0 THEN {} ELSE {cur} \cup (IF opt.t = 0 THEN {} ELSE {opt.t})

CarrierOK   == \A t \in Reach : \A i \in 1..K : InQ2(Plain[t][i]) /\ InQ2(Pens[t][i]) /\ InQ2(SE[t][i])
HamLemma    == \A t \in Reach : \A i \in 1..K :
                 Plain[t][i] = ExpectOp(DOp, Run(Psis[t][i], InvGates(VGates), N), N)
Normalised  == \A t \in Reach : \A i \in 1..K : Norm2(Psis[t][i], Dim(N)) = ROne
Orthonormal == RefsOrthonormal => \A t \in Reach : IsOrthonormal(Psis[t], N)
StateBounds == \A t \in Reach : WithinSpectrum(Plain[t], Lams)
EnsembleOK  == RefsOrthonormal => \A t \in Reach : EnsembleBound(Ws, Plain[t], Lams)
PenaltyRange == \A t \in Reach : \A i \in 1..K : NonNeg(Pens[t][i]) /\ Leq(Pens[t][i], FromInt(Len(Defl)))
SeOfCur     == se # <<>> => /\ se = SE[seth]
                            /\ (hist[Len(hist)].a # "build" => seth = cur)     \* build() reloads initial_var_params, state_energies stay
OptIsMin    == opt.t # 0 => \A s \in 1..Len(Scripts) : (Best(s) = opt.t => \A l \in 1..Len(Scripts[s]) : Leq(opt.ew, EW[Scripts[s][l]]))
OptConsistent == opt.t # 0 => (opt.ew = EW[opt.t] /\ opt.circ = opt.t)
\* the weighted energy reported by a call is the weighted sum of the state energies stored by that call
Reported    == \A x \in 1..Len(hist) : hist[x].a \in {"energy", "simulate"} => hist[x].ew = WSum(Ws, hist[x].se)

ExportHist == (Export /\ Len(hist) = Depth) => PrintT(<<"BH", ToJson(hist)>>)
\* constants the harness needs to drive the code: the Hamiltonian's Pauli terms, the spectrum, W
ExportCfg == (Export /\ hist = <<>>) =>
               PrintT(<<"HAM", ToJson([terms |-> OpTerms(Ham), lams |-> Lams, W |-> W, orth |-> RefsOrthonormal,
                                       floor |-> EnsembleFloor(Ws, Lams)])>>)
=============================================================================
