------------------------------ MODULE X05Trace ------------------------------
(***************************************************************************)
(* V-part of X05: artefacts recorded from SA_VQESolver / SA_OO_Solver are   *)
(* evaluated exactly.  One job = one (solver, parameter vector):            *)
(*   n, engine ("ring": exact statevectors | "cliff": stabiliser engine,    *)
(*              Clifford-point angles only),                                 *)
(*   refs    the reference circuits the solver built (one gate list each),  *)
(*   anz     the gate list of the ansatz circuit at the parameter vector     *)
(*           (followed by a unitary projective circuit, if any),             *)
(*   words   Pauli words of the operator(s) whose coefficients are floats   *)
(*   defl    deflation circuits.                                             *)
(* TLC decides the premises (gates on the exact carrier, words well formed, *)
(* Clifford-ness for the stabiliser engine), evaluates per state i          *)
(*   e[i][j]  = <psi_i| P_j |psi_i>,   psi_i = anz . refs[i] |0>             *)
(*   ov[i][d] = |<0| defl_d^dagger |psi_i>|^2                                *)
(* and (ring engine) the Gram matrices of the references and of the psi_i;  *)
(* verdicts: every psi_i normalised, expectation values real, and an        *)
(* orthonormal reference ensemble stays orthonormal (the premise of the     *)
(* ensemble variational principle).  The harness contracts e with the float *)
(* coefficients of the Hamiltonian it assembled and compares with what the  *)
(* solver returned.                                                          *)
(***************************************************************************)
EXTENDS X05Defs

Jobs == JsonDeserialize(IOEnv.VERIF_JOBS)
VARIABLE i

WordsOK(ws, n) == \A x \in 1..Len(ws) : Len(ws[x]) = n /\ \A q \in 1..n : ws[x][q] \in 0..3

Premise(j) ==
  IF \E r \in 1..Len(j.refs) : ~AllWellFormed(j.refs[r], j.n) THEN "malformed-gate"
  ELSE IF ~AllWellFormed(j.anz, j.n) THEN "malformed-gate"
  ELSE IF \E d \in 1..Len(j.defl) : ~AllWellFormed(j.defl[d], j.n) THEN "malformed-gate"
  ELSE IF j.engine = "cliff" /\ (~AllClifford(j.anz) \/ (\E r \in 1..Len(j.refs) : ~AllClifford(j.refs[r]))
                                 \/ (\E d \in 1..Len(j.defl) : ~AllClifford(j.defl[d]))) THEN "not-clifford"
  ELSE IF ~WordsOK(j.words, j.n) THEN "malformed-word"
  ELSE "ok"

Eval(j) ==
  LET n    == j.n
      K    == Len(j.refs)
      full == TLCEval([r \in 1..K |-> j.refs[r] \o j.anz])
      ctx  == TLCEval([r \in 1..K |-> Ctx(j.engine, full[r], n)])
      ring == j.engine = "ring"
  IN [id    |-> j.id,
      nrm   |-> TLCEval([r \in 1..K |-> IF ring THEN Norm2(ctx[r], Dim(n)) ELSE ROne]),
      e     |-> TLCEval([r \in 1..K |-> EvalWords(j.engine, ctx[r], j.words, n)]),
      ov    |-> TLCEval([r \in 1..K |-> TLCEval([d \in 1..Len(j.defl) |->
                   IF ring THEN OverlapVec(j.defl[d], ctx[r], n) ELSE OverlapCliff(j.defl[d], full[r], n)])]),
      orth0 |-> IF ring THEN IsOrthonormal(Ensemble(j.refs, <<>>, n), n) ELSE FALSE,
      orth  |-> IF ring THEN IsOrthonormal(ctx, n) ELSE FALSE]

Verdict(j, r) ==
  IF \E x \in 1..Len(r.nrm) : r.nrm[x] # ROne THEN "not-normalised"
  ELSE IF \E x \in 1..Len(r.e) : \E y \in 1..Len(r.e[x]) : ~IsReal(r.e[x][y]) THEN "complex-expectation"
  ELSE IF \E x \in 1..Len(r.ov) : \E y \in 1..Len(r.ov[x]) : ~IsReal(r.ov[x][y]) THEN "complex-expectation"
  ELSE IF r.orth0 /\ ~r.orth THEN "orthonormality-lost"
  ELSE "ok"

Judge(j) ==
  LET p == Premise(j) IN
  IF p # "ok" THEN PrintT(<<"V", j.id, p>>)
  ELSE LET r == Eval(j) IN
       /\ PrintT(<<"R", ToJson(r)>>)
       /\ PrintT(<<"V", j.id, Verdict(j, r)>>)

JInit == i \in 1..Len(Jobs)
JNext == i > 0 /\ Judge(Jobs[i]) /\ i' = 0
=============================================================================
