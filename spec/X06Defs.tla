------------------------------- MODULE X06Defs -------------------------------
(***************************************************************************)
(* Exact number systems used by the X06 specifications (numerical          *)
(* post-processing and the rotosolve optimiser):                            *)
(*                                                                         *)
(*  Q   rationals <<num, den>>, den > 0, lowest terms (unique normal form,  *)
(*      "=" decides equality).  All products are cross-reduced before       *)
(*      multiplying because TLC integers are 32 bit and overflow raises.    *)
(*  S2  the ring Z[sqrt 2]: pairs <<a, b>> = a + b*sqrt(2), with an exact   *)
(*      sign test (needed to order energies on the pi/4 angle grid, where   *)
(*      cos/sin take the values 0, +-1, +-sqrt(2)/2).                        *)
(*  QM  square matrices of rationals (functions 1..d -> 1..d -> Q).         *)
(* No variables: extended by the state machines and by the trace spec.     *)
(***************************************************************************)
EXTENDS Integers, Sequences, FiniteSets, TLC, FiniteSetsExt, SequencesExt

Abs(x) == IF x < 0 THEN -x ELSE x
RECURSIVE GCD(_, _)
GCD(a, b) == IF b = 0 THEN a ELSE GCD(b, a % b)          \* a, b >= 0

\* ---------------------------------------------------------------- rationals
Q(n, d)  == LET s == IF d < 0 THEN -1 ELSE 1
                g == GCD(Abs(n), Abs(d))
            IN <<(s * n) \div g, (s * d) \div g>>           \* d # 0
QInt(n)  == <<n, 1>>
QZero    == <<0, 1>>
QOne     == <<1, 1>>
QNeg(x)  == <<-x[1], x[2]>>
QAdd(x, y) == LET g == GCD(x[2], y[2]) IN Q(x[1] * (y[2] \div g) + y[1] * (x[2] \div g), (x[2] \div g) * y[2])
QSub(x, y) == QAdd(x, QNeg(y))
QMul(x, y) == LET g1 == GCD(Abs(x[1]), y[2])
                  g2 == GCD(Abs(y[1]), x[2])
              IN Q((x[1] \div g1) * (y[1] \div g2), (x[2] \div g2) * (y[2] \div g1))
QInv(x)  == IF x[1] < 0 THEN <<-x[2], -x[1]>> ELSE <<x[2], x[1]>>        \* x # 0
QDiv(x, y) == QMul(x, QInv(y))
QSq(x)   == <<x[1] * x[1], x[2] * x[2]>>
QSign(x) == IF x[1] > 0 THEN 1 ELSE IF x[1] < 0 THEN -1 ELSE 0
QAbs(x)  == <<Abs(x[1]), x[2]>>
QLe(x, y) == QSign(QSub(x, y)) <= 0
QLt(x, y) == QSign(QSub(x, y)) < 0
RECURSIVE QPow(_, _)
QPow(x, k) == IF k = 0 THEN QOne ELSE QMul(x, QPow(x, k - 1))
IsQ(x)   == x \in Seq(Int) /\ Len(x) = 2 /\ x[2] > 0 /\ GCD(Abs(x[1]), x[2]) = 1

\* sum / product of f(i) for i in 1..n
QSum(f(_), n) == LET RECURSIVE s(_)
                     s(i) == IF i > n THEN QZero ELSE QAdd(f(i), s(i + 1))
                 IN s(1)
QProd(f(_), n) == LET RECURSIVE p(_)
                      p(i) == IF i > n THEN QOne ELSE QMul(f(i), p(i + 1))
                  IN p(1)

\* --------------------------------------------------------------- Z[sqrt 2]
SZero == <<0, 0>>
SInt(n) == <<n, 0>>
SAdd(x, y) == <<x[1] + y[1], x[2] + y[2]>>
SNeg(x)    == <<-x[1], -x[2]>>
SSub(x, y) == <<x[1] - y[1], x[2] - y[2]>>
SScale(k, x) == <<k * x[1], k * x[2]>>
SMul(x, y) == <<x[1] * y[1] + 2 * x[2] * y[2], x[1] * y[2] + x[2] * y[1]>>
\* sign of a + b sqrt 2 (a^2 = 2 b^2 only for a = b = 0)
SSign(x) == LET a == x[1]
                b == x[2]
            IN IF a = 0 /\ b = 0 THEN 0
               ELSE IF a >= 0 /\ b >= 0 THEN 1
               ELSE IF a <= 0 /\ b <= 0 THEN -1
               ELSE IF a > 0 THEN (IF a * a > 2 * b * b THEN 1 ELSE -1)          \* b < 0
               ELSE (IF 2 * b * b > a * a THEN 1 ELSE -1)                          \* a < 0, b > 0
SAbs(x) == IF SSign(x) < 0 THEN SNeg(x) ELSE x
SLe(x, y) == SSign(SSub(x, y)) <= 0
SLt(x, y) == SSign(SSub(x, y)) < 0
SSum(f(_), n) == LET RECURSIVE s(_)
                     s(i) == IF i > n THEN SZero ELSE SAdd(f(i), s(i + 1))
                 IN s(1)

\* ------------------------------------------------------- rational matrices
QMat(E(_, _), d) == TLCEval([r \in 1..d |-> TLCEval([c \in 1..d |-> E(r, c)])])
MMul(A, B, d) == QMat(LAMBDA r, c : QSum(LAMBDA k : QMul(A[r][k], B[k][c]), d), d)
MLin(x, A, y, B, d) == QMat(LAMBDA r, c : QAdd(QMul(x, A[r][c]), QMul(y, B[r][c])), d)     \* x A + y B
MTrace(A, d) == QSum(LAMBDA k : A[k][k], d)
=============================================================================
