------------------------------ MODULE X06Extrap ------------------------------
(***************************************************************************)
(* X06 part (i): zero-noise extrapolation                                  *)
(* (tangelo.toolboxes.post_processing.extrapolation).                       *)
(*                                                                         *)
(* State: one data set (noise-scale factors c_1..c_n: pairwise distinct     *)
(* rationals IN ANY ORDER, energies E_i = P(c_i) of a polynomial P with     *)
(* integer coefficients a_0..a_{n-1}, standard errors s_i) and the result   *)
(* of the last public call.  One action per public function:                *)
(*   CallRichardson    richardson / richardson_analytical: explicit         *)
(*                     weights  x_i = PROD_{j#i} c_j / (c_j - c_i)          *)
(*   CallExtrap(k)     extrapolation(taylor_order = k): minimum-norm        *)
(*                     solution of the DIIS equations = intercept of the    *)
(*                     least-squares polynomial of degree k  (k = n-1:      *)
(*                     Richardson; k = 1: DIIS, closed form; k = 2: 3x3      *)
(*                     cofactors of the moment matrix)                      *)
(*   CallDiis          diis = CallExtrap(1)                                 *)
(*   CallExpEst        richardson(estimate_exp = TRUE) on three points of   *)
(*                     E* + A c^p: one elimination level with the exponent  *)
(*                     p (the value the numerical optimiser has to find)    *)
(* Results are exact rationals: energy and VARIANCE (square of the          *)
(* documented error estimate sqrt(SUM s_i^2 x_i^2)).                        *)
(*                                                                         *)
(* Invariants (S): the weights of every order k satisfy the moment          *)
(* equations (SUM x = 1, SUM x c^j = 0 for 1 <= j <= k), hence every call    *)
(* returns P(0) whenever deg P <= k; Richardson does so for every data set;  *)
(* the three weight formulas agree where their domains meet; the result      *)
(* does not depend on the order of the points.  Every transition is          *)
(* exported (TR) and replayed on the real functions.                         *)
(***************************************************************************)
EXTENDS X06Defs, Json

CONSTANTS Vals,        \* set of rationals: admissible noise-scale factors
          MinN, MaxN,  \* number of data points
          SortedFrom,  \* data sets with at least this many points are explored in ascending order only
          CoefVals,    \* integer polynomial coefficients
          Export

ValsQuick    == {<<1, 1>>, <<3, 2>>, <<2, 1>>, <<3, 1>>}
ValsThorough == {<<1, 2>>, <<1, 1>>, <<3, 2>>, <<2, 1>>, <<3, 1>>, <<4, 1>>}
ValsWide     == {<<v, 1>> : v \in 1..7}
CoefQuick    == {-1, 0, 2}
CoefWide     == {-1, 2}

VARIABLES inst, call, out
vars == <<inst, call, out>>

InjSeqs(n) == IF n >= SortedFrom
              THEN {SetToSortSeq(S, LAMBDA x, y : QLt(x, y)) : S \in kSubset(n, Vals)}
              ELSE {f \in [1..n -> Vals] : \A i, j \in 1..n : i # j => f[i] # f[j]}
\* the data set is chosen in two steps (factor sequence in Init, polynomial by the action SetData) so that the
\* statements about the weights alone are evaluated once per factor sequence
NoData == <<>>
N(I) == Len(I.c)
Poly(a, x) == QSum(LAMBDA k : QMul(QInt(a[k]), QPow(x, k - 1)), Len(a))
Degree(a) == IF \A k \in 1..Len(a) : a[k] = 0 THEN 0 ELSE CHOOSE k \in 0..(Len(a) - 1) : a[k + 1] # 0 /\ \A j \in (k + 2)..Len(a) : a[j] = 0
Energies(I) == TLCEval([i \in 1..N(I) |-> Poly(I.a, I.c[i])])
\* standard errors in tenths, pattern selected by the instance (no extra branching)
SigSel(I) == FoldLeft(LAMBDA acc, x : acc + Abs(x), 0, I.a) % 3
Sigmas(I) == TLCEval([i \in 1..N(I) |-> Q(1 + ((i + SigSel(I)) % 3), 10)])
\* single power law  E* + A c^p  (three points)
PowEnergies(I) == TLCEval([i \in 1..3 |-> QAdd(QInt(I.a[1]), QMul(QInt(I.a[2]), QPow(I.c[i], I.p)))])

\* ---- weight formulas ------------------------------------------------------
LagW(c, i) == QProd(LAMBDA j : IF j = i THEN QOne ELSE QDiv(c[j], QSub(c[j], c[i])), Len(c))
Mom(c, k) == QSum(LAMBDA i : QPow(c[i], k), Len(c))
OlsW(c, i) == LET n == QInt(Len(c))
                  S1 == Mom(c, 1)
                  S2 == Mom(c, 2)
              IN QDiv(QSub(S2, QMul(S1, c[i])), QSub(QMul(n, S2), QMul(S1, S1)))
Cof2W(c, i) == LET S0 == QInt(Len(c))
                   S1 == Mom(c, 1)
                   S2 == Mom(c, 2)
                   S3 == Mom(c, 3)
                   S4 == Mom(c, 4)
                   C0 == QSub(QMul(S2, S4), QMul(S3, S3))
                   C1 == QSub(QMul(S2, S3), QMul(S1, S4))
                   C2 == QSub(QMul(S1, S3), QMul(S2, S2))
                   det == QAdd(QMul(S0, C0), QAdd(QMul(S1, C1), QMul(S2, C2)))
               IN QDiv(QAdd(C0, QAdd(QMul(C1, c[i]), QMul(C2, QMul(c[i], c[i])))), det)
Orders(n) == {n - 1} \cup ({1, 2} \cap 1..(n - 1))
Weights(c, k) == TLCEval([i \in 1..Len(c) |->
                   IF k = Len(c) - 1 THEN LagW(c, i) ELSE IF k = 1 THEN OlsW(c, i) ELSE Cof2W(c, i)])
Dot(x, E) == QSum(LAMBDA i : QMul(x[i], E[i]), Len(x))
VarOf(x, s) == QSum(LAMBDA i : QMul(QSq(s[i]), QSq(x[i])), Len(x))
Result(x, E, s) == [e |-> Dot(x, E), v |-> VarOf(x, s), w |-> x]

\* one elimination level of the recursive Richardson scheme with exponent p on points 1,2 (code: j = 0)
ExpEstResult(I) ==
  LET t == QPow(QDiv(I.c[1], I.c[2]), I.p)
      E == PowEnergies(I)
      s == Sigmas(I)
      d == QSub(t, QOne)
  IN [e |-> QDiv(QSub(QMul(t, E[2]), E[1]), d),
      v |-> QDiv(QAdd(QSq(QMul(t, s[2])), QSq(s[1])), QSq(d)),
      w |-> <<>>]

\* ---- state machine ---------------------------------------------------------
Init == inst \in {[c |-> c, a |-> NoData, p |-> 0] : c \in UNION {InjSeqs(n) : n \in MinN..MaxN}} /\ call = [f |-> "none", k |-> 0] /\ out = [e |-> QZero, v |-> QZero, w |-> <<>>]

SetData(a, p) ==
  /\ inst.a = NoData /\ Len(a) = N(inst)
  /\ inst' = [inst EXCEPT !.a = a, !.p = p]
  /\ UNCHANGED <<call, out>>
HasData == inst.a # NoData

CallRichardson ==
  /\ call.f = "none" /\ HasData
  /\ call' = [f |-> "richardson", k |-> N(inst) - 1]
  /\ out' = Result(TLCEval([i \in 1..N(inst) |-> LagW(inst.c, i)]), Energies(inst), Sigmas(inst))
  /\ UNCHANGED inst
CallExtrap(k) ==
  /\ call.f = "none" /\ HasData /\ k \in Orders(N(inst))
  /\ call' = [f |-> "extrapolation", k |-> k]
  /\ out' = Result(Weights(inst.c, k), Energies(inst), Sigmas(inst))
  /\ UNCHANGED inst
CallDiis ==
  /\ call.f = "none" /\ HasData /\ N(inst) >= 2
  /\ call' = [f |-> "diis", k |-> 1]
  /\ out' = Result(Weights(inst.c, 1), Energies(inst), Sigmas(inst))
  /\ UNCHANGED inst
CallExpEst ==
  /\ call.f = "none" /\ HasData /\ N(inst) = 3 /\ inst.a[2] # 0
  /\ call' = [f |-> "richardson_exp", k |-> inst.p]
  /\ out' = ExpEstResult(inst)
  /\ UNCHANGED inst
Next == (\E n \in MinN..MaxN : \E a \in [1..n -> CoefVals] : \E p \in (IF n = 3 THEN 1..3 ELSE {0}) : SetData(a, p))
        \/ CallRichardson \/ (\E k \in 0..(MaxN - 1) : CallExtrap(k)) \/ CallDiis \/ CallExpEst

\* ---- invariants -------------------------------------------------------------
MomentsOK(c, k) == LET x == Weights(c, k) IN
  /\ QSum(LAMBDA i : x[i], Len(c)) = QOne
  /\ \A j \in 1..k : QSum(LAMBDA i : QMul(x[i], QPow(c[i], j)), Len(c)) = QZero
\* the weights of every order annihilate the monomials c^1..c^k and sum to one
OncePerC == ~HasData
WeightsExact == OncePerC => \A k \in Orders(N(inst)) : MomentsOK(inst.c, k)
\* where two formulas describe the same order they agree
FormulasAgree == OncePerC =>
  /\ N(inst) = 2 => \A i \in 1..2 : OlsW(inst.c, i) = LagW(inst.c, i)
  /\ N(inst) = 3 => \A i \in 1..3 : Cof2W(inst.c, i) = LagW(inst.c, i)
\* Richardson returns P(0) for every data set; order k does whenever deg P <= k
PolyExact ==
  /\ call.f = "richardson" => out.e = QInt(inst.a[1])
  /\ (call.f \in {"extrapolation", "diis"} /\ Degree(inst.a) <= call.k) => out.e = QInt(inst.a[1])
  /\ call.f = "richardson_exp" => out.e = QInt(inst.a[1])
\* the order of the (factor, energy, error) triples is irrelevant
Rev(s) == TLCEval([i \in 1..Len(s) |-> s[Len(s) + 1 - i]])
OrderIrrelevant == (HasData /\ call.f = "none") =>
  \A k \in Orders(N(inst)) :
     LET r == Result(Weights(Rev(inst.c), k), Rev(Energies(inst)), Rev(Sigmas(inst)))
         o == Result(Weights(inst.c, k), Energies(inst), Sigmas(inst))
     IN r.e = o.e /\ r.v = o.v
VarianceSane == call.f # "none" => QSign(out.v) > 0
TypeOK == IsQ(out.e) /\ IsQ(out.v)

ExportTR == (Export /\ call.f # "none") =>
  PrintT(<<"TR", ToJson([c |-> inst.c, a |-> inst.a, f |-> call.f, k |-> call.k,
                         E |-> (IF call.f = "richardson_exp" THEN PowEnergies(inst) ELSE Energies(inst)),
                         s |-> Sigmas(inst), e |-> out.e, v |-> out.v, w |-> out.w])>>)
=============================================================================
