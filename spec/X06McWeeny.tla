------------------------------ MODULE X06McWeeny ------------------------------
(***************************************************************************)
(* X06 part (iii): McWeeny purification of a two-particle RDM               *)
(* (tangelo.toolboxes.post_processing.mcweeny_purify_2rdm).                 *)
(*                                                                         *)
(* Input: a 4-index tensor T[p,q,r,s] over n spin-orbitals in chemistry     *)
(* notation with rational entries.  The machine mirrors the code:           *)
(*   Init      D[(p,q),(r,s)] = T[p,r,q,s]  (physics notation, a d x d      *)
(*             matrix over orbital pairs, d = n^2), diff = 1                *)
(*   Iterate   while |diff| > conv:  D := 3 D^2 - 2 D^3,                    *)
(*             diff := tr(D^2 - D)                                          *)
(*   Finish    back to chemistry notation, spatial 1-RDM                    *)
(*             R1[I,J] = SUM_{i in I, j in J} SUM_k chem[i,j,k,k] and       *)
(*             spatial 2-RDM R2[I,J,K,L] = SUM chem[i,j,k,l]                *)
(*             (spin-orbitals 2I, 2I+1 belong to spatial orbital I)          *)
(* All arithmetic is exact (rationals), so the number of iterations for a   *)
(* given conv is decided here.  Iterates are followed up to MaxSteps        *)
(* (entries grow doubly exponentially); longer runs end in "horizon".       *)
(*                                                                         *)
(* Invariants (S): an idempotent input is a fixed point (returned           *)
(* unchanged after exactly one iteration, diff = 0); every supplied          *)
(* eigenpair (v, lambda) of the input is an eigenpair of the k-th iterate    *)
(* with eigenvalue f^k(lambda), f(x) = 3x^2 - 2x^3; symmetric stays          *)
(* symmetric; the spatial 2-RDM sums to the sum of all entries of D.         *)
(***************************************************************************)
EXTENDS X06Defs, Json, IOUtils

CONSTANTS Export

Jobs == JsonDeserialize(IOEnv.X06_RDMS)
\* job: [id, n, den, num (n^4 integers, index ((p n + q) n + r) n + s, all 0-based), convs (sequence of <<num, den>>),
\*       evs (sequence of [v (d integers), lam <<num, den>>]), maxsteps (exact horizon of this input),
\*       src (empty, or for a "limit" input the eigenvalues of the noisy matrix it is the limit of)]

VARIABLES j, conv, D, diff, steps, status, diffs
vars == <<j, conv, D, diff, steps, status, diffs>>
MaxSteps == Jobs[j].maxsteps

Nso == Jobs[j].n
Dm  == Nso * Nso
T(p, q, r, s) == Q(Jobs[j].num[((p * Nso + q) * Nso + r) * Nso + s + 1], Jobs[j].den)
\* pair index (1-based) of (p, q), both 0-based
Pr(p, q) == p * Nso + q + 1
P1(x) == (x - 1) \div Nso
P2(x) == (x - 1) % Nso
D0 == QMat(LAMBDA r, c : T(P1(r), P1(c), P2(r), P2(c)), Dm)

McStep(A) == LET A2 == MMul(A, A, Dm)
                 A3 == MMul(A, A2, Dm)
             IN MLin(<<3, 1>>, A2, <<-2, 1>>, A3, Dm)
DiffOf(A) == QSub(MTrace(MMul(A, A, Dm), Dm), MTrace(A, Dm))

Init == /\ j \in 1..Len(Jobs)
        /\ conv \in {Jobs[j].convs[x] : x \in 1..Len(Jobs[j].convs)}
        /\ D = D0 /\ diff = QOne /\ steps = 0 /\ status = "run" /\ diffs = <<>>

Iterate == /\ status = "run" /\ QLt(conv, QAbs(diff)) /\ steps < MaxSteps
           /\ D' = McStep(D)
           /\ diff' = DiffOf(D')
           /\ diffs' = Append(diffs, diff')
           /\ steps' = steps + 1
           /\ UNCHANGED <<j, conv, status>>
Finish  == /\ status = "run" /\ ~QLt(conv, QAbs(diff))
           /\ status' = "done"
           /\ UNCHANGED <<j, conv, D, diff, steps, diffs>>
Horizon == /\ status = "run" /\ QLt(conv, QAbs(diff)) /\ steps = MaxSteps
           /\ status' = "horizon"
           /\ UNCHANGED <<j, conv, D, diff, steps, diffs>>
Next == Iterate \/ Finish \/ Horizon

\* ---- outputs -----------------------------------------------------------------
Chem(i, jj, kk, l) == D[Pr(i, kk)][Pr(jj, l)]
Nsp == Nso \div 2
SpinOf(I) == {2 * I, 2 * I + 1}
QSumSet(S, f(_)) == FoldSet(LAMBDA x, acc : QAdd(f(x), acc), QZero, S)
R1(I, J) == QSumSet(SpinOf(I) \X SpinOf(J) \X (0..(Nso - 1)), LAMBDA t : Chem(t[1], t[2], t[3], t[3]))
R2(I, J, K, L) == QSumSet(SpinOf(I) \X SpinOf(J) \X SpinOf(K) \X SpinOf(L), LAMBDA t : Chem(t[1], t[2], t[3], t[4]))
Rdm1 == TLCEval([I \in 1..Nsp |-> TLCEval([J \in 1..Nsp |-> R1(I - 1, J - 1)])])
Rdm2 == TLCEval([I \in 1..Nsp |-> TLCEval([J \in 1..Nsp |-> TLCEval([K \in 1..Nsp |-> TLCEval([L \in 1..Nsp |->
              R2(I - 1, J - 1, K - 1, L - 1)])])])])

\* ---- invariants ----------------------------------------------------------------
Idempotent(A) == MMul(A, A, Dm) = A
\* fixed points: an idempotent input is returned unchanged, after exactly one iteration when conv < 1
IdempotentFixed ==
  Idempotent(D0) => /\ D = D0
                    /\ steps >= 1 => diff = QZero
                    /\ steps <= 1
RECURSIVE FPow(_, _)
FPow(x, n) == IF n = 0 THEN x ELSE LET y == FPow(x, n - 1) IN QSub(QMul(<<3, 1>>, QSq(y)), QMul(<<2, 1>>, QMul(y, QSq(y))))
MatVec(A, v) == TLCEval([r \in 1..Dm |-> QSum(LAMBDA c : QMul(A[r][c], QInt(v[c])), Dm)])
\* the defining property of the McWeeny map: eigenvectors are kept, eigenvalues go through f
EigenMap ==
  \A x \in 1..Len(Jobs[j].evs) :
     LET ev == Jobs[j].evs[x] IN
     MatVec(D, ev.v) = TLCEval([r \in 1..Dm |-> QMul(FPow(ev.lam, steps), QInt(ev.v[r]))])
SymmetricKept == (\A r, c \in 1..Dm : D0[r][c] = D0[c][r]) => (\A r, c \in 1..Dm : D[r][c] = D[c][r])
\* the spin blocks partition the tensor: summing the spatial 2-RDM gives the sum of all entries of D
TotalsAgree ==
  status = "done" =>
     QSum(LAMBDA I : QSum(LAMBDA J : QSum(LAMBDA K : QSum(LAMBDA L : Rdm2[I][J][K][L], Nsp), Nsp), Nsp), Nsp)
       = QSum(LAMBDA r : QSum(LAMBDA c : D[r][c], Dm), Dm)
\* a "limit" input P of a noisy matrix A (same eigenvectors): eigenvalues of A in the basin of 1 (1/2 < x < 4/3) go to 1,
\* those in the basin of 0 (-1/3 < x < 1/2) go to 0; together with EigenMap at steps = 0 this makes P the McWeeny limit of A
LimitBasins ==
  \A x \in 1..Len(Jobs[j].src) :
     LET a == Jobs[j].src[x]
         l == Jobs[j].evs[x].lam
     IN /\ QLt(<<-1, 3>>, a) /\ QLt(a, <<4, 3>>) /\ a # <<1, 2>>
        /\ l = (IF QLt(<<1, 2>>, a) THEN QOne ELSE QZero)
TypeOK == steps \in 0..MaxSteps /\ Len(diffs) = steps

ExportRun == (Export /\ status \in {"done", "horizon"}) =>
  PrintT(<<"MW", ToJson([id |-> Jobs[j].id, conv |-> conv, status |-> status, steps |-> steps, diffs |-> diffs,
                         idem |-> Idempotent(D0),
                         rdm1 |-> IF status = "done" THEN Rdm1 ELSE <<>>,
                         rdm2 |-> IF status = "done" THEN Rdm2 ELSE <<>>])>>)
=============================================================================
